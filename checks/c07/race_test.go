// Stage race: Tflushes that arrive around their target's completion, not held
// at any schedule point (volume + alignment instead of ordering constraints).
package c07

import (
	"fmt"
	"runtime"
	"strings"
	"sync"
	"sync/atomic"
	"testing"
	"time"

	"pgregory.net/rapid"
	"verif/internal/hx"
	"verif/internal/rawc"
	"verif/internal/ref9p"
	"verif/internal/script"
)

// RacePair is one (target, Tflushes) pattern element.
type RacePair struct {
	// Kind of the target: stat, read, walkinplace (stateless), clone (a Twalk of the
	// root to the slot's own fid number; when that fid exists the target is the
	// Tclunk of it instead). Modes 3..5 park the target in the implementation
	// and always use a Tread (with an offset unique to the round).
	Kind   string `json:"kind"`
	NFlush int    `json:"nflush"`
	// Mode: how the Tflush bytes are timed against the target
	// 0 same chunk as the target; 1 the next chunk, written back to back;
	// 2 the next chunk after a spin; 3 target parked in the implementation,
	// released, (spin,) then the Tflushes are written; 4 parked, Tflushes written,
	// (spin,) then released; 5 first Tflush in the target's chunk, spin, the rest;
	// 6 parked, first Tflush written, released, the rest written
	Mode int `json:"mode"`
	Spin int `json:"spin"` // iterations of the harness's spin loop
}

type RaceSpec struct {
	Conns   int        `json:"conns"`
	Rounds  int        `json:"rounds"`
	Pairs   int        `json:"pairs"` // (target, Tflushes) pairs per round and connection, each on tags and fids of its own
	Procs   int        `json:"procs"` // GOMAXPROCS while the case runs (0 = unchanged)
	Pattern []RacePair `json:"pattern"`
}

var spinSink int64

func spin(n int) {
	for i := 0; i < n; i++ {
		atomic.AddInt64(&spinSink, 1)
	}
}

// notAtRest: the deadline passed and go9p never came to rest (decided by the caller).
type notAtRest string

func (n notAtRest) Error() string { return string(n) }

// go9pBusy returns the stack of a goroutine that is inside go9p and is not an
// idle receive loop (blocked reading the harness's transport) or an idle send
// loop; "" = the server is at rest: nothing is running, runnable or blocked
// that could still produce a reply.
var stackBuf = make([]byte, 1<<22)

func go9pBusy() string {
	buf := stackBuf // (cases run one at a time)
	n := runtime.Stack(buf, true)
	for _, blk := range strings.Split(string(buf[:n]), "\n\n") {
		if !strings.Contains(blk, "github.com/rminnich/go9p.") {
			continue
		}
		head, _, _ := strings.Cut(blk, "\n")
		if strings.Contains(blk, "(*Logger).doLog") {
			continue
		}
		inner := ""
		for _, l := range strings.Split(blk, "\n")[1:] {
			if strings.HasPrefix(l, "\t") || strings.HasPrefix(l, "runtime.") || strings.HasPrefix(l, "sync.") || strings.HasPrefix(l, "internal/") || strings.HasPrefix(l, "time.") {
				continue
			}
			inner = l
			break
		}
		if strings.HasPrefix(inner, "verif/internal/xport.(*half).read") && strings.Contains(head, "sync.Cond.Wait") && strings.Contains(blk, "go9p.(*Conn).recv") {
			continue
		}
		if strings.HasPrefix(inner, "github.com/rminnich/go9p.(*Conn).send") && strings.Contains(head, "[select") {
			continue
		}
		return blk
	}
	return ""
}

const (
	tOpen = iota + 1
	tAnswered
	tClosed // an Rflush for it has arrived
)

type raceTarget struct {
	state  int
	expect uint8 // the success reply
	desc   string
	slot   int
	effect int // +1 the slot's clone fid exists after success, -1 it is gone
}

type raceFlush struct {
	target uint16
	desc   string
}

type raceConn struct {
	idx    int
	cl     *rawc.C
	dotu   bool
	has    []bool // per slot: the clone fid exists
	tg     map[uint16]*raceTarget
	fl     map[uint16]*raceFlush
	fences map[uint16]bool
	nfence uint16
	err    error
	pairs  int
	hits   int // targets whose reply preceded the Rflush
	cancel int
	wire   []string // the last frames received (diagnostics only)
	round  int
}

func (rc *raceConn) base(p int) uint32 { return uint32(100 + rc.idx*1000 + p*4) }

func (rc *raceConn) handle(m *ref9p.Msg) error {
	if m.Tag >= 0x3F00 {
		if m.Type != ref9p.Rstat {
			return fmt.Errorf("the fence Tstat of the root (tag %d) is answered %s %q", m.Tag, ref9p.TypeName(m.Type), m.Ename)
		}
		if rc.fences[m.Tag] {
			return fmt.Errorf("two replies to the fence request with tag %d", m.Tag)
		}
		rc.fences[m.Tag] = true
		return nil
	}
	if m.Type == ref9p.Rflush {
		f := rc.fl[m.Tag]
		if f == nil {
			return fmt.Errorf("Rflush with tag %d, which is not the tag of an outstanding Tflush (a Tflush answered twice, or never sent)", m.Tag)
		}
		delete(rc.fl, m.Tag)
		t := rc.tg[f.target]
		if t.state == tOpen {
			rc.cancel++
		}
		t.state = tClosed
		return nil
	}
	t := rc.tg[m.Tag]
	if t == nil {
		return fmt.Errorf("unexpected %s with tag %d", ref9p.TypeName(m.Type), m.Tag)
	}
	switch t.state {
	case tAnswered:
		return fmt.Errorf("a second reply (%s) with tag %d: %s", ref9p.TypeName(m.Type), m.Tag, t.desc)
	case tClosed:
		return fmt.Errorf("a reply (%s) to the flushed request with tag %d was sent after an Rflush for it: the old tag is not reusable when Rflush arrives (%s)", ref9p.TypeName(m.Type), m.Tag, t.desc)
	}
	if m.Type != t.expect {
		return fmt.Errorf("%s is answered %s %q, expected %s: an earlier flushed request of this slot left fid state behind, or took effect although no reply preceded its Rflush", t.desc, ref9p.TypeName(m.Type), m.Ename, ref9p.TypeName(t.expect))
	}
	t.state = tAnswered
	rc.hits++
	if t.effect > 0 {
		rc.has[t.slot] = true
	} else if t.effect < 0 {
		rc.has[t.slot] = false
	}
	return nil
}

// collect handles frames until done() or nothing arrives for idle.
func (rc *raceConn) collect(done func() bool, idle time.Duration) (bool, error) {
	for !done() {
		f, err := rc.cl.RecvRaw(idle)
		if err == rawc.ErrTimeout {
			return false, nil
		}
		if err != nil {
			return false, fmt.Errorf("connection %d ended: %v", rc.idx, err)
		}
		m, _, derr := ref9p.Decode(f, rc.dotu)
		if derr != nil {
			return false, fmt.Errorf("server sent a frame that does not decode: %v: %x", derr, f)
		}
		if len(rc.wire) >= 400 {
			rc.wire = append(rc.wire[:0], rc.wire[200:]...)
		}
		rc.wire = append(rc.wire, fmt.Sprintf("r%d:%s/%d", rc.round, ref9p.TypeName(m.Type), m.Tag))
		if err := rc.handle(m); err != nil {
			return false, fmt.Errorf("connection %d: %v", rc.idx, err)
		}
	}
	return true, nil
}

func (rc *raceConn) fence() (bool, error) {
	tag := 0x3F00 + rc.nfence%0x80
	rc.nfence++
	delete(rc.fences, tag)
	_ = rc.cl.Send(&ref9p.Msg{Type: ref9p.Tstat, Fid: 0, Tag: tag})
	return rc.collect(func() bool { return rc.fences[tag] }, deadline)
}

func (rc *raceConn) writeRound(S *script.S, spec *RaceSpec, r int) {
	rc.tg = map[uint16]*raceTarget{}
	rc.round = r
	enc := func(m *ref9p.Msg) []byte { return ref9p.Encode(m, rc.dotu) }
	for p := 0; p < spec.Pairs; p++ {
		ps := spec.Pattern[(r*spec.Pairs+p+rc.idx*5)%len(spec.Pattern)]
		b := rc.base(p)
		ttag := uint16(100 + p*16)
		var tm *ref9p.Msg
		t := &raceTarget{state: tOpen, slot: p}
		kind := ps.Kind
		parked := ps.Mode == 3 || ps.Mode == 4 || ps.Mode == 6
		if parked {
			kind = "read"
		}
		switch kind {
		case "stat":
			tm = &ref9p.Msg{Type: ref9p.Tstat, Fid: b}
		case "read":
			tm = &ref9p.Msg{Type: ref9p.Tread, Fid: b + 1, Offset: uint64(r)<<8 | uint64(p), Count: 16}
		case "walkinplace":
			tm = &ref9p.Msg{Type: ref9p.Twalk, Fid: b, Newfid: b}
		default: // clone / clunk
			if rc.has[p] {
				tm = &ref9p.Msg{Type: ref9p.Tclunk, Fid: b + 2}
				t.effect = -1
			} else {
				tm = &ref9p.Msg{Type: ref9p.Twalk, Fid: 0, Newfid: b + 2}
				t.effect = +1
			}
		}
		tm.Tag = ttag
		t.expect = tm.Type + 1
		key := script.Key(ref9p.Canon(tm, rc.dotu))
		t.desc = fmt.Sprintf("round %d pair %d: target %s (mode %d, %d Tflush, spin %d)", r, p, key, ps.Mode, ps.NFlush, ps.Spin)
		rc.tg[ttag] = t
		nf := ps.NFlush
		if nf < 1 {
			nf = 1
		}
		if nf > 12 {
			nf = 12
		}
		fb := make([][]byte, nf)
		for i := 0; i < nf; i++ {
			ft := ttag + 1 + uint16(i)
			rc.fl[ft] = &raceFlush{ttag, fmt.Sprintf("Tflush tag %d (number %d of %d) of %s", ft, i+1, nf, t.desc)}
			fb[i] = enc(&ref9p.Msg{Type: ref9p.Tflush, Tag: ft, Oldtag: ttag})
		}
		join := func(bs [][]byte) []byte {
			var o []byte
			for _, x := range bs {
				o = append(o, x...)
			}
			return o
		}
		rc.pairs++
		if parked {
			S.Set(key, script.Behav{Hold: true})
			_ = rc.cl.SendRaw(enc(tm))
			if !S.WaitEntered(key, deadline) {
				rc.err = hangErr("race: " + t.desc + " never reached the implementation")
				return
			}
		}
		switch ps.Mode {
		case 0:
			_ = rc.cl.SendRaw(append(enc(tm), join(fb)...))
		case 1:
			_ = rc.cl.SendRaw(enc(tm))
			_ = rc.cl.SendRaw(join(fb))
		case 2:
			_ = rc.cl.SendRaw(enc(tm))
			spin(ps.Spin)
			_ = rc.cl.SendRaw(join(fb))
		case 3:
			S.Release(key)
			spin(ps.Spin)
			_ = rc.cl.SendRaw(join(fb))
		case 4:
			_ = rc.cl.SendRaw(join(fb))
			spin(ps.Spin)
			S.Release(key)
		case 5:
			_ = rc.cl.SendRaw(append(enc(tm), fb[0]...))
			spin(ps.Spin)
			if nf > 1 {
				_ = rc.cl.SendRaw(join(fb[1:]))
			}
		default:
			_ = rc.cl.SendRaw(fb[0])
			S.Release(key)
			spin(ps.Spin)
			if nf > 1 {
				_ = rc.cl.SendRaw(join(fb[1:]))
			}
		}
	}
}

func runRace(c *Case) error {
	spec := c.Race
	if spec == nil || len(spec.Pattern) == 0 || spec.Conns < 1 || spec.Pairs < 1 || spec.Pairs > 60 {
		return fmt.Errorf("harness: stage race needs a race spec")
	}
	if spec.Procs > 0 {
		defer runtime.GOMAXPROCS(runtime.GOMAXPROCS(spec.Procs))
	}
	sv := script.NewServer(script.Config{Msize: 8192, Dotu: c.Dotu, Maxpend: c.Maxpend, Flush: c.FlushMode, Auth: true, ProcOps: c.ProcOps})
	S := sv.S
	defer S.ReleaseAll()
	ver := "9P2000"
	if c.Dotu {
		ver = "9P2000.u"
	}
	var conns []*raceConn
	for i := 0; i < spec.Conns; i++ {
		cl := rawc.New(sv.Dial(fmt.Sprintf("race%d", i)))
		defer cl.Close()
		rc := &raceConn{idx: i, cl: cl, dotu: c.Dotu, has: make([]bool, spec.Pairs), fl: map[uint16]*raceFlush{}, fences: map[uint16]bool{}}
		conns = append(conns, rc)
		if r, err := cl.Version(8192, ver); err != nil || r.Type != ref9p.Rversion {
			return fmt.Errorf("prologue: Tversion: %v", err)
		}
		if r, err := cl.Attach(0, ref9p.NOFID, "alice", "", 1001); err != nil || r.Type != ref9p.Rattach {
			return fmt.Errorf("prologue: Tattach: %v %+v", err, r)
		}
		for p := 0; p < spec.Pairs; p++ {
			b := rc.base(p)
			if r, err := cl.RPC(&ref9p.Msg{Type: ref9p.Twalk, Fid: 0, Newfid: b}); err != nil || r.Type != ref9p.Rwalk {
				return fmt.Errorf("prologue: clone: %v %+v", err, r)
			}
			s := &sess{sv, cl, c.Dotu}
			if err := s.prep(b+1, fmt.Sprintf("f%d", b+1), 0); err != nil {
				return err
			}
		}
	}
	// a connection that is short of Rflushes when nothing arrives any more: the
	// verdict is the fence's, with the server at rest (all writers have stopped)
	settle := func(rc *raceConn) error {
		if ok, err := rc.fence(); err != nil || !ok {
			if err == nil {
				err = hangErr(fmt.Sprintf("race: connection %d: no reply to the fence request", rc.idx))
			}
			return err
		}
		if len(rc.fl) == 0 {
			return nil
		}
		t0 := time.Now()
		busy := go9pBusy()
		for busy != "" {
			if time.Since(t0) > deadline {
				return notAtRest(fmt.Sprintf("race: connection %d: %d Tflush unanswered and go9p does not come to rest:\n%s", rc.idx, len(rc.fl), busy))
			}
			time.Sleep(2 * time.Millisecond)
			busy = go9pBusy()
		}
		if ok, err := rc.fence(); err != nil || !ok {
			if err == nil {
				err = hangErr(fmt.Sprintf("race: connection %d: no reply to the second fence request", rc.idx))
			}
			return err
		}
		if len(rc.fl) == 0 {
			return nil
		}
		var miss []string
		for _, f := range rc.fl {
			miss = append(miss, f.desc)
		}
		// (map order: only the choice of the example quoted, never the verdict)
		nreq := -1
		if conn := S.Conn(script.ConnID(fmt.Sprintf("race%d", rc.idx))); conn != nil {
			nreq, _ = conn.VerifCounts()
		}
		return fmt.Errorf("connection %d: %d Tflush never answered, e.g. %s; everything was written, two fence requests sent afterwards were answered, and between them no goroutine of go9p was running, runnable or blocked outside the idle receive and send loops (%d requests still registered on the connection)", rc.idx, len(miss), miss[0], nreq)
	}
	for r := 0; r < spec.Rounds; r++ {
		var wg sync.WaitGroup
		short := make([]bool, len(conns))
		for i, rc := range conns {
			wg.Add(1)
			go func(i int, rc *raceConn) {
				defer wg.Done()
				rc.writeRound(S, spec, r)
				if rc.err != nil {
					return
				}
				ok, err := rc.collect(func() bool { return len(rc.fl) == 0 }, 100*time.Millisecond)
				rc.err = err
				short[i] = !ok
			}(i, rc)
		}
		wg.Wait()
		S.ReleaseAll()
		for i, rc := range conns {
			if rc.err != nil {
				if _, hang := rc.err.(hangErr); !hang {
					return fmt.Errorf("%v\n%s", rc.err, rc.history(S))
				}
				return rc.err
			}
			if short[i] {
				if err := settle(rc); err != nil {
					return err
				}
			}
		}
		if c.FlushMode == script.FlushCancel {
			// The scripted FlushOp cancels what the implementation has been handed
			// and has not answered; it knows requests by their content. A request
			// cancelled in this round may still be on its way out of the
			// implementation: let it leave before a request with the same content
			// is sent, so that the FlushOp never cancels a request that has not
			// been handed over yet (an implementation cannot do that)
			t0 := time.Now()
			for n := 0; ; n++ {
				busy := go9pBusy()
				if busy == "" {
					break
				}
				if time.Since(t0) > deadline {
					return notAtRest("race: go9p does not come to rest after a round although every Tflush was answered:\n" + busy)
				}
				if n > 20 {
					time.Sleep(50 * time.Microsecond)
				} else {
					runtime.Gosched()
				}
			}
		}
	}
	// every tag used is free again: a plain request with each of them is answered
	pairs, hits, cancels := 0, 0, 0
	for _, rc := range conns {
		rc.tg = map[uint16]*raceTarget{}
		var chunk []byte
		for p := 0; p < spec.Pairs; p++ {
			for k := 0; k < 13; k++ {
				tag := uint16(100 + p*16 + k)
				rc.tg[tag] = &raceTarget{state: tOpen, expect: ref9p.Rstat, desc: "a Tstat re-using a tag after the last round"}
				chunk = append(chunk, ref9p.Encode(&ref9p.Msg{Type: ref9p.Tstat, Fid: 0, Tag: tag}, rc.dotu)...)
			}
		}
		_ = rc.cl.SendRaw(chunk)
		n0 := rc.hits
		want := len(rc.tg)
		ok, err := rc.collect(func() bool { return rc.hits-n0 == want }, deadline)
		if err != nil {
			return err
		}
		if !ok {
			if blocked := hx.BlockedInGo9p(); blocked != "" {
				return fmt.Errorf("connection %d: only %d of %d requests re-using the tags of the last round were answered; blocked inside go9p:\n%s", rc.idx, rc.hits-n0, want, blocked)
			}
			return notAtRest(fmt.Sprintf("race: connection %d: only %d of %d requests re-using the tags of the last round were answered", rc.idx, rc.hits-n0, want))
		}
		rc.hits = n0
		if ok, err := rc.fence(); err != nil || !ok {
			if err == nil {
				err = hangErr(fmt.Sprintf("race: connection %d: no reply to the final fence request", rc.idx))
			}
			return err
		}
		if conn := S.Conn(script.ConnID(fmt.Sprintf("race%d", rc.idx))); conn != nil {
			for i := 0; ; i++ {
				n, _ := conn.VerifCounts()
				if n == 0 {
					break
				}
				if i > 3000 {
					return fmt.Errorf("connection %d: %d requests still registered as outstanding at quiescence", rc.idx, n)
				}
				time.Sleep(time.Millisecond)
			}
		}
		pairs += rc.pairs
		hits += rc.hits
		cancels += rc.cancel
	}
	hx.ExtraAdd("race_pairs", int64(pairs))
	hx.ExtraAdd("race_target_answered_before_rflush", int64(hits))
	hx.ExtraAdd("race_target_cancelled", int64(cancels))
	return nil
}

func drawRace(t *rapid.T, c *Case) {
	c.Stage = "race"
	c.Target = "race"
	sp := &RaceSpec{}
	sp.Conns = rapid.IntRange(1, 4).Draw(t, "conns")
	sp.Pairs = rapid.IntRange(1, 12).Draw(t, "pairs")
	sp.Rounds = rapid.IntRange(20, 60).Draw(t, "rounds")
	sp.Procs = rapid.SampledFrom([]int{0, 2, 3, 4, 8, 16, 32}).Draw(t, "procs")
	n := rapid.IntRange(1, 12).Draw(t, "npattern")
	for i := 0; i < n; i++ {
		p := RacePair{Kind: rapid.SampledFrom([]string{"stat", "read", "walkinplace", "clone"}).Draw(t, "kind")}
		p.NFlush = rapid.SampledFrom([]int{1, 1, 2, 2, 3, 4, 4, 6, 8}).Draw(t, "nflush")
		p.Mode = rapid.IntRange(0, 6).Draw(t, "mode")
		if rapid.Bool().Draw(t, "spins") {
			p.Spin = rapid.IntRange(0, 3000).Draw(t, "spin")
		}
		sp.Pattern = append(sp.Pattern, p)
	}
	c.Race = sp
}

func TestPropRace(t *testing.T) {
	hx.Check(t, "race", hx.N(120, 1200), func(t *rapid.T) {
		c := &Case{Dotu: rapid.Bool().Draw(t, "dotu"), FlushMode: rapid.IntRange(0, 2).Draw(t, "flushmode"), Maxpend: rapid.SampledFrom([]int{0, 4}).Draw(t, "maxpend")}
		c.ProcOps = rapid.IntRange(0, 3).Draw(t, "procops") == 0
		drawRace(t, c)
		if err := execute("race", c); err != nil {
			hx.Failf(t, "race", c, "%v", err)
		}
	})
}

// history: the replies received lately on the connection and the
// implementation's log for it (diagnostics of a failure only).
func (rc *raceConn) history(S *script.S) string {
	w := rc.wire
	if len(w) > 60 {
		w = w[len(w)-60:]
	}
	var l []string
	id := script.ConnID(fmt.Sprintf("race%d", rc.idx))
	for _, e := range S.Log() {
		if e.Conn == id {
			l = append(l, fmt.Sprintf("%d:%s:%s/tag%d", e.Seq, e.Kind, e.Key, e.Tag))
		}
	}
	if len(l) > 80 {
		l = l[len(l)-80:]
	}
	return "replies received (round:type/tag): " + strings.Join(w, " ") + "\nimplementation log (seq:kind:request/tag): " + strings.Join(l, " ")
}
