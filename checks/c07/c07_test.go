// C07 — Tflush is always answered and truly cancels.
package c07

import (
	"encoding/json"
	"fmt"
	"testing"
	"time"

	"pgregory.net/rapid"
	"verif/internal/hx"
	"verif/internal/rawc"
	"verif/internal/ref9p"
	"verif/internal/sched"
	"verif/internal/script"
)

func TestMain(m *testing.M) { hx.Main(m, "C07") }

type Case struct {
	Dotu      bool         `json:"dotu"`
	FlushMode int          `json:"flushmode"` // script.FlushAbsent / FlushCancel / FlushIgnore
	Maxpend   int          `json:"maxpend"`
	Warm      []string     `json:"warm,omitempty"` // kinds of warm-up requests (recycles reply Fcalls)
	Target    string       `json:"target"`
	TErr      bool         `json:"terr,omitempty"` // the implementation answers the target with Rerror
	Stage     string       `json:"stage"`          // same-chunk, queued, held, answered, unknown, flush-of-flush, multi
	NFlush    int          `json:"nflush"`
	Holds     []sched.Hold `json:"holds,omitempty"`
	Self      bool         `json:"self,omitempty"`  // stage unknown: the first Tflush names its own tag, the others name that Tflush
	Cycle     bool         `json:"cycle,omitempty"` // stage unknown: the Tflushes, written in one chunk, name each other's tags in a ring
	// ProcOps: the implementation also provides go9p's SrvReqProcessOps (its
	// SrvReqProcess / SrvReqRespond wrappers call req.Process() / req.PostProcess()).
	ProcOps bool `json:"procops,omitempty"`
	// the wrappers dwell this long for the target before calling on (ProcOps only)
	ProcDelayUS int `json:"procdelayus,omitempty"`
	RespDelayUS int `json:"respdelayus,omitempty"`
	// stages in-process / in-respond: the target is parked inside the wrapper;
	// it is released when Tflush number ReleaseWho has passed the schedule point
	// ReleaseAt ("" = as soon as the Tflushes are written)
	ReleaseAt  string `json:"release_at,omitempty"`
	ReleaseWho int    `json:"release_who,omitempty"`
	TAsync     bool   `json:"tasync,omitempty"` // the implementation answers the target from another goroutine after the op returned
	// stage rebind: a fid-creating target (walk, attach, auth) is held in the
	// implementation, NFlush (1..64) Tflushes of it are written; each stops at
	// flush.decided (linked to the target, FlushOp not yet called) until the first
	// WaitFor of them (0 = all) are linked, then all go on at once. The moment the
	// FIRST Rflush arrives the harness re-uses the old tag: to bind the fid number
	// the target would have bound (no success reply preceded) or for a Tstat.
	WaitFor  int  `json:"waitfor,omitempty"`
	OneByOne bool `json:"onebyone,omitempty"` // the Tflushes are written one frame at a time instead of in one chunk
	// Wedge: the first Tflush written stops at respond.enter until the request that
	// re-uses the old tag has been processed (it is processed between two Rflushes)
	Wedge bool `json:"wedge,omitempty"`
	// stage race (race_test.go): many targets that complete on their own, each
	// chased by Tflushes timed to arrive around the completion; no holds
	Race *RaceSpec `json:"race,omitempty"`
}

const deadline = 30 * time.Second

var kinds = []string{"walk", "walkinplace", "open", "create", "read", "write", "stat", "wstat", "clunk", "remove", "attach", "auth"}

type hangErr string

func (h hangErr) Error() string { return string(h) }

// build returns the request of the given kind on fid (newfid = fid+1) and the
// preparation steps it needs.
func build(kind string, fid uint32) (m *ref9p.Msg, prepName string, prepOpen int) {
	name := fmt.Sprintf("%d", fid)
	prepOpen = -1
	switch kind {
	case "walk":
		return &ref9p.Msg{Type: ref9p.Twalk, Fid: fid, Newfid: fid + 1, Wname: []string{"d" + name, "f" + name}}, "d" + name, -1
	case "walkinplace":
		return &ref9p.Msg{Type: ref9p.Twalk, Fid: fid, Newfid: fid, Wname: []string{"f" + name}}, "d" + name, -1
	case "open":
		return &ref9p.Msg{Type: ref9p.Topen, Fid: fid, Mode: 2}, "f" + name, -1
	case "create":
		return &ref9p.Msg{Type: ref9p.Tcreate, Fid: fid, Name: "fnew" + name, Perm: 0o644, Mode: 1}, "d" + name, -1
	case "read":
		return &ref9p.Msg{Type: ref9p.Tread, Fid: fid, Offset: uint64(fid) << 20, Count: 100}, "f" + name, 0
	case "write":
		return &ref9p.Msg{Type: ref9p.Twrite, Fid: fid, Offset: uint64(fid) << 20, Data: script.PRF("w"+name, 50)}, "f" + name, 1
	case "stat":
		return &ref9p.Msg{Type: ref9p.Tstat, Fid: fid}, "f" + name, -1
	case "wstat":
		st := rawc.NoChangeStat()
		st.Name = "fren" + name
		return &ref9p.Msg{Type: ref9p.Twstat, Fid: fid, Stat: st}, "f" + name, -1
	case "clunk":
		return &ref9p.Msg{Type: ref9p.Tclunk, Fid: fid}, "f" + name, -1
	case "remove":
		return &ref9p.Msg{Type: ref9p.Tremove, Fid: fid}, "f" + name, -1
	case "attach":
		return &ref9p.Msg{Type: ref9p.Tattach, Fid: fid, Afid: ref9p.NOFID, Uname: "bob", Aname: "t" + name, Nuname: 1002}, "", -1
	case "auth":
		return &ref9p.Msg{Type: ref9p.Tauth, Afid: fid, Uname: "bob", Aname: "a" + name, Nuname: 1002}, "", -1
	}
	return nil, "", -1
}

type sess struct {
	sv   *script.Server
	cl   *rawc.C
	dotu bool
}

func (s *sess) prep(fid uint32, name string, open int) error {
	if name == "" {
		return nil
	}
	r, err := s.cl.Walk(0, fid, name)
	if err != nil || r.Type != ref9p.Rwalk || len(r.Wqid) != 1 {
		return fmt.Errorf("prologue: walk to %q: %v %+v", name, err, r)
	}
	if open >= 0 {
		if r, err = s.cl.Open(fid, uint8(open)); err != nil || r.Type != ref9p.Ropen {
			return fmt.Errorf("prologue: open: %v %+v", err, r)
		}
	}
	return nil
}

type frame struct {
	m     *ref9p.Msg
	stamp int64 // script sequence number taken when the harness dequeued the frame
}

func run(c *Case) error {
	if c.Stage == "race" {
		return runRace(c)
	}
	sv := script.NewServer(script.Config{Msize: 8192, Dotu: c.Dotu, Maxpend: c.Maxpend, Flush: c.FlushMode, Auth: true, ProcOps: c.ProcOps})
	S := sv.S
	holds := c.Holds
	if c.Stage == "rebind" {
		holds = append([]sched.Hold(nil), c.Holds...)
		nf := c.NFlush
		if nf < 1 {
			nf = 1
		}
		for i := 0; i < nf; i++ {
			holds = append(holds, sched.Hold{Who: fmt.Sprintf("Tflush/7/%d", 20+i), At: "flush.decided", UntilWho: "harness", UntilPoint: "go"})
		}
		if c.Wedge && nf > 1 {
			// the first Tflush written is linked first, i.e. it is the last one of
			// the chain behind the target and not the first to be answered
			for i := 1; i < nf; i++ {
				holds = append(holds, sched.Hold{Who: fmt.Sprintf("Tflush/7/%d", 20+i), At: "flush.enter", UntilWho: "Tflush/7/20", UntilPoint: "flush.linked"})
			}
			holds = append(holds, sched.Hold{Who: "Tflush/7/20", At: "respond.enter", UntilWho: script.Key(ref9p.Canon(rebindProbe(c, rebindExpected(c)), c.Dotu)), UntilPoint: "process.done"})
		}
	}
	ctl := sched.New(holds)
	if c.Stage == "rebind" {
		ctl.Timeout = time.Second
	}
	defer sched.Install(ctl)()
	end := sv.Dial("c07")
	cl := rawc.New(end)
	defer cl.Close()
	defer S.ReleaseAll()
	s := &sess{sv, cl, c.Dotu}
	ver := "9P2000"
	if c.Dotu {
		ver = "9P2000.u"
	}
	if r, err := cl.Version(8192, ver); err != nil || r.Type != ref9p.Rversion {
		return fmt.Errorf("prologue: Tversion: %v", err)
	}
	if r, err := cl.Attach(0, ref9p.NOFID, "alice", "", 1001); err != nil || r.Type != ref9p.Rattach {
		return fmt.Errorf("prologue: Tattach: %v %+v", err, r)
	}
	// warm-up: completed requests whose reply Fcalls go back to the pool
	fid := uint32(1000)
	for _, k := range c.Warm {
		m, pn, po := build(k, fid)
		if err := s.prep(fid, pn, po); err != nil {
			return err
		}
		if r, err := cl.RPC(m); err != nil || r.Type == ref9p.Rerror {
			return fmt.Errorf("prologue: warm-up %s: %v %+v", k, err, r)
		}
		fid += 2
	}
	// the target, on fid 100 (newfid 101), tag 7
	const ttag = 7
	tm, pn, po := build(c.Target, 100)
	if tm == nil {
		return fmt.Errorf("harness: unknown target kind %q", c.Target)
	}
	if err := s.prep(100, pn, po); err != nil {
		return err
	}
	tm.Tag = ttag
	tkey := script.Key(ref9p.Canon(tm, c.Dotu))
	tb := script.Behav{}
	if c.TErr {
		tb.Err, tb.Ecode = "scripted failure", 5
	}
	tb.Async = c.TAsync
	if c.ProcOps && c.ProcDelayUS > 0 {
		S.Set(script.WrapKey("process", tkey), script.Behav{DelayUS: c.ProcDelayUS})
	}
	if c.ProcOps && c.RespDelayUS > 0 {
		S.Set(script.WrapKey("respond", tkey), script.Behav{DelayUS: c.RespDelayUS})
	}
	// bystanders held in the implementation for the whole case (unknown-tag stage)
	var held []string
	if c.Stage == "unknown" {
		for i := 0; i < 2; i++ {
			bm, bn, bo := build("read", uint32(200+2*i))
			if err := s.prep(uint32(200+2*i), bn, bo); err != nil {
				return err
			}
			bm.Tag = uint16(50 + i)
			k := script.Key(ref9p.Canon(bm, c.Dotu))
			S.Set(k, script.Behav{Hold: true})
			held = append(held, k)
			_ = cl.Send(bm)
		}
		for _, k := range held {
			if !S.WaitEntered(k, deadline) {
				return hangErr("bystander never reached the implementation")
			}
		}
	}
	logStart := len(S.Log())
	nflush := c.NFlush
	if nflush < 1 {
		nflush = 1
	}
	flushTags := []uint16{}
	mkFlush := func(i int, old uint16) *ref9p.Msg {
		t := uint16(20 + i)
		flushTags = append(flushTags, t)
		return &ref9p.Msg{Type: ref9p.Tflush, Tag: t, Oldtag: old}
	}
	var okey string // older same-tag request (stage queued)
	rebindStage := false
	var answeredFirst *ref9p.Msg
	targetSent := true
	switch c.Stage {
	case "same-chunk":
		S.Set(tkey, tb)
		buf := ref9p.Encode(tm, c.Dotu)
		for i := 0; i < nflush; i++ {
			buf = append(buf, ref9p.Encode(mkFlush(i, ttag), c.Dotu)...)
		}
		_ = cl.SendRaw(buf)
	case "queued":
		om, on, oo := build("read", 300)
		if err := s.prep(300, on, oo); err != nil {
			return err
		}
		om.Tag = ttag
		okey = script.Key(ref9p.Canon(om, c.Dotu))
		S.Set(okey, script.Behav{Hold: true})
		S.Set(tkey, tb)
		_ = cl.Send(om)
		if !S.WaitEntered(okey, deadline) {
			return hangErr("older same-tag request never reached the implementation")
		}
		buf := ref9p.Encode(tm, c.Dotu)
		for i := 0; i < nflush; i++ {
			buf = append(buf, ref9p.Encode(mkFlush(i, ttag), c.Dotu)...)
		}
		_ = cl.SendRaw(buf)
	case "held", "flush-of-flush", "multi":
		tb.Hold = true
		S.Set(tkey, tb)
		_ = cl.Send(tm)
		if !S.WaitEntered(tkey, deadline) {
			return hangErr("target never reached the implementation")
		}
		if c.Stage == "flush-of-flush" {
			_ = cl.Send(mkFlush(0, ttag))
			time.Sleep(200 * time.Microsecond)
			_ = cl.Send(mkFlush(1, flushTags[0]))
		} else {
			for i := 0; i < nflush; i++ {
				_ = cl.Send(mkFlush(i, ttag))
			}
		}
	case "rebind":
		// the target is parked in the implementation (Tauth: in AuthInit) and has
		// reserved its fid number; the Tflushes queue up behind it
		if c.Target != "walk" && c.Target != "attach" && c.Target != "auth" {
			return fmt.Errorf("harness: stage rebind needs a target that binds a new fid number, not %q", c.Target)
		}
		tb.Hold = true
		S.Set(tkey, tb)
		ekey := tkey
		if c.Target == "auth" {
			ekey = "authinit/" + tm.Aname
			S.Set(ekey, script.Behav{Hold: true})
		}
		_ = cl.Send(tm)
		if !S.WaitEntered(ekey, deadline) {
			return hangErr("target never reached the implementation")
		}
		var chunk []byte
		for i := 0; i < nflush; i++ {
			if c.OneByOne {
				_ = cl.Send(mkFlush(i, ttag))
			} else {
				chunk = append(chunk, ref9p.Encode(mkFlush(i, ttag), c.Dotu)...)
			}
		}
		if len(chunk) > 0 {
			_ = cl.SendRaw(chunk)
		}
		w := c.WaitFor
		if w < 1 || w > nflush {
			w = nflush
		}
		if c.Wedge && w < 2 && nflush > 1 {
			w = 2 // the wedged Tflush must not be the only one linked
		}
		for i := 0; i < w; i++ {
			fk := fmt.Sprintf("Tflush/%d/%d", ttag, 20+i)
			if !ctl.WaitSeen(fk, "flush.linked", deadline) {
				return hangErr(fmt.Sprintf("%s never reached flush.linked while the target is held in the implementation", fk))
			}
		}
		ctl.Signal("harness", "go")
		if c.FlushMode != script.FlushCancel || c.Target == "auth" {
			S.ReleaseAll() // nobody cancels: the target completes
		}
		rebindStage = true
	case "in-process", "in-respond":
		// the target sits inside the implementation's SrvReqProcess wrapper
		// (before req.Process()) or SrvReqRespond wrapper (its reply decided,
		// before req.PostProcess()) while the Tflushes arrive
		if !c.ProcOps {
			return fmt.Errorf("harness: stage %s needs procops", c.Stage)
		}
		wkey := script.WrapKey(c.Stage[3:], tkey)
		wb := script.Behav{Hold: true, DelayUS: c.ProcDelayUS}
		if c.Stage == "in-respond" {
			wb.DelayUS = c.RespDelayUS
		}
		S.Set(wkey, wb)
		S.Set(tkey, tb)
		_ = cl.Send(tm)
		if !S.WaitEntered(wkey, deadline) {
			return hangErr("target never reached the implementation's " + c.Stage[3:] + " wrapper")
		}
		for i := 0; i < nflush; i++ {
			_ = cl.Send(mkFlush(i, ttag))
		}
		if c.ReleaseAt != "" {
			fk := fmt.Sprintf("Tflush/%d/%d", ttag, 20+c.ReleaseWho%nflush)
			if !ctl.WaitSeen(fk, c.ReleaseAt, deadline) {
				return hangErr(fmt.Sprintf("%s never reached %s while the target is parked in the %s wrapper", fk, c.ReleaseAt, c.Stage[3:]))
			}
		}
	case "answered":
		S.Set(tkey, tb)
		r, err := cl.RPCTag(tm)
		if err != nil {
			return fmt.Errorf("target: %v", err)
		}
		answeredFirst = r
		for i := 0; i < nflush; i++ {
			_ = cl.Send(mkFlush(i, ttag))
		}
	case "unknown":
		targetSent = false
		var ring []byte
		for i := 0; i < nflush; i++ {
			old := uint16(0x4000 + i)
			if c.Self {
				old = 20 // mkFlush gives flush i the tag 20+i
			}
			if c.Cycle {
				// each names the tag of the next one, which arrives after it
				old = uint16(20 + (i+1)%nflush)
				ring = append(ring, ref9p.Encode(mkFlush(i, old), c.Dotu)...)
				continue
			}
			_ = cl.Send(mkFlush(i, old))
		}
		if c.Cycle {
			_ = cl.SendRaw(ring)
		}
	default:
		return fmt.Errorf("harness: unknown stage %q", c.Stage)
	}

	// collect frames; release held requests when appropriate
	var frames []frame
	if answeredFirst != nil {
		frames = append(frames, frame{answeredFirst, S.Seq()})
	}
	gotFlush := map[uint16]int{}
	var probe *ref9p.Msg  // stage rebind: the request sent with the old tag at the first Rflush
	var post []*ref9p.Msg // non-Rflush frames with the old tag that arrived after it was sent
	rebinding := false
	recv := func(d time.Duration) (bool, error) {
		f, err := cl.RecvRaw(d)
		if err == rawc.ErrTimeout {
			return false, nil
		}
		if err != nil {
			return false, fmt.Errorf("connection ended: %v", err)
		}
		m, _, derr := ref9p.Decode(f, c.Dotu)
		if derr != nil {
			return false, fmt.Errorf("server sent a frame that does not decode: %v: %x", derr, f)
		}
		if probe != nil && m.Tag == ttag && m.Type != ref9p.Rflush {
			post = append(post, m)
			return true, nil
		}
		frames = append(frames, frame{m, S.Seq()})
		if m.Type == ref9p.Rflush {
			gotFlush[m.Tag]++
		}
		return true, nil
	}
	allFlushed := func() bool {
		for _, t := range flushTags {
			if gotFlush[t] == 0 {
				return false
			}
		}
		return true
	}
	if c.Stage == "unknown" {
		// Rflush must arrive while every other request is still held
		for !allFlushed() {
			ok, err := recv(deadline)
			if err != nil {
				return err
			}
			if !ok {
				return hangErr("Tflush of an unknown tag was not answered while other requests are held")
			}
		}
		for _, f := range frames {
			if f.m.Type != ref9p.Rflush {
				return fmt.Errorf("unexpected %s (tag %d) while every request is held", ref9p.TypeName(f.m.Type), f.m.Tag)
			}
		}
	}
	if rebindStage {
		// the first Rflush: from this moment the old tag is free, and so is
		// everything a request that was not answered with success had reserved
		for len(gotFlush) == 0 {
			ok, err := recv(deadline)
			if err != nil {
				return err
			}
			if !ok {
				return hangErr("no Tflush was answered although the FlushOp cancels the target / the target was released")
			}
		}
		bound := false
		for _, f := range frames {
			if f.m.Tag == ttag && f.m.Type == tm.Type+1 {
				bound = true
			}
		}
		rebinding = !bound
		p := rebindProbe(c, rebinding)
		p.Tag = ttag
		_ = cl.Send(p)
		probe = p
		hx.Label(fmt.Sprintf("old tag re-used at the first Rflush, re-binding the fid number=%v", rebinding))
	}
	// give a cancelling FlushOp the chance to answer while the target is still held
	if c.Stage == "held" || c.Stage == "multi" || c.Stage == "flush-of-flush" || c.Stage == "queued" {
		wait := 3 * time.Millisecond
		if c.FlushMode == script.FlushCancel || c.Stage == "queued" {
			wait = 30 * time.Millisecond
		}
		t0 := time.Now()
		for time.Since(t0) < wait && !allFlushed() {
			if _, err := recv(time.Millisecond); err != nil {
				return err
			}
		}
	}
	S.ReleaseAll()
	for !allFlushed() {
		ok, err := recv(deadline)
		if err != nil {
			return err
		}
		if !ok {
			return hangErr(fmt.Sprintf("not every Tflush was answered (%d of %d) although all requests were released", len(gotFlush), len(flushTags)))
		}
	}
	for probe != nil && len(post) == 0 {
		ok, err := recv(deadline)
		if err != nil {
			return err
		}
		if !ok {
			return hangErr("the request that re-used the old tag when the first Rflush arrived was never answered")
		}
	}
	// wait for the implementation to be quiet, then fence
	quiet := func() bool {
		enters, dones := 0, 0
		for _, e := range S.Log()[logStart:] {
			switch e.Kind {
			case "enter":
				enters++
			case "done":
				dones++
			}
		}
		return enters == dones
	}
	for i := 0; i < 3000 && !quiet(); i++ {
		time.Sleep(time.Millisecond)
	}
	// an older same-tag request (stage queued) and held bystanders answer now
	fence := &ref9p.Msg{Type: ref9p.Tstat, Fid: 0, Tag: 0x3FFF}
	_ = cl.Send(fence)
	for {
		ok, err := recv(deadline)
		if err != nil {
			return err
		}
		if !ok {
			return hangErr("no reply to the fence request")
		}
		if l := frames[len(frames)-1]; l.m.Tag == 0x3FFF {
			frames = frames[:len(frames)-1]
			break
		}
	}
	// let a flushed-but-queued request run if it is going to (D9 shape): the
	// fence above was answered, give stragglers a moment, fence again
	time.Sleep(2 * time.Millisecond)
	fence.Tag = 0x3FFE
	_ = cl.Send(fence)
	for {
		ok, err := recv(deadline)
		if err != nil {
			return err
		}
		if !ok {
			return hangErr("no reply to the second fence request")
		}
		if l := frames[len(frames)-1]; l.m.Tag == 0x3FFE {
			frames = frames[:len(frames)-1]
			break
		}
	}

	// ---- oracle on the wire order
	for _, t := range flushTags {
		if gotFlush[t] != 1 {
			return fmt.Errorf("Tflush tag %d was answered %d times", t, gotFlush[t])
		}
	}
	rebound := false
	if probe != nil {
		if len(post) != 1 {
			return fmt.Errorf("%d replies carry the old tag %d after the first Rflush, when exactly one request (%s, sent at that moment) was outstanding with it: a reply to the flushed request came after its Rflush", len(post), ttag, ref9p.TypeName(probe.Type))
		}
		r := post[0]
		switch {
		case r.Type == ref9p.Rerror && tb.Err != "" && r.Ename == tb.Err:
			return fmt.Errorf("the reply to the flushed request (Rerror %q, tag %d) was sent after the Rflush", r.Ename, ttag)
		case rebinding && r.Type != ref9p.Rwalk:
			return fmt.Errorf("the first of %d Rflush arrived and no success reply to the flushed %s had preceded it, yet a Twalk (re-using the old tag) to fid number %d, which that %s would have bound, is answered %s %q: the flushed request had left fid state behind when its Rflush arrived", nflush, c.Target, probe.Newfid, c.Target, ref9p.TypeName(r.Type), r.Ename)
		case !rebinding && r.Type != ref9p.Rstat:
			return fmt.Errorf("the first of %d Rflush arrived after the reply to the flushed %s; a Tstat re-using the old tag is answered %s %q", nflush, c.Target, ref9p.TypeName(r.Type), r.Ename)
		}
		rebound = rebinding
	}
	firstRflush := -1 // index of the first Rflush of a flush aimed at the target's tag
	var firstStamp int64
	treplies := 0
	treplyIdx := -1
	for i, f := range frames {
		switch {
		case f.m.Type == ref9p.Rflush:
			if gotFlush[f.m.Tag] == 0 {
				return fmt.Errorf("Rflush for tag %d, which is not an outstanding Tflush", f.m.Tag)
			}
			if firstRflush < 0 && c.Stage != "unknown" {
				firstRflush, firstStamp = i, f.stamp
			}
		case f.m.Tag == ttag && targetSent:
			// a reply carrying the target's tag: the target's or (stage queued) the older request's
			treplies++
			if treplyIdx < 0 {
				treplyIdx = i
			}
		case c.Stage == "unknown" && (f.m.Tag == 50 || f.m.Tag == 51):
		default:
			return fmt.Errorf("unexpected %s with tag %d", ref9p.TypeName(f.m.Type), f.m.Tag)
		}
	}
	if c.Stage == "unknown" {
		return nil
	}
	log := S.Log()[logStart:]
	var tEnter []script.Entry
	for _, e := range log {
		if e.Kind == "enter" && e.Key == tkey {
			tEnter = append(tEnter, e)
		}
	}
	if len(tEnter) > 1 {
		return fmt.Errorf("the target %s reached the implementation %d times", tkey, len(tEnter))
	}
	// which reply with the target's tag belongs to the target?
	targetReplied, targetReplyBeforeFlush := false, false
	want := 1
	if c.Stage == "queued" {
		want = 2 // the older request always answers
	}
	if c.Stage == "queued" {
		// replies with the shared tag: the older one's Rread is identified by its content
		cnt := 0
		for i, f := range frames {
			if f.m.Tag == ttag && f.m.Type != ref9p.Rflush {
				cnt++
				isOlder := f.m.Type == ref9p.Rread && c.Target != "read" || (c.Target == "read" && f.m.Type == ref9p.Rread && string(f.m.Data) == string(script.PRF(okey, 100)))
				if !isOlder {
					targetReplied = true
					targetReplyBeforeFlush = i < firstRflush
				}
			}
		}
		if cnt > want {
			return fmt.Errorf("%d replies carry the shared tag, at most %d requests were outstanding", cnt, want)
		}
	} else {
		if treplies > 1 {
			return fmt.Errorf("%d replies for the target's tag", treplies)
		}
		if treplies == 1 {
			targetReplied = true
			targetReplyBeforeFlush = treplyIdx < firstRflush
		}
	}
	if targetReplied && !targetReplyBeforeFlush {
		return fmt.Errorf("a reply to the flushed request (tag %d) was sent after the Rflush: the old tag is not reusable when Rflush arrives", ttag)
	}
	cancelled := !targetReplied
	if cancelled {
		hx.Label("outcome=cancelled")
		for _, e := range tEnter {
			if e.Seq > firstStamp {
				return fmt.Errorf("the cancelled request %s was handed to the implementation after its Rflush had been received (log seq %d > %d)", tkey, e.Seq, firstStamp)
			}
		}
	} else {
		hx.Label("outcome=answered-before-rflush")
	}
	ap, fo := ctl.Stats()
	hx.ExtraAdd("holds_applied", int64(ap))
	hx.ExtraAdd("holds_forced", int64(fo))

	if rebound {
		if r, err := cl.Clunk(probe.Newfid); err != nil || r.Type != ref9p.Rclunk {
			return fmt.Errorf("probe: clunk of the fid bound at the first Rflush: %v %+v", err, r)
		}
	}
	// ---- probes: protocol state after the dust has settled
	impl := len(tEnter) == 1
	replyOK := false
	for _, f := range frames {
		if targetReplied && f.m.Tag == ttag && f.m.Type == tm.Type+1 {
			replyOK = true
		}
	}
	isUnknown := func(fid uint32) (bool, error) {
		r, err := cl.Stat(fid)
		if err != nil {
			return false, fmt.Errorf("probe: %v", err)
		}
		return r.Type == ref9p.Rerror && r.Ename == "unknown fid", nil
	}
	_ = impl
	effect := replyOK // the target took effect iff its success reply was delivered
	switch c.Target {
	case "walk":
		u, err := isUnknown(101)
		if err != nil {
			return err
		}
		if effect == u {
			return fmt.Errorf("after the %s walk newfid 101 is unknown=%v", outcome(cancelled, effect), u)
		}
	case "attach", "auth":
		u, err := isUnknown(100)
		if err != nil {
			return err
		}
		if effect == u {
			return fmt.Errorf("after the %s %s fid 100 is unknown=%v", outcome(cancelled, effect), c.Target, u)
		}
		if c.Target == "auth" {
			return nil
		}
	case "clunk", "remove":
		u, err := isUnknown(100)
		if err != nil {
			return err
		}
		gone := effect || (c.Target == "remove" && targetReplied)
		if gone != u {
			return fmt.Errorf("after the %s %s fid 100 is unknown=%v", outcome(cancelled, effect), c.Target, u)
		}
	case "open":
		r, err := cl.Open(100, 0)
		if err != nil {
			return fmt.Errorf("probe: %v", err)
		}
		already := r.Type == ref9p.Rerror && r.Ename == "fid already opened"
		if effect != already {
			return fmt.Errorf("after the %s open a second Topen answers %s %q", outcome(cancelled, effect), ref9p.TypeName(r.Type), r.Ename)
		}
	case "create":
		r, err := cl.Open(100, 0)
		if err != nil {
			return fmt.Errorf("probe: %v", err)
		}
		already := r.Type == ref9p.Rerror && r.Ename == "fid already opened"
		if effect != already {
			return fmt.Errorf("after the %s create a Topen of the fid answers %s %q", outcome(cancelled, effect), ref9p.TypeName(r.Type), r.Ename)
		}
	}
	// a request that did not take effect left nothing behind: the fid number it
	// would have bound is free again
	if !effect {
		var rb *ref9p.Msg
		switch c.Target {
		case "walk":
			rb = &ref9p.Msg{Type: ref9p.Twalk, Fid: 0, Newfid: 101, Wname: []string{"d101"}}
		case "attach", "auth":
			rb = &ref9p.Msg{Type: ref9p.Twalk, Fid: 0, Newfid: 100, Wname: []string{"d100"}}
		}
		if rb != nil {
			r, err := cl.RPC(rb)
			if err != nil {
				return fmt.Errorf("probe: %v", err)
			}
			if r.Type != ref9p.Rwalk {
				return fmt.Errorf("after the %s %s a Twalk to the fid number it would have bound is answered %s %q", outcome(cancelled, effect), c.Target, ref9p.TypeName(r.Type), r.Ename)
			}
			if r, err := cl.Clunk(rb.Newfid); err != nil || r.Type != ref9p.Rclunk {
				return fmt.Errorf("probe: clunk of the re-bound number: %v %+v", err, r)
			}
		}
	}
	// leaked references: a clunk of the target's fid must really invalidate it
	// and its destruction must be reported
	if c.Target != "clunk" && c.Target != "remove" && !(c.Target == "attach" && !effect) {
		if u, _ := isUnknown(100); !u {
			r, err := cl.Clunk(100)
			if err != nil {
				return fmt.Errorf("probe: %v", err)
			}
			if r.Type == ref9p.Rclunk {
				u, err := isUnknown(100)
				if err != nil {
					return err
				}
				if !u {
					return fmt.Errorf("after the %s %s, fid 100 survives a successful Tclunk (leaked reference)", outcome(cancelled, effect), c.Target)
				}
				// the object the implementation saw as fid 100 is gone for good
				inc := 0
				for _, e := range S.Log() {
					if e.Kind == "enter" && e.Fid == 100 && e.Conn == script.ConnID("c07") && e.Op == "Clunk" {
						inc = e.Inc
					}
				}
				if inc != 0 {
					t0 := time.Now()
					for {
						n := 0
						for _, e := range S.Log() {
							if e.Kind == "fiddestroy" && e.Inc == inc {
								n++
							}
						}
						if n == 1 {
							break
						}
						if n > 1 || time.Since(t0) > 3*time.Second {
							return fmt.Errorf("after the %s %s, fid 100 was clunked at quiescence and its destruction was reported %d times (a reference leaked or was dropped twice)", outcome(cancelled, effect), c.Target, n)
						}
						time.Sleep(200 * time.Microsecond)
					}
				}
			}
		}
	}
	if conn := S.Conn(script.ConnID("c07")); conn != nil {
		for i := 0; ; i++ {
			n, _ := conn.VerifCounts()
			if n == 0 {
				break
			}
			if i > 2000 {
				return fmt.Errorf("%d requests still registered as outstanding at quiescence", n)
			}
			time.Sleep(time.Millisecond)
		}
	}
	return nil
}

// rebindExpected: will the target of a rebind case end without a success reply
// (cancelled by the FlushOp, or answered Rerror)? The script's FlushOp cannot
// cancel a Tauth (AuthInit is not a request handed to it) and AuthInit succeeds.
func rebindExpected(c *Case) bool {
	return c.Target != "auth" && (c.FlushMode == script.FlushCancel || c.TErr)
}

// rebindProbe is the request sent with the old tag the moment the first Rflush
// arrives: a Twalk binding the fid number the target would have bound, or (the
// target was answered with success) a Tstat of the root.
func rebindProbe(c *Case, rebinding bool) *ref9p.Msg {
	if !rebinding {
		return &ref9p.Msg{Type: ref9p.Tstat, Fid: 0}
	}
	n := uint32(100)
	if c.Target == "walk" {
		n = 101
	}
	return &ref9p.Msg{Type: ref9p.Twalk, Fid: 0, Newfid: n, Wname: []string{fmt.Sprintf("d%d", n)}}
}

func outcome(cancelled, effect bool) string {
	switch {
	case cancelled:
		return "cancelled"
	case effect:
		return "completed"
	}
	return "failed"
}

func execute(test string, c *Case) error {
	hx.Journal(test, c)
	hx.Eval()
	hx.Label(fmt.Sprintf("target=%s", c.Target))
	hx.Label(fmt.Sprintf("stage=%s flushmode=%d", c.Stage, c.FlushMode))
	if c.Self {
		hx.Label("tflush names its own tag")
	}
	if c.Cycle {
		hx.Label("tflushes name each other's tags")
	}
	if c.ProcOps {
		hx.Label("implementation provides SrvReqProcessOps")
	}
	switch c.Stage {
	case "same-chunk", "queued", "held", "multi", "flush-of-flush", "in-process", "in-respond", "rebind", "race":
		b, _ := json.Marshal(c)
		hx.NonTrivial(b)
	}
	hx.Sample(test, c)
	err := run(c)
	if n, ok := err.(notAtRest); ok {
		err = hangErr(string(n))
	}
	if h, ok := err.(hangErr); ok && c.Stage == "race" {
		// the verdict on a missing Rflush is the fence's with the server at rest;
		// a deadline proves something only if a goroutine is stuck inside go9p
		if blocked := hx.BlockedInGo9p(); blocked != "" {
			return fmt.Errorf("%s; goroutines blocked inside go9p:\n%s", string(h), blocked)
		}
		hx.Inconclusive(string(h))
		return nil
	}
	if h, ok := err.(hangErr); ok {
		if blocked := hx.BlockedInGo9p(); blocked != "" {
			return fmt.Errorf("%s; goroutines blocked inside go9p:\n%s", string(h), blocked)
		}
		if len(c.Holds) == 0 {
			// every held request was released and nothing is blocked: a missing Rflush is a violation
			return fmt.Errorf("%s (nothing blocked inside go9p: the reply was never produced)", string(h))
		}
		hx.Inconclusive(string(h))
		return nil
	}
	return err
}

var tpoints = []string{"process.enter", "process.checked", "process.done", "respond.enter", "respond.unlinked", "respond.posted", "respond.queued", "send.dequeued", "send.written"}
var fpoints = []string{"process.enter", "process.checked", "flush.enter", "flush.linked", "flush.decided", "respond.enter", "respond.queued"}

// TestEnumOrderings: the pairwise ordering table between target and flusher.
func TestEnumOrderings(t *testing.T) {
	targets := kinds
	if !hx.Thorough() {
		targets = []string{"walk", "read", "clunk", "attach"}
	}
	idx := 0
	for _, tk := range targets {
		tm, _, _ := build(tk, 100)
		tm.Tag = 7
		for _, dotu := range []bool{true} {
			tkey := script.Key(ref9p.Canon(tm, dotu))
			fkey := "Tflush/7/20"
			for _, tp := range tpoints {
				for _, fp := range fpoints {
					for dir := 0; dir < 2; dir++ {
						idx++
						if hx.NShards > 1 && idx%hx.NShards != hx.Shard {
							continue
						}
						h := sched.Hold{Who: tkey, At: tp, UntilWho: fkey, UntilPoint: fp}
						if dir == 1 {
							h = sched.Hold{Who: fkey, At: fp, UntilWho: tkey, UntilPoint: tp}
						}
						c := &Case{Dotu: dotu, FlushMode: []int{script.FlushAbsent, script.FlushCancel, script.FlushIgnore}[idx%3], Maxpend: []int{0, 4}[idx%2],
							Warm: []string{tk, tk, "read", "walk"}, Target: tk, Stage: "same-chunk", NFlush: 1, Holds: []sched.Hold{h}}
						if tk == "auth" {
							c.Warm = []string{"read", "walk"}
						}
						if err := execute("orderings", c); err != nil {
							hx.Violation("orderings", c, err.Error())
							t.Fatalf("%+v: %v", h, err)
						}
					}
				}
			}
		}
	}
	hx.Exhaustive(fmt.Sprintf("pairwise ordering table: %d target types x 9 target points x 7 flusher points x 2 directions", len(targets)))
}

// TestEnumTwoFlushers: the target is held at each of its points until the
// SECOND of two flushers has reached each of its points, the second flusher
// starting only after the first has decided (three parties, two constraints).
func TestEnumTwoFlushers(t *testing.T) {
	targets := []string{"read", "clunk", "walk"}
	idx := 0
	for _, tk := range targets {
		tm, _, _ := build(tk, 100)
		tm.Tag = 7
		tkey := script.Key(ref9p.Canon(tm, true))
		for _, tp := range tpoints {
			for _, fp1 := range []string{"flush.linked", "flush.decided", "respond.queued"} {
				for _, fp2 := range fpoints[2:] {
					idx++
					if hx.NShards > 1 && idx%hx.NShards != hx.Shard {
						continue
					}
					if !hx.Thorough() && idx%4 != int(hx.Seed%4) {
						continue
					}
					hs := []sched.Hold{
						{Who: "Tflush/7/21", At: "flush.enter", UntilWho: "Tflush/7/20", UntilPoint: fp1},
						{Who: tkey, At: tp, UntilWho: "Tflush/7/21", UntilPoint: fp2},
					}
					c := &Case{Dotu: true, FlushMode: []int{script.FlushAbsent, script.FlushCancel, script.FlushIgnore}[idx%3], Maxpend: []int{0, 4}[idx%2],
						Warm: []string{tk, "read"}, Target: tk, Stage: "same-chunk", NFlush: 2, Holds: hs}
					if err := execute("twoflushers", c); err != nil {
						hx.Violation("twoflushers", c, err.Error())
						t.Fatalf("%+v: %v", hs, err)
					}
				}
			}
		}
	}
	if hx.Thorough() {
		hx.Exhaustive("two flushers: 3 target types x 9 target points x 3 first-flusher points x 5 second-flusher points")
	}
}

// the points of a synchronously answered target and of a Tflush in the order they
// are passed
var tseq = []string{"process.enter", "process.checked", "respond.enter", "respond.posted", "respond.queued", "send.dequeued", "send.written", "respond.unlinked", "process.done"}
var fseq = []string{"process.enter", "process.checked", "flush.enter", "flush.linked", "flush.decided", "respond.enter", "respond.queued"}

// TestEnumSandwich: one party makes exactly one step (from one of its points to
// the next) while the other sits at one of its points: the target goes from
// tseq[i] to tseq[i+1] while the Tflush waits at each flusher point, and the
// Tflush goes from fseq[j] to fseq[j+1] while the target waits at each target
// point (two ordering constraints per case; what one party decided before the
// point it waits at is acted upon after the other's step).
func TestEnumSandwich(t *testing.T) {
	targets := []string{"walk", "clunk"}
	if hx.Thorough() {
		targets = []string{"walk", "clunk", "attach", "open", "create", "remove", "read", "auth"}
	}
	idx := 0
	for _, tk := range targets {
		tm, _, _ := build(tk, 100)
		tm.Tag = 7
		tkey := script.Key(ref9p.Canon(tm, true))
		fkey := "Tflush/7/20"
		var cases [][]sched.Hold
		for i := 0; i+1 < len(tseq); i++ {
			for _, fp := range fseq {
				cases = append(cases, []sched.Hold{{Who: tkey, At: tseq[i], UntilWho: fkey, UntilPoint: fp}, {Who: fkey, At: fp, UntilWho: tkey, UntilPoint: tseq[i+1]}})
			}
		}
		for j := 0; j+1 < len(fseq); j++ {
			for _, tp := range tseq {
				cases = append(cases, []sched.Hold{{Who: fkey, At: fseq[j], UntilWho: tkey, UntilPoint: tp}, {Who: tkey, At: tp, UntilWho: fkey, UntilPoint: fseq[j+1]}})
			}
		}
		for _, hs := range cases {
			idx++
			if hx.NShards > 1 && idx%hx.NShards != hx.Shard {
				continue
			}
			c := &Case{Dotu: true, FlushMode: []int{script.FlushAbsent, script.FlushCancel, script.FlushIgnore}[(idx/hx.NShards)%3], Maxpend: []int{0, 4}[idx%2],
				Warm: []string{tk, "read"}, Target: tk, Stage: "same-chunk", NFlush: 1, Holds: hs}
			if tk == "auth" {
				c.Warm = []string{"read", "walk"}
			}
			if err := execute("sandwich", c); err != nil {
				hx.Violation("sandwich", c, err.Error())
				t.Fatalf("%+v: %v", hs, err)
			}
		}
	}
	hx.Exhaustive(fmt.Sprintf("one step of one party while the other sits at a point: %d target types x (8 target steps x 7 flusher points + 6 flusher steps x 9 target points)", len(targets)))
}

// wpoints: where the chosen Tflush has got to when the harness lets the parked
// target go on ("" = the Tflushes have merely been written).
var wpoints = []string{"", "process.enter", "process.checked", "flush.enter", "flush.linked", "flush.decided"}

// TestEnumInWrapper: the implementation provides SrvReqProcessOps; the target
// is parked inside SrvReqProcess (before req.Process()) or SrvReqRespond
// (reply decided, before req.PostProcess()) and is released when the Tflush has
// reached each of its points.
func TestEnumInWrapper(t *testing.T) {
	idx := 0
	for _, tk := range kinds {
		for _, st := range []string{"in-process", "in-respond"} {
			for _, wp := range wpoints {
				for nf := 1; nf <= 2; nf++ {
					idx++
					if hx.NShards > 1 && idx%hx.NShards != hx.Shard {
						continue
					}
					if !hx.Thorough() && nf == 2 && wp != "flush.decided" && wp != "flush.linked" {
						continue
					}
					c := &Case{Dotu: idx%4 < 2, FlushMode: []int{script.FlushAbsent, script.FlushCancel, script.FlushIgnore}[idx%3], Maxpend: []int{0, 4}[idx%2],
						Warm: []string{tk, "read"}, Target: tk, TErr: idx%7 == 3, Stage: st, NFlush: nf, ProcOps: true, ReleaseAt: wp, ReleaseWho: nf - 1, TAsync: idx%5 == 2}
					if tk == "auth" {
						c.Warm = []string{"read", "walk"}
					}
					if err := execute("inwrapper", c); err != nil {
						hx.Violation("inwrapper", c, err.Error())
						t.Fatalf("%+v: %v", c, err)
					}
				}
			}
		}
	}
	hx.Exhaustive(fmt.Sprintf("target parked in the SrvReqProcess / SrvReqRespond wrapper: %d target types x 2 wrappers x %d release points of the flusher", len(kinds), len(wpoints)))
}

// TestEnumRebind: a fid-creating target is held in the implementation, K
// Tflushes of it are all linked before the first calls the FlushOp; the old tag
// and the fid number are re-used the moment the first Rflush arrives.
func TestEnumRebind(t *testing.T) {
	ks := []int{1, 2, 8, 48}
	if hx.Thorough() {
		ks = []int{1, 2, 3, 5, 8, 16, 24, 48, 64}
	}
	idx := 0
	for _, tk := range []string{"walk", "attach", "auth"} {
		for _, k := range ks {
			for _, fm := range []int{script.FlushCancel, script.FlushAbsent, script.FlushIgnore} {
				for wedge := 0; wedge < 2; wedge++ {
					if wedge == 1 && k == 1 {
						continue
					}
					idx++
					if hx.NShards > 1 && idx%hx.NShards != hx.Shard {
						continue
					}
					c := &Case{Dotu: idx%4 < 2, FlushMode: fm, Maxpend: []int{0, 4}[idx%2], Warm: []string{tk, "read"}, Target: tk, TErr: idx%5 == 3,
						Stage: "rebind", NFlush: k, Wedge: wedge == 1, OneByOne: idx%3 == 1, ProcOps: idx%4 == 1}
					if tk == "auth" {
						c.Warm = []string{"read", "walk"}
					}
					if idx%7 == 0 {
						c.WaitFor = (k + 1) / 2
					}
					if err := execute("rebind", c); err != nil {
						hx.Violation("rebind", c, err.Error())
						t.Fatalf("%+v: %v", c, err)
					}
				}
			}
		}
	}
	hx.Exhaustive(fmt.Sprintf("old tag and fid number re-used at the first Rflush: 3 fid-creating targets x %d flusher counts x 3 FlushOp modes x wedged or not", len(ks)))
}

func TestPropStages(t *testing.T) {
	hx.Check(t, "stages", hx.N(400, 4000), func(t *rapid.T) {
		c := &Case{Dotu: rapid.Bool().Draw(t, "dotu"), FlushMode: rapid.IntRange(0, 2).Draw(t, "flushmode"), Maxpend: rapid.SampledFrom([]int{0, 4}).Draw(t, "maxpend")}
		c.Target = rapid.SampledFrom(kinds).Draw(t, "target")
		c.TErr = rapid.IntRange(0, 4).Draw(t, "terr") == 0
		c.Stage = rapid.SampledFrom([]string{"same-chunk", "same-chunk", "queued", "queued", "held", "held", "answered", "unknown", "flush-of-flush", "multi", "in-process", "in-respond", "in-respond", "rebind", "rebind"}).Draw(t, "stage")
		c.NFlush = 1
		if c.Stage == "multi" || rapid.IntRange(0, 2).Draw(t, "morefl") == 0 {
			c.NFlush = rapid.IntRange(2, 3).Draw(t, "nflush")
		}
		if c.Stage == "flush-of-flush" {
			c.NFlush = 2
		}
		if c.Stage == "rebind" {
			c.Target = rapid.SampledFrom([]string{"walk", "walk", "attach", "attach", "auth"}).Draw(t, "rebindtarget")
			if rapid.Bool().Draw(t, "fewflushes") {
				c.NFlush = rapid.IntRange(1, 4).Draw(t, "nflush")
			} else {
				c.NFlush = rapid.IntRange(5, 64).Draw(t, "nflush")
			}
			c.Wedge = c.NFlush > 1 && rapid.Bool().Draw(t, "wedge")
			if rapid.IntRange(0, 3).Draw(t, "partial") == 0 {
				lo := 1
				if c.Wedge {
					lo = 2
				}
				c.WaitFor = rapid.IntRange(lo, c.NFlush).Draw(t, "waitfor")
			}
			c.OneByOne = rapid.Bool().Draw(t, "onebyone")
		}
		if c.Stage == "unknown" {
			switch rapid.IntRange(0, 3).Draw(t, "unknownkind") {
			case 0:
				c.Self = true
			case 1:
				c.Cycle = true
				if c.NFlush < 2 {
					c.NFlush = rapid.IntRange(2, 3).Draw(t, "ring")
				}
			}
		}
		if c.Target == "auth" && (c.Stage == "held" || c.Stage == "multi" || c.Stage == "flush-of-flush") {
			c.Stage = "same-chunk" // AuthInit has no gate
		}
		inWrapper := c.Stage == "in-process" || c.Stage == "in-respond"
		c.ProcOps = inWrapper || rapid.Bool().Draw(t, "procops")
		if c.ProcOps {
			c.ProcDelayUS = rapid.SampledFrom([]int{0, 0, 50, 300}).Draw(t, "procdelay")
			c.RespDelayUS = rapid.SampledFrom([]int{0, 0, 50, 300}).Draw(t, "respdelay")
		}
		if inWrapper {
			c.ReleaseAt = rapid.SampledFrom(wpoints).Draw(t, "releaseat")
			c.ReleaseWho = rapid.IntRange(0, c.NFlush-1).Draw(t, "releasewho")
			c.TAsync = rapid.IntRange(0, 3).Draw(t, "tasync") == 0
		}
		wk := []string{"walk", "walkinplace", "open", "create", "read", "write", "stat", "wstat", "clunk", "remove", "attach"}
		nw := rapid.IntRange(0, 6).Draw(t, "nwarm")
		for i := 0; i < nw; i++ {
			if rapid.Bool().Draw(t, "sameaswarm") && c.Target != "auth" {
				c.Warm = append(c.Warm, c.Target)
			} else {
				c.Warm = append(c.Warm, rapid.SampledFrom(wk).Draw(t, "warm"))
			}
		}
		if c.Stage == "same-chunk" || c.Stage == "queued" {
			tm, _, _ := build(c.Target, 100)
			tm.Tag = 7
			tkey := script.Key(ref9p.Canon(tm, c.Dotu))
			nh := rapid.IntRange(0, 2).Draw(t, "nholds")
			for i := 0; i < nh; i++ {
				tp := rapid.SampledFrom(tpoints).Draw(t, "tp")
				fp := rapid.SampledFrom(fpoints).Draw(t, "fp")
				fk := fmt.Sprintf("Tflush/7/%d", 20+rapid.IntRange(0, c.NFlush-1).Draw(t, "whichflush"))
				if rapid.Bool().Draw(t, "dir") {
					c.Holds = append(c.Holds, sched.Hold{Who: tkey, At: tp, UntilWho: fk, UntilPoint: fp})
				} else {
					c.Holds = append(c.Holds, sched.Hold{Who: fk, At: fp, UntilWho: tkey, UntilPoint: tp})
				}
			}
			if c.NFlush >= 2 && rapid.Bool().Draw(t, "orderflushes") {
				// the second flusher starts only when the first has got this far
				fp := rapid.SampledFrom(fpoints[2:]).Draw(t, "fp1")
				c.Holds = append(c.Holds, sched.Hold{Who: "Tflush/7/21", At: "flush.enter", UntilWho: "Tflush/7/20", UntilPoint: fp})
			}
		}
		if err := execute("stages", c); err != nil {
			hx.Failf(t, "stages", c, "%v", err)
		}
	})
}

func TestReplay(t *testing.T) {
	e, err := hx.LoadReplay()
	if e == nil {
		t.Skip("no replay file", err)
	}
	replayEnv(t, e, 20)
}

func replayEnv(t *testing.T, e *hx.Envelope, times int) {
	var c Case
	if err := json.Unmarshal(e.Case, &c); err != nil {
		t.Fatalf("bad case: %v", err)
	}
	for i := 0; i < times; i++ {
		if err := execute(e.Test, &c); err != nil {
			hx.Violation(e.Test, &c, err.Error())
			t.Fatalf("%v", err)
		}
	}
}

func TestRegress(t *testing.T) {
	for _, e := range hx.Regressions() {
		replayEnv(t, e, 3)
		hx.Label("regress")
	}
}
