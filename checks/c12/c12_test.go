// C12 — version and msize negotiation is honoured in both directions.
//
// Everything the server writes is split on the size prefix only and decoded by
// internal/ref9p, strictly, in the dialect the Tversion exchange settled on;
// go9p's own codec is never used to look at server output.
package c12

import (
	"bytes"
	"encoding/binary"
	"encoding/json"
	"errors"
	"fmt"
	"os"
	"path/filepath"
	"runtime"
	"strings"
	"sync"
	"testing"
	"time"

	"github.com/rminnich/go9p"
	"pgregory.net/rapid"
	"verif/internal/hx"
	"verif/internal/rawc"
	"verif/internal/ref9p"
	"verif/internal/script"
	"verif/internal/ufsrv"
	"verif/internal/xport"
)

func TestMain(m *testing.M) { hx.Main(m, "C12") }

// the regression tier runs first (source order)
func TestReplay(t *testing.T) {
	t.Cleanup(ufsCleanup)
	e, err := hx.LoadReplay()
	if e == nil {
		t.Skip("no replay file", err)
	}
	replayEnv(t, e)
}

func TestRegress(t *testing.T) {
	t.Cleanup(ufsCleanup)
	for _, e := range hx.Regressions() {
		replayEnv(t, e)
		hx.Label("regress")
	}
}

const (
	// go9p's documented default when Srv.Msize is left unset: 1 MiB + IOHDRSZ
	defMsize = 1048576 + 24
	iohdr    = 24
	deadline = 30 * time.Second

	// listed-finding ids (only honoured while /verif/known_findings.json lists them)
	findOversize = "recycled-reply-buffer-exceeds-msize" // D11
	findErrNoFit = "error-reply-does-not-fit-buffer"     // D10
	// a client that offered more msize than it was granted builds requests in
	// the recycled pre-negotiation Fcall: a long name goes out above msize
	findClntRecycled = "client-recycled-fcall-exceeds-msize"
)

func eff(s uint32) uint32 {
	if s < iohdr {
		return defMsize
	}
	return s
}

func min32(a, b uint32) uint32 {
	if a < b {
		return a
	}
	return b
}

// ---------------------------------------------------------------------------
// verdict plumbing

type viol struct{ msg, finding string }

func (v *viol) Error() string { return v.msg }

func violf(format string, a ...interface{}) error { return &viol{msg: fmt.Sprintf(format, a...)} }

type hangErr string

func (h hangErr) Error() string { return string(h) }

func clip(b []byte) []byte {
	if len(b) > 96 {
		return b[:96]
	}
	return b
}

// finish turns the executor's error into the verdict: a deadline is a
// violation only when something is stuck inside go9p; a violation that carries
// the signature of a listed finding is reported as that finding.
func finish(err error) error {
	if err == nil {
		return nil
	}
	var h hangErr
	if errors.As(err, &h) {
		if blocked := hx.BlockedInGo9p(); blocked != "" {
			return fmt.Errorf("%s; goroutines blocked inside go9p:\n%s", string(h), blocked)
		}
		hx.Inconclusive(string(h))
		return nil
	}
	var v *viol
	if errors.As(err, &v) && v.finding != "" && hx.IsKnown(v.finding) {
		hx.Known(v.finding, v.msg)
		return nil
	}
	return err
}

// ---------------------------------------------------------------------------
// transport: the library end is wrapped so that the harness can tell, without
// a clock, that the server has consumed every byte and has gone back to
// reading (i.e. it decided to wait for more instead of dropping the peer).

type watch struct {
	*xport.End
	mu        sync.Mutex
	inRead    bool
	delivered int64
	closed    bool
}

func (w *watch) Read(p []byte) (int, error) {
	w.mu.Lock()
	w.inRead = true
	w.mu.Unlock()
	n, err := w.End.Read(p)
	w.mu.Lock()
	w.inRead = false
	w.delivered += int64(n)
	w.mu.Unlock()
	return n, err
}

func (w *watch) Close() error {
	w.mu.Lock()
	w.closed = true
	w.mu.Unlock()
	return w.End.Close()
}

// waiting reports that the server has been handed all n bytes written so far
// and is inside another Read.
func (w *watch) waiting(n int64) bool {
	w.mu.Lock()
	defer w.mu.Unlock()
	return w.inRead && w.delivered >= n && !w.closed
}

func (w *watch) libClosed() bool {
	w.mu.Lock()
	defer w.mu.Unlock()
	return w.closed
}

type link struct {
	sv   *script.Server // nil on a Ufs connection
	end  *xport.End
	w    *watch
	cl   *rawc.C
	S    uint32 // the server's own limit
	M    uint32 // negotiated msize (after negotiate)
	dotu bool   // negotiated dialect
	// inForce: an earlier Tversion on this connection was accepted; M and dotu
	// are what that exchange settled on and stay in force until the next
	// ACCEPTED Tversion
	inForce bool
	sent    int64
	tag     uint16
}

func dialSrv(srv *go9p.Srv, name string, S uint32) *link {
	h, l := xport.Pair(name)
	w := &watch{End: l}
	srv.NewConn(w)
	return &link{end: h, w: w, cl: rawc.New(h), S: S}
}

func (l *link) close() {
	l.cl.Close()
	if l.sv != nil {
		l.sv.S.ReleaseAll()
	}
}

func (l *link) write(b []byte) {
	if err := l.cl.SendRaw(b); err == nil {
		l.sent += int64(len(b))
	}
}

func (l *link) nextTag() uint16 {
	l.tag++
	return l.tag
}

var errClosed = errors.New("connection closed by the server")

// raw returns the next frame as cut by the size prefix.
func (l *link) raw() ([]byte, error) {
	f, err := l.cl.RecvRaw(deadline)
	if err == rawc.ErrTimeout {
		return nil, hangErr("no frame from the server within the deadline")
	}
	if err != nil {
		return nil, errClosed
	}
	return f, nil
}

// next returns the next frame after checking the two universal clauses: no
// frame longer than the negotiated msize, every frame well-formed in the
// negotiated dialect.
func (l *link) next() (*ref9p.Msg, []byte, error) {
	f, err := l.raw()
	if err != nil {
		return nil, nil, err
	}
	if uint64(len(f)) > uint64(l.M) {
		v := &viol{msg: fmt.Sprintf("the server sent a frame of %d bytes on a connection whose negotiated msize is %d (server limit %d): %x…", len(f), l.M, l.S, clip(f))}
		if l.S > l.M && uint64(len(f)) <= uint64(l.S) {
			v.finding = findOversize
		}
		return nil, f, v
	}
	m, _, derr := ref9p.Decode(f, l.dotu)
	if derr != nil {
		return nil, f, violf("the server sent a frame that is not well-formed in the negotiated dialect (9P2000.u=%v): %v: %x", l.dotu, derr, clip(f))
	}
	if m.Type%2 == 0 {
		return nil, f, violf("the server sent a T-message (%s)", ref9p.TypeName(m.Type))
	}
	return m, f, nil
}

// rpc sends one request and returns its reply (universal clauses checked, tag
// and type matched).
func (l *link) rpc(m *ref9p.Msg) (*ref9p.Msg, error) {
	m.Tag = l.nextTag()
	l.write(ref9p.Encode(m, l.dotu))
	r, f, err := l.next()
	if err != nil {
		return nil, err
	}
	if r.Tag != m.Tag {
		return nil, violf("reply tag %d for the only outstanding request (tag %d, %s): %x", r.Tag, m.Tag, ref9p.TypeName(m.Type), clip(f))
	}
	if r.Type != m.Type+1 && r.Type != ref9p.Rerror {
		return nil, violf("%s answered with %s", ref9p.TypeName(m.Type), ref9p.TypeName(r.Type))
	}
	return r, nil
}

// ---------------------------------------------------------------------------
// the negotiation oracle

// expect computes what a Tversion must yield.
func expect(S, c uint32, srvDotu bool, version []byte) (refuse bool, msize uint32, ver string) {
	if c < iohdr {
		return true, 0, ""
	}
	ver = "9P2000"
	if srvDotu && string(version) == "9P2000.u" {
		ver = "9P2000.u"
	}
	return false, min32(S, c), ver
}

var errRefused = errors.New("Tversion refused as it must be")
var errTooBigTversion = errors.New("Tversion itself exceeds the server's limit")

// VStep is one more Tversion on the connection of a case (before or after the
// one the case is named after); msize < 24 makes it one that must be refused.
type VStep struct {
	Msize   uint32 `json:"msize"`
	Version []byte `json:"version"`
}

func (v VStep) String() string { return fmt.Sprintf("(%d %q)", v.Msize, clipS(v.Version)) }

// negotiate sends Tversion(c, version) and checks the reply against expect.
//
// On a connection that negotiated before (at quiescence), the earlier values
// stay in force until a Tversion is ACCEPTED: a refusal is an Rerror within the
// msize and strictly in the dialect in force and changes nothing. An accepted
// renegotiation grants either min(client, server msize) (the statement read
// literally) or min(client, msize in force) (a limit that is only ever lowered);
// which of the two is recorded as a class label. Whatever the Rversion grants
// is THE negotiated msize from then on.
func (l *link) negotiate(c uint32, version []byte, srvDotu bool) error {
	tv := ref9p.Encode(&ref9p.Msg{Type: ref9p.Tversion, Tag: ref9p.NOTAG, Msize: c, Version: string(version)}, false)
	if l.inForce && uint64(len(tv)) > uint64(l.M) {
		return fmt.Errorf("harness: a Tversion of %d bytes on a connection with msize %d", len(tv), l.M)
	}
	l.write(tv)
	f, err := l.raw()
	if err != nil {
		if err == errClosed && uint64(len(tv)) > uint64(l.S) {
			// the Tversion frame itself is longer than the server's limit: the
			// statement does not say which of the two rules wins
			return errTooBigTversion
		}
		if err == errClosed {
			return violf("Tversion msize=%d version=%q: the server closed the connection instead of answering", c, clipS(version))
		}
		return err
	}
	refuse, msize, ver := expect(l.S, c, srvDotu, version)
	var r *ref9p.Msg
	var derr error
	if l.inForce && refuse {
		// nothing is negotiated by a Tversion that is refused
		if uint64(len(f)) > uint64(l.M) {
			return violf("Tversion msize=%d on a connection negotiated before (msize %d): the reply has %d bytes", c, l.M, len(f))
		}
		if r, _, derr = ref9p.Decode(f, l.dotu); derr != nil {
			return violf("Tversion msize=%d version=%q (to be refused) on a connection negotiated before (msize %d, 9P2000.u=%v): the reply is not well-formed in the dialect in force: %v: %x", c, clipS(version), l.M, l.dotu, derr, clip(f))
		}
	} else {
		// the reply to a first Tversion precedes any negotiated dialect: an Rversion has no
		// dialect-dependent field, a refusing Rerror is accepted in either encoding
		r, _, derr = ref9p.Decode(f, false)
		if derr != nil {
			r, _, derr = ref9p.Decode(f, true)
		}
		if derr != nil {
			return violf("Tversion msize=%d: the reply is not a well-formed message in either dialect: %v: %x", c, derr, clip(f))
		}
	}
	if r.Tag != ref9p.NOTAG {
		return violf("Tversion (tag NOTAG) answered with tag %d", r.Tag)
	}
	if refuse {
		if r.Type != ref9p.Rerror {
			return violf("Tversion with msize %d (< %d, too small for an I/O header) was not refused: %s msize=%d version=%q", c, iohdr, ref9p.TypeName(r.Type), r.Msize, r.Version)
		}
		return errRefused
	}
	if r.Type != ref9p.Rversion {
		return violf("Tversion msize=%d version=%q (server limit %d) answered with %s %q", c, clipS(version), l.S, ref9p.TypeName(r.Type), r.Ename)
	}
	if l.inForce {
		lowered := min32(l.M, c)
		switch {
		case msize == lowered:
		case r.Msize == msize:
			hx.Label("renegotiation above the msize in force grants min(client, server)")
		case r.Msize == lowered:
			hx.Label("renegotiation above the msize in force grants min(client, msize in force)")
			msize = lowered
		default:
			return violf("Tversion msize=%d on a connection with msize %d in force (server limit %d) yields msize %d, want min(client, server) = %d or min(client, in force) = %d", c, l.M, l.S, r.Msize, msize, lowered)
		}
	}
	if r.Msize != msize {
		return violf("Tversion msize=%d against a server limit of %d yields msize %d, want min = %d", c, l.S, r.Msize, msize)
	}
	if r.Version != ver {
		return violf("Tversion version=%q against a server with 9P2000.u=%v yields %q, want %q", clipS(version), srvDotu, r.Version, ver)
	}
	if uint64(len(f)) > uint64(msize) {
		return violf("Rversion of %d bytes exceeds the msize %d it announces", len(f), msize)
	}
	l.M, l.dotu, l.inForce = msize, ver == "9P2000.u", true
	l.cl.Dotu, l.cl.Msize = l.dotu, l.M
	return nil
}

// probe: one request the framework refuses by itself; the Rerror must arrive
// within the msize and strictly in the dialect in force.
func (l *link) probe() error {
	r, err := l.rpc(&ref9p.Msg{Type: ref9p.Tclunk, Fid: 7777})
	if err != nil {
		return fmt.Errorf("Tclunk of an unknown fid (msize %d, 9P2000.u=%v in force): %w", l.M, l.dotu, err)
	}
	if r.Type != ref9p.Rerror {
		return fmt.Errorf("harness: Tclunk of an unknown fid answered %s", ref9p.TypeName(r.Type))
	}
	return nil
}

// history sends the other Tversions of a case, one at a time at quiescence;
// once a session is in force each is followed by a probe under the values in
// force (those of the last ACCEPTED Tversion).
func (l *link) history(steps []VStep, srvDotu bool, where string) error {
	for i, st := range steps {
		was := l.inForce
		err := l.negotiate(st.Msize, st.Version, srvDotu)
		switch {
		case err == errRefused:
			hx.Label(fmt.Sprintf("history %s: refused Tversion, session in force=%v", where, was))
		case err == nil:
			hx.Label(fmt.Sprintf("history %s: accepted Tversion, session in force=%v", where, was))
		default:
			return fmt.Errorf("Tversion %d of those %s the judged one, %v of %v: %w", i+1, where, st, steps, err)
		}
		if l.inForce {
			if err := l.probe(); err != nil {
				return fmt.Errorf("after Tversion %d of those %s the judged one, %v of %v: %w", i+1, where, st, steps, err)
			}
		}
	}
	return nil
}

func clipS(b []byte) string {
	if len(b) > 24 {
		return string(b[:24]) + "…"
	}
	return string(b)
}

// attach attaches fid 0 as root with the shortest request that resolves to a
// user in the dialect (it has to fit an msize of 24).
func (l *link) attach() error {
	m := &ref9p.Msg{Type: ref9p.Tattach, Fid: 0, Afid: ref9p.NOFID, Uname: "root", Aname: "", Nuname: 0}
	if l.dotu && l.M < 27 {
		m.Uname = "" // 9P2000.u resolves the numeric id
	}
	r, err := l.rpc(m)
	if err != nil {
		return err
	}
	if r.Type != ref9p.Rattach {
		return fmt.Errorf("harness: Tattach refused: %q", r.Ename)
	}
	return nil
}

// ---------------------------------------------------------------------------
// 1. the negotiation grid (exhaustive)

type NegCase struct {
	SrvMsize uint32 `json:"srv_msize"`
	CliMsize uint32 `json:"cli_msize"`
	SrvDotu  bool   `json:"srv_dotu"`
	Version  []byte `json:"version"`
	// Refused: msizes (< 24) of Tversions sent first on the same connection;
	// each must be refused and must leave the connection as it was
	Refused    []uint32 `json:"refused,omitempty"`
	RefusedVer []byte   `json:"refused_version,omitempty"`
	// Prior: version strings of earlier VALID negotiations on the same
	// connection, each made at quiescence with an msize that does not lower the
	// server's, each followed by one refused request; every one of them, and the
	// final one, must come out as on a fresh connection
	Prior []string `json:"prior,omitempty"`
	// Before / After: further Tversions (accepted or refused ones, any msize)
	// sent at quiescence before / after the judged one; see link.history
	Before []VStep `json:"before,omitempty"`
	After  []VStep `json:"after,omitempty"`
}

var srvMsizes = []uint32{0, 24, 25, 32, 64, 128, 4096, 8192, 65560, defMsize}

func cliMsizes(S uint32) []uint32 {
	return uniq([]uint32{0, 1, 23, 24, 25, S - 1, S, S + 1, 1 << 16, 1 << 31, 0xFFFFFFFF})
}

func uniq(in []uint32) []uint32 {
	seen := map[uint32]bool{}
	var out []uint32
	for _, v := range in {
		if !seen[v] {
			seen[v] = true
			out = append(out, v)
		}
	}
	return out
}

func versions() [][]byte {
	return [][]byte{[]byte("9P2000"), []byte("9P2000.u"), []byte("9P2000.L"), []byte("9P1999"), {}, script.PRF("version", 300),
		// near misses of the one string that asks for the extension
		[]byte("9P2000.ul"), []byte("9P2000.u.1"), []byte("9P2000.u2"), []byte("9P2000.uu"), []byte("9P2000.U"), []byte("9P2000."),
		[]byte("9P2000.u\x00"), []byte(" 9P2000.u"), []byte("9p2000.u"), []byte("9P2000.u "), []byte("P2000.u"), []byte("9P2000u")}
}

// refusalNeedsRoom is the signature of the listed finding findErrNoFit for a
// Tversion: the refusing Rerror does not fit the server's own reply buffer.
func refusalNeedsRoom(S uint32, srvDotu bool) bool {
	n := uint32(7 + 2 + len("msize too small"))
	if srvDotu {
		n += 4
	}
	return n > S
}

func runNeg(c *NegCase) error {
	S := eff(c.SrvMsize)
	if refuse, _, _ := expect(S, c.CliMsize, c.SrvDotu, c.Version); refuse && refusalNeedsRoom(S, c.SrvDotu) && hx.IsKnown(findErrNoFit) {
		hx.Excluded(findErrNoFit)
		return nil
	}
	sv := script.NewServer(script.Config{Msize: c.SrvMsize, Dotu: c.SrvDotu})
	l := dialSrv(sv.Srv, "c12neg", S)
	l.sv = sv
	defer l.close()
	for i, rm := range c.Refused {
		if rm >= iohdr {
			return fmt.Errorf("harness: a Tversion with msize %d is not refused", rm)
		}
		if err := l.negotiate(rm, c.RefusedVer, c.SrvDotu); err != errRefused {
			if err == nil {
				err = fmt.Errorf("harness: negotiate accepted msize %d", rm)
			}
			return fmt.Errorf("Tversion %d of the sequence (msize %d): %w", i+1, rm, err)
		}
	}
	for i, pv := range c.Prior {
		if err := l.negotiate(0xFFFFFFFF, []byte(pv), c.SrvDotu); err != nil {
			return fmt.Errorf("Tversion %d of the sequence (%q, msize 2^32-1): %w", i+1, pv, err)
		}
		if hx.IsKnown(findErrNoFit) && l.M < 64 {
			continue
		}
		r, err := l.rpc(&ref9p.Msg{Type: ref9p.Tclunk, Fid: 7777})
		if err != nil {
			return fmt.Errorf("after Tversion %d of the sequence (%q, 9P2000.u=%v), Tclunk of an unknown fid: %w", i+1, pv, l.dotu, err)
		}
		if r.Type != ref9p.Rerror {
			return fmt.Errorf("harness: Tclunk of an unknown fid answered %s", ref9p.TypeName(r.Type))
		}
	}
	if err := l.history(c.Before, c.SrvDotu, "before"); err != nil {
		return err
	}
	wasInForce := l.inForce
	err := l.negotiate(c.CliMsize, c.Version, c.SrvDotu)
	if len(c.Before) > 0 && err != nil && err != errRefused && err != errTooBigTversion {
		return fmt.Errorf("after the Tversions %v on the same connection: %w", c.Before, err)
	}
	if err == errRefused && wasInForce {
		// the judged Tversion was refused on a session in force: it stays in force
		hx.Label("neg refused, earlier session stays in force")
		if err := l.probe(); err != nil {
			return fmt.Errorf("after the refused Tversion (msize %d, %q) that followed %v: %w", c.CliMsize, clipS(c.Version), c.Before, err)
		}
		if err := l.history(c.After, c.SrvDotu, "after"); err != nil {
			return err
		}
		if err := l.attach(); err != nil {
			return fmt.Errorf("after the refused Tversion (msize %d, %q) that followed %v: %w", c.CliMsize, clipS(c.Version), c.Before, err)
		}
		return l.probe()
	}
	if len(c.Prior) > 0 && err != nil && err != errRefused && err != errTooBigTversion {
		return fmt.Errorf("after %d earlier negotiation(s) %q on the same connection: %w", len(c.Prior), c.Prior, err)
	}
	if len(c.Refused) > 0 && err != nil && err != errRefused && err != errTooBigTversion {
		return fmt.Errorf("after %d refused Tversion(s) with msize %v on the same connection: %w", len(c.Refused), c.Refused, err)
	}
	switch err {
	case errRefused:
		hx.Label("neg refused")
		return nil
	case errTooBigTversion:
		hx.Label("neg tversion-longer-than-server-limit dropped")
		return nil
	}
	if err != nil {
		return err
	}
	hx.Label(fmt.Sprintf("neg ok dotu=%v", l.dotu))
	if err := l.history(c.After, c.SrvDotu, "after"); err != nil {
		return err
	}
	// the negotiated values are in force: a dialect-specific request is
	// understood and a dialect-specific reply comes back within msize
	if err := l.attach(); err != nil {
		return fmt.Errorf("after negotiation (msize %d, 9P2000.u=%v): %w", l.M, l.dotu, err)
	}
	if hx.IsKnown(findErrNoFit) && l.M < 64 {
		hx.Excluded(findErrNoFit)
		return nil
	}
	r, err := l.rpc(&ref9p.Msg{Type: ref9p.Tclunk, Fid: 7777})
	if err != nil {
		return fmt.Errorf("after negotiation (msize %d, 9P2000.u=%v), Tclunk of an unknown fid: %w", l.M, l.dotu, err)
	}
	if r.Type != ref9p.Rerror {
		return fmt.Errorf("harness: Tclunk of an unknown fid answered %s", ref9p.TypeName(r.Type))
	}
	return nil
}

func TestEnumNegotiation(t *testing.T) {
	idx, n := 0, 0
	for _, s := range srvMsizes {
		for _, c := range cliMsizes(eff(s)) {
			for _, d := range []bool{false, true} {
				for _, v := range versions() {
					idx++
					if hx.NShards > 1 && idx%hx.NShards != hx.Shard {
						continue
					}
					nc := &NegCase{SrvMsize: s, CliMsize: c, SrvDotu: d, Version: v}
					hx.Journal("neg", nc)
					hx.Eval()
					hx.Sample("neg", nc)
					n++
					if c != eff(s) || d != (string(v) == "9P2000.u") {
						hx.NonTrivial("neg", s, c, d, v)
					}
					if err := finish(runNeg(nc)); err != nil {
						hx.Violation("neg", nc, err.Error())
						t.Fatalf("%+v: %v", nc, err)
					}
				}
			}
		}
	}
	hx.ExtraAdd("negotiations", int64(n))
	hx.Exhaustive("negotiation grid: server msize {unset, 24, 25, 32, 64, 128, 4096, 8192, 65560, 1 MiB+24} x client msize {0, 1, 23, 24, 25, s-1, s, s+1, 2^16, 2^31, 2^32-1} x server 9P2000.u on/off x version string {9P2000, 9P2000.u, 9P2000.L, 9P1999, empty, 300 arbitrary bytes, 12 near misses of 9P2000.u (suffix, prefix, case, NUL, blank, missing byte)}, raw Tversion, followed by Tattach and a refused Tclunk in the negotiated dialect")
}

// TestPropVersionStrings: version strings one or two edits away from the two
// canonical ones (a byte appended, prepended, inserted, deleted, replaced,
// case flipped): the extension is spoken only for exactly "9P2000.u".
func TestPropVersionStrings(t *testing.T) {
	hx.Check(t, "neg", hx.N(150, 2000), func(t *rapid.T) {
		v := []byte(rapid.SampledFrom([]string{"9P2000.u", "9P2000.u", "9P2000"}).Draw(t, "base"))
		for k := rapid.IntRange(1, 2).Draw(t, "edits"); k > 0; k-- {
			pos := rapid.IntRange(0, len(v)).Draw(t, "pos")
			ch := rapid.SampledFrom([]byte{'.', 'u', 'U', 'l', 'L', '0', '2', '9', 'P', 0, ' ', '1'}).Draw(t, "byte")
			switch rapid.IntRange(0, 3).Draw(t, "edit") {
			case 0: // insert
				v = append(v[:pos:pos], append([]byte{ch}, v[pos:]...)...)
			case 1: // delete
				if pos < len(v) {
					v = append(v[:pos:pos], v[pos+1:]...)
				}
			case 2: // replace
				if pos < len(v) {
					v = append([]byte(nil), v...)
					v[pos] = ch
				}
			case 3: // flip case
				if pos < len(v) {
					v = append([]byte(nil), v...)
					v[pos] ^= 0x20
				}
			}
		}
		nc := &NegCase{SrvMsize: rapid.SampledFrom([]uint32{0, 128, 8192}).Draw(t, "srv"), CliMsize: rapid.SampledFrom([]uint32{64, 8192, 0xFFFFFFFF}).Draw(t, "cli"),
			SrvDotu: rapid.IntRange(0, 3).Draw(t, "srvdotu") > 0, Version: v}
		hx.Journal("neg", nc)
		hx.Eval()
		hx.Sample("neg", nc)
		hx.Label("neg version string near miss")
		if string(v) != "9P2000.u" && string(v) != "9P2000" {
			hx.NonTrivial("negstr", nc.SrvMsize, nc.CliMsize, nc.SrvDotu, v)
		}
		if err := finish(runNeg(nc)); err != nil {
			hx.Failf(t, "neg", nc, "%v", err)
		}
	})
}

// TestEnumNegotiationSequences: a refused Tversion has no side effects. On one
// connection, one or two Tversions refused for msize < 24 (sent with the other
// dialect's version string) are followed by a valid one, which must be answered
// exactly as on a fresh connection; then Tattach and a refused Tclunk run in
// the negotiated msize and dialect. And renegotiation at quiescence: one to
// three earlier valid Tversions (msize 2^32-1, so that the server's msize stays
// in force) each followed by one refused request, then the judged Tversion. The
// third block runs histories whose values in force matter: a session, then a
// refused Tversion naming another dialect (the session's msize and dialect stay
// in force, the refusal included), and renegotiation with different msizes
// (down then up, up then down, equal; see link.negotiate for what may be
// granted). (A Tversion with requests outstanding is not generated: the
// statement does not say what it yields.)
func TestEnumNegotiationSequences(t *testing.T) {
	idx, n := 0, 0
	prefixes := [][]uint32{{0}, {1}, {7}, {18}, {19}, {23}, {23, 0}, {1, 23}}
	for _, s := range []uint32{0, 24, 25, 64, 128, 8192} {
		S := eff(s)
		for _, d := range []bool{false, true} {
			for _, pre := range prefixes {
				for _, c := range uniq([]uint32{24, 64, 128, S - 1, S, S + 1, 0xFFFFFFFF}) {
					for _, v := range []string{"9P2000", "9P2000.u"} {
						idx++
						if hx.NShards > 1 && idx%hx.NShards != hx.Shard {
							continue
						}
						rv := "9P2000.u"
						if v == rv {
							rv = "9P2000"
						}
						nc := &NegCase{SrvMsize: s, CliMsize: c, SrvDotu: d, Version: []byte(v), Refused: pre, RefusedVer: []byte(rv)}
						hx.Journal("neg", nc)
						hx.Eval()
						hx.Sample("neg", nc)
						hx.Label("neg sequence refused-then-valid")
						hx.NonTrivial("negseq", s, c, d, v, fmt.Sprint(pre))
						n++
						if err := finish(runNeg(nc)); err != nil {
							hx.Violation("neg", nc, err.Error())
							t.Fatalf("%+v: %v", nc, err)
						}
					}
				}
			}
		}
	}
	// a connection negotiated before (at quiescence, without lowering the
	// msize) negotiates again: the dialect must not be carried over
	for _, sm := range []uint32{0, 64, 128, 8192} {
		S := eff(sm)
		for _, d := range []bool{false, true} {
			for _, prior := range [][]string{{"9P2000"}, {"9P2000.u"}, {"9P2000", "9P2000.u"}, {"9P2000.u", "9P2000"}, {"9P2000", "9P2000"}, {"9P2000.u", "9P2000.u", "9P2000"}} {
				for _, c := range uniq([]uint32{64, S, 0xFFFFFFFF}) {
					for _, v := range []string{"9P2000", "9P2000.u", "9P1999"} {
						idx++
						if hx.NShards > 1 && idx%hx.NShards != hx.Shard {
							continue
						}
						nc := &NegCase{SrvMsize: sm, CliMsize: c, SrvDotu: d, Version: []byte(v), Prior: prior}
						hx.Journal("neg", nc)
						hx.Eval()
						hx.Sample("neg", nc)
						hx.Label("neg sequence valid-then-valid")
						hx.NonTrivial("negseq2", sm, c, d, v, fmt.Sprint(prior))
						n++
						if err := finish(runNeg(nc)); err != nil {
							hx.Violation("neg", nc, err.Error())
							t.Fatalf("%+v: %v", nc, err)
						}
					}
				}
			}
		}
	}
	// a session in force, then a refused Tversion (mostly naming the other
	// dialect): the refusal and everything after it stay within the msize and in
	// the dialect of the session; and renegotiation with different msizes
	// (down then up, up then down, equal): the granted msize is in force
	one := func(label string, nc *NegCase) {
		idx++
		if hx.NShards > 1 && idx%hx.NShards != hx.Shard {
			return
		}
		hx.Journal("neg", nc)
		hx.Eval()
		hx.Sample("neg", nc)
		hx.Label(label)
		hx.NonTrivial("negseq3", nc.SrvMsize, nc.CliMsize, nc.SrvDotu, nc.Version, fmt.Sprint(nc.Before), fmt.Sprint(nc.After))
		n++
		if err := finish(runNeg(nc)); err != nil {
			hx.Violation("neg", nc, err.Error())
			t.Fatalf("%+v: %v", nc, err)
		}
	}
	two := []string{"9P2000", "9P2000.u"}
	for _, sm := range []uint32{0, 64, 128, 8192} {
		S := eff(sm)
		for _, d := range []bool{false, true} {
			for vi, v1 := range two {
				for _, c1 := range uniq([]uint32{64, S, 0xFFFFFFFF}) {
					for _, rv := range []string{two[1-vi], "9P2000.L", v1} {
						for _, rm := range []uint32{0, 10, 23} {
							one("neg sequence valid-then-refused", &NegCase{SrvMsize: sm, CliMsize: c1, SrvDotu: d, Version: []byte(v1), After: []VStep{{rm, []byte(rv)}}})
							if rm != 10 {
								one("neg sequence valid-then-refused (judged)", &NegCase{SrvMsize: sm, CliMsize: rm, SrvDotu: d, Version: []byte(rv), Before: []VStep{{c1, []byte(v1)}}})
							}
						}
					}
				}
			}
			var pairs [][2]uint32
			for _, lo := range uniq([]uint32{24, 32, S - 1}) {
				for _, hi := range uniq([]uint32{lo + 1, S, 0xFFFFFFFF}) {
					pairs = append(pairs, [2]uint32{lo, hi}, [2]uint32{hi, lo})
				}
			}
			pairs = append(pairs, [2]uint32{32, 32}, [2]uint32{S, S}, [2]uint32{S + 1, S + 1})
			for _, pr := range pairs {
				for _, v1 := range two {
					for _, v2 := range two {
						one("neg sequence renegotiated msize", &NegCase{SrvMsize: sm, CliMsize: pr[1], SrvDotu: d, Version: []byte(v2), Before: []VStep{{pr[0], []byte(v1)}}})
					}
				}
			}
			for vi, v := range two {
				o := []byte(two[1-vi])
				one("neg sequence renegotiated msize", &NegCase{SrvMsize: sm, CliMsize: 28, SrvDotu: d, Version: []byte(v), Before: []VStep{{32, o}, {S, []byte(v)}}})
				one("neg sequence renegotiated msize", &NegCase{SrvMsize: sm, CliMsize: S, SrvDotu: d, Version: []byte(v), Before: []VStep{{S, o}, {32, []byte(v)}, {5, o}}})
				one("neg sequence renegotiated msize", &NegCase{SrvMsize: sm, CliMsize: 0xFFFFFFFF, SrvDotu: d, Version: []byte(v), Before: []VStep{{40, o}, {23, []byte(v)}}, After: []VStep{{0, o}}})
			}
		}
	}
	hx.ExtraAdd("negotiation_sequences", int64(n))
	hx.Exhaustive("negotiation sequences on one connection: refused Tversion msize {0, 1, 7, 18, 19, 23, (23,0), (1,23)} then valid msize {24, 64, 128, s-1, s, s+1, 2^32-1} x server msize {unset, 24, 25, 64, 128, 8192} x server 9P2000.u on/off x version {9P2000, 9P2000.u} (the refused ones carry the other string), followed by Tattach and a refused Tclunk; and renegotiation at quiescence: earlier valid Tversions {(plain), (.u), (plain,.u), (.u,plain), (plain,plain), (.u,.u,plain)} with msize 2^32-1, each followed by a refused Tclunk, then version {9P2000, 9P2000.u, 9P1999} x client msize {64, s, 2^32-1} x server msize {unset, 64, 128, 8192} x server 9P2000.u on/off; and, for server msize {unset, 64, 128, 8192} x server 9P2000.u on/off: valid (msize {64, s, 2^32-1}, either version string) then refused (msize {0, 10, 23}, version {the other one, 9P2000.L, the same}) then probe / Tattach / probe under the values of the valid one; renegotiation (lo, hi) and (hi, lo) for lo {24, 32, s-1} x hi {lo+1, s, 2^32-1} and equal (32, s, s+1) x both version strings for both steps, plus three longer histories (down-up-down, up-down-refused-up, down-refused-up-refused), each accepted Tversion followed by a refused Tclunk decoded in the dialect in force")
}

// ---------------------------------------------------------------------------
// 2. the client's side of the negotiation

type ConnCase struct {
	SrvMsize uint32 `json:"srv_msize"`
	CliMsize uint32 `json:"cli_msize"`
	SrvDotu  bool   `json:"srv_dotu"`
	CliDotu  bool   `json:"cli_dotu"`
	// Peer: the harness answers the Tversion itself with these values
	Peer     bool   `json:"peer,omitempty"`
	RMsize   uint32 `json:"r_msize,omitempty"`
	RVersion string `json:"r_version,omitempty"`
}

type connResult struct {
	c   *go9p.Clnt
	err error
}

func runConnect(c *ConnCase) error {
	if c.CliMsize > 4*defMsize {
		return fmt.Errorf("harness: client msize %d would make the client allocate 8x that", c.CliMsize)
	}
	h, lib := xport.Pair("c12conn")
	var S uint32
	var sv *script.Server
	var peer *rawc.C
	if c.Peer {
		peer = rawc.New(h)
		defer peer.Close()
	} else {
		S = eff(c.SrvMsize)
		if c.CliMsize < iohdr && refusalNeedsRoom(S, c.SrvDotu) && hx.IsKnown(findErrNoFit) {
			hx.Excluded(findErrNoFit)
			return nil
		}
		sv = script.NewServer(script.Config{Msize: c.SrvMsize, Dotu: c.SrvDotu})
		sv.Srv.NewConn(h)
		defer h.Close()
	}
	done := make(chan connResult, 1)
	go func() {
		cl, err := go9p.Connect(lib, c.CliMsize, c.CliDotu)
		done <- connResult{cl, err}
	}()
	wantMsize, wantDotu := min32(S, c.CliMsize), c.SrvDotu && c.CliDotu
	if c.Peer {
		wantMsize, wantDotu = min32(c.RMsize, c.CliMsize), c.CliDotu && c.RVersion == "9P2000.u"
		f, err := peer.RecvRaw(deadline)
		if err != nil {
			select {
			case r := <-done:
				if r.err != nil && c.CliMsize < 21 {
					return nil // the client cannot even build a Tversion in that many bytes and says so
				}
				return violf("Connect(msize %d) sent no Tversion: %v", c.CliMsize, r.err)
			default:
			}
			return hangErr("the client sent no Tversion")
		}
		m, _, derr := ref9p.Decode(f, false)
		if derr != nil || m.Type != ref9p.Tversion {
			return violf("the client's first message is not a well-formed Tversion: %v: %x", derr, clip(f))
		}
		wv := "9P2000"
		if c.CliDotu {
			wv = "9P2000.u"
		}
		if m.Tag != ref9p.NOTAG || m.Msize != c.CliMsize || m.Version != wv {
			return violf("Connect(msize %d, dotu %v) sent Tversion tag=%d msize=%d version=%q", c.CliMsize, c.CliDotu, m.Tag, m.Msize, m.Version)
		}
		_ = peer.SendRaw(ref9p.Encode(&ref9p.Msg{Type: ref9p.Rversion, Tag: ref9p.NOTAG, Msize: c.RMsize, Version: c.RVersion}, false))
	}
	var r connResult
	select {
	case r = <-done:
	case <-time.After(deadline):
		return hangErr("go9p.Connect did not return")
	}
	if r.c != nil {
		defer r.c.Unmount()
	}
	if !c.Peer && c.CliMsize < iohdr {
		if r.err == nil {
			return violf("Connect with msize %d (< %d) succeeded: Msize=%d", c.CliMsize, iohdr, r.c.Msize)
		}
		return nil
	}
	if c.Peer && c.CliMsize < 21 {
		return nil
	}
	if r.err != nil {
		return violf("Connect(msize %d, dotu %v) failed: %v", c.CliMsize, c.CliDotu, r.err)
	}
	if r.c.Msize != wantMsize || r.c.Dotu != wantDotu {
		return violf("after Connect(msize %d, dotu %v) against msize %d / %q the client has Msize=%d Dotu=%v, want %d / %v",
			c.CliMsize, c.CliDotu, S+c.RMsize, c.RVersion, r.c.Msize, r.c.Dotu, wantMsize, wantDotu)
	}
	return nil
}

func TestEnumClient(t *testing.T) {
	idx, n := 0, 0
	one := func(cc *ConnCase) {
		idx++
		if hx.NShards > 1 && idx%hx.NShards != hx.Shard {
			return
		}
		hx.Journal("connect", cc)
		hx.Eval()
		hx.Sample("connect", cc)
		n++
		if cc.Peer {
			hx.Label("client peer-answered")
			if cc.RMsize != cc.CliMsize || cc.CliDotu != (cc.RVersion == "9P2000.u") {
				hx.NonTrivial("peer", cc.CliMsize, cc.CliDotu, cc.RMsize, cc.RVersion)
			}
		} else {
			hx.Label("client against Srv")
			if cc.CliMsize != eff(cc.SrvMsize) || cc.CliDotu != cc.SrvDotu {
				hx.NonTrivial("connect", cc.SrvMsize, cc.CliMsize, cc.SrvDotu, cc.CliDotu)
			}
		}
		if err := finish(runConnect(cc)); err != nil {
			hx.Violation("connect", cc, err.Error())
			t.Fatalf("%+v: %v", cc, err)
		}
	}
	for _, s := range srvMsizes {
		S := eff(s)
		for _, c := range uniq([]uint32{0, 1, 20, 21, 23, 24, 25, S - 1, S, S + 1, 1 << 16}) {
			for _, sd := range []bool{false, true} {
				for _, cd := range []bool{false, true} {
					one(&ConnCase{SrvMsize: s, CliMsize: c, SrvDotu: sd, CliDotu: cd})
				}
			}
		}
	}
	for _, c := range []uint32{24, 25, 128, 8192, 65560, defMsize} {
		for _, rm := range uniq([]uint32{24, c - 1, c, c + 1, 1 << 16, 0xFFFFFFFF}) {
			for _, cd := range []bool{false, true} {
				for _, rv := range []string{"9P2000", "9P2000.u"} {
					one(&ConnCase{Peer: true, CliMsize: c, CliDotu: cd, RMsize: rm, RVersion: rv})
				}
			}
		}
	}
	hx.ExtraAdd("client_negotiations", int64(n))
	hx.Exhaustive("go9p.Connect: server msize grid x client msize {0, 1, 20, 21, 23, 24, 25, s-1, s, s+1, 2^16} x dialect wishes of both sides against go9p's Srv; and client msize {24, 25, 128, 8192, 65560, 1 MiB+24} x Rversion.msize {24, c-1, c, c+1, 2^16, 2^32-1} x Rversion.version x client dialect against a harness peer")
}

// ---------------------------------------------------------------------------
// 2b. the client after the negotiation: the frames IT sends are held to the
// negotiated msize too. A harness peer grants an msize, answers Topen / Tcreate
// with an iounit of its choice and the client is asked to move more than msize
// bytes in one call; every frame the client writes is cut on its size prefix and
// decoded by ref9p in the negotiated dialect.

type ClntIOCase struct {
	CliMsize uint32 `json:"cli_msize"` // what Connect offers
	RMsize   uint32 `json:"r_msize"`   // what the peer's Rversion says
	CliDotu  bool   `json:"cli_dotu"`
	RVersion string `json:"r_version"`
	Create   bool   `json:"create"` // Tcreate instead of Topen
	Iounit   uint32 `json:"iounit"` // iounit of the Ropen / Rcreate
	Op       string `json:"op"`     // Clnt.Write, File.Write, File.Written, Clnt.Read, File.Readn
	Len      uint32 `json:"len"`    // bytes the caller asks to move in one call
}

type ioResult struct {
	steps []string // what the calls returned, for the report
}

func runClntIO(c *ClntIOCase) error {
	if c.CliMsize > 4*defMsize || c.RMsize > 4*defMsize || c.CliMsize < 64 || c.RMsize < 64 || c.Len > 4*defMsize {
		return fmt.Errorf("harness: client I/O cases need msizes >= 64 and moderate buffers")
	}
	h, lib := xport.Pair("c12cio")
	peer := rawc.New(h)
	defer peer.Close()
	M := min32(c.CliMsize, c.RMsize)
	dotu := c.CliDotu && c.RVersion == "9P2000.u"
	fileLen := uint64(c.Len) + 10

	done := make(chan ioResult, 1)
	go func() {
		var res ioResult
		note := func(format string, a ...interface{}) { res.steps = append(res.steps, fmt.Sprintf(format, a...)) }
		defer func() { done <- res }()
		cl, err := go9p.Connect(lib, c.CliMsize, c.CliDotu)
		if err != nil {
			note("Connect: %v", err)
			_ = lib.Close()
			return
		}
		defer cl.Unmount()
		// requests whose length the caller chooses: a name of Len bytes
		longName := func() string { return strings.Repeat("n", int(c.Len)) }
		aname := ""
		if c.Op == "Clnt.Attach" {
			aname = longName()
		}
		root, err := cl.Attach(nil, go9p.OsUsers.Uid2User(0), aname)
		if err != nil {
			note("Attach: %v", err)
			return
		}
		switch c.Op {
		case "Clnt.Attach":
			note("Clnt.Attach with an aname of %d bytes: err=%v", c.Len, err)
			return
		case "Clnt.Walk":
			_, err = cl.Walk(root, cl.FidAlloc(), []string{"a", longName()})
			note("Clnt.Walk with a name of %d bytes: err=%v", c.Len, err)
			return
		case "Clnt.Create":
			err = cl.Create(root, longName(), 0644, go9p.ORDWR, "")
			note("Clnt.Create with a name of %d bytes: err=%v", c.Len, err)
			return
		}
		if c.Create {
			err = cl.Create(root, "f", 0644, go9p.ORDWR, "")
		} else {
			err = cl.Open(root, go9p.ORDWR)
		}
		if err != nil {
			note("Open/Create: %v", err)
			return
		}
		buf := script.PRF("c12 client data", int(c.Len))
		var n int
		switch c.Op {
		case "Clnt.Write":
			n, err = cl.Write(root, buf, 0)
		case "File.Write":
			n, err = go9p.FidFile(root, 0).Write(buf)
		case "File.Written":
			n, err = go9p.FidFile(root, 0).Written(buf, 0)
		case "Clnt.Read":
			var b []byte
			b, err = cl.Read(root, 0, c.Len)
			n = len(b)
		case "File.Readn":
			n, err = go9p.FidFile(root, 0).Readn(buf, 0)
		default:
			note("harness: unknown op %q", c.Op)
			return
		}
		note("%s of %d bytes: n=%d err=%v", c.Op, c.Len, n, err)
	}()

	// the peer: Tversion first
	f, err := peer.RecvRaw(deadline)
	if err == rawc.ErrTimeout {
		return hangErr("the client sent no Tversion")
	}
	if err != nil {
		return violf("Connect(msize %d) sent no Tversion", c.CliMsize)
	}
	if m, _, derr := ref9p.Decode(f, false); derr != nil || m.Type != ref9p.Tversion || m.Msize != c.CliMsize {
		return violf("the client's first message is not the Tversion offering msize %d: %v: %x", c.CliMsize, derr, clip(f))
	}
	_ = peer.SendRaw(ref9p.Encode(&ref9p.Msg{Type: ref9p.Rversion, Tag: ref9p.NOTAG, Msize: c.RMsize, Version: c.RVersion}, false))

	where := fmt.Sprintf("negotiated msize %d (client offered %d, peer answered %d), 9P2000.u=%v, %s answered with iounit %d, %s of %d bytes",
		M, c.CliMsize, c.RMsize, dotu, map[bool]string{false: "Topen", true: "Tcreate"}[c.Create], c.Iounit, c.Op, c.Len)
	if nameOp(c.Op) {
		where = fmt.Sprintf("negotiated msize %d (client offered %d, peer answered %d), 9P2000.u=%v, %s with a name of %d bytes", M, c.CliMsize, c.RMsize, dotu, c.Op, c.Len)
	}
	var verdict error
	frames, moved := 0, uint64(0)
	qid := ref9p.Qid{Type: 0, Vers: 1, Path: 77}
	for verdict == nil {
		f, err := peer.RecvRaw(deadline)
		if err == rawc.ErrTimeout {
			verdict = hangErr("client I/O: neither a request nor a hang-up from the client (" + where + ")")
			break
		}
		if err != nil {
			break // the client is done and has unmounted
		}
		frames++
		var m *ref9p.Msg
		if uint64(len(f)) > uint64(M) {
			name := "frame"
			if len(f) > 4 {
				name = ref9p.TypeName(f[4])
			}
			v := &viol{msg: fmt.Sprintf("the client sent a %s of %d bytes: %s: %x…", name, len(f), where, clip(f))}
			if nameOp(c.Op) && c.CliMsize > M {
				v.finding = findClntRecycled
			}
			verdict = v
			break
		}
		var derr error
		if m, _, derr = ref9p.Decode(f, dotu); derr != nil {
			verdict = violf("the client sent a frame that is not well-formed in the negotiated dialect: %v: %s: %x", derr, where, clip(f))
			break
		}
		r := &ref9p.Msg{Tag: m.Tag}
		switch m.Type {
		case ref9p.Tattach:
			r.Type, r.Qid = ref9p.Rattach, qid
		case ref9p.Twalk:
			r.Type, r.Wqid = ref9p.Rwalk, make([]ref9p.Qid, len(m.Wname))
		case ref9p.Topen:
			r.Type, r.Qid, r.Iounit = ref9p.Ropen, qid, c.Iounit
		case ref9p.Tcreate:
			r.Type, r.Qid, r.Iounit = ref9p.Rcreate, qid, c.Iounit
		case ref9p.Twrite:
			r.Type, r.Count = ref9p.Rwrite, uint32(len(m.Data))
			moved += uint64(len(m.Data))
		case ref9p.Tread:
			if uint64(m.Count) > uint64(M-iohdr) {
				verdict = violf("the client sent a Tread asking for %d bytes, more than fits a reply (msize-%d = %d): %s", m.Count, iohdr, M-iohdr, where)
				break
			}
			n := uint64(m.Count)
			if m.Offset >= fileLen {
				n = 0
			} else if fileLen-m.Offset < n {
				n = fileLen - m.Offset
			}
			r.Type, r.Data = ref9p.Rread, script.PRF("c12 peer file", int(n))
			moved += n
		case ref9p.Tclunk:
			r.Type = ref9p.Rclunk
		default:
			r.Type, r.Ename = ref9p.Rerror, "no"
		}
		if verdict == nil {
			_ = peer.SendRaw(ref9p.Encode(r, dotu))
		}
	}
	peer.Close() // a client still waiting for a reply gets its error
	var res ioResult
	select {
	case res = <-done:
	case <-time.After(deadline):
		if verdict != nil {
			return verdict
		}
		return hangErr("client I/O: the client's call did not return after the peer hung up (" + where + ")")
	}
	if verdict != nil {
		var v *viol
		if errors.As(verdict, &v) {
			v.msg += fmt.Sprintf(" [client calls: %s]", strings.Join(res.steps, "; "))
		}
		return verdict
	}
	if frames < 2 && !nameOp(c.Op) {
		return fmt.Errorf("harness: the client I/O case ended after %d requests: %s: %s", frames, where, strings.Join(res.steps, "; "))
	}
	if frames < 3 && !nameOp(c.Op) {
		// the call failed inside the client (it could not build the request):
		// nothing illegal was sent
		hx.Label("client I/O call refused by the client itself")
	}
	if moved > 0 {
		hx.Label("client I/O moved data")
	} else {
		hx.Label("client I/O moved no data")
	}
	return nil
}

// nameOp: the request's length is chosen by the caller through a name (Len
// bytes); the client must refuse to build it rather than send it.
func nameOp(op string) bool { return op == "Clnt.Attach" || op == "Clnt.Walk" || op == "Clnt.Create" }

func execClntIO(c *ClntIOCase) error {
	hx.Journal("clntio", c)
	hx.Eval()
	hx.Sample("clntio", c)
	M := min32(c.CliMsize, c.RMsize)
	hx.Label(fmt.Sprintf("client I/O %s, offered msize %s granted", c.Op, map[bool]string{true: "=", false: ">"}[c.CliMsize == M]))
	if nameOp(c.Op) || c.Iounit == 0 || c.Iounit > M-iohdr || c.CliMsize != M {
		hx.NonTrivial("clntio", c.CliMsize, c.RMsize, c.CliDotu, c.RVersion, c.Create, c.Iounit, c.Op, c.Len)
	}
	return finish(runClntIO(c))
}

// clntNameOps: also drive the client with requests whose length the caller
// chooses (long names). Found go9p's Clnt.NewFcall handing out the recycled
// pre-negotiation Fcall untrimmed (repaired in /repo 7c23848; the finding id
// client-recycled-fcall-exceeds-msize is kept on such violations).
const clntNameOps = true

func TestEnumClientIO(t *testing.T) {
	idx, n := 0, 0
	one := func(cc *ClntIOCase) {
		idx++
		if hx.NShards > 1 && idx%hx.NShards != hx.Shard {
			return
		}
		n++
		if err := execClntIO(cc); err != nil {
			hx.Violation("clntio", cc, err.Error())
			t.Fatalf("%+v: %v", cc, err)
		}
	}
	ops := []string{"Clnt.Write", "File.Write", "File.Written", "Clnt.Read", "File.Readn"}
	for _, M := range []uint32{64, 256, 4096} {
		// (offered, answered): equal; the peer answers more than was offered (2^16,
		// not 2^32-1: a client that adopted it would allocate that much per
		// request); the client offered just enough more, and much more, than it
		// was granted
		for _, cf := range [][2]uint32{{M, M}, {M, 1 << 16}, {M + iohdr, M}, {1 << 16, M}} {
			for _, dotu := range []bool{false, true} {
				for _, create := range []bool{false, true} {
					for _, iou := range []uint32{0, 1, M - 25, M - 24, M - 23, M, M + 1, 0xFFFFFFFF} {
						for _, op := range ops {
							rv := "9P2000"
							if dotu {
								rv = "9P2000.u"
							}
							one(&ClntIOCase{CliMsize: cf[0], RMsize: cf[1], CliDotu: dotu, RVersion: rv, Create: create, Iounit: iou, Op: op, Len: M + 50})
						}
					}
				}
			}
		}
	}
	// requests whose length the caller chooses (a name of Len bytes): lengths that
	// put the request just below, at and above the negotiated msize
	if clntNameOps {
		for _, M := range []uint32{64, 256, 4096} {
			for _, cf := range [][2]uint32{{M, M}, {M, 1 << 16}, {M + iohdr, M}, {1 << 16, M}} {
				for _, dotu := range []bool{false, true} {
					rv := "9P2000"
					if dotu {
						rv = "9P2000.u"
					}
					for _, op := range []string{"Clnt.Attach", "Clnt.Walk", "Clnt.Create"} {
						for ln := M - 30; ln <= M-15; ln++ {
							one(&ClntIOCase{CliMsize: cf[0], RMsize: cf[1], CliDotu: dotu, RVersion: rv, Op: op, Len: ln})
						}
						one(&ClntIOCase{CliMsize: cf[0], RMsize: cf[1], CliDotu: dotu, RVersion: rv, Op: op, Len: M + 50})
					}
				}
			}
		}
		hx.Exhaustive("client requests of caller-chosen length (same msize configurations x dialect): Clnt.Attach / Clnt.Walk / Clnt.Create with a name of {m-30 .. m-15, m+50} bytes, i.e. requests just below, at and above the negotiated msize: no client frame above the negotiated msize")
	}
	hx.ExtraAdd("client_io_cases", int64(n))
	hx.Exhaustive("client frames after the negotiation (go9p.Connect against a harness peer): granted msize {64, 256, 4096} x (offered, answered) {(m, m), (m, 2^16), (m+24, m), (2^16, m)} x dialect x {Topen, Tcreate} answered with iounit {0, 1, m-25, m-24, m-23, m, m+1, 2^32-1} x {Clnt.Write, File.Write, File.Written, Clnt.Read, File.Readn} of m+50 bytes: no client frame above the negotiated msize, every one well-formed in the negotiated dialect, no Tread asking for more than msize-24")
}

// ---------------------------------------------------------------------------
// 3. sessions after the negotiation: replies of sizes around msize

type Req struct {
	Kind string `json:"kind"` // stat, serr, walk, read, aread, open, inuse, unknown, toolarge
	Knob int    `json:"knob"` // stat: name length; serr: error text length; walk: number of names; read/aread: count
	// Rel (stat, serr, read, aread): the knob is the msize in force plus Knob
	// (sessions whose msize is only known once the last Rversion is in)
	Rel bool `json:"rel,omitempty"`
}

type Sess struct {
	SrvMsize uint32  `json:"srv_msize"`
	CliMsize uint32  `json:"cli_msize"`
	SrvDotu  bool    `json:"srv_dotu"`
	Dotu     bool    `json:"dotu"` // the client asks for 9P2000.u
	Pre      int     `json:"pre"`  // requests answered before the Tversion (their reply buffers predate the negotiation)
	Auth     bool    `json:"auth"`
	Rounds   [][]Req `json:"rounds"`
	Hold     []bool  `json:"hold"`  // per round: all forwarded requests are inside the implementation at the same time
	Split    bool    `json:"split"` // one write per frame instead of one write per round
	// Before / After: further Tversions on the connection (see link.history)
	Before []VStep `json:"before,omitempty"`
	After  []VStep `json:"after,omitempty"`
}

type planned struct {
	req     Req
	msg     *ref9p.Msg
	key     string
	behav   script.Behav
	want    []byte // the implementation's answer on the wire (nil: the framework refuses the request itself)
	forward bool
}

func errText(n int) string {
	b := make([]byte, n)
	for i := range b {
		b[i] = byte('a' + i%26)
	}
	return string(b)
}

// plan builds the request for r on fid (a clone of the root) and predicts the
// implementation's answer from the request alone.
func plan(l *link, r Req, fid, aux uint32, seq int) (*planned, error) {
	if r.Rel {
		k := int64(l.M) + int64(r.Knob)
		switch r.Kind {
		case "stat":
			k = clampI(k, 1, 64900)
		case "serr":
			k = clampI(k, 1, 65535)
		case "read", "aread":
			k = clampI(k, 0, 0xFFFFFFFF)
		default:
			return nil, fmt.Errorf("harness: request kind %q has no relative knob", r.Kind)
		}
		r.Knob, r.Rel = int(k), false
	}
	p := &planned{req: r, forward: true}
	switch r.Kind {
	case "stat":
		p.msg = &ref9p.Msg{Type: ref9p.Tstat, Fid: fid}
		p.behav.Size = r.Knob
	case "serr":
		p.msg = &ref9p.Msg{Type: ref9p.Tstat, Fid: fid}
		p.behav.Err, p.behav.Ecode = errText(r.Knob), 13
	case "walk":
		names := make([]string, r.Knob)
		for i := range names {
			names[i] = "d"
		}
		p.msg = &ref9p.Msg{Type: ref9p.Twalk, Fid: fid, Newfid: aux, Wname: names}
	case "read":
		p.msg = &ref9p.Msg{Type: ref9p.Tread, Fid: fid, Offset: uint64(seq) << 24, Count: uint32(r.Knob)}
		if uint32(r.Knob) > l.M-iohdr {
			p.forward = false
		}
	case "aread":
		p.msg = &ref9p.Msg{Type: ref9p.Tread, Fid: 1, Offset: uint64(seq) << 24, Count: uint32(r.Knob)}
		p.forward = false // answered by AuthRead, not by a SrvReqOps call
	case "open":
		p.msg = &ref9p.Msg{Type: ref9p.Topen, Fid: fid, Mode: 0}
	case "inuse":
		p.msg = &ref9p.Msg{Type: ref9p.Twalk, Fid: fid, Newfid: 0}
		p.forward = false
	case "unknown":
		p.msg = &ref9p.Msg{Type: ref9p.Tclunk, Fid: fid + 5000000}
		p.forward = false
	case "toolarge":
		p.msg = &ref9p.Msg{Type: ref9p.Tread, Fid: fid, Offset: uint64(seq) << 24, Count: l.M - iohdr + 1}
		p.forward = false
	default:
		return nil, fmt.Errorf("harness: unknown request kind %q", r.Kind)
	}
	p.msg.Tag = l.nextTag()
	if n := len(ref9p.Encode(p.msg, l.dotu)); uint64(n) > uint64(l.M) {
		return nil, fmt.Errorf("harness: request %s of %d bytes exceeds msize %d", r.Kind, n, l.M)
	}
	cm := ref9p.Canon(p.msg, l.dotu)
	p.key = script.Key(cm)
	switch {
	case p.forward:
		a := *script.ExpectedAnswer(cm, p.behav, 0x80)
		a.Tag = p.msg.Tag
		p.want = ref9p.Encode(&a, l.dotu)
	case r.Kind == "aread" && uint32(r.Knob) <= l.M-iohdr:
		k := fmt.Sprintf("authread/%d/%d", p.msg.Offset, r.Knob)
		p.want = ref9p.Encode(&ref9p.Msg{Type: ref9p.Rread, Tag: p.msg.Tag, Data: script.PRF(k, r.Knob)}, l.dotu)
	}
	return p, nil
}

// fallbackLen is the length of the Rerror go9p falls back to when an answer
// does not fit ("buffer too small"); only used for the signature of the listed
// finding, never for a verdict.
func fallbackLen(dotu bool) int {
	if dotu {
		return 7 + 2 + 16 + 4
	}
	return 7 + 2 + 16
}

// excluded reports whether p falls under the signature of a listed finding.
func excluded(l *link, p *planned) string {
	M := int(l.M)
	if hx.IsKnown(findErrNoFit) {
		switch {
		case p.req.Kind == "serr" && len(p.want) > M:
			return findErrNoFit
		case p.want != nil && len(p.want) > M && fallbackLen(l.dotu) > M:
			return findErrNoFit
		case p.want == nil && M < 64:
			return findErrNoFit
		}
	}
	if hx.IsKnown(findOversize) && p.want != nil && len(p.want) > M && l.S > l.M {
		return findOversize
	}
	return ""
}

func countEnter(s *script.S, from int) (n int, what string) {
	for _, e := range s.Log()[from:] {
		if e.Kind == "enter" || strings.HasPrefix(e.Kind, "auth") {
			n++
			what = e.Kind + " " + e.Op + " " + e.Key
		}
	}
	return
}

func runSess(c *Sess) error {
	S := eff(c.SrvMsize)
	sv := script.NewServer(script.Config{Msize: c.SrvMsize, Dotu: c.SrvDotu, Auth: c.Auth})
	l := dialSrv(sv.Srv, "c12s", S)
	l.sv = sv
	defer l.close()

	// requests answered before Tversion: the connection still speaks the
	// server's own dialect and limit; their reply buffers are recycled later
	if c.Pre > 0 && !(hx.IsKnown(findErrNoFit) && S < 64) {
		l.M, l.dotu = S, c.SrvDotu
		var stream []byte
		tags := map[uint16]bool{}
		for i := 0; i < c.Pre; i++ {
			m := &ref9p.Msg{Type: ref9p.Tclunk, Fid: uint32(900000 + i), Tag: l.nextTag()}
			tags[m.Tag] = true
			stream = append(stream, ref9p.Encode(m, l.dotu)...)
		}
		l.write(stream)
		for len(tags) > 0 {
			r, f, err := l.next()
			if err != nil {
				return fmt.Errorf("before Tversion: %w", err)
			}
			if !tags[r.Tag] || r.Type != ref9p.Rerror {
				return violf("before Tversion: unexpected reply %x", clip(f))
			}
			delete(tags, r.Tag)
		}
	}
	ver := "9P2000"
	if c.Dotu {
		ver = "9P2000.u"
	}
	if err := l.history(c.Before, c.SrvDotu, "before"); err != nil {
		return err
	}
	if err := l.negotiate(c.CliMsize, []byte(ver), c.SrvDotu); err != nil {
		if len(c.Before) > 0 {
			return fmt.Errorf("after the Tversions %v on the same connection: %w", c.Before, err)
		}
		return err
	}
	if err := l.history(c.After, c.SrvDotu, "after"); err != nil {
		return err
	}
	if len(c.Before)+len(c.After) > 0 {
		hx.Label(fmt.Sprintf("session after %d+%d other Tversions", len(c.Before), len(c.After)))
	}
	hx.Label(fmt.Sprintf("session msize=%s lowered-by=%s dotu=%v", sizeClass(l.M), map[bool]string{true: "client", false: "server-or-equal"}[l.S > l.M], l.dotu))
	if c.Auth {
		r, err := l.rpc(&ref9p.Msg{Type: ref9p.Tauth, Afid: 1, Uname: "root", Aname: "", Nuname: 0})
		if err != nil {
			return fmt.Errorf("Tauth: %w", err)
		}
		if r.Type != ref9p.Rauth {
			return fmt.Errorf("harness: Tauth refused: %q", r.Ename)
		}
	}
	if err := l.attach(); err != nil {
		return err
	}
	nextFid := uint32(10)
	seq := 0
	for ri, round := range c.Rounds {
		var ps []*planned
		for _, r := range round {
			if r.Kind == "aread" && !c.Auth {
				continue
			}
			fid, aux := nextFid, nextFid+1
			nextFid += 2
			seq++
			// a private clone of the root for this request
			cr, err := l.rpc(&ref9p.Msg{Type: ref9p.Twalk, Fid: 0, Newfid: fid})
			if err != nil {
				return fmt.Errorf("round %d: cloning the root: %w", ri, err)
			}
			if cr.Type != ref9p.Rwalk {
				return fmt.Errorf("harness: clone refused: %q", cr.Ename)
			}
			p, err := plan(l, r, fid, aux, seq)
			if err != nil {
				return err
			}
			if id := excluded(l, p); id != "" {
				hx.Excluded(id)
				continue
			}
			ps = append(ps, p)
		}
		if len(ps) == 0 {
			continue
		}
		hold := ri < len(c.Hold) && c.Hold[ri]
		hx.Label(fmt.Sprintf("round inflight=%d held=%v", len(ps), hold))
		for _, p := range ps {
			if p.forward {
				p.behav.Hold = hold
				sv.S.Set(p.key, p.behav)
			}
		}
		mark := len(sv.S.Log())
		var stream []byte
		var bounds []int
		for _, p := range ps {
			stream = append(stream, ref9p.Encode(p.msg, l.dotu)...)
			bounds = append(bounds, len(stream))
		}
		l.sent += int64(len(stream))
		if c.Split {
			_ = l.end.WriteChunks(stream, bounds)
		} else {
			_ = l.end.WriteChunks(stream, nil)
		}
		if hold {
			for _, p := range ps {
				if p.forward && !sv.S.WaitEntered(p.key, deadline) {
					return hangErr(fmt.Sprintf("round %d: %s never reached the implementation", ri, p.key))
				}
			}
			sv.S.ReleaseAll()
		}
		byTag := map[uint16]*planned{}
		for _, p := range ps {
			byTag[p.msg.Tag] = p
		}
		for len(byTag) > 0 {
			m, f, err := l.next()
			if err == errClosed {
				for _, p := range byTag {
					if p.want != nil && len(p.want) > int(l.M) {
						// the statement does not say how an answer that cannot be
						// sent is refused; dropping the peer sends nothing too long
						hx.Label("connection dropped for an unsendable answer")
						return nil
					}
				}
				return violf("round %d: the server closed the connection with %d of %d requests unanswered (negotiated msize %d, 9P2000.u=%v)", ri, len(byTag), len(ps), l.M, l.dotu)
			}
			if err != nil {
				return fmt.Errorf("round %d: %w", ri, err)
			}
			p := byTag[m.Tag]
			if p == nil {
				return violf("round %d: reply %s with tag %d, which no outstanding request carries: %x", ri, ref9p.TypeName(m.Type), m.Tag, clip(f))
			}
			delete(byTag, m.Tag)
			if err := judge(l, p, m, f); err != nil {
				return fmt.Errorf("round %d: %w", ri, err)
			}
		}
		if err := implQuiet(sv.S, mark, ps); err != nil {
			return fmt.Errorf("round %d: %w", ri, err)
		}
	}
	// fence: nothing else may be in the pipe
	r, err := l.rpc(&ref9p.Msg{Type: ref9p.Twalk, Fid: 0, Newfid: 0})
	if err != nil {
		return fmt.Errorf("fence: %w", err)
	}
	if r.Type != ref9p.Rwalk {
		return fmt.Errorf("harness: fence refused: %q", r.Ename)
	}
	return nil
}

// implQuiet: a request the framework must refuse on its own (count beyond
// msize) is not covered by this property's statement; but each forwarded
// request must have been handed over exactly once, otherwise the predicted
// answers above were not the implementation's.
func implQuiet(s *script.S, from int, ps []*planned) error {
	seen := map[string]int{}
	for _, e := range s.Log()[from:] {
		if e.Kind == "enter" {
			seen[e.Key]++
		}
	}
	for _, p := range ps {
		if p.forward && seen[p.key] != 1 {
			return fmt.Errorf("harness: %s was handed to the implementation %d times", p.key, seen[p.key])
		}
	}
	return nil
}

// judge checks one reply (already within msize and well-formed in the dialect)
// against the implementation's answer.
func judge(l *link, p *planned, m *ref9p.Msg, f []byte) error {
	what := fmt.Sprintf("%s (%s knob %d) on a connection with msize %d, 9P2000.u=%v", ref9p.TypeName(p.msg.Type), p.req.Kind, p.req.Knob, l.M, l.dotu)
	unfit := p.want != nil && len(p.want) > int(l.M)
	if !unfit && m.Type != p.msg.Type+1 && m.Type != ref9p.Rerror {
		return violf("%s answered with %s: %x", what, ref9p.TypeName(m.Type), clip(f))
	}
	rel := "fits"
	switch {
	case p.want == nil:
		rel = "framework-error"
	case len(p.want) > int(l.M):
		rel = "exceeds"
	case len(p.want) >= int(l.M)-1:
		rel = "at-msize"
	}
	hx.Eval() // one evaluation per judged reply
	hx.Label(fmt.Sprintf("reply %s %s", p.req.Kind, rel))
	if rel == "exceeds" || rel == "at-msize" || l.S != l.M {
		hx.NonTrivial("sess", l.S, l.M, l.dotu, p.req.Kind, len(p.want)-int(l.M))
	}
	switch {
	case p.want == nil:
		// refused by the framework itself: an Rerror in the dialect is all the statement asks
		if m.Type != ref9p.Rerror {
			return fmt.Errorf("harness: %s was expected to be refused, answered %s", what, ref9p.TypeName(m.Type))
		}
	case len(p.want) <= int(l.M):
		if !bytes.Equal(f, p.want) {
			v := &viol{msg: fmt.Sprintf("%s: the implementation's answer (%d bytes) fits msize but the wire carries something else:\n got  %x\n want %x", what, len(p.want), clip(f), clip(p.want))}
			return v
		}
		if m.Type == ref9p.Rread && uint64(len(m.Data)) > uint64(p.msg.Count) {
			return violf("%s: Rread carries %d bytes, the Tread asked for %d", what, len(m.Data), p.msg.Count)
		}
	default:
		// the answer cannot be sent: only an Rerror that fits may take its place
		if m.Type != ref9p.Rerror {
			v := &viol{msg: fmt.Sprintf("%s: the implementation's answer needs %d bytes and cannot be sent, but the reply is %s instead of an Rerror: %x", what, len(p.want), ref9p.TypeName(m.Type), clip(f))}
			if p.req.Kind == "serr" || fallbackLen(l.dotu) > int(l.M) {
				v.finding = findErrNoFit
			}
			return v
		}
		if p.req.Kind == "serr" && !strings.HasPrefix(errText(p.req.Knob), m.Ename) && m.Ename != "buffer too small" {
			// informational only: any Rerror is acceptable here
			hx.Label("oversize error text replaced by another text")
		}
	}
	return nil
}

func sizeClass(m uint32) string {
	switch {
	case m < 29:
		return "24..28"
	case m < 64:
		return "29..63"
	case m < 256:
		return "64..255"
	case m < 65536:
		return "256..65535"
	default:
		return ">=65536"
	}
}

var sessMsizes = []uint32{24, 24, 25, 26, 27, 28, 29, 30, 32, 34, 35, 36, 40, 48, 61, 62, 63, 64, 65, 74, 100, 126, 127, 128, 129, 139, 216, 217, 218, 256, 1024, 4096, 8192, 65560, defMsize}

func genReq(t *rapid.T, M uint32, dotu, auth bool) Req {
	kinds := []string{"stat", "stat", "stat", "serr", "serr", "serr", "walk", "walk", "read", "open", "inuse", "unknown", "toolarge"}
	if auth {
		kinds = append(kinds, "aread", "aread")
	}
	r := Req{Kind: rapid.SampledFrom(kinds).Draw(t, "kind")}
	// target size of the reply relative to msize
	tgt := rapid.SampledFrom([]int{-1000000, -1, 0, 1, 2, 1000000}).Draw(t, "target") // small, msize-1, msize, msize+1, msize+2, 4*msize
	var T int
	switch tgt {
	case -1000000:
		T = 0
	case 1000000:
		T = 4 * int(M)
	default:
		T = int(M) + tgt
	}
	clamp := func(v, lo, hi int) int {
		if v < lo {
			return lo
		}
		if v > hi {
			return hi
		}
		return v
	}
	switch r.Kind {
	case "stat":
		base := 7 + 2 + 52 // Rstat with an empty name and one-byte uid/gid/muid
		if dotu {
			base += 2 + 1 + 12
		}
		r.Knob = clamp(T-base, 1, 65000-base)
	case "serr":
		base := 7 + 2
		if dotu {
			base += 4
		}
		r.Knob = clamp(T-base, 1, 65535)
	case "walk":
		maxn := clamp((int(M)-17)/3, 0, 16)
		r.Knob = clamp((T-9+6)/13, 0, maxn)
		if rapid.Bool().Draw(t, "maxwalk") {
			r.Knob = maxn
		}
	case "read", "aread":
		r.Knob = rapid.SampledFrom([]int{0, 1, int(M) - iohdr - 1, int(M) - iohdr, int(M) - iohdr, int(M) - iohdr + 1}).Draw(t, "count")
		if r.Knob < 0 {
			r.Knob = 0
		}
	}
	return r
}

func genSess(t *rapid.T) *Sess {
	M := rapid.SampledFrom(sessMsizes).Draw(t, "msize")
	c := &Sess{SrvDotu: rapid.Bool().Draw(t, "srvdotu"), Dotu: rapid.Bool().Draw(t, "dotu")}
	if rapid.IntRange(0, 2).Draw(t, "who") > 0 && M < defMsize {
		// the client lowers the limit: reply buffers from before the Tversion are larger
		c.CliMsize = M
		var bigger []uint32
		for _, s := range []uint32{0, M + 1, 8192, 65560} {
			if eff(s) > M {
				bigger = append(bigger, s)
			}
		}
		c.SrvMsize = rapid.SampledFrom(bigger).Draw(t, "srvmsize")
	} else {
		c.SrvMsize = M
		c.CliMsize = rapid.SampledFrom([]uint32{M, M + 1, 1 << 16, 0xFFFFFFFF}).Draw(t, "climsize")
		if c.CliMsize < M {
			c.CliMsize = M
		}
	}
	dotu := c.SrvDotu && c.Dotu
	// the msize the walk requests have to fit (the lowest msize any reading of
	// the statement lets the sequence of Tversions grant)
	Mlow := M
	hist := rapid.SampledFrom([]string{"", "", "", "", "", "valid-refused", "refused-between", "down-up", "up-down", "equal"}).Draw(t, "history")
	wish := map[bool]string{false: "9P2000", true: "9P2000.u"}
	other := []byte(wish[!c.Dotu])
	refusedStep := func() VStep {
		return VStep{Msize: rapid.SampledFrom([]uint32{0, 1, 10, 19, 20, 21, 23}).Draw(t, "refusedmsize"),
			Version: rapid.SampledFrom([][]byte{other, other, other, []byte(wish[c.Dotu]), []byte("9P2000.L"), {}}).Draw(t, "refusedversion")}
	}
	anyVer := func() []byte { return []byte(wish[rapid.Bool().Draw(t, "otherver")]) }
	switch hist {
	case "valid-refused":
		// the judged Tversion, then refused ones naming (mostly) the other dialect
		for n := rapid.IntRange(1, 2).Draw(t, "nrefused"); n > 0; n-- {
			c.After = append(c.After, refusedStep())
		}
	case "refused-between":
		c.Before = []VStep{{Msize: 0xFFFFFFFF, Version: anyVer()}, refusedStep()}
	case "down-up":
		var lower []uint32
		for _, m := range sessMsizes {
			if m < M {
				lower = append(lower, m)
			}
		}
		if len(lower) > 0 {
			Mlow = rapid.SampledFrom(lower).Draw(t, "firstmsize")
			c.Before = []VStep{{Msize: Mlow, Version: anyVer()}}
			if rapid.Bool().Draw(t, "refusedtoo") {
				c.Before = append(c.Before, refusedStep())
			}
		}
	case "up-down":
		c.Before = []VStep{{Msize: rapid.SampledFrom([]uint32{M + 1, 2*M + 7, 1 << 20, 0xFFFFFFFF}).Draw(t, "firstmsize"), Version: anyVer()}}
	case "equal":
		c.Before = []VStep{{Msize: c.CliMsize, Version: anyVer()}}
	}
	renegotiated := len(c.Before)+len(c.After) > 0
	c.Pre = rapid.SampledFrom([]int{0, 0, 0, 1, 2, 4}).Draw(t, "pre")
	c.Auth = rapid.IntRange(0, 3).Draw(t, "auth") == 0
	c.Split = rapid.Bool().Draw(t, "split")
	nr := rapid.IntRange(1, 4).Draw(t, "rounds")
	for i := 0; i < nr; i++ {
		k := rapid.IntRange(1, 4).Draw(t, "inflight")
		var round []Req
		for j := 0; j < k; j++ {
			r := genReq(t, M, dotu, c.Auth)
			if renegotiated {
				switch r.Kind {
				case "stat", "serr", "read", "aread":
					r.Knob, r.Rel = r.Knob-int(M), true
				case "walk":
					if maxn := (int(Mlow) - 17) / 3; r.Knob > maxn {
						r.Knob = maxn
					}
				}
			}
			round = append(round, r)
		}
		c.Rounds = append(c.Rounds, round)
		c.Hold = append(c.Hold, rapid.Bool().Draw(t, "hold"))
	}
	return c
}

func execSess(test string, c *Sess) error {
	hx.Journal(test, c)
	hx.ExtraAdd("sessions", 1)
	hx.Sample(test, c)
	return finish(runSess(c))
}

func TestPropSessions(t *testing.T) {
	hx.Check(t, "session", hx.N(800, 20000), func(t *rapid.T) {
		c := genSess(t)
		if err := execSess("session", c); err != nil {
			hx.Failf(t, "session", c, "%v", err)
		}
	})
}

// TestEnumReplySizes sweeps, for each small msize, every reply size from well
// below to well above it, sequentially on one connection per (msize, dialect,
// kind), with the limit lowered by the client (so that every reply buffer that
// predates the Tversion is larger than msize).
func TestEnumReplySizes(t *testing.T) {
	idx := 0
	for _, M := range []uint32{24, 25, 28, 29, 32, 64, 128, 217} {
		for _, dotu := range []bool{false, true} {
			for _, srv := range []uint32{0, M} {
				for _, kind := range []string{"stat", "serr", "walk"} {
					idx++
					if hx.NShards > 1 && idx%hx.NShards != hx.Shard {
						continue
					}
					c := &Sess{SrvMsize: srv, CliMsize: M, SrvDotu: dotu, Dotu: dotu, Split: true}
					lo, hi := 1, int(M)+40
					if kind == "walk" {
						lo, hi = 0, int(M-17)/3
						if hi > 16 {
							hi = 16
						}
					}
					for k := lo; k <= hi; k++ {
						c.Rounds = append(c.Rounds, []Req{{Kind: kind, Knob: k}})
					}
					c.Hold = make([]bool, len(c.Rounds))
					if err := execSess("sweep", c); err != nil {
						hx.Violation("sweep", c, err.Error())
						t.Fatalf("msize %d dotu %v srv %d %s: %v", M, dotu, srv, kind, err)
					}
				}
			}
		}
	}
	hx.Exhaustive("reply-size sweep: negotiated msize {24, 25, 28, 29, 32, 64, 128, 217} x dialect x {limit lowered by the client from the default, equal limits} x {Rstat name length 1..msize+40, Rerror text length 1..msize+40, Rwalk 0..min(16,(msize-17)/3) qids}, one request at a time on one connection")
}

// ---------------------------------------------------------------------------
// 4. announced frame sizes

type FrameCase struct {
	SrvMsize uint32 `json:"srv_msize"`
	CliMsize uint32 `json:"cli_msize"`
	Dotu     bool   `json:"dotu"`
	Size     uint32 `json:"size"`
	Mode     string `json:"mode"` // hdr: the 7-byte header only; hdr4/hdr5/hdr6: only its first 4/5/6 bytes; full: header followed by data; split: header and data in two writes
	// Before / After: further Tversions on the connection (see link.history); Rel:
	// the announced size is the msize in force when the frame is sent plus Size
	// (as int32) instead of Size itself
	Before []VStep `json:"before,omitempty"`
	After  []VStep `json:"after,omitempty"`
	Rel    bool    `json:"rel,omitempty"`
}

// walkOfSize builds a well-formed Twalk of exactly n bytes (n == 17 or n >= 19).
func walkOfSize(n int, tag uint16) *ref9p.Msg {
	m := &ref9p.Msg{Type: ref9p.Twalk, Tag: tag, Fid: 0, Newfid: 77}
	rest := n - 17 // bytes taken by the names: 2 + len each
	if rest <= 0 {
		return m
	}
	k := (rest + 65536) / 65537
	for i := 0; i < k; i++ {
		share := rest/(k-i) - 2
		if i == k-1 {
			share = rest - 2
		}
		name := ""
		if share > 0 {
			name = "d" + strings.Repeat("n", share-1)
		}
		m.Wname = append(m.Wname, name)
		rest -= 2 + share
	}
	return m
}

func clampI(v, lo, hi int64) int64 {
	if v < lo {
		return lo
	}
	if v > hi {
		return hi
	}
	return v
}

func min(a, b int) int {
	if a < b {
		return a
	}
	return b
}

func runFrame(fc *FrameCase) error {
	c := *fc
	S := eff(c.SrvMsize)
	sv := script.NewServer(script.Config{Msize: c.SrvMsize, Dotu: true})
	l := dialSrv(sv.Srv, "c12f", S)
	l.sv = sv
	defer l.close()
	ver := "9P2000"
	if c.Dotu {
		ver = "9P2000.u"
	}
	if err := l.history(c.Before, true, "before"); err != nil {
		return err
	}
	if err := l.negotiate(c.CliMsize, []byte(ver), true); err != nil {
		return err
	}
	if err := l.history(c.After, true, "after"); err != nil {
		return err
	}
	if err := l.attach(); err != nil {
		return err
	}
	M := l.M
	if c.Rel {
		c.Size = M + c.Size // modulo 2^32: Size carries an int32
	}
	if len(c.Before)+len(c.After) > 0 {
		hx.Label(fmt.Sprintf("frame after %d+%d other Tversions, size-msize=%d", len(c.Before), len(c.After), clampI(int64(c.Size)-int64(M), -3, 3)))
	}
	legal := c.Size >= 7 && c.Size <= M
	wellFormed := c.Size == 17 || (c.Size >= 19 && c.Size <= 4*defMsize)
	tag := l.nextTag()
	var data []byte
	var wm *ref9p.Msg
	if wellFormed {
		wm = walkOfSize(int(c.Size), tag)
		data = ref9p.Encode(wm, l.dotu)
		if len(data) != int(c.Size) {
			return fmt.Errorf("harness: built a Twalk of %d bytes, wanted %d", len(data), c.Size)
		}
	} else {
		n := 16
		if c.Size >= 7 && c.Size < 19 {
			n = int(c.Size) - 7
		} else if c.Size > 4*defMsize {
			n = 1 << 16
		}
		data = make([]byte, 7+n)
		binary.LittleEndian.PutUint32(data, c.Size)
		data[4] = ref9p.Twalk
		binary.LittleEndian.PutUint16(data[5:], tag)
		copy(data[7:], script.PRF("filler", n))
	}
	mark := len(sv.S.Log())
	nsent := len(data)
	switch c.Mode {
	case "hdr":
		nsent = 7
		l.write(data[:7])
	case "hdr4", "hdr5", "hdr6":
		// the size prefix alone (and the first bytes behind it) announces the frame
		nsent = 4 + int(c.Mode[3]-'4')
		l.write(data[:nsent])
	case "full":
		l.write(data)
	case "split":
		l.write(data[:7])
		if len(data) > 7 {
			l.write(data[7:])
		}
	default:
		return fmt.Errorf("harness: mode %q", c.Mode)
	}
	complete := (c.Mode != "hdr" || c.Size == 7) && !strings.HasPrefix(c.Mode, "hdr4") && !strings.HasPrefix(c.Mode, "hdr5") && !strings.HasPrefix(c.Mode, "hdr6")
	hx.Label(fmt.Sprintf("frame %s legal=%v wellformed=%v", c.Mode, legal, wellFormed))

	if legal && wellFormed && complete {
		// an ordinary request of at most msize bytes: it must be served
		r, f, err := l.next()
		if err == errClosed {
			return violf("a well-formed Twalk of %d bytes was dropped on a connection with msize %d", c.Size, M)
		}
		if err != nil {
			return err
		}
		if r.Tag != tag || (r.Type != ref9p.Rwalk && r.Type != ref9p.Rerror) {
			return violf("Twalk of %d bytes (msize %d) answered with %x", c.Size, M, clip(f))
		}
		if n, _ := countEnter(sv.S, mark); n != 1 {
			return violf("a well-formed Twalk of %d bytes (msize %d) reached the implementation %d times", c.Size, M, n)
		}
		return nil
	}
	if legal {
		// an incomplete or malformed frame of a permitted size: the statement
		// only says it must not be executed
		time.Sleep(time.Millisecond)
		if n, what := countEnter(sv.S, mark); n != 0 {
			return violf("a malformed/incomplete frame announcing %d bytes reached the implementation (%s)", c.Size, what)
		}
		return nil
	}
	// announced size above msize or below a header: the connection must go
	for i := 0; ; i++ {
		if l.end.PeerClosed() || l.w.libClosed() {
			break
		}
		if l.w.waiting(l.sent) {
			// double-check after a pause: the flag is set just before the Read blocks
			time.Sleep(2 * time.Millisecond)
			if l.w.waiting(l.sent) && !l.end.PeerClosed() {
				n, what := countEnter(sv.S, mark)
				return violf("a frame announcing %d bytes (msize %d, %d bytes sent) did not make the server drop the connection: it went back to reading; implementation calls since: %d %s", c.Size, M, nsent, n, what)
			}
		}
		if i > 20000 {
			return hangErr(fmt.Sprintf("frame announcing %d bytes: the server neither closed the connection nor went back to reading", c.Size))
		}
		time.Sleep(500 * time.Microsecond)
	}
	time.Sleep(time.Millisecond)
	if n, what := countEnter(sv.S, mark); n != 0 {
		return violf("a frame announcing %d bytes on a connection with msize %d reached the implementation (%s)", c.Size, M, what)
	}
	// whatever was written before the drop still obeys the universal clauses
	for {
		_, _, err := l.next()
		if err == errClosed {
			break
		}
		if err != nil {
			return err
		}
	}
	return nil
}

func TestEnumFrameSizes(t *testing.T) {
	type cfg struct{ s, c uint32 }
	var cfgs []cfg
	for _, m := range []uint32{24, 25, 32, 64, 128, 4096, 8192, 65560, defMsize} {
		cfgs = append(cfgs, cfg{m, 0xFFFFFFFF})
	}
	for _, m := range []uint32{24, 128, 8192} {
		cfgs = append(cfgs, cfg{0, m})
	}
	idx, n := 0, 0
	for _, cf := range cfgs {
		M := min32(eff(cf.s), cf.c)
		sizes := uniq([]uint32{0, 1, 2, 3, 4, 5, 6, 7, 8, 17, 19, 20, M - 1, M, M + 1, M + 2, 2 * M, 1 << 16, 1 << 31, 0xFFFFFFFF})
		for _, dotu := range []bool{false, true} {
			for _, sz := range sizes {
				for _, mode := range []string{"hdr", "full", "split", "hdr4", "hdr5", "hdr6"} {
					idx++
					if hx.NShards > 1 && idx%hx.NShards != hx.Shard {
						continue
					}
					fc := &FrameCase{SrvMsize: cf.s, CliMsize: cf.c, Dotu: dotu, Size: sz, Mode: mode}
					hx.Journal("frame", fc)
					hx.Eval()
					hx.Sample("frame", fc)
					n++
					if sz < 7 || sz+1 >= M {
						hx.NonTrivial("frame", cf.s, cf.c, dotu, sz, mode)
					}
					if err := finish(runFrame(fc)); err != nil {
						hx.Violation("frame", fc, err.Error())
						t.Fatalf("%+v: %v", fc, err)
					}
				}
			}
		}
	}
	hx.ExtraAdd("frame_probes", int64(n))
	hx.Exhaustive("announced frame sizes {0..8, 17, 19, 20, msize-1, msize, msize+1, msize+2, 2*msize, 2^16, 2^31, 2^32-1} x {7-byte header only, header followed by data in one write, in two writes, only the first 4 / 5 / 6 bytes} x dialect x negotiated msize {24, 25, 32, 64, 128, 4096, 8192, 65560, 1 MiB+24 set by the server; 24, 128, 8192 lowered by the client}")
}

// TestEnumFramesRenegotiated: the frame-size probes on connections that saw
// more than one Tversion: the limit is the msize granted by the last ACCEPTED
// Tversion (a refused one changes nothing), whether it was lowered, raised or
// repeated. Sizes are taken relative to the msize in force (the last Rversion)
// and absolutely around every value some reading of the statement could grant.
func TestEnumFramesRenegotiated(t *testing.T) {
	idx, n := 0, 0
	two := []string{"9P2000", "9P2000.u"}
	for _, sm := range []uint32{0, 8192, 1024} {
		S := eff(sm)
		for di, dotu := range []bool{false, true} {
			o := []byte(two[1-di])
			type hist struct {
				before []VStep
				c      uint32
				after  []VStep
			}
			hs := []hist{
				{before: []VStep{{64, o}}, c: S},
				{before: []VStep{{256, o}}, c: 0xFFFFFFFF},
				{before: []VStep{{0xFFFFFFFF, o}}, c: 128},
				{before: []VStep{{128, o}}, c: 128},
				{c: 128, after: []VStep{{10, o}}},
				{c: 0xFFFFFFFF, after: []VStep{{23, o}}},
				{before: []VStep{{64, o}, {0, o}}, c: S},
			}
			for _, h := range hs {
				type sz struct {
					v   uint32
					rel bool
				}
				rm1 := int32(-1)
				sizes := []sz{{uint32(rm1), true}, {0, true}, {1, true}, {2, true}}
				var abs []uint32
				for _, st := range append(append([]VStep{}, h.before...), VStep{Msize: h.c}) {
					if st.Msize >= iohdr {
						abs = append(abs, min32(S, st.Msize), min32(S, st.Msize)+1)
					}
				}
				for _, a := range uniq(abs) {
					sizes = append(sizes, sz{a, false})
				}
				for _, z := range sizes {
					for _, mode := range []string{"hdr", "full", "split"} {
						idx++
						if hx.NShards > 1 && idx%hx.NShards != hx.Shard {
							continue
						}
						fc := &FrameCase{SrvMsize: sm, CliMsize: h.c, Dotu: dotu, Size: z.v, Rel: z.rel, Mode: mode, Before: h.before, After: h.after}
						hx.Journal("frame", fc)
						hx.Eval()
						hx.Sample("frame", fc)
						hx.NonTrivial("frame-reneg", sm, h.c, dotu, z.v, z.rel, mode, fmt.Sprint(h.before), fmt.Sprint(h.after))
						n++
						if err := finish(runFrame(fc)); err != nil {
							hx.Violation("frame", fc, err.Error())
							t.Fatalf("%+v: %v", fc, err)
						}
					}
				}
			}
		}
	}
	hx.ExtraAdd("frame_probes", int64(n))
	hx.Exhaustive("frame sizes on connections with several Tversions: server msize {default, 8192, 1024} x dialect x histories {64 then s, 256 then 2^32-1, 2^32-1 then 128, 128 then 128, 128 then refused(10), 2^32-1 then refused(23), 64 then refused(0) then s} (the other Tversions name the other dialect) x announced size {granted-1, granted, granted+1, granted+2, and v, v+1 for every min(server, client) of the history} x {header only, one write, two writes}")
}

// TestPropFrames draws announced sizes from the whole 32-bit range.
func TestPropFrames(t *testing.T) {
	hx.Check(t, "frame", hx.N(150, 3000), func(t *rapid.T) {
		M := rapid.SampledFrom([]uint32{24, 25, 31, 32, 64, 100, 128, 1000, 4096, 8192, 65560}).Draw(t, "msize")
		fc := &FrameCase{SrvMsize: M, CliMsize: 0xFFFFFFFF, Dotu: rapid.Bool().Draw(t, "dotu"), Mode: rapid.SampledFrom([]string{"hdr", "full", "split", "hdr4", "hdr5", "hdr6"}).Draw(t, "mode")}
		if rapid.Bool().Draw(t, "clientlowers") {
			fc.SrvMsize, fc.CliMsize = 0, M
		}
		fc.Size = rapid.OneOf(rapid.Uint32Range(0, 40), rapid.Uint32Range(M-3, M+3), rapid.Uint32Range(M+1, 4*M), rapid.Uint32()).Draw(t, "size")
		hx.Journal("frame", fc)
		hx.Eval()
		hx.Sample("frame", fc)
		if fc.Size < 7 || fc.Size+1 >= M {
			hx.NonTrivial("frame", fc.SrvMsize, fc.CliMsize, fc.Dotu, fc.Size, fc.Mode)
		}
		if err := finish(runFrame(fc)); err != nil {
			hx.Failf(t, "frame", fc, "%v", err)
		}
	})
}

// ---------------------------------------------------------------------------
// 4b. frames pipelined behind the msize-lowering Tversion

// PipeCase: the Tversion and the frame(s) behind it are written without
// waiting for the Rversion. The limit a frame is held to is the one in force
// when that frame is reached in the byte stream, i.e. the negotiated one,
// however the stream is cut into transport reads.
type PipeCase struct {
	SrvMsize uint32 `json:"srv_msize"`
	CliMsize uint32 `json:"cli_msize"`
	Dotu     bool   `json:"dotu"`
	Size     uint32 `json:"size"`
	Mode     string `json:"mode"` // hdr: 7-byte header only; full: a complete request of that size
	Mid      bool   `json:"mid"`  // a small legal request between the Tversion and the frame
	Cut      int    `json:"cut"`  // 0: one write; n > 0: two writes, the first of n bytes
	// VTag: the tag the Tversion carries (nil: NOTAG, as every ordinary client
	// sends it). Any tag is legal on the wire; the Rversion must carry it and
	// the exchange must be in force for the frame behind it all the same.
	VTag *uint16 `json:"vtag,omitempty"`
}

func (c *PipeCase) vtag() uint16 {
	if c.VTag == nil {
		return ref9p.NOTAG
	}
	return *c.VTag
}

// attachOfSize builds a well-formed Tattach (fid 0, root) of exactly n bytes,
// or nil when no such Tattach exists in the dialect.
func attachOfSize(n int, dotu bool, tag uint16) *ref9p.Msg {
	m := &ref9p.Msg{Type: ref9p.Tattach, Tag: tag, Fid: 0, Afid: ref9p.NOFID, Uname: "root", Nuname: 0}
	base := 7 + 4 + 4 + 2 + 4 + 2
	if dotu {
		base += 4
		if n < base {
			m.Uname = "" // 9P2000.u resolves the numeric id
			base -= 4
		}
	}
	if n < base || n-base > 65535 {
		return nil
	}
	m.Aname = strings.Repeat("a", n-base)
	return m
}

// awaitDrop waits until the server has closed the connection; it is a
// violation when the server, having consumed every byte, goes back to reading.
func awaitDrop(l *link, what string) error {
	for i := 0; ; i++ {
		if l.end.PeerClosed() || l.w.libClosed() {
			return nil
		}
		if l.w.waiting(l.sent) {
			time.Sleep(2 * time.Millisecond)
			if l.w.waiting(l.sent) && !l.end.PeerClosed() {
				return violf("%s did not make the server drop the connection: it consumed all %d bytes and went back to reading", what, l.sent)
			}
		}
		if i > 20000 {
			return hangErr(what + ": the server neither closed the connection nor went back to reading")
		}
		if i < 64 {
			runtime.Gosched() // the server usually decides within microseconds
			continue
		}
		time.Sleep(500 * time.Microsecond)
	}
}

func runPipe(c *PipeCase) error {
	S := eff(c.SrvMsize)
	sv := script.NewServer(script.Config{Msize: c.SrvMsize, Dotu: true})
	l := dialSrv(sv.Srv, "c12p", S)
	l.sv = sv
	defer l.close()
	ver := "9P2000"
	if c.Dotu {
		ver = "9P2000.u"
	}
	refuse, M, wver := expect(S, c.CliMsize, true, []byte(ver))
	if refuse {
		return fmt.Errorf("harness: pipelined cases need a Tversion that is accepted")
	}
	dotu := wver == "9P2000.u"
	vtag := c.vtag()
	stream := ref9p.Encode(&ref9p.Msg{Type: ref9p.Tversion, Tag: vtag, Msize: c.CliMsize, Version: ver}, false)
	if c.VTag != nil {
		// the requests behind the Tversion never share its tag (a tag in use twice
		// is another property's subject)
		l.tag = 0x4000
		if vtag >= 0x4000 && vtag < 0x4004 {
			l.tag = 0x5000
		}
	}
	var midTag uint16
	if c.Mid {
		midTag = l.nextTag()
		stream = append(stream, ref9p.Encode(&ref9p.Msg{Type: ref9p.Tclunk, Tag: midTag, Fid: 4242}, dotu)...)
	}
	tag := l.nextTag()
	var fm *ref9p.Msg
	var data []byte
	if c.Mode == "full" {
		if fm = attachOfSize(int(c.Size), dotu, tag); fm == nil && (c.Size == 17 || c.Size >= 19) && c.Size <= 4*defMsize {
			fm = walkOfSize(int(c.Size), tag)
		}
	}
	if fm != nil {
		data = ref9p.Encode(fm, dotu)
		if len(data) != int(c.Size) {
			return fmt.Errorf("harness: built a request of %d bytes, wanted %d", len(data), c.Size)
		}
	} else {
		data = make([]byte, 7)
		binary.LittleEndian.PutUint32(data, c.Size)
		data[4] = ref9p.Tattach
		binary.LittleEndian.PutUint16(data[5:], tag)
		if c.Mode == "full" {
			n := 16
			if c.Size >= 7 && c.Size < 4*defMsize {
				n = int(c.Size) - 7
			}
			data = append(data, script.PRF("filler", n)...)
		}
	}
	stream = append(stream, data...)
	if c.Cut > 0 && c.Cut < len(stream) {
		l.write(stream[:c.Cut])
		l.write(stream[c.Cut:])
	} else {
		l.write(stream)
	}
	legal := c.Size >= 7 && c.Size <= M
	what := fmt.Sprintf("a frame announcing %d bytes (%s) pipelined behind the Tversion (tag %d, version %q) that lowers msize from %d to %d (cut %d of %d)", c.Size, c.Mode, vtag, ver, S, M, c.Cut, len(stream))
	hx.Label(fmt.Sprintf("pipelined %s legal=%v cut=%v mid=%v Tversion tag NOTAG=%v", c.Mode, legal, c.Cut > 0, c.Mid, c.VTag == nil))

	// collect what the server writes; the Rversion is checked when it is seen
	// (a server that hangs up may drop replies it had queued)
	sawVersion := false
	check := func(f []byte) (*ref9p.Msg, error) {
		if !sawVersion {
			r, _, derr := ref9p.Decode(f, false)
			if derr != nil || r.Type != ref9p.Rversion {
				return nil, violf("%s: the first frame from the server is not the Rversion: %x", what, clip(f))
			}
			if r.Tag != vtag {
				return nil, violf("%s: the Rversion carries tag %d: %x", what, r.Tag, clip(f))
			}
			if r.Msize != M || r.Version != wver {
				return nil, violf("Tversion msize=%d version=%q against a server limit of %d yields msize %d version %q, want %d %q", c.CliMsize, ver, S, r.Msize, r.Version, M, wver)
			}
			sawVersion = true
			l.M, l.dotu = M, dotu
			return r, nil
		}
		if uint64(len(f)) > uint64(M) {
			return nil, violf("%s: the server sent a frame of %d bytes", what, len(f))
		}
		r, _, derr := ref9p.Decode(f, dotu)
		if derr != nil {
			return nil, violf("%s: the server sent a frame that is not well-formed in the negotiated dialect: %v: %x", what, derr, clip(f))
		}
		return r, nil
	}
	if legal && fm != nil {
		// an ordinary request within the negotiated msize: it must be served
		for {
			f, err := l.raw()
			if err == errClosed {
				return violf("%s: a well-formed %s within msize was dropped", what, ref9p.TypeName(fm.Type))
			}
			if err != nil {
				return err
			}
			r, err := check(f)
			if err != nil {
				return err
			}
			if r.Type == ref9p.Rversion || (c.Mid && r.Tag == midTag) {
				continue
			}
			if r.Tag != tag || (r.Type != fm.Type+1 && r.Type != ref9p.Rerror) {
				return violf("%s: answered with %x", what, clip(f))
			}
			if fm.Type == ref9p.Tattach {
				if n, _ := countEnter(sv.S, 0); n != 1 || r.Type != ref9p.Rattach {
					return violf("%s: a well-formed Tattach within msize was answered %s after %d implementation calls", what, ref9p.TypeName(r.Type), n)
				}
			}
			return nil
		}
	}
	if legal {
		time.Sleep(time.Millisecond)
		if n, w := countEnter(sv.S, 0); n != 0 {
			return violf("%s: a malformed/incomplete frame reached the implementation (%s)", what, w)
		}
		return nil
	}
	if err := awaitDrop(l, what); err != nil {
		if n, w := countEnter(sv.S, 0); n != 0 {
			return fmt.Errorf("%w; implementation calls: %d (%s)", err, n, w)
		}
		return err
	}
	time.Sleep(time.Millisecond)
	if n, w := countEnter(sv.S, 0); n != 0 {
		return violf("%s reached the implementation (%s)", what, w)
	}
	for {
		f, err := l.raw()
		if err == errClosed {
			return nil
		}
		if err != nil {
			return err
		}
		r, err := check(f)
		if err != nil {
			return err
		}
		if r.Tag == tag && fm != nil && r.Type == fm.Type+1 {
			return violf("%s was answered with %s", what, ref9p.TypeName(r.Type))
		}
	}
}

func execPipe(pc *PipeCase) error {
	hx.Journal("pipelined", pc)
	hx.Eval()
	hx.Sample("pipelined", pc)
	if pc.Size > min32(eff(pc.SrvMsize), pc.CliMsize) && pc.Size <= eff(pc.SrvMsize) {
		hx.NonTrivial("pipelined", pc.SrvMsize, pc.CliMsize, pc.Dotu, pc.Size, pc.Mode, pc.Mid, pc.Cut, pc.vtag())
	}
	return finish(runPipe(pc))
}

func TestEnumPipelined(t *testing.T) {
	idx, n := 0, 0
	one := func(pc *PipeCase) {
		idx++
		if hx.NShards > 1 && idx%hx.NShards != hx.Shard {
			return
		}
		n++
		if err := execPipe(pc); err != nil {
			hx.Violation("pipelined", pc, err.Error())
			t.Fatalf("%+v: %v", pc, err)
		}
	}
	tagp := func(v uint16) *uint16 { return &v }
	// the tag of the Tversion: NOTAG as every ordinary client sends it, and
	// ordinary tags (any tag is legal on the wire)
	vtags := []*uint16{nil, tagp(0), tagp(1), tagp(7), tagp(0xFFFE)}
	for _, s := range []uint32{0, 8192, 1024} {
		S := eff(s)
		for _, c := range []uint32{24, 25, 64, 128, 1000} {
			if c >= S {
				continue
			}
			for _, dotu := range []bool{false, true} {
				for _, sz := range uniq([]uint32{0, 6, c - 1, c, c + 1, c + 2, 2 * c, 320, S - 1, S, S + 1, 1 << 31}) {
					for _, mode := range []string{"hdr", "full"} {
						for _, mid := range []bool{false, true} {
							for _, vt := range vtags {
								// sizes that are illegal under either limit say nothing
								// more with a tagged Tversion
								if vt != nil && (sz < 7 || sz > S) {
									continue
								}
								one(&PipeCase{SrvMsize: s, CliMsize: c, Dotu: dotu, Size: sz, Mode: mode, Mid: mid, VTag: vt})
							}
						}
					}
				}
			}
		}
	}
	// the verdict must not depend on how the stream is cut into reads: every
	// split point of Tversion + frame for two small configurations
	for _, cf := range [][2]uint32{{1024, 64}, {1024, 24}} {
		for _, dotu := range []bool{false, true} {
			for _, sz := range []uint32{cf[1] - 1, cf[1], cf[1] + 1, 320, 1024, 1025} {
				vlen := 13 + 6
				if dotu {
					vlen += 2
				}
				for cut := 1; cut < vlen+int(sz); cut++ {
					one(&PipeCase{SrvMsize: cf[0], CliMsize: cf[1], Dotu: dotu, Size: sz, Mode: "full", Cut: cut})
					if cf[1] == 64 && (sz == cf[1]+1 || sz == 320) {
						one(&PipeCase{SrvMsize: cf[0], CliMsize: cf[1], Dotu: dotu, Size: sz, Mode: "full", Cut: cut, VTag: tagp(7)})
					}
				}
			}
		}
	}
	hx.ExtraAdd("pipelined_probes", int64(n))
	hx.Exhaustive("frames pipelined behind the msize-lowering Tversion in one write: server msize {default, 8192, 1024} x client msize {24, 25, 64, 128, 1000} x dialect x announced size {0, 6, c-1, c, c+1, c+2, 2c, 320, s-1, s, s+1, 2^31} x {header only, complete Tattach/Twalk of that size} x {directly behind, behind one small request} x tag of the Tversion {NOTAG; 0, 1, 7, 0xFFFE for the sizes 7..s}; and every split point of Tversion + frame for server 1024 / client {64, 24} x sizes {c-1, c, c+1, 320, 1024, 1025} with NOTAG, and for client 64 x sizes {c+1, 320} also with Tversion tag 7")
}

// ---------------------------------------------------------------------------
// 5. Ufs: Tread counts, stat and error replies of a real file server

type UfsCase struct {
	SrvMsize uint32 `json:"srv_msize"`
	CliMsize uint32 `json:"cli_msize"`
	SrvDotu  bool   `json:"srv_dotu"`
	Dotu     bool   `json:"dotu"`
	// Before / After: further Tversions on the connection (see link.history)
	Before []VStep `json:"before,omitempty"`
	After  []VStep `json:"after,omitempty"`
}

var (
	ufsRoot string
	ufsData = script.PRF("ufs file", 70000)
	longNm  = "L" + strings.Repeat("o", 180) + "ng"
)

// ufsTree creates the exported tree on first use (tests of this package run
// one after the other).
func ufsTree() (string, error) {
	if ufsRoot != "" {
		return ufsRoot, nil
	}
	root, err := os.MkdirTemp("", "verif-c12-")
	if err != nil {
		return "", err
	}
	for _, n := range []string{"f", longNm} {
		if err = os.WriteFile(filepath.Join(root, n), ufsData, 0o644); err != nil {
			return "", err
		}
	}
	if err = os.MkdirAll(filepath.Join(root, "d", "sub"), 0o755); err != nil {
		return "", err
	}
	if err = os.WriteFile(filepath.Join(root, "d", "x"), []byte("x"), 0o644); err != nil {
		return "", err
	}
	ufsRoot = root
	return root, nil
}

func ufsCleanup() {
	if ufsRoot != "" {
		_ = os.RemoveAll(ufsRoot)
		ufsRoot = ""
	}
}

func runUfs(c *UfsCase) error {
	root, err := ufsTree()
	if err != nil {
		return fmt.Errorf("harness: %v", err)
	}
	S := eff(c.SrvMsize)
	u := ufsrv.Start(root, c.SrvDotu, c.SrvMsize)
	l := dialSrv(&u.Srv, "c12u", S)
	defer l.close()
	ver := "9P2000"
	if c.Dotu {
		ver = "9P2000.u"
	}
	if err := l.history(c.Before, c.SrvDotu, "before"); err != nil {
		return err
	}
	if err := l.negotiate(c.CliMsize, []byte(ver), c.SrvDotu); err != nil {
		if len(c.Before) > 0 {
			return fmt.Errorf("after the Tversions %v on the same connection: %w", c.Before, err)
		}
		return err
	}
	if err := l.history(c.After, c.SrvDotu, "after"); err != nil {
		return err
	}
	if len(c.Before)+len(c.After) > 0 {
		hx.Label(fmt.Sprintf("ufs after %d+%d other Tversions", len(c.Before), len(c.After)))
	}
	M := l.M
	if hx.IsKnown(findErrNoFit) && M < 128 {
		hx.Excluded(findErrNoFit)
		return nil
	}
	if hx.IsKnown(findOversize) && l.S > M && M < 512 {
		hx.Excluded(findOversize)
		return nil
	}
	hx.Label(fmt.Sprintf("ufs msize=%s dotu=%v", sizeClass(M), l.dotu))
	if err := l.attach(); err != nil {
		return err
	}
	step := func(m *ref9p.Msg) (*ref9p.Msg, error) {
		if uint64(len(ref9p.Encode(m, l.dotu))) > uint64(M) {
			return nil, nil // the request itself does not fit
		}
		r, err := l.rpc(m)
		if err != nil {
			return nil, fmt.Errorf("%s on Ufs (msize %d, 9P2000.u=%v): %w", ref9p.TypeName(m.Type), M, l.dotu, err)
		}
		hx.Label("ufs reply " + ref9p.TypeName(r.Type))
		return r, nil
	}
	// file reads
	if r, err := step(&ref9p.Msg{Type: ref9p.Twalk, Fid: 0, Newfid: 1, Wname: []string{"f"}}); err != nil || r == nil || r.Type != ref9p.Rwalk {
		return err
	}
	if r, err := step(&ref9p.Msg{Type: ref9p.Topen, Fid: 1, Mode: 0}); err != nil || r == nil || r.Type != ref9p.Ropen {
		return err
	}
	counts := uniq([]uint32{0, 1, 2, 7, M - 26, M - 25, M - 24, M - 23, M - 11, M, 1 << 16, 1 << 31, 0xFFFFFFE8, 0xFFFFFFFF})
	for _, off := range []uint64{0, 1, 69990, 70000, 70001} {
		for _, cnt := range counts {
			if cnt > 0xFFFFFF00 && M < iohdr+1 {
				continue
			}
			r, err := step(&ref9p.Msg{Type: ref9p.Tread, Fid: 1, Offset: off, Count: cnt})
			if err != nil {
				return err
			}
			if r.Type != ref9p.Rread {
				if cnt <= M-iohdr {
					// an Rread with that much data is a message of at most msize bytes
					return violf("Ufs: Tread offset %d count %d of an open 70000-byte file was refused (%q) although count <= msize - %d (negotiated msize %d)", off, cnt, r.Ename, iohdr, M)
				}
				continue
			}
			hx.NonTrivial("ufsread", S, M, l.dotu, off, cnt)
			if uint64(len(r.Data)) > uint64(cnt) {
				return violf("Ufs: Tread offset %d count %d (msize %d) answered with %d bytes", off, cnt, M, len(r.Data))
			}
			if off <= uint64(len(ufsData)) && !bytes.Equal(r.Data, ufsData[off:off+uint64(len(r.Data))]) {
				return violf("Ufs: Tread offset %d count %d (msize %d) returned bytes that are not the file's", off, cnt, M)
			}
		}
	}
	// errors and stats in the dialect
	if _, err := step(&ref9p.Msg{Type: ref9p.Twalk, Fid: 0, Newfid: 2, Wname: []string{"n"}}); err != nil {
		return err
	}
	if r, err := step(&ref9p.Msg{Type: ref9p.Tstat, Fid: 1}); err != nil {
		return err
	} else if r != nil && r.Type == ref9p.Rstat && r.Stat.Name != "f" {
		return violf("Ufs: Rstat of f names %q", r.Stat.Name)
	}
	if r, err := step(&ref9p.Msg{Type: ref9p.Twalk, Fid: 0, Newfid: 3, Wname: []string{longNm}}); err != nil {
		return err
	} else if r != nil && r.Type == ref9p.Rwalk {
		if r, err := step(&ref9p.Msg{Type: ref9p.Tstat, Fid: 3}); err != nil {
			return err
		} else if r != nil && r.Type == ref9p.Rstat && r.Stat.Name != longNm {
			return violf("Ufs: Rstat of the long name names %q", r.Stat.Name)
		}
	}
	// directory read
	if r, err := step(&ref9p.Msg{Type: ref9p.Twalk, Fid: 0, Newfid: 4, Wname: []string{"d"}}); err != nil || r == nil || r.Type != ref9p.Rwalk {
		return err
	}
	if r, err := step(&ref9p.Msg{Type: ref9p.Topen, Fid: 4, Mode: 0}); err != nil || r == nil || r.Type != ref9p.Ropen {
		return err
	}
	for _, cnt := range uniq([]uint32{M - 24, 40, 0}) {
		if cnt > M-24 {
			continue
		}
		r, err := step(&ref9p.Msg{Type: ref9p.Tread, Fid: 4, Offset: 0, Count: cnt})
		if err != nil {
			return err
		}
		if r.Type == ref9p.Rread {
			if uint64(len(r.Data)) > uint64(cnt) {
				return violf("Ufs: directory Tread count %d (msize %d) answered with %d bytes", cnt, M, len(r.Data))
			}
			for b := r.Data; len(b) > 0; {
				_, n, derr := ref9p.DecodeStat(b, l.dotu)
				if derr != nil {
					return violf("Ufs: directory entry not well-formed in the negotiated dialect (9P2000.u=%v): %v", l.dotu, derr)
				}
				b = b[n:]
			}
		}
	}
	return nil
}

func TestEnumUfs(t *testing.T) {
	t.Cleanup(ufsCleanup)
	idx := 0
	for _, M := range []uint32{24, 25, 28, 31, 37, 38, 42, 64, 100, 128, 256, 300, 4096, 8216, 65560, defMsize} {
		for _, srvLower := range []bool{false, true} {
			for _, sd := range []bool{false, true} {
				for _, cd := range []bool{false, true} {
					idx++
					if hx.NShards > 1 && idx%hx.NShards != hx.Shard {
						continue
					}
					uc := &UfsCase{SrvMsize: 0, CliMsize: M, SrvDotu: sd, Dotu: cd}
					if srvLower {
						uc.SrvMsize, uc.CliMsize = M, 0xFFFFFFFF
					}
					hx.Journal("ufs", uc)
					hx.Eval()
					hx.Sample("ufs", uc)
					if err := finish(runUfs(uc)); err != nil {
						hx.Violation("ufs", uc, err.Error())
						t.Fatalf("%+v: %v", uc, err)
					}
				}
			}
		}
	}
	two := []string{"9P2000", "9P2000.u"}
	for _, M := range []uint32{128, 300, 4096, 8216} {
		for _, sd := range []bool{false, true} {
			for ci, cd := range []bool{false, true} {
				o := []byte(two[1-ci])
				for _, uc := range []*UfsCase{
					{SrvMsize: 0, CliMsize: M, Before: []VStep{{M / 2, o}}},
					{SrvMsize: M, CliMsize: 0xFFFFFFFF, Before: []VStep{{M / 2, o}}},
					{SrvMsize: 0, CliMsize: M, Before: []VStep{{2 * M, o}}},
					{SrvMsize: 0, CliMsize: M, After: []VStep{{10, o}}},
					{SrvMsize: M, CliMsize: 0xFFFFFFFF, Before: []VStep{{0xFFFFFFFF, []byte(two[ci])}, {0, o}}},
				} {
					idx++
					if hx.NShards > 1 && idx%hx.NShards != hx.Shard {
						continue
					}
					uc.SrvDotu, uc.Dotu = sd, cd
					hx.Journal("ufs", uc)
					hx.Eval()
					hx.Sample("ufs", uc)
					if err := finish(runUfs(uc)); err != nil {
						hx.Violation("ufs", uc, err.Error())
						t.Fatalf("%+v: %v", uc, err)
					}
				}
			}
		}
	}
	hx.Exhaustive("Ufs on connections with several Tversions: msize m {128, 300, 4096, 8216} x dialect wishes x histories {m/2 then m (server default), m/2 then 2^32-1 (server m), 2m then m, m then refused(10), 2^32-1 then refused(0) then 2^32-1 (server m)}, the other Tversions naming the other dialect; the whole Ufs conversation under the msize the last Rversion granted")
	hx.Exhaustive("Ufs: negotiated msize {24, 25, 28, 31, 37, 38, 42, 64, 100, 128, 256, 300, 4096, 8216, 65560, 1 MiB+24} x lowered by client/server x dialect wishes; Tread of a 70000-byte file at offsets {0, 1, 69990, 70000, 70001} x counts {0, 1, 2, 7, msize-26..msize-23, msize-11, msize, 2^16, 2^31, 2^32-24, 2^32-1}; Rstat of a short and a 183-byte name; Rerror for a missing name; directory reads")
}

// ---------------------------------------------------------------------------
// replay / regress

func replayEnv(t *testing.T, e *hx.Envelope) {
	var err error
	dec := func(v interface{}) {
		if jerr := json.Unmarshal(e.Case, v); jerr != nil {
			t.Fatalf("bad case: %v", jerr)
		}
	}
	var cv interface{}
	switch e.Test {
	case "neg":
		var c NegCase
		dec(&c)
		cv = &c
		hx.Journal(e.Test, &c)
		err = finish(runNeg(&c))
	case "connect":
		var c ConnCase
		dec(&c)
		cv = &c
		hx.Journal(e.Test, &c)
		err = finish(runConnect(&c))
	case "clntio":
		var c ClntIOCase
		dec(&c)
		cv = &c
		err = execClntIO(&c)
	case "frame":
		var c FrameCase
		dec(&c)
		cv = &c
		hx.Journal(e.Test, &c)
		err = finish(runFrame(&c))
	case "pipelined":
		var c PipeCase
		dec(&c)
		cv = &c
		err = execPipe(&c)
	case "ufs":
		var c UfsCase
		dec(&c)
		cv = &c
		hx.Journal(e.Test, &c)
		err = finish(runUfs(&c))
	case "session", "sweep":
		var c Sess
		dec(&c)
		cv = &c
		for i := 0; i < 5 && err == nil; i++ { // which reply buffer a request gets depends on the schedule
			err = execSess(e.Test, &c)
		}
	default:
		t.Fatalf("unknown test %q in the replay file", e.Test)
	}
	hx.Eval()
	if err != nil {
		hx.Violation(e.Test, cv, err.Error())
		t.Fatalf("%v", err)
	}
}
