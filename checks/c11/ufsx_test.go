package c11

// Third variant ("ufsx"): Topen / Tcreate / directory Tread requests that are
// EXECUTING inside Ufs when a mid-session Tversion is processed or when the
// connection is cut, and requests that failed after Ufs had opened a file.
// Ufs cannot be parked by a script, so the environment widens the window:
//
//   - open(2) of a FIFO blocks until the other end is opened: a Topen of a
//     FIFO, or a Tcreate that names an existing FIFO, sits inside Ufs until
//     the harness opens the other end (through a hard link kept outside the
//     exported tree, so the FIFO's own name can be removed first: the Tcreate
//     then fails AFTER Ufs has opened the file);
//   - many Topen / Tcreate / Tread(directory "big") requests are written in
//     one piece, with a Tversion or the disconnect right behind them.
//
// Oracle (unchanged): once everything that served the victim has ended, no
// descriptor of this process points into the exported tree.

import (
	"encoding/binary"
	"fmt"
	"os"
	"path/filepath"
	"runtime/debug"
	"strings"
	"syscall"
	"testing"

	"github.com/rminnich/go9p"
	"pgregory.net/rapid"
	"verif/internal/hx"
	"verif/internal/rawc"
	"verif/internal/ref9p"
	"verif/internal/ufsrv"
	"verif/internal/xport"
)

const nXFifo = 4

func xfifo(i int) string { return fmt.Sprintf("p%d", i) }

// XStep is one step of a ufsx session. Fid numbers are assigned by the
// executor (0 = attach point, then 1, 2, … per step that creates a fid); Ref
// selects one of the fids created so far (modulo their number).
type XStep struct {
	Kind string `json:"kind"`
	// walk, open: the object, relative to the root ("" = the root itself)
	Path string `json:"path,omitempty"`
	Mode uint8  `json:"mode,omitempty"`
	// park: Topen of FIFO number Fifo (Create: Tcreate in the root naming it),
	// not awaited; the harness waits until it sits in open(2) inside Ufs.
	// release: the request parked on that FIFO is let go (Unlink: after the
	// FIFO's name was removed from the exported tree)
	Fifo   int  `json:"fifo,omitempty"`
	Create bool `json:"create,omitempty"`
	Unlink bool `json:"unlink,omitempty"`
	// reopen (Topen again), read (Tread at offset 0), clunk
	Ref int `json:"ref,omitempty"`
	// rebind: the fid of the request blocked on FIFO number Fifo (else of the
	// first blocked request) is clunked while that request is still inside Ufs
	// (Rclunk: the number is free at once), and the same fid NUMBER is bound
	// again by a Twalk to Path and (Open) opened with Mode. The blocked request
	// is released later: by a "release" step, or after the cut.
	Open bool `json:"open,omitempty"`
	// burst: the requests are written in one piece, not awaited, followed in the
	// same write by a Tversion (Then "version") or at once by the cut ("cut")
	Burst []XReq `json:"burst,omitempty"`
	Then  string `json:"then,omitempty"`
}

// XReq is one pipelined request of a burst: its fid is walked (dirread: and
// opened) beforehand, sequentially.
type XReq struct {
	Kind string `json:"kind"` // open | create | dirread
	Path string `json:"path,omitempty"`
	Mode uint8  `json:"mode,omitempty"`
}

type xfid struct {
	fid  uint32
	fifo int  // FIFO this fid designates (or names in its Tcreate), -1 if none
	busy bool // a request on it is outstanding
	// request of a burst that a Tversion was written behind: cancelled or
	// answered, but possibly still executing; the client waits for nothing, the
	// harness waits for it to have finished before it touches the fid again
	pending string
	gone    bool // clunked, or never came to exist
	dir     bool
}

type xpark struct {
	who       string
	fi        int // index into fids
	fifo      int
	mode      uint8
	create    bool
	cancelled bool
}

func mkTreeX(big int) (parent, root, links string, err error) {
	parent, err = os.MkdirTemp("", "c11-ufsx-")
	if err != nil {
		return "", "", "", err
	}
	parent, _ = filepath.EvalSymlinks(parent)
	root, links = filepath.Join(parent, "x"), filepath.Join(parent, "links")
	for _, d := range []string{root, links} {
		if err = os.Mkdir(d, 0o755); err != nil {
			return
		}
	}
	for _, d := range append([]string{"by", "big"}, uDirs...) {
		if err = os.Mkdir(filepath.Join(root, d), 0o755); err != nil {
			return
		}
	}
	for _, f := range append([]string{"by/x"}, uFiles...) {
		if err = os.WriteFile(filepath.Join(root, f), []byte("contents of "+f+"\n"), 0o644); err != nil {
			return
		}
	}
	for i := 0; i < big; i++ {
		if err = os.WriteFile(filepath.Join(root, "big", fmt.Sprintf("e%04d", i)), nil, 0o644); err != nil {
			return
		}
	}
	for i := 0; i < nXFifo; i++ {
		if err = syscall.Mkfifo(filepath.Join(root, xfifo(i)), 0o644); err != nil {
			return
		}
		if err = os.Link(filepath.Join(root, xfifo(i)), filepath.Join(links, xfifo(i))); err != nil {
			return
		}
	}
	return
}

func splitPath(p string) []string {
	if p == "" {
		return nil
	}
	return strings.Split(p, "/")
}

func runUfsX(c *Case, res *result) (err error) {
	parent, root, links, err := mkTreeX(c.Big)
	if parent != "" {
		defer os.RemoveAll(parent)
	}
	if err != nil {
		return &hangError{"harness: scratch tree: " + err.Error()}
	}
	defer func() {
		// never leave a server goroutine blocked in open(2) on a FIFO: hold both
		// ends of each for a moment
		for i := 0; i < nXFifo; i++ {
			l := filepath.Join(links, xfifo(i))
			r, e1 := os.OpenFile(l, os.O_RDONLY|syscall.O_NONBLOCK, 0)
			w, e2 := os.OpenFile(l, os.O_WRONLY|syscall.O_NONBLOCK, 0)
			if e1 == nil {
				defer r.Close()
			}
			if e2 == nil {
				defer w.Close()
			}
		}
		waitFor(quiesce, func() bool { return inUfsOpen() == 0 })
	}()
	defer debug.SetGCPercent(debug.SetGCPercent(-1))
	k := newCtl()
	uninstall := k.install()
	defer uninstall()
	ufsrv.Silence()

	g0 := libGors()
	u := new(go9p.Ufs)
	u.Dotu, u.Id, u.Root, u.Msize, u.Maxpend, u.Log = true, "ufs", root, 8192, c.Maxpend, sharedLog
	uo := newUfsOps(u)
	if !u.Start(uo) {
		return &hangError{"harness: Ufs.Start failed"}
	}
	dial := func(name string) *xport.End { return ufsrv.Conn(u, name) }
	by, err := openBystander(dial, !c.Dotu, "root")
	if err != nil {
		return &hangError{err.Error()}
	}
	defer by.C.Close()
	if err := by.setupUfs(); err != nil {
		return &hangError{err.Error()}
	}
	if err := by.settle(g0); err != nil {
		return err
	}
	g1 := libGors()

	vid := "c11-vi/harness"
	end := dial("c11-vi")
	defer end.Close()
	vc := rawc.New(end)
	vc.Timeout = hangT
	ver := "9P2000"
	if c.Dotu {
		ver = "9P2000.u"
	}
	if r, err := vc.Version(8192, ver); err != nil || r.Type != ref9p.Rversion {
		return &hangError{fmt.Sprintf("victim Tversion: %v", err)}
	}
	verFr := ref9p.Encode(&ref9p.Msg{Type: ref9p.Tversion, Tag: ref9p.NOTAG, Msize: 8192, Version: ver}, false)

	// await reads replies until the one carrying tag (replies of requests that
	// were released earlier arrive in between and are of no interest)
	await := func(tag uint16, what string) (uint8, error) {
		for {
			f, err := vc.RecvRaw(hangT)
			if err != nil {
				return 0, &hangError{fmt.Sprintf("before the cut, %s: %v", what, err)}
			}
			if len(f) >= 7 && binary.LittleEndian.Uint16(f[5:7]) == tag {
				return f[4], nil
			}
		}
	}
	rpc := func(m *ref9p.Msg, what string) (uint8, error) {
		m.Tag = vc.NextTag()
		if err := vc.Send(m); err != nil {
			return 0, &hangError{"harness: " + err.Error()}
		}
		return await(m.Tag, what)
	}
	if t, err := rpc(&ref9p.Msg{Type: ref9p.Tattach, Fid: 0, Afid: ref9p.NOFID, Uname: "root", Nuname: 0}, "Tattach"); err != nil || t != ref9p.Rattach {
		return &hangError{fmt.Sprintf("victim Tattach: %v (type %d)", err, t)}
	}

	fids := []*xfid{{fid: 0, fifo: -1, dir: true}}
	parked := map[int]*xpark{} // FIFO number -> the request blocked on it
	dead := map[int]bool{}     // FIFO numbers whose name was removed
	var whos []string          // outstanding at the cut
	executing := 0             // requests observed / written as executing at a Tversion or at the cut
	label := func(s string) { res.labels = append(res.labels, "ufsx "+s) }

	newFid := func(names []string, fifo int, dir bool) (int, error) {
		f := &xfid{fid: uint32(len(fids)), fifo: fifo, dir: dir}
		fids = append(fids, f)
		t, err := rpc(&ref9p.Msg{Type: ref9p.Twalk, Fid: 0, Newfid: f.fid, Wname: names}, "Twalk")
		if err != nil {
			return 0, err
		}
		if t != ref9p.Rwalk {
			f.gone = true
		}
		return len(fids) - 1, nil
	}
	isDir := func(p string) bool {
		st, e := os.Lstat(filepath.Join(root, p))
		return e == nil && st.IsDir()
	}
	// sendParked writes m and waits until its goroutine sits in open(2) below
	// Ufs.Open / Ufs.Create, or the request was answered.
	sendParked := func(m *ref9p.Msg, fi, fifo int, create bool) error {
		m.Tag = vc.NextTag()
		who := reqWho(vid, m.Tag)
		// (requests of an earlier burst may still be passing through open(2):
		// the test is "one more blocked than are parked", which at worst holds a
		// moment early; it only selects the schedule)
		// (an entry of parked whose request has been answered after all -- it was
		// judged while another request was passing through open(2) -- does not count)
		blocked := func() int {
			n := 0
			for _, pk := range parked {
				if k.count(pk.who, "respond.posted") == 0 {
					n++
				}
			}
			return n
		}
		want := blocked() + 1
		if err := vc.Send(m); err != nil {
			return &hangError{"harness: " + err.Error()}
		}
		isParked := false
		ok := waitFor(hangT, func() bool {
			if k.count(who, "respond.posted") > 0 {
				return true
			}
			if want = blocked() + 1; inUfsOpen() >= want {
				isParked = true
				return true
			}
			return false
		})
		if !ok {
			return &hangError{fmt.Sprintf("%s on a FIFO neither blocked nor was answered (goroutines in open(2) below Ufs: %d, wanted %d, fifo %d, create %v)", ref9p.TypeName(m.Type), inUfsOpen(), want, fifo, create)}
		}
		if isParked {
			parked[fifo] = &xpark{who: who, fi: fi, fifo: fifo, mode: m.Mode, create: create}
			fids[fi].busy = true
			fids[fi].fifo = fifo
		}
		return nil
	}
	release := func(pk *xpark, unlink bool) error {
		if unlink && !dead[pk.fifo] {
			if e := os.Remove(filepath.Join(root, xfifo(pk.fifo))); e != nil {
				return &hangError{"harness: " + e.Error()}
			}
			dead[pk.fifo] = true
		}
		flag := os.O_WRONLY
		if pk.mode&3 == 1 {
			flag = os.O_RDONLY
		}
		var w *os.File
		ok := waitFor(hangT, func() bool {
			if k.count(pk.who, "respond.posted") > 0 {
				return true
			}
			var e error
			w, e = os.OpenFile(filepath.Join(links, xfifo(pk.fifo)), flag|syscall.O_NONBLOCK, 0)
			return e == nil
		})
		if w != nil {
			defer w.Close()
		}
		if !ok || !k.wait(pk.who, "respond.posted", 1, hangT) {
			return &hangError{"a request blocked in open(2) of a FIFO did not finish after the other end was opened"}
		}
		delete(parked, pk.fifo)
		fids[pk.fi].busy = false
		what := "open"
		if pk.create {
			what = "create"
		}
		switch {
		case pk.cancelled:
			label(what + " finished after the Tversion that cancelled it")
		case pk.create && unlink:
			label("create failed after opening")
		}
		return nil
	}

	cutNow := false
steps:
	for si := range c.Steps {
		s := &c.Steps[si]
		switch s.Kind {
		case "walk":
			if _, err := newFid(splitPath(s.Path), -1, isDir(s.Path)); err != nil {
				return err
			}
		case "open":
			dir := isDir(s.Path)
			fi, err := newFid(splitPath(s.Path), -1, dir)
			if err != nil {
				return err
			}
			if fids[fi].gone {
				continue
			}
			mode := s.Mode
			if dir {
				mode = 0
			}
			if _, err := rpc(&ref9p.Msg{Type: ref9p.Topen, Fid: fids[fi].fid, Mode: mode}, "Topen"); err != nil {
				return err
			}
		case "read", "clunk", "reopen":
			fi := s.Ref % len(fids)
			f := fids[fi]
			if f.pending != "" {
				if !k.wait(f.pending, "respond.unlinked", 1, hangT) {
					return &hangError{"a pipelined request with a Tversion behind it did not finish"}
				}
				f.pending, f.busy = "", false
			}
			if f.busy || f.gone || (fi == 0 && s.Kind != "read") {
				continue
			}
			switch s.Kind {
			case "read":
				if _, err := rpc(&ref9p.Msg{Type: ref9p.Tread, Fid: f.fid, Offset: 0, Count: 4096}, "Tread"); err != nil {
					return err
				}
			case "clunk":
				if _, err := rpc(&ref9p.Msg{Type: ref9p.Tclunk, Fid: f.fid}, "Tclunk"); err != nil {
					return err
				}
				f.gone = true
			case "reopen":
				mode := s.Mode
				if f.dir {
					mode = 0
				}
				m := &ref9p.Msg{Type: ref9p.Topen, Fid: f.fid, Mode: mode & 1}
				if f.fifo >= 0 {
					// the fid designates a FIFO: the open may block again
					if parked[f.fifo] != nil {
						continue
					}
					if err := sendParked(m, fi, f.fifo, false); err != nil {
						return err
					}
					if parked[f.fifo] != nil {
						label("open parked again on a fid whose earlier open / create did not take effect")
					}
					continue
				}
				m.Mode = mode
				if _, err := rpc(m, "Topen"); err != nil {
					return err
				}
			}
		case "park":
			fifo := s.Fifo % nXFifo
			if parked[fifo] != nil || dead[fifo] {
				continue
			}
			mode := s.Mode & 1 // OREAD / OWRITE: both block on a FIFO without the other end
			if s.Create {
				fi, err := newFid(nil, -1, true)
				if err != nil {
					return err
				}
				if fids[fi].gone {
					continue
				}
				if err := sendParked(&ref9p.Msg{Type: ref9p.Tcreate, Fid: fids[fi].fid, Name: xfifo(fifo), Perm: 0o644, Mode: mode}, fi, fifo, true); err != nil {
					return err
				}
			} else {
				fi, err := newFid([]string{xfifo(fifo)}, fifo, false)
				if err != nil {
					return err
				}
				if fids[fi].gone {
					continue
				}
				if err := sendParked(&ref9p.Msg{Type: ref9p.Topen, Fid: fids[fi].fid, Mode: mode}, fi, fifo, false); err != nil {
					return err
				}
			}
		case "rebind":
			pk := parked[s.Fifo%nXFifo]
			for i := 0; pk == nil && i < nXFifo; i++ {
				pk = parked[i]
			}
			if pk == nil || pk.fi == 0 || fids[pk.fi].gone {
				continue
			}
			old := fids[pk.fi]
			t, err := rpc(&ref9p.Msg{Type: ref9p.Tclunk, Fid: old.fid}, "Tclunk of a fid whose request is blocked inside Ufs")
			if err != nil {
				return err
			}
			if t != ref9p.Rclunk {
				continue
			}
			old.gone = true
			label("fid clunked while its request is blocked inside Ufs")
			dir := isDir(s.Path)
			nf := &xfid{fid: old.fid, fifo: -1, dir: dir}
			fids = append(fids, nf)
			if t, err = rpc(&ref9p.Msg{Type: ref9p.Twalk, Fid: 0, Newfid: nf.fid, Wname: splitPath(s.Path)}, "Twalk to a fid number that was just clunked"); err != nil {
				return err
			}
			if t != ref9p.Rwalk {
				nf.gone = true
				continue
			}
			label("fid number bound again while the request on its previous holder is blocked inside Ufs")
			if s.Open {
				mode := s.Mode
				if dir {
					mode = 0
				}
				if _, err := rpc(&ref9p.Msg{Type: ref9p.Topen, Fid: nf.fid, Mode: mode}, "Topen"); err != nil {
					return err
				}
			}
		case "release":
			pk := parked[s.Fifo%nXFifo]
			if pk == nil {
				continue
			}
			if fids[pk.fi].gone {
				label("blocked request released before the cut after its fid was clunked")
			}
			if err := release(pk, s.Unlink); err != nil {
				return err
			}
		case "version":
			n := 0
			for _, pk := range parked {
				if !pk.cancelled {
					pk.cancelled = true
					n++
				}
			}
			if err := vc.SendRaw(verFr); err != nil {
				return &hangError{"harness: " + err.Error()}
			}
			if t, err := await(ref9p.NOTAG, "mid-session Tversion"); err != nil || t != ref9p.Rversion {
				return &hangError{fmt.Sprintf("mid-session Tversion: %v (type %d)", err, t)}
			}
			if n > 0 {
				executing += n
				label("Tversion while requests are blocked inside Ufs")
			}
		case "burst":
			var buf []byte
			var tags []uint16
			for _, q := range s.Burst {
				var m *ref9p.Msg
				switch q.Kind {
				case "dirread":
					fi, err := newFid([]string{"big"}, -1, true)
					if err != nil {
						return err
					}
					if fids[fi].gone {
						continue
					}
					if _, err := rpc(&ref9p.Msg{Type: ref9p.Topen, Fid: fids[fi].fid, Mode: 0}, "Topen"); err != nil {
						return err
					}
					fids[fi].busy = true
					m = &ref9p.Msg{Type: ref9p.Tread, Fid: fids[fi].fid, Offset: 0, Count: 8192 - 24}
				case "create":
					fi, err := newFid(splitPath(q.Path), -1, true)
					if err != nil {
						return err
					}
					if fids[fi].gone {
						continue
					}
					fids[fi].busy = true
					m = &ref9p.Msg{Type: ref9p.Tcreate, Fid: fids[fi].fid, Name: fmt.Sprintf("nb%d", fids[fi].fid), Perm: 0o644, Mode: q.Mode}
				default:
					dir := isDir(q.Path)
					fi, err := newFid(splitPath(q.Path), -1, dir)
					if err != nil {
						return err
					}
					if fids[fi].gone {
						continue
					}
					mode := q.Mode
					if dir {
						mode = 0
					}
					fids[fi].busy = true
					m = &ref9p.Msg{Type: ref9p.Topen, Fid: fids[fi].fid, Mode: mode}
				}
				m.Tag = vc.NextTag()
				tags = append(tags, m.Tag)
				fids[len(fids)-1].pending = reqWho(vid, m.Tag)
				buf = append(buf, ref9p.Encode(m, vc.Dotu)...)
			}
			res.openFds = len(fdsInto(root))
			for _, t := range tags {
				whos = append(whos, reqWho(vid, t))
			}
			executing += len(tags)
			if s.Then == "version" {
				for _, pk := range parked {
					if !pk.cancelled {
						pk.cancelled = true
						executing++
					}
				}
				buf = append(buf, verFr...)
				if err := vc.SendRaw(buf); err != nil {
					return &hangError{"harness: " + err.Error()}
				}
				if t, err := await(ref9p.NOTAG, "Tversion behind a burst"); err != nil || t != ref9p.Rversion {
					return &hangError{fmt.Sprintf("Tversion behind a burst: %v (type %d)", err, t)}
				}
				label("burst of opens / creates / directory reads with a Tversion right behind")
				continue
			}
			if err := vc.SendRaw(buf); err != nil {
				return &hangError{"harness: " + err.Error()}
			}
			label("burst of opens / creates / directory reads with the cut right behind")
			cutNow = true
			break steps
		}
	}
	if !cutNow {
		res.openFds = len(fdsInto(root))
		if err := by.probeUfs("before"); err != nil {
			return err
		}
	}
	for _, pk := range parked {
		whos = append(whos, pk.who)
		if !pk.cancelled {
			executing++
		}
	}
	if len(parked) > 0 {
		label("requests blocked inside Ufs at the cut")
	}
	res.effective = executing

	switch c.Kind {
	case "eof":
		end.Close()
	case "half":
		end.CloseWrite()
	default:
		end.FailPeer(errInjected)
	}
	if closeSettled(k, vid, closeWait) {
		label("close finished before the blocked requests were released")
	} else {
		label("close still in progress when the blocked requests were released")
	}
	if err := by.probeUfs("during"); err != nil {
		return err
	}
	// release what is still blocked, in the drawn order
	for _, fifo := range c.Order {
		if pk := parked[fifo]; pk != nil {
			unlink := fifo < len(c.UnlinkAfter) && c.UnlinkAfter[fifo]
			if err := release(pk, unlink); err != nil {
				return err
			}
		}
	}
	for i := 0; i < nXFifo; i++ {
		if pk := parked[i]; pk != nil {
			if err := release(pk, false); err != nil {
				return err
			}
		}
	}
	return (&ufsEnv{c: c, res: res, k: k, u: u, uo: uo, root: root, by: by, g0: g0, g1: g1, vid: vid}).finish(whos)
}

// ---------------------------------------------------------------------------
// generator

var xPaths = []string{"a", "b", "d0/f0", "d1/f1", "d2/f0", "", "d0", "d1", "big"}

func genBurst(t *rapid.T, max int) []XReq {
	n := rapid.IntRange(1, max).Draw(t, "nburst")
	var out []XReq
	for i := 0; i < n; i++ {
		q := XReq{Kind: rapid.SampledFrom([]string{"open", "open", "open", "create", "dirread"}).Draw(t, "bkind")}
		switch q.Kind {
		case "open":
			q.Path = rapid.SampledFrom(xPaths).Draw(t, "bpath")
			q.Mode = rapid.SampledFrom([]uint8{0, 0, 1, 2}).Draw(t, "bmode")
		case "create":
			q.Path = rapid.SampledFrom(uDirs).Draw(t, "bdir")
			q.Mode = rapid.SampledFrom([]uint8{0, 1, 2}).Draw(t, "bmode")
		}
		out = append(out, q)
	}
	return out
}

func genUfsXCase(t *rapid.T) *Case {
	c := &Case{
		Variant: "ufsx",
		Dotu:    rapid.Bool().Draw(t, "dotu"),
		Maxpend: rapid.SampledFrom([]int{0, 16}).Draw(t, "maxpend"),
		Kind:    rapid.SampledFrom([]string{"eof", "eof", "err", "err", "half"}).Draw(t, "cutkind"),
		Big:     rapid.SampledFrom([]int{0, 40, 300}).Draw(t, "big"),
	}
	if hx.Thorough() && c.Big == 300 {
		c.Big = rapid.SampledFrom([]int{300, 1500}).Draw(t, "bigger")
	}
	maxBurst := 12
	if hx.Thorough() {
		maxBurst = 40
	}
	n := rapid.IntRange(1, 9).Draw(t, "nsteps")
	for i := 0; i < n; i++ {
		s := XStep{Kind: rapid.SampledFrom([]string{"open", "walk", "park", "park", "park", "version", "version", "release", "release", "reopen", "reopen", "read", "clunk", "burst", "rebind", "rebind"}).Draw(t, "skind")}
		switch s.Kind {
		case "open", "walk":
			s.Path = rapid.SampledFrom(xPaths).Draw(t, "path")
			s.Mode = rapid.SampledFrom([]uint8{0, 0, 1, 2}).Draw(t, "mode")
		case "park":
			s.Fifo = rapid.IntRange(0, nXFifo-1).Draw(t, "fifo")
			s.Create = rapid.Bool().Draw(t, "create")
			s.Mode = rapid.SampledFrom([]uint8{0, 0, 1}).Draw(t, "pmode")
		case "release":
			s.Fifo = rapid.IntRange(0, nXFifo-1).Draw(t, "fifo")
			s.Unlink = rapid.Bool().Draw(t, "unlink")
		case "rebind":
			s.Fifo = rapid.IntRange(0, nXFifo-1).Draw(t, "fifo")
			s.Path = rapid.SampledFrom(xPaths).Draw(t, "path")
			s.Mode = rapid.SampledFrom([]uint8{0, 0, 1, 2}).Draw(t, "mode")
			s.Open = rapid.IntRange(0, 3).Draw(t, "ropen") > 0
		case "reopen", "read", "clunk":
			s.Ref = rapid.IntRange(0, 9).Draw(t, "ref")
			s.Mode = rapid.SampledFrom([]uint8{0, 0, 1}).Draw(t, "mode")
		case "burst":
			s.Burst = genBurst(t, maxBurst)
			s.Then = "version"
		}
		c.Steps = append(c.Steps, s)
	}
	if rapid.IntRange(0, 3).Draw(t, "reuse?") == 0 {
		// a fid number changes hands under a request blocked inside Ufs, which
		// returns before (or, without the release step, after) the cut
		fifo := rapid.IntRange(0, nXFifo-1).Draw(t, "rfifo")
		blk := []XStep{
			{Kind: "park", Fifo: fifo, Create: rapid.Bool().Draw(t, "rcreate"), Mode: rapid.SampledFrom([]uint8{0, 0, 1}).Draw(t, "rpmode")},
			{Kind: "rebind", Fifo: fifo, Path: rapid.SampledFrom(xPaths).Draw(t, "rpath"), Mode: rapid.SampledFrom([]uint8{0, 0, 1, 2}).Draw(t, "rmode"), Open: rapid.IntRange(0, 3).Draw(t, "ropen") > 0},
		}
		if rapid.IntRange(0, 3).Draw(t, "rversion") == 0 {
			blk = append(blk, XStep{Kind: "version"})
		}
		if rapid.IntRange(0, 4).Draw(t, "rrelease") > 0 {
			blk = append(blk, XStep{Kind: "release", Fifo: fifo, Unlink: rapid.Bool().Draw(t, "runlink")})
		}
		at := rapid.IntRange(0, len(c.Steps)).Draw(t, "rat")
		c.Steps = append(c.Steps[:at:at], append(blk, c.Steps[at:]...)...)
	}
	if rapid.Bool().Draw(t, "finalburst") {
		c.Steps = append(c.Steps, XStep{Kind: "burst", Burst: genBurst(t, maxBurst), Then: "cut"})
	}
	c.Order = rapid.Permutation(seqInts(nXFifo)).Draw(t, "order")
	c.UnlinkAfter = rapid.SliceOfN(rapid.Bool(), nXFifo, nXFifo).Draw(t, "unlinkafter")
	return c
}

// TestPropUfsExec: drawn sessions with requests executing inside Ufs at
// mid-session Tversions and at the disconnect.
func TestPropUfsExec(t *testing.T) {
	hx.Check(t, "ufs-exec", hx.N(30, 700), func(t *rapid.T) {
		c := genUfsXCase(t)
		if err := execute("ufs-exec", c); err != nil {
			hx.Failf(t, "ufs-exec", c, "%v", err)
		}
	})
}

// TestEnumUfsExec: one request blocked inside Ufs, every combination of
// {Topen of a FIFO, Tcreate naming a FIFO} x {OREAD, OWRITE} x {no Tversion,
// Tversion while it is blocked} x {released before the cut, after the cut} x
// {FIFO name kept, removed before the release} x {nothing more, the fid is
// opened again, the fid is read, the fid is clunked} x {EOF, error}.
func TestEnumUfsExec(t *testing.T) {
	idx := 0
	for _, create := range []bool{false, true} {
		for _, mode := range []uint8{0, 1} {
			for _, version := range []bool{false, true} {
				for _, early := range []bool{false, true} {
					for _, unlink := range []bool{false, true} {
						for _, more := range []string{"", "reopen", "read", "clunk", "rebind", "rebind+open"} {
							for _, kind := range []string{"eof", "err"} {
								idx++
								if hx.NShards > 1 && idx%hx.NShards != hx.Shard {
									continue
								}
								rebind := strings.HasPrefix(more, "rebind")
								if more != "" && !early && !rebind {
									continue // the fid is busy until the release
								}
								c := &Case{Variant: "ufsx", Dotu: idx%2 == 0, Maxpend: []int{0, 16}[idx/2%2], Kind: kind, Order: seqInts(nXFifo)}
								c.Steps = append(c.Steps, XStep{Kind: "open", Path: "a"}, XStep{Kind: "park", Fifo: 1, Create: create, Mode: mode})
								if version {
									c.Steps = append(c.Steps, XStep{Kind: "version"})
								}
								if rebind {
									// while the request is still blocked: its fid is clunked
									// and the number bound again (and opened)
									c.Steps = append(c.Steps, XStep{Kind: "rebind", Fifo: 1, Path: []string{"b", "d0"}[idx/4%2], Mode: mode, Open: more == "rebind+open"})
								}
								if early {
									c.Steps = append(c.Steps, XStep{Kind: "release", Fifo: 1, Unlink: unlink})
								} else {
									c.UnlinkAfter = []bool{false, unlink, false, false}
								}
								if more != "" && !rebind {
									c.Steps = append(c.Steps, XStep{Kind: more, Ref: 2, Mode: mode})
								}
								if err := execute("ufs-exec-enum", c); err != nil {
									hx.Violation("ufs-exec-enum", c, err.Error())
									t.Fatalf("create=%v mode=%d version=%v early=%v unlink=%v more=%q %s: %v", create, mode, version, early, unlink, more, kind, err)
								}
							}
						}
					}
				}
			}
		}
	}
	hx.Exhaustive("one request blocked inside Ufs: {Topen of a FIFO, Tcreate naming a FIFO} x {OREAD, OWRITE} x {no Tversion, Tversion while blocked} x {released before, after the cut} x {name kept, removed before the release} x {-, open again, read, clunk; fid clunked and its number walked again (and opened) while the request is blocked} x {EOF, error}")
}
