package c11

// Ufs variant, additions: (1) the FidDestroy oracle for Ufs itself — every fid
// Ufs was ever shown on the victim connection is reported destroyed exactly
// once over the whole run (the descriptor oracle only sees fids that had a
// file open); (2) histories with FAILING requests that name a second fid
// (Tcreate DMLINK whose extension names a fid, Tattach with an afid, Twalk
// onto a newfid that exists): the framework / Ufs looks the second fid up and
// must give it back on every path.

import (
	"fmt"
	"sort"
	"strconv"
	"sync"
	"testing"

	"github.com/rminnich/go9p"
	"pgregory.net/rapid"
	"verif/internal/hx"
)

// ufsOps wraps Ufs: logs every fid shown to the implementation and every
// FidDestroy, and delegates.
type ufsOps struct {
	*go9p.Ufs
	mu        sync.Mutex
	seq       int
	seen      map[*go9p.SrvFid]string // fid -> connection id
	num       map[*go9p.SrvFid]int    // order of first appearance (stable messages)
	fidno     map[*go9p.SrvFid]uint32
	destroyed map[*go9p.SrvFid]int
}

func newUfsOps(u *go9p.Ufs) *ufsOps {
	return &ufsOps{Ufs: u, seen: map[*go9p.SrvFid]string{}, num: map[*go9p.SrvFid]int{}, fidno: map[*go9p.SrvFid]uint32{}, destroyed: map[*go9p.SrvFid]int{}}
}

func (o *ufsOps) note(r *go9p.SrvReq) {
	o.mu.Lock()
	for i, f := range []*go9p.SrvFid{r.Fid, r.Newfid, r.Afid} {
		if f == nil {
			continue
		}
		if _, ok := o.seen[f]; !ok {
			o.seq++
			o.seen[f], o.num[f] = r.Conn.Id, o.seq
			switch {
			case i == 1:
				o.fidno[f] = r.Tc.Newfid
			case i == 2:
				o.fidno[f] = r.Tc.Afid
			default:
				o.fidno[f] = r.Tc.Fid
			}
		}
	}
	o.mu.Unlock()
}

func (o *ufsOps) Attach(r *go9p.SrvReq) { o.note(r); o.Ufs.Attach(r) }
func (o *ufsOps) Walk(r *go9p.SrvReq)   { o.note(r); o.Ufs.Walk(r) }
func (o *ufsOps) Open(r *go9p.SrvReq)   { o.note(r); o.Ufs.Open(r) }
func (o *ufsOps) Create(r *go9p.SrvReq) { o.note(r); o.Ufs.Create(r) }
func (o *ufsOps) Read(r *go9p.SrvReq)   { o.note(r); o.Ufs.Read(r) }
func (o *ufsOps) Write(r *go9p.SrvReq)  { o.note(r); o.Ufs.Write(r) }
func (o *ufsOps) Clunk(r *go9p.SrvReq)  { o.note(r); o.Ufs.Clunk(r) }
func (o *ufsOps) Remove(r *go9p.SrvReq) { o.note(r); o.Ufs.Remove(r) }
func (o *ufsOps) Stat(r *go9p.SrvReq)   { o.note(r); o.Ufs.Stat(r) }
func (o *ufsOps) Wstat(r *go9p.SrvReq)  { o.note(r); o.Ufs.Wstat(r) }

func (o *ufsOps) FidDestroy(f *go9p.SrvFid) {
	o.mu.Lock()
	o.destroyed[f]++
	if _, ok := o.seen[f]; !ok && f.Fconn != nil {
		o.seq++
		o.seen[f], o.num[f] = f.Fconn.Id, o.seq
	}
	o.mu.Unlock()
	o.Ufs.FidDestroy(f)
}

// verdict: every fid shown on the victim destroyed exactly once, none of
// another connection (nobody else has disconnected yet).
func (o *ufsOps) verdict(vid string) []string {
	o.mu.Lock()
	defer o.mu.Unlock()
	type rec struct {
		n   int
		msg string
	}
	var recs []rec
	for f, conn := range o.seen {
		n := o.destroyed[f]
		switch {
		case conn == vid && n != 1:
			recs = append(recs, rec{o.num[f], fmt.Sprintf("ufs: fid #%d shown to Ufs on the victim (fid number %d): FidDestroy called %d times after the disconnect (want exactly once)", o.num[f], o.fidno[f], n)})
		case conn != vid && n != 0:
			recs = append(recs, rec{o.num[f], fmt.Sprintf("ufs: bystander disturbed: FidDestroy called %d times for its fid number %d", n, o.fidno[f])})
		}
	}
	sort.Slice(recs, func(i, j int) bool { return recs[i].n < recs[j].n })
	var out []string
	for _, r := range recs {
		out = append(out, r.msg)
	}
	return out
}

const dmLink = 0x01000000

// second-fid requests
func linkOp(dirfid, src uint32, name string) UOp {
	return UOp{Kind: "link", Fid: dirfid, Afid: src, Name: name, Perm: dmLink | 0o644, Ext: strconv.FormatUint(uint64(src), 10)}
}

// genSecondFid appends 1..2 requests that name a second fid (most of them
// fail) to a Ufs session whose objects use the fid numbers 1..n.
func genSecondFid(t *rapid.T, c *Case, n int) {
	k := rapid.IntRange(1, 2).Draw(t, "nsecond")
	for i := 0; i < k; i++ {
		src := uint32(rapid.IntRange(0, n+1).Draw(t, "src")) // n+1: unknown fid
		switch rapid.SampledFrom([]string{"link", "link", "link", "attachafid", "walkonto"}).Draw(t, "second") {
		case "link":
			d := rapid.SampledFrom(uDirs).Draw(t, "ldir")
			dirfid := uint32(10 + i)
			name := rapid.SampledFrom([]string{"f0", "f0", fmt.Sprintf("ln%d", i)}).Draw(t, "lname") // f0 exists in every directory
			c.Ops = append(c.Ops, UOp{Kind: "walk", Fid: 0, Newfid: dirfid, Names: []string{d}}, linkOp(dirfid, src, name))
		case "attachafid":
			fid := rapid.SampledFrom([]uint32{uint32(12 + i), 0, src}).Draw(t, "afidnew")
			c.Ops = append(c.Ops, UOp{Kind: "attachafid", Fid: fid, Afid: src})
		case "walkonto":
			onto := uint32(rapid.IntRange(0, n).Draw(t, "onto"))
			c.Ops = append(c.Ops, UOp{Kind: "walk", Fid: src, Newfid: onto})
		}
		if src != 0 && rapid.IntRange(0, 3).Draw(t, "sclunk") == 0 {
			c.Ops = append(c.Ops, UOp{Kind: "clunk", Fid: src})
		}
	}
}

// TestEnumUfsSecondFid: for one request that names a second fid, every
// combination of {hard link to: an open file's fid, a walked file's fid, the
// root's fid, an unknown fid, the directory's own fid} x {name taken, name
// free}, {Tattach with afid: valid, unknown} x {new fid, fid in use}, {Twalk
// onto a fid in use: clone, with a name} x the source {walked, open OREAD,
// open ORDWR} x {-, source clunked, directory fid clunked} x dialect x
// {EOF, error} x {awaited, written without waiting right before the cut}.
func TestEnumUfsSecondFid(t *testing.T) {
	type variant struct {
		name string
		ops  []UOp
	}
	var xs []variant
	for _, src := range []uint32{1, 0, 9, 2} {
		for _, name := range []string{"f0", "ln"} {
			xs = append(xs, variant{fmt.Sprintf("link src=%d name=%s", src, name), []UOp{linkOp(2, src, name)}})
		}
	}
	for _, fid := range []uint32{3, 0} {
		for _, afid := range []uint32{1, 9} {
			xs = append(xs, variant{fmt.Sprintf("attach fid=%d afid=%d", fid, afid), []UOp{{Kind: "attachafid", Fid: fid, Afid: afid}}})
		}
	}
	xs = append(xs,
		variant{"walk 1 onto 0", []UOp{{Kind: "walk", Fid: 1, Newfid: 0}}},
		variant{"walk 0 onto 1 by name", []UOp{{Kind: "walk", Fid: 0, Newfid: 1, Names: []string{"a"}}}},
		variant{"walk 0 onto 2 failing", []UOp{{Kind: "walk", Fid: 0, Newfid: 2, Names: []string{"nosuch"}}}},
	)
	idx := 0
	for _, x := range xs {
		for _, srcState := range []int{-1, 0, 2} { // not opened, OREAD, ORDWR
			for _, tail := range []string{"", "clunk1", "clunk2"} {
				for _, dotu := range []bool{true, false} {
					for _, kind := range []string{"eof", "err"} {
						for _, pipe := range []int{0, 1} {
							idx++
							if hx.NShards > 1 && idx%hx.NShards != hx.Shard {
								continue
							}
							if pipe == 1 && tail != "" {
								continue // the request itself is the one racing with the cut
							}
							c := &Case{Variant: "ufs", Dotu: dotu, Maxpend: 16, Kind: kind, Pipe: pipe}
							c.Ops = []UOp{{Kind: "attach", Fid: 0}, {Kind: "walk", Fid: 0, Newfid: 1, Names: []string{"a"}}}
							if srcState >= 0 {
								c.Ops = append(c.Ops, UOp{Kind: "open", Fid: 1, Mode: uint8(srcState)})
							}
							c.Ops = append(c.Ops, UOp{Kind: "walk", Fid: 0, Newfid: 2, Names: []string{"d1"}})
							c.Ops = append(c.Ops, x.ops...)
							switch tail {
							case "clunk1":
								c.Ops = append(c.Ops, UOp{Kind: "clunk", Fid: 1})
							case "clunk2":
								c.Ops = append(c.Ops, UOp{Kind: "clunk", Fid: 2})
							}
							c.Cut = streamLen(c.frames())
							hx.Label("ufs second fid: " + x.name)
							if err := execute("ufs-secondfid", c); err != nil {
								hx.Violation("ufs-secondfid", c, err.Error())
								t.Fatalf("%s (source state %d, tail %q, dotu %v, %s, pipe %d): %v", x.name, srcState, tail, dotu, kind, pipe, err)
							}
						}
					}
				}
			}
		}
	}
	hx.Exhaustive("Ufs, one request naming a second fid: {DMLINK create to {open/walked file fid, root fid, unknown fid, own fid} x {name taken, free}, Tattach with afid {valid, unknown} x {new fid, fid in use}, Twalk onto a fid in use (clone / by name / failing)} x source {walked, OREAD, ORDWR} x {-, source clunked, directory clunked} x dialect x {EOF, error} x {awaited, racing with the cut}")
}
