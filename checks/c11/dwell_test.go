package c11

// "No other connection is disturbed" while a callback of the victim's
// disconnect (a FidDestroy, the ConnClosed) dwells: the bystander's
// fid-carrying requests are answered and a new connection is accepted and
// served BEFORE the harness lets the callback return.
//
// The verdict does not depend on a wall-clock bound: a request counts as "not
// answered while the callback dwells" only when the goroutine dump shows a
// goroutine parked on a lock inside go9p while no goroutine inside go9p is
// running or runnable, twice in a row with the same goroutines, i.e. nothing
// can move until the harness releases the callback. The 30 s deadline only
// detects hangs (hangError: inconclusive unless something is stuck in go9p).

import (
	"errors"
	"fmt"
	"sort"
	"strings"
	"sync"
	"time"

	"github.com/rminnich/go9p"
	"verif/internal/rawc"
	"verif/internal/ref9p"
	"verif/internal/script"
	"verif/internal/xport"
)

// connGate lets the ConnClosed callback of one connection dwell until release.
type connGate struct {
	mu      sync.Mutex
	id      string
	gate    chan struct{}
	entered chan struct{}
}

func (g *connGate) arm(id string) {
	g.mu.Lock()
	g.id, g.gate, g.entered = id, make(chan struct{}), make(chan struct{})
	g.mu.Unlock()
}

func (g *connGate) release() {
	g.mu.Lock()
	if g.gate != nil {
		close(g.gate)
		g.gate = nil
	}
	g.mu.Unlock()
}

func (g *connGate) isInside(d time.Duration) bool {
	g.mu.Lock()
	ent := g.entered
	g.mu.Unlock()
	if ent == nil {
		return false
	}
	select {
	case <-ent:
		return true
	case <-time.After(d):
		return false
	}
}

func (g *connGate) closed(c *go9p.Conn) {
	g.mu.Lock()
	if g.gate == nil || g.id != c.Id {
		g.mu.Unlock()
		return
	}
	gate, ent := g.gate, g.entered
	g.mu.Unlock()
	select {
	case <-ent:
	default:
		close(ent)
	}
	<-gate
}

type opsPlainG struct {
	script.OpsPlain
	g *connGate
}
type opsAuthG struct {
	script.OpsAuth
	g *connGate
}

func (o opsPlainG) ConnClosed(c *go9p.Conn) { o.OpsPlain.ConnClosed(c); o.g.closed(c) }
func (o opsAuthG) ConnClosed(c *go9p.Conn)  { o.OpsAuth.ConnClosed(c); o.g.closed(c) }

// lockStuck: goroutines parked on a mutex whose innermost non-runtime frame is
// inside go9p (they wait for one of go9p's own locks), and whether anything in
// the process (the caller excepted) is running or runnable, or a goroutine
// inside go9p is in a system call.
func lockStuck() (waiters []gor, busy bool) {
	for _, g := range dumpAll() {
		self := false
		for _, f := range g.funcs {
			if strings.Contains(f, "c11.dumpAll(") {
				self = true
			}
		}
		if self {
			continue
		}
		if g.state == "running" || g.state == "runnable" {
			busy = true
			continue
		}
		if !g.servesConn() {
			continue
		}
		switch {
		case strings.HasPrefix(g.state, "syscall"):
			busy = true
		case strings.HasPrefix(g.inner(), libPrefix) && (strings.HasPrefix(g.state, "sync.Mutex.Lock") || strings.HasPrefix(g.state, "semacquire") || strings.HasPrefix(g.state, "sync.RWMutex")):
			waiters = append(waiters, g)
		}
	}
	sort.Slice(waiters, func(i, j int) bool { return waiters[i].id < waiters[j].id })
	return
}

// stuckWatch decides, between polls, whether the server has come to rest with
// a goroutine waiting for a lock.
type stuckWatch struct {
	prev string
}

func (w *stuckWatch) stuck() string {
	waiters, busy := lockStuck()
	if busy || len(waiters) == 0 {
		w.prev = ""
		return ""
	}
	var ids, gs []string
	for _, g := range waiters {
		ids = append(ids, fmt.Sprint(g.id))
		gs = append(gs, short(g))
	}
	cur := strings.Join(ids, ",")
	if w.prev == cur {
		// who sits in the callback
		var holders []string
		for _, g := range dumpAll() {
			for _, f := range g.funcs {
				if strings.HasPrefix(f, libPrefix+"(*Conn).close(") {
					holders = append(holders, short(g))
					break
				}
			}
		}
		return fmt.Sprintf("parked on a lock inside go9p: %s; no goroutine inside go9p is running; Conn.close of the victim: %s", strings.Join(gs, " | "), strings.Join(holders, " | "))
	}
	w.prev = cur
	return ""
}

const dwellPoll = 100 * time.Millisecond

// watchReply waits for the next frame on c. While none arrives the server is
// inspected: at rest with a goroutine waiting for a lock = not answered while
// the callback dwells.
func watchReply(c *rawc.C, what, dwell string) (*ref9p.Msg, error) {
	deadline := time.Now().Add(hangT)
	var w stuckWatch
	for {
		f, err := c.RecvRaw(dwellPoll)
		if err == nil {
			m, _, derr := ref9p.Decode(f, c.Dotu)
			if derr != nil {
				return nil, fmt.Errorf("another connection disturbed (while %s dwells): reply to %s does not decode: %v", dwell, what, derr)
			}
			return m, nil
		}
		if err != rawc.ErrTimeout {
			return nil, fmt.Errorf("another connection disturbed (while %s dwells): %s: %v", dwell, what, err)
		}
		if s := w.stuck(); s != "" {
			return nil, fmt.Errorf("another connection disturbed: %s is not answered while %s dwells (it waits for the callback to return): %s", what, dwell, s)
		}
		if time.Now().After(deadline) {
			return nil, &hangError{fmt.Sprintf("%s not answered within %v while %s dwells", what, hangT, dwell)}
		}
	}
}

func watchRPC(c *rawc.C, m *ref9p.Msg, who, dwell string) (*ref9p.Msg, error) {
	if m.Type == ref9p.Tversion {
		m.Tag = ref9p.NOTAG
	} else {
		m.Tag = c.NextTag()
	}
	what := fmt.Sprintf("%s %s fid %d", who, ref9p.TypeName(m.Type), m.Fid)
	if err := c.Send(m); err != nil {
		return nil, fmt.Errorf("another connection disturbed (while %s dwells): sending %s: %v", dwell, what, err)
	}
	r, err := watchReply(c, what, dwell)
	if err != nil {
		return nil, err
	}
	if r.Tag != m.Tag {
		return nil, fmt.Errorf("another connection disturbed (while %s dwells): %s (tag %d) answered by %s tag %d", dwell, what, m.Tag, ref9p.TypeName(r.Type), r.Tag)
	}
	return r, nil
}

// newcomer: a connection dialled while the callback dwells.
type newcomer struct {
	id  string
	end *xport.End
	c   *rawc.C
}

// dialWatched dials in another goroutine (NewConn is synchronous) and watches
// the server meanwhile.
func dialWatched(dial func(string) *xport.End, name, dwell string) (*xport.End, error) {
	type res struct{ e *xport.End }
	ch := make(chan res, 1)
	var mu sync.Mutex
	abandoned := false
	go func() {
		e := dial(name)
		mu.Lock()
		ab := abandoned
		mu.Unlock()
		if ab {
			e.Close()
			return
		}
		ch <- res{e}
	}()
	abandon := func() {
		mu.Lock()
		abandoned = true
		mu.Unlock()
		select {
		case r := <-ch:
			r.e.Close()
		default:
		}
	}
	deadline := time.Now().Add(hangT)
	var w stuckWatch
	for {
		select {
		case r := <-ch:
			return r.e, nil
		case <-time.After(dwellPoll):
		}
		if s := w.stuck(); s != "" {
			abandon()
			return nil, fmt.Errorf("another connection disturbed: a new connection is not accepted while %s dwells (NewConn waits for the callback to return): %s", dwell, s)
		}
		if time.Now().After(deadline) {
			abandon()
			return nil, &hangError{fmt.Sprintf("a new connection was not accepted within %v while %s dwells", hangT, dwell)}
		}
	}
}

// dwellProbe: a callback of the victim's disconnect is dwelling. The
// bystander's fids answer exactly as before, and a new connection is accepted,
// negotiates, attaches, walks and stats — all before the callback returns.
// ufs: the server is Ufs (names instead of scripted answers).
func dwellProbe(by *bystander, dial func(string) *xport.End, dotu bool, dwell string, ufs bool) (*newcomer, error) {
	qt := map[uint32]uint8{20: 0x80, 21: 0, 22: 0x80}
	for _, fid := range []uint32{20, 21, 22, 23} {
		m := &ref9p.Msg{Type: ref9p.Tstat, Fid: fid}
		r, err := watchRPC(by.C, m, "the bystander's", dwell)
		if err != nil {
			return nil, err
		}
		t, valid := qt[fid]
		if !valid {
			if r.Type != ref9p.Rerror {
				return nil, fmt.Errorf("bystander disturbed (while %s dwells): Tstat of its unknown fid %d answered %s", dwell, fid, ref9p.TypeName(r.Type))
			}
			continue
		}
		if r.Type != ref9p.Rstat {
			return nil, fmt.Errorf("bystander disturbed (while %s dwells): Tstat of its fid %d answered %s %q", dwell, fid, ref9p.TypeName(r.Type), r.Ename)
		}
		if !ufs {
			want := *script.ExpectedAnswer(ref9p.Canon(m, by.C.Dotu), script.Behav{}, t)
			want.Tag = r.Tag
			if d := ref9p.Diff(ref9p.Canon(r, by.C.Dotu), ref9p.Canon(&want, by.C.Dotu)); d != "" {
				return nil, fmt.Errorf("bystander disturbed (while %s dwells): Tstat of its fid %d: %s", dwell, fid, d)
			}
		}
	}
	if !ufs {
		by.seq++
		m := &ref9p.Msg{Type: ref9p.Tread, Fid: 21, Offset: uint64(by.seq) << 12, Count: 64}
		r, err := watchRPC(by.C, m, "the bystander's", dwell)
		if err != nil {
			return nil, err
		}
		want := *script.ExpectedAnswer(ref9p.Canon(m, by.C.Dotu), script.Behav{}, 0)
		want.Tag = r.Tag
		if d := ref9p.Diff(ref9p.Canon(r, by.C.Dotu), ref9p.Canon(&want, by.C.Dotu)); d != "" {
			return nil, fmt.Errorf("bystander disturbed (while %s dwells): Tread on its open fid 21: %s", dwell, d)
		}
	}

	end, err := dialWatched(dial, "c11-nw", dwell)
	if err != nil {
		return nil, err
	}
	nw := &newcomer{id: script.ConnID("c11-nw"), end: end, c: rawc.New(end)}
	nw.c.Timeout = hangT
	ver := "9P2000"
	if dotu {
		ver = "9P2000.u"
	}
	uname, aname, child := "alice", "nw", "d1"
	nuname := uint32(1001)
	if ufs {
		uname, aname, child, nuname = "root", "", "by", 0
	}
	steps := []*ref9p.Msg{
		{Type: ref9p.Tversion, Msize: 8192, Version: ver},
		{Type: ref9p.Tattach, Fid: 30, Afid: ref9p.NOFID, Uname: uname, Aname: aname, Nuname: nuname},
		{Type: ref9p.Tstat, Fid: 30},
		{Type: ref9p.Twalk, Fid: 30, Newfid: 31, Wname: []string{child}},
		{Type: ref9p.Tstat, Fid: 31},
		{Type: ref9p.Tclunk, Fid: 31},
	}
	for _, m := range steps {
		r, err := watchRPC(nw.c, m, "a new connection's", dwell)
		if err != nil {
			nw.c.Close()
			return nil, err
		}
		if r.Type != m.Type+1 {
			nw.c.Close()
			return nil, fmt.Errorf("another connection disturbed (while %s dwells): a new connection's %s answered %s %q", dwell, ref9p.TypeName(m.Type), ref9p.TypeName(r.Type), r.Ename)
		}
		if m.Type == ref9p.Tversion {
			nw.c.Dotu = r.Version == "9P2000.u"
		}
	}
	return nw, nil
}

// leave: the new connection disconnects (after the callback was released) and
// its close must finish.
func (nw *newcomer) leave(k *ctl) error {
	nw.c.Close()
	if !k.wait(connWho(nw.id), "close.exit", 1, hangT) {
		return &hangError{"the connection dialled while the callback dwelt: its own Conn.close has not finished after it disconnected"}
	}
	return nil
}

var _ = errors.New
