package c11

import (
	"testing"
	"time"

	"verif/internal/ref9p"
	"verif/internal/srvh"
)

// throw-away: does the unlocked range over fidpool in Conn.close crash?
func TestZZStress(t *testing.T) {
	for round := 0; round < 300; round++ {
		c := &Case{Maxpend: 16, Dotu: true}
		sv := newServer(c)
		sh := srvh.NewShared(sv, false)
		vs, err := srvh.Open(sh, "zz", true, 8192)
		if err != nil {
			t.Fatal(err)
		}
		if _, err := vs.C.Attach(0, ref9p.NOFID, "alice", "", 1001); err != nil {
			t.Fatal(err)
		}
		for i := 0; i < 40; i++ {
			vs.C.Walk(0, uint32(10+i), "d1")
		}
		var buf []byte
		for i := 0; i < 200; i++ {
			m := &ref9p.Msg{Type: ref9p.Twalk, Tag: uint16(100 + i), Fid: 0, Newfid: uint32(100 + i), Wname: []string{"x1"}}
			buf = append(buf, ref9p.Encode(m, true)...)
		}
		vs.End.Write(buf)
		vs.End.Close()
		time.Sleep(2 * time.Millisecond)
	}
}
