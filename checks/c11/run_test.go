package c11

// Executor of the scripted-implementation variant.

import (
	"errors"
	"fmt"
	"reflect"
	"sort"
	"strings"
	"time"

	"github.com/rminnich/go9p"
	"verif/internal/hx"
	"verif/internal/model"
	"verif/internal/rawc"
	"verif/internal/ref9p"
	"verif/internal/script"
	"verif/internal/srvh"
	"verif/internal/xport"
)

var sharedLog = go9p.NewLogger(64)

var errInjected = errors.New("c11: injected transport error")

const (
	quiesce = 2 * time.Second  // the statement's "ends once the executing requests return": polled this long
	hangT   = 30 * time.Second // harness prologue deadlines
	// schedule-only waits (never part of a verdict)
	closeWait   = 5 * time.Millisecond
	lateTimeout = 3 * time.Millisecond
	holdTimeout = 2 * time.Second
)

func newServer(c *Case) (*script.Server, *connGate) {
	s := script.New()
	cg := &connGate{}
	srv := &go9p.Srv{Msize: 8192, Dotu: true, Maxpend: c.Maxpend, Upool: script.Users{}, Id: "c11", Log: sharedLog}
	var ops interface{} = opsPlainG{script.OpsPlain{S: s}, cg}
	if c.Auth {
		ops = opsAuthG{script.OpsAuth{S: s}, cg}
	}
	if !srv.Start(ops) {
		panic("c11: Srv.Start refused the ops value")
	}
	return &script.Server{Srv: srv, S: s}, cg
}

// connCount reads len(srv.conns) (unexported; read-only, under the server lock).
func connCount(srv *go9p.Srv) int {
	srv.Lock()
	defer srv.Unlock()
	return reflect.ValueOf(srv).Elem().FieldByName("conns").Len()
}

// ---------------------------------------------------------------------------
// bystander: its own connection with its own fids 20 (dir), 21 (open file),
// 22 (dir); 23 stays unknown.

type bystander struct {
	C    *rawc.C
	End  *xport.End
	id   string
	seq  int
	gids map[int]bool
}

func openBystander(dial func(string) *xport.End, dotu bool, uname string) (*bystander, error) {
	b := &bystander{id: script.ConnID("c11-by")}
	b.End = dial("c11-by")
	b.C = rawc.New(b.End)
	b.C.Timeout = hangT
	ver := "9P2000"
	if dotu {
		ver = "9P2000.u"
	}
	r, err := b.C.Version(8192, ver)
	if err != nil || r.Type != ref9p.Rversion {
		return nil, fmt.Errorf("bystander Tversion: %v %+v", err, r)
	}
	return b, nil
}

func (b *bystander) setupScript() error {
	steps := []*ref9p.Msg{
		{Type: ref9p.Tattach, Fid: 20, Afid: ref9p.NOFID, Uname: "alice", Aname: "by", Nuname: 1001},
		{Type: ref9p.Twalk, Fid: 20, Newfid: 21, Wname: []string{"f1"}},
		{Type: ref9p.Topen, Fid: 21, Mode: 0},
		{Type: ref9p.Twalk, Fid: 20, Newfid: 22, Wname: []string{"d1"}},
	}
	for _, m := range steps {
		r, err := b.C.RPC(m)
		if err != nil || r.Type != m.Type+1 {
			return fmt.Errorf("bystander setup %s: %v %+v", ref9p.TypeName(m.Type), err, r)
		}
	}
	return nil
}

// probeScript: the bystander's fids answer exactly as before.
func (b *bystander) probeScript(when string) error {
	qt := map[uint32]uint8{20: 0x80, 21: 0, 22: 0x80}
	for _, fid := range []uint32{20, 21, 22, 23} {
		m := &ref9p.Msg{Type: ref9p.Tstat, Fid: fid}
		r, err := b.C.RPC(m)
		if err == rawc.ErrTimeout {
			return &hangError{fmt.Sprintf("bystander not answered within %v (%s the victim's disconnect): Tstat fid %d", hangT, when, fid)}
		}
		if err != nil {
			return fmt.Errorf("bystander disturbed (%s the victim's disconnect): Tstat fid %d: %v", when, fid, err)
		}
		t, valid := qt[fid]
		if !valid {
			if r.Type != ref9p.Rerror || r.Ename != "unknown fid" {
				return fmt.Errorf("bystander disturbed (%s): Tstat of its unknown fid %d answered %s %q", when, fid, ref9p.TypeName(r.Type), r.Ename)
			}
			continue
		}
		cm := ref9p.Canon(m, b.C.Dotu)
		want := *script.ExpectedAnswer(cm, script.Behav{}, t)
		want.Tag = r.Tag
		if d := ref9p.Diff(ref9p.Canon(r, b.C.Dotu), ref9p.Canon(&want, b.C.Dotu)); d != "" {
			return fmt.Errorf("bystander disturbed (%s the victim's disconnect): Tstat of its fid %d: %s", when, fid, d)
		}
	}
	b.seq++
	m := &ref9p.Msg{Type: ref9p.Tread, Fid: 21, Offset: uint64(b.seq) << 12, Count: 64}
	r, err := b.C.RPC(m)
	if err == rawc.ErrTimeout {
		return &hangError{fmt.Sprintf("bystander not answered within %v (%s the victim's disconnect): Tread fid 21", hangT, when)}
	}
	if err != nil {
		return fmt.Errorf("bystander disturbed (%s): Tread on its open fid 21: %v", when, err)
	}
	want := *script.ExpectedAnswer(ref9p.Canon(m, b.C.Dotu), script.Behav{}, 0)
	want.Tag = r.Tag
	if d := ref9p.Diff(ref9p.Canon(r, b.C.Dotu), ref9p.Canon(&want, b.C.Dotu)); d != "" {
		return fmt.Errorf("bystander disturbed (%s): Tread on its open fid 21: %s", when, d)
	}
	return nil
}

// settle waits until exactly the bystander's two goroutines (recv, send) are
// new with respect to base, and remembers them.
func (b *bystander) settle(base map[int]gor) error {
	var last map[int]gor
	ok := waitFor(hangT, func() bool {
		last = libGors()
		b.gids = map[int]bool{}
		kinds := map[string]int{}
		for id, g := range last {
			if _, old := base[id]; old {
				continue
			}
			b.gids[id] = true
			kinds[g.kind()]++
		}
		return len(b.gids) == 2 && kinds["(*Conn).recv"] == 1 && kinds["(*Conn).send"] == 1
	})
	if !ok {
		return &hangError{fmt.Sprintf("harness: the bystander connection is not served by exactly one recv and one send goroutine: %v", shorts(last, base))}
	}
	return nil
}

func (b *bystander) alive() error {
	cur := libGors()
	for id := range b.gids {
		g, ok := cur[id]
		if !ok || (g.kind() != "(*Conn).recv" && g.kind() != "(*Conn).send") {
			return fmt.Errorf("bystander disturbed: its goroutine %d is gone after the victim's disconnect", id)
		}
	}
	return nil
}

func shorts(cur, base map[int]gor) []string {
	var out []string
	for id, g := range cur {
		if _, old := base[id]; !old {
			out = append(out, short(g))
		}
	}
	sort.Strings(out)
	return out
}

// ---------------------------------------------------------------------------

type tally struct {
	closed    map[string]int // conn id -> ConnClosed calls
	shown     map[int]string // incarnation -> conn id
	destroyed map[int]int
	byTag     map[uint16][]int // victim tag -> incarnations shown by that request
	byAname   map[string][]int // aname -> incarnations shown to AuthInit (victim)
	entered   map[uint16]bool
	done      map[uint16]bool
}

func tallyLog(log []script.Entry, vid string) *tally {
	t := &tally{closed: map[string]int{}, shown: map[int]string{}, destroyed: map[int]int{}, byTag: map[uint16][]int{}, byAname: map[string][]int{}, entered: map[uint16]bool{}, done: map[uint16]bool{}}
	show := func(conn string, tag uint16, viaOp bool, incs ...int) {
		for _, x := range incs {
			if x != 0 {
				t.shown[x] = conn
				if conn == vid && viaOp {
					t.byTag[tag] = append(t.byTag[tag], x)
				}
			}
		}
	}
	for _, e := range log {
		switch e.Kind {
		case "connclosed":
			t.closed[e.Conn]++
		case "enter":
			show(e.Conn, e.Tag, true, e.Inc, e.NewInc, e.AInc)
			if e.Conn == vid {
				t.entered[e.Tag] = true
			}
		case "done":
			if e.Conn == vid {
				t.done[e.Tag] = true
			}
		case "authinit", "authread", "authwrite", "authdestroy":
			show(e.Conn, 0, false, e.Inc)
			if e.Kind == "authinit" && e.Conn == vid && e.Inc != 0 {
				t.byAname[strings.TrimPrefix(e.Key, "authinit/")] = append(t.byAname[strings.TrimPrefix(e.Key, "authinit/")], e.Inc)
			}
		case "authcheck":
			show(e.Conn, 0, false, e.AInc)
		case "fiddestroy":
			if e.Inc != 0 {
				t.destroyed[e.Inc]++
				if _, ok := t.shown[e.Inc]; !ok {
					t.shown[e.Inc] = e.Conn
				}
			}
		}
	}
	return t
}

// parkRequest sends m without waiting for its reply and waits until it is
// parked inside the implementation (b.Hold). A request the framework answers
// itself (unknown fid, rules) is part of the history: its reply is consumed
// and nil is returned.
func parkRequest(k *ctl, S *script.S, vs *srvh.Session, vid string, m *ref9p.Msg, b script.Behav) (*liveFlight, error) {
	if m == nil {
		return nil, nil
	}
	m.Tag = vs.C.NextTag()
	lf := &liveFlight{idx: -1, m: m, key: script.Key(ref9p.Canon(m, vs.C.Dotu)), tag: m.Tag, who: reqWho(vid, m.Tag), state: "executing"}
	b.Hold = true
	S.Set(lf.key, b)
	if err := vs.C.Send(m); err != nil {
		return nil, &hangError{"harness: sending a request to be parked: " + err.Error()}
	}
	entered := false
	ok := waitFor(hangT, func() bool {
		for _, e := range S.Log() {
			if e.Kind == "enter" && e.Conn == vid && e.Tag == lf.tag {
				entered = true
				lf.incs = []int{e.Inc}
				return true
			}
		}
		return k.count(lf.who, "respond.posted") > 0
	})
	if !ok {
		return nil, &hangError{"before the cut: request " + lf.key + " neither reached the implementation nor was answered"}
	}
	if entered {
		return lf, nil
	}
	S.Release(lf.key)
	return nil, awaitReply(k, vs, lf)
}

func awaitReply(k *ctl, vs *srvh.Session, lf *liveFlight) error {
	r, _, err := vs.C.Recv()
	if err == rawc.ErrTimeout {
		return &hangError{"before the cut: no reply to " + lf.key}
	}
	if err != nil {
		return fmt.Errorf("before the cut: %s: %v", lf.key, err)
	}
	if r.Tag != lf.tag {
		return fmt.Errorf("before the cut: waiting for the reply to %s (tag %d) the client received %s tag %d", lf.key, lf.tag, ref9p.TypeName(r.Type), r.Tag)
	}
	if !k.wait(lf.who, "respond.unlinked", 1, hangT) {
		return &hangError{"before the cut: request " + lf.key + " was answered but never left Respond"}
	}
	return nil
}

// unparkRequest releases a parked request of the history and waits until the
// client has its reply and the request has left the framework.
func unparkRequest(k *ctl, S *script.S, vs *srvh.Session, lf *liveFlight) error {
	S.Release(lf.key)
	if err := awaitReply(k, vs, lf); err != nil {
		return err
	}
	tag := lf.tag
	ok := waitFor(hangT, func() bool {
		for _, e := range S.Log() {
			if e.Kind == "done" && e.Tag == tag && e.Key == lf.key {
				return true
			}
		}
		return false
	})
	if !ok {
		return &hangError{"before the cut: released request " + lf.key + " never finished inside the implementation"}
	}
	return nil
}

func parkedOn(hparks []*liveFlight, fid uint32, inc int) bool {
	for _, hp := range hparks {
		if hp.m.Fid == fid && (inc == 0 || len(hp.incs) == 0 || hp.incs[0] == inc) {
			return true
		}
	}
	return false
}

// lightStep: one awaited request of the history whose only effect the harness
// needs is the reference fid table's (the per-step oracle of srvh.Step assumes
// that nothing else is executing on the connection).
func lightStep(S *script.S, vs *srvh.Session, vid string, m *ref9p.Msg, b script.Behav) error {
	key := script.Key(ref9p.Canon(m, vs.C.Dotu))
	S.Set(key, b)
	before := len(S.Log())
	r, err := vs.C.RPC(m)
	if err == rawc.ErrTimeout {
		return &hangError{"before the cut: no reply to " + key}
	}
	if err != nil {
		return fmt.Errorf("before the cut: %s: %v", key, err)
	}
	inc, newinc := 0, 0
	for _, e := range S.Log()[before:] {
		if e.Kind == "enter" && e.Conn == vid && e.Tag == m.Tag {
			inc, newinc = e.Inc, e.NewInc
		}
	}
	vs.M.Apply(m, r, inc, newinc)
	return nil
}

func runScript(c *Case, res *result) (err error) {
	k := newCtl()
	uninstall := k.install()
	defer uninstall()

	g0 := libGors()
	sv, cg := newServer(c)
	S := sv.S
	defer S.ReleaseAll()
	defer cg.release()

	by, err := openBystander(sv.Dial, !c.Dotu, "alice")
	if err != nil {
		return &hangError{err.Error()}
	}
	defer by.C.Close()
	if err := by.setupScript(); err != nil {
		return &hangError{err.Error()}
	}
	if err := by.settle(g0); err != nil {
		return err
	}
	g1 := libGors() // baseline for the victim: everything that exists now

	fr := c.frames()
	kf, p := locate(fr, c.Cut)
	res.midFrame = p > 0
	vid := script.ConnID("c11-vi")
	var end *xport.End
	var vs *srvh.Session
	var hparks []*liveFlight // requests of the history that are still parked
	if kf == 0 {
		end = sv.Dial("c11-vi")
		defer end.Close()
	} else {
		sh := srvh.NewShared(sv, c.Auth)
		vs, err = srvh.Open(sh, "c11-vi", c.Dotu, 8192)
		if err != nil {
			return &hangError{"victim prologue: " + err.Error()}
		}
		vs.M.UserRule = 2
		end = vs.End
		defer end.Close()
		for i := 0; i < kf-1; i++ {
			a := &c.History[i]
			var b script.Behav
			if a.Err {
				b.Err, b.Ecode = "scripted failure", 5
			}
			switch a.Kind {
			case "park":
				hp, err := parkRequest(k, S, vs, vid, a.msg(i), b)
				if err != nil {
					return err
				}
				if hp != nil {
					hp.f = &Flight{Kind: a.Op}
					hparks = append(hparks, hp)
				}
				continue
			case "unpark":
				if len(hparks) == 0 {
					continue
				}
				j := a.Sel % len(hparks)
				hp := hparks[j]
				hparks = append(hparks[:j:j], hparks[j+1:]...)
				if f := vs.M.Fids[hp.m.Fid]; f != nil && f.Inc != 0 && len(hp.incs) > 0 && f.Inc != hp.incs[0] {
					res.labels = append(res.labels, "parked request released before the cut after its fid number was clunked and bound again")
				} else if f == nil {
					res.labels = append(res.labels, "parked request released before the cut after its fid was clunked")
				} else {
					res.labels = append(res.labels, "parked request released before the cut")
				}
				if err := unparkRequest(k, S, vs, hp); err != nil {
					return err
				}
				continue
			case "clunk", "remove":
				// the fid goes away while an earlier request on it is still parked:
				// its FidDestroy is due only when that request returns, which
				// srvh.Step (one request at a time) would call a violation
				if f := vs.M.Fids[a.Fid]; f != nil && parkedOn(hparks, a.Fid, f.Inc) {
					if err := lightStep(S, vs, vid, a.msg(i), b); err != nil {
						return err
					}
					res.labels = append(res.labels, a.Kind+" of a fid an earlier request is still parked on")
					continue
				}
			}
			if _, err := vs.Step(a.msg(i), b); err != nil {
				var h *srvh.Hang
				if errors.As(err, &h) {
					return &hangError{fmt.Sprintf("before the cut, step %d (%s): %v", i, a.Kind, err)}
				}
				return fmt.Errorf("before the cut, step %d (%s): %w", i, a.Kind, err)
			}
		}
		for _, f := range vs.M.Fids {
			if f.Inc != 0 {
				res.validAtCut++
			}
		}
	}
	if err := by.probeScript("before"); err != nil {
		return err
	}

	// ---- schedule "slowdestroy": a valid fid that no request executing at the
	// cut names is shown to the implementation once more, with the order to
	// dwell in its FidDestroy; Conn.close then sits inside the fid clean-up
	// until the first parked request has answered
	destroyKey := ""
	if vs != nil && c.Sched == "slowdestroy" {
		named := map[uint32]bool{}
		for i := range c.Flights {
			m := c.Flights[i].resolve(1000+i, vs.M.Fids)
			named[m.Fid], named[m.Newfid], named[m.Afid] = true, true, true
		}
		for _, hp := range hparks {
			named[hp.m.Fid] = true
		}
		for _, u := range FUniverse {
			if f := vs.M.Fids[u]; f != nil && f.Kind != model.KAuth && !named[u] {
				m := &ref9p.Msg{Type: ref9p.Tstat, Fid: u}
				if _, err := vs.Step(m, script.Behav{HoldDestroy: true}); err != nil {
					var h *srvh.Hang
					if errors.As(err, &h) {
						return &hangError{fmt.Sprintf("before the cut, Tstat fid %d: %v", u, err)}
					}
					return fmt.Errorf("before the cut, Tstat fid %d: %w", u, err)
				}
				destroyKey = script.Key(ref9p.Canon(m, vs.C.Dotu))
				break
			}
		}
	}

	// ---- requests that are still executing at the cut
	var live []*liveFlight
	creating, using, killing, keys := map[uint32]bool{}, map[uint32]bool{}, map[uint32]bool{}, map[string]bool{}
	for _, hp := range hparks {
		// (conservative: the number may name a newer fid by now)
		using[hp.m.Fid] = true
		keys[hp.key] = true
	}
	if vs != nil {
		for i := range c.Flights {
			f := &c.Flights[i]
			m := f.resolve(1000+i, vs.M.Fids)
			lf := &liveFlight{idx: i, f: f, m: m, late: f.Late, state: "dropped"}
			live = append(live, lf)
			lf.key = script.Key(ref9p.Canon(m, vs.C.Dotu))
			var news, uses, kills []uint32
			switch m.Type {
			case ref9p.Tattach:
				news = append(news, m.Fid)
			case ref9p.Tauth:
				news = append(news, m.Afid)
			case ref9p.Twalk:
				uses = append(uses, m.Fid)
				if m.Newfid != m.Fid {
					news = append(news, m.Newfid)
				}
			case ref9p.Tclunk, ref9p.Tremove:
				uses = append(uses, m.Fid)
				kills = append(kills, m.Fid)
			default:
				uses = append(uses, m.Fid)
			}
			// a client may not have two outstanding requests that create the same
			// fid, use a fid that is only being created, or use a fid that is
			// being clunked/removed: such candidates are left out
			drop := keys[lf.key]
			for _, n := range news {
				drop = drop || creating[n] || using[n] || killing[n]
			}
			for _, u := range uses {
				drop = drop || creating[u] || killing[u]
			}
			for _, x := range kills {
				drop = drop || using[x]
			}
			if drop {
				continue
			}
			keys[lf.key] = true
			for _, n := range news {
				creating[n] = true
			}
			for _, u := range uses {
				using[u] = true
			}
			for _, x := range kills {
				killing[x] = true
			}
			lf.tag = vs.C.NextTag()
			m.Tag = lf.tag
			lf.who = reqWho(vid, lf.tag)
			b := script.Behav{Async: f.Async, Dup: f.Dup}
			if f.Err {
				b.Err, b.Ecode = "scripted failure", 5
			}
			if f.Late {
				k.addHold(lf.who, "process.enter", connWho(vid), "close.exit", lateTimeout)
			} else {
				b.Hold = true
			}
			S.Set(lf.key, b)
			if err := vs.C.Send(m); err != nil {
				return &hangError{"harness: sending an in-flight request: " + err.Error()}
			}
			if f.Late {
				if !k.wait(lf.who, "process.enter", 1, hangT) {
					return &hangError{"request " + lf.key + " never reached process.enter"}
				}
				lf.state = "executing"
				continue
			}
			tag := lf.tag
			entered := false
			ok := waitFor(hangT, func() bool {
				for _, e := range S.Log() {
					if e.Kind == "enter" && e.Conn == vid && e.Tag == tag {
						entered = true
						return true
					}
				}
				return k.count(lf.who, "respond.posted") > 0
			})
			if !ok {
				return &hangError{"request " + lf.key + " neither reached the implementation nor was answered"}
			}
			if entered {
				lf.state = "executing"
			} else {
				// answered by the framework (or by the authentication hooks):
				// part of the history; let the reply leave before the cut
				lf.state = "refused"
				if !k.wait(lf.who, "respond.unlinked", 1, hangT) {
					return &hangError{"request " + lf.key + " was refused but its reply never left"}
				}
			}
		}
	}
	// ---- a burst of independent requests racing with the disconnect
	if vs != nil && c.Burst > 0 {
		src, dir, found := uint32(0), false, false
		for _, u := range FUniverse {
			if f := vs.M.Fids[u]; f != nil && !f.Opened && !killing[u] && !creating[u] {
				src, dir, found = u, f.Kind == model.KDir, true
				break
			}
		}
		if found {
			var buf []byte
			for i := 0; i < c.Burst; i++ {
				m := &ref9p.Msg{Type: ref9p.Twalk, Fid: src, Newfid: uint32(100 + i)}
				if dir && i%2 == 1 {
					m.Wname = []string{"x1"} // the implementation answers Rerror: newfid goes away again
				}
				m.Tag = vs.C.NextTag()
				live = append(live, &liveFlight{idx: -1, f: &Flight{Kind: "burst"}, m: m, key: script.Key(m), tag: m.Tag, who: reqWho(vid, m.Tag), state: "burst"})
				buf = append(buf, ref9p.Encode(m, vs.C.Dotu)...)
			}
			if _, err := end.Write(buf); err != nil {
				return &hangError{"harness: writing the burst: " + err.Error()}
			}
			res.labels = append(res.labels, "burst of requests racing with the disconnect")
			res.effective += c.Burst
		}
	}

	var parked []*liveFlight // in release order
	for _, i := range c.Order {
		if i >= 0 && i < len(live) && live[i].state == "executing" && !live[i].late {
			parked = append(parked, live[i])
		}
	}
	// requests of the history that are still parked are executing at the cut
	// too; they are released after the drawn ones
	for _, hp := range hparks {
		live = append(live, hp)
		parked = append(parked, hp)
	}
	nlate := 0
	for _, lf := range live {
		if lf.state == "executing" {
			res.effective++
			if lf.late {
				nlate++
			}
			res.labels = append(res.labels, "executing at the cut: "+lf.f.Kind+map[bool]string{true: " (starts after close)", false: " (inside the implementation)"}[lf.late])
		}
	}

	if p > 0 {
		if _, err := end.Write(fr[kf][:p]); err != nil {
			return &hangError{"harness: writing the partial frame: " + err.Error()}
		}
	}

	// ---- schedule: where the close is relative to the first released request
	sched := c.Sched
	switch {
	case sched == "slowclosed":
	case sched == "slowdestroy" && destroyKey != "":
	case sched == "slowdestroy" || len(parked) == 0:
		sched = "closefirst"
	}
	switch sched {
	case "respfirst":
		k.addHold(connWho(vid), "close.enter", parked[0].who, "respond.queued", holdTimeout)
	case "mid":
		k.addHold(connWho(vid), "close.stopped", parked[0].who, "respond.posted", holdTimeout)
	case "slowclosed":
		// the ConnClosed callback of the victim dwells until the harness releases it
		cg.arm(vid)
	}
	if len(parked) > 0 || sched == "slowdestroy" || sched == "slowclosed" {
		res.labels = append(res.labels, "schedule="+sched)
	}

	// ---- the cut
	switch c.Kind {
	case "eof":
		end.Close()
	case "half":
		end.CloseWrite()
	default:
		end.FailPeer(errInjected)
	}

	release := func(lf *liveFlight) {
		S.Release(lf.key)
		k.wait(lf.who, "respond.posted", 1, quiesce)
	}
	dwelling := ""
	switch sched {
	case "slowdestroy":
		// (schedule only) until Conn.close is inside the dwelling FidDestroy
		inside := waitFor(holdTimeout, func() bool {
			for _, e := range S.Log() {
				if e.Kind == "fiddestroy-enter" && e.Conn == vid {
					return true
				}
			}
			return false
		})
		if inside {
			dwelling = "a FidDestroy of the victim's disconnect"
		} else {
			res.labels = append(res.labels, "schedule slowdestroy not reached")
		}
	case "slowclosed":
		if cg.isInside(holdTimeout) {
			dwelling = "the ConnClosed callback of the victim's disconnect"
		} else {
			res.labels = append(res.labels, "schedule slowclosed not reached")
		}
	}
	// ---- no other connection is disturbed while the callback dwells: the
	// bystander's fid-carrying requests are answered and a new connection is
	// accepted and served BEFORE the callback is released
	var nw *newcomer
	if dwelling != "" {
		var err error
		if nw, err = dwellProbe(by, sv.Dial, c.Dotu, dwelling, false); err != nil {
			return err
		}
		res.labels = append(res.labels, "bystander and a new connection served while "+dwelling+" dwells")
	}
	switch sched {
	case "closefirst":
	case "slowdestroy", "slowclosed":
		// every parked request answers while close sits in the callback
		for _, lf := range parked {
			release(lf)
		}
		parked = nil
	default:
		release(parked[0])
		parked = parked[1:]
	}
	if destroyKey != "" {
		S.Release(destroyKey)
	}
	cg.release()
	if nw != nil {
		if err := nw.leave(k); err != nil {
			return err
		}
	}
	if closeSettled(k, vid, closeWait) {
		res.labels = append(res.labels, "close finished before the (remaining) requests were released")
	} else {
		res.labels = append(res.labels, "close still in progress when the requests were released")
	}
	if err := by.probeScript("during"); err != nil {
		return err
	}
	for _, lf := range parked {
		release(lf)
	}

	// ---- quiescence: everything serving the victim ends
	tolerantA := hx.IsKnown(FindRespondBlocks) && c.Maxpend == 0
	var left []gor
	var why string
	nstuck := 0
	newGors := func() []gor {
		var out []gor
		for id, g := range libGors() {
			if _, old := g1[id]; !old {
				out = append(out, g)
			}
		}
		return out
	}
	okq := settle(func() bool {
		why = ""
		if k.count(connWho(vid), "close.exit") == 0 {
			why = "Conn.close has not finished"
			return false
		}
		t := tallyLog(S.Log(), vid)
		nstuck = 0
		for _, lf := range live {
			if lf.state != "executing" && lf.state != "burst" {
				continue
			}
			if lf.state == "burst" && k.count(lf.who, "recv.dispatch") == 0 {
				continue // never read by the server (its writer failed first and closed the transport)
			}
			fin := k.count(lf.who, "respond.unlinked") > 0 && (!t.entered[lf.tag] || t.done[lf.tag])
			if fin {
				continue
			}
			if k.count(lf.who, "respond.posted") > 0 && k.count(lf.who, "respond.queued") == 0 {
				nstuck++
				if tolerantA {
					continue
				}
			}
			why = "request " + lf.key + " has not completed"
			return false
		}
		left = left[:0]
		cur := libGors()
		stuckG := 0
		for id, g := range cur {
			if _, old := g1[id]; old {
				continue
			}
			left = append(left, g)
			if g.stuckInRespondSend() {
				stuckG++
			}
		}
		if len(left) == 0 {
			return true
		}
		if tolerantA && stuckG == len(left) && stuckG == nstuck {
			return true
		}
		why = "goroutines still serve the connection"
		return false
	}, newGors)
	// goroutines that remain and are tolerated (listed finding) must be excluded below
	allowed := map[int]gor{}
	for id, g := range g0 {
		allowed[id] = g
	}
	if !okq {
		left = left[:0]
		for id, g := range libGors() {
			if _, old := g1[id]; !old {
				left = append(left, g)
			}
		}
		var gs []string
		onlyA := len(left) > 0
		for _, g := range left {
			gs = append(gs, short(g))
			if !g.stuckInRespondSend() {
				onlyA = false
			}
		}
		sort.Strings(gs)
		msg := fmt.Sprintf("%v after the disconnect and after all %d executing requests were released: %s; goroutines left: %s",
			quiesce, res.effective, why, strings.Join(gs, " | "))
		if onlyA {
			msg += fmt.Sprintf(" [signature %s: reply queue %d deep, writer gone]", FindRespondBlocks, c.Maxpend)
		}
		return errors.New(msg)
	}
	if len(left) > 0 {
		hx.Known(FindRespondBlocks, fmt.Sprintf("Maxpend=0: %d request(s) answered after the writer had stopped: goroutine(s) left in (*SrvReq).Respond [chan send], e.g. %s", len(left), short(left[0])))
		for _, g := range left {
			allowed[g.id] = g
		}
	}

	// ---- accounting over the whole run
	t := tallyLog(S.Log(), vid)
	if n := t.closed[vid]; n != 1 {
		return fmt.Errorf("ConnClosed was reported %d times for the victim connection", n)
	}
	if n := t.closed[by.id]; n != 0 {
		return fmt.Errorf("bystander disturbed: ConnClosed reported for it %d times", n)
	}
	if nw != nil {
		if n := t.closed[nw.id]; n != 1 {
			return fmt.Errorf("ConnClosed was reported %d times for the connection dialled while the callback dwelt (it has disconnected)", n)
		}
	}
	touched := map[int]bool{}
	risky := false
	for _, lf := range live {
		if lf.state == "executing" || lf.state == "burst" {
			for _, x := range t.byTag[lf.tag] {
				touched[x] = true
			}
			if lf.m.Type == ref9p.Tauth {
				for _, x := range t.byAname[lf.m.Aname] {
					touched[x] = true
				}
			}
			if !lf.f.harmless() {
				risky = true
			}
		}
	}
	var bad, badTouched []string
	incs := make([]int, 0, len(t.shown))
	for x := range t.shown {
		incs = append(incs, x)
	}
	sort.Ints(incs)
	for _, x := range incs {
		conn, n := t.shown[x], t.destroyed[x]
		switch {
		case conn == vid && n != 1:
			s := fmt.Sprintf("fid incarnation %d of the victim: FidDestroy called %d times (want exactly once)", x, n)
			if touched[x] {
				badTouched = append(badTouched, s+" [in use by a request executing at the cut]")
			} else {
				bad = append(bad, s)
			}
		case nw != nil && conn == nw.id:
			if n != 1 {
				bad = append(bad, fmt.Sprintf("the connection dialled while the callback dwelt has disconnected: FidDestroy called %d times for its fid incarnation %d (want exactly once)", n, x))
			}
		case conn != vid && n != 0:
			bad = append(bad, fmt.Sprintf("bystander disturbed: FidDestroy called %d times for its fid incarnation %d", n, x))
		}
	}
	if len(bad) > 0 || (len(badTouched) > 0 && !(hx.IsKnown(FindCloseVsInflight) && risky)) {
		return errors.New(strings.Join(append(bad, badTouched...), "; "))
	}
	if len(badTouched) > 0 {
		hx.Known(FindCloseVsInflight, badTouched[0])
	}
	if n := connCount(sv.Srv); n != 1 {
		return fmt.Errorf("the server still lists %d connections after the victim's disconnect (want 1: the bystander)", n)
	}
	if err := by.probeScript("after"); err != nil {
		return err
	}
	if err := by.alive(); err != nil {
		return err
	}
	if f := k.forcedCount(); f > 0 {
		res.labels = append(res.labels, "schedule hold force-released")
	}

	// ---- finally the bystander disconnects (no request executing)
	by.C.Close()
	var leftBy []string
	okb := settle(func() bool {
		if k.count(connWho(by.id), "close.exit") == 0 {
			return false
		}
		leftBy = shorts(libGors(), allowed)
		return len(leftBy) == 0
	}, func() []gor {
		var out []gor
		for id, g := range libGors() {
			if _, old := allowed[id]; !old {
				out = append(out, g)
			}
		}
		return out
	})
	if !okb {
		// the deadline only detects hangs: look once more, a verdict needs a
		// goroutine that is still inside go9p
		closedNow := k.count(connWho(by.id), "close.exit") > 0
		leftBy = shorts(libGors(), allowed)
		switch {
		case closedNow && len(leftBy) == 0:
			res.labels = append(res.labels, "bystander's own disconnect finished only after the quiescence deadline (starved machine)")
		case !closedNow && len(leftBy) == 0:
			hx.Inconclusive(fmt.Sprintf("%v after the bystander's own disconnect its Conn.close has not finished, yet no goroutine is inside go9p", quiesce))
			return nil
		default:
			return fmt.Errorf("%v after the bystander's own disconnect (Conn.close finished: %v): goroutines left: %s", quiesce, closedNow, strings.Join(leftBy, " | "))
		}
	}
	t = tallyLog(S.Log(), vid)
	if n := t.closed[by.id]; n != 1 {
		return fmt.Errorf("ConnClosed was reported %d times for the bystander's own disconnect", n)
	}
	for _, x := range incs {
		_ = x
	}
	for x, conn := range t.shown {
		if conn == by.id && t.destroyed[x] != 1 {
			return fmt.Errorf("bystander's own disconnect: fid incarnation %d: FidDestroy called %d times", x, t.destroyed[x])
		}
	}
	if n := connCount(sv.Srv); n != 0 {
		return fmt.Errorf("the server still lists %d connections after both disconnected", n)
	}
	return nil
}
