// C11 — a disconnect releases everything the connection held.
package c11

import (
	"encoding/json"
	"errors"
	"fmt"
	"sort"
	"testing"

	"pgregory.net/rapid"
	"verif/internal/hx"
	"verif/internal/model"
	"verif/internal/ref9p"
	"verif/internal/script"
)

func TestMain(m *testing.M) { hx.Main(m, "C11") }

// The regression tier (confirmed findings, /verif/regress/C11) runs first.
func TestReplay(t *testing.T) {
	e, err := hx.LoadReplay()
	if e == nil {
		t.Skip("no replay file", err)
	}
	// several executions: some stored cases (bursts racing the cut) fail only
	// in part of the schedules
	replayEnv(t, e, 10)
}

func replayEnv(t *testing.T, e *hx.Envelope, times int) {
	var c Case
	if err := json.Unmarshal(e.Case, &c); err != nil {
		t.Fatalf("bad case: %v", err)
	}
	for i := 0; i < times; i++ {
		if err := execute(e.Test, &c); err != nil {
			hx.Violation(e.Test, &c, err.Error())
			t.Fatalf("%v", err)
		}
	}
}

func TestRegress(t *testing.T) {
	for _, e := range hx.Regressions() {
		replayEnv(t, e, 1)
		hx.Label("regress")
	}
}

// Finding ids (listed in /verif/known_findings.json while they are open).
const (
	// a reply produced after the writer goroutine has stopped parks its
	// goroutine forever on the unbuffered reply queue
	FindRespondBlocks = "reply-after-disconnect-blocks-forever"
	// Conn.close destroys the fid table while requests still hold / create /
	// drop fids: FidDestroy twice or never for the fids such a request touches
	FindCloseVsInflight = "close-destroys-fids-under-inflight-requests"
)

var Universe = []uint32{0, 1, 2, 3, 0xFFFFFFFE, ref9p.NOFID}

// FUniverse: fid numbers the requests executing at the cut choose from.
var FUniverse = []uint32{0, 1, 2, 3, 4, 5, 0xFFFFFFFE}

// Act is one request of the victim's history (same vocabulary as C04).
type Act struct {
	Kind   string   `json:"kind"`
	Fid    uint32   `json:"fid"`
	Newfid uint32   `json:"newfid,omitempty"`
	Afid   uint32   `json:"afid,omitempty"`
	Names  []string `json:"names,omitempty"`
	Mode   uint8    `json:"mode,omitempty"`
	Perm   uint32   `json:"perm,omitempty"`
	Count  uint32   `json:"count,omitempty"`
	User   string   `json:"user,omitempty"`
	Aname  string   `json:"aname,omitempty"`
	Err    bool     `json:"err,omitempty"` // the implementation answers Rerror
	// Kind "park": the request Op (read | write | wstat) on Fid is handed to the
	// implementation and stays parked inside it while the history goes on (the
	// client does not wait for its reply). Kind "unpark": the Sel-th (mod) of
	// the requests parked so far is released and its reply awaited. A request
	// still parked at the cut is one more request executing at the cut.
	Op  string `json:"op,omitempty"`
	Sel int    `json:"sel,omitempty"`
}

// parkSeq keeps the keys of parked requests apart from those of the history
// acts (seq = index) and of the requests executing at the cut (1000+i).
const parkSeq = 5000

// Flight is a request that is still executing when the connection is cut. Its
// fid numbers are selectors resolved against the reference fid table at the
// cut (so a case stays meaningful when the history shrinks).
type Flight struct {
	Kind   string   `json:"kind"`
	FidSel int      `json:"fidsel"`           // index into the sorted valid fid numbers (mod)
	NewSel int      `json:"newsel,omitempty"` // index into the free fid numbers (mod)
	Raw    bool     `json:"raw,omitempty"`    // selectors index the whole universe instead
	Names  []string `json:"names,omitempty"`
	Mode   uint8    `json:"mode,omitempty"`
	Perm   uint32   `json:"perm,omitempty"`
	Count  uint32   `json:"count,omitempty"`
	Err    bool     `json:"err,omitempty"`
	Async  bool     `json:"async,omitempty"`
	Dup    bool     `json:"dup,omitempty"`
	// Late: instead of being parked inside the implementation the request is
	// parked before it starts (schedule point process.enter) until the
	// connection's close has finished, i.e. it executes entirely after the
	// disconnect was handled.
	Late bool `json:"late,omitempty"`
}

type Case struct {
	Variant string   `json:"variant"` // "script", "ufs" or "ufsx"
	Dotu    bool     `json:"dotu"`
	Auth    bool     `json:"auth,omitempty"`
	Maxpend int      `json:"maxpend"`
	History []Act    `json:"history,omitempty"`
	Cut     int      `json:"cut"`  // bytes of (Tversion frame + history frames) the server receives
	Kind    string   `json:"kind"` // eof | err | half
	Flights []Flight `json:"flights,omitempty"`
	Order   []int    `json:"order,omitempty"` // release order of the parked flights (indices into Flights)
	Sched   string   `json:"sched,omitempty"` // closefirst | respfirst | mid | slowdestroy | slowclosed
	// Burst: that many further independent requests (clones of / failing walks
	// from a valid fid to fresh fid numbers) are written in one piece right
	// before the cut, so they execute while the disconnect is handled.
	Burst int `json:"burst,omitempty"`
	// ufs variant
	Ops  []UOp `json:"ops,omitempty"`
	Pipe int   `json:"pipe,omitempty"` // the last Pipe complete frames are written without waiting for replies
	// ufsx variant (requests executing inside Ufs at a Tversion / at the cut)
	Steps       []XStep `json:"steps,omitempty"`
	Big         int     `json:"big,omitempty"`          // entries of the directory "big"
	UnlinkAfter []bool  `json:"unlink_after,omitempty"` // per FIFO: its name is removed before the open parked on it is released after the cut
}

func (a *Act) msg(seq int) *ref9p.Msg {
	uid := map[string]uint32{"root": 0, "alice": 1001, "bob": 1002, "mallory": 6666}[a.User]
	switch a.Kind {
	case "park":
		switch a.Op {
		case "read", "write", "wstat":
			b := Act{Kind: a.Op, Fid: a.Fid, Count: a.Count}
			return b.msg(seq + parkSeq)
		}
		return nil
	case "auth":
		return &ref9p.Msg{Type: ref9p.Tauth, Afid: a.Afid, Uname: a.User, Aname: a.Aname, Nuname: uid}
	case "attach":
		return &ref9p.Msg{Type: ref9p.Tattach, Fid: a.Fid, Afid: a.Afid, Uname: a.User, Aname: a.Aname, Nuname: uid}
	case "walk":
		return &ref9p.Msg{Type: ref9p.Twalk, Fid: a.Fid, Newfid: a.Newfid, Wname: a.Names}
	case "open":
		return &ref9p.Msg{Type: ref9p.Topen, Fid: a.Fid, Mode: a.Mode}
	case "create":
		return &ref9p.Msg{Type: ref9p.Tcreate, Fid: a.Fid, Name: fmt.Sprintf("fn%d", seq), Perm: a.Perm, Mode: a.Mode}
	case "read":
		return &ref9p.Msg{Type: ref9p.Tread, Fid: a.Fid, Offset: uint64(seq) << 12, Count: a.Count}
	case "write":
		return &ref9p.Msg{Type: ref9p.Twrite, Fid: a.Fid, Offset: uint64(seq) << 12, Data: script.PRF("w", int(a.Count%512))}
	case "stat":
		return &ref9p.Msg{Type: ref9p.Tstat, Fid: a.Fid}
	case "wstat":
		st := ref9p.Stat{Type: 0xFFFF, Dev: 0xFFFFFFFF, Mode: 0xFFFFFFFF, Atime: 0xFFFFFFFF, Mtime: 0xFFFFFFFF, Length: 0xFFFFFFFFFFFFFFFF, Name: fmt.Sprintf("r%d", seq)}
		return &ref9p.Msg{Type: ref9p.Twstat, Fid: a.Fid, Stat: st}
	case "clunk":
		return &ref9p.Msg{Type: ref9p.Tclunk, Fid: a.Fid}
	case "remove":
		return &ref9p.Msg{Type: ref9p.Tremove, Fid: a.Fid}
	}
	return nil
}

func verFrame(dotu bool) []byte {
	v := "9P2000"
	if dotu {
		v = "9P2000.u"
	}
	return ref9p.Encode(&ref9p.Msg{Type: ref9p.Tversion, Tag: ref9p.NOTAG, Msize: 8192, Version: v}, false)
}

// frames returns the byte stream of the victim: frame 0 is Tversion, frame
// i+1 is history[i] with tag i+1 (the tags the sequential client assigns).
func (c *Case) frames() [][]byte {
	out := [][]byte{verFrame(c.Dotu)}
	if c.Variant == "ufs" {
		for i := range c.Ops {
			m := c.Ops[i].msg()
			m.Tag = uint16(i + 1)
			out = append(out, ref9p.Encode(m, c.Dotu))
		}
		return out
	}
	for i := range c.History {
		m := c.History[i].msg(i)
		if m == nil {
			// "unpark" sends nothing: an empty frame keeps frame k+1 = act k
			out = append(out, nil)
			continue
		}
		m.Tag = uint16(i + 1)
		out = append(out, ref9p.Encode(m, c.Dotu))
	}
	return out
}

func streamLen(fr [][]byte) int {
	n := 0
	for _, f := range fr {
		n += len(f)
	}
	return n
}

// locate splits a cut offset into (complete frames, bytes of the next frame).
func locate(fr [][]byte, cut int) (k, p int) {
	if cut < 0 {
		cut = 0
	}
	for k = 0; k < len(fr); k++ {
		if cut < len(fr[k]) {
			return k, cut
		}
		cut -= len(fr[k])
	}
	return len(fr), 0
}

// ---------------------------------------------------------------------------
// execution wrapper

type result struct {
	validAtCut int
	effective  int // flights that were really executing at the cut
	midFrame   bool
	openFds    int
	labels     []string
}

type hangError struct{ msg string }

func (h *hangError) Error() string { return h.msg }

func execute(test string, c *Case) error {
	hx.Journal(test, c)
	hx.Eval()
	hx.Sample(test, c)
	var res result
	var err error
	if c.Variant == "ufs" {
		err = runUfs(c, &res)
	} else if c.Variant == "ufsx" {
		err = runUfsX(c, &res)
	} else {
		err = runScript(c, &res)
	}
	for _, l := range res.labels {
		hx.Label(l)
	}
	hx.Label("variant=" + c.Variant + " kind=" + c.Kind)
	if res.midFrame {
		hx.Label("cut mid-frame")
	} else {
		hx.Label("cut at frame boundary")
	}
	hx.Label(fmt.Sprintf("executing at the cut=%d", res.effective))
	if c.Variant == "script" {
		hx.Label(fmt.Sprintf("maxpend=%d", c.Maxpend))
	}
	if res.validAtCut > 0 || res.effective > 0 || res.openFds > 0 {
		b, _ := json.Marshal(c)
		hx.NonTrivial(b)
	}
	var h *hangError
	if errors.As(err, &h) {
		// a deadline in the harness's own prologue (before the cut) without a
		// goroutine stuck inside go9p is infrastructure trouble
		if blocked := hx.BlockedInGo9p(); blocked != "" {
			return fmt.Errorf("%v; goroutines blocked inside go9p:\n%s", err, blocked)
		}
		hx.Inconclusive(err.Error())
		return nil
	}
	return err
}

// ---------------------------------------------------------------------------
// generators

var names = []string{"d1", "d2", "f1", "x1", "l1", ".."}

func genAct(t *rapid.T, auth bool) Act {
	var a Act
	a.Kind = rapid.SampledFrom([]string{"attach", "attach", "auth", "walk", "walk", "walk", "walk", "open", "open", "create", "read", "write", "stat", "wstat", "clunk", "remove"}).Draw(t, "kind")
	a.Fid = rapid.SampledFrom([]uint32{0, 0, 1, 1, 2, 3, 0xFFFFFFFE, ref9p.NOFID}).Draw(t, "fid")
	a.Err = rapid.IntRange(0, 5).Draw(t, "err") == 0
	switch a.Kind {
	case "attach":
		a.Afid = rapid.OneOf(rapid.Just(uint32(ref9p.NOFID)), rapid.Just(uint32(ref9p.NOFID)), rapid.SampledFrom(Universe)).Draw(t, "afid")
		a.User = rapid.SampledFrom([]string{"alice", "bob", "root", "mallory"}).Draw(t, "user")
		a.Aname = rapid.SampledFrom([]string{"", "tree", "deny-me"}).Draw(t, "aname")
	case "auth":
		a.Afid = a.Fid
		a.User = rapid.SampledFrom([]string{"alice", "bob", "mallory"}).Draw(t, "user")
		a.Aname = rapid.SampledFrom([]string{"", "tree"}).Draw(t, "aname")
	case "walk":
		a.Newfid = rapid.OneOf(rapid.Just(a.Fid), rapid.SampledFrom(Universe), rapid.SampledFrom(Universe)).Draw(t, "newfid")
		a.Names = rapid.SliceOfN(rapid.SampledFrom(names), 0, 3).Draw(t, "names")
	case "open":
		a.Mode = rapid.SampledFrom([]uint8{0, 0, 1, 2, 3, 16, 0x11, 0x40}).Draw(t, "mode")
	case "create":
		a.Mode = rapid.SampledFrom([]uint8{0, 1, 2}).Draw(t, "mode")
		a.Perm = rapid.SampledFrom([]uint32{0o644, 0x80000000 | 0o755, 0x02000000 | 0o777}).Draw(t, "perm")
	case "read", "write":
		a.Count = rapid.SampledFrom([]uint32{0, 1, 100, 8168, 8169}).Draw(t, "count")
	}
	return a
}

var flightKinds = []string{"stat", "read", "write", "open", "create", "wstat", "clunk", "clunk", "remove", "remove", "walk", "walk", "walk", "walkinplace", "attach", "attach", "auth"}

func genFlight(t *rapid.T) Flight {
	f := Flight{Kind: rapid.SampledFrom(flightKinds).Draw(t, "fkind")}
	f.FidSel = rapid.IntRange(0, 5).Draw(t, "fidsel")
	f.NewSel = rapid.IntRange(0, 5).Draw(t, "newsel")
	f.Raw = rapid.IntRange(0, 5).Draw(t, "raw") == 0
	f.Err = rapid.IntRange(0, 3).Draw(t, "ferr") == 0
	f.Async = rapid.IntRange(0, 4).Draw(t, "async") == 0
	f.Dup = rapid.IntRange(0, 5).Draw(t, "dup") == 0
	f.Late = rapid.IntRange(0, 3).Draw(t, "late") == 0
	switch f.Kind {
	case "walk", "walkinplace":
		f.Names = rapid.SliceOfN(rapid.SampledFrom(names), 0, 3).Draw(t, "fnames")
	case "open":
		f.Mode = rapid.SampledFrom([]uint8{0, 0, 1, 2}).Draw(t, "fmode")
	case "create":
		f.Mode = rapid.SampledFrom([]uint8{0, 1, 2}).Draw(t, "fmode")
		f.Perm = rapid.SampledFrom([]uint32{0o644, 0x80000000 | 0o755}).Draw(t, "fperm")
	case "read", "write":
		f.Count = rapid.SampledFrom([]uint32{0, 1, 100}).Draw(t, "fcount")
	}
	return f
}

// harmless: the request neither creates nor drops a fid whatever it is
// answered (used to steer around FindCloseVsInflight while it is listed).
func (f *Flight) harmless() bool {
	switch f.Kind {
	case "stat", "read", "write", "open", "create", "wstat", "walkinplace":
		return !f.Late
	}
	return false
}

func genPark(t *rapid.T) Act {
	return Act{Kind: "park",
		Fid:   rapid.SampledFrom([]uint32{0, 1, 1, 2, 3, 0xFFFFFFFE}).Draw(t, "pfid"),
		Op:    rapid.SampledFrom([]string{"wstat", "wstat", "read", "write"}).Draw(t, "pop"),
		Count: rapid.SampledFrom([]uint32{0, 1, 100}).Draw(t, "pcount"),
		Err:   rapid.IntRange(0, 4).Draw(t, "perr") == 0,
	}
}

// genReuse: a fid number changes hands while an earlier request on it is
// still parked inside the implementation: (make F valid,) park a request on F,
// clunk/remove F, bind F again (walk or attach), maybe open/create through it,
// and release the parked request, with drawn acts in between. Where the cut
// falls decides how much of this has happened at the disconnect.
func genReuse(t *rapid.T, c *Case) []Act {
	F := rapid.SampledFrom([]uint32{1, 1, 2, 3, 0, 0xFFFFFFFE}).Draw(t, "rfid")
	var out []Act
	filler := func(label string) {
		if rapid.IntRange(0, 3).Draw(t, label) == 0 {
			out = append(out, genAct(t, c.Auth))
		}
	}
	if F != 0 {
		// refused ("fid already in use") when F is valid already
		out = append(out, Act{Kind: "walk", Fid: 0, Newfid: F, Names: rapid.SampledFrom([][]string{nil, {"f1"}, {"d1"}}).Draw(t, "rsrc")})
	}
	p := genPark(t)
	p.Fid = F
	out = append(out, p)
	filler("fill1")
	out = append(out, Act{Kind: rapid.SampledFrom([]string{"clunk", "clunk", "remove"}).Draw(t, "rkill"), Fid: F, Err: rapid.IntRange(0, 5).Draw(t, "rkillerr") == 0})
	filler("fill2")
	if F == 0 || rapid.IntRange(0, 3).Draw(t, "rattach") == 0 {
		out = append(out, Act{Kind: "attach", Fid: F, Afid: ref9p.NOFID, User: "alice", Aname: "tree"})
	} else {
		out = append(out, Act{Kind: "walk", Fid: 0, Newfid: F, Names: rapid.SampledFrom([][]string{nil, {"f1"}, {"d1"}, {"d1", "f1"}}).Draw(t, "rdst")})
	}
	switch rapid.IntRange(0, 3).Draw(t, "ropen") {
	case 0:
		out = append(out, Act{Kind: "open", Fid: F, Mode: 0})
	case 1:
		out = append(out, Act{Kind: "create", Fid: F, Mode: 2, Perm: 0o644})
	}
	filler("fill3")
	if rapid.IntRange(0, 5).Draw(t, "runpark") > 0 {
		out = append(out, Act{Kind: "unpark", Sel: rapid.IntRange(0, 3).Draw(t, "rsel")})
	}
	return out
}

func genHistory(t *rapid.T, c *Case, max int) {
	n := rapid.IntRange(0, max).Draw(t, "n")
	if rapid.IntRange(0, 9).Draw(t, "prime") > 0 {
		c.History = append(c.History, Act{Kind: "attach", Fid: 0, Afid: ref9p.NOFID, User: "alice"})
		if rapid.Bool().Draw(t, "prime2") {
			c.History = append(c.History, Act{Kind: "walk", Fid: 0, Newfid: 1, Names: []string{"f1"}}, Act{Kind: "open", Fid: 1, Mode: 2})
		}
	}
	reuseAt := -1
	if rapid.IntRange(0, 2).Draw(t, "reuse?") == 0 {
		reuseAt = rapid.IntRange(0, n).Draw(t, "reuseat")
	}
	for i := 0; i <= n; i++ {
		if i == reuseAt {
			c.History = append(c.History, genReuse(t, c)...)
		}
		if i == n {
			break
		}
		switch rapid.IntRange(0, 15).Draw(t, "park?") {
		case 0:
			c.History = append(c.History, genPark(t))
		case 1:
			c.History = append(c.History, Act{Kind: "unpark", Sel: rapid.IntRange(0, 3).Draw(t, "sel")})
		default:
			c.History = append(c.History, genAct(t, c.Auth))
		}
	}
}

func genConfig(t *rapid.T) *Case {
	return &Case{
		Variant: "script",
		Dotu:    rapid.Bool().Draw(t, "dotu"),
		Auth:    rapid.IntRange(0, 3).Draw(t, "auth") == 0,
		Maxpend: rapid.SampledFrom([]int{0, 16}).Draw(t, "maxpend"),
		Kind:    rapid.SampledFrom([]string{"eof", "eof", "err", "err", "half"}).Draw(t, "cutkind"),
		Sched:   rapid.SampledFrom([]string{"closefirst", "closefirst", "respfirst", "mid", "slowdestroy", "slowdestroy", "slowclosed"}).Draw(t, "sched"),
	}
}

func genFlights(t *rapid.T, c *Case, max int, enum bool) {
	nf := rapid.SampledFrom([]int{0, 1, 1, 2, 2, 3, 3, 4}).Draw(t, "nflights")
	if nf > max {
		nf = max
	}
	for i := 0; i < nf; i++ {
		c.Flights = append(c.Flights, genFlight(t))
	}
	c.Order = rapid.Permutation(seqInts(nf)).Draw(t, "order")
	steer(t, c, enum)
}

// steer keeps the search going behind the listed findings: most cases that
// would only re-observe a listed finding are moved next to it (counted).
// In the enumerations (hundreds of cuts per drawn history) they always are.
func steer(t *rapid.T, c *Case, enum bool) {
	if len(c.Flights) == 0 {
		return
	}
	if hx.IsKnown(FindRespondBlocks) && c.Maxpend == 0 {
		if enum || rapid.IntRange(0, 15).Draw(t, "keepA") > 0 {
			c.Maxpend = 16
			hx.Excluded(FindRespondBlocks)
		}
	}
	if hx.IsKnown(FindCloseVsInflight) {
		risky := false
		for i := range c.Flights {
			if !c.Flights[i].harmless() {
				risky = true
			}
		}
		if risky && (enum || rapid.IntRange(0, 7).Draw(t, "keepB") > 0) {
			for i := range c.Flights {
				f := &c.Flights[i]
				if !f.harmless() {
					f.Late = false
					f.Kind = []string{"stat", "read", "open", "wstat", "walkinplace"}[(f.FidSel+f.NewSel)%5]
					f.Err = false
				}
			}
			hx.Excluded(FindCloseVsInflight)
		}
	}
}

func seqInts(n int) []int {
	s := make([]int, n)
	for i := range s {
		s[i] = i
	}
	return s
}

func perms(n int) [][]int {
	var out [][]int
	var rec func(cur []int, used int)
	rec = func(cur []int, used int) {
		if len(cur) == n {
			out = append(out, append([]int(nil), cur...))
			return
		}
		for i := 0; i < n; i++ {
			if used&(1<<i) == 0 {
				rec(append(cur, i), used|1<<i)
			}
		}
	}
	rec(nil, 0)
	return out
}

// drawCut draws a cut: a frame boundary or an offset inside a frame.
func drawCut(t *rapid.T, fr [][]byte) int {
	k := rapid.IntRange(0, len(fr)).Draw(t, "cutframe")
	if rapid.IntRange(0, 3).Draw(t, "tail") == 0 {
		k = len(fr) // after the whole history
	}
	off := 0
	for i := 0; i < k && i < len(fr); i++ {
		off += len(fr[i])
	}
	if k >= len(fr) || len(fr[k]) < 2 || rapid.Bool().Draw(t, "boundary") {
		return off // (an "unpark" act has no frame to cut through)
	}
	l := len(fr[k])
	p := rapid.OneOf(rapid.SampledFrom([]int{1, 2, 3, 4, 5, 6, 7, 8, l - 1, l - 2}), rapid.IntRange(1, l-1)).Draw(t, "p")
	if p >= l {
		p = l - 1
	}
	if p < 1 {
		p = 1
	}
	return off + p
}

// TestPropDisconnect: one drawn disconnect per history, with requests still
// executing; every release order when at most three requests are parked.
func TestPropDisconnect(t *testing.T) {
	hx.Check(t, "disconnect", hx.N(60, 1500), func(t *rapid.T) {
		c := genConfig(t)
		genHistory(t, c, 10)
		c.Cut = drawCut(t, c.frames())
		genFlights(t, c, 4, false)
		if rapid.IntRange(0, 9).Draw(t, "burst?") == 0 {
			c.Burst = rapid.IntRange(20, 200).Draw(t, "burst")
			switch {
			case hx.IsKnown(FindCloseVsInflight):
				// the unlocked walk over the fid table can kill the process
				c.Burst = 0
				hx.Excluded(FindCloseVsInflight)
			case hx.IsKnown(FindRespondBlocks) && c.Maxpend == 0:
				c.Burst = 0
				hx.Excluded(FindRespondBlocks)
			}
		}
		orders := [][]int{c.Order}
		if n := len(c.Flights); n >= 2 && n <= 3 {
			orders = perms(n)
		}
		for _, o := range orders {
			cc := *c
			cc.Order = o
			if err := execute("disconnect", &cc); err != nil {
				hx.Failf(t, "disconnect", &cc, "%v", err)
			}
		}
	})
}

// TestPropBurst: the disconnect races with a burst of independent requests
// whose replies are being handed to the writer (20..200 walks written in one
// piece right before the cut, on a short history, at most one further request
// parked): which of them have finished, are being answered or have not started
// when the writer stops is left to the scheduler, so the class is drawn often.
func TestPropBurst(t *testing.T) {
	if hx.IsKnown(FindCloseVsInflight) || hx.IsKnown(FindRespondBlocks) {
		return // (steered around in TestPropDisconnect as well)
	}
	hx.Check(t, "burst", hx.N(40, 400), func(t *rapid.T) {
		c := genConfig(t)
		c.History = []Act{{Kind: "attach", Fid: 0, Afid: ref9p.NOFID, User: "alice"}}
		if rapid.Bool().Draw(t, "prime2") {
			c.History = append(c.History, Act{Kind: "walk", Fid: 0, Newfid: 1, Names: []string{"f1"}}, Act{Kind: "open", Fid: 1, Mode: 2})
		}
		c.Cut = streamLen(c.frames())
		genFlights(t, c, 1, false)
		c.Burst = rapid.IntRange(20, 200).Draw(t, "burst")
		if err := execute("burst", c); err != nil {
			hx.Failf(t, "burst", c, "%v", err)
		}
	})
}

// TestEnumPrefixes: for a drawn history, disconnect after EVERY prefix of its
// byte stream (all frame boundaries and all mid-frame offsets), by EOF and by
// error, with the drawn set of requests executing at that moment.
func TestEnumPrefixes(t *testing.T) {
	maxStream := 260
	if hx.Thorough() {
		maxStream = 420
	}
	hx.Check(t, "prefixes", hx.N(2, 20), func(t *rapid.T) {
		c := genConfig(t)
		genHistory(t, c, 6)
		// every offset is enumerated: keep the frames short
		for i := range c.History {
			if c.History[i].Kind == "write" && c.History[i].Count > 33 {
				c.History[i].Count = 33
			}
		}
		for streamLen(c.frames()) > maxStream && len(c.History) > 1 {
			c.History = c.History[:len(c.History)-1]
		}
		genFlights(t, c, 3, true)
		total := streamLen(c.frames())
		for cut := 0; cut <= total; cut++ {
			for _, kind := range []string{"eof", "err"} {
				cc := *c
				cc.Cut, cc.Kind = cut, kind
				if err := execute("prefixes", &cc); err != nil {
					hx.Failf(t, "prefixes", &cc, "%v", err)
				}
			}
		}
		hx.ExtraAdd("histories_with_every_prefix_cut", 1)
	})
	hx.Exhaustive("per drawn history: every byte offset 0..len of the stream Tversion+history (frame boundaries and all mid-frame offsets) x {EOF, read/write error}")
}

// orderMenu: requests that can execute concurrently on the fixed state
// {0: dir, 1: open file, 2: dir, 3: free}.
var orderMenu = []Flight{
	{Kind: "stat", FidSel: 0},
	{Kind: "clunk", FidSel: 1},
	{Kind: "remove", FidSel: 2},
	{Kind: "walk", FidSel: 0, NewSel: 0, Names: []string{"d2"}},
	{Kind: "walk", FidSel: 0, NewSel: 1, Names: []string{"x1"}},
	{Kind: "attach", NewSel: 2},
	{Kind: "attach", NewSel: 2, Late: true},
}

// TestEnumOrders: every ordered selection of up to three (thorough: also one
// set of four) requests of the menu parked at the cut, i.e. every held set
// with every release order, x Maxpend x cut kind x schedule.
func TestEnumOrders(t *testing.T) {
	base := []Act{
		{Kind: "attach", Fid: 0, Afid: ref9p.NOFID, User: "alice"},
		{Kind: "walk", Fid: 0, Newfid: 1, Names: []string{"f1"}},
		{Kind: "open", Fid: 1, Mode: 2},
		{Kind: "walk", Fid: 0, Newfid: 2, Names: []string{"d1"}},
	}
	var sels [][]int
	var rec func(cur []int, used int, max int)
	rec = func(cur []int, used int, max int) {
		sels = append(sels, append([]int(nil), cur...))
		if len(cur) == max {
			return
		}
		for i := range orderMenu {
			if used&(1<<i) == 0 {
				// the two attaches name the same new fid: never together
				if (i == 5 && used&(1<<6) != 0) || (i == 6 && used&(1<<5) != 0) {
					continue
				}
				rec(append(cur, i), used|1<<i, max)
			}
		}
	}
	rec(nil, 0, 3)
	if hx.Thorough() {
		for _, p := range perms(4) {
			sels = append(sels, []int{p[0], p[1], p[2], p[3]})
		}
	}
	idx := 0
	for _, sel := range sels {
		for _, mp := range []int{0, 16} {
			for _, kind := range []string{"eof", "err"} {
				for _, sc := range []string{"closefirst", "respfirst", "mid", "slowdestroy", "slowclosed"} {
					idx++
					if hx.NShards > 1 && idx%hx.NShards != hx.Shard {
						continue
					}
					if !hx.Thorough() && (idx/hx.NShards)%4 != int(hx.Seed%4) {
						continue
					}
					if hx.IsKnown(FindRespondBlocks) && mp == 0 && len(sel) > 0 && idx%16 != 0 {
						hx.Excluded(FindRespondBlocks)
						continue
					}
					c := &Case{Variant: "script", Dotu: idx%2 == 0, Maxpend: mp, Kind: kind, Sched: sc, History: base}
					c.Cut = streamLen(c.frames())
					for _, i := range sel {
						c.Flights = append(c.Flights, orderMenu[i])
					}
					c.Order = seqInts(len(sel))
					if err := execute("orders", c); err != nil {
						hx.Violation("orders", c, err.Error())
						t.Fatalf("selection %v maxpend %d %s %s: %v", sel, mp, kind, sc, err)
					}
				}
			}
		}
	}
	if hx.Thorough() {
		hx.Exhaustive("every ordered selection of 0..3 of 7 menu requests (clunk, remove, stat, full walk, failing walk, attach, late attach) parked at the cut = every held set x every release order, plus all 24 orders of one set of 4, x Maxpend {0,16} x {EOF, error} x 5 schedules")
	}
}

// ---------------------------------------------------------------------------
// flight resolution against the reference fid table at the cut

type liveFlight struct {
	idx   int
	f     *Flight
	m     *ref9p.Msg
	key   string
	tag   uint16
	who   string
	late  bool
	state string // "dropped", "refused", "executing"
	incs  []int  // incarnations the implementation was shown by this request
}

func (f *Flight) resolve(seq int, fids map[uint32]*model.Fid) *ref9p.Msg {
	var valid, free []uint32
	for _, u := range FUniverse {
		if fids[u] != nil {
			valid = append(valid, u)
		} else {
			free = append(free, u)
		}
	}
	sort.Slice(valid, func(i, j int) bool { return valid[i] < valid[j] })
	pick := func(l []uint32, sel int) uint32 {
		if f.Raw || len(l) == 0 {
			return Universe[sel%len(Universe)]
		}
		return l[sel%len(l)]
	}
	a := Act{Kind: f.Kind, Names: f.Names, Mode: f.Mode, Perm: f.Perm, Count: f.Count}
	switch f.Kind {
	case "attach":
		a.Fid, a.Afid, a.User, a.Aname = pick(free, f.NewSel), ref9p.NOFID, "bob", fmt.Sprintf("fl%d", seq)
	case "auth":
		a.Afid, a.User, a.Aname = pick(free, f.NewSel), "bob", fmt.Sprintf("fl%d", seq)
		a.Fid = a.Afid
	case "walk":
		a.Fid, a.Newfid = pick(valid, f.FidSel), pick(free, f.NewSel)
	case "walkinplace":
		a.Kind = "walk"
		a.Fid = pick(valid, f.FidSel)
		a.Newfid = a.Fid
	default:
		a.Fid = pick(valid, f.FidSel)
	}
	return a.msg(seq)
}
