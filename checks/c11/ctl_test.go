package c11

// Schedule-point controller (verif build tag hook) and goroutine-dump helpers.
//
// Requests are identified by (connection id, tag): the harness gives every
// request of a connection a fresh tag, so the identity does not depend on the
// request's content (internal/sched identifies by content, which is ambiguous
// for histories that repeat a request).

import (
	"fmt"
	"runtime"
	"strconv"
	"strings"
	"sync"
	"time"

	"github.com/rminnich/go9p"
)

type hold struct {
	who, at        string
	uwho, upoint   string
	timeout        time.Duration
	applied, force bool
}

type ctl struct {
	mu     sync.Mutex
	cond   *sync.Cond
	seen   map[string]int
	holds  []*hold
	forced int
	closed bool
}

func newCtl() *ctl {
	c := &ctl{seen: map[string]int{}}
	c.cond = sync.NewCond(&c.mu)
	return c
}

func reqWho(conn string, tag uint16) string { return fmt.Sprintf("%s#%d", conn, tag) }
func connWho(conn string) string            { return "conn:" + conn }

func (c *ctl) hook(point string, obj interface{}) {
	var who string
	switch o := obj.(type) {
	case *go9p.SrvReq:
		if o == nil || o.Tc == nil || o.Conn == nil {
			return
		}
		who = reqWho(o.Conn.Id, o.Tc.Tag)
	case *go9p.Conn:
		who = connWho(o.Id)
	default:
		return
	}
	c.mu.Lock()
	defer c.mu.Unlock()
	c.seen[who+"@"+point]++
	c.cond.Broadcast()
	for _, h := range c.holds {
		if h.who != who || h.at != point || h.applied {
			continue
		}
		h.applied = true
		ev := h.uwho + "@" + h.upoint
		deadline := time.Now().Add(h.timeout)
		timer := time.AfterFunc(h.timeout, func() { c.mu.Lock(); c.cond.Broadcast(); c.mu.Unlock() })
		for c.seen[ev] == 0 && !c.closed {
			if time.Now().After(deadline) {
				c.forced++
				h.force = true
				break
			}
			c.cond.Wait()
		}
		timer.Stop()
	}
}

// addHold: the goroutine of who stops at point at until uwho has passed upoint
// (or the timeout expires: a forced release only changes which schedule was
// explored, never a verdict).
func (c *ctl) addHold(who, at, uwho, upoint string, timeout time.Duration) {
	c.mu.Lock()
	c.holds = append(c.holds, &hold{who: who, at: at, uwho: uwho, upoint: upoint, timeout: timeout})
	c.mu.Unlock()
}

func (c *ctl) count(who, point string) int {
	c.mu.Lock()
	defer c.mu.Unlock()
	return c.seen[who+"@"+point]
}

// wait waits until who has passed point at least n times.
func (c *ctl) wait(who, point string, n int, d time.Duration) bool {
	ev := who + "@" + point
	deadline := time.Now().Add(d)
	timer := time.AfterFunc(d, func() { c.mu.Lock(); c.cond.Broadcast(); c.mu.Unlock() })
	defer timer.Stop()
	c.mu.Lock()
	defer c.mu.Unlock()
	for c.seen[ev] < n {
		if time.Now().After(deadline) {
			return false
		}
		c.cond.Wait()
	}
	return true
}

func (c *ctl) install() func() {
	f := c.hook
	go9p.VerifHook.Store(&f)
	return func() {
		go9p.VerifHook.Store(nil)
		c.mu.Lock()
		c.closed = true
		c.cond.Broadcast()
		c.mu.Unlock()
	}
}

func (c *ctl) forcedCount() int {
	c.mu.Lock()
	defer c.mu.Unlock()
	return c.forced
}

// waitFor polls cond until it holds or d has passed.
func waitFor(d time.Duration, cond func() bool) bool {
	deadline := time.Now().Add(d)
	for i := 0; ; i++ {
		if cond() {
			return true
		}
		if time.Now().After(deadline) {
			return false
		}
		switch {
		case i < 20:
			runtime.Gosched()
		case i < 60:
			time.Sleep(50 * time.Microsecond)
		default:
			time.Sleep(500 * time.Microsecond)
		}
	}
}

// settle waits until cond holds. The statement's "ends once the executing
// requests return" is polled for `quiesce`; after that only goroutines that
// are PARKED count: while one of the goroutines returned by left is running or
// runnable (a starved machine) the wait goes on, up to ten times as long.
func settle(cond func() bool, left func() []gor) bool {
	for round := 0; round < 10; round++ {
		if waitFor(quiesce, cond) {
			return true
		}
		busy := false
		for _, g := range left() {
			if g.state == "running" || g.state == "runnable" {
				busy = true
			}
		}
		if !busy {
			return false
		}
	}
	return false
}

// ---------------------------------------------------------------------------
// goroutine dump

const libPrefix = "github.com/rminnich/go9p."

type gor struct {
	id    int
	state string
	funcs []string // function lines, innermost first
	text  string
}

var dumpBuf = make([]byte, 1<<18)

func dumpAll() []gor {
	for {
		n := runtime.Stack(dumpBuf, true)
		if n < len(dumpBuf) {
			return parseDump(string(dumpBuf[:n]))
		}
		dumpBuf = make([]byte, 2*len(dumpBuf))
	}
}

func parseDump(s string) []gor {
	var out []gor
	for _, blk := range strings.Split(s, "\n\n") {
		head, rest, _ := strings.Cut(blk, "\n")
		if !strings.HasPrefix(head, "goroutine ") {
			continue
		}
		f := strings.Fields(head)
		if len(f) < 3 {
			continue
		}
		id, err := strconv.Atoi(f[1])
		if err != nil {
			continue
		}
		g := gor{id: id, text: blk}
		if i := strings.Index(head, "["); i >= 0 {
			g.state = strings.TrimSuffix(strings.TrimSpace(head[i+1:]), "]:")
		}
		for _, l := range strings.Split(rest, "\n") {
			if l == "" || strings.HasPrefix(l, "\t") || strings.HasPrefix(l, "created by ") {
				continue
			}
			g.funcs = append(g.funcs, l)
		}
		out = append(out, g)
	}
	return out
}

// servesConn: the goroutine has a frame inside go9p (the logger excepted).
// On the server side these are exactly the goroutines started by NewConn
// ((*Conn).recv, (*Conn).send), by recv/Respond ((*SrvReq).process) and
// goroutines of the implementation that are inside (*SrvReq).Respond.
func (g *gor) servesConn() bool {
	lib := false
	for _, f := range g.funcs {
		if strings.HasPrefix(f, libPrefix) {
			if strings.Contains(f, "(*Logger).doLog") {
				return false
			}
			lib = true
		}
	}
	return lib
}

// innerLib returns the innermost frame that is not a runtime/sync frame.
func (g *gor) inner() string {
	for _, f := range g.funcs {
		if strings.HasPrefix(f, "runtime.") || strings.HasPrefix(f, "sync.") || strings.HasPrefix(f, "internal/") || strings.HasPrefix(f, "time.") {
			continue
		}
		return f
	}
	return ""
}

// stuckInRespondSend: parked on the channel send inside (*SrvReq).Respond.
func (g *gor) stuckInRespondSend() bool {
	return strings.HasPrefix(g.state, "chan send") && strings.HasPrefix(g.inner(), libPrefix+"(*SrvReq).Respond(")
}

func (g *gor) kind() string {
	for _, f := range g.funcs {
		for _, k := range []string{"(*Conn).recv", "(*Conn).send", "(*SrvReq).process", "(*SrvReq).Respond"} {
			if strings.HasPrefix(f, libPrefix+k+"(") {
				return k
			}
		}
	}
	return "other"
}

// libGors returns the goroutines currently serving a connection, by id.
func libGors() map[int]gor {
	m := map[int]gor{}
	for _, g := range dumpAll() {
		if g.servesConn() {
			m[g.id] = g
		}
	}
	return m
}

func short(g gor) string {
	var b strings.Builder
	fmt.Fprintf(&b, "goroutine %d [%s]:", g.id, g.state)
	n := 0
	for _, f := range g.funcs {
		if strings.HasPrefix(f, "runtime.") {
			continue
		}
		if i := strings.Index(f, "("); i > 0 {
			// keep receiver type, drop argument values
			if j := strings.LastIndex(f, "("); j > i {
				f = f[:j]
			}
		}
		fmt.Fprintf(&b, " %s <-", strings.TrimPrefix(f, libPrefix))
		n++
		if n >= 6 {
			break
		}
	}
	return strings.TrimSuffix(b.String(), " <-")
}

// closeSettled waits (schedule only, never a verdict) until the connection's
// close has finished, or is observed parked (an implementation may let close
// wait for the requests that are still executing), or d has passed.
func closeSettled(k *ctl, conn string, d time.Duration) bool {
	deadline := time.Now().Add(d)
	for i := 0; ; i++ {
		if k.count(connWho(conn), "close.exit") > 0 {
			return true
		}
		if i%6 == 5 {
			for _, g := range dumpAll() {
				if g.state == "running" || g.state == "runnable" {
					continue
				}
				for _, f := range g.funcs {
					if strings.HasPrefix(f, libPrefix+"(*Conn).close(") {
						return false
					}
				}
			}
		}
		if time.Now().After(deadline) {
			return false
		}
		if i < 10 {
			runtime.Gosched()
		} else {
			time.Sleep(50 * time.Microsecond)
		}
	}
}
