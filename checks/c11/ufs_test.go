package c11

import "verif/internal/ref9p"

type UOp struct {
	Kind string `json:"kind"`
}

func (o *UOp) msg() *ref9p.Msg { return &ref9p.Msg{Type: ref9p.Tstat} }

func runUfs(c *Case, res *result) error { return nil }
