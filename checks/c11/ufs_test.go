package c11

// Second variant: the Unix file server (Ufs) on a scratch tree. After the
// victim is gone, no descriptor of this process may point into the exported
// tree (the bystander holds no file open).

import (
	"errors"
	"fmt"
	"os"
	"path/filepath"
	"runtime/debug"
	"sort"
	"strings"
	"syscall"
	"testing"
	"time"

	"github.com/rminnich/go9p"
	"pgregory.net/rapid"
	"verif/internal/hx"
	"verif/internal/rawc"
	"verif/internal/ref9p"
	"verif/internal/ufsrv"
	"verif/internal/xport"
)

// UOp is one request of the victim against Ufs. Fid 0 is the attach point.
type UOp struct {
	Kind   string   `json:"kind"` // attach walk open create read clunk remove | fifo late (executing at the cut)
	Fid    uint32   `json:"fid"`
	Newfid uint32   `json:"newfid,omitempty"`
	Names  []string `json:"names,omitempty"`
	Mode   uint8    `json:"mode,omitempty"`
	Name   string   `json:"name,omitempty"`
	Perm   uint32   `json:"perm,omitempty"`
	Count  uint32   `json:"count,omitempty"`
	// requests naming a second fid: kind "link" = Tcreate with DMLINK whose
	// extension is the decimal fid number Afid; kind "attachafid" = Tattach of
	// Fid with afid Afid
	Afid uint32 `json:"afid,omitempty"`
	Ext  string `json:"ext,omitempty"`
}

func (o *UOp) msg() *ref9p.Msg {
	switch o.Kind {
	case "attach":
		return &ref9p.Msg{Type: ref9p.Tattach, Fid: o.Fid, Afid: ref9p.NOFID, Uname: "root", Aname: "", Nuname: 0}
	case "walk":
		return &ref9p.Msg{Type: ref9p.Twalk, Fid: o.Fid, Newfid: o.Newfid, Wname: o.Names}
	case "open", "fifo", "late":
		return &ref9p.Msg{Type: ref9p.Topen, Fid: o.Fid, Mode: o.Mode}
	case "create", "link":
		return &ref9p.Msg{Type: ref9p.Tcreate, Fid: o.Fid, Name: o.Name, Perm: o.Perm, Mode: o.Mode, Ext: o.Ext}
	case "attachafid":
		return &ref9p.Msg{Type: ref9p.Tattach, Fid: o.Fid, Afid: o.Afid, Uname: "root", Aname: "", Nuname: 0}
	case "read":
		return &ref9p.Msg{Type: ref9p.Tread, Fid: o.Fid, Offset: 0, Count: o.Count}
	case "clunk":
		return &ref9p.Msg{Type: ref9p.Tclunk, Fid: o.Fid}
	case "remove":
		return &ref9p.Msg{Type: ref9p.Tremove, Fid: o.Fid}
	}
	return &ref9p.Msg{Type: ref9p.Tstat, Fid: o.Fid}
}

var uDirs = []string{"d0", "d1", "d2"}
var uFiles = []string{"a", "b", "c", "d0/f0", "d0/f1", "d0/f2", "d1/f0", "d1/f1", "d2/f0", "d2/f1"}
var uFifos = []string{"p0", "p1"}

func mkTree() (string, error) {
	root, err := os.MkdirTemp("", "c11-ufs-")
	if err != nil {
		return "", err
	}
	root, _ = filepath.EvalSymlinks(root)
	for _, d := range append([]string{"by"}, uDirs...) {
		if err := os.Mkdir(filepath.Join(root, d), 0o755); err != nil {
			return root, err
		}
	}
	for _, f := range append([]string{"by/x"}, uFiles...) {
		if err := os.WriteFile(filepath.Join(root, f), []byte("contents of "+f+"\n"), 0o644); err != nil {
			return root, err
		}
	}
	for _, p := range uFifos {
		if err := syscall.Mkfifo(filepath.Join(root, p), 0o644); err != nil {
			return root, err
		}
	}
	return root, nil
}

// fdsInto lists the descriptors of this process that point into root.
func fdsInto(root string) []string {
	ents, err := os.ReadDir("/proc/self/fd")
	if err != nil {
		return []string{"harness: cannot read /proc/self/fd: " + err.Error()}
	}
	var out []string
	for _, e := range ents {
		t, err := os.Readlink("/proc/self/fd/" + e.Name())
		if err != nil {
			continue
		}
		t = strings.TrimSuffix(t, " (deleted)")
		if t == root || strings.HasPrefix(t, root+"/") {
			if t == root {
				out = append(out, "/ (the exported root)")
			} else {
				out = append(out, strings.TrimPrefix(t, root))
			}
		}
	}
	sort.Strings(out)
	return out
}

func (b *bystander) setupUfs() error {
	steps := []*ref9p.Msg{
		{Type: ref9p.Tattach, Fid: 20, Afid: ref9p.NOFID, Uname: "root", Aname: "", Nuname: 0},
		{Type: ref9p.Twalk, Fid: 20, Newfid: 21, Wname: []string{"by"}},
		{Type: ref9p.Twalk, Fid: 20, Newfid: 22, Wname: []string{"by", "x"}},
	}
	for _, m := range steps {
		r, err := b.C.RPC(m)
		if err != nil || r.Type != m.Type+1 {
			return fmt.Errorf("bystander setup %s: %v %+v", ref9p.TypeName(m.Type), err, r)
		}
	}
	return nil
}

func (b *bystander) probeUfs(when string) error {
	want := map[uint32]string{21: "by", 22: "x"}
	for _, fid := range []uint32{20, 21, 22, 23} {
		r, err := b.C.RPC(&ref9p.Msg{Type: ref9p.Tstat, Fid: fid})
		if err == rawc.ErrTimeout {
			return &hangError{fmt.Sprintf("bystander not answered within %v (%s the victim's disconnect): Tstat fid %d", hangT, when, fid)}
		}
		if err != nil {
			return fmt.Errorf("bystander disturbed (%s the victim's disconnect): Tstat fid %d: %v", when, fid, err)
		}
		if fid == 23 {
			if r.Type != ref9p.Rerror {
				return fmt.Errorf("bystander disturbed (%s): Tstat of its unknown fid 23 answered %s", when, ref9p.TypeName(r.Type))
			}
			continue
		}
		if r.Type != ref9p.Rstat {
			return fmt.Errorf("bystander disturbed (%s the victim's disconnect): Tstat of its fid %d answered %s %q", when, fid, ref9p.TypeName(r.Type), r.Ename)
		}
		if n, ok := want[fid]; ok && r.Stat.Name != n {
			return fmt.Errorf("bystander disturbed (%s): its fid %d now names %q, want %q", when, fid, r.Stat.Name, n)
		}
	}
	return nil
}

type uflight struct {
	op     *UOp
	tag    uint16
	who    string
	fifo   string // path of the FIFO the open blocks on ("" for late)
	parked bool
}

func runUfs(c *Case, res *result) (err error) {
	root, err := mkTree()
	if root != "" {
		defer os.RemoveAll(root)
	}
	if err != nil {
		return &hangError{"harness: scratch tree: " + err.Error()}
	}
	defer func() {
		// never leave a server goroutine blocked in open(2) on a FIFO
		for _, f := range uFifos {
			if w, e := os.OpenFile(filepath.Join(root, f), os.O_WRONLY|syscall.O_NONBLOCK, 0); e == nil {
				w.Close()
			}
		}
	}()
	defer debug.SetGCPercent(debug.SetGCPercent(-1))
	k := newCtl()
	uninstall := k.install()
	defer uninstall()
	ufsrv.Silence()

	g0 := libGors()
	u := new(go9p.Ufs)
	u.Dotu, u.Id, u.Root, u.Msize, u.Maxpend, u.Log = true, "ufs", root, 8192, c.Maxpend, sharedLog
	uo := newUfsOps(u)
	if !u.Start(uo) {
		return &hangError{"harness: Ufs.Start failed"}
	}
	dial := func(name string) *xport.End { return ufsrv.Conn(u, name) }
	by, err := openBystander(dial, !c.Dotu, "root")
	if err != nil {
		return &hangError{err.Error()}
	}
	defer by.C.Close()
	if err := by.setupUfs(); err != nil {
		return &hangError{err.Error()}
	}
	if err := by.settle(g0); err != nil {
		return err
	}
	g1 := libGors()

	// split the ops: the history proper and the requests executing at the cut
	var hist []UOp
	var fl []*uflight
	for i := range c.Ops {
		switch c.Ops[i].Kind {
		case "fifo", "late":
			fl = append(fl, &uflight{op: &c.Ops[i]})
		default:
			hist = append(hist, c.Ops[i])
		}
	}
	hc := *c
	hc.Ops = hist
	fr := hc.frames()
	kf, p := locate(fr, c.Cut)
	res.midFrame = p > 0
	vid := "c11-vi/harness"
	end := dial("c11-vi")
	defer end.Close()
	vc := rawc.New(end)
	vc.Timeout = hangT
	var waitTags []uint16 // pipelined requests: written, reply not awaited
	if kf >= 1 {
		ver := "9P2000"
		if c.Dotu {
			ver = "9P2000.u"
		}
		if r, err := vc.Version(8192, ver); err != nil || r.Type != ref9p.Rversion {
			return &hangError{fmt.Sprintf("victim Tversion: %v", err)}
		}
		// the last Pipe complete requests are written without waiting for
		// their replies, as far as a client may do that: none of them names a
		// fid that another one of them creates
		seqN := kf - 1
		creates, uses := map[uint32]bool{}, map[uint32]bool{}
		for _, f := range fl {
			uses[f.op.Fid] = true // the requests parked at the cut are outstanding as well
		}
		for seqN > 0 && kf-1-seqN < c.Pipe {
			o := &hist[seqN-1]
			var cr, us []uint32
			switch o.Kind {
			case "attach":
				cr = []uint32{o.Fid}
			case "attachafid":
				cr = []uint32{o.Fid}
				us = []uint32{o.Afid}
			case "link":
				us = []uint32{o.Fid, o.Afid}
				cr = []uint32{o.Fid}
			case "walk":
				us = []uint32{o.Fid}
				cr = []uint32{o.Newfid}
			default:
				us = []uint32{o.Fid}
				if o.Kind != "read" {
					cr = us // open/create/clunk/remove change the fid's state
				}
			}
			conflict := false
			for _, x := range cr {
				conflict = conflict || uses[x] || creates[x]
			}
			for _, x := range us {
				conflict = conflict || creates[x]
			}
			if conflict {
				break
			}
			for _, x := range cr {
				creates[x] = true
			}
			for _, x := range us {
				uses[x] = true
			}
			seqN--
		}
		for i := 0; i < seqN; i++ {
			if _, err := vc.RPC(hist[i].msg()); err != nil {
				return &hangError{fmt.Sprintf("before the cut, op %d (%s): %v", i, hist[i].Kind, err)}
			}
		}
		res.openFds = len(fdsInto(root))
		// requests that are executing when the connection is cut
		for j, f := range fl {
			m := f.op.msg()
			f.tag = uint16(1000 + j)
			m.Tag = f.tag
			f.who = reqWho(vid, f.tag)
			if f.op.Kind == "late" {
				k.addHold(f.who, "process.enter", connWho(vid), "close.exit", lateTimeout)
			}
			before := inUfsOpen()
			if err := vc.Send(m); err != nil {
				return &hangError{"harness: " + err.Error()}
			}
			if f.op.Kind == "late" {
				if !k.wait(f.who, "process.enter", 1, hangT) {
					return &hangError{"late request never reached process.enter"}
				}
				f.parked = true
				continue
			}
			// fifo: wait until a goroutine sits in the open(2) below Ufs.Open,
			// or the request was answered (fid unknown at this cut, not a FIFO …)
			ok := waitFor(hangT, func() bool {
				if k.count(f.who, "respond.posted") > 0 {
					return true
				}
				// (a blocked open left over from an earlier case may be released
				// late and leave open(2) after `before` was taken: the reference
				// is the lowest count seen since)
				c := inUfsOpen()
				if c < before {
					before = c
				}
				if c > before {
					f.parked = true
					return true
				}
				return false
			})
			if !ok {
				return &hangError{fmt.Sprintf("Topen of a FIFO neither blocked nor was answered (goroutines in open(2) below Ufs: %d, lowest since the request was sent: %d)", inUfsOpen(), before)}
			}
		}
		// FIFO path of each parked open: the walk that bound the fid
		for _, f := range fl {
			if f.parked && f.op.Kind == "fifo" {
				for i := 0; i < seqN; i++ {
					if hist[i].Kind == "walk" && hist[i].Newfid == f.op.Fid && len(hist[i].Names) == 1 {
						f.fifo = filepath.Join(root, hist[i].Names[0])
					}
				}
			}
		}
		for i := seqN; i < kf-1; i++ {
			if err := vc.SendRaw(fr[i+1]); err != nil {
				return &hangError{"harness: " + err.Error()}
			}
			waitTags = append(waitTags, uint16(i+1))
		}
	}
	for _, f := range fl {
		if f.parked {
			res.effective++
			res.labels = append(res.labels, "ufs executing at the cut: "+f.op.Kind)
		}
	}
	if len(waitTags) > 0 {
		res.effective += len(waitTags)
		res.labels = append(res.labels, fmt.Sprintf("ufs pipelined=%d", len(waitTags)))
	}
	if p > 0 {
		if _, err := end.Write(fr[kf][:p]); err != nil {
			return &hangError{"harness: " + err.Error()}
		}
	}
	if err := by.probeUfs("before"); err != nil {
		return err
	}

	switch c.Kind {
	case "eof":
		end.Close()
	case "half":
		end.CloseWrite()
	default:
		end.FailPeer(errInjected)
	}
	if closeSettled(k, vid, closeWait) {
		res.labels = append(res.labels, "close finished before the (remaining) requests were released")
	} else {
		res.labels = append(res.labels, "close still in progress when the requests were released")
	}
	if err := by.probeUfs("during"); err != nil {
		return err
	}
	// release the blocked opens: give each FIFO a writer
	for _, f := range fl {
		if !f.parked || f.fifo == "" {
			continue
		}
		var w *os.File
		waitFor(hangT, func() bool {
			if k.count(f.who, "respond.posted") > 0 {
				return true // already released (a writer of an earlier case of this FIFO)
			}
			var e error
			w, e = os.OpenFile(f.fifo, os.O_WRONLY|syscall.O_NONBLOCK, 0)
			return e == nil
		})
		k.wait(f.who, "respond.posted", 1, hangT)
		if w != nil {
			w.Close()
		}
	}

	var whos []string
	for _, f := range fl {
		if f.parked {
			whos = append(whos, f.who)
		}
	}
	for _, t := range waitTags {
		whos = append(whos, reqWho(vid, t))
	}
	return (&ufsEnv{c: c, res: res, k: k, u: u, uo: uo, root: root, by: by, g0: g0, g1: g1, vid: vid}).finish(whos)
}

// ufsEnv is what the part of a Ufs case after the disconnect needs.
type ufsEnv struct {
	c      *Case
	res    *result
	k      *ctl
	u      *go9p.Ufs
	root   string
	by     *bystander
	g0, g1 map[int]gor
	vid    string
	uo     *ufsOps // FidDestroy log (nil: not recorded)
}

// finish: the victim has been cut and every request that was executing has
// been released. whos are the requests that were outstanding at the cut.
// Quiescence, then the descriptor oracle, then the bystander.
func (e *ufsEnv) finish(whos []string) error {
	c, res, k, u, root, by, g0, g1, vid := e.c, e.res, e.k, e.u, e.root, e.by, e.g0, e.g1, e.vid
	tolerantA := hx.IsKnown(FindRespondBlocks) && c.Maxpend == 0
	var left []gor
	var why string
	newGors := func() []gor {
		var out []gor
		for id, g := range libGors() {
			if _, old := g1[id]; !old {
				out = append(out, g)
			}
		}
		return out
	}
	okq := settle(func() bool {
		if k.count(connWho(vid), "close.exit") == 0 {
			why = "Conn.close has not finished"
			return false
		}
		nstuck := 0
		for _, w := range whos {
			// a pipelined frame the server never read (its writer failed first
			// and closed the transport) is not a request
			if k.count(w, "respond.unlinked") > 0 || k.count(w, "recv.dispatch") == 0 {
				continue
			}
			if k.count(w, "respond.posted") > 0 && k.count(w, "respond.queued") == 0 {
				nstuck++
				if tolerantA {
					continue
				}
			}
			why = "request " + w + " has not completed"
			return false
		}
		left = left[:0]
		stuckG := 0
		for id, g := range libGors() {
			if _, old := g1[id]; old {
				continue
			}
			left = append(left, g)
			if g.stuckInRespondSend() {
				stuckG++
			}
		}
		if len(left) == 0 || (tolerantA && stuckG == len(left) && stuckG == nstuck) {
			return true
		}
		why = "goroutines still serve the connection"
		return false
	}, newGors)
	allowed := map[int]gor{}
	for id, g := range g0 {
		allowed[id] = g
	}
	if !okq {
		var gs []string
		onlyA := true
		n := 0
		for id, g := range libGors() {
			if _, old := g1[id]; !old {
				gs = append(gs, short(g))
				n++
				if !g.stuckInRespondSend() {
					onlyA = false
				}
			}
		}
		sort.Strings(gs)
		msg := fmt.Sprintf("ufs: %v after the disconnect and after all %d executing requests were released: %s; goroutines left: %s", quiesce, res.effective, why, strings.Join(gs, " | "))
		if onlyA && n > 0 {
			msg += fmt.Sprintf(" [signature %s: reply queue %d deep, writer gone]", FindRespondBlocks, c.Maxpend)
		}
		return errors.New(msg)
	}
	if len(left) > 0 {
		hx.Known(FindRespondBlocks, fmt.Sprintf("ufs, Maxpend=0: %d request(s) answered after the writer had stopped: left in (*SrvReq).Respond [chan send]", len(left)))
		for _, g := range left {
			allowed[g.id] = g
		}
	}

	// ---- the descriptor oracle. Everything that served the victim has ended,
	// so every FidDestroy has been made: one look, no polling (and no garbage
	// collection during the case: a finalizer closing a forgotten os.File
	// would hide the leak).
	if fds := fdsInto(root); len(fds) != 0 {
		msg := fmt.Sprintf("ufs: the victim is gone but %d descriptor(s) still point into the exported tree: %v (open before the cut: %d; requests executing at the cut: %d)", len(fds), fds, res.openFds, res.effective)
		if hx.IsKnown(FindCloseVsInflight) && res.effective > 0 && len(fds) <= res.effective {
			hx.Known(FindCloseVsInflight, msg)
		} else {
			return errors.New(msg)
		}
	}
	// ---- the FidDestroy oracle: every fid Ufs was shown on the victim is
	// reported destroyed exactly once, none of the bystander's
	if e.uo != nil {
		if bad := e.uo.verdict(vid); len(bad) > 0 {
			msg := strings.Join(bad, "; ")
			if hx.IsKnown(FindCloseVsInflight) && res.effective > 0 {
				hx.Known(FindCloseVsInflight, msg)
			} else {
				return errors.New(msg)
			}
		}
	}
	if n := connCount(&u.Srv); n != 1 {
		return fmt.Errorf("ufs: the server still lists %d connections after the victim's disconnect (want 1: the bystander)", n)
	}
	if err := by.probeUfs("after"); err != nil {
		return err
	}
	if err := by.alive(); err != nil {
		return err
	}
	by.C.Close()
	var leftBy []string
	okb := settle(func() bool {
		if k.count(connWho(by.id), "close.exit") == 0 {
			return false
		}
		leftBy = shorts(libGors(), allowed)
		return len(leftBy) == 0
	}, func() []gor {
		var out []gor
		for id, g := range libGors() {
			if _, old := allowed[id]; !old {
				out = append(out, g)
			}
		}
		return out
	})
	if !okb {
		return fmt.Errorf("ufs: %v after the bystander's own disconnect: goroutines left: %s", quiesce, strings.Join(leftBy, " | "))
	}
	if n := connCount(&u.Srv); n != 0 {
		return fmt.Errorf("ufs: the server still lists %d connections after both disconnected", n)
	}
	return nil
}

// inUfsOpen counts goroutines that are inside (*Ufs).Open or (*Ufs).Create in
// a system call.
func inUfsOpen() int {
	n := 0
	for _, g := range dumpAll() {
		if !strings.HasPrefix(g.state, "syscall") {
			continue
		}
		for _, f := range g.funcs {
			if strings.HasPrefix(f, libPrefix+"(*Ufs).Open(") || strings.HasPrefix(f, libPrefix+"(*Ufs).Create(") {
				n++
				break
			}
		}
	}
	return n
}

// ---------------------------------------------------------------------------

func genUfsCase(t *rapid.T, maxObj int, enum bool) *Case {
	c := &Case{
		Variant: "ufs",
		Dotu:    rapid.Bool().Draw(t, "dotu"),
		Maxpend: rapid.SampledFrom([]int{0, 16}).Draw(t, "maxpend"),
		Kind:    rapid.SampledFrom([]string{"eof", "eof", "err", "err", "half"}).Draw(t, "cutkind"),
	}
	c.Ops = append(c.Ops, UOp{Kind: "attach", Fid: 0})
	n := rapid.IntRange(1, maxObj).Draw(t, "nobj")
	var flights []UOp
	for j := 1; j <= n; j++ {
		fid := uint32(j)
		what := rapid.SampledFrom([]string{"file", "file", "file", "dir", "dir", "create", "fifo", "late"}).Draw(t, "what")
		switch what {
		case "file":
			path := rapid.SampledFrom(uFiles).Draw(t, "path")
			c.Ops = append(c.Ops, UOp{Kind: "walk", Fid: 0, Newfid: fid, Names: strings.Split(path, "/")},
				UOp{Kind: "open", Fid: fid, Mode: rapid.SampledFrom([]uint8{0, 1, 2}).Draw(t, "mode")})
			if rapid.Bool().Draw(t, "rd") {
				c.Ops = append(c.Ops, UOp{Kind: "read", Fid: fid, Count: 64})
			}
		case "dir":
			path := rapid.SampledFrom(append([]string{""}, uDirs...)).Draw(t, "dpath")
			var names []string
			if path != "" {
				names = []string{path}
			}
			c.Ops = append(c.Ops, UOp{Kind: "walk", Fid: 0, Newfid: fid, Names: names}, UOp{Kind: "open", Fid: fid, Mode: 0})
			if rapid.Bool().Draw(t, "rd") {
				c.Ops = append(c.Ops, UOp{Kind: "read", Fid: fid, Count: 4096})
			}
		case "create":
			d := rapid.SampledFrom(uDirs).Draw(t, "cdir")
			perm := rapid.SampledFrom([]uint32{0o644, 0x80000000 | 0o755}).Draw(t, "cperm")
			mode := uint8(1)
			if perm&0x80000000 != 0 {
				mode = 0
			}
			c.Ops = append(c.Ops, UOp{Kind: "walk", Fid: 0, Newfid: fid, Names: []string{d}},
				UOp{Kind: "create", Fid: fid, Name: fmt.Sprintf("new%d", j), Perm: perm, Mode: mode})
		case "fifo":
			nf := 0
			for _, f := range flights {
				if f.Kind == "fifo" {
					nf++
				}
			}
			if nf >= len(uFifos) {
				break // one blocked open per FIFO
			}
			p := uFifos[nf]
			c.Ops = append(c.Ops, UOp{Kind: "walk", Fid: 0, Newfid: fid, Names: []string{p}})
			flights = append(flights, UOp{Kind: "fifo", Fid: fid, Mode: 0})
		case "late":
			path := rapid.SampledFrom(uFiles).Draw(t, "lpath")
			c.Ops = append(c.Ops, UOp{Kind: "walk", Fid: 0, Newfid: fid, Names: strings.Split(path, "/")})
			flights = append(flights, UOp{Kind: "late", Fid: fid, Mode: 0})
		}
		if (what == "file" || what == "dir") && rapid.IntRange(0, 4).Draw(t, "clunk") == 0 {
			c.Ops = append(c.Ops, UOp{Kind: rapid.SampledFrom([]string{"clunk", "clunk", "remove"}).Draw(t, "ck"), Fid: fid})
		}
	}
	// one session in two goes on with requests that name a second fid
	if rapid.Bool().Draw(t, "secondfid?") {
		genSecondFid(t, c, n)
	}
	// at most one blocked open per FIFO, at most 4 requests executing at the cut
	nfifo := 0
	for _, f := range flights {
		if f.Kind == "fifo" {
			nfifo++
			if nfifo > len(uFifos) {
				continue
			}
		}
		if hx.IsKnown(FindCloseVsInflight) && (enum || rapid.IntRange(0, 7).Draw(t, "keepBu") > 0) {
			hx.Excluded(FindCloseVsInflight)
			continue
		}
		c.Ops = append(c.Ops, f)
	}
	c.Pipe = rapid.SampledFrom([]int{0, 0, 1, 2, 3}).Draw(t, "pipe")
	if hx.IsKnown(FindRespondBlocks) && c.Maxpend == 0 && (enum || rapid.IntRange(0, 15).Draw(t, "keepAu") > 0) {
		c.Maxpend = 16
		hx.Excluded(FindRespondBlocks)
	}
	if hx.IsKnown(FindCloseVsInflight) && c.Pipe > 0 && (enum || rapid.IntRange(0, 7).Draw(t, "keepBp") > 0) {
		c.Pipe = 0
		hx.Excluded(FindCloseVsInflight)
	}
	return c
}

func ufsHistFrames(c *Case) [][]byte {
	hc := *c
	hc.Ops = nil
	for _, o := range c.Ops {
		if o.Kind != "fifo" && o.Kind != "late" {
			hc.Ops = append(hc.Ops, o)
		}
	}
	return hc.frames()
}

// TestPropUfs: one drawn disconnect per Ufs session with many opened files
// and directories.
func TestPropUfs(t *testing.T) {
	hx.Check(t, "ufs", hx.N(35, 800), func(t *rapid.T) {
		c := genUfsCase(t, 8, false)
		c.Cut = drawCut(t, ufsHistFrames(c))
		if err := execute("ufs", c); err != nil {
			hx.Failf(t, "ufs", c, "%v", err)
		}
	})
}

// TestEnumUfsPrefixes: every prefix of a drawn Ufs session.
func TestEnumUfsPrefixes(t *testing.T) {
	maxStream := 170
	if hx.Thorough() {
		maxStream = 400
	}
	hx.Check(t, "ufs-prefixes", hx.N(1, 6), func(t *rapid.T) {
		c := genUfsCase(t, 5, true)
		// every offset is enumerated: keep the session short (the requests
		// executing at the cut are kept)
		for streamLen(ufsHistFrames(c)) > maxStream {
			cutAt := -1
			for i := len(c.Ops) - 1; i > 0; i-- {
				if c.Ops[i].Kind != "fifo" && c.Ops[i].Kind != "late" {
					cutAt = i
					break
				}
			}
			if cutAt < 0 {
				break
			}
			c.Ops = append(c.Ops[:cutAt:cutAt], c.Ops[cutAt+1:]...)
		}
		total := streamLen(ufsHistFrames(c))
		for cut := 0; cut <= total; cut++ {
			for _, kind := range []string{"eof", "err"} {
				cc := *c
				cc.Cut, cc.Kind = cut, kind
				if err := execute("ufs-prefixes", &cc); err != nil {
					hx.Failf(t, "ufs-prefixes", &cc, "%v", err)
				}
			}
		}
		hx.ExtraAdd("ufs_sessions_with_every_prefix_cut", 1)
	})
	hx.Exhaustive("per drawn Ufs session: every byte offset of the stream x {EOF, read/write error}")
}

var _ = time.Second
