// C01 — wire-format fidelity of the codec.
package c01

import (
	"bytes"
	"encoding/json"
	"fmt"
	"testing"

	"github.com/rminnich/go9p"
	"pgregory.net/rapid"
	"verif/internal/conv"
	"verif/internal/gen9p"
	"verif/internal/hx"
	"verif/internal/ref9p"
)

func TestMain(m *testing.M) { hx.Main(m, "C01") }

// Case is the replayable unit: the reference encoding of the message (the
// field record is recovered from it with the reference decoder).
type Case struct {
	Kind   string `json:"kind"` // "msg", "dir", "rread"
	Dotu   bool   `json:"dotu"`
	Pkt    []byte `json:"pkt"`            // reference bytes of the message / concatenated stat records
	Slack  int    `json:"slack"`          // extra bytes in Fcall.Buf beyond the packet
	NewTag uint16 `json:"newtag"`         // tag set afterwards with SetTag
	Junk   []byte `json:"junk,omitempty"` // bytes appended before decoding
	Init   uint32 `json:"init,omitempty"` // rread: InitRread count
	Nrec   int    `json:"nrec,omitempty"` // dir: number of records
	Desc   string `json:"desc,omitempty"`
	// value put into Dir.Size before packing (derived data: must not matter)
	DirSize uint16 `json:"dirsize,omitempty"`
	// rread: SetTag is called between InitRread and SetRreadCount
	TagFirst bool `json:"tagfirst,omitempty"`
}

func run(c *Case) (err error) {
	defer func() {
		if r := recover(); r != nil {
			err = fmt.Errorf("panic: %v", r)
		}
	}()
	switch c.Kind {
	case "msg":
		return runMsg(c)
	case "dir":
		return runDir(c)
	case "rread":
		return runRread(c)
	}
	return fmt.Errorf("harness: unknown kind %q", c.Kind)
}

var prevFc *go9p.Fcall
var prevWant []byte

func runMsg(c *Case) error {
	m, n, err := ref9p.Decode(c.Pkt, c.Dotu)
	if err != nil || n != len(c.Pkt) {
		return fmt.Errorf("harness: reference bytes do not decode: %v", err)
	}
	fc := go9p.NewFcall(uint32(len(c.Pkt) + c.Slack))
	conv.DirSize = c.DirSize
	if err := conv.Pack(fc, m, c.Dotu); err != nil {
		return fmt.Errorf("constructor refused a representable %s: %v", ref9p.TypeName(m.Type), err)
	}
	// packing into one Fcall must not disturb a packet built earlier in another Fcall
	if prevFc != nil && !bytes.Equal(prevFc.Pkt, prevWant) {
		return fmt.Errorf("packing a %s disturbed the packet of a previously built %s (differs at byte %d)", ref9p.TypeName(m.Type), ref9p.TypeName(prevFc.Type), firstDiff(prevFc.Pkt, prevWant))
	}
	defer func() { prevFc, prevWant = fc, append([]byte(nil), fc.Pkt...) }()
	// constructors always write NOTAG
	want := ref9p.SetTag(c.Pkt, ref9p.NOTAG)
	if !bytes.Equal(fc.Pkt, want) {
		return fmt.Errorf("%s dotu=%v: packet differs from the protocol layout at byte %d:\n got  %s\n want %s", ref9p.TypeName(m.Type), c.Dotu, firstDiff(fc.Pkt, want), hexs(fc.Pkt), hexs(want))
	}
	if int(fc.Size) != len(fc.Pkt) {
		return fmt.Errorf("Fcall.Size %d != len(Pkt) %d", fc.Size, len(fc.Pkt))
	}
	if fc.Type != m.Type {
		return fmt.Errorf("Fcall.Type %d != %d", fc.Type, m.Type)
	}
	go9p.SetTag(fc, c.NewTag)
	want = ref9p.SetTag(c.Pkt, c.NewTag)
	if !bytes.Equal(fc.Pkt, want) {
		return fmt.Errorf("after SetTag(%d) packet differs at byte %d", c.NewTag, firstDiff(fc.Pkt, want))
	}
	if fc.Tag != c.NewTag {
		return fmt.Errorf("after SetTag Fcall.Tag = %d, want %d", fc.Tag, c.NewTag)
	}
	// decode what was built, followed by junk
	in := append(append([]byte(nil), fc.Pkt...), c.Junk...)
	got, consumed, derr := go9p.Unpack(in, c.Dotu)
	if derr != nil {
		return fmt.Errorf("%s dotu=%v: Unpack of the constructed packet (%d bytes + %d junk) failed: %v", ref9p.TypeName(m.Type), c.Dotu, len(fc.Pkt), len(c.Junk), derr)
	}
	if consumed != len(c.Pkt) {
		return fmt.Errorf("Unpack consumed %d, packet is %d", consumed, len(c.Pkt))
	}
	if int(got.Size) != len(c.Pkt) {
		return fmt.Errorf("decoded Size %d, packet is %d", got.Size, len(c.Pkt))
	}
	mm := *m
	mm.Tag = c.NewTag
	a, b := ref9p.Canon(conv.FromFcall(got), c.Dotu), ref9p.Canon(&mm, c.Dotu)
	if d := ref9p.Diff(a, b); d != "" {
		return fmt.Errorf("%s dotu=%v: decoded field differs from the input: %s", ref9p.TypeName(m.Type), c.Dotu, d)
	}
	return nil
}

func runDir(c *Case) error {
	// c.Pkt is a concatenation of Nrec reference stat records
	var recs []*ref9p.Stat
	rest := c.Pkt
	for len(rest) > 0 {
		s, n, err := ref9p.DecodeStat(rest, c.Dotu)
		if err != nil {
			return fmt.Errorf("harness: reference stat bytes do not decode: %v", err)
		}
		recs = append(recs, s)
		rest = rest[n:]
	}
	// encode each with go9p
	var all []byte
	var held [][]byte
	for i, s := range recs {
		gd := conv.GDir(s)
		gd.Size = c.DirSize // the Size field of a Dir is derived data: whatever it holds, the encoding is the same
		b := go9p.PackDir(gd, c.Dotu)
		want := ref9p.EncodeStat(s, c.Dotu)
		if !bytes.Equal(b, want) {
			return fmt.Errorf("PackDir record %d dotu=%v differs at byte %d:\n got  %s\n want %s", i, c.Dotu, firstDiff(b, want), hexs(b), hexs(want))
		}
		held = append(held, b)
	}
	// the records are values of their own: encoding another one must not disturb them
	for i, s := range recs {
		want := ref9p.EncodeStat(s, c.Dotu)
		if !bytes.Equal(held[i], want) {
			return fmt.Errorf("PackDir record %d of %d was overwritten by a later PackDir call (differs at byte %d)", i, len(recs), firstDiff(held[i], want))
		}
		all = append(all, held[i]...)
	}
	buf := append(append([]byte(nil), all...), c.Junk...)
	b := buf
	for i, s := range recs {
		d, nb, amt, err := go9p.UnpackDir(b, c.Dotu)
		if err != nil {
			return fmt.Errorf("UnpackDir record %d/%d dotu=%v: %v", i, len(recs), c.Dotu, err)
		}
		wantLen := ref9p.StatLen(s, c.Dotu)
		if amt != wantLen {
			return fmt.Errorf("UnpackDir record %d: amt %d, record is %d", i, amt, wantLen)
		}
		if len(nb) != len(b)-wantLen {
			return fmt.Errorf("UnpackDir record %d: remainder %d bytes, want %d", i, len(nb), len(b)-wantLen)
		}
		if int(d.Size) != wantLen-2 {
			return fmt.Errorf("UnpackDir record %d: Dir.Size %d, want %d", i, d.Size, wantLen-2)
		}
		gs := ref9p.CanonStat(ptr(conv.Stat(d)), c.Dotu)
		ws := ref9p.CanonStat(s, c.Dotu)
		if gs != ws {
			return fmt.Errorf("UnpackDir record %d dotu=%v: fields differ:\n got  %#v\n want %#v", i, c.Dotu, gs, ws)
		}
		// a decoded Dir encodes back to the same record, in the same dialect ...
		if re := go9p.PackDir(d, c.Dotu); !bytes.Equal(re, ref9p.EncodeStat(s, c.Dotu)) {
			return fmt.Errorf("record %d dotu=%v: re-encoding the decoded Dir gives different bytes (differs at byte %d)", i, c.Dotu, firstDiff(re, ref9p.EncodeStat(s, c.Dotu)))
		}
		// ... and in the other dialect to that dialect's layout of the same fields
		{
			o := *s
			if c.Dotu {
				o.Ext, o.Nuid, o.Ngid, o.Nmuid = "", 0, 0, 0
			} else {
				o.Nuid, o.Ngid, o.Nmuid = d.Uidnum, d.Gidnum, d.Muidnum
			}
			if ref9p.StatLen(&o, !c.Dotu) <= 65535+2 {
				if re := go9p.PackDir(d, !c.Dotu); !bytes.Equal(re, ref9p.EncodeStat(&o, !c.Dotu)) {
					return fmt.Errorf("record %d decoded with dotu=%v: re-encoding it with dotu=%v gives different bytes (differs at byte %d, length %d want %d)", i, c.Dotu, !c.Dotu, firstDiff(re, ref9p.EncodeStat(&o, !c.Dotu)), len(re), ref9p.StatLen(&o, !c.Dotu))
				}
			}
		}
		b = nb
	}
	return nil
}

func ptr[T any](v T) *T { return &v }

func runRread(c *Case) error {
	m, _, err := ref9p.Decode(c.Pkt, c.Dotu)
	if err != nil || m.Type != ref9p.Rread {
		return fmt.Errorf("harness: bad rread case: %v", err)
	}
	if int(c.Init) < len(m.Data) {
		return fmt.Errorf("harness: init < n")
	}
	fc := go9p.NewFcall(uint32(7 + 4 + int(c.Init) + c.Slack))
	if err := go9p.InitRread(fc, c.Init); err != nil {
		return fmt.Errorf("InitRread(%d) with a %d-byte buffer: %v", c.Init, len(fc.Buf), err)
	}
	if len(fc.Data) != int(c.Init) {
		return fmt.Errorf("InitRread(%d): len(Data)=%d", c.Init, len(fc.Data))
	}
	copy(fc.Data, m.Data)
	want := ref9p.SetTag(c.Pkt, ref9p.NOTAG)
	if c.TagFirst {
		// the tag is set after InitRread and before the count is known
		go9p.SetTag(fc, c.NewTag)
		want = ref9p.SetTag(c.Pkt, c.NewTag)
	}
	go9p.SetRreadCount(fc, uint32(len(m.Data)))
	if !bytes.Equal(fc.Pkt, want) {
		return fmt.Errorf("InitRread(%d)+SetRreadCount(%d): packet differs at byte %d:\n got  %s\n want %s", c.Init, len(m.Data), firstDiff(fc.Pkt, want), hexs(fc.Pkt), hexs(want))
	}
	if int(fc.Size) != len(want) || int(fc.Count) != len(m.Data) || len(fc.Data) != len(m.Data) {
		return fmt.Errorf("SetRreadCount: Size=%d Count=%d len(Data)=%d, want %d %d %d", fc.Size, fc.Count, len(fc.Data), len(want), len(m.Data), len(m.Data))
	}
	go9p.SetTag(fc, c.NewTag)
	got, consumed, derr := go9p.Unpack(append(append([]byte(nil), fc.Pkt...), c.Junk...), c.Dotu)
	if derr != nil || consumed != len(want) {
		return fmt.Errorf("Unpack of two-step Rread: consumed %d err %v", consumed, derr)
	}
	if !bytes.Equal(got.Data[:got.Count], m.Data) || got.Tag != c.NewTag {
		return fmt.Errorf("two-step Rread decodes to different data or tag")
	}
	return nil
}

func firstDiff(a, b []byte) int {
	for i := 0; i < len(a) && i < len(b); i++ {
		if a[i] != b[i] {
			return i
		}
	}
	if len(a) != len(b) {
		if len(a) < len(b) {
			return len(a)
		}
		return len(b)
	}
	return -1
}

func hexs(b []byte) string {
	if len(b) > 96 {
		return fmt.Sprintf("%x…(%d bytes)", b[:96], len(b))
	}
	return fmt.Sprintf("%x", b)
}

func nontrivial(m *ref9p.Msg, dotu bool, pkt []byte) bool {
	// at least one byte after the header is non-zero
	for _, b := range pkt[7:] {
		if b != 0 {
			return true
		}
	}
	return false
}

func sampleOf(c *Case) interface{} {
	s := *c
	if len(s.Pkt) > 64 {
		s.Desc += fmt.Sprintf(" (pkt truncated from %d bytes)", len(s.Pkt))
		s.Pkt = s.Pkt[:64]
	}
	if len(s.Junk) > 8 {
		s.Junk = s.Junk[:8]
	}
	return s
}

func TestReplay(t *testing.T) {
	e, err := hx.LoadReplay()
	if e == nil {
		t.Skip("no replay file", err)
	}
	replayEnv(t, e)
}

func replayEnv(t *testing.T, e *hx.Envelope) {
	var c Case
	if err := json.Unmarshal(e.Case, &c); err != nil {
		t.Fatalf("bad case: %v", err)
	}
	hx.Eval()
	if err := run(&c); err != nil {
		hx.Violation(e.Test, &c, err.Error())
		t.Fatalf("%v", err)
	}
}

func TestRegress(t *testing.T) {
	for _, e := range hx.Regressions() {
		replayEnv(t, e)
		hx.Label("regress")
	}
}

// TestCanonicalTable: every type x dialect with all-zero and all-max fields.
func TestCanonicalTable(t *testing.T) {
	for _, dotu := range []bool{false, true} {
		for _, typ := range ref9p.AllTypes {
			for _, which := range []string{"zero", "max", "typical"} {
				m := canonical(typ, which)
				c := &Case{Kind: "msg", Dotu: dotu, Pkt: ref9p.Encode(m, dotu), Slack: 0, NewTag: 0xABCD, Desc: which}
				hx.Eval()
				hx.Label(fmt.Sprintf("canonical type=%s dotu=%v", ref9p.TypeName(typ), dotu))
				if which != "zero" {
					hx.NonTrivial("canon", typ, dotu, which)
				}
				hx.Sample("canonical", sampleOf(c))
				if err := run(c); err != nil {
					hx.Violation("canonical", c, err.Error())
					t.Errorf("%v", err)
				}
			}
		}
	}
	hx.Exhaustive("canonical table: 27 types x 2 dialects x {all-zero, all-max, typical}")
}

func canonical(typ uint8, which string) *ref9p.Msg {
	m := &ref9p.Msg{Type: typ}
	if which == "zero" {
		return m
	}
	if which == "max" {
		s := "\xff\x00/\xfe"
		m.Tag = 0xFFFF
		m.Msize, m.Version = 0xFFFFFFFF, s
		m.Fid, m.Afid, m.Newfid, m.Nuname = 0xFFFFFFFF, 0xFFFFFFFF, 0xFFFFFFFF, 0xFFFFFFFF
		m.Uname, m.Aname, m.Ename, m.Name, m.Ext = s, s, s, s, s
		m.Ecode, m.Oldtag, m.Mode, m.Iounit, m.Perm = 0xFFFFFFFF, 0xFFFF, 0xFF, 0xFFFFFFFF, 0xFFFFFFFF
		m.Qid = ref9p.Qid{Type: 0xFF, Vers: 0xFFFFFFFF, Path: 0xFFFFFFFFFFFFFFFF}
		m.Offset, m.Count = 0xFFFFFFFFFFFFFFFF, 0xFFFFFFFF
		m.Data = bytes.Repeat([]byte{0xFF}, 33)
		for i := 0; i < 16; i++ {
			m.Wname = append(m.Wname, s)
			m.Wqid = append(m.Wqid, m.Qid)
		}
		m.Stat = ref9p.Stat{Type: 0xFFFF, Dev: 0xFFFFFFFF, Qid: m.Qid, Mode: 0xFFFFFFFF, Atime: 0xFFFFFFFF, Mtime: 0xFFFFFFFF,
			Length: 0xFFFFFFFFFFFFFFFF, Name: s, Uid: s, Gid: s, Muid: s, Ext: s, Nuid: 0xFFFFFFFF, Ngid: 0xFFFFFFFF, Nmuid: 0xFFFFFFFF}
		return m
	}
	m.Tag = 0x1234
	m.Msize, m.Version = 8192, "9P2000.u"
	m.Fid, m.Afid, m.Newfid, m.Nuname = 1, 2, 3, 1000
	m.Uname, m.Aname, m.Ename, m.Name, m.Ext = "glenda", "/tmp", "file not found", "notes.txt", "../target"
	m.Ecode, m.Oldtag, m.Mode, m.Iounit, m.Perm = 2, 7, 1, 8168, 0o644
	m.Qid = ref9p.Qid{Type: 0x80, Vers: 5, Path: 0x0102030405060708}
	m.Offset, m.Count = 0x1122334455667788, 4096
	m.Data = []byte("hello, 9p\n")
	m.Wname = []string{"usr", "glenda", "lib"}
	m.Wqid = []ref9p.Qid{m.Qid, {Type: 0, Vers: 1, Path: 9}}
	m.Stat = ref9p.Stat{Type: 1, Dev: 2, Qid: m.Qid, Mode: 0x800001ED, Atime: 3, Mtime: 4, Length: 5, Name: "lib", Uid: "glenda", Gid: "sys", Muid: "bootes", Ext: "x", Nuid: 10, Ngid: 20, Nmuid: 30}
	return m
}

func TestPropCodec(t *testing.T) {
	cfg := gen9p.Cfg{Heavy: true, MaxData: 20000}
	hx.Check(t, "codec", hx.N(30000, 200000), func(t *rapid.T) {
		dotu := rapid.Bool().Draw(t, "dotu")
		typ := gen9p.AnyType(t)
		m := cfg.Msg(t, typ, dotu)
		c := &Case{Kind: "msg", Dotu: dotu, Pkt: ref9p.Encode(m, dotu)}
		c.Slack = rapid.SampledFrom([]int{0, 0, 1, 100, 8192}).Draw(t, "slack")
		c.NewTag = gen9p.U16().Draw(t, "newtag")
		if typ == ref9p.Rstat || typ == ref9p.Twstat {
			c.DirSize = gen9p.U16().Draw(t, "dirsize")
		}
		if rapid.Bool().Draw(t, "withjunk") {
			c.Junk = rapid.SliceOfN(rapid.Byte(), 1, 40).Draw(t, "junk")
		}
		hx.Eval()
		hx.Label(fmt.Sprintf("type=%s dotu=%v str=%s", ref9p.TypeName(typ), dotu, gen9p.StrClass(m)))
		if nontrivial(m, dotu, c.Pkt) {
			hx.NonTrivial("msg", dotu, c.Pkt)
		}
		hx.Sample("codec", sampleOf(c))
		if err := run(c); err != nil {
			hx.Failf(t, "codec", c, "%v", err)
		}
	})
}

func TestPropDir(t *testing.T) {
	cfg := gen9p.Cfg{Heavy: true}
	hx.Check(t, "dir", hx.N(8000, 60000), func(t *rapid.T) {
		dotu := rapid.Bool().Draw(t, "dotu")
		n := rapid.IntRange(1, 5).Draw(t, "nrec")
		c := &Case{Kind: "dir", Dotu: dotu, Nrec: n, DirSize: gen9p.U16().Draw(t, "dirsize")}
		for i := 0; i < n; i++ {
			s := cfg.Stat(t, dotu, "st")
			c.Pkt = append(c.Pkt, ref9p.EncodeStat(&s, dotu)...)
		}
		if rapid.Bool().Draw(t, "withjunk") {
			c.Junk = rapid.SliceOfN(rapid.Byte(), 1, 40).Draw(t, "junk")
		}
		hx.Eval()
		hx.Label(fmt.Sprintf("dir dotu=%v nrec=%d", dotu, n))
		hx.NonTrivial("dir", dotu, c.Pkt)
		hx.Sample("dir", sampleOf(c))
		if err := run(c); err != nil {
			hx.Failf(t, "dir", c, "%v", err)
		}
	})
}

func TestPropRread(t *testing.T) {
	hx.Check(t, "rread", hx.N(5000, 40000), func(t *rapid.T) {
		dotu := rapid.Bool().Draw(t, "dotu")
		init := rapid.OneOf(rapid.IntRange(0, 64), rapid.IntRange(0, 70000)).Draw(t, "init")
		n := rapid.OneOf(rapid.Just(0), rapid.Just(init), rapid.IntRange(0, init)).Draw(t, "n")
		m := &ref9p.Msg{Type: ref9p.Rread, Tag: 0, Data: gen9p.Bytes(t, n, "data")}
		c := &Case{Kind: "rread", Dotu: dotu, Pkt: ref9p.Encode(m, dotu), Init: uint32(init)}
		c.Slack = rapid.SampledFrom([]int{0, 1, 100}).Draw(t, "slack")
		c.NewTag = gen9p.U16().Draw(t, "newtag")
		c.TagFirst = rapid.Bool().Draw(t, "tagfirst")
		hx.Eval()
		hx.Label(fmt.Sprintf("rread-two-step shrink=%v tagfirst=%v", n < init, c.TagFirst))
		if n > 0 {
			hx.NonTrivial("rread", init, c.Pkt)
		}
		hx.Sample("rread", sampleOf(c))
		if err := run(c); err != nil {
			hx.Failf(t, "rread", c, "%v", err)
		}
	})
}

// TestAllStringLengths: thorough tier only — every length 0..65535 of one
// string field of every string-carrying type (sharded by length).
func TestAllStringLengths(t *testing.T) {
	step := 1
	if !hx.Thorough() {
		step = 257 // quick: a spread of 256 lengths incl. both ends
	}
	types := []uint8{ref9p.Tversion, ref9p.Rversion, ref9p.Tauth, ref9p.Tattach, ref9p.Rerror, ref9p.Twalk, ref9p.Tcreate, ref9p.Rstat, ref9p.Twstat}
	for n := hx.Shard * step; n <= 65535; n += step * hx.NShards {
		for _, ln := range []int{n, 65535 - n} {
			s := string(bytes.Repeat([]byte{byte(ln)}, ln))
			for _, typ := range types {
				if (typ == ref9p.Rstat || typ == ref9p.Twstat) && ln > 65535-70 {
					continue
				}
				dotu := (ln+int(typ))%2 == 0
				m := &ref9p.Msg{Type: typ, Tag: uint16(ln), Version: s, Uname: s, Ename: s, Name: s, Wname: []string{"a", s}}
				m.Stat.Name = s
				c := &Case{Kind: "msg", Dotu: dotu, Pkt: ref9p.Encode(m, dotu), NewTag: uint16(ln) ^ 0x5555}
				hx.Eval()
				hx.NonTrivial("len", typ, ln, dotu)
				if err := run(c); err != nil {
					hx.Violation("strlen", c, err.Error())
					t.Fatalf("len %d: %v", ln, err)
				}
			}
		}
	}
	hx.Label("string-length sweep")
	if hx.Thorough() {
		hx.Exhaustive("every string length 0..65535 for one string field of each of 9 string-carrying types")
	}
}
