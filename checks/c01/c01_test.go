// C01 — wire-format fidelity of the codec.
package c01

import (
	"bytes"
	"encoding/binary"
	"encoding/json"
	"fmt"
	"sync"
	"sync/atomic"
	"testing"

	"github.com/rminnich/go9p"
	"pgregory.net/rapid"
	"verif/internal/conv"
	"verif/internal/gen9p"
	"verif/internal/hx"
	"verif/internal/ref9p"
)

func TestMain(m *testing.M) { hx.Main(m, "C01") }

// Case is the replayable unit: the reference encoding of the message (the
// field record is recovered from it with the reference decoder).
type Case struct {
	Kind   string `json:"kind"` // "msg", "dir", "rread"
	Dotu   bool   `json:"dotu"`
	Pkt    []byte `json:"pkt"`            // reference bytes of the message / concatenated stat records
	Slack  int    `json:"slack"`          // extra bytes in Fcall.Buf beyond the packet
	NewTag uint16 `json:"newtag"`         // tag set afterwards with SetTag
	Junk   []byte `json:"junk,omitempty"` // bytes appended before decoding
	Init   uint32 `json:"init,omitempty"` // rread: InitRread count
	Nrec   int    `json:"nrec,omitempty"` // dir: number of records
	Desc   string `json:"desc,omitempty"`
	// value put into Dir.Size before packing (derived data: must not matter)
	DirSize uint16 `json:"dirsize,omitempty"`
	// rread: SetTag is called between InitRread and SetRreadCount
	TagFirst bool `json:"tagfirst,omitempty"`
	// The Fcall is not fresh. Fill: byte pattern repeated over the whole of
	// Fcall.Buf before anything is built in it. Prev: reference bytes of an
	// earlier message (dialect PrevDotu) that is built in the same Fcall first
	// and given its real tag, the way a recycled Fcall looks.
	Fill     []byte `json:"fill,omitempty"`
	Prev     []byte `json:"prev,omitempty"`
	PrevDotu bool   `json:"prevdotu,omitempty"`
	// further SetTag calls on the constructed packet, after NewTag
	Tags []uint16 `json:"tags,omitempty"`
	// SetTag calls on the Fcall that came out of Unpack
	UTags []uint16 `json:"utags,omitempty"`
	// What happens to the source buffer after Unpack / UnpackDir has returned and
	// the decoded value has been compared once; the kept value is then compared
	// with the reference again. "" nothing, "zero", "flip" (every byte ^0xFF),
	// "fill" (AfterFill repeated), "next" (the buffer receives another message /
	// stat record, Next in dialect NextDotu, which is decoded from it, then the
	// buffer is flipped), "eat" (dir only: the bytes of every record are
	// overwritten with AfterFill as soon as UnpackDir has returned it).
	After     string `json:"after,omitempty"`
	AfterFill []byte `json:"afterfill,omitempty"`
	Next      []byte `json:"next,omitempty"`
	NextDotu  bool   `json:"nextdotu,omitempty"`
	// Synth (kind "msg"): the reference record is built from a few numbers (a
	// message with up to 65535 names / qids or a payload of up to a few MiB) and
	// Pkt is its reference encoding, computed when the case runs.
	Synth *Synth `json:"synth,omitempty"`
	// kind "conc": Workers[g] is the list of "msg" / "dir" cases that goroutine g
	// works through (each goroutine on Fcalls, buffers and records of its own),
	// all goroutines at the same time: every case once in full, then Rounds times
	// encode + compare + decode + compare of each.
	Workers [][]Case `json:"workers,omitempty"`
	Rounds  int      `json:"rounds,omitempty"`
	// set on the cases of a "conc" run: package-level bookkeeping of the harness
	// (prevFc, conv.DirSize) is left alone
	conc bool
}

// Synth describes a large message by its numbers.
type Synth struct {
	Type uint8 `json:"type"` // Twalk, Rwalk, Rread, Twrite
	N    int   `json:"n"`    // number of names / qids / payload bytes
	// Twalk: name i has (i+Seed) mod (L+1) bytes
	L    int    `json:"l,omitempty"`
	Seed uint32 `json:"seed"` // content pattern
}

func synthMsg(s *Synth) *ref9p.Msg {
	x := hx.Mix(uint64(s.Seed), uint64(s.Type))
	m := &ref9p.Msg{Type: s.Type, Tag: uint16(x >> 48)}
	at := func(i int) uint64 {
		v := x + uint64(i)*0xD1B54A32D192ED03
		v ^= v >> 29
		return v * 0xBF58476D1CE4E5B9
	}
	switch s.Type {
	case ref9p.Rwalk:
		m.Wqid = make([]ref9p.Qid, s.N)
		for i := range m.Wqid {
			v := at(i)
			m.Wqid[i] = ref9p.Qid{Type: uint8(v >> 56), Vers: uint32(v >> 20), Path: v ^ uint64(i)}
		}
	case ref9p.Twalk:
		m.Fid, m.Newfid = uint32(x), uint32(x>>32)
		m.Wname = make([]string, s.N)
		var nb [16]byte
		for i := range m.Wname {
			v := at(i)
			ln := (i + int(s.Seed%251)) % (s.L + 1)
			for k := 0; k < ln && k < len(nb); k++ {
				nb[k] = byte(v >> (8 * (k % 8)))
			}
			if ln > 1 {
				nb[0], nb[1] = byte(i), byte(i>>8)
			}
			m.Wname[i] = string(nb[:min(ln, len(nb))])
		}
	case ref9p.Rread, ref9p.Twrite:
		if s.Type == ref9p.Twrite {
			m.Fid, m.Offset = uint32(x), at(-1)
		}
		m.Data = make([]byte, s.N)
		for i := 0; i < len(m.Data); i += 8 {
			v := at(i)
			for k := 0; k < 8 && i+k < len(m.Data); k++ {
				m.Data[i+k] = byte(v >> (8 * k))
			}
		}
	}
	return m
}

// clobber changes the decode source buffer the way c.After says.
func clobber(c *Case, buf []byte) {
	switch c.After {
	case "zero":
		clear(buf)
	case "flip", "next":
		i := 0
		for ; i+8 <= len(buf); i += 8 {
			binary.LittleEndian.PutUint64(buf[i:], ^binary.LittleEndian.Uint64(buf[i:]))
		}
		for ; i < len(buf); i++ {
			buf[i] ^= 0xFF
		}
	case "fill", "eat":
		pat := c.AfterFill
		if len(pat) == 0 {
			pat = []byte{0x5A}
		}
		n := copy(buf, pat)
		for n < len(buf) {
			// doubling copy: buf[:n] is a whole number of patterns (or all of buf)
			n += copy(buf[n:], buf[:n])
		}
	}
}

// inBuf: the buffer a message / record sequence of n bytes is decoded from; when
// another message is received into it afterwards it has room for that one too
// (a receiver's single frame buffer), the decoder is handed the first n bytes.
func inBuf(c *Case, content, junk []byte) []byte {
	n := len(content) + len(junk)
	sz := n
	if c.After == "next" && len(c.Next) > sz {
		sz = len(c.Next)
	}
	b := make([]byte, sz)
	copy(b[copy(b, content):], junk)
	return b[:n]
}

// keptMsg: the fields of an Fcall that Unpack returned earlier, read again now,
// must still be the reference values. Strings are Go values of their own
// (immutable by the language), integers and qids were copied; only Data (and
// Pkt/Buf) refer to the source buffer and are left out of the comparison (its
// length is not).
func keptMsg(got *go9p.Fcall, want *ref9p.Msg, dotu bool, when string) error {
	g, w := conv.FromFcall(got), *want
	if len(g.Data) != len(w.Data) || int(got.Size) != len(got.Pkt) {
		return fmt.Errorf("%s dotu=%v: len(Data) %d (want %d), Size %d, len(Pkt) %d of the Fcall that Unpack returned changed after %s", ref9p.TypeName(want.Type), dotu, len(g.Data), len(w.Data), got.Size, len(got.Pkt), when)
	}
	g.Data, w.Data = nil, nil
	a, b := ref9p.Canon(g, dotu), ref9p.Canon(&w, dotu)
	if d := ref9p.Diff(a, b); d != "" {
		return fmt.Errorf("%s dotu=%v: a field of the Fcall that Unpack returned (and that compared equal right after decoding) changed after %s: %s", ref9p.TypeName(want.Type), dotu, when, d)
	}
	return nil
}

// afterMsg runs the c.After step on the buffer `full` (whose first bytes were
// decoded into got) and compares got with want again.
func afterMsg(c *Case, got *go9p.Fcall, want *ref9p.Msg, full []byte) error {
	if c.After == "" {
		return nil
	}
	when := "the source buffer was overwritten (" + c.After + ")"
	if c.After == "next" {
		nm, n, err := ref9p.Decode(c.Next, c.NextDotu)
		if err != nil || n != len(c.Next) {
			return fmt.Errorf("harness: reference bytes of the next message do not decode: %v", err)
		}
		if len(full) < len(c.Next) {
			full = full[:cap(full)]
		}
		if len(full) < len(c.Next) {
			return fmt.Errorf("harness: buffer of %d bytes cannot take the next message of %d", len(full), len(c.Next))
		}
		copy(full, c.Next)
		got2, consumed, derr := go9p.Unpack(full[:len(c.Next)], c.NextDotu)
		if derr != nil || consumed != len(c.Next) {
			return fmt.Errorf("%s dotu=%v received into the buffer an earlier message was decoded from: Unpack consumed %d of %d, err %v", ref9p.TypeName(nm.Type), c.NextDotu, consumed, len(c.Next), derr)
		}
		if d := ref9p.Diff(ref9p.Canon(conv.FromFcall(got2), c.NextDotu), ref9p.Canon(nm, c.NextDotu)); d != "" {
			return fmt.Errorf("%s dotu=%v received into the buffer an earlier message was decoded from: decoded field differs from the input: %s", ref9p.TypeName(nm.Type), c.NextDotu, d)
		}
		if err := keptMsg(got, want, c.Dotu, fmt.Sprintf("a %s was received into the same buffer and decoded", ref9p.TypeName(nm.Type))); err != nil {
			return err
		}
		clobber(c, full)
		if err := keptMsg(got2, nm, c.NextDotu, "its source buffer was overwritten (flip)"); err != nil {
			return err
		}
		return keptMsg(got, want, c.Dotu, when)
	}
	clobber(c, full)
	return keptMsg(got, want, c.Dotu, when)
}

// newFcall gives an Fcall with room for need+c.Slack bytes (and for c.Prev) in
// the state the case describes: fresh, or with a buffer that already served.
func newFcall(c *Case, need int) (*go9p.Fcall, error) {
	if len(c.Prev) > need {
		need = len(c.Prev)
	}
	fc := go9p.NewFcall(uint32(need + c.Slack))
	if len(c.Fill) > 0 {
		for i := range fc.Buf {
			fc.Buf[i] = c.Fill[i%len(c.Fill)]
		}
	}
	if len(c.Prev) > 0 {
		pm, n, err := ref9p.Decode(c.Prev, c.PrevDotu)
		if err != nil || n != len(c.Prev) {
			return nil, fmt.Errorf("harness: reference bytes of the earlier message do not decode: %v", err)
		}
		conv.DirSize = 0
		if err := conv.Pack(fc, pm, c.PrevDotu); err != nil {
			return nil, fmt.Errorf("constructor refused a representable %s (earlier message in the same Fcall): %v", ref9p.TypeName(pm.Type), err)
		}
		if want := ref9p.SetTag(c.Prev, ref9p.NOTAG); !bytes.Equal(fc.Pkt, want) {
			return nil, fmt.Errorf("%s dotu=%v (earlier message in the same Fcall, fill %x): packet differs from the protocol layout at byte %d:\n got  %s\n want %s", ref9p.TypeName(pm.Type), c.PrevDotu, c.Fill, firstDiff(fc.Pkt, want), hexs(fc.Pkt), hexs(want))
		}
		go9p.SetTag(fc, pm.Tag)
		if !bytes.Equal(fc.Pkt, c.Prev) {
			return nil, fmt.Errorf("%s (earlier message in the same Fcall): after SetTag(%d) packet differs at byte %d", ref9p.TypeName(pm.Type), pm.Tag, firstDiff(fc.Pkt, c.Prev))
		}
	}
	return fc, nil
}

func (c *Case) bufState() string {
	switch {
	case len(c.Fill) > 0 && len(c.Prev) > 0:
		return fmt.Sprintf("filled with %x, then used for a %d-byte message", c.Fill, len(c.Prev))
	case len(c.Fill) > 0:
		return fmt.Sprintf("filled with %x", c.Fill)
	case len(c.Prev) > 0:
		return fmt.Sprintf("used before for a %d-byte message", len(c.Prev))
	}
	return "fresh"
}

// tagSeq applies SetTag for every tag in turn to fc, whose packet must be ref
// with that tag (and nothing else changed) after every call.
func tagSeq(fc *go9p.Fcall, ref []byte, tags []uint16, what string) error {
	for i, tg := range tags {
		go9p.SetTag(fc, tg)
		want := ref9p.SetTag(ref, tg)
		if !bytes.Equal(fc.Pkt, want) {
			at := firstDiff(fc.Pkt, want)
			return fmt.Errorf("%s: after SetTag call %d of %v (tag %#04x) the packet differs at byte %d (bytes 5..6 = %x, want %x)", what, i+1, tags, tg, at, fc.Pkt[5:7], want[5:7])
		}
		if fc.Tag != tg {
			return fmt.Errorf("%s: after SetTag call %d of %v Fcall.Tag = %#04x, want %#04x", what, i+1, tags, fc.Tag, tg)
		}
	}
	return nil
}

func run(c *Case) (err error) {
	defer func() {
		if r := recover(); r != nil {
			err = fmt.Errorf("panic: %v", r)
		}
	}()
	switch c.Kind {
	case "msg":
		if c.Synth != nil {
			if c.Synth.N < 0 || c.Synth.N > 1<<23 || c.Synth.L < 0 || c.Synth.L > 16 {
				return fmt.Errorf("harness: bad synth %+v", *c.Synth)
			}
			cc := *c
			cc.Pkt = ref9p.Encode(synthMsg(c.Synth), c.Dotu)
			c = &cc
		}
		return runMsg(c)
	case "dir":
		return runDir(c)
	case "rread":
		return runRread(c)
	case "conc":
		return runConc(c)
	}
	return fmt.Errorf("harness: unknown kind %q", c.Kind)
}

var prevFc *go9p.Fcall
var prevWant []byte

func runMsg(c *Case) error {
	m, n, err := ref9p.Decode(c.Pkt, c.Dotu)
	if err != nil || n != len(c.Pkt) {
		return fmt.Errorf("harness: reference bytes do not decode: %v", err)
	}
	fc, err := newFcall(c, len(c.Pkt))
	if err != nil {
		return err
	}
	if conv.DirSize != c.DirSize {
		conv.DirSize = c.DirSize // (cases of a "conc" run all have 0 here: never written while goroutines run)
	}
	if err := conv.Pack(fc, m, c.Dotu); err != nil {
		return fmt.Errorf("constructor refused a representable %s%s: %v", ref9p.TypeName(m.Type), c.synthDesc(), err)
	}
	if !c.conc {
		// packing into one Fcall must not disturb a packet built earlier in another Fcall
		if prevFc != nil && !bytes.Equal(prevFc.Pkt, prevWant) {
			return fmt.Errorf("packing a %s disturbed the packet of a previously built %s (differs at byte %d)", ref9p.TypeName(m.Type), ref9p.TypeName(prevFc.Type), firstDiff(prevFc.Pkt, prevWant))
		}
		defer func() {
			prevFc, prevWant = fc, append([]byte(nil), fc.Pkt...)
			if len(prevWant) > 1<<16 {
				prevFc, prevWant = nil, nil
			}
		}()
	}
	// constructors always write NOTAG
	want := ref9p.SetTag(c.Pkt, ref9p.NOTAG)
	if !bytes.Equal(fc.Pkt, want) {
		return fmt.Errorf("%s%s dotu=%v (buffer %s): packet of %d bytes (Fcall.Size %d) differs from the protocol layout (%d bytes) at byte %d:\n got  %s\n want %s", ref9p.TypeName(m.Type), c.synthDesc(), c.Dotu, c.bufState(), len(fc.Pkt), fc.Size, len(want), firstDiff(fc.Pkt, want), hexs(fc.Pkt), hexs(want))
	}
	if int(fc.Size) != len(fc.Pkt) {
		return fmt.Errorf("Fcall.Size %d != len(Pkt) %d", fc.Size, len(fc.Pkt))
	}
	if fc.Type != m.Type {
		return fmt.Errorf("Fcall.Type %d != %d", fc.Type, m.Type)
	}
	go9p.SetTag(fc, c.NewTag)
	want = ref9p.SetTag(c.Pkt, c.NewTag)
	if !bytes.Equal(fc.Pkt, want) {
		return fmt.Errorf("after SetTag(%d) packet differs at byte %d", c.NewTag, firstDiff(fc.Pkt, want))
	}
	if fc.Tag != c.NewTag {
		return fmt.Errorf("after SetTag Fcall.Tag = %d, want %d", fc.Tag, c.NewTag)
	}
	if err := tagSeq(fc, c.Pkt, c.Tags, fmt.Sprintf("constructed %s, first tagged %#04x", ref9p.TypeName(m.Type), c.NewTag)); err != nil {
		return err
	}
	last := c.NewTag
	if len(c.Tags) > 0 {
		last = c.Tags[len(c.Tags)-1]
	}
	// decode what was built, followed by junk
	in := inBuf(c, fc.Pkt, c.Junk)
	got, consumed, derr := go9p.Unpack(in, c.Dotu)
	if derr != nil {
		return fmt.Errorf("%s dotu=%v: Unpack of the constructed packet (%d bytes + %d junk) failed: %v", ref9p.TypeName(m.Type), c.Dotu, len(fc.Pkt), len(c.Junk), derr)
	}
	if consumed != len(c.Pkt) {
		return fmt.Errorf("Unpack consumed %d, packet is %d", consumed, len(c.Pkt))
	}
	if int(got.Size) != len(c.Pkt) {
		return fmt.Errorf("decoded Size %d, packet is %d", got.Size, len(c.Pkt))
	}
	mm := *m
	mm.Tag = last
	a, b := ref9p.Canon(conv.FromFcall(got), c.Dotu), ref9p.Canon(&mm, c.Dotu)
	if d := ref9p.Diff(a, b); d != "" {
		return fmt.Errorf("%s dotu=%v: decoded field differs from the input: %s", ref9p.TypeName(m.Type), c.Dotu, d)
	}
	if err := unpackedTags(c, got, in, last); err != nil {
		return err
	}
	if len(c.UTags) > 0 {
		mm.Tag = c.UTags[len(c.UTags)-1]
	}
	return afterMsg(c, got, &mm, in)
}

// unpackedTags: a tag set on the Fcall that Unpack returned appears in that
// Fcall's packet and disturbs neither the rest of it nor the bytes behind it.
func unpackedTags(c *Case, got *go9p.Fcall, in []byte, tag uint16) error {
	if len(c.UTags) == 0 {
		return nil
	}
	if err := tagSeq(got, c.Pkt, c.UTags, fmt.Sprintf("%s that came out of Unpack with tag %#04x", ref9p.TypeName(got.Type), tag)); err != nil {
		return err
	}
	if !bytes.Equal(in[len(c.Pkt):], c.Junk) {
		return fmt.Errorf("SetTag %v on the Fcall that came out of Unpack changed bytes behind its packet", c.UTags)
	}
	return nil
}

func runDir(c *Case) error {
	// c.Pkt is a concatenation of Nrec reference stat records
	var recs []*ref9p.Stat
	rest := c.Pkt
	for len(rest) > 0 {
		s, n, err := ref9p.DecodeStat(rest, c.Dotu)
		if err != nil {
			return fmt.Errorf("harness: reference stat bytes do not decode: %v", err)
		}
		recs = append(recs, s)
		rest = rest[n:]
	}
	// encode each with go9p
	var all []byte
	var held [][]byte
	for i, s := range recs {
		gd := conv.GDir(s)
		gd.Size = c.DirSize // the Size field of a Dir is derived data: whatever it holds, the encoding is the same
		b := go9p.PackDir(gd, c.Dotu)
		want := ref9p.EncodeStat(s, c.Dotu)
		if !bytes.Equal(b, want) {
			return fmt.Errorf("PackDir record %d dotu=%v differs at byte %d:\n got  %s\n want %s", i, c.Dotu, firstDiff(b, want), hexs(b), hexs(want))
		}
		held = append(held, b)
	}
	// the records are values of their own: encoding another one must not disturb them
	for i, s := range recs {
		want := ref9p.EncodeStat(s, c.Dotu)
		if !bytes.Equal(held[i], want) {
			return fmt.Errorf("PackDir record %d of %d was overwritten by a later PackDir call (differs at byte %d)", i, len(recs), firstDiff(held[i], want))
		}
		all = append(all, held[i]...)
	}
	buf := inBuf(c, all, c.Junk)
	b := buf
	var kept []*go9p.Dir
	// keptDirs: every Dir that UnpackDir returned so far still holds the reference
	// values (all of a Dir's fields are values of their own, none may refer to
	// the buffer it was decoded from)
	keptDirs := func(when string) error {
		for i, d := range kept {
			gs := ref9p.CanonStat(ptr(conv.Stat(d)), c.Dotu)
			ws := ref9p.CanonStat(recs[i], c.Dotu)
			if gs != ws {
				return fmt.Errorf("record %d of %d dotu=%v: a field of the Dir that UnpackDir returned (and that compared equal right after decoding) changed after %s:\n got  %s\n want %s", i, len(recs), c.Dotu, when, statStr(&gs), statStr(&ws))
			}
			if int(d.Size) != ref9p.StatLen(recs[i], c.Dotu)-2 {
				return fmt.Errorf("record %d: Dir.Size changed to %d after %s", i, d.Size, when)
			}
		}
		return nil
	}
	for i, s := range recs {
		d, nb, amt, err := go9p.UnpackDir(b, c.Dotu)
		if err != nil {
			return fmt.Errorf("UnpackDir record %d/%d dotu=%v: %v", i, len(recs), c.Dotu, err)
		}
		wantLen := ref9p.StatLen(s, c.Dotu)
		if amt != wantLen {
			return fmt.Errorf("UnpackDir record %d: amt %d, record is %d", i, amt, wantLen)
		}
		if len(nb) != len(b)-wantLen {
			return fmt.Errorf("UnpackDir record %d: remainder %d bytes, want %d", i, len(nb), len(b)-wantLen)
		}
		if int(d.Size) != wantLen-2 {
			return fmt.Errorf("UnpackDir record %d: Dir.Size %d, want %d", i, d.Size, wantLen-2)
		}
		gs := ref9p.CanonStat(ptr(conv.Stat(d)), c.Dotu)
		ws := ref9p.CanonStat(s, c.Dotu)
		if gs != ws {
			return fmt.Errorf("UnpackDir record %d dotu=%v: fields differ:\n got  %#v\n want %#v", i, c.Dotu, gs, ws)
		}
		kept = append(kept, d)
		if c.After == "eat" {
			// the consumer is done with the bytes of this record
			clobber(c, b[:amt])
			if err := keptDirs(fmt.Sprintf("the %d bytes it was decoded from were overwritten", amt)); err != nil {
				return err
			}
		}
		// a decoded Dir encodes back to the same record, in the same dialect ...
		if re := go9p.PackDir(d, c.Dotu); !bytes.Equal(re, ref9p.EncodeStat(s, c.Dotu)) {
			return fmt.Errorf("record %d dotu=%v: re-encoding the decoded Dir gives different bytes (differs at byte %d)", i, c.Dotu, firstDiff(re, ref9p.EncodeStat(s, c.Dotu)))
		}
		// ... and in the other dialect to that dialect's layout of the same fields
		{
			o := *s
			if c.Dotu {
				o.Ext, o.Nuid, o.Ngid, o.Nmuid = "", 0, 0, 0
			} else {
				o.Nuid, o.Ngid, o.Nmuid = d.Uidnum, d.Gidnum, d.Muidnum
			}
			if ref9p.StatLen(&o, !c.Dotu) <= 65535+2 {
				if re := go9p.PackDir(d, !c.Dotu); !bytes.Equal(re, ref9p.EncodeStat(&o, !c.Dotu)) {
					return fmt.Errorf("record %d decoded with dotu=%v: re-encoding it with dotu=%v gives different bytes (differs at byte %d, length %d want %d)", i, c.Dotu, !c.Dotu, firstDiff(re, ref9p.EncodeStat(&o, !c.Dotu)), len(re), ref9p.StatLen(&o, !c.Dotu))
				}
			}
		}
		b = nb
	}
	switch c.After {
	case "":
		return nil
	case "next":
		// the buffer receives another record, which is decoded from it
		ns, n, err := ref9p.DecodeStat(c.Next, c.NextDotu)
		if err != nil || n != len(c.Next) {
			return fmt.Errorf("harness: reference bytes of the next stat record do not decode: %v", err)
		}
		full := buf[:cap(buf)]
		if len(full) < len(c.Next) {
			return fmt.Errorf("harness: buffer of %d bytes cannot take the next record of %d", len(full), len(c.Next))
		}
		copy(full, c.Next)
		d2, _, amt, derr := go9p.UnpackDir(full[:len(c.Next)], c.NextDotu)
		if derr != nil || amt != len(c.Next) {
			return fmt.Errorf("stat record dotu=%v received into the buffer earlier records were decoded from: UnpackDir amt %d of %d, err %v", c.NextDotu, amt, len(c.Next), derr)
		}
		if gs, ws := ref9p.CanonStat(ptr(conv.Stat(d2)), c.NextDotu), ref9p.CanonStat(ns, c.NextDotu); gs != ws {
			return fmt.Errorf("stat record dotu=%v received into the buffer earlier records were decoded from: fields differ:\n got  %s\n want %s", c.NextDotu, statStr(&gs), statStr(&ws))
		}
		if err := keptDirs("another record was received into the same buffer and decoded"); err != nil {
			return err
		}
		clobber(c, full)
		if gs, ws := ref9p.CanonStat(ptr(conv.Stat(d2)), c.NextDotu), ref9p.CanonStat(ns, c.NextDotu); gs != ws {
			return fmt.Errorf("stat record dotu=%v: a field of the Dir that UnpackDir returned changed after its source buffer was overwritten (flip):\n got  %s\n want %s", c.NextDotu, statStr(&gs), statStr(&ws))
		}
	default:
		clobber(c, buf)
	}
	return keptDirs("the source buffer was overwritten (" + c.After + ")")
}

func statStr(s *ref9p.Stat) string {
	x := fmt.Sprintf("%#v", *s)
	if len(x) > 400 {
		x = x[:400] + "…"
	}
	return x
}

func ptr[T any](v T) *T { return &v }

func runRread(c *Case) error {
	m, _, err := ref9p.Decode(c.Pkt, c.Dotu)
	if err != nil || m.Type != ref9p.Rread {
		return fmt.Errorf("harness: bad rread case: %v", err)
	}
	if int(c.Init) < len(m.Data) {
		return fmt.Errorf("harness: init < n")
	}
	fc, err := newFcall(c, 7+4+int(c.Init))
	if err != nil {
		return err
	}
	if err := go9p.InitRread(fc, c.Init); err != nil {
		return fmt.Errorf("InitRread(%d) with a %d-byte buffer: %v", c.Init, len(fc.Buf), err)
	}
	if len(fc.Data) != int(c.Init) {
		return fmt.Errorf("InitRread(%d): len(Data)=%d", c.Init, len(fc.Data))
	}
	copy(fc.Data, m.Data)
	want := ref9p.SetTag(c.Pkt, ref9p.NOTAG)
	if c.TagFirst {
		// the tag is set after InitRread and before the count is known
		go9p.SetTag(fc, c.NewTag)
		want = ref9p.SetTag(c.Pkt, c.NewTag)
	}
	go9p.SetRreadCount(fc, uint32(len(m.Data)))
	if !bytes.Equal(fc.Pkt, want) {
		return fmt.Errorf("InitRread(%d)+SetRreadCount(%d) (buffer %s): packet differs at byte %d:\n got  %s\n want %s", c.Init, len(m.Data), c.bufState(), firstDiff(fc.Pkt, want), hexs(fc.Pkt), hexs(want))
	}
	if int(fc.Size) != len(want) || int(fc.Count) != len(m.Data) || len(fc.Data) != len(m.Data) {
		return fmt.Errorf("SetRreadCount: Size=%d Count=%d len(Data)=%d, want %d %d %d", fc.Size, fc.Count, len(fc.Data), len(want), len(m.Data), len(m.Data))
	}
	if err := tagSeq(fc, c.Pkt, append([]uint16{c.NewTag}, c.Tags...), "two-step Rread"); err != nil {
		return err
	}
	last := c.NewTag
	if len(c.Tags) > 0 {
		last = c.Tags[len(c.Tags)-1]
	}
	in := inBuf(c, fc.Pkt, c.Junk)
	got, consumed, derr := go9p.Unpack(in, c.Dotu)
	if derr != nil || consumed != len(want) {
		return fmt.Errorf("Unpack of two-step Rread: consumed %d err %v", consumed, derr)
	}
	if !bytes.Equal(got.Data[:got.Count], m.Data) || got.Tag != last {
		return fmt.Errorf("two-step Rread decodes to different data or tag")
	}
	if err := unpackedTags(c, got, in, last); err != nil {
		return err
	}
	mm := *m
	mm.Tag = last
	if len(c.UTags) > 0 {
		mm.Tag = c.UTags[len(c.UTags)-1]
	}
	return afterMsg(c, got, &mm, in)
}

func firstDiff(a, b []byte) int {
	for i := 0; i < len(a) && i < len(b); i++ {
		if a[i] != b[i] {
			return i
		}
	}
	if len(a) != len(b) {
		if len(a) < len(b) {
			return len(a)
		}
		return len(b)
	}
	return -1
}

func hexs(b []byte) string {
	if len(b) > 96 {
		return fmt.Sprintf("%x…(%d bytes)", b[:96], len(b))
	}
	return fmt.Sprintf("%x", b)
}

func nontrivial(m *ref9p.Msg, dotu bool, pkt []byte) bool {
	// at least one byte after the header is non-zero
	for _, b := range pkt[7:] {
		if b != 0 {
			return true
		}
	}
	return false
}

func sampleOf(c *Case) interface{} {
	s := *c
	if len(s.Pkt) > 64 {
		s.Desc += fmt.Sprintf(" (pkt truncated from %d bytes)", len(s.Pkt))
		s.Pkt = s.Pkt[:64]
	}
	if len(s.Junk) > 8 {
		s.Junk = s.Junk[:8]
	}
	if len(s.Next) > 32 {
		s.Desc += fmt.Sprintf(" (next truncated from %d bytes)", len(s.Next))
		s.Next = s.Next[:32]
	}
	if len(s.Prev) > 32 {
		s.Desc += fmt.Sprintf(" (prev truncated from %d bytes)", len(s.Prev))
		s.Prev = s.Prev[:32]
	}
	return s
}

// tagG draws a tag; the sentinel NOTAG and its neighbours are frequent, so that
// sequences "real tag, then NOTAG" and "NOTAG, then real tag" both come up.
func tagG() *rapid.Generator[uint16] {
	return rapid.OneOf(rapid.SampledFrom([]uint16{ref9p.NOTAG, ref9p.NOTAG, 0, 1, 0xFFFE, 0x00FF, 0xFF00}), gen9p.U16())
}

// drawReuse draws the state of the Fcall before the constructor is called and
// the SetTag sequences applied afterwards.
func drawReuse(t *rapid.T, c *Case, cfg gen9p.Cfg) {
	switch rapid.IntRange(0, 5).Draw(t, "buf") {
	case 0, 1: // fresh from NewFcall
	case 2:
		c.Fill = fillG().Draw(t, "fill")
	case 3:
		c.Fill = fillG().Draw(t, "fill")
		fallthrough
	default:
		c.PrevDotu = rapid.Bool().Draw(t, "prevdotu")
		pm := cfg.Msg(t, gen9p.AnyType(t), c.PrevDotu)
		c.Prev = ref9p.Encode(pm, c.PrevDotu)
	}
	c.Tags = rapid.SliceOfN(tagG(), 0, 3).Draw(t, "tags")
	c.UTags = rapid.SliceOfN(tagG(), 0, 3).Draw(t, "utags")
}

// drawAfter draws what happens to the decode source buffer once the decoder has
// returned (see Case.After). Seven cases in eight overwrite it in some way.
func drawAfter(t *rapid.T, c *Case, cfg gen9p.Cfg) {
	modes := []string{"", "zero", "flip", "flip", "fill", "fill", "next", "next"}
	if c.Kind == "dir" {
		modes = append(modes, "eat", "eat")
	}
	c.After = rapid.SampledFrom(modes).Draw(t, "after")
	switch c.After {
	case "fill", "eat":
		c.AfterFill = rapid.SliceOfN(rapid.Byte(), 1, 8).Draw(t, "afterfill")
	case "next":
		c.NextDotu = rapid.Bool().Draw(t, "nextdotu")
		if c.Kind == "dir" {
			st := cfg.Stat(t, c.NextDotu, "next")
			c.Next = ref9p.EncodeStat(&st, c.NextDotu)
		} else {
			c.Next = ref9p.Encode(cfg.Msg(t, gen9p.AnyType(t), c.NextDotu), c.NextDotu)
		}
	}
}

// strBytes: how many bytes of string data (the part of a decoded value that is
// not allowed to depend on the buffer afterwards) the message carries.
func strBytes(m *ref9p.Msg, dotu bool) int {
	n := 0
	switch m.Type {
	case ref9p.Tversion, ref9p.Rversion:
		n = len(m.Version)
	case ref9p.Tauth, ref9p.Tattach:
		n = len(m.Uname) + len(m.Aname)
	case ref9p.Rerror:
		n = len(m.Ename)
	case ref9p.Twalk:
		for _, w := range m.Wname {
			n += len(w)
		}
	case ref9p.Tcreate:
		n = len(m.Name)
		if dotu {
			n += len(m.Ext)
		}
	case ref9p.Rstat, ref9p.Twstat:
		n = statStrBytes(&m.Stat, dotu)
	}
	return n
}

func statStrBytes(s *ref9p.Stat, dotu bool) int {
	n := len(s.Name) + len(s.Uid) + len(s.Gid) + len(s.Muid)
	if dotu {
		n += len(s.Ext)
	}
	return n
}

func afterLabel(c *Case, strs int) {
	a := c.After
	if a == "" {
		a = "none"
	}
	hx.Label(fmt.Sprintf("%s buffer-afterwards=%s strings=%v", c.Kind, a, strs > 0))
}

func fillG() *rapid.Generator[[]byte] {
	return rapid.OneOf(rapid.SampledFrom([][]byte{{0xAA}, {0xFF}, {0x55}, {0x01}}), rapid.SliceOfN(rapid.Byte(), 1, 8).Filter(func(b []byte) bool {
		for _, x := range b {
			if x != 0 {
				return true
			}
		}
		return false
	}))
}

// reuseLabels: classes of the case with respect to buffer state and tag history.
func reuseLabels(c *Case) {
	buf := "fresh"
	switch {
	case len(c.Fill) > 0 && len(c.Prev) > 0:
		buf = "fill+prev"
	case len(c.Fill) > 0:
		buf = "fill"
	case len(c.Prev) > len(c.Pkt):
		buf = "prev-longer"
	case len(c.Prev) > 0:
		buf = "prev-shorter"
	}
	hx.Label(fmt.Sprintf("%s buf=%s", c.Kind, buf))
	hx.Label(fmt.Sprintf("settag: notag-after-real on built=%v on unpacked=%v", sentinelAfterReal(c.NewTag, c.Tags), sentinelAfterReal(lastTag(c), c.UTags)))
}

func lastTag(c *Case) uint16 {
	if len(c.Tags) > 0 {
		return c.Tags[len(c.Tags)-1]
	}
	return c.NewTag
}

func sentinelAfterReal(first uint16, seq []uint16) bool {
	cur := first
	for _, tg := range seq {
		if tg == ref9p.NOTAG && cur != ref9p.NOTAG {
			return true
		}
		cur = tg
	}
	return false
}

func TestReplay(t *testing.T) {
	e, err := hx.LoadReplay()
	if e == nil {
		t.Skip("no replay file", err)
	}
	replayEnv(t, e)
}

func replayEnv(t *testing.T, e *hx.Envelope) {
	var c Case
	if err := json.Unmarshal(e.Case, &c); err != nil {
		t.Fatalf("bad case: %v", err)
	}
	hx.Eval()
	if err := run(&c); err != nil {
		hx.Violation(e.Test, &c, err.Error())
		t.Fatalf("%v", err)
	}
}

func TestRegress(t *testing.T) {
	for _, e := range hx.Regressions() {
		replayEnv(t, e)
		hx.Label("regress")
	}
}

// TestCanonicalTable: every type x dialect with all-zero and all-max fields.
func TestCanonicalTable(t *testing.T) {
	bad := 0
	for _, dotu := range []bool{false, true} {
		for _, typ := range ref9p.AllTypes {
			for _, which := range []string{"zero", "max", "typical"} {
				m := canonical(typ, which)
				for _, state := range []string{"fresh", "fill-aa", "fill-ff", "prev"} {
					c := &Case{Kind: "msg", Dotu: dotu, Pkt: ref9p.Encode(m, dotu), Slack: 0, NewTag: 0xABCD, Desc: which + " " + state}
					switch state {
					case "fill-aa":
						c.Fill = []byte{0xAA}
					case "fill-ff":
						c.Fill = []byte{0xFF}
					case "prev":
						// longer than every message of the table, no zero byte in its body
						c.PrevDotu = !dotu
						c.Prev = ref9p.Encode(&ref9p.Msg{Type: ref9p.Twrite, Tag: 0x5A5A, Fid: 0xA5A5A5A5, Offset: 0xA5A5A5A5A5A5A5A5, Data: bytes.Repeat([]byte{0xA5}, 400)}, c.PrevDotu)
					}
					if state != "fresh" {
						c.Tags = []uint16{ref9p.NOTAG, 1, ref9p.NOTAG, 0}
						c.UTags = []uint16{ref9p.NOTAG, 0xABCD, 0, ref9p.NOTAG}
					}
					// every row: the buffer the packet was decoded from is overwritten
					// afterwards and the decoded fields are compared once more
					switch state {
					case "fresh":
						c.After = "flip"
					case "fill-aa":
						c.After = "zero"
					case "fill-ff":
						c.After, c.AfterFill = "fill", []byte{0x5A, 0x00, 0xFF}
					case "prev":
						// the next frame arrives in the same buffer: a Twalk with 16 names
						c.After, c.NextDotu = "next", !dotu
						c.Next = ref9p.Encode(canonical(ref9p.Twalk, "max"), c.NextDotu)
					}
					hx.Eval()
					hx.Label(fmt.Sprintf("canonical type=%s dotu=%v", ref9p.TypeName(typ), dotu))
					if which != "zero" {
						hx.NonTrivial("canon", typ, dotu, which, state)
					}
					hx.Sample("canonical", sampleOf(c))
					if err := run(c); err != nil {
						hx.Violation("canonical", c, err.Error())
						t.Errorf("%v", err)
						if bad++; bad >= 5 {
							// one defect shows in many rows; five replays say enough
							t.Fatalf("canonical table abandoned after %d violations", bad)
						}
					}
				}
			}
		}
	}
	hx.Exhaustive("canonical table: 27 types x 2 dialects x {all-zero, all-max, typical} x Fcall {fresh, filled 0xAA, filled 0xFF, used for a longer message}, the re-used ones with SetTag sequences through NOTAG on the built and on the decoded Fcall; in every row the decode source buffer is then flipped / zeroed / filled / re-used for another message and the decoded fields compared again")
	// stat records on their own: decoded with UnpackDir, then the buffer is
	// overwritten in each of the ways, then the kept Dirs are compared again
	for _, dotu := range []bool{false, true} {
		for _, which := range []string{"max", "typical"} {
			for _, after := range []string{"zero", "flip", "fill", "eat", "next"} {
				st := canonical(ref9p.Rstat, which).Stat
				other := canonical(ref9p.Rstat, map[string]string{"max": "typical", "typical": "max"}[which]).Stat
				c := &Case{Kind: "dir", Dotu: dotu, Nrec: 3, After: after, Junk: []byte{1, 2, 3}, Desc: "stat " + which + " then buffer " + after}
				c.Pkt = append(append(ref9p.EncodeStat(&st, dotu), ref9p.EncodeStat(&other, dotu)...), ref9p.EncodeStat(&st, dotu)...)
				if after == "next" {
					c.NextDotu = !dotu
					c.Next = ref9p.EncodeStat(&other, c.NextDotu)
				}
				hx.Eval()
				hx.Label(fmt.Sprintf("canonical stat dotu=%v", dotu))
				hx.NonTrivial("canon-dir", dotu, which, after)
				hx.Sample("canonical-dir", sampleOf(c))
				if err := run(c); err != nil {
					hx.Violation("canonical", c, err.Error())
					t.Errorf("%v", err)
				}
			}
		}
	}
	hx.Exhaustive("stat records on their own: 2 dialects x {all-max, typical} x source buffer afterwards {zeroed, flipped, filled, each record overwritten once consumed, re-used for a record of the other dialect}")
}

func canonical(typ uint8, which string) *ref9p.Msg {
	m := &ref9p.Msg{Type: typ}
	if which == "zero" {
		return m
	}
	if which == "max" {
		s := "\xff\x00/\xfe"
		m.Tag = 0xFFFF
		m.Msize, m.Version = 0xFFFFFFFF, s
		m.Fid, m.Afid, m.Newfid, m.Nuname = 0xFFFFFFFF, 0xFFFFFFFF, 0xFFFFFFFF, 0xFFFFFFFF
		m.Uname, m.Aname, m.Ename, m.Name, m.Ext = s, s, s, s, s
		m.Ecode, m.Oldtag, m.Mode, m.Iounit, m.Perm = 0xFFFFFFFF, 0xFFFF, 0xFF, 0xFFFFFFFF, 0xFFFFFFFF
		m.Qid = ref9p.Qid{Type: 0xFF, Vers: 0xFFFFFFFF, Path: 0xFFFFFFFFFFFFFFFF}
		m.Offset, m.Count = 0xFFFFFFFFFFFFFFFF, 0xFFFFFFFF
		m.Data = bytes.Repeat([]byte{0xFF}, 33)
		for i := 0; i < 16; i++ {
			m.Wname = append(m.Wname, s)
			m.Wqid = append(m.Wqid, m.Qid)
		}
		m.Stat = ref9p.Stat{Type: 0xFFFF, Dev: 0xFFFFFFFF, Qid: m.Qid, Mode: 0xFFFFFFFF, Atime: 0xFFFFFFFF, Mtime: 0xFFFFFFFF,
			Length: 0xFFFFFFFFFFFFFFFF, Name: s, Uid: s, Gid: s, Muid: s, Ext: s, Nuid: 0xFFFFFFFF, Ngid: 0xFFFFFFFF, Nmuid: 0xFFFFFFFF}
		return m
	}
	m.Tag = 0x1234
	m.Msize, m.Version = 8192, "9P2000.u"
	m.Fid, m.Afid, m.Newfid, m.Nuname = 1, 2, 3, 1000
	m.Uname, m.Aname, m.Ename, m.Name, m.Ext = "glenda", "/tmp", "file not found", "notes.txt", "../target"
	m.Ecode, m.Oldtag, m.Mode, m.Iounit, m.Perm = 2, 7, 1, 8168, 0o644
	m.Qid = ref9p.Qid{Type: 0x80, Vers: 5, Path: 0x0102030405060708}
	m.Offset, m.Count = 0x1122334455667788, 4096
	m.Data = []byte("hello, 9p\n")
	m.Wname = []string{"usr", "glenda", "lib"}
	m.Wqid = []ref9p.Qid{m.Qid, {Type: 0, Vers: 1, Path: 9}}
	m.Stat = ref9p.Stat{Type: 1, Dev: 2, Qid: m.Qid, Mode: 0x800001ED, Atime: 3, Mtime: 4, Length: 5, Name: "lib", Uid: "glenda", Gid: "sys", Muid: "bootes", Ext: "x", Nuid: 10, Ngid: 20, Nmuid: 30}
	return m
}

func TestPropCodec(t *testing.T) {
	cfg := gen9p.Cfg{Heavy: true, MaxData: 20000}
	hx.Check(t, "codec", hx.N(30000, 200000), func(t *rapid.T) {
		dotu := rapid.Bool().Draw(t, "dotu")
		typ := gen9p.AnyType(t)
		m := cfg.Msg(t, typ, dotu)
		c := &Case{Kind: "msg", Dotu: dotu, Pkt: ref9p.Encode(m, dotu)}
		c.Slack = rapid.SampledFrom([]int{0, 0, 1, 100, 8192}).Draw(t, "slack")
		c.NewTag = gen9p.U16().Draw(t, "newtag")
		if typ == ref9p.Rstat || typ == ref9p.Twstat {
			c.DirSize = gen9p.U16().Draw(t, "dirsize")
		}
		if rapid.Bool().Draw(t, "withjunk") {
			c.Junk = rapid.SliceOfN(rapid.Byte(), 1, 40).Draw(t, "junk")
		}
		drawReuse(t, c, cfg)
		drawAfter(t, c, cfg)
		hx.Eval()
		hx.Label(fmt.Sprintf("type=%s dotu=%v str=%s", ref9p.TypeName(typ), dotu, gen9p.StrClass(m)))
		reuseLabels(c)
		afterLabel(c, strBytes(m, dotu))
		if nontrivial(m, dotu, c.Pkt) {
			hx.NonTrivial("msg", dotu, c.Pkt)
		}
		hx.Sample("codec", sampleOf(c))
		if err := run(c); err != nil {
			hx.Failf(t, "codec", c, "%v", err)
		}
	})
}

func TestPropDir(t *testing.T) {
	cfg := gen9p.Cfg{Heavy: true}
	hx.Check(t, "dir", hx.N(8000, 60000), func(t *rapid.T) {
		dotu := rapid.Bool().Draw(t, "dotu")
		n := rapid.IntRange(1, 5).Draw(t, "nrec")
		c := &Case{Kind: "dir", Dotu: dotu, Nrec: n, DirSize: gen9p.U16().Draw(t, "dirsize")}
		strs := 0
		for i := 0; i < n; i++ {
			s := cfg.Stat(t, dotu, "st")
			strs += statStrBytes(&s, dotu)
			c.Pkt = append(c.Pkt, ref9p.EncodeStat(&s, dotu)...)
		}
		if rapid.Bool().Draw(t, "withjunk") {
			c.Junk = rapid.SliceOfN(rapid.Byte(), 1, 40).Draw(t, "junk")
		}
		drawAfter(t, c, cfg)
		hx.Eval()
		afterLabel(c, strs)
		hx.Label(fmt.Sprintf("dir dotu=%v nrec=%d", dotu, n))
		hx.NonTrivial("dir", dotu, c.Pkt)
		hx.Sample("dir", sampleOf(c))
		if err := run(c); err != nil {
			hx.Failf(t, "dir", c, "%v", err)
		}
	})
}

func TestPropRread(t *testing.T) {
	hx.Check(t, "rread", hx.N(5000, 40000), func(t *rapid.T) {
		dotu := rapid.Bool().Draw(t, "dotu")
		init := rapid.OneOf(rapid.IntRange(0, 64), rapid.IntRange(0, 70000)).Draw(t, "init")
		n := rapid.OneOf(rapid.Just(0), rapid.Just(init), rapid.IntRange(0, init)).Draw(t, "n")
		m := &ref9p.Msg{Type: ref9p.Rread, Tag: 0, Data: gen9p.Bytes(t, n, "data")}
		c := &Case{Kind: "rread", Dotu: dotu, Pkt: ref9p.Encode(m, dotu), Init: uint32(init)}
		c.Slack = rapid.SampledFrom([]int{0, 1, 100}).Draw(t, "slack")
		c.NewTag = gen9p.U16().Draw(t, "newtag")
		c.TagFirst = rapid.Bool().Draw(t, "tagfirst")
		if rapid.Bool().Draw(t, "withjunk") {
			c.Junk = rapid.SliceOfN(rapid.Byte(), 1, 40).Draw(t, "junk")
		}
		drawReuse(t, c, gen9p.Cfg{Heavy: true, MaxData: 20000})
		drawAfter(t, c, gen9p.Cfg{Heavy: true, MaxData: 20000})
		hx.Eval()
		reuseLabels(c)
		afterLabel(c, 0)
		hx.Label(fmt.Sprintf("rread-two-step shrink=%v tagfirst=%v", n < init, c.TagFirst))
		if n > 0 {
			hx.NonTrivial("rread", init, c.Pkt)
		}
		hx.Sample("rread", sampleOf(c))
		if err := run(c); err != nil {
			hx.Failf(t, "rread", c, "%v", err)
		}
	})
}

// TestAllStringLengths: thorough tier only — every length 0..65535 of one
// string field of every string-carrying type (sharded by length).
func TestAllStringLengths(t *testing.T) {
	step := 1
	if !hx.Thorough() {
		step = 257 // quick: a spread of 256 lengths incl. both ends
	}
	types := []uint8{ref9p.Tversion, ref9p.Rversion, ref9p.Tauth, ref9p.Tattach, ref9p.Rerror, ref9p.Twalk, ref9p.Tcreate, ref9p.Rstat, ref9p.Twstat}
	for n := hx.Shard * step; n <= 65535; n += step * hx.NShards {
		for _, ln := range []int{n, 65535 - n} {
			s := string(bytes.Repeat([]byte{byte(ln)}, ln))
			for _, typ := range types {
				if (typ == ref9p.Rstat || typ == ref9p.Twstat) && ln > 65535-70 {
					continue
				}
				dotu := (ln+int(typ))%2 == 0
				m := &ref9p.Msg{Type: typ, Tag: uint16(ln), Version: s, Uname: s, Ename: s, Name: s, Wname: []string{"a", s}}
				m.Stat.Name = s
				c := &Case{Kind: "msg", Dotu: dotu, Pkt: ref9p.Encode(m, dotu), NewTag: uint16(ln) ^ 0x5555}
				// two thirds of the lengths are built in an Fcall whose buffer is not zeroed
				switch (ln + int(typ)/2) % 3 {
				case 1:
					c.Fill = []byte{0xAA}
					c.Tags = []uint16{ref9p.NOTAG, uint16(ln)}
				case 2:
					c.Fill = []byte{0xFF, byte(ln)}
					c.UTags = []uint16{ref9p.NOTAG}
				}
				// afterwards the decode buffer is overwritten; the strings must stay
				c.After = []string{"flip", "zero", "fill"}[(ln+int(typ))%3]
				hx.Eval()
				hx.NonTrivial("len", typ, ln, dotu)
				if err := run(c); err != nil {
					hx.Violation("strlen", c, err.Error())
					t.Fatalf("len %d: %v", ln, err)
				}
			}
		}
	}
	hx.Label("string-length sweep")
	if hx.Thorough() {
		hx.Exhaustive("every string length 0..65535 for one string field of each of 9 string-carrying types, the decode buffer flipped / zeroed / filled afterwards")
	}
}

func (c *Case) synthDesc() string {
	if c.Synth == nil {
		return ""
	}
	switch c.Synth.Type {
	case ref9p.Twalk:
		return fmt.Sprintf(" with %d names of 0..%d bytes", c.Synth.N, c.Synth.L)
	case ref9p.Rwalk:
		return fmt.Sprintf(" with %d qids", c.Synth.N)
	}
	return fmt.Sprintf(" with %d payload bytes", c.Synth.N)
}

// ---- counts at the extremes -------------------------------------------------

// wrapPoints: the counts n around which n*unit crosses a multiple of 2^16 (a
// size computed in 16 bits goes wrong from there on), up to 65535.
func wrapPoints(unit int) []int {
	var out []int
	for k := 1; ; k++ {
		n := (k<<16 + unit - 1) / unit // first n with n*unit >= k*2^16
		if n > 65535 {
			break
		}
		out = append(out, n-1, n, n+1)
	}
	return out
}

func countLabel(n int) string {
	switch {
	case n <= 16:
		return "0-16"
	case n < 5000:
		return "17-4999"
	case n < 32768:
		return "5000-32767"
	case n < 65535:
		return "32768-65534"
	}
	return "65535"
}

func payloadLabel(n int) string {
	switch {
	case n < 65536-64:
		return "<2^16-64"
	case n <= 65536+64:
		return "2^16+-64"
	case n < 1<<20-64:
		return "2^16+64..2^20-64"
	}
	return ">=2^20-64"
}

// TestCountExtremes: every constructor that takes a 16-bit count (nwname, nwqid)
// at the ends and at the wrap points of that count, and the payload carriers
// around 2^16 and 2^20, each compared byte for byte with the reference encoder
// and decoded again.
func TestCountExtremes(t *testing.T) {
	type row struct {
		typ  uint8
		n, l int
	}
	var rows []row
	for _, n := range append([]int{17, 255, 256, 4096, 5041, 5042, 6000, 32767, 32768, 65534, 65535}, wrapPoints(13)...) {
		rows = append(rows, row{ref9p.Rwalk, n, 0})
	}
	for _, l := range []int{0, 3, 14} {
		for _, n := range []int{17, 256, 4096, 32767, 32768, 65534, 65535} {
			rows = append(rows, row{ref9p.Twalk, n, l})
		}
	}
	for _, n := range wrapPoints(2) { // names all empty: 2 bytes each
		rows = append(rows, row{ref9p.Twalk, n, 0})
	}
	for _, typ := range []uint8{ref9p.Rread, ref9p.Twrite} {
		hdr := 11
		if typ == ref9p.Twrite {
			hdr = 23
		}
		for _, n := range []int{65535 - hdr, 65536 - hdr, 65537 - hdr, 65534, 65535, 65536, 65537, 1<<17 - hdr, 1 << 17, 1<<20 - hdr, 1 << 20, 1<<20 + 1} {
			rows = append(rows, row{typ, n, 0})
		}
	}
	bad := 0
	for i, r := range rows {
		if i%hx.NShards != hx.Shard {
			continue
		}
		for _, dotu := range []bool{false, true} {
			c := &Case{Kind: "msg", Dotu: dotu, Synth: &Synth{Type: r.typ, N: r.n, L: r.l, Seed: uint32(i)*2 + 1}, NewTag: uint16(r.n) ^ 0x5A5A, Desc: "count extremes"}
			if dotu {
				c.Fill, c.After = []byte{0xAA}, "flip"
				c.Tags, c.UTags = []uint16{ref9p.NOTAG, 1}, []uint16{ref9p.NOTAG}
			} else {
				c.Slack, c.After = 1, "zero"
			}
			hx.Eval()
			hx.NonTrivial("count", r.typ, r.n, r.l, dotu)
			if r.typ == ref9p.Twalk || r.typ == ref9p.Rwalk {
				hx.Label(fmt.Sprintf("extremes type=%s count=%s", ref9p.TypeName(r.typ), countLabel(r.n)))
			} else {
				hx.Label(fmt.Sprintf("extremes type=%s payload=%s", ref9p.TypeName(r.typ), payloadLabel(r.n)))
			}
			hx.Sample("count-extremes", sampleOf(c))
			if err := run(c); err != nil {
				hx.Violation("count-extremes", c, err.Error())
				t.Errorf("%v", err)
				if bad++; bad >= 5 {
					t.Fatalf("count table abandoned after %d violations", bad)
				}
			}
		}
	}
	hx.Exhaustive("count extremes: Rwalk with 17, 255, 256, 4096, 5041, 5042, 6000, 32767, 32768, 65534, 65535 qids and every count n-1, n, n+1 where 13*n crosses a multiple of 2^16; Twalk with 17..65535 names of 0..{0,3,14} bytes and the counts where 2*n crosses 2^16; Rread / Twrite with payloads that put the payload or the whole packet at 2^16-1, 2^16, 2^16+1, 2^17, 2^20; both dialects")
}

// TestPropCounts: the same constructors with drawn counts.
func TestPropCounts(t *testing.T) {
	cfg := gen9p.Cfg{Heavy: false, MaxData: 300}
	hx.Check(t, "counts", hx.N(100, 600), func(t *rapid.T) {
		dotu := rapid.Bool().Draw(t, "dotu")
		sy := &Synth{Type: rapid.SampledFrom([]uint8{ref9p.Rwalk, ref9p.Rwalk, ref9p.Twalk, ref9p.Twalk, ref9p.Rread, ref9p.Twrite}).Draw(t, "type"), Seed: rapid.Uint32().Draw(t, "seed")}
		switch sy.Type {
		case ref9p.Rwalk, ref9p.Twalk:
			unit := 13
			if sy.Type == ref9p.Twalk {
				sy.L = rapid.SampledFrom([]int{0, 0, 1, 2, 3, 6, 14}).Draw(t, "l")
				unit = 2
			}
			sy.N = rapid.OneOf(rapid.IntRange(0, 65535), rapid.IntRange(0, 65535), rapid.SampledFrom(append([]int{65535, 65534, 32768, 32767}, wrapPoints(unit)...))).Draw(t, "n")
		default:
			sy.N = rapid.OneOf(
				rapid.IntRange(65536-64, 65536+64),
				rapid.Custom(func(t *rapid.T) int {
					return rapid.IntRange(1, 16).Draw(t, "k")<<16 + rapid.IntRange(-32, 32).Draw(t, "d")
				}),
				rapid.IntRange(0, 1<<20)).Draw(t, "n")
		}
		c := &Case{Kind: "msg", Dotu: dotu, Synth: sy}
		c.Slack = rapid.SampledFrom([]int{0, 0, 1, 100, 8192}).Draw(t, "slack")
		c.NewTag = gen9p.U16().Draw(t, "newtag")
		if rapid.Bool().Draw(t, "withjunk") {
			c.Junk = rapid.SliceOfN(rapid.Byte(), 1, 40).Draw(t, "junk")
		}
		drawReuse(t, c, cfg)
		drawAfter(t, c, cfg)
		hx.Eval()
		if sy.Type == ref9p.Twalk || sy.Type == ref9p.Rwalk {
			hx.Label(fmt.Sprintf("counts type=%s count=%s", ref9p.TypeName(sy.Type), countLabel(sy.N)))
		} else {
			hx.Label(fmt.Sprintf("counts type=%s payload=%s", ref9p.TypeName(sy.Type), payloadLabel(sy.N)))
		}
		reuseLabels(c)
		if sy.N > 0 {
			hx.NonTrivial("synth", dotu, sy.Type, sy.N, sy.L, sy.Seed)
		}
		hx.Sample("counts", sampleOf(c))
		if err := run(c); err != nil {
			hx.Failf(t, "counts", c, "%v", err)
		}
	})
}

// ---- the codec used from several goroutines at once ------------------------

// concItem is one "msg" / "dir" case prepared for the repeated part of a
// concurrent run: reference values computed once, buffers owned by the worker.
type concItem struct {
	c     *Case
	m     *ref9p.Msg // msg: reference record (tag = the one in c.Pkt)
	canon *ref9p.Msg
	notag []byte
	fc    *go9p.Fcall
	in    []byte // own copy of the bytes that are decoded
	recs  []ref9p.Stat
	dirs  []*go9p.Dir
	encs  [][]byte
}

func prepItem(c *Case) (*concItem, error) {
	it := &concItem{c: c, in: append([]byte(nil), c.Pkt...)}
	switch c.Kind {
	case "msg":
		m, n, err := ref9p.Decode(c.Pkt, c.Dotu)
		if err != nil || n != len(c.Pkt) {
			return nil, fmt.Errorf("harness: reference bytes do not decode: %v", err)
		}
		it.m, it.canon, it.notag = m, ref9p.Canon(m, c.Dotu), ref9p.SetTag(c.Pkt, ref9p.NOTAG)
		it.fc = go9p.NewFcall(uint32(len(c.Pkt) + c.Slack))
	case "dir":
		rest := c.Pkt
		for len(rest) > 0 {
			s, n, err := ref9p.DecodeStat(rest, c.Dotu)
			if err != nil {
				return nil, fmt.Errorf("harness: reference stat bytes do not decode: %v", err)
			}
			it.recs = append(it.recs, ref9p.CanonStat(s, c.Dotu))
			it.dirs = append(it.dirs, conv.GDir(s))
			it.encs = append(it.encs, rest[:n])
			rest = rest[n:]
		}
	default:
		return nil, fmt.Errorf("harness: kind %q inside a concurrent case", c.Kind)
	}
	return it, nil
}

// step: encode + compare + decode + compare, everything on the item's own data.
func (it *concItem) step() error {
	c := it.c
	if c.Kind == "msg" {
		if err := conv.Pack(it.fc, it.m, c.Dotu); err != nil {
			return fmt.Errorf("constructor refused a representable %s: %v", ref9p.TypeName(it.m.Type), err)
		}
		if !bytes.Equal(it.fc.Pkt, it.notag) {
			return fmt.Errorf("%s dotu=%v: packet differs from the protocol layout at byte %d:\n got  %s\n want %s", ref9p.TypeName(it.m.Type), c.Dotu, firstDiff(it.fc.Pkt, it.notag), hexs(it.fc.Pkt), hexs(it.notag))
		}
		go9p.SetTag(it.fc, it.m.Tag)
		if !bytes.Equal(it.fc.Pkt, c.Pkt) {
			return fmt.Errorf("%s dotu=%v: after SetTag(%d) packet differs at byte %d", ref9p.TypeName(it.m.Type), c.Dotu, it.m.Tag, firstDiff(it.fc.Pkt, c.Pkt))
		}
		got, n, err := go9p.Unpack(it.in, c.Dotu)
		if err != nil || n != len(it.in) {
			return fmt.Errorf("%s dotu=%v: Unpack consumed %d of %d, err %v", ref9p.TypeName(it.m.Type), c.Dotu, n, len(it.in), err)
		}
		if d := ref9p.Diff(ref9p.Canon(conv.FromFcall(got), c.Dotu), it.canon); d != "" {
			return fmt.Errorf("%s dotu=%v: decoded field differs from the input: %s", ref9p.TypeName(it.m.Type), c.Dotu, d)
		}
		return nil
	}
	b := it.in
	for i := range it.recs {
		if e := go9p.PackDir(it.dirs[i], c.Dotu); !bytes.Equal(e, it.encs[i]) {
			return fmt.Errorf("PackDir record %d dotu=%v differs at byte %d:\n got  %s\n want %s", i, c.Dotu, firstDiff(e, it.encs[i]), hexs(e), hexs(it.encs[i]))
		}
		d, nb, amt, err := go9p.UnpackDir(b, c.Dotu)
		if err != nil || amt != len(it.encs[i]) || len(nb) != len(b)-amt {
			return fmt.Errorf("UnpackDir record %d/%d dotu=%v: amt %d (record is %d), remainder %d of %d, err %v", i, len(it.recs), c.Dotu, amt, len(it.encs[i]), len(nb), len(b), err)
		}
		if gs := ref9p.CanonStat(ptr(conv.Stat(d)), c.Dotu); gs != it.recs[i] {
			return fmt.Errorf("UnpackDir record %d dotu=%v: fields differ from the bytes it was given:\n got  %s\n want %s", i, c.Dotu, statStr(&gs), statStr(&it.recs[i]))
		}
		b = nb
	}
	return nil
}

type concFail struct {
	worker, item, round int // round -1: the full run of the case
	err                 error
}

// runConc: len(c.Workers) goroutines use the codec at the same moment, each on
// its own cases. The functions under test are functions of their arguments;
// whatever the interleaving, each result must be what the reference says for
// that goroutine's own input. (Which interleavings happen is up to the Go
// scheduler: a run that finds nothing proves little, a mismatch is a fact.)
func runConc(c *Case) error {
	if len(c.Workers) == 0 || len(c.Workers) > 64 || c.Rounds < 0 {
		return fmt.Errorf("harness: bad concurrent case")
	}
	items := make([][]*concItem, len(c.Workers))
	for g := range c.Workers {
		for i := range c.Workers[g] {
			sc := c.Workers[g][i] // copy
			if sc.DirSize != 0 || len(sc.Prev) > 0 || sc.Synth != nil {
				return fmt.Errorf("harness: worker case touches shared harness state")
			}
			sc.conc = true
			it, err := prepItem(&sc)
			if err != nil {
				return err
			}
			items[g] = append(items[g], it)
		}
	}
	conv.DirSize = 0
	var stop atomic.Bool
	fails := make([]*concFail, len(c.Workers))
	start := make(chan struct{})
	var wg sync.WaitGroup
	for g := range items {
		wg.Add(1)
		go func(g int) {
			defer wg.Done()
			fail := func(i, r int, err error) {
				fails[g] = &concFail{g, i, r, err}
				stop.Store(true)
			}
			defer func() {
				if r := recover(); r != nil && fails[g] == nil {
					fail(-1, -1, fmt.Errorf("panic: %v", r))
				}
			}()
			<-start
			for i, it := range items[g] {
				if stop.Load() {
					return
				}
				if err := run(it.c); err != nil {
					fail(i, -1, err)
					return
				}
			}
			for r := 0; r < c.Rounds; r++ {
				for i, it := range items[g] {
					if err := it.step(); err != nil {
						fail(i, r, err)
						return
					}
				}
				if stop.Load() {
					return
				}
			}
		}(g)
	}
	close(start)
	wg.Wait()
	for _, f := range fails {
		if f == nil {
			continue
		}
		alone := "the same case, run afterwards on its own with no other goroutine in the codec, passes"
		if f.item >= 0 {
			it := items[f.worker][f.item]
			err := run(it.c)
			if err == nil {
				err = it.step()
			}
			if err != nil {
				alone = "run afterwards on its own it fails too: " + err.Error()
			}
		}
		where := "full run of the case"
		if f.round >= 0 {
			where = fmt.Sprintf("round %d of %d", f.round, c.Rounds)
		}
		return fmt.Errorf("%d goroutines using the codec at the same time, each on its own Fcalls, buffers and records: goroutine %d, case %d of %d (%s), %s: %v\n(%s)", len(c.Workers), f.worker, f.item, len(c.Workers[f.worker]), c.Workers[f.worker][max(f.item, 0)].Kind, where, f.err, alone)
	}
	return nil
}

// namePool hands out distinct byte strings of one length: a common prefix and a
// two-byte counter walked with an odd stride, so that small tables indexed by
// any hash of the name see many different names in every slot.
type namePool struct {
	prefix       []byte
	next, stride uint16
	printable    bool
}

func (p *namePool) fresh() string {
	b := append([]byte(nil), p.prefix...)
	v := p.next
	p.next += p.stride
	if p.printable {
		const hexd = "0123456789abcdef"
		b = append(b, hexd[v>>12], hexd[v>>8&15], hexd[v>>4&15], hexd[v&15])
	} else {
		b = append(b, byte(v>>8), byte(v))
	}
	return string(b)
}

func drawPool(t *rapid.T) *namePool {
	p := &namePool{printable: rapid.Bool().Draw(t, "printable")}
	if p.printable {
		p.prefix = []byte(rapid.SampledFrom([]string{"", "u", "usr", "user", "group-"}).Draw(t, "prefix"))
	} else {
		p.prefix = rapid.SliceOfN(rapid.Byte(), 0, 6).Draw(t, "prefix")
	}
	p.next = rapid.Uint16().Draw(t, "first")
	p.stride = rapid.Uint16().Draw(t, "stride") | 1
	return p
}

// poolStr: a name for one string field. own is the worker's recurring name
// (the "root" that every record of a listing carries).
func poolStr(t *rapid.T, p *namePool, own string, label string) string {
	switch k := rapid.IntRange(0, 9).Draw(t, label); {
	case k == 0:
		return ""
	case k <= 2:
		return own
	}
	return p.fresh()
}

func poolStat(t *rapid.T, cfg gen9p.Cfg, p *namePool, own string, dotu bool) ref9p.Stat {
	s := cfg.Stat(t, dotu, "st")
	s.Name, s.Uid, s.Gid, s.Muid = poolStr(t, p, own, "name"), poolStr(t, p, own, "uid"), poolStr(t, p, own, "gid"), poolStr(t, p, own, "muid")
	if dotu {
		s.Ext = poolStr(t, p, own, "ext")
	} else {
		s.Ext = ""
	}
	return s
}

// poolMsg: a generated message whose strings all come from the pool.
func poolMsg(t *rapid.T, cfg gen9p.Cfg, p *namePool, own string, typ uint8, dotu bool) *ref9p.Msg {
	m := cfg.Msg(t, typ, dotu)
	str := func(s *string, label string) {
		if *s != "" {
			*s = poolStr(t, p, own, label)
		}
	}
	str(&m.Version, "version")
	str(&m.Uname, "uname")
	str(&m.Aname, "aname")
	str(&m.Ename, "ename")
	str(&m.Name, "name")
	str(&m.Ext, "ext")
	for i := range m.Wname {
		m.Wname[i] = poolStr(t, p, own, "wname")
	}
	if typ == ref9p.Rstat || typ == ref9p.Twstat {
		m.Stat = poolStat(t, cfg, p, own, dotu)
	}
	return m
}

// TestPropConcurrent: see runConc.
func TestPropConcurrent(t *testing.T) {
	cfg := gen9p.Cfg{Heavy: false, MaxData: 64}
	statTypes := []uint8{ref9p.Rstat, ref9p.Twstat}
	strTypes := []uint8{ref9p.Tversion, ref9p.Rversion, ref9p.Tauth, ref9p.Tattach, ref9p.Rerror, ref9p.Twalk, ref9p.Tcreate}
	hx.Check(t, "concurrent", hx.N(12, 16), func(t *rapid.T) {
		pool := drawPool(t)
		ng := rapid.SampledFrom([]int{2, 3, 4, 8, 8, 8, 12}).Draw(t, "goroutines")
		c := &Case{Kind: "conc", Rounds: hx.N(3000, 6000)}
		nmsg, ndir, nstr := 0, 0, 0
		for g := 0; g < ng; g++ {
			own := pool.fresh()
			var list []Case
			for i, n := 0, rapid.IntRange(4, 12).Draw(t, "ncases"); i < n; i++ {
				dotu := rapid.Bool().Draw(t, "dotu")
				sc := Case{Dotu: dotu}
				switch k := rapid.IntRange(0, 9).Draw(t, "what"); {
				case k < 4: // stat records on their own
					sc.Kind = "dir"
					sc.Nrec = rapid.IntRange(1, 4).Draw(t, "nrec")
					for j := 0; j < sc.Nrec; j++ {
						s := poolStat(t, cfg, pool, own, dotu)
						nstr += statStrBytes(&s, dotu)
						sc.Pkt = append(sc.Pkt, ref9p.EncodeStat(&s, dotu)...)
					}
					ndir++
				default:
					typ := gen9p.AnyType(t)
					if k < 6 {
						typ = rapid.SampledFrom(statTypes).Draw(t, "stattype")
					} else if k < 8 {
						typ = rapid.SampledFrom(strTypes).Draw(t, "strtype")
					}
					m := poolMsg(t, cfg, pool, own, typ, dotu)
					nstr += strBytes(m, dotu)
					sc.Kind, sc.Pkt = "msg", ref9p.Encode(m, dotu)
					sc.NewTag = gen9p.U16().Draw(t, "newtag")
					sc.Slack = rapid.SampledFrom([]int{0, 1, 100}).Draw(t, "slack")
					nmsg++
				}
				sc.After = rapid.SampledFrom([]string{"", "zero", "flip"}).Draw(t, "after")
				list = append(list, sc)
			}
			c.Workers = append(c.Workers, list)
		}
		hx.Eval()
		hx.Label(fmt.Sprintf("concurrent goroutines=%d", ng))
		hx.Label(fmt.Sprintf("concurrent name-length=%d printable=%v", len(pool.prefix)+map[bool]int{true: 4, false: 2}[pool.printable], pool.printable))
		hx.ExtraAdd("concurrent_msg_cases", int64(nmsg))
		hx.ExtraAdd("concurrent_dir_cases", int64(ndir))
		hx.ExtraAdd("concurrent_rounds", int64(c.Rounds*ng))
		if nstr > 0 {
			var id []byte
			for _, l := range c.Workers {
				for _, sc := range l {
					id = append(id, sc.Pkt...)
				}
			}
			hx.NonTrivial("conc", ng, id)
		}
		s := *c
		s.Workers = [][]Case{c.Workers[0][:1]}
		s.Desc = fmt.Sprintf("(sample shows 1 of %d cases of goroutine 0 of %d)", len(c.Workers[0]), ng)
		hx.Sample("concurrent", s)
		hx.Journal("concurrent", c)
		if err := run(c); err != nil {
			hx.Failf(t, "concurrent", c, "%v", err)
		}
	})
}
