package c20

import (
	"flag"
	"fmt"
	"regexp"
	"runtime"
	"strings"
	"sync/atomic"
	"time"

	"verif/internal/hx"
)

// hangTick: a call into go9p that is still in progress, unchanged, over two
// consecutive ticks (>= 20 s, ~10^6 x the normal latency) is a hang. The clock
// is used for nothing else.
const hangTick = 10 * time.Second

// After a hang with a culprit inside go9p has been established with the full
// deadline, rapid re-runs the case once to confirm it (and later properties may
// hang again); those runs use a shorter tick (still ~10^5 x the normal latency)
// so that a red run ends in minutes. The first verdict never depends on it.
const hangTickAfterHang = 2 * time.Second

var hangSeen atomic.Bool

func tick() time.Duration {
	if hangSeen.Load() {
		return hangTickAfterHang
	}
	return hangTick
}

type outcome struct {
	err          error  // violation (or harness error, prefixed "harness:")
	inconclusive string // deadline without a culprit inside go9p
}

// guarded runs body with nworkers call counters (odd = inside a go9p call) and
// watches for a call that never returns.
func guarded(nworkers int, body func(ws []worker) error) outcome {
	ctr := make([]atomic.Int64, nworkers)
	ws := make([]worker, nworkers)
	for i := range ws {
		ws[i] = worker{&ctr[i]}
	}
	done := make(chan error, 1)
	go func() {
		defer func() {
			if x := recover(); x != nil {
				buf := make([]byte, 8192)
				buf = buf[:runtime.Stack(buf, false)]
				done <- fmt.Errorf("panic: %v\n%s", x, buf)
			}
		}()
		done <- body(ws)
	}()
	period := tick()
	timer := time.NewTimer(period)
	defer timer.Stop()
	last := make([]int64, nworkers)
	strikes := make([]int, nworkers)
	for i := range last {
		last[i] = -1
	}
	for {
		select {
		case err := <-done:
			return outcome{err: err}
		case <-timer.C:
			stuck := -1
			for i := range ctr {
				v := ctr[i].Load()
				if v%2 == 1 && v == last[i] {
					strikes[i]++
					if strikes[i] >= 2 && stuck < 0 {
						stuck = i
					}
				} else {
					strikes[i] = 0
				}
				last[i] = v
			}
			if stuck >= 0 {
				return classifyHang(stuck, (ctr[stuck].Load()+1)/2, 2*period)
			}
			timer.Reset(period)
		}
	}
}

func dumpAll() string {
	buf := make([]byte, 1<<20)
	for {
		n := runtime.Stack(buf, true)
		if n < len(buf) || len(buf) >= 1<<28 {
			return string(buf[:n])
		}
		buf = make([]byte, 2*len(buf))
	}
}

var go9pFrame = regexp.MustCompile(`^github\.com/rminnich/go9p\.`)

// culprits returns the goroutine blocks whose innermost non-runtime frame is
// inside go9p, except logger goroutines idle in their select.
func culprits(dump string) []string {
	var out []string
	for _, blk := range strings.Split(dump, "\n\n") {
		blk = strings.TrimSpace(blk)
		if !strings.HasPrefix(blk, "goroutine ") {
			continue
		}
		lines := strings.Split(blk, "\n")
		head := lines[0]
		top := ""
		for _, ln := range lines[1:] {
			if strings.HasPrefix(ln, "\t") || strings.HasPrefix(ln, "created by ") {
				continue
			}
			if strings.HasPrefix(ln, "runtime.") || strings.HasPrefix(ln, "sync.") || strings.HasPrefix(ln, "internal/") {
				continue
			}
			top = ln
			break
		}
		if !go9pFrame.MatchString(top) {
			continue
		}
		if strings.Contains(top, "(*Logger).doLog") && strings.Contains(head, "[select") {
			continue // idle logger goroutine (one is left behind by every NewLogger)
		}
		out = append(out, blk)
	}
	return out
}

func classifyHang(workerIdx int, call int64, waited time.Duration) outcome {
	dump := dumpAll()
	cs := culprits(dump)
	if len(cs) == 0 {
		msg := fmt.Sprintf("C20: call %d of worker %d did not return within %v but no goroutine is inside go9p (starved machine or harness trouble)", call, workerIdx, waited)
		hx.Inconclusive(msg)
		return outcome{inconclusive: msg}
	}
	hangSeen.Store(true)
	// rapid's minimiser checks its time budget only between passes, and every
	// hanging variant costs seconds: do not minimise cases that hang (hx.Check
	// sets the flag again for the next property).
	_ = flag.Set("rapid.shrinktime", "1ns")
	if len(cs) > 6 {
		cs = cs[:6]
	}
	note := ""
	if waited < 2*hangTick {
		note = fmt.Sprintf(" (confirmation run; the hang was first established with the full %v deadline)", 2*hangTick)
	}
	return outcome{err: fmt.Errorf("call %d of worker %d did not return within %v%s; goroutines inside go9p (including any left from earlier hung cases):\n%s", call, workerIdx, waited, note, strings.Join(cs, "\n\n"))}
}
