// C20 — the message logger keeps the most recent entries in order.
//
// This file holds the case representation, the reference ring model, the
// oracles and the executors (sequential, sweep, concurrent). hang.go holds the
// hang watchdog; c20_test.go the generators and test entry points.
package c20

import (
	"fmt"
	"runtime"
	"sort"
	"strings"
	"sync"
	"sync/atomic"
	"time"

	"github.com/rminnich/go9p"
)

// ---------------------------------------------------------------------------
// owners and types

// ownerT has a non-zero size so that distinct allocations have distinct
// addresses; all pointees are equal, so only pointer identity tells owners apart.
type ownerT struct{ pad int64 }

// owner index 0 is nil: as the REQUESTED owner of a Filter it matches every
// entry; an entry LOGGED with a nil owner is an ordinary entry whose owner is
// equal to nil only, so it matches only requests with a nil owner. 1..3 = A, B,
// C are used by Log and Filter, 4 = D is used only by Filter (never logged).
// Types likewise: a requested type 0 matches everything, an entry logged with
// type 0 matches only requests with type 0.
var ownerTab = [5]*ownerT{nil, new(ownerT), new(ownerT), new(ownerT), new(ownerT)}

const ownerNames = "-ABCD"

// ownerIface returns a true nil interface for index 0 (not a typed nil pointer).
func ownerIface(idx int) interface{} {
	if idx <= 0 || idx >= len(ownerTab) {
		return nil
	}
	return ownerTab[idx]
}

func ownerIndex(v interface{}) int {
	if v == nil {
		return 0
	}
	p, ok := v.(*ownerT)
	if !ok {
		for i := 1; i < len(fatLog); i++ {
			// same box as handed to Log: decided by address; any other box of
			// the type: by value
			if v == fatLog[i] {
				return i
			}
		}
		return -1
	}
	for i := 1; i < len(ownerTab); i++ {
		if ownerTab[i] == p {
			return i
		}
	}
	return -1
}

var logTypes = []int{1, 2, 4, 8}

// logTypes0: the types of Log calls including 0 (an entry without a type).
var logTypes0 = []int{0, 1, 2, 4, 8}

// nCombos: the (owner, type) combinations of Log calls, owners {nil,A,B,C} x
// types {0,1,2,4,8}; combo(x) for x in 0..19. The 12 combinations with an
// owner and a type are comboOrd(x), x in 0..11.
const nCombos = 20

func combo(x int) ent    { return ent{x / 5, logTypes0[x%5]} }
func comboOrd(x int) ent { return ent{1 + x/4, logTypes[x%4]} }

// wild: the entry was logged with a nil owner or with type 0.
func (e ent) wild() bool { return e.o == 0 || e.t == 0 }

// fatOwner is an owner that is a VALUE, legal (comparable) but expensive to
// compare: two equal values in different interface boxes are compared word by
// word (32 KB), the same box is recognised by its address. Log uses the boxes
// fatLog[i], Filter the equal values fatFlt[i], so every comparison of a
// matching entry in a Filter costs a 32 KB compare. Word 0 is the owner index,
// so owners that differ are told apart at once.
type fatOwner [4096]int64

var fatLog, fatFlt = func() (a, b [5]interface{}) {
	for i := 1; i < 5; i++ {
		var v fatOwner
		v[0] = int64(i)
		a[i] = v
		b[i] = v
	}
	return
}()

// logOwner / fltOwner: the interface value handed to Log resp. Filter for an
// owner index (0 = nil).
func (c *Case) logOwner(idx int) interface{} {
	if c.Fat && idx >= 1 && idx <= 4 {
		return fatLog[idx]
	}
	return ownerIface(idx)
}

func (c *Case) fltOwner(idx int) interface{} {
	if c.Fat && idx >= 1 && idx <= 4 {
		return fatFlt[idx]
	}
	return ownerIface(idx)
}

// ---------------------------------------------------------------------------
// case representation

// FP is a Filter call's parameters: owner index (0 = nil) and type (0 = any).
type FP struct {
	O int `json:"o"`
	T int `json:"t"`
}

func (f FP) String() string { return fmt.Sprintf("Filter(%c,%d)", ownerNames[f.O], f.T) }

func (f FP) restrictive() bool { return f.O != 0 || f.T != 0 }

// matches is the statement's rule for an entry logged with owner o and type t:
// a nil REQUESTED owner / a zero REQUESTED type match everything, otherwise
// the logged value must be equal to the requested one. So an entry logged with
// a nil owner (o == 0) or with type 0 is matched only by requests that are
// wild in that component — nil and 0 are wildcards on the request side only.
func (f FP) matches(o, t int) bool {
	return (f.O == 0 || f.O == o) && (f.T == 0 || f.T == t)
}

// Flt is a Filter call in a sequential history, issued after `After` Log calls.
// With Settle the goroutine pauses logging and repeats this very request (no
// other request in between, <= convergeRounds times, yielding) until the result
// is exactly the matching entries among the last N of everything logged so far.
type Flt struct {
	After int `json:"after"`
	FP
	Settle bool `json:"settle,omitempty"`
}

// Prod is one concurrent producer: Count entries, all with owner O (0: logged
// with a nil owner); entry i has type Types[i % len(Types)] (a type may be 0);
// the producer yields after every Yield entries (0 = never).
type Prod struct {
	O     int   `json:"o"`
	Count int   `json:"count"`
	Types []int `json:"types"`
	Yield int   `json:"yield"`
	// Pre (kind "stall"): this producer runs to completion before the Filter
	// goroutines and the other producers start (it fills the ring).
	Pre bool `json:"pre,omitempty"`
	// FF (kind "fresh"): the goroutine's first call on the fresh Logger is one
	// Filter(nil,0); it logs its entries after that.
	FF bool `json:"ff,omitempty"`
}

func (p *Prod) typeOf(i int) int { return p.Types[i%len(p.Types)] }

// Filterer is one concurrent Filter goroutine: Calls calls cycling through Params.
type Filterer struct {
	Calls  int  `json:"calls"`
	Params []FP `json:"params"`
	Yield  int  `json:"yield"`
	// Until (kind "stall"): keep calling until every producer has finished
	// (at least once, at most Calls times).
	Until bool `json:"until,omitempty"`
	// Late (kind "fresh"): the goroutine does not take part in the first use of
	// the Logger; it starts once the first call of some other goroutine has
	// returned.
	Late bool `json:"late,omitempty"`
}

// Case is the replayable unit.
//
//	kind "seq":   N, Logs, Filters — one goroutine issues the history in order,
//	              then waits for convergence and runs every filter combination.
//	              A filter with "settle" is repeated until it equals the reference
//	              ring (tests "rep" and "repenum" are of this kind).
//	kind "sweep": N, Logs — after every Log: converge, then every filter combination.
//	kind "conc":  N, Prods, Filts — the drawn configuration; the schedule is
//	              whatever the Go runtime does, the oracle does not depend on it.
//	kind "long":  like "seq", but the history has Total Log calls, call k being
//	              Logs[k mod |Logs|] (Logs is a short cyclic pattern), so that
//	              histories of several times 2^16 calls stay small as cases.
//	kind "stall": like "conc" with a large ring (or owners that are expensive
//	              to compare, Fat): producers with "pre" fill the ring first,
//	              then the other producers log back to back while the Filter
//	              goroutines keep the logger goroutine busy ("until": as long as
//	              a producer is running).
//	kind "fresh": like "conc", run on Repeat FRESH loggers: nobody touches a
//	              Logger between NewLogger and the moment its producers and
//	              Filter goroutines (all but the "late" ones) leave a spin
//	              barrier together, so the very first calls on the Logger (Log
//	              of a producer, Filter(nil,0) of a producer with "ff", the
//	              first Filter of a Filter goroutine) are issued at the same
//	              moment by 2..8 goroutines. Spin is the number of barrier
//	              polls between two yields.
type Case struct {
	Kind string `json:"kind"`
	N    int    `json:"n"`
	// Logs: two characters per Log call, owner letter A..C or '-' (logged with a
	// nil owner) and type digit 1/2/4/8 or 0 (logged with type 0), e.g.
	// "A1B2-8C0". The data of the k-th call is the integer k.
	Logs    string     `json:"logs,omitempty"`
	Filters []Flt      `json:"filters,omitempty"`
	Prods   []Prod     `json:"prods,omitempty"`
	Filts   []Filterer `json:"filts,omitempty"`
	Repeat  int        `json:"repeat,omitempty"` // conc, stall, fresh: number of runs of the configuration, each on a new Logger (default 1)
	Spin    int        `json:"spin,omitempty"`   // fresh: barrier polls between two yields
	Total   int        `json:"total,omitempty"`  // long: number of Log calls (Logs is repeated cyclically)
	Fat     bool       `json:"fat,omitempty"`    // stall: owners are 32 KB values compared by value
	Desc    string     `json:"desc,omitempty"`
}

// history returns the Log calls of a sequential case.
func (c *Case) history() ([]ent, error) {
	pat, err := parseLogs(c.Logs)
	if err != nil || c.Kind != "long" {
		return pat, err
	}
	if c.Total < 0 || c.Total > 1<<22 || (c.Total > 0 && len(pat) == 0) {
		return nil, fmt.Errorf("harness: bad total %d for a pattern of %d calls", c.Total, len(pat))
	}
	L := make([]ent, c.Total)
	for i := range L {
		L[i] = pat[i%len(pat)]
	}
	return L, nil
}

type ent struct{ o, t int }

func encodeLogs(es []ent) string {
	b := make([]byte, 0, 2*len(es))
	for _, e := range es {
		b = append(b, ownerNames[e.o], byte('0'+e.t))
	}
	return string(b)
}

func parseLogs(s string) ([]ent, error) {
	if len(s)%2 != 0 {
		return nil, fmt.Errorf("harness: odd Logs length")
	}
	es := make([]ent, len(s)/2)
	for i := range es {
		o := strings.IndexByte(ownerNames, s[2*i])
		t := int(s[2*i+1] - '0')
		if o < 0 || o > 3 || t < 0 || t > 9 {
			return nil, fmt.Errorf("harness: bad log token %q", s[2*i:2*i+2])
		}
		es[i] = ent{o, t}
	}
	return es, nil
}

// allFilters: every (owner, type) combination over owners {nil,A,B,C,D} and
// types {0,1,2,4,8,3}; 3 is never logged (the match is by equality). Entries
// logged with a nil owner must show up under the owners nil only, entries
// logged with type 0 under the type 0 only.
var allFilters = func() []FP {
	var fs []FP
	for o := 0; o <= 4; o++ {
		for _, t := range []int{0, 1, 2, 4, 8, 3} {
			fs = append(fs, FP{o, t})
		}
	}
	return fs
}()

// ---------------------------------------------------------------------------
// statistics (evidence only, never part of a verdict)

var (
	statMaxLag       atomic.Int64 // largest |L|-j observed on a Filter(nil,0) in a sequential history
	statLagging      atomic.Int64 // sequential Filter(nil,0) calls that overtook queued entries (j < |L|)
	statSeqFilters   atomic.Int64
	statConcFilters  atomic.Int64
	statConvRounds   atomic.Int64 // largest number of convergence rounds needed
	statSettles      atomic.Int64 // settling requests (same request repeated until it is the window of the whole history)
	statSettleRounds atomic.Int64 // largest number of rounds a settling request needed
	statStallLogs    atomic.Int64 // kind "stall": Log calls of a main-phase producer that took >= 1 ms (queue full, logger busy)
	statStallFilters atomic.Int64 // kind "stall": Filter calls issued while producers were running
	statLongLogs     atomic.Int64 // kind "long": Log calls issued
	statFreshLoggers atomic.Int64 // kind "fresh": loggers whose first calls came from goroutines released together
	statFreshRelaxed atomic.Int64 // kind "fresh": cases in which the barrier's poll budget ran out (starved machine)
)

func maxInto(a *atomic.Int64, v int64) {
	for {
		cur := a.Load()
		if v <= cur || a.CompareAndSwap(cur, v) {
			return
		}
	}
}

const convergeRounds = 1000

// ---------------------------------------------------------------------------
// worker: wraps the calls into go9p so that the watchdog can see a call in
// progress (odd counter) and a call that never returns (odd and unchanged).

type worker struct{ p *atomic.Int64 }

func (w worker) log(lg *go9p.Logger, data int, o, t int) {
	w.p.Add(1)
	lg.Log(data, ownerIface(o), t)
	w.p.Add(1)
}

func (w worker) filter(lg *go9p.Logger, f FP) []*go9p.Log {
	w.p.Add(1)
	r := lg.Filter(ownerIface(f.O), f.T)
	w.p.Add(1)
	return r
}

// logv / filterv: the owner is given as the interface value itself.
func (w worker) logv(lg *go9p.Logger, data int, owner interface{}, t int) {
	w.p.Add(1)
	lg.Log(data, owner, t)
	w.p.Add(1)
}

func (w worker) filterv(lg *go9p.Logger, owner interface{}, t int) []*go9p.Log {
	w.p.Add(1)
	r := lg.Filter(owner, t)
	w.p.Add(1)
	return r
}

// ---------------------------------------------------------------------------
// sequential oracle: reference ring = window of the last N of a prefix of L

// serialsSeq checks that every returned entry is one that was logged so far
// (data serial, owner and type as logged) and returns the serials.
func serialsSeq(res []*go9p.Log, L []ent, cur int) ([]int, error) {
	out := make([]int, len(res))
	for k, it := range res {
		if it == nil {
			return nil, fmt.Errorf("entry %d of the result is a nil *Log", k)
		}
		s, ok := it.Data.(int)
		if !ok || s < 0 || s >= cur {
			return nil, fmt.Errorf("entry %d of the result (Data=%v) was never logged (%d Log calls so far)", k, it.Data, cur)
		}
		if oi := ownerIndex(it.Owner); oi != L[s].o || it.Type != L[s].t {
			return nil, fmt.Errorf("entry %d of the result has Data=%d owner=%s type=%d but serial %d was logged with owner=%c type=%d",
				k, s, ownerStr(it.Owner), it.Type, s, ownerNames[L[s].o], L[s].t)
		}
		out[k] = s
	}
	return out, nil
}

func ownerStr(v interface{}) string {
	if i := ownerIndex(v); i >= 0 {
		return string(ownerNames[i])
	}
	return fmt.Sprintf("%T(%v)", v, v)
}

// windowIs reports whether got == match_f(last N of L[:j]).
func windowIs(L []ent, N, j int, f FP, got []int) bool {
	lo := j - N
	if lo < 0 {
		lo = 0
	}
	k := 0
	for s := lo; s < j; s++ {
		if f.matches(L[s].o, L[s].t) {
			if k >= len(got) || got[k] != s {
				return false
			}
			k++
		}
	}
	return k == len(got)
}

func window(L []ent, N, j int, f FP) []int {
	lo := j - N
	if lo < 0 {
		lo = 0
	}
	out := []int{}
	for s := lo; s < j; s++ {
		if f.matches(L[s].o, L[s].t) {
			out = append(out, s)
		}
	}
	return out
}

// findJ returns the smallest j in [jprev, cur] with got == match_f(window_N(L[:j])),
// or -1. Taking the smallest feasible j keeps the most freedom for later calls,
// so a greedy scan decides whether a non-decreasing sequence of j exists.
func findJ(L []ent, N, jprev, cur int, f FP, got []int) int {
	if len(got) > 0 && got[len(got)-1]+1 > jprev {
		// a window that contains serial s belongs to a prefix longer than s
		jprev = got[len(got)-1] + 1
	}
	for j := jprev; j <= cur; j++ {
		if windowIs(L, N, j, f, got) {
			return j
		}
	}
	return -1
}

// diagnoseSeq names the clause of the statement that a result breaks.
func diagnoseSeq(L []ent, N, jprev, cur int, f FP, got []int) string {
	if len(got) > N {
		return fmt.Sprintf("%d entries returned, capacity is %d", len(got), N)
	}
	seen := map[int]bool{}
	for k, s := range got {
		if !f.matches(L[s].o, L[s].t) {
			return fmt.Sprintf("entry %d (serial %d, owner %c, type %d) does not match the filter", k, s, ownerNames[L[s].o], L[s].t)
		}
		if seen[s] {
			return fmt.Sprintf("serial %d returned twice", s)
		}
		seen[s] = true
		if k > 0 && s < got[k-1] {
			return fmt.Sprintf("entries out of logged order: serial %d returned before serial %d", got[k-1], s)
		}
	}
	for k := 1; k < len(got); k++ {
		for s := got[k-1] + 1; s < got[k]; s++ {
			if f.matches(L[s].o, L[s].t) {
				return fmt.Sprintf("matching serial %d lies between returned serials %d and %d but was skipped", s, got[k-1], got[k])
			}
		}
	}
	if jprev == cur {
		return fmt.Sprintf("all %d logged entries had already been seen by an earlier Filter, so the result must be exactly the matching entries among the last %d", cur, N)
	}
	return fmt.Sprintf("the result is not the set of matching entries among the last %d of any prefix L[:j], %d <= j <= %d (j = %d was already observed by an earlier Filter)", N, jprev, cur, jprev)
}

func short(v []int) string {
	if len(v) <= 40 {
		return fmt.Sprint(v)
	}
	return fmt.Sprintf("%v … %v (%d entries)", v[:20], v[len(v)-10:], len(v))
}

type seqRun struct {
	c     *Case
	L     []ent
	lg    *go9p.Logger
	w     worker
	jprev int
	cur   int // Log calls issued so far
}

// filter issues one Filter call and applies the window oracle.
func (r *seqRun) filter(f FP, phase string) error {
	_, err := r.filterGot(f, phase)
	return err
}

// settle: logging pauses and the same request is repeated. "Once logging stops
// Filter converges to exactly the matching entries among the N most recently
// logged" holds for every request, not only for Filter(nil,0): every result
// must be a window of the reference ring (j non-decreasing), and within
// convergeRounds calls the result must be the window of the whole history so
// far. The logger cannot know that logging will resume, so a pause is as good
// as a stop. (On go9p every round lets the logger goroutine run; the hand-off
// queue holds 16 entries, the observed number of rounds is reported.)
func (r *seqRun) settle(f FP) error {
	rounds := 0
	for {
		got, err := r.filterGot(f, "settling")
		if err != nil {
			return err
		}
		rounds++
		if windowIs(r.L, r.c.N, r.cur, f, got) {
			break
		}
		if rounds >= convergeRounds {
			return fmt.Errorf("N=%d: logging paused after %d Log calls, but %d successive %v calls still return serials %s; the matching entries among the last %d logged are %s",
				r.c.N, r.cur, rounds, f, short(got), r.c.N, short(window(r.L, r.c.N, r.cur, f)))
		}
		runtime.Gosched()
	}
	maxInto(&statSettleRounds, int64(rounds))
	statSettles.Add(1)
	return nil
}

func (r *seqRun) filterGot(f FP, phase string) ([]int, error) {
	res := r.w.filter(r.lg, f)
	statSeqFilters.Add(1)
	got, err := serialsSeq(res, r.L, r.cur)
	if err != nil {
		return nil, fmt.Errorf("N=%d after %d Log calls, %s %v: %v", r.c.N, r.cur, phase, f, err)
	}
	j := findJ(r.L, r.c.N, r.jprev, r.cur, f, got)
	if j < 0 {
		return nil, fmt.Errorf("N=%d after %d Log calls, %s %v returned serials %s: %s; expected for j=%d: %s, for j=%d: %s",
			r.c.N, r.cur, phase, f, short(got), diagnoseSeq(r.L, r.c.N, r.jprev, r.cur, f, got),
			r.jprev, short(window(r.L, r.c.N, r.jprev, f)), r.cur, short(window(r.L, r.c.N, r.cur, f)))
	}
	if !f.restrictive() {
		// Filter(nil,0) identifies j exactly
		lag := int64(r.cur - j)
		if lag > 0 {
			statLagging.Add(1)
			maxInto(&statMaxLag, lag)
		}
	}
	r.jprev = j
	return got, nil
}

// converge repeats Filter(nil,0) until every logged entry is visible, then
// every filter combination must equal the matching entries among the last N.
func (r *seqRun) converge() error {
	all := FP{0, 0}
	rounds := 0
	for {
		if err := r.filter(all, "convergence"); err != nil {
			return err
		}
		rounds++
		if r.jprev == r.cur {
			break
		}
		if rounds >= convergeRounds {
			return fmt.Errorf("N=%d: logging stopped after %d Log calls but %d successive Filter(nil,0) calls still see only the first %d",
				r.c.N, r.cur, rounds, r.jprev)
		}
		runtime.Gosched()
	}
	maxInto(&statConvRounds, int64(rounds))
	for _, f := range allFilters {
		// jprev == cur: only j = cur is feasible, i.e. exact equality is demanded
		if err := r.filter(f, "converged"); err != nil {
			return err
		}
	}
	return nil
}

func runSeq(c *Case, w worker) error {
	L, err := c.history()
	if err != nil {
		return err
	}
	fl := append([]Flt(nil), c.Filters...)
	sort.SliceStable(fl, func(a, b int) bool { return fl[a].After < fl[b].After })
	for _, f := range fl {
		if f.After < 0 || f.After > len(L) || f.O < 0 || f.O > 4 {
			return fmt.Errorf("harness: bad filter %+v", f)
		}
	}
	lg := go9p.NewLogger(c.N)
	if lg == nil {
		return fmt.Errorf("NewLogger(%d) returned nil", c.N)
	}
	r := &seqRun{c: c, L: L, lg: lg, w: w}
	sweep := c.Kind == "sweep"
	fi := 0
	for {
		for fi < len(fl) && fl[fi].After == r.cur {
			var err error
			if fl[fi].Settle {
				err = r.settle(fl[fi].FP)
			} else {
				err = r.filter(fl[fi].FP, "mid-history")
			}
			if err != nil {
				return err
			}
			fi++
		}
		if sweep {
			if err := r.converge(); err != nil {
				return err
			}
		}
		if r.cur == len(L) {
			break
		}
		w.log(lg, r.cur, L[r.cur].o, L[r.cur].t)
		r.cur++
	}
	if sweep {
		return nil
	}
	if c.Kind == "long" {
		statLongLogs.Add(int64(len(L)))
	}
	return r.converge()
}

// ---------------------------------------------------------------------------
// concurrent oracle (schedule independent)

const prodShift = 24

// leanAbove: results with more entries than this are checked without hash
// sets and are not kept for the cross-result order comparison.
const leanAbove = 4096

type concRun struct {
	c  *Case
	lg *go9p.Logger
}

func key(p, i int) int { return p<<prodShift | i }

// check applies every clause that holds for any schedule to one result and
// returns the entry keys (producer<<24 | index).
func (r *concRun) check(res []*go9p.Log, f FP) ([]int, error) {
	c := r.c
	if len(res) > c.N {
		return nil, fmt.Errorf("%v returned %d entries, capacity is %d", f, len(res), c.N)
	}
	keys := make([]int, len(res))
	last := make([]int, len(c.Prods))
	for p := range last {
		last[p] = -1
	}
	// results of a large ring (kind "stall"): no set of seen entries; a repeated
	// entry of a producer is either adjacent (caught below) or out of order
	var seen map[int]struct{}
	if len(res) <= leanAbove {
		seen = make(map[int]struct{}, len(res))
	}
	for k, it := range res {
		if it == nil {
			return nil, fmt.Errorf("%v: entry %d of the result is a nil *Log", f, k)
		}
		d, ok := it.Data.(int)
		p, i := d>>prodShift, d&(1<<prodShift-1)
		if !ok || d < 0 || p >= len(c.Prods) || i >= c.Prods[p].Count {
			return nil, fmt.Errorf("%v: entry %d of the result (Data=%v) was never logged", f, k, it.Data)
		}
		pr := &c.Prods[p]
		if ownerIndex(it.Owner) != pr.O || it.Type != pr.typeOf(i) {
			return nil, fmt.Errorf("%v: entry %d is producer %d #%d with owner=%s type=%d, but it was logged with owner=%c type=%d",
				f, k, p, i, ownerStr(it.Owner), it.Type, ownerNames[pr.O], pr.typeOf(i))
		}
		if !f.matches(pr.O, it.Type) {
			return nil, fmt.Errorf("%v: entry %d (producer %d #%d, owner %c, type %d) does not match the filter", f, k, p, i, ownerNames[pr.O], it.Type)
		}
		if _, dup := seen[d]; dup || i == last[p] {
			return nil, fmt.Errorf("%v: producer %d #%d returned twice", f, p, i)
		}
		if seen != nil {
			seen[d] = struct{}{}
		}
		if last[p] >= 0 {
			if i < last[p] {
				return nil, fmt.Errorf("%v: producer %d's entries out of issue order: #%d returned before #%d", f, p, last[p], i)
			}
			for x := last[p] + 1; x < i; x++ {
				if f.matches(pr.O, pr.typeOf(x)) {
					return nil, fmt.Errorf("%v: producer %d's matching entry #%d lies between returned #%d and #%d but was skipped", f, p, x, last[p], i)
				}
			}
		}
		last[p] = i
		keys[k] = d
	}
	return keys, nil
}

// sameOrder: the entries common to two results must appear in the same
// relative order in both (both are in logged order).
func sameOrder(a, b []int) (x, y int, ok bool) {
	pos := make(map[int]int, len(a))
	for i, k := range a {
		pos[k] = i
	}
	prev, prevKey := -1, 0
	for _, k := range b {
		if p, in := pos[k]; in {
			if p < prev {
				return prevKey, k, false
			}
			prev, prevKey = p, k
		}
	}
	return 0, 0, true
}

func keyStr(k int) string { return fmt.Sprintf("p%d#%d", k>>prodShift, k&(1<<prodShift-1)) }

func keysStr(ks []int) string {
	var b strings.Builder
	for i, k := range ks {
		if i > 0 {
			b.WriteByte(' ')
		}
		if i == 24 && len(ks) > 40 {
			fmt.Fprintf(&b, "… (%d entries) …", len(ks))
			ks = ks[len(ks)-8:]
			for _, k := range ks {
				b.WriteByte(' ')
				b.WriteString(keyStr(k))
			}
			break
		}
		b.WriteString(keyStr(k))
	}
	return "[" + b.String() + "]"
}

// converged: min(N,total) entries that are, per producer, a suffix of its series.
func (r *concRun) converged(keys []int, total int) (bool, string) {
	want := total
	if r.c.N < want {
		want = r.c.N
	}
	if len(keys) != want {
		return false, fmt.Sprintf("%d entries, want min(N,total) = %d", len(keys), want)
	}
	cnt := make([]int, len(r.c.Prods))
	maxi := make([]int, len(r.c.Prods))
	for _, k := range keys {
		p, i := k>>prodShift, k&(1<<prodShift-1)
		cnt[p]++
		if i > maxi[p] {
			maxi[p] = i
		}
	}
	for p := range cnt {
		// entries of p are contiguous and ordered (checked before), so a suffix
		// iff the largest index is the last one issued
		if cnt[p] > 0 && maxi[p] != r.c.Prods[p].Count-1 {
			return false, fmt.Sprintf("producer %d's returned entries end at #%d, its last entry is #%d", p, maxi[p], r.c.Prods[p].Count-1)
		}
	}
	return true, ""
}

func validateConc(c *Case) error {
	if len(c.Prods) < 1 || len(c.Prods) > 64 || len(c.Filts) > 16 {
		return fmt.Errorf("harness: bad concurrent configuration")
	}
	for _, p := range c.Prods {
		if p.O < 0 || p.O > 3 || p.Count < 0 || p.Count >= 1<<prodShift || len(p.Types) == 0 || p.Yield < 0 {
			return fmt.Errorf("harness: bad producer %+v", p)
		}
	}
	if c.Kind != "fresh" {
		for _, p := range c.Prods {
			if p.FF {
				return fmt.Errorf("harness: ff producers only in kind fresh")
			}
		}
		for _, f := range c.Filts {
			if f.Late {
				return fmt.Errorf("harness: late filterers only in kind fresh")
			}
		}
	} else {
		first := 0
		for _, p := range c.Prods {
			if p.Count < 1 {
				return fmt.Errorf("harness: a producer of kind fresh logs at least one entry")
			}
			first++
		}
		for _, f := range c.Filts {
			if f.Calls < 1 {
				return fmt.Errorf("harness: a filterer of kind fresh calls at least once")
			}
			if !f.Late {
				first++
			}
		}
		if first < 2 || c.Spin < 1 {
			return fmt.Errorf("harness: kind fresh needs >= 2 goroutines at the barrier and spin >= 1")
		}
	}
	if c.Kind != "stall" {
		if c.Fat {
			return fmt.Errorf("harness: fat owners only in kind stall")
		}
		for _, p := range c.Prods {
			if p.Pre {
				return fmt.Errorf("harness: pre producers only in kind stall")
			}
		}
		for _, f := range c.Filts {
			if f.Until {
				return fmt.Errorf("harness: until filterers only in kind stall")
			}
		}
	}
	for _, f := range c.Filts {
		if f.Calls < 0 || len(f.Params) == 0 {
			return fmt.Errorf("harness: bad filterer %+v", f)
		}
		for _, q := range f.Params {
			if q.O < 0 || q.O > 4 {
				return fmt.Errorf("harness: bad filterer %+v", f)
			}
		}
	}
	return nil
}

// spinBarrier releases n goroutines at the same moment, round after round:
// in round i every goroutine announces itself on one counter and polls it until
// all n have announced themselves i+1 times. The polling goroutines hold their
// processors, so when the last one arrives they leave within one cache miss of
// each other (a closed channel would wake them one after the other through the
// scheduler). After every `spin` polls a goroutine yields so that more
// goroutines than processors still get through. The goroutines stay on their
// processors from one round to the next, so while the operating system runs
// their threads at the same time many rounds pass back to back.
type spinBarrier struct {
	n      int64
	spin   int
	ready  atomic.Int64
	broken atomic.Bool // a participant left, or the yield budget ran out
	gaveUp atomic.Bool
	// relaxed: some goroutine has spent its poll budget for this case (on a
	// starved machine the threads are rarely on a processor at the same time and
	// every round costs milliseconds); from then on nobody waits any more, the
	// remaining first calls are simply issued as the goroutines get to them. Any
	// interleaving is a legal one, so the oracle is unaffected; the number of
	// such cases is reported.
	relaxed atomic.Bool
}

// barrierPolls: polls one goroutine may spend waiting in one case (some tens
// of milliseconds of processor time).
const barrierPolls = 20 << 20

// barrierYields: a goroutine that has yielded this often in ONE round gives up
// (a participant is stuck; tens of seconds of yielding). Not a verdict: the
// watchdog decides whether a call hangs inside go9p, otherwise the case is
// inconclusive.
const barrierYields = 1 << 25

func newSpinBarrier(n, spin int) *spinBarrier {
	if spin < 1 {
		spin = 1
	}
	if n > runtime.GOMAXPROCS(0)-1 && spin > 1000 {
		spin = 1000 // more goroutines than processors: the pollers must make room
	}
	return &spinBarrier{n: int64(n), spin: spin}
}

// wait returns false when the barrier was abandoned.
func (b *spinBarrier) wait(round int, polls *int) bool {
	tgt := b.n * int64(round+1)
	b.ready.Add(1)
	yields := 0
	for i := 1; b.ready.Load() < tgt; i++ {
		if b.relaxed.Load() {
			return true
		}
		if *polls++; *polls > barrierPolls {
			b.relaxed.Store(true)
			statFreshRelaxed.Add(1)
			return true
		}
		if i%b.spin == 0 {
			if b.broken.Load() {
				return false
			}
			if yields++; yields > barrierYields {
				b.gaveUp.Store(true)
				b.broken.Store(true)
				return false
			}
			runtime.Gosched()
		}
	}
	return true
}

// preState is what the first use of a fresh Logger (kind "fresh") left behind:
// every producer without "ff" has logged its entry #0, every producer with
// "ff" has issued its Filter(nil,0), every Filter goroutine that is not "late"
// has made its call 0, whose result (as keys) is filt0[g].
type preState struct {
	filt0 [][]int
}

var errBarrier = fmt.Errorf("harness: spin barrier abandoned")

// runFresh: Repeat fresh loggers. Phase 1: the producers and the Filter
// goroutines that are not "late" are persistent goroutines; for logger i they
// leave round i of the spin barrier together and make their first call on it,
// the first calls that Logger sees. Phase 2: every logger then gets the rest of
// the configuration (the remaining entries and calls, plus the late Filter
// goroutines) and the final convergence, see runConcOn.
func runFresh(c *Case, ws []worker) error {
	if err := validateConc(c); err != nil {
		return err
	}
	P, F, R := len(c.Prods), len(c.Filts), c.Repeat
	lgs := make([]*go9p.Logger, R)
	pre := make([]preState, R)
	for i := range lgs {
		if lgs[i] = go9p.NewLogger(c.N); lgs[i] == nil {
			return fmt.Errorf("NewLogger(%d) returned nil", c.N)
		}
		pre[i].filt0 = make([][]int, F)
	}
	statFreshLoggers.Add(int64(R))
	var part []int // worker index: producer p, or P+g for Filter goroutine g
	for p := 0; p < P; p++ {
		part = append(part, p)
	}
	for g := 0; g < F; g++ {
		if !c.Filts[g].Late {
			part = append(part, P+g)
		}
	}
	bar := newSpinBarrier(len(part), c.Spin)
	r := &concRun{c: c}
	all := FP{0, 0}
	errs := make([]error, P+F)
	var wg sync.WaitGroup
	for _, j := range part {
		wg.Add(1)
		go func(j int) {
			defer wg.Done()
			done := false
			defer func() {
				if !done {
					bar.broken.Store(true) // left early: release the others
				}
			}()
			defer func() {
				if x := recover(); x != nil {
					errs[j] = fmt.Errorf("panic in the first call of goroutine %d: %v", j, x)
				}
			}()
			w := ws[j]
			polls := 0
			for i := 0; i < R; i++ {
				if !bar.wait(i, &polls) {
					return
				}
				lg := lgs[i]
				if j < P {
					pr := &c.Prods[j]
					if !pr.FF {
						w.logv(lg, key(j, 0), c.logOwner(pr.O), pr.typeOf(0))
					} else if _, err := r.check(w.filterv(lg, nil, 0), all); err != nil {
						errs[j] = fmt.Errorf("fresh logger %d of %d: producer %d, first call: %v", i+1, R, j, err)
						return
					}
				} else {
					f := c.Filts[j-P].Params[0]
					keys, err := r.check(w.filterv(lg, c.fltOwner(f.O), f.T), f)
					if err != nil {
						errs[j] = fmt.Errorf("fresh logger %d of %d: filter goroutine %d call 0: %v", i+1, R, j-P, err)
						return
					}
					pre[i].filt0[j-P] = keys
				}
			}
			done = true
		}(j)
	}
	wg.Wait()
	for _, e := range errs {
		if e != nil {
			return fmt.Errorf("N=%d: %v", c.N, e)
		}
	}
	if bar.gaveUp.Load() {
		return errBarrier
	}
	for i := range lgs {
		if err := runConcOn(c, ws, lgs[i], &pre[i]); err != nil {
			return fmt.Errorf("fresh logger %d of %d: %v", i+1, R, err)
		}
	}
	return nil
}

// runConc executes the configuration once. ws has len(Prods)+len(Filts)+1 workers.
func runConc(c *Case, ws []worker) error {
	if err := validateConc(c); err != nil {
		return err
	}
	lg := go9p.NewLogger(c.N)
	if lg == nil {
		return fmt.Errorf("NewLogger(%d) returned nil", c.N)
	}
	return runConcOn(c, ws, lg, nil)
}

// runConcOn runs the configuration on lg. With first (kind "fresh") the first
// calls have been made already (see preState): producers and Filter goroutines
// continue after them.
func runConcOn(c *Case, ws []worker, lg *go9p.Logger, first *preState) error {
	r := &concRun{c: c, lg: lg}
	P, F := len(c.Prods), len(c.Filts)
	total := 0
	for _, p := range c.Prods {
		total += p.Count
	}
	start := make(chan struct{})
	var wg, wgPre sync.WaitGroup
	errs := make([]error, P+F)
	results := make([][][]int, F) // every result of every filterer, as keys
	keep := c.N <= leanAbove
	stall := c.Kind == "stall"
	all := FP{0, 0}
	var running atomic.Int32 // producers of the main phase that have not finished
	producer := func(p int, start chan struct{}, wg *sync.WaitGroup) {
		defer wg.Done()
		defer running.Add(-1)
		defer func() {
			if x := recover(); x != nil {
				errs[p] = fmt.Errorf("panic in producer %d: %v", p, x)
			}
		}()
		pr, w := &c.Prods[p], ws[p]
		owner := c.logOwner(pr.O)
		i0 := 0
		if first != nil && !pr.FF {
			i0 = 1 // entry #0 was the first call
		}
		<-start
		for i := i0; i < pr.Count; i++ {
			if stall && !pr.Pre {
				// evidence only: Log calls that found the queue full for >= 1 ms
				t0 := time.Now()
				w.logv(lg, key(p, i), owner, pr.typeOf(i))
				if time.Since(t0) >= time.Millisecond {
					statStallLogs.Add(1)
				}
			} else {
				w.logv(lg, key(p, i), owner, pr.typeOf(i))
			}
			if pr.Yield > 0 && i%pr.Yield == pr.Yield-1 {
				runtime.Gosched()
			}
		}
	}
	// producers with "pre" fill the ring before anything else starts
	pre := make(chan struct{})
	for p := 0; p < P; p++ {
		if c.Prods[p].Pre {
			wgPre.Add(1)
			running.Add(1)
			go producer(p, pre, &wgPre)
		}
	}
	close(pre)
	wgPre.Wait()
	for p := 0; p < P; p++ {
		if !c.Prods[p].Pre {
			wg.Add(1)
			running.Add(1)
			go producer(p, start, &wg)
		}
	}
	for g := 0; g < F; g++ {
		wg.Add(1)
		go func(g int) {
			defer wg.Done()
			defer func() {
				if x := recover(); x != nil {
					errs[P+g] = fmt.Errorf("panic in filter goroutine %d: %v", g, x)
				}
			}()
			fl, w := &c.Filts[g], ws[P+g]
			var prev []int
			k0 := 0
			if first != nil && !fl.Late {
				// call 0 was the first call
				k0, prev = 1, first.filt0[g]
				if keep {
					results[g] = append(results[g], prev)
				}
			}
			<-start
			for k := k0; k < fl.Calls; k++ {
				if fl.Until && k > 0 && running.Load() == 0 {
					break
				}
				f := fl.Params[k%len(fl.Params)]
				res := w.filterv(lg, c.fltOwner(f.O), f.T)
				if stall {
					statStallFilters.Add(1)
				} else {
					statConcFilters.Add(1)
				}
				keys, err := r.check(res, f)
				if err != nil {
					errs[P+g] = fmt.Errorf("filter goroutine %d call %d: %v", g, k, err)
					return
				}
				if keep {
					if x, y, ok := sameOrder(prev, keys); !ok {
						errs[P+g] = fmt.Errorf("filter goroutine %d: call %d returned %s before %s, call %d (%v) returns them in the opposite order — both cannot be the logged order",
							g, k-1, keyStr(x), keyStr(y), k, f)
						return
					}
					prev = keys
					results[g] = append(results[g], keys)
				}
				if fl.Yield > 0 && k%fl.Yield == fl.Yield-1 {
					runtime.Gosched()
				}
			}
		}(g)
	}
	close(start)
	wg.Wait()
	for _, e := range errs {
		if e != nil {
			return fmt.Errorf("N=%d producers=%d total=%d: %v", c.N, P, total, e)
		}
	}

	// Logging has stopped. Filter(nil,0) must converge; a round is
	//   R1 = Filter(nil,0); all combinations; R2 = Filter(nil,0).
	// The ring only changes by taking in a not-yet-seen entry, which changes the
	// Filter(nil,0) result for good, so R1 == R2 proves that every call in
	// between saw the ring R1 and must equal the matching entries of R1.
	w := ws[P+F]
	why := ""
	for round := 1; round <= convergeRounds; round++ {
		res := w.filterv(lg, nil, 0)
		r1, err := r.check(res, all)
		if err != nil {
			return fmt.Errorf("N=%d producers=%d total=%d after logging stopped: %v", c.N, P, total, err)
		}
		ok, reason := r.converged(r1, total)
		if !ok {
			why = reason
			runtime.Gosched()
			continue
		}
		got := make([][]int, len(allFilters))
		for x, f := range allFilters {
			ks, err := r.check(w.filterv(lg, c.fltOwner(f.O), f.T), f)
			if err != nil {
				return fmt.Errorf("N=%d producers=%d total=%d after logging stopped: %v", c.N, P, total, err)
			}
			got[x] = ks
		}
		r2, err := r.check(w.filterv(lg, nil, 0), all)
		if err != nil {
			return fmt.Errorf("N=%d producers=%d total=%d after logging stopped: %v", c.N, P, total, err)
		}
		if !equalInts(r1, r2) {
			why = "Filter(nil,0) still changing"
			continue
		}
		for x, f := range allFilters {
			var want []int
			for _, k := range r1 {
				pr := &c.Prods[k>>prodShift]
				if f.matches(pr.O, pr.typeOf(k&(1<<prodShift-1))) {
					want = append(want, k)
				}
			}
			if !equalInts(want, got[x]) {
				return fmt.Errorf("N=%d producers=%d total=%d after logging stopped: Filter(nil,0) returns %s before and after, but %v in between returned %s instead of the matching entries %s",
					c.N, P, total, keysStr(r1), f, keysStr(got[x]), keysStr(want))
			}
		}
		// every earlier result must agree with the final order on common entries
		for g := range results {
			for k, ks := range results[g] {
				if x, y, ok := sameOrder(ks, r1); !ok {
					return fmt.Errorf("N=%d producers=%d total=%d: filter goroutine %d call %d returned %s before %s, the converged Filter(nil,0) returns them in the opposite order",
						c.N, P, total, g, k, keyStr(x), keyStr(y))
				}
			}
		}
		maxInto(&statConvRounds, int64(round))
		return nil
	}
	return fmt.Errorf("N=%d producers=%d total=%d: logging stopped but %d rounds of Filter(nil,0) did not converge to min(N,total) entries that are per-producer suffixes (last reason: %s)",
		c.N, P, total, convergeRounds, why)
}

func equalInts(a, b []int) bool {
	if len(a) != len(b) {
		return false
	}
	for i := range a {
		if a[i] != b[i] {
			return false
		}
	}
	return true
}
