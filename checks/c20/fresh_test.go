package c20

import (
	"encoding/json"
	"fmt"
	"testing"

	"pgregory.net/rapid"
	"verif/internal/hx"
)

// The first use of a Logger. "For any interleaving of Log and Filter calls
// from any number of goroutines" includes the interleavings in which the very
// first calls a Logger ever sees come from several goroutines at the same
// moment. Every other kind touches its Logger from one goroutine first, or
// releases its goroutines through a channel (the scheduler then starts them
// one after the other, microseconds apart). Kind "fresh" takes a configuration
// of 2..8 goroutines -
//
//	producers whose first call is Log,
//	producers whose first call is one Filter(nil,0) and that log afterwards,
//	Filter goroutines,
//
// in the mixes Log/Log, Log/Filter and Filter/Filter - creates a Logger that
// nobody has touched, releases the goroutines through a spin barrier (they
// poll one counter while holding their processors, so they leave within a
// cache miss of each other), lets them run a short concurrent phase (a few
// dozen entries each, plus 0..2 Filter goroutines that join once the first call
// has returned) and applies the concurrent oracle including the final
// convergence (after the producers stop, Filter(nil,0) reaches min(N,total)
// entries that are per-producer suffixes in issue order, all 30 combinations
// equal its matching entries). Whether two first calls really overlap is up to
// the machine and cannot be forced from outside, so one case repeats the
// configuration on hundreds to thousands of fresh Loggers (NewLogger is cheap).

func genFresh(t *rapid.T) (*Case, string) {
	c := &Case{Kind: "fresh", N: genN(t)}
	n := c.N
	class := rapid.SampledFrom([]string{"Log/Log", "Log/Log", "Log/Filter", "Filter/Filter"}).Draw(t, "first calls")
	ng := rapid.SampledFrom([]int{2, 2, 3, 3, 4, 4, 5, 6, 8}).Draw(t, "goroutines")
	if ng <= 4 {
		c.Spin = rapid.SampledFrom([]int{200, 2000, 20000, 100000, 100000}).Draw(t, "spin")
	} else {
		c.Spin = rapid.SampledFrom([]int{200, 1000, 1000}).Draw(t, "spin")
	}
	volume := rapid.SampledFrom([]string{"total<=N", "around N", "over N", "over N", "dozens"}).Draw(t, "volume")
	prod := func(ff bool) {
		var cnt int
		switch volume {
		case "total<=N":
			cnt = rapid.IntRange(1, max(1, n/ng)).Draw(t, "count")
		case "around N":
			cnt = rapid.IntRange(1, max(1, 2*n/ng)).Draw(t, "count")
		case "over N":
			cnt = rapid.IntRange(1, 2*n+1).Draw(t, "count")
		case "dozens":
			cnt = rapid.IntRange(17, 120).Draw(t, "count")
		}
		c.Prods = append(c.Prods, Prod{
			O:     genProdOwner(t),
			Count: cnt,
			Types: rapid.SliceOfN(genLogType, 1, 4).Draw(t, "types"),
			Yield: rapid.SampledFrom([]int{0, 0, 0, 1, 3, 17}).Draw(t, "yield"),
			FF:    ff,
		})
	}
	filt := func(late bool) {
		c.Filts = append(c.Filts, Filterer{
			Calls:  rapid.IntRange(1, 24).Draw(t, "calls"),
			Params: rapid.SliceOfN(fpGen, 1, 4).Draw(t, "params"),
			Yield:  rapid.SampledFrom([]int{0, 1, 4}).Draw(t, "fyield"),
			Late:   late,
		})
	}
	for g := 0; g < ng; g++ {
		switch class {
		case "Log/Log":
			prod(false)
		case "Filter/Filter":
			// at least one goroutine logs after its Filter
			if g == 0 || rapid.IntRange(0, 2).Draw(t, "role") > 0 {
				prod(true)
			} else {
				filt(false)
			}
		case "Log/Filter":
			switch {
			case g == 0:
				prod(false)
			case g == 1:
				if rapid.Bool().Draw(t, "ff") {
					prod(true)
				} else {
					filt(false)
				}
			default:
				switch rapid.IntRange(0, 3).Draw(t, "role") {
				case 0:
					filt(false)
				case 1:
					prod(true)
				default:
					prod(false)
				}
			}
		}
	}
	for k := rapid.SampledFrom([]int{0, 0, 1, 1, 2}).Draw(t, "late filterers"); k > 0; k-- {
		filt(true)
	}
	reps := []int{100, 200, 400, 400}
	if hx.Thorough() {
		reps = []int{200, 400, 800, 1600}
	}
	c.Repeat = rapid.SampledFrom(reps).Draw(t, "fresh loggers")
	return c, class + " " + volume
}

// TestPropFresh: fresh loggers whose first calls are issued by 2..8 goroutines
// released together.
func TestPropFresh(t *testing.T) {
	defer flushStats()
	hangSeen.Store(false)
	hx.Check(t, "fresh", hx.N(40, 60), func(t *rapid.T) {
		c, class := genFresh(t)
		total := 0
		for _, p := range c.Prods {
			total += p.Count
		}
		first := len(c.Prods)
		for _, f := range c.Filts {
			if !f.Late {
				first++
			}
		}
		hx.Eval()
		hx.Label("fresh " + class)
		hx.Label(fmt.Sprintf("fresh N=%s goroutines at the first use=%d", nBucket(c.N), first))
		// non-trivial by construction: the first calls on every Logger of the
		// case come from >= 2 goroutines leaving a spin barrier together
		b, _ := json.Marshal(c)
		hx.NonTrivial("fresh", b)
		if total > c.N {
			hx.Label("fresh ring wraps")
		}
		hx.Sample("fresh", c)
		hx.Journal("fresh", c)
		o := RunCase(c)
		if o.err != nil {
			hx.Failf(stableTB{t, "fresh"}, "fresh", c, "%v", o.err)
		}
		if o.inconclusive != "" {
			t.Skip(o.inconclusive)
		}
	})
}
