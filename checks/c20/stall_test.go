package c20

import (
	"encoding/json"
	"fmt"
	"testing"

	"pgregory.net/rapid"
	"verif/internal/hx"
)

// A busy logger goroutine. "In the order they were logged" must hold for one
// producer whatever the logger goroutine is doing meanwhile. The concurrent
// kind keeps the rings small, so the logger always frees a queue slot within
// microseconds and a producer never waits on a full queue for long. Kind
// "stall" makes a single Filter expensive —
//
//	a large ring (8192 .. 131072 entries) whose entries mostly match, or
//	a ring of 256..2048 entries whose owners are 32 KB VALUES (equal value in
//	another interface box: every comparison of a matching entry reads 64 KB)
//
// — and has 2..4 goroutines issue such requests back to back while 1..3
// producers log back to back: the 16-entry queue stays full for as long as
// the logger serves Filter requests in a row (milliseconds). The oracle is
// the concurrent one: every result (and what finally sits in the ring) has
// each producer's entries in issue order, contiguous, without duplicates, and
// after logging stops the ring holds per-producer suffixes, min(N,total)
// entries. How often a producer found the queue full for 1 ms or more is
// reported as evidence (stall_log_calls_blocked_1ms_or_more), it is not part
// of any verdict.

func genStall(t *rapid.T) (*Case, string) {
	c := &Case{Kind: "stall"}
	class := rapid.SampledFrom([]string{"big ring", "big ring", "fat owners"}).Draw(t, "class")
	if class == "fat owners" {
		c.Fat = true
		c.N = rapid.OneOf(rapid.SampledFrom([]int{256, 512, 1000, 2048}), rapid.IntRange(256, 2048)).Draw(t, "N")
	} else {
		c.N = rapid.OneOf(
			rapid.SampledFrom([]int{16384, 32768, 50000, 65536, 65536, 100000, 131072}),
			rapid.IntRange(8192, 131072),
		).Draw(t, "N")
	}
	o := rapid.IntRange(1, 3).Draw(t, "owner")
	// the ring is filled (and a little more) before the load starts
	c.Prods = append(c.Prods, Prod{O: o, Pre: true, Types: []int{1},
		Count: c.N + rapid.SampledFrom([]int{0, 0, 1, 17, 40}).Draw(t, "prefill over")})
	np := rapid.SampledFrom([]int{1, 1, 1, 2, 3}).Draw(t, "producers")
	maxCount := 500
	if hx.Thorough() {
		maxCount = 1500
	}
	for p := 0; p < np; p++ {
		po := o
		if p > 0 && rapid.IntRange(0, 2).Draw(t, "other owner") == 0 {
			po = 1 + (o+p-1)%3
		}
		if rapid.IntRange(0, 4).Draw(t, "nil owner") == 0 {
			po = 0 // logged with a nil owner: only Filter(nil, ...) may return these
		}
		c.Prods = append(c.Prods, Prod{
			O:     po,
			Count: rapid.IntRange(100, maxCount).Draw(t, "count"),
			Types: rapid.SliceOfN(genLogType, 1, 3).Draw(t, "types"),
			Yield: rapid.SampledFrom([]int{0, 0, 0, 64}).Draw(t, "yield"),
		})
	}
	nfg := rapid.IntRange(2, 4).Draw(t, "filterers")
	for g := 0; g < nfg; g++ {
		// many matches: everything, the owner of the fill, or owner and its type
		var params []FP
		if c.Fat {
			params = []FP{{o, 0}}
			if rapid.IntRange(0, 3).Draw(t, "typed") == 0 {
				params = append(params, FP{o, 1})
			}
		} else {
			params = rapid.SliceOfN(rapid.SampledFrom([]FP{{0, 0}, {0, 0}, {o, 0}, {o, 1}, {0, 1}}), 1, 2).Draw(t, "params")
		}
		c.Filts = append(c.Filts, Filterer{Calls: 20000, Params: params, Until: true})
	}
	return c, class
}

func stallNBucket(c *Case) string {
	switch {
	case c.Fat:
		return "fat owners N=256-2048"
	case c.N < 32768:
		return "N=8192-32767"
	case c.N < 65536:
		return "N=32768-65535"
	}
	return "N=65536-131072"
}

// TestPropStall: producers logging back to back into a logger that is kept
// busy by expensive Filter requests.
func TestPropStall(t *testing.T) {
	defer flushStats()
	hangSeen.Store(false)
	hx.Check(t, "stall", hx.N(8, 16), func(t *rapid.T) {
		c, class := genStall(t)
		hx.Eval()
		hx.Label("stall " + stallNBucket(c))
		hx.Label(fmt.Sprintf("stall %s producers=%d filterers=%d", class, len(c.Prods)-1, len(c.Filts)))
		// non-trivial by construction: a full ring of N >= 8192 entries (or
		// 256 fat ones) under >= 2 back-to-back Filter goroutines while a
		// producer logs >= 100 entries
		b, _ := json.Marshal(c)
		hx.NonTrivial("stall", b)
		hx.Sample("stall", c)
		hx.Journal("stall", c)
		o := RunCase(c)
		if o.err != nil {
			hx.Failf(stableTB{t, "stall"}, "stall", c, "%v", o.err)
		}
		if o.inconclusive != "" {
			t.Skip(o.inconclusive)
		}
	})
}
