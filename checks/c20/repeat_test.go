package c20

import (
	"fmt"
	"testing"

	"pgregory.net/rapid"
	"verif/internal/hx"
)

// Repeated requests. A Filter answer depends only on the ring at the moment
// the request is served; whatever the logger remembers between two requests
// (an answer, a position, a count) must not show. The histories here issue the
// SAME selective request again and again (small alphabets, so that repeats
// with nothing else in between are the rule) with runs of Log calls in between
// that do not match it, match it, or both, long enough to push its matching
// entries out of a small ring. Most requests are "settling" ones (Flt.Settle):
// logging pauses and the request is repeated until it equals the matching
// entries among the last N logged — the reference ring decides every answer.

// splitCombos: the 20 (owner,type) combinations that Log uses (owners nil, A,
// B, C x types 0, 1, 2, 4, 8), split by f. An entry logged with a nil owner is
// on the non-matching side of every request that names an owner, one logged
// with type 0 on the non-matching side of every request that names a type.
func splitCombos(f FP) (match, non []ent) {
	for x := 0; x < nCombos; x++ {
		if e := combo(x); f.matches(e.o, e.t) {
			match = append(match, e)
		} else {
			non = append(non, e)
		}
	}
	return
}

// evictingRepeats counts the pairs of successive Filter calls (nothing else
// requested in between) with the same selective parameters, at least one Log
// call in between, none of them matching, whose reference answers differ — the
// ring was full and a non-matching entry pushed a matching one out.
func evictingRepeats(c *Case) int {
	L, err := parseLogs(c.Logs)
	if err != nil {
		return 0
	}
	n := 0
	for i := 1; i < len(c.Filters); i++ {
		a, b := c.Filters[i-1], c.Filters[i]
		if a.FP != b.FP || !a.restrictive() || b.After <= a.After || b.After > len(L) {
			continue
		}
		quiet := true
		for s := a.After; s < b.After; s++ {
			if a.matches(L[s].o, L[s].t) {
				quiet = false
				break
			}
		}
		if quiet && !windowIs(L, c.N, b.After, b.FP, window(L, c.N, a.After, a.FP)) {
			n++
		}
	}
	return n
}

func genRep(t *rapid.T) (*Case, string) {
	n := rapid.OneOf(
		rapid.IntRange(1, 4),
		rapid.IntRange(1, 4),
		rapid.IntRange(5, 8),
		rapid.IntRange(9, 20),
	).Draw(t, "N")
	// the request that is repeated, and a second one that sometimes interleaves
	f := FP{
		O: rapid.SampledFrom([]int{0, 1, 1, 2, 2, 3, 3, 4}).Draw(t, "fo"),
		T: rapid.SampledFrom([]int{0, 0, 0, 1, 1, 2, 4, 8, 3}).Draw(t, "ft"),
	}
	if !f.restrictive() {
		f.O = 1
	}
	g := fpGen.Draw(t, "other")
	// Log alphabet: one or two combinations that match f, one or two that do not
	match, non := splitCombos(f)
	if len(match) == 0 { // owner D / type 3: nothing ever matches
		match = non
	}
	ma := rapid.SliceOfN(rapid.SampledFrom(match), 1, 2).Draw(t, "matching")
	na := rapid.SliceOfN(rapid.SampledFrom(non), 1, 2).Draw(t, "nonmatching")
	both := append(append([]ent{}, ma...), na...)

	steps := rapid.IntRange(2, 12).Draw(t, "steps")
	var es []ent
	var fl []Flt
	for s := 0; s < steps; s++ {
		kind := "non"
		if s == 0 {
			// fill (or over-fill) the ring with something the request can return
			kind = rapid.SampledFrom([]string{"match", "mixed", "mixed"}).Draw(t, "fill")
		} else {
			kind = rapid.SampledFrom([]string{"non", "non", "non", "non", "match", "mixed"}).Draw(t, "run")
		}
		ln := clip(rapid.OneOf(
			rapid.SampledFrom([]int{0, 1, 1, 2, n - 1, n, n + 1, 2 * n, 2*n + 1}),
			rapid.IntRange(0, 3*n+2),
		).Draw(t, "runlen"), 0, 3*n+2)
		if s == 0 && ln < n && rapid.IntRange(0, 3).Draw(t, "fillup") > 0 {
			ln = n + rapid.IntRange(0, n).Draw(t, "over")
		}
		for i := 0; i < ln; i++ {
			var e ent
			switch kind {
			case "non":
				e = rapid.SampledFrom(na).Draw(t, "log")
			case "match":
				e = rapid.SampledFrom(ma).Draw(t, "log")
			default:
				e = rapid.SampledFrom(both).Draw(t, "log")
			}
			es = append(es, e)
		}
		q := f
		if rapid.IntRange(0, 7).Draw(t, "which") == 0 {
			q = g
		}
		fl = append(fl, Flt{After: len(es), FP: q, Settle: rapid.IntRange(0, 3).Draw(t, "settle") > 0})
	}
	return &Case{Kind: "seq", N: n, Logs: encodeLogs(es), Filters: fl}, nBucketRep(n)
}

func nBucketRep(n int) string {
	switch {
	case n <= 4:
		return fmt.Sprint(n)
	case n <= 8:
		return "5-8"
	}
	return "9-20"
}

// TestPropRepeat: sequential histories that repeat one selective request
// around runs of Log calls; window oracle for every answer, settling requests
// must reach the reference ring; the usual convergence and all 30 combinations
// at the end.
func TestPropRepeat(t *testing.T) {
	defer flushStats()
	hangSeen.Store(false)
	hx.Check(t, "rep", hx.N(3000, 30000), func(t *rapid.T) {
		c, class := genRep(t)
		hx.Eval()
		hx.Label("rep N=" + class)
		if k := evictingRepeats(c); k > 0 {
			hx.NonTrivial("rep", c.N, c.Logs, fmt.Sprint(c.Filters))
			hx.Label("rep nontrivial")
			hx.ExtraAdd("rep_evicting_repeats", int64(k))
		}
		hx.Sample("rep", sampleOf(c))
		hx.Journal("rep", c)
		o := RunCase(c)
		if o.err != nil {
			hx.Failf(stableTB{t, "rep"}, "rep", c, "%v", o.err)
		}
		if o.inconclusive != "" {
			t.Skip(o.inconclusive)
		}
	})
}

// ---------------------------------------------------------------------------
// exhaustive: every short history over {log matching, log non-matching,
// the request (settling), another request}

type repVariant struct {
	name   string
	f      FP  // the repeated request
	m, x   ent // an entry that matches f / one that does not
	others FP  // the other request
}

var repVariants = []repVariant{
	{"owner-selective", FP{1, 0}, ent{1, 1}, ent{2, 1}, FP{0, 0}},
	{"type-selective", FP{0, 2}, ent{2, 2}, ent{2, 1}, FP{2, 0}},
	// the non-matching entry is logged with a nil owner / with type 0: it is in
	// the ring like any other entry and only a request with a nil owner / type 0
	// (the other request) returns it
	{"owner-selective, others logged with a nil owner", FP{1, 0}, ent{1, 1}, ent{0, 1}, FP{0, 1}},
	{"type-selective, others logged with type 0", FP{0, 2}, ent{2, 2}, ent{2, 0}, FP{2, 0}},
}

// repHistory builds the case for the op string w over "mxFA".
func repHistory(n int, v *repVariant, w []byte) *Case {
	var es []ent
	var fl []Flt
	for _, op := range w {
		switch op {
		case 'm':
			es = append(es, v.m)
		case 'x':
			es = append(es, v.x)
		case 'F':
			fl = append(fl, Flt{After: len(es), FP: v.f, Settle: true})
		case 'A':
			fl = append(fl, Flt{After: len(es), FP: v.others})
		}
	}
	return &Case{Kind: "seq", N: n, Logs: encodeLogs(es), Filters: fl, Desc: v.name + " " + string(w)}
}

// TestEnumRepeat: for capacities 1..3 (thorough 1..4), four request variants,
// EVERY history of K operations (quick 6, thorough 8) over the alphabet
//
//	m = Log an entry that matches the request     x = Log one that does not
//	F = the request, settling                     A = a different request, once
//
// Verdicts are given at every operation, so every shorter history is covered
// as a prefix. Each history ends with the usual convergence and all 30
// combinations.
func TestEnumRepeat(t *testing.T) {
	defer flushStats()
	maxN, K := 3, 6
	if hx.Thorough() {
		maxN, K = 4, 8
	}
	const ops = "mxFA"
	total := 1
	for i := 0; i < K; i++ {
		total *= len(ops)
	}
	w := make([]byte, K)
	for n := 1; n <= maxN; n++ {
		for vi := range repVariants {
			v := &repVariants[vi]
			for h := hx.Shard; h < total; h += hx.NShards {
				for i, x := 0, h; i < K; i, x = i+1, x/len(ops) {
					w[K-1-i] = ops[x%len(ops)]
				}
				c := repHistory(n, v, w)
				hx.Eval()
				hx.Label("repenum " + v.name)
				if evictingRepeats(c) > 0 {
					hx.NonTrivial("repenum", n, v.name, string(w))
					hx.Label("repenum nontrivial")
				}
				if h%97 == 0 {
					hx.Sample("repenum", c)
				}
				hx.Journal("repenum", c)
				o := RunCase(c)
				if o.err != nil {
					hx.Violation("repenum", c, o.err.Error())
					t.Fatalf("%v", o.err)
				}
				if o.inconclusive != "" {
					t.Logf("inconclusive: %s", o.inconclusive)
					return
				}
			}
		}
	}
	hx.Exhaustive(fmt.Sprintf("capacities 1..%d x %d request variants (owner-selective, type-selective, each with ordinary non-matching entries and with non-matching entries logged with a nil owner / type 0) x every history of %d operations over {Log matching, Log non-matching, the request repeated until it settles, another request}: %d histories, every prefix judged", maxN, len(repVariants), K, maxN*len(repVariants)*total))
}
