package c20

import (
	"encoding/json"
	"fmt"
	"sort"
	"strings"
	"testing"

	"pgregory.net/rapid"
	"verif/internal/hx"
)

func TestMain(m *testing.M) { hx.Main(m, "C20") }

// RunCase executes one case under the hang watchdog.
func RunCase(c *Case) outcome {
	if c.N < 1 || c.N > 1<<18 {
		return outcome{err: fmt.Errorf("harness: capacity %d out of range", c.N)}
	}
	switch c.Kind {
	case "seq", "sweep", "long":
		return guarded(1, func(ws []worker) error { return runSeq(c, ws[0]) })
	case "fresh":
		// many fresh loggers under one watchdog
		if c.Repeat < 1 || c.Repeat > 1<<20 {
			return outcome{err: fmt.Errorf("harness: kind fresh needs 1 <= repeat <= 2^20")}
		}
		o := guarded(len(c.Prods)+len(c.Filts)+1, func(ws []worker) error { return runFresh(c, ws) })
		if o.err == errBarrier {
			msg := "C20: goroutines waiting at the spin barrier gave up and no call into go9p is stuck (starved machine or harness trouble)"
			hx.Inconclusive(msg)
			return outcome{inconclusive: msg}
		}
		return o
	case "conc", "stall":
		n := c.Repeat
		if n < 1 {
			n = 1
		}
		for i := 0; i < n; i++ {
			o := guarded(len(c.Prods)+len(c.Filts)+1, func(ws []worker) error { return runConc(c, ws) })
			if o.err != nil || o.inconclusive != "" {
				return o
			}
		}
		return outcome{}
	}
	return outcome{err: fmt.Errorf("harness: unknown kind %q", c.Kind)}
}

// stableTB gives rapid a failure message that does not depend on the schedule.
// Which Filter call exposes a defect first (and with which entries) depends on
// how far the logger goroutine lags behind, so the detailed message differs
// between two runs of the same case; rapid only shrinks (and does not call the
// test flaky) when a re-run fails with the same message. hx.Failf has already
// recorded the detailed message with the case when it calls Fatalf here.
type stableTB struct {
	t    *rapid.T
	test string
}

func (s stableTB) Helper() {}
func (s stableTB) Fatalf(format string, args ...interface{}) {
	s.t.Logf(format, args...)
	s.t.Fatalf("C20 %s: logger oracle violated (details above and in the replay file)", s.test)
}

func sampleOf(c *Case) interface{} {
	s := *c
	if len(s.Logs) > 120 {
		s.Desc += fmt.Sprintf(" (logs truncated from %d calls)", len(s.Logs)/2)
		s.Logs = s.Logs[:120]
	}
	if len(s.Filters) > 12 {
		s.Desc += fmt.Sprintf(" (filters truncated from %d)", len(s.Filters))
		s.Filters = s.Filters[:12]
	}
	return s
}

func flushStats() {
	hx.Extra("max_lag_seq_filter_behind_log", statMaxLag.Load())
	hx.Extra("max_convergence_rounds", statConvRounds.Load())
	hx.Extra("seq_filters_overtaking_queued_entries", statLagging.Load())
	hx.Extra("seq_filter_calls", statSeqFilters.Load())
	hx.Extra("seq_settling_requests", statSettles.Load())
	hx.Extra("max_settle_rounds", statSettleRounds.Load())
	hx.Extra("conc_filter_calls_while_producing", statConcFilters.Load())
	hx.Extra("long_log_calls", statLongLogs.Load())
	hx.Extra("stall_filter_calls_while_producing", statStallFilters.Load())
	hx.Extra("stall_log_calls_blocked_1ms_or_more", statStallLogs.Load())
	hx.Extra("fresh_loggers_first_used_by_goroutines_released_together", statFreshLoggers.Load())
	hx.Extra("fresh_cases_barrier_poll_budget_spent", statFreshRelaxed.Load())
}

// ---------------------------------------------------------------------------
// replay / regress

func TestReplay(t *testing.T) {
	e, err := hx.LoadReplay()
	if e == nil {
		t.Skip("no replay file", err)
	}
	replayEnv(t, e, true)
}

func replayEnv(t *testing.T, e *hx.Envelope, replay bool) {
	var c Case
	if err := json.Unmarshal(e.Case, &c); err != nil {
		t.Fatalf("bad case: %v", err)
	}
	if c.Kind == "conc" && c.Repeat < 200 {
		// the configuration does not fix the schedule: run it many times
		c.Repeat = 200
	}
	if c.Kind == "stall" && replay && c.Repeat < 10 {
		c.Repeat = 10
	}
	if c.Kind == "fresh" && replay && c.Repeat < 20000 {
		// whether two first calls coincide is up to the machine: many loggers
		c.Repeat = 20000
	}
	hx.Eval()
	hx.Journal(e.Test, &c)
	o := RunCase(&c)
	if o.err != nil {
		hx.Violation(e.Test, &c, o.err.Error())
		t.Fatalf("%v", o.err)
	}
}

func TestRegress(t *testing.T) {
	for _, e := range hx.Regressions() {
		replayEnv(t, e, false)
		hx.Label("regress")
	}
}

// ---------------------------------------------------------------------------
// exhaustive sweep: every ring position and fill level

// TestEnumRing: for every capacity N (quick 1..24, thorough 1..64 sharded) log
// 3N+2 entries with a fixed owner/type pattern; after every Log wait for
// convergence and compare all 30 filter combinations with the reference ring.
// The pattern "wild" has every fourth entry logged with a nil owner and every
// fifth with type 0 (those match only requests with a nil owner resp. type 0).
func TestEnumRing(t *testing.T) {
	maxN := 24
	if hx.Thorough() {
		maxN = 64
	}
	for n := 1 + hx.Shard; n <= maxN; n += hx.NShards {
		for _, pat := range []string{"cycle", "runs", "wild"} {
			es := make([]ent, 3*n+2)
			for i := range es {
				switch pat {
				case "cycle": // owner period 3, type period 4: all 12 combinations
					es[i] = ent{1 + i%3, logTypes[i%4]}
				case "runs": // runs of n+1 equal entries: windows with no match at all
					k := i / (n + 1)
					es[i] = ent{1 + k%3, logTypes[(k/3)%4]}
				case "wild": // owner period 4 (nil, A, B, C), type period 5 (0, 1, 2, 4, 8): all 20 combinations
					es[i] = ent{i % 4, logTypes0[i%5]}
				}
			}
			c := &Case{Kind: "sweep", N: n, Logs: encodeLogs(es), Desc: pat}
			hx.Eval()
			hx.NonTrivial("sweep", n, c.Logs)
			hx.Label("sweep " + pat)
			hx.Journal("sweep", c)
			hx.Sample("sweep", sampleOf(c))
			o := RunCase(c)
			if o.err != nil {
				hx.Violation("sweep", c, o.err.Error())
				t.Fatalf("%v", o.err)
			}
			if o.inconclusive != "" {
				t.Logf("inconclusive: %s", o.inconclusive)
				return
			}
		}
	}
	hx.Exhaustive(fmt.Sprintf("capacities 1..%d x every history length 0..3N+2 (every ring write position, empty / partly filled / exactly full / wrapped up to three times) x 3 owner-type patterns (one with entries logged with a nil owner / type 0) x all 30 (owner,type) filters, each after convergence", maxN))
	flushStats()
}

// ---------------------------------------------------------------------------
// generators

func genN(t *rapid.T) int {
	return rapid.OneOf(
		rapid.IntRange(1, 4),
		rapid.IntRange(1, 64),
		rapid.SampledFrom([]int{1, 2, 15, 16, 17, 18, 32, 63, 64}),
	).Draw(t, "N")
}

var fpGen = rapid.Custom(func(t *rapid.T) FP {
	return FP{
		O: rapid.SampledFrom([]int{0, 0, 1, 2, 3, 1, 2, 3, 4}).Draw(t, "fo"),
		T: rapid.SampledFrom([]int{0, 0, 1, 2, 4, 8, 1, 2, 4, 8, 3}).Draw(t, "ft"),
	}
})

func clip(v, lo, hi int) int {
	if v < lo {
		return lo
	}
	if v > hi {
		return hi
	}
	return v
}

// lengthClasses relative to the capacity (DESIGN §C20), plus the neighbourhood
// of the hand-off queue (16 entries).
var lengthClasses = []string{"<N", "=N", "N+1", "2N-1", "2N", "2N+1", "N+15..N+18", "3N..9N", "10N..50N"}

func genSeq(t *rapid.T) (*Case, string) {
	n := genN(t)
	class := rapid.SampledFrom(lengthClasses).Draw(t, "lenclass")
	var ln int
	switch class {
	case "<N":
		ln = rapid.IntRange(0, n-1).Draw(t, "len")
	case "=N":
		ln = n
	case "N+1":
		ln = n + 1
	case "2N-1":
		ln = 2*n - 1
	case "2N":
		ln = 2 * n
	case "2N+1":
		ln = 2*n + 1
	case "N+15..N+18":
		ln = n + rapid.IntRange(15, 18).Draw(t, "len")
	case "3N..9N":
		ln = rapid.IntRange(3*n, 9*n).Draw(t, "len")
	case "10N..50N":
		ln = rapid.IntRange(10*n, 50*n).Draw(t, "len")
	}
	// alphabet of the Log calls: the 12 combinations with an owner and a type,
	// or all 20 including entries logged with a nil owner and/or type 0 (those
	// are ordinary entries: only a request with a nil owner / type 0 matches them)
	pick, top := comboOrd, 11
	alpha := rapid.SampledFrom([]string{"ordinary", "wild", "wild"}).Draw(t, "alphabet")
	if alpha == "wild" {
		pick, top = combo, nCombos-1
	}
	// owner/type mix: uniform over the combinations, or dominated by one
	// combination so that restrictive filters see sparse matches
	mix := rapid.SampledFrom([]string{"uniform", "uniform", "skewed", "alternating"}).Draw(t, "mix")
	es := make([]ent, ln)
	switch mix {
	case "uniform":
		v := rapid.SliceOfN(rapid.IntRange(0, top), ln, ln).Draw(t, "logs")
		for i, x := range v {
			es[i] = pick(x)
		}
	case "skewed":
		dom := rapid.IntRange(0, top).Draw(t, "dominant")
		v := rapid.SliceOfN(rapid.IntRange(0, 59), ln, ln).Draw(t, "logs")
		for i, x := range v {
			if x > top {
				x = dom
			}
			es[i] = pick(x)
		}
	case "alternating":
		a, b := rapid.IntRange(0, top).Draw(t, "a"), rapid.IntRange(0, top).Draw(t, "b")
		run := rapid.IntRange(1, n+1).Draw(t, "run")
		for i := range es {
			x := a
			if (i/run)%2 == 1 {
				x = b
			}
			es[i] = pick(x)
		}
	}
	// Filter calls: positions anywhere, with extra weight on the positions
	// where the ring fills, wraps and where the hand-off queue overflows
	hot := []int{0, 1, n - 1, n, n + 1, n + 16, n + 17, 2*n - 1, 2 * n, 2*n + 1, ln - 1, ln}
	for i := range hot {
		hot[i] = clip(hot[i], 0, ln)
	}
	nf := rapid.IntRange(0, 16).Draw(t, "nfilters")
	fl := make([]Flt, nf)
	for i := range fl {
		pos := rapid.OneOf(rapid.IntRange(0, ln), rapid.SampledFrom(hot)).Draw(t, "after")
		fl[i] = Flt{After: pos, FP: fpGen.Draw(t, "fp")}
	}
	sort.SliceStable(fl, func(a, b int) bool { return fl[a].After < fl[b].After })
	return &Case{Kind: "seq", N: n, Logs: encodeLogs(es), Filters: fl}, class + " " + mix
}

// wildUnderSelective counts the Filter calls of a sequential case that name an
// owner (resp. a type) while an entry logged with a nil owner (resp. type 0) is
// among the last N logged: the request must leave that entry out.
func wildUnderSelective(c *Case) int {
	L, err := c.history()
	if err != nil {
		return 0
	}
	k := 0
	for _, f := range c.Filters {
		if !f.restrictive() || f.After > len(L) {
			continue
		}
		for s := max(0, f.After-c.N); s < f.After; s++ {
			if (f.O != 0 && L[s].o == 0) || (f.T != 0 && L[s].t == 0) {
				k++
				break
			}
		}
	}
	return k
}

func nBucket(n int) string {
	switch {
	case n == 1:
		return "1"
	case n <= 4:
		return "2-4"
	case n <= 16:
		return "5-16"
	case n <= 32:
		return "17-32"
	}
	return "33-64"
}

// TestPropSeq: sequential histories against the reference ring ("some prefix
// j" window, j non-decreasing), convergence after logging stops, then all 30
// filter combinations exactly.
func TestPropSeq(t *testing.T) {
	defer flushStats()
	hangSeen.Store(false) // the first hang of every property is decided with the full deadline
	hx.Check(t, "seq", hx.N(5000, 60000), func(t *rapid.T) {
		c, class := genSeq(t)
		hx.Eval()
		hx.Label("seq N=" + nBucket(c.N) + " len=" + strings.SplitN(class, " ", 2)[0])
		hx.Label("seq mix=" + strings.SplitN(class, " ", 2)[1])
		// non-trivial: the ring has wrapped when a restrictive Filter is issued
		for _, f := range c.Filters {
			if f.After > c.N && f.restrictive() {
				hx.NonTrivial("seq", c.N, c.Logs, fmt.Sprint(c.Filters))
				hx.Label("seq nontrivial")
				break
			}
		}
		hx.Sample("seq", sampleOf(c))
		hx.Journal("seq", c)
		o := RunCase(c)
		if o.err != nil {
			hx.Failf(stableTB{t, "seq"}, "seq", c, "%v", o.err)
		}
		if o.inconclusive != "" {
			t.Skip(o.inconclusive)
		}
	})
}

// genProdOwner: the owner of a concurrent producer; one in five logs with a
// nil owner (its entries match only requests with a nil owner).
func genProdOwner(t *rapid.T) int {
	return rapid.SampledFrom([]int{1, 2, 3, 1, 2, 3, 1, 2, 3, 1, 2, 3, 0, 0, 0}).Draw(t, "owner")
}

// genLogType: the type of a Log call; one in seven is 0 (matches only requests
// with type 0).
var genLogType = rapid.SampledFrom([]int{1, 2, 4, 8, 1, 2, 4, 8, 1, 2, 4, 8, 0, 0})

// wildProds: producers that log with a nil owner or (also) with type 0.
func wildProds(c *Case) int {
	k := 0
	for _, p := range c.Prods {
		w := p.O == 0
		for _, ty := range p.Types {
			w = w || ty == 0
		}
		if w {
			k++
		}
	}
	return k
}

func genConc(t *rapid.T) (*Case, string) {
	n := genN(t)
	np := rapid.IntRange(2, 8).Draw(t, "producers")
	class := rapid.SampledFrom([]string{"total<=N", "around N", "over N", "far over N"}).Draw(t, "volume")
	c := &Case{Kind: "conc", N: n}
	for p := 0; p < np; p++ {
		var cnt int
		switch class {
		case "total<=N":
			cnt = rapid.IntRange(1, max(1, n/np)).Draw(t, "count")
		case "around N":
			cnt = rapid.IntRange(1, max(1, 2*n/np)).Draw(t, "count")
		case "over N":
			cnt = rapid.IntRange(1, 2*n+1).Draw(t, "count")
		case "far over N":
			cnt = rapid.IntRange(n, 10*n).Draw(t, "count")
		}
		c.Prods = append(c.Prods, Prod{
			O:     genProdOwner(t),
			Count: cnt,
			Types: rapid.SliceOfN(genLogType, 1, 4).Draw(t, "types"),
			Yield: rapid.SampledFrom([]int{0, 0, 1, 3, 17}).Draw(t, "yield"),
		})
	}
	nfg := rapid.IntRange(1, 3).Draw(t, "filterers")
	for g := 0; g < nfg; g++ {
		c.Filts = append(c.Filts, Filterer{
			Calls:  rapid.IntRange(1, 120).Draw(t, "calls"),
			Params: rapid.SliceOfN(fpGen, 1, 4).Draw(t, "params"),
			Yield:  rapid.SampledFrom([]int{0, 1, 4}).Draw(t, "fyield"),
		})
	}
	return c, class
}

// TestPropConc: 2..8 producers and 1..3 Filter goroutines; the oracle holds
// for every schedule, the case records only the drawn configuration.
func TestPropConc(t *testing.T) {
	defer flushStats()
	hangSeen.Store(false)
	hx.Check(t, "conc", hx.N(2000, 20000), func(t *rapid.T) {
		c, class := genConc(t)
		total := 0
		for _, p := range c.Prods {
			total += p.Count
		}
		hx.Eval()
		hx.Label(fmt.Sprintf("conc N=%s %s", nBucket(c.N), class))
		hx.Label(fmt.Sprintf("conc producers=%d filterers=%d", len(c.Prods), len(c.Filts)))
		restrictive := false
		for _, f := range c.Filts {
			for _, q := range f.Params {
				restrictive = restrictive || q.restrictive()
			}
		}
		if total > c.N && restrictive {
			b, _ := json.Marshal(c)
			hx.NonTrivial("conc", b)
			hx.Label("conc nontrivial")
		}
		hx.Sample("conc", c)
		hx.Journal("conc", c)
		o := RunCase(c)
		if o.err != nil {
			hx.Failf(stableTB{t, "conc"}, "conc", c, "%v", o.err)
		}
		if o.inconclusive != "" {
			t.Skip(o.inconclusive)
		}
	})
}
