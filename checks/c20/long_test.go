package c20

import (
	"fmt"
	"sort"
	"testing"

	"pgregory.net/rapid"
	"verif/internal/hx"
)

// Long histories on ONE Logger. Whatever the logger keeps about its position
// (an index, a count, a sequence number) must keep describing the ring after
// any number of entries; a history that is a few times the capacity never
// shows what happens when the total number logged passes 2^8, 2^15, 2^16, ...
// Kind "long": Total Log calls following a short cyclic pattern, capacities that
// are mostly NOT powers of two, and Filter checkpoints drawn densely around
// every multiple of 2^16 (and 2^15, 2^8) of the total. A checkpoint is
//
//	Filter(nil,0) once (may lag: window of some prefix, j non-decreasing),
//	Filter(nil,0) settling (logging pauses until it is the last N logged),
//	1..2 selective requests (exact, since everything logged has been seen).
//
// The oracle is the reference ring of the sequential kinds, unchanged.

const pow16 = 1 << 16

// checkpoint appends the requests of one checkpoint after `at` Log calls.
func checkpoint(fl []Flt, at int, sel ...FP) []Flt {
	fl = append(fl, Flt{After: at, FP: FP{0, 0}}, Flt{After: at, FP: FP{0, 0}, Settle: true})
	for _, f := range sel {
		fl = append(fl, Flt{After: at, FP: f})
	}
	return fl
}

// sortCheckpoints orders by position, keeping the order within a checkpoint,
// and drops positions outside the history.
func sortCheckpoints(fl []Flt, total int) []Flt {
	out := fl[:0]
	for _, f := range fl {
		if f.After >= 0 && f.After <= total {
			out = append(out, f)
		}
	}
	sort.SliceStable(out, func(a, b int) bool { return out[a].After < out[b].After })
	return out
}

// wrapCheckpoints counts the checkpoints that lie in [m, m+N) for a multiple
// m >= 2^16 of 2^16: the ring is about to overwrite / has partly overwritten
// the entries that were in it when the total passed m.
func wrapCheckpoints(c *Case) int {
	n, last := 0, -1
	for _, f := range c.Filters {
		if f.After != last && f.After >= pow16 && f.After%pow16 < c.N {
			n++
		}
		last = f.After
	}
	return n
}

var longCaps = []int{3, 5, 7, 48, 100, 1000}

func genLong(t *rapid.T) (*Case, string) {
	// mostly capacities that are not powers of two (those divide every 2^k
	// the total can pass, so a position derived from the total modulo 2^k
	// cannot go wrong for them)
	n := rapid.OneOf(
		rapid.SampledFrom(longCaps),
		rapid.SampledFrom(longCaps),
		rapid.IntRange(3, 64),
		rapid.IntRange(65, 1500),
		rapid.SampledFrom([]int{6, 9, 10, 12, 15, 17, 24, 31, 33, 63, 65, 127, 129, 255, 257, 500, 1023, 1025}),
		rapid.SampledFrom([]int{1, 2, 4, 16, 64, 1024}),
	).Draw(t, "N")
	maxMult := 2
	if hx.Thorough() {
		maxMult = 4
	}
	class := rapid.SampledFrom([]string{"2^16", "2^16", "2x2^16", "2x2^16", "beyond", "between"}).Draw(t, "lenclass")
	var total int
	over := rapid.OneOf(rapid.IntRange(0, 3*n+40), rapid.IntRange(0, n)).Draw(t, "over")
	switch class {
	case "2^16":
		total = pow16 + over
	case "2x2^16":
		total = 2*pow16 + over
	case "beyond":
		total = rapid.IntRange(2, maxMult+1).Draw(t, "mult")*pow16 + over
	case "between":
		total = rapid.IntRange(pow16, (maxMult+1)*pow16).Draw(t, "len")
	}
	// cyclic Log pattern: 1..40 calls over the 12 (owner,type) combinations with
	// an owner and a type, or (two times in three) over all 20 including Log
	// calls with a nil owner / type 0
	pick, top := comboOrd, 11
	if rapid.IntRange(0, 2).Draw(t, "alphabet") > 0 {
		pick, top = combo, nCombos-1
	}
	plen := rapid.OneOf(rapid.IntRange(1, 5), rapid.IntRange(1, 40)).Draw(t, "patlen")
	pv := rapid.SliceOfN(rapid.IntRange(0, top), plen, plen).Draw(t, "pattern")
	pat := make([]ent, plen)
	for i, x := range pv {
		pat[i] = pick(x)
	}
	sel := func() []FP {
		k := rapid.IntRange(1, 2).Draw(t, "nsel")
		out := make([]FP, k)
		for i := range out {
			out[i] = fpGen.Draw(t, "fp")
		}
		return out
	}
	var fl []Flt
	// dense around every multiple of 2^16
	for m := pow16; m <= total+2; m += pow16 {
		if n <= 40 {
			for d := -2; d <= 2*n+2; d++ {
				fl = checkpoint(fl, m+d, sel()...)
			}
			continue
		}
		for _, d := range []int{-2, -1, 0, 1, 2, n / 2, n - 1, n, n + 1, 2 * n} {
			fl = checkpoint(fl, m+d, sel()...)
		}
		k := rapid.IntRange(8, 32).Draw(t, "dense")
		for i := 0; i < k; i++ {
			d := rapid.OneOf(rapid.IntRange(0, 20), rapid.IntRange(0, n+2), rapid.IntRange(n-20, n+2)).Draw(t, "offset")
			fl = checkpoint(fl, m+d, sel()...)
		}
	}
	// odd multiples of 2^15, some multiples of 2^8, and anywhere
	for m := pow16 / 2; m <= total; m += pow16 {
		for _, d := range []int{-1, 0, 1, rapid.IntRange(0, n).Draw(t, "offset15")} {
			fl = checkpoint(fl, m+d, sel()...)
		}
	}
	k := rapid.IntRange(0, 12).Draw(t, "n256")
	for i := 0; i < k; i++ {
		m := 256 * rapid.OneOf(rapid.IntRange(1, 8), rapid.IntRange(1, total/256)).Draw(t, "mult256")
		fl = checkpoint(fl, m+rapid.IntRange(-1, n).Draw(t, "offset8"), sel()...)
	}
	k = rapid.IntRange(0, 6).Draw(t, "nany")
	for i := 0; i < k; i++ {
		fl = checkpoint(fl, rapid.IntRange(0, total).Draw(t, "any"), sel()...)
	}
	fl = sortCheckpoints(fl, total)
	return &Case{Kind: "long", N: n, Logs: encodeLogs(pat), Total: total, Filters: fl}, class
}

func nBucketLong(n int) string {
	switch {
	case n&(n-1) == 0:
		return "power of two"
	case n <= 8:
		return "3-7"
	case n <= 64:
		return "9-63"
	case n <= 256:
		return "65-255"
	}
	return "257-1500"
}

func runLongCase(t interface {
	Logf(string, ...interface{})
}, test string, c *Case) outcome {
	hx.Eval()
	hx.Label(test + " N=" + nBucketLong(c.N))
	if k := wrapCheckpoints(c); k > 0 {
		hx.NonTrivial(test, c.N, c.Logs, c.Total, fmt.Sprint(c.Filters))
		hx.Label(test + " nontrivial")
		hx.ExtraAdd("long_checkpoints_within_N_after_a_multiple_of_65536", int64(k))
	}
	hx.Sample(test, sampleOf(c))
	hx.Journal(test, c)
	return RunCase(c)
}

// TestPropLong: drawn long histories (see genLong).
func TestPropLong(t *testing.T) {
	defer flushStats()
	hangSeen.Store(false)
	hx.Check(t, "long", hx.N(24, 100), func(t *rapid.T) {
		c, class := genLong(t)
		hx.Label("long len=" + class)
		o := runLongCase(t, "long", c)
		if o.err != nil {
			hx.Failf(stableTB{t, "long"}, "long", c, "%v", o.err)
		}
		if o.inconclusive != "" {
			t.Skip(o.inconclusive)
		}
	})
}

// TestEnumLong: fixed long histories. For every capacity of the list (quick:
// 3, 5, 7, 48, 100, 1000; thorough: 30 capacities, sharded) the period-20
// pattern "wild" of the sweep (every fourth entry logged with a nil owner, every
// fifth with type 0) is logged 2 x 2^16 + 2N + 3 times (thorough 4 x 2^16 +
// 2N + 3) with a checkpoint
//   - at every total m-2 .. m+min(N,64)+2 and at m+N/2, m+N-1, m+N, m+N+1, m+2N
//     for every multiple m of 2^16,
//   - at m-1, m, m+1 for every multiple m of 2^15, every multiple of 2^8 up to
//     2^13 and every multiple of 2^12.
func TestEnumLong(t *testing.T) {
	defer flushStats()
	caps := append([]int{}, longCaps...)
	mult := 2
	if hx.Thorough() {
		caps = append(caps, 1, 2, 6, 9, 10, 12, 15, 17, 24, 31, 33, 63, 64, 65, 127, 129, 255, 257, 500, 1023, 1024, 1025, 1500, 4097)
		mult = 4
	}
	// owner period 4 (nil, A, B, C), type period 5 (0, 1, 2, 4, 8): all 20
	// combinations, the pattern "wild" of the sweep
	pat := make([]ent, nCombos)
	for i := range pat {
		pat[i] = ent{i % 4, logTypes0[i%5]}
	}
	sel := []FP{{1, 0}, {0, 2}, {2, 4}}
	for ci := hx.Shard; ci < len(caps); ci += hx.NShards {
		n := caps[ci]
		total := mult*pow16 + 2*n + 3
		var fl []Flt
		seen := map[int]bool{}
		add := func(at int) {
			if at >= 0 && at <= total && !seen[at] {
				seen[at] = true
				fl = checkpoint(fl, at, sel...)
			}
		}
		for m := pow16; m <= total; m += pow16 {
			for d := -2; d <= min(n, 64)+2; d++ {
				add(m + d)
			}
			for _, d := range []int{n / 2, n - 1, n, n + 1, 2 * n} {
				add(m + d)
			}
		}
		for m := 256; m <= total; m += 256 {
			if m <= 8192 || m%4096 == 0 {
				add(m - 1)
				add(m)
				add(m + 1)
			}
		}
		fl = sortCheckpoints(fl, total)
		c := &Case{Kind: "long", N: n, Logs: encodeLogs(pat), Total: total, Filters: fl, Desc: "wild"}
		o := runLongCase(t, "longenum", c)
		if o.err != nil {
			hx.Violation("longenum", c, o.err.Error())
			t.Fatalf("%v", o.err)
		}
		if o.inconclusive != "" {
			t.Logf("inconclusive: %s", o.inconclusive)
			return
		}
	}
	hx.Exhaustive(fmt.Sprintf("long histories: %d capacities x one history of %d x 2^16 + 2N + 3 entries (period-20 pattern over owners nil, A, B, C and types 0, 1, 2, 4, 8), checkpoints at every total from m-2 to m+min(N,64)+2 and at m+N/2, m+N-1, m+N, m+N+1, m+2N for every multiple m of 2^16, and around every multiple of 2^15 / 2^12 / (up to 2^13) 2^8: Filter(nil,0) unsettled and settled, Filter(A,0), Filter(nil,2), Filter(B,4)", len(caps), mult))
}
