package c10

// The failure kind "transport error" is a family of error VALUES, not one: what
// a broken connection reports from Read (and from Write) depends on the
// transport and on how it broke. Some of these values describe themselves as a
// time-out or as temporary (net.Error). Whatever the value says about itself: a
// connection whose Read (or Write) keeps returning it has failed, and every
// outstanding and every later call must return an error within the deadline.

import (
	"errors"
	"fmt"
	"io"
	"net"
	"os"
	"sync/atomic"
	"syscall"
	"testing"

	"verif/internal/hx"
	"verif/internal/xport"
)

// selfErr is an error type of the harness's own that implements net.Error with
// the given answers.
type selfErr struct {
	msg                string
	timeout, temporary bool
}

func (e *selfErr) Error() string   { return e.msg }
func (e *selfErr) Timeout() bool   { return e.timeout }
func (e *selfErr) Temporary() bool { return e.temporary }

// errKinds names the error values; the first is the plain one of the older tables.
var errKinds = []string{
	"plain", "unexpected-eof", "wrapped-eof", "net-closed", "closed-pipe",
	"econnreset", "epipe", "etimedout", "eagain", "eintr", "ehostunreach",
	"op-econnreset", "op-etimedout", "op-epipe", "op-plain",
	"deadline", "op-deadline",
	"self-timeout", "self-temporary", "self-timeout-temporary", "self-neither", "op-self-timeout",
}

// transportErr returns the error value of a kind ("" is the plain one).
func transportErr(kind string) error {
	op := func(e error) error {
		return &net.OpError{Op: "read", Net: "tcp", Source: xaddr("10.0.0.1:40000"), Addr: xaddr("10.0.0.2:564"), Err: e}
	}
	switch kind {
	case "", "plain":
		return errors.New("injected transport error")
	case "unexpected-eof":
		return io.ErrUnexpectedEOF
	case "wrapped-eof":
		return fmt.Errorf("transport: %w", io.EOF)
	case "net-closed":
		return net.ErrClosed
	case "closed-pipe":
		return io.ErrClosedPipe
	case "econnreset":
		return syscall.ECONNRESET
	case "epipe":
		return syscall.EPIPE
	case "etimedout":
		return syscall.ETIMEDOUT // Timeout() and Temporary() are true
	case "eagain":
		return syscall.EAGAIN // Timeout() and Temporary() are true
	case "eintr":
		return syscall.EINTR // Temporary() is true
	case "ehostunreach":
		return syscall.EHOSTUNREACH
	case "op-econnreset":
		return op(os.NewSyscallError("read", syscall.ECONNRESET))
	case "op-etimedout":
		return op(os.NewSyscallError("read", syscall.ETIMEDOUT))
	case "op-epipe":
		return op(os.NewSyscallError("write", syscall.EPIPE))
	case "op-plain":
		return op(errors.New("link down"))
	case "deadline":
		return os.ErrDeadlineExceeded // Timeout() and Temporary() are true
	case "op-deadline":
		return op(os.ErrDeadlineExceeded) // what a net.Conn returns once its read deadline has passed
	case "self-timeout":
		return &selfErr{"keep-alive expired", true, false}
	case "self-temporary":
		return &selfErr{"resource temporarily unavailable", false, true}
	case "self-timeout-temporary":
		return &selfErr{"i/o timeout", true, true}
	case "self-neither":
		return &selfErr{"link failure", false, false}
	case "op-self-timeout":
		return op(&selfErr{"i/o timeout", true, true})
	}
	return fmt.Errorf("harness: unknown error kind %q", kind)
}

type xaddr string

func (a xaddr) Network() string { return "tcp" }
func (a xaddr) String() string  { return string(a) }

// errKindClass: what the error value says about itself.
func errKindClass(kind string) string {
	err := transportErr(kind)
	ne, ok := err.(net.Error)
	switch {
	case !ok:
		return "not a net.Error"
	case ne.Timeout() && ne.Temporary(): //nolint
		return "net.Error, Timeout and Temporary"
	case ne.Timeout():
		return "net.Error, Timeout"
	case ne.Temporary(): //nolint
		return "net.Error, Temporary"
	}
	return "net.Error, neither Timeout nor Temporary"
}

// wfailConn is the client's end of the connection with a Write that can be
// made to fail on its own: from arm on every Write returns the error value and
// takes nothing, while reads go on as before (the peer is silent, the
// connection open in that direction).
type wfailConn struct {
	*xport.End
	werr   atomic.Pointer[error]
	failed atomic.Int64
}

func (w *wfailConn) arm(err error) { w.werr.Store(&err) }

func (w *wfailConn) Write(p []byte) (int, error) {
	if e := w.werr.Load(); e != nil {
		w.failed.Add(1)
		return 0, *e
	}
	return w.End.Write(p)
}

// TestEnumErrorValues: every error value of the family, returned persistently
// by Read (fail "err": and by Write) or by Write alone (fail "werr", met by one
// more call's request), x 0..4 outstanding calls x where the reply stream was
// cut x how the client was made; also with the writer inside an undrained
// Write that then fails with the value, and while MountConn / Connect itself is
// the outstanding call.
func TestEnumErrorValues(t *testing.T) {
	idx := 0
	one := func(c *Case) {
		idx++
		if hx.NShards > 1 && idx%hx.NShards != hx.Shard {
			return
		}
		if err := execute("errvalues", c); err != nil {
			hx.Violation("errvalues", c, err.Error())
			t.Fatalf("%v", err)
		}
	}
	calls, orders := []string{"stat", "read", "write", "open"}, [][]int{{}, {0}, {1, 0}, {2, 0, 1}, {0, 3, 1, 2}}
	for ki, ek := range errKinds {
		for n := 0; n <= 4; n++ {
			for ci, cut := range []int{0, 30, 100, -1} {
				if n == 0 && ci > 0 {
					continue
				}
				for vi, via := range []string{"", "mounted"} {
					x := ki + n + ci + vi
					// the transport's Read (and Write) keeps returning the value
					one(&Case{Via: via, Peer: peerModes[x%3], Dotu: x%2 == 0, Msize: 1024, Offer: []uint32{0, 8192}[(n+ci)%2], Prelude: x % 3,
						Calls: calls[:n], Order: orders[n], Cut: cut, Chunk: []int{0, 1, 5}[x%3], Fail: "err", ErrKind: ek, After: 1 + x%2})
					// only its Write does: one more call's request meets it
					if ci%2 == vi || hx.Thorough() {
						one(&Case{Via: via, Peer: peerModes[(x+1)%3], Dotu: x%2 == 1, Msize: 1024, Offer: []uint32{0, 8192}[(n+ci+1)%2], Prelude: (x + 1) % 3,
							Calls: calls[:n], Order: orders[n], Cut: cut, Chunk: []int{0, 1, 5}[(x+1)%3], Fail: "werr", ErrKind: ek, After: 1 + (x+1)%2, Late: true})
					}
				}
			}
		}
		// the writer is inside an undrained Write, which then fails with the value
		for n := 0; n <= 2; n++ {
			one(&Case{Dotu: (ki+n)%2 == 0, Msize: 512, Prelude: (ki + n) % 2, Calls: calls[:n], Order: orders[n], Cut: []int{0, 60, 100}[n], Fail: "err", ErrKind: ek, After: 1, Late: true, WBlock: true})
		}
		// MountConn / Connect itself is the outstanding call
		for vi, via := range []string{"mount", "early"} {
			for ci, cut := range []int{0, 9, -1} {
				mp := msizePairs[(ki+vi+ci)%len(msizePairs)]
				one(&Case{Via: via, Dotu: (ki+ci)%2 == 0, Msize: mp[0], Offer: mp[1], Cut: cut, Chunk: []int{0, 1, 5}[(ki+ci)%3], Fail: "err", ErrKind: ek, After: 2})
			}
		}
	}
	hx.Exhaustive(fmt.Sprintf("%d transport error values (plain, io / net sentinels, errnos, *net.OpError around them, os.ErrDeadlineExceeded, net.Error implementations answering Timeout / Temporary in the 4 combinations) x {returned persistently by Read and Write x 0..4 outstanding calls x cut {0, inside the first reply, further on, all delivered} x client made by {Connect, MountConn}; by Write alone, met by one more call's request (half of these in the quick tier); with the writer inside an undrained Write x 0..2 other calls; MountConn / Connect as the outstanding call x cut {0, inside, complete}}", len(errKinds)))
}

func labelErrKind(c *Case) {
	k := c.ErrKind
	if k == "" {
		k = "plain"
	}
	hx.Label("error value " + k)
	hx.Label(map[string]string{"err": "Read and Write return an error that is ", "werr": "Write alone returns an error that is "}[c.Fail] + errKindClass(k))
}

// rotateErr gives the cases of an enumerated table that fail by a transport
// error the error values in turn (the plain one first).
func rotateErr(c *Case, i int) {
	if c.Fail == "err" {
		c.ErrKind = errKinds[i%len(errKinds)]
	}
}
