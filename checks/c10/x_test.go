package c10

import (
	"encoding/json"
	"os"
	"strconv"
	"testing"
	"time"

	"verif/internal/hx"
)

// EXPERIMENT ONLY (removed before delivery)
func TestXEntry(t *testing.T) {
	if os.Getenv("X_CASE") == "" {
		t.Skip()
	}
	entryDeadline = time.Second
	c := &Case{Dotu: true, Msize: 512, Fail: "eof", Callers: 48, Rounds: 1, Mode: "answer", Cut: 20000, After: 1}
	if err := json.Unmarshal([]byte(os.Getenv("X_CASE")), c); err != nil {
		t.Fatal(err)
	}
	budget, _ := strconv.Atoi(os.Getenv("X_BUDGET_MS"))
	seed, _ := strconv.Atoi(os.Getenv("X_SEED"))
	t0 := time.Now()
	rounds, hits := 0, 0
	for i := 0; time.Since(t0) < time.Duration(budget)*time.Millisecond; i++ {
		c.Perturb = hx.Mix(uint64(seed), uint64(i))
		c.Rounds = 25
		err := runEntry(c)
		rounds += 25
		if err != nil {
			hits++
			t0 = t0.Add(time.Second) // do not count the deadline
		}
	}
	el := time.Since(t0)
	println("RESULT", os.Getenv("X_CASE"), "rounds", rounds, "hits", hits, "ms/round", int(el.Milliseconds())*100/rounds)
}
