// C10 — client calls fail promptly, never hang, when the connection fails.
package c10

import (
	"bytes"
	"encoding/binary"
	"encoding/json"
	"fmt"
	"net"
	"sync"
	"sync/atomic"
	"testing"
	"time"

	"github.com/rminnich/go9p"
	"pgregory.net/rapid"
	"verif/internal/hx"
	"verif/internal/peer"
	"verif/internal/ref9p"
	"verif/internal/sched"
)

func TestMain(m *testing.M) { hx.Main(m, "C10") }

type Case struct {
	Dotu    bool     `json:"dotu"`
	Msize   uint32   `json:"msize"`
	Prelude int      `json:"prelude"` // calls completed before the scripted part
	Calls   []string `json:"calls"`   // kinds of the concurrently outstanding calls (0..4)
	Order   []int    `json:"order"`   // order of their replies in the reply stream
	Cut     int      `json:"cut"`     // bytes of the reply stream delivered before the failure (-1: all)
	Chunk   int      `json:"chunk"`   // the delivered part is written in pieces of this many bytes (0: one write)
	Fail    string   `json:"fail"`    // eof, err, werr, unmount, or a fault frame: size0..size6, oversize-hdr, oversize-data, big31, big32, badtype, unknowntag, duptag
	// (fail err, werr) the error value that the transport's Read and Write (err)
	// or its Write alone (werr: met by the request of the late call; reads stay
	// silent) return from the failure on, every time: see errKinds ("" is "plain")
	ErrKind string       `json:"errkind,omitempty"`
	After   int          `json:"after"` // calls made after the failure
	Holds   []sched.Hold `json:"holds,omitempty"`
	Late    bool         `json:"late,omitempty"`   // one more call is started while the failure is in progress (interleaving table)
	Joined  bool         `json:"joined,omitempty"` // a fault frame is written together with the delivered replies: they reach the client in one Read (per piece of Chunk bytes)
	WBlock  bool         `json:"wblock,omitempty"` // (with Late) the writer goroutine is inside a Write of the late call that the peer does not drain when the failure happens
	// msize negotiation: the client offers Offer (0: Msize) and the peer grants
	// min(Offer, Msize) in its Rversion, so Msize is the negotiated msize
	Offer    uint32 `json:"offer,omitempty"`
	First    bool   `json:"first,omitempty"`    // no Attach and no prelude: what the peer sends in the scripted part are the very first bytes after its Rversion
	Announce uint32 `json:"announce,omitempty"` // size announced by the fault frames announce-hdr / announce-part / announce-full (above the negotiated msize)
	Via      string `json:"via,omitempty"`      // "mount": the client is made by MountConn, and the one outstanding call is the Attach inside it; "early": the outstanding call is Connect itself (see early_test.go); "mounted": the client is made by a completed MountConn (it has a Root fid) and the session then runs on it
	// what the peer does with requests that reach it from the failure on (other
	// than the late caller's): "" (silent) reads them and answers nothing;
	// "answer" answers each at once; "slow" answers them (and sends the withheld
	// rest of the reply stream) only when every outstanding call has returned
	Peer string `json:"peer,omitempty"`
	// entry storm (TestPropEntryStorm)
	Callers int    `json:"callers,omitempty"` // goroutines entering Rpc when the connection fails
	Rounds  int    `json:"rounds,omitempty"`  // fresh connections failed one after the other
	Mode    string `json:"mode,omitempty"`    // "answer": the peer answers every request until the failure; "silent": it answers nothing
	Perturb uint64 `json:"perturb,omitempty"` // seed of the schedule perturbation at the client hook points and of the per-round delays
	Procs   int    `json:"procs,omitempty"`   // GOMAXPROCS
	Spread  int    `json:"spread,omitempty"`  // bound of the per-caller start stagger (spin iterations)
	Hook    bool   `json:"hook,omitempty"`    // schedule perturbation at the client hook points
}

const deadline = 25 * time.Second

// A deadline can also expire because the whole machine stood still: after a
// stall every timer of every shard fires at once, and what was awaited
// completes moments later. So an expired deadline is followed by a grace period
// that starts only then; a hang is still a hang a few seconds later.
const grace = 5 * time.Second

// await receives from ch within the deadline (plus grace).
func await[T any](ch <-chan T) (v T, ok bool) {
	t := time.NewTimer(deadline)
	defer t.Stop()
	select {
	case v = <-ch:
		return v, true
	case <-t.C:
	}
	g := time.NewTimer(grace)
	defer g.Stop()
	select {
	case v = <-ch:
		return v, true
	case <-g.C:
		return v, false
	}
}

// nextReq waits for the next request of the client within the deadline (plus grace).
func nextReq(p *peer.Peer) *peer.Req {
	r, ok := p.Next(deadline)
	if r == nil && ok {
		r, _ = p.Next(grace)
	}
	return r
}

// hangErr: something did not happen within the deadline. Whether a goroutine
// is stuck inside go9p is looked up where the hang is noticed, while it still
// exists (the clean-up on the way out — Unmount, releasing a held Write — may
// dissolve it).
type hangErr struct{ msg, blocked string }

func (h *hangErr) Error() string { return h.msg }

func hang(format string, a ...interface{}) error {
	return &hangErr{fmt.Sprintf(format, a...), hx.BlockedInGo9p()}
}

// hungErr is a violation by a hang (it costs the deadline every time it is
// reproduced, and what was stuck stays stuck in the process: not shrunk).
type hungErr struct{ msg string }

func (h *hungErr) Error() string { return h.msg }

// settle turns a hang into a violation (a goroutine is stuck inside go9p) or
// into an inconclusive run (nil).
func settle(err error) error {
	h, ok := err.(*hangErr)
	if !ok {
		return err
	}
	if h.blocked != "" {
		hungBefore.Store(true)
		return &hungErr{fmt.Sprintf("%s; goroutines blocked inside go9p:\n%s", h.msg, h.blocked)}
	}
	hx.Inconclusive(h.msg)
	return nil
}

// tidyUnmount is the Unmount on the way out of a case: a client whose Unmount
// blocks (that is judged where Unmount is the failure) must not take the
// harness with it.
func tidyUnmount(clnt *go9p.Clnt) {
	ch := make(chan struct{})
	go func() { clnt.Unmount(); close(ch) }()
	t := time.NewTimer(2 * time.Second)
	defer t.Stop()
	select {
	case <-ch:
	case <-t.C:
	}
}

// mountConn makes a client by MountConn against the scripted peer, which
// answers its Tattach.
func mountConn(p *peer.Peer, conn net.Conn, offer uint32) (*go9p.Clnt, error) {
	type mres struct {
		clnt *go9p.Clnt
		err  error
	}
	mch := make(chan mres, 1)
	go func() {
		cl, e := go9p.MountConn(conn, "c10", offer-go9p.IOHDRSZ, go9p.OsUsers.Uid2User(0))
		mch <- mres{cl, e}
	}()
	rch := make(chan *peer.Req, 1)
	go func() { rch <- nextReq(p) }()
	select {
	case m := <-mch:
		if m.clnt != nil {
			tidyUnmount(m.clnt)
		}
		return nil, fmt.Errorf("MountConn returned (%v) before the peer answered its Tattach", m.err)
	case r := <-rch:
		if r == nil {
			return nil, hang("peer: the Tattach of MountConn did not arrive")
		}
		if r.Err != nil || r.Msg.Type != ref9p.Tattach {
			return nil, fmt.Errorf("client sent a frame that is not a valid Tattach: %v", r.Err)
		}
		if err := p.Write(p.Encode(peer.Answer(r.Msg)), nil); err != nil {
			return nil, fmt.Errorf("peer write: %v", err)
		}
	}
	m, ok := await(mch)
	if !ok {
		return nil, hang("MountConn did not return within %v although its Tattach was answered", deadline)
	}
	if m.err != nil || m.clnt == nil || m.clnt.Root == nil {
		return nil, fmt.Errorf("MountConn on a healthy connection: %v", m.err)
	}
	return m.clnt, nil
}

type result struct {
	kind string
	fid  uint32
	off  uint64
	err  error
	data []byte
	n    int
	name string
	done bool
}

func doCall(clnt *go9p.Clnt, kind string, fid *go9p.Fid, off uint64) *result {
	r := &result{kind: kind, fid: fid.Fid, off: off}
	switch kind {
	case "read":
		r.data, r.err = clnt.Read(fid, off, 64)
	case "write":
		r.n, r.err = clnt.Write(fid, peer.PRF(fmt.Sprintf("w/%d/%d", fid.Fid, off), 48), off)
	case "stat":
		var d *go9p.Dir
		d, r.err = clnt.Stat(fid)
		if d != nil {
			r.name = d.Name
		}
	case "open":
		r.err = clnt.Open(fid, 0)
	default:
		r.err = fmt.Errorf("harness: kind %q", kind)
	}
	r.done = true
	return r
}

func checkSuccess(r *result) error {
	switch r.kind {
	case "read":
		if !bytes.Equal(r.data, peer.ReadData(r.fid, r.off, 64)) {
			return fmt.Errorf("Read returned success with data that is not its reply")
		}
	case "write":
		if r.n != 48 {
			return fmt.Errorf("Write returned success with count %d", r.n)
		}
	case "stat":
		if r.name != peer.StatName(r.fid) {
			return fmt.Errorf("Stat returned success with name %q", r.name)
		}
	}
	return nil
}

// offered is the msize the client offers in its Tversion.
func offered(c *Case) uint32 {
	if c.Offer == 0 {
		return c.Msize
	}
	return c.Offer
}

// labelMsize counts the case by what the negotiation did to the client's msize.
func labelMsize(c *Case, clnt *go9p.Clnt) {
	switch got := atomic.LoadUint32(&clnt.Msize); {
	case got < offered(c) && c.First:
		hx.Label("Rversion lowered the msize, scripted part directly after it")
	case got < offered(c):
		hx.Label("Rversion lowered the msize, scripted part after further calls")
	case c.First:
		hx.Label("Rversion kept the msize, scripted part directly after it")
	default:
		hx.Label("Rversion kept the msize, scripted part after further calls")
	}
}

func isConnFail(kind string) bool {
	return kind == "eof" || kind == "err" || kind == "unmount" || kind == "werr"
}

func hdr7(sz uint32, typ uint8, tag uint16) []byte {
	b := make([]byte, 7)
	binary.LittleEndian.PutUint32(b, sz)
	b[4] = typ
	binary.LittleEndian.PutUint16(b[5:], tag)
	return b
}

// faultFrame builds the bytes of a fault frame (and where to cut them into
// separate Writes). victim is the tag of a call that is still unanswered (1 if
// there is none); dup is the reply of an already answered call (nil if none).
func faultFrame(c *Case, enc func(*ref9p.Msg) []byte, victim uint16, dup *ref9p.Msg) ([]byte, []int, error) {
	switch c.Fail {
	case "size0", "size1", "size2", "size3", "size4", "size5", "size6":
		sz := uint32(c.Fail[4] - '0')
		return append(hdr7(sz, ref9p.Rclunk, 1), 0, 0, 0, 0), nil, nil
	case "oversize-hdr":
		return hdr7(8*c.Msize+1, ref9p.Rread, 1), nil, nil
	case "oversize-data":
		return append(hdr7(8*c.Msize+1, ref9p.Rread, 1), make([]byte, 8*c.Msize+64)...), []int{7, 100, int(c.Msize), int(4 * c.Msize)}, nil
	case "big31":
		return append(hdr7(1<<31, ref9p.Rread, 1), make([]byte, 64)...), nil, nil
	case "big32":
		return append(hdr7(0xFFFFFFFF, ref9p.Rread, 1), make([]byte, 64)...), nil, nil
	case "badtype":
		return hdr7(7, 99, 1), nil, nil
	case "unknowntag":
		return enc(&ref9p.Msg{Type: ref9p.Rclunk, Tag: 0x7777}), nil, nil
	case "duptag":
		// a second reply for a call that was already answered (or, with none answered, an unknown tag)
		if dup == nil {
			dup = &ref9p.Msg{Type: ref9p.Rclunk, Tag: 0x7776}
		}
		return enc(dup), nil, nil
	case "announce-hdr", "announce-part", "announce-full":
		// a frame that announces c.Announce bytes, more than the negotiated
		// msize allows: its header only; its header and less than it
		// announces; all of it — an otherwise well-formed Rread (for a call
		// that is still unanswered) with that much data. The peer then says
		// nothing more and keeps the connection open.
		if c.Announce <= c.Msize || c.Announce < 16 || c.Announce > 1<<24 {
			return nil, nil, fmt.Errorf("harness: announce %d with negotiated msize %d", c.Announce, c.Msize)
		}
		b := make([]byte, c.Announce)
		copy(b, hdr7(c.Announce, ref9p.Rread, victim))
		binary.LittleEndian.PutUint32(b[7:], c.Announce-11)
		copy(b[11:], peer.PRF("announce", int(c.Announce-11)))
		switch c.Fail {
		case "announce-hdr":
			b = b[:7]
		case "announce-part":
			b = b[:min(int(c.Announce)-1, 7+int(c.Announce%97))]
		}
		return b, nil, nil
	}
	return nil, nil, fmt.Errorf("harness: fail kind %q", c.Fail)
}

func run(c *Case) error {
	switch c.Via {
	case "mount":
		return runMount(c)
	case "early":
		return runEarly(c)
	}
	mounted := c.Via == "mounted"
	if c.Via != "" && !mounted || c.Peer != "" && c.Peer != "answer" && c.Peer != "slow" || mounted && (c.First || offered(c) < 64) {
		return fmt.Errorf("harness: via %q, peer %q, first %v, offer %d", c.Via, c.Peer, c.First, offered(c))
	}
	if c.Fail == "werr" && (!c.Late || c.WBlock || len(c.Holds) > 0) {
		return fmt.Errorf("harness: a Write failure needs one more call (and no held Write, no holds)")
	}
	// (MountConn always asks for 9P2000.u: the peer decides the dialect)
	p := peer.New("c10", c.Msize, !mounted || c.Dotu)
	p.Start(false)
	ctl := sched.New(c.Holds)
	ctl.Timeout = 400 * time.Millisecond
	defer sched.Install(ctl)()
	var clnt *go9p.Clnt
	var err error
	var conn net.Conn = p.Lib
	var wf *wfailConn
	if c.Fail == "werr" {
		wf = &wfailConn{End: p.Lib}
		conn = wf
	}
	if mounted {
		if clnt, err = mountConn(p, conn, offered(c)); err != nil {
			return err
		}
	} else if clnt, err = go9p.Connect(conn, offered(c), c.Dotu); err != nil {
		return fmt.Errorf("Connect: %v", err)
	}
	defer tidyUnmount(clnt)
	labelMsize(c, clnt)
	// answer helper for the sequential part
	serveOne := func() error {
		r := nextReq(p)
		if r == nil {
			return hang("peer: expected request did not arrive")
		}
		if r.Err != nil {
			return fmt.Errorf("client sent a frame that does not decode: %v", r.Err)
		}
		return p.Write(p.Encode(peer.Answer(r.Msg)), nil)
	}
	user := go9p.OsUsers.Uid2User(0)
	root := clnt.Root
	if !c.First && !mounted {
		ch := make(chan error, 1)
		go func() { var e error; root, e = clnt.Attach(nil, user, "c10"); ch <- e }()
		if err := serveOne(); err != nil {
			return err
		}
		if e := <-ch; e != nil || root == nil {
			return fmt.Errorf("Attach: %v", e)
		}
	}
	mkfid := func() *go9p.Fid { f := clnt.FidAlloc(); f.Iounit = c.Msize - 24; return f }
	for i := 0; i < c.Prelude && !c.First; i++ {
		ch := make(chan *result, 1)
		f := mkfid()
		go func() { ch <- doCall(clnt, []string{"stat", "read", "write"}[i%3], f, uint64(i)) }()
		if err := serveOne(); err != nil {
			return err
		}
		r := <-ch
		if r.err != nil {
			return fmt.Errorf("prelude call %d failed on a healthy connection: %v", i, r.err)
		}
		if err := checkSuccess(r); err != nil {
			return fmt.Errorf("prelude call %d: %v", i, err)
		}
	}
	// ---- the outstanding calls
	n := len(c.Calls)
	results := make([]*result, n)
	fids := make([]*go9p.Fid, n)
	var wg sync.WaitGroup
	doneCh := make(chan int, n+c.After+2)
	for i := range c.Calls {
		fids[i] = mkfid()
		wg.Add(1)
		go func(i int) {
			defer wg.Done()
			results[i] = doCall(clnt, c.Calls[i], fids[i], uint64(100+i))
			doneCh <- i
		}(i)
	}
	// the peer gathers all of them
	reqs := map[uint32]*ref9p.Msg{} // by fid
	for len(reqs) < n {
		r := nextReq(p)
		if r == nil {
			return hang("peer: only %d of %d outstanding requests arrived", len(reqs), n)
		}
		if r.Err != nil {
			return fmt.Errorf("client sent a frame that does not decode: %v", r.Err)
		}
		reqs[r.Msg.Fid] = r.Msg
	}
	// the full reply stream S
	var S []byte
	ends := make([]int, n) // ends[i] = offset in S at which call i's reply is complete
	order := c.Order
	if len(order) != n {
		order = make([]int, n)
		for i := range order {
			order[i] = i
		}
	}
	for _, i := range order {
		S = append(S, p.Encode(peer.Answer(reqs[fids[i].Fid]))...)
		ends[i] = len(S)
	}
	cut := c.Cut
	if cut < 0 || cut > len(S) {
		cut = len(S)
	}
	isFault := false
	switch c.Fail {
	case "eof", "err", "unmount", "werr":
	default:
		isFault = true
		// faults are injected on a frame boundary
		b := 0
		for _, i := range order {
			if ends[i] <= cut {
				b = ends[i]
			}
		}
		cut = b
	}
	var cuts []int
	if c.Chunk > 0 {
		for x := c.Chunk; x < cut; x += c.Chunk {
			cuts = append(cuts, x)
		}
	}
	joined := isFault && c.Joined
	if cut > 0 && !joined {
		if err := p.Write(S[:cut], cuts); err != nil {
			return fmt.Errorf("peer write: %v", err)
		}
	}
	// inject writes a fault frame: by itself, or (joined) in the same Write as
	// the delivered replies
	inject := func(fb []byte, fcuts []int) {
		if !joined {
			_ = p.Write(fb, fcuts)
			return
		}
		all := append(append([]byte(nil), S[:cut]...), fb...)
		jc := append([]int(nil), cuts...)
		for _, x := range fcuts {
			jc = append(jc, cut+x)
		}
		_ = p.Write(all, jc)
	}
	// a late caller that enters Rpc while the failure is in progress
	var late *result
	lateDone := make(chan struct{})
	var wrelease atomic.Bool
	if c.Late {
		lf := mkfid()
		lf.Fid = 999999
		wentered := make(chan struct{}, 1)
		if c.WBlock {
			// the late call's request is being written, and the peer does not
			// take it: the Write stays in progress until the transport breaks
			// (EOF, error: released below) or the client closes its end
			p.Lib.SetWriteHook(func([]byte) {
				select {
				case wentered <- struct{}{}:
				default:
				}
				for !wrelease.Load() && !p.Lib.Closed() {
					time.Sleep(50 * time.Microsecond)
				}
			})
			defer func() { wrelease.Store(true); p.Lib.SetWriteHook(nil) }()
		}
		if wf != nil {
			// the failure: from now on every Write of the client fails with the
			// error value; what the peer sent before has been read by the client,
			// and nothing more will come
			for i := 0; i < 4000 && p.End.Unread() > 0; i++ {
				time.Sleep(250 * time.Microsecond)
			}
			time.Sleep(2 * time.Millisecond)
			wf.arm(transportErr(c.ErrKind))
		}
		go func() {
			late = doCall(clnt, "stat", lf, 0)
			close(lateDone)
		}()
		if wf != nil {
		} else if c.WBlock {
			select {
			case <-wentered:
			case <-time.After(2 * time.Second):
			}
		} else {
			ctl.WaitSeen("Tstat/999999", "rpcnb.enqueued", 2*time.Second)
		}
	} else {
		close(lateDone)
	}
	// ---- what the peer does with further requests from the failure on
	released := make(chan struct{}) // (slow peer) every outstanding call has returned
	stopPeer := make(chan struct{})
	defer close(stopPeer)
	if c.Peer != "" {
		go func() {
			var held [][]byte
			flushed := false
			for {
				select {
				case <-stopPeer:
					return
				case <-released:
					if !flushed && c.Peer == "slow" {
						_ = p.Write(S[cut:], nil)
						for _, b := range held {
							_ = p.Write(b, nil)
						}
					}
					flushed = true
				default:
				}
				r, ok := p.Next(2 * time.Millisecond)
				if !ok {
					return
				}
				if r == nil || r.Err != nil || r.Msg.Fid == 999999 {
					continue
				}
				hx.ExtraAdd("requests_sent_during_or_after_the_failure", 1)
				if b := p.Encode(peer.Answer(r.Msg)); c.Peer == "slow" && !flushed {
					held = append(held, b)
				} else {
					_ = p.Write(b, nil)
				}
			}
		}()
	}
	// ---- the failure
	unmounted := make(chan struct{})
	switch c.Fail {
	case "eof":
		p.End.CloseWrite()
		wrelease.Store(true) // the transport is gone: a Write in progress ends
	case "err":
		if c.Late {
			// the late call's Write fails with the transport and the client then
			// closes its end at once, dropping what it has not read yet: only
			// what the client has actually read counts as received
			for i := 0; i < 4000 && p.End.Unread() > 0; i++ {
				time.Sleep(250 * time.Microsecond)
			}
		}
		p.End.FailPeer(transportErr(c.ErrKind))
		wrelease.Store(true)
	case "werr":
		// (armed above, before the late call was started)
	case "unmount":
		// only what the client has actually read counts as received
		for i := 0; i < 4000 && p.End.Unread() > 0; i++ {
			time.Sleep(250 * time.Microsecond)
		}
		time.Sleep(2 * time.Millisecond)
		go func() { clnt.Unmount(); close(unmounted) }()
	default:
		var dup *ref9p.Msg
		victim := uint16(1)
		for k := len(order) - 1; k >= 0; k-- {
			i := order[k]
			// (with a late caller an answered call's tag may already be in use
			// again, and the duplicate would be a reply to the late call)
			if ends[i] <= cut && !c.Late && dup == nil {
				dup = peer.Answer(reqs[fids[i].Fid])
			}
			if ends[i] > cut {
				victim = reqs[fids[i].Fid].Tag
			}
		}
		fb, fcuts, err := faultFrame(c, p.Encode, victim, dup)
		if err != nil {
			return err
		}
		inject(fb, fcuts)
	}
	// ---- Unmount returns, and every outstanding call returns
	waitAll := make(chan struct{})
	go func() { wg.Wait(); close(waitAll) }()
	pending := func() (pend int) {
		for _, r := range results {
			if r == nil {
				pend++
			}
		}
		return
	}
	if c.Fail == "unmount" {
		if _, ok := await(unmounted); !ok {
			return hang("Unmount did not return within %v (client made by %s, %d calls outstanding of which %d have not returned either, the peer %s further requests)", deadline, madeBy(c), n, pending(), peerDoes(c))
		}
	}
	if _, ok := await(waitAll); !ok {
		pend := pending()
		return hang("%d of %d outstanding calls did not return within %v after the failure (%s at byte %d of %d)", pend, n, deadline, c.Fail, cut, len(S))
	}
	if _, ok := await(lateDone); !ok {
		return hang("a call that entered Rpc while the connection was failing did not return within %v", deadline)
	}
	if wf != nil {
		hx.ExtraAdd("writes_that_met_the_write_failure", wf.failed.Load())
	}
	close(released) // (a slow peer now sends what it withheld, into whatever is left of the connection)
	if late != nil && late.err == nil {
		return fmt.Errorf("a call made while the connection was failing returned success although no reply was sent for it")
	}
	for i, r := range results {
		complete := ends[i] <= cut
		switch {
		case r.err == nil && !complete:
			return fmt.Errorf("call %d (%s) returned success although only %d of the %d bytes of its reply were delivered before the failure", i, r.kind, max(0, cut-(ends[i]-replyLen(p, reqs[fids[i].Fid]))), replyLen(p, reqs[fids[i].Fid]))
		case r.err == nil:
			if err := checkSuccess(r); err != nil {
				return fmt.Errorf("call %d: %v", i, err)
			}
		case complete && !(isFault && c.Fail == "duptag"):
			return fmt.Errorf("call %d (%s): its complete reply was received before the failure (%s at byte %d, reply ends at %d) but the call returned error %v", i, r.kind, c.Fail, cut, ends[i], r.err)
		}
	}
	// ---- later calls fail promptly
	if c.Fail == "duptag" && c.After > 0 {
		// "later" means after the client met the duplicate: a call that takes
		// the recycled tag before that is, for the client, what the frame answers
		if !ctl.WaitSeen("clnt", "clnt.recv.closing", deadline) && !ctl.WaitSeen("clnt", "clnt.recv.closing", grace) {
			return hang("the client did not react to a second reply for an answered tag within the deadline")
		}
	}
	for k := 0; k < c.After; k++ {
		ch := make(chan *result, 1)
		f := mkfid()
		go func() { ch <- doCall(clnt, []string{"stat", "read", "write", "open"}[k%4], f, uint64(500+k)) }()
		r, ok := await(ch)
		if !ok {
			return hang("call %d made after the failure (%s) did not return within %v", k, c.Fail, deadline)
		}
		if r.err == nil {
			return fmt.Errorf("call %d made after the failure (%s) returned success", k, c.Fail)
		}
	}
	ap, fo := ctl.Stats()
	hx.ExtraAdd("holds_applied", int64(ap))
	hx.ExtraAdd("holds_forced", int64(fo))
	return nil
}

// runMount: the client is made by MountConn (Tversion offering c.Offer, then
// Tattach). The scripted part is the reply to the Tattach — the first bytes
// after the Rversion: c.Cut bytes of the Rattach, then the failure. MountConn is
// the outstanding call: it must return, with a client only if the complete
// Rattach was delivered; calls on that client must then fail.
func runMount(c *Case) error {
	if c.Fail == "unmount" || offered(c) < 64 {
		return fmt.Errorf("harness: mount case with fail %q, offer %d", c.Fail, offered(c))
	}
	p := peer.New("c10mount", c.Msize, c.Dotu)
	p.Start(false)
	ctl := sched.New(nil)
	defer sched.Install(ctl)()
	type mres struct {
		clnt *go9p.Clnt
		err  error
	}
	mch := make(chan mres, 1)
	go func() {
		cl, e := go9p.MountConn(p.Lib, "c10", offered(c)-go9p.IOHDRSZ, go9p.OsUsers.Uid2User(0))
		mch <- mres{cl, e}
	}()
	reqCh := make(chan *peer.Req, 1)
	go func() { reqCh <- nextReq(p) }()
	var req *peer.Req
	select {
	case req = <-reqCh:
	case m := <-mch:
		if m.clnt != nil {
			m.clnt.Unmount()
		}
		return fmt.Errorf("MountConn returned (%v) before the peer saw a Tattach", m.err)
	}
	if req == nil {
		return hang("peer: the Tattach of MountConn did not arrive")
	}
	if req.Err != nil || req.Msg.Type != ref9p.Tattach {
		return fmt.Errorf("client sent a frame that is not a valid Tattach: %v", req.Err)
	}
	if p.Msize < offered(c) {
		hx.Label("Rversion lowered the msize, scripted part directly after it")
	} else {
		hx.Label("Rversion kept the msize, scripted part directly after it")
	}
	S := p.Encode(peer.Answer(req.Msg))
	cut := c.Cut
	if cut < 0 || cut > len(S) {
		cut = len(S)
	}
	isFault := !isConnFail(c.Fail)
	if isFault && cut < len(S) {
		cut = 0 // faults are injected on a frame boundary
	}
	var cuts []int
	if c.Chunk > 0 {
		for x := c.Chunk; x < cut; x += c.Chunk {
			cuts = append(cuts, x)
		}
	}
	joined := isFault && c.Joined
	if cut > 0 && !joined {
		if err := p.Write(S[:cut], cuts); err != nil {
			return fmt.Errorf("peer write: %v", err)
		}
	}
	switch c.Fail {
	case "eof":
		p.End.CloseWrite()
	case "err":
		p.End.FailPeer(transportErr(c.ErrKind))
	default:
		var dup *ref9p.Msg
		victim := req.Msg.Tag
		if cut == len(S) {
			dup, victim = peer.Answer(req.Msg), 1
		}
		fb, fcuts, err := faultFrame(c, p.Encode, victim, dup)
		if err != nil {
			return err
		}
		if joined {
			for i := range fcuts {
				fcuts[i] += cut
			}
			_ = p.Write(append(append([]byte(nil), S[:cut]...), fb...), append(cuts, fcuts...))
		} else {
			_ = p.Write(fb, fcuts)
		}
	}
	m, ok := await(mch)
	if !ok {
		return hang("MountConn did not return within %v after the failure (%s at byte %d of the %d of the Rattach)", deadline, c.Fail, cut, len(S))
	}
	if m.clnt != nil {
		defer m.clnt.Unmount()
	}
	complete := cut == len(S)
	switch {
	case m.err == nil && !complete:
		return fmt.Errorf("MountConn returned success although only %d of the %d bytes of the Rattach were delivered before the failure (%s)", cut, len(S), c.Fail)
	case m.err == nil && m.clnt == nil:
		return fmt.Errorf("MountConn returned neither a client nor an error")
	case m.err != nil && complete && c.Fail != "duptag":
		return fmt.Errorf("MountConn: the complete Rattach was received before the failure (%s) but it returned error %v", c.Fail, m.err)
	}
	if m.clnt == nil {
		return nil
	}
	if c.Fail == "duptag" && c.After > 0 {
		// "later" means after the client met the duplicate (see run)
		if !ctl.WaitSeen("clnt", "clnt.recv.closing", deadline) && !ctl.WaitSeen("clnt", "clnt.recv.closing", grace) {
			return hang("the client did not react to a second reply for an answered tag within the deadline")
		}
	}
	for k := 0; k < c.After; k++ {
		ch := make(chan *result, 1)
		f := m.clnt.FidAlloc()
		f.Iounit = c.Msize - 24
		go func() { ch <- doCall(m.clnt, []string{"stat", "read", "write", "open"}[k%4], f, uint64(500+k)) }()
		r, ok := await(ch)
		if !ok {
			return hang("call %d made after the failure (%s) on a client made by MountConn did not return within %v", k, c.Fail, deadline)
		}
		if r.err == nil {
			return fmt.Errorf("call %d made after the failure (%s) returned success", k, c.Fail)
		}
	}
	return nil
}

func madeBy(c *Case) string {
	if c.Via == "mounted" {
		return "MountConn"
	}
	return "Connect"
}

func peerDoes(c *Case) string {
	switch c.Peer {
	case "answer":
		return "answers"
	case "slow":
		return "answers only after the outstanding calls returned"
	}
	return "reads but does not answer"
}

func replyLen(p *peer.Peer, m *ref9p.Msg) int { return len(p.Encode(peer.Answer(m))) }

// hungBefore: a case of this process ended in a hang inside go9p. What was
// stuck stays stuck (a receiver that spins keeps a processor busy), so the
// verdict stands and the cases that would follow are not run any more.
var hungBefore atomic.Bool

func execute(test string, c *Case) error {
	if hungBefore.Load() {
		return nil
	}
	hx.Journal(test, c)
	hx.Eval()
	switch test {
	case "entrystorm": // (non-trivial or not is decided by what the rounds reached)
		hx.Label("entry storm fail=" + c.Fail)
		if c.Fail == "err" {
			labelErrKind(c)
		}
		hx.Label("entry storm mode=" + c.Mode)
		hx.Label("entry storm client made by " + madeBy(c))
	case "storm":
		hx.Label("storm fail=" + c.Fail)
		if c.Fail == "err" {
			labelErrKind(c)
		}
		b, _ := json.Marshal(c)
		hx.NonTrivial(b)
	default:
		hx.Label(fmt.Sprintf("fail=%s", c.Fail))
		hx.Label(fmt.Sprintf("outstanding=%d", len(c.Calls)))
		if c.Fail == "err" || c.Fail == "werr" {
			labelErrKind(c)
		}
		if c.Via != "" {
			hx.Label("client made by " + c.Via)
		}
		if c.Fail == "unmount" {
			hx.Label(fmt.Sprintf("Unmount: client made by %s, peer %s further requests, calls outstanding: %v", madeBy(c), peerDoes(c), len(c.Calls) > 0 || c.Late))
		}
		if c.Announce > 0 {
			hx.Label("announced size " + announceClass(c))
		}
		if len(c.Calls) >= 1 || c.Late || c.Via != "" {
			b, _ := json.Marshal(c)
			hx.NonTrivial(b)
		}
	}
	hx.Sample(test, c)
	var err error
	switch test {
	case "entrystorm":
		err = runEntry(c)
	case "storm":
		err = runStorm(c)
	default:
		err = run(c)
	}
	return settle(err)
}

var faults = []string{"size0", "size1", "size2", "size3", "size4", "size5", "size6", "oversize-hdr", "oversize-data", "big31", "big32", "badtype", "unknowntag", "duptag"}

var announceFaults = []string{"announce-hdr", "announce-part", "announce-full"}

// announceSizes: the announced sizes worth telling apart for a negotiated
// msize n and an offered msize o (n <= o): just above each, between the two,
// and around eight times each (the client's receive buffer is 8*msize).
func announceSizes(n, o uint32) []uint32 {
	var out []uint32
	for _, x := range []uint32{n + 1, n + 24, (n + o) / 2, o - 1, o, o + 1, 8 * n, 8*n + 1, 8 * o, 8*o + 1} {
		dup := x <= n
		for _, y := range out {
			dup = dup || x == y
		}
		if !dup {
			out = append(out, x)
		}
	}
	return out
}

func announceClass(c *Case) string {
	n, o, a := c.Msize, offered(c), c.Announce
	switch {
	case a <= n:
		return "not above the negotiated msize"
	case a == n+1 && a <= o:
		return "negotiated+1, not above the offered msize"
	case a < o:
		return "between negotiated and offered msize"
	case a == o:
		return "the offered msize (above the negotiated)"
	case a == o+1:
		return "offered+1"
	case a <= 8*n:
		return "above offered, up to 8*negotiated"
	case a <= 8*o:
		return "above offered, up to 8*offered"
	}
	return "above 8*offered"
}

// streamLen computes the length of the reply stream of a session without running it.
func streamLen(calls []string, dotu bool) int {
	n := 0
	for i, k := range calls {
		var m *ref9p.Msg
		switch k {
		case "read":
			m = &ref9p.Msg{Type: ref9p.Tread, Fid: 1, Offset: uint64(100 + i), Count: 64}
		case "write":
			m = &ref9p.Msg{Type: ref9p.Twrite, Fid: 1, Data: make([]byte, 48)}
		case "stat":
			m = &ref9p.Msg{Type: ref9p.Tstat, Fid: 10000}
		default:
			m = &ref9p.Msg{Type: ref9p.Topen, Fid: 1}
		}
		n += len(ref9p.Encode(peer.Answer(m), dotu))
	}
	return n + 8
}

// TestEnumCuts: cut of the server-to-client stream after every byte offset,
// for a few sessions x 3 failure kinds.
func TestEnumCuts(t *testing.T) {
	sessions := []struct {
		calls []string
		order []int
	}{
		{[]string{"stat"}, []int{0}},
		{[]string{"read", "write"}, []int{1, 0}},
		{[]string{"stat", "read", "write", "open"}, []int{2, 0, 3, 1}},
		{nil, nil},
	}
	if hx.Thorough() {
		sessions = append(sessions, struct {
			calls []string
			order []int
		}{[]string{"read", "read", "stat"}, []int{0, 1, 2}}, struct {
			calls []string
			order []int
		}{[]string{"write", "open", "stat", "read"}, []int{3, 2, 1, 0}})
	}
	idx := 0
	for si, s := range sessions {
		for _, dotu := range []bool{false, true} {
			L := streamLen(s.calls, dotu)
			for _, fk := range []string{"eof", "err", "unmount"} {
				for cut := 0; cut <= L; cut++ {
					idx++
					if hx.NShards > 1 && idx%hx.NShards != hx.Shard {
						continue
					}
					if !hx.Thorough() && fk == "unmount" && cut%3 != 0 {
						continue // unmount waits for the client to drain: slower
					}
					c := &Case{Dotu: dotu, Msize: 1024, Prelude: si % 3, Calls: s.calls, Order: s.order, Cut: cut, Chunk: []int{0, 1, 5}[cut%3], Fail: fk, After: 1 + cut%2}
					rotateErr(c, idx)
					if err := execute("cuts", c); err != nil {
						hx.Violation("cuts", c, err.Error())
						t.Fatalf("%v", err)
					}
				}
			}
		}
	}
	hx.Exhaustive(fmt.Sprintf("every cut offset 0..N of the reply stream of %d scripted sessions (0..4 outstanding calls) x 2 dialects x {EOF, transport error, Unmount}", len(sessions)))
}

func TestEnumFaultFrames(t *testing.T) {
	idx := 0
	for _, fk := range faults {
		for _, dotu := range []bool{false, true} {
			for ncalls := 0; ncalls <= 3; ncalls++ {
				for _, before := range []int{0, 1} {
					idx++
					if hx.NShards > 1 && idx%hx.NShards != hx.Shard {
						continue
					}
					calls := []string{"stat", "read", "write"}[:ncalls]
					order := []int{0, 1, 2}[:ncalls]
					cut := 0
					if before == 1 && ncalls > 0 {
						cut = 100 // rounded down to a frame boundary: at least the first reply
					}
					for _, joined := range []bool{false, true} {
						if joined && cut == 0 {
							continue
						}
						c := &Case{Dotu: dotu, Msize: 512, Prelude: idx % 2, Calls: calls, Order: order, Cut: cut, Fail: fk, After: 2, Joined: joined}
						if err := execute("faults", c); err != nil {
							hx.Violation("faults", c, err.Error())
							t.Fatalf("%v", err)
						}
					}
				}
			}
		}
	}
	hx.Exhaustive("fault frames {size 0..6, oversize header only / with data, 2^31, 2^32-1, undefined type, unknown tag, reply for a completed tag} x 0..3 outstanding calls x before / after a delivered reply (in a Read of its own, or in the same Read as the fault frame) x 2 dialects")
}

// msizePairs: negotiated msize, msize the client offers.
var msizePairs = [][2]uint32{{256, 256}, {256, 8192}, {1024, 1048}, {1024, 8192}}

// TestEnumNegotiated: the peer grants less than (or exactly) what the client
// offered, and the fault frame is the very first thing it sends after its
// Rversion (in a Read of its own, or after complete replies in the same
// Read), or comes after replies delivered before it, or later in the session.
func TestEnumNegotiated(t *testing.T) {
	type fk struct {
		fail     string
		announce uint32
	}
	idx := 0
	for _, mp := range msizePairs {
		var fks []fk
		for _, a := range announceSizes(mp[0], mp[1]) {
			for _, f := range announceFaults {
				fks = append(fks, fk{f, a})
			}
		}
		for _, f := range faults {
			fks = append(fks, fk{f, 0})
		}
		for _, f := range fks {
			for ncalls := 0; ncalls <= 4; ncalls++ {
				if f.announce == 0 && !hx.Thorough() && ncalls%2 == 1 {
					continue // (the frames of the older table: fewer sessions in the quick tier)
				}
				for pos := 0; pos < 4; pos++ {
					// 0: first bytes after Rversion; 1: after Attach and a prelude;
					// 2: first bytes are complete replies, the fault frame in the same Read;
					// 3: first bytes are complete replies, the fault frame in the next Read
					if pos >= 2 && ncalls == 0 {
						continue
					}
					idx++
					if hx.NShards > 1 && idx%hx.NShards != hx.Shard {
						continue
					}
					c := &Case{Dotu: idx%2 == 0, Msize: mp[0], Offer: mp[1], Prelude: idx % 3, Fail: f.fail, Announce: f.announce, After: 1 + idx%2,
						Calls: []string{"read", "stat", "write", "open"}[:ncalls], Order: [][]int{{}, {0}, {1, 0}, {2, 0, 1}, {0, 3, 1, 2}}[ncalls],
						First: pos != 1}
					if pos >= 2 {
						c.Cut, c.Joined = []int{40, 100, 1000}[idx%3], pos == 2 // rounded down to a frame boundary
					}
					if err := execute("negotiated", c); err != nil {
						hx.Violation("negotiated", c, err.Error())
						t.Fatalf("%v", err)
					}
				}
			}
		}
	}
	hx.Exhaustive("negotiated/offered msize {256/256, 256/8192, 1024/1048, 1024/8192} x fault frames {header only, part, all of a frame announcing negotiated+1, +24, the middle, offered-1, offered, offered+1, 8*negotiated(+1), 8*offered(+1); the 14 frames of the older table} x 0..4 outstanding calls x {first bytes after Rversion, after Attach and prelude, after complete replies in the same Read, in the next Read}")
}

// TestEnumMount: MountConn against the scripted peer; the reply stream of its
// Tattach is cut after every byte (EOF, error), or a fault frame takes the
// Rattach's place or follows it.
func TestEnumMount(t *testing.T) {
	idx := 0
	L := len(ref9p.Encode(peer.Answer(&ref9p.Msg{Type: ref9p.Tattach}), false))
	for _, mp := range msizePairs {
		for _, dotu := range []bool{false, true} {
			for _, fk := range []string{"eof", "err"} {
				for cut := 0; cut <= L; cut++ {
					idx++
					if hx.NShards > 1 && idx%hx.NShards != hx.Shard {
						continue
					}
					c := &Case{Via: "mount", Dotu: dotu, Msize: mp[0], Offer: mp[1], Cut: cut, Chunk: []int{0, 1, 5}[cut%3], Fail: fk, After: 1 + cut%2}
					rotateErr(c, idx)
					if err := execute("mount", c); err != nil {
						hx.Violation("mount", c, err.Error())
						t.Fatalf("%v", err)
					}
				}
			}
			for _, a := range append([]uint32{0}, announceSizes(mp[0], mp[1])...) {
				fl := announceFaults
				if a == 0 {
					fl = faults
				}
				for _, fk := range fl {
					for pos := 0; pos < 3; pos++ { // instead of the Rattach; after it in the same Read; after it in the next Read
						idx++
						if hx.NShards > 1 && idx%hx.NShards != hx.Shard {
							continue
						}
						c := &Case{Via: "mount", Dotu: dotu, Msize: mp[0], Offer: mp[1], Cut: []int{0, -1, -1}[pos], Joined: pos == 1, Fail: fk, Announce: a, After: 2}
						if err := execute("mount", c); err != nil {
							hx.Violation("mount", c, err.Error())
							t.Fatalf("%v", err)
						}
					}
				}
			}
		}
	}
	hx.Exhaustive("MountConn x negotiated/offered msize (4 pairs) x 2 dialects x {every cut offset of the Rattach x {EOF, error}; fault frames (older table, announced sizes) instead of the Rattach / after it in the same Read / in the next Read}")
}

var peerModes = []string{"", "answer", "slow"}

// TestEnumMounted: the session runs on a client made by a completed MountConn
// (such a client has a Root fid; one made by Connect has none). Unmount while
// calls are outstanding against a peer that has fallen silent, answers, or
// answers too late: Unmount itself and every outstanding call must return. The
// other failure kinds on such a client, more thinly.
func TestEnumMounted(t *testing.T) {
	idx := 0
	one := func(c *Case) {
		idx++
		if hx.NShards > 1 && idx%hx.NShards != hx.Shard {
			return
		}
		rotateErr(c, idx)
		if err := execute("mounted", c); err != nil {
			hx.Violation("mounted", c, err.Error())
			t.Fatalf("%v", err)
		}
	}
	calls, orders := []string{"stat", "read", "write", "open"}, [][]int{{}, {0}, {1, 0}, {2, 0, 1}, {0, 3, 1, 2}}
	for _, pm := range peerModes {
		for _, dotu := range []bool{false, true} {
			for n := 0; n <= 4; n++ {
				for ci, cut := range []int{0, 30, 100, -1} {
					if n == 0 && ci > 0 {
						continue
					}
					for variant := 0; variant < 3; variant++ { // plain; one more call's request Write in progress (undrained); one more call just enqueued
						c := &Case{Via: "mounted", Peer: pm, Dotu: dotu, Msize: 1024, Offer: []uint32{0, 8192}[(n+ci)%2], Prelude: (n + ci + variant) % 3,
							Calls: calls[:n], Order: orders[n], Cut: cut, Chunk: []int{0, 1, 5}[(n+ci)%3], Fail: "unmount", After: 1 + (n+variant)%2,
							Late: variant > 0, WBlock: variant == 1}
						one(c)
					}
				}
			}
			for _, fk := range []string{"eof", "err", "badtype", "size3", "oversize-hdr", "unknowntag", "duptag"} {
				for _, n := range []int{0, 2, 3} {
					for _, cut := range []int{0, 100} {
						if n == 0 && cut > 0 {
							continue
						}
						one(&Case{Via: "mounted", Peer: pm, Dotu: dotu, Msize: 512, Offer: []uint32{0, 8192}[n%2], Prelude: n % 2, Calls: calls[:n], Order: orders[n], Cut: cut, Fail: fk, After: 2, Joined: n == 3})
					}
				}
			}
		}
	}
	hx.Exhaustive("client made by a completed MountConn x peer from the failure on {silent, answering, answering only after the outstanding calls returned} x 2 dialects x {Unmount x 0..4 outstanding calls x cut {0, inside the first reply, further on, all delivered} x {no other caller, one more call's Write in progress, one more call just enqueued}; {EOF, error, undefined type, size 3, oversize header, unknown tag, second reply for a completed tag} x {0,2,3} outstanding calls x before / after a delivered reply}")
}

var callerPts = []string{"rpcnb.enqueued", "rpcnb.sent"}
var sendPts = []string{"clnt.send.dequeued", "clnt.send.written"}
var recvPts = []string{"clnt.recv.closing", "clnt.recv.fanout"}

// TestEnumInterleavings: a caller entering Rpc concurrently with the failure,
// held at each client schedule point until the receiver passed each of its
// points, and vice versa.
func TestEnumInterleavings(t *testing.T) {
	idx := 0
	late := "Tstat/999999"
	for _, fk := range []string{"eof", "err", "unmount"} {
		for _, cp := range append(append([]string{}, callerPts...), sendPts...) {
			for _, rp := range recvPts {
				for dir := 0; dir < 2; dir++ {
					for _, n := range []int{0, 2} {
						idx++
						if hx.NShards > 1 && idx%hx.NShards != hx.Shard {
							continue
						}
						h := sched.Hold{Who: late, At: cp, UntilWho: "clnt", UntilPoint: rp}
						if dir == 1 {
							h = sched.Hold{Who: "clnt", At: rp, UntilWho: late, UntilPoint: cp}
						}
						c := &Case{Dotu: idx%2 == 0, Msize: 512, Calls: []string{"read", "stat"}[:n], Order: []int{0, 1}[:n], Cut: 0, Fail: fk, After: 1, Late: true, Holds: []sched.Hold{h}}
						if fk == "unmount" && n == 2 {
							// (Unmount with calls outstanding: on a client made by MountConn)
							c.Via, c.Peer = "mounted", peerModes[idx%3]
						}
						rotateErr(c, idx)
						if err := execute("interleave", c); err != nil {
							hx.Violation("interleave", c, err.Error())
							t.Fatalf("%+v: %v", h, err)
						}
					}
				}
			}
		}
	}
	hx.Exhaustive("late caller at {rpcnb.enqueued, rpcnb.sent, clnt.send.dequeued, clnt.send.written} x receiver at {clnt.recv.closing, clnt.recv.fanout} x 2 directions x {EOF, error, Unmount} x {0,2} other outstanding calls (Unmount with 2: on a client made by MountConn, peer silent / answering / slow in turn)")
}

// TestEnumBlockedWriter: the failure happens while the writer goroutine is
// inside a Write (of one more call) that the peer does not drain; for a
// protocol failure the peer also keeps the connection open.
func TestEnumBlockedWriter(t *testing.T) {
	idx := 0
	for _, fk := range append([]string{"eof", "err", "unmount"}, faults...) {
		for _, dotu := range []bool{false, true} {
			for n := 0; n <= 2; n++ {
				for _, before := range []int{0, 1} {
					if before == 1 && n == 0 {
						continue
					}
					idx++
					if hx.NShards > 1 && idx%hx.NShards != hx.Shard {
						continue
					}
					c := &Case{Dotu: dotu, Msize: 512, Prelude: idx % 2, Calls: []string{"stat", "read"}[:n], Order: []int{0, 1}[:n], Cut: 100 * before, Fail: fk, After: 1, Late: true, WBlock: true}
					if fk == "eof" || fk == "err" || fk == "unmount" {
						c.Cut = []int{0, 60}[before] // also in the middle of a reply
					}
					rotateErr(c, idx)
					if err := execute("blockedwriter", c); err != nil {
						hx.Violation("blockedwriter", c, err.Error())
						t.Fatalf("%v", err)
					}
				}
			}
		}
	}
	hx.Exhaustive("writer inside an undrained Write at the failure x {EOF, error, Unmount, 14 fault frames} x 0..2 other outstanding calls x before/after a delivered reply x 2 dialects")
}

func TestPropSessions(t *testing.T) {
	var hung error
	// (in a sub-test: the parent is failed below, after a hang has been recorded with its case)
	t.Run("draw", func(t *testing.T) { sessionsDraw(t, &hung) })
	if hung != nil {
		t.Fatalf("%v", hung)
	}
}

func sessionsDraw(t *testing.T, hung *error) {
	kinds := []string{"stat", "read", "write", "open"}
	hx.Check(t, "sessions", hx.N(300, 3000), func(t *rapid.T) {
		c := &Case{Dotu: rapid.Bool().Draw(t, "dotu"), Msize: rapid.SampledFrom([]uint32{256, 1024, 8192}).Draw(t, "msize"), Prelude: rapid.IntRange(0, 4).Draw(t, "prelude")}
		n := rapid.IntRange(0, 4).Draw(t, "n")
		for i := 0; i < n; i++ {
			c.Calls = append(c.Calls, rapid.SampledFrom(kinds).Draw(t, "kind"))
		}
		c.Order = rapid.Permutation(seq(n)).Draw(t, "order")
		c.Cut = rapid.IntRange(-1, 40*n+8).Draw(t, "cut")
		c.Chunk = rapid.SampledFrom([]int{0, 1, 3, 16}).Draw(t, "chunk")
		c.Fail = rapid.SampledFrom(append([]string{"eof", "eof", "err", "err", "err", "werr", "unmount", "unmount"}, faults...)).Draw(t, "fail")
		if c.Fail == "err" || c.Fail == "werr" {
			c.ErrKind = rapid.SampledFrom(errKinds).Draw(t, "errkind")
		}
		c.After = rapid.SampledFrom([]int{1, 1, 2, 20}).Draw(t, "after")
		c.Joined = rapid.Bool().Draw(t, "joined")
		if rapid.IntRange(0, 5).Draw(t, "blockedwriter") == 0 {
			c.Late, c.WBlock = true, true
		}
		// what the client offers: the negotiated msize (kept), or more (the peer lowers it)
		c.Offer = rapid.SampledFrom([]uint32{0, 0, c.Msize + 1, c.Msize + 24, 2 * c.Msize, 8 * c.Msize, 65536}).Draw(t, "offer")
		c.First = rapid.IntRange(0, 2).Draw(t, "first") == 0
		if rapid.IntRange(0, 2).Draw(t, "announce") == 0 {
			c.Fail = rapid.SampledFrom(announceFaults).Draw(t, "announcefail")
			sizes := announceSizes(c.Msize, offered(c))
			c.Announce = sizes[rapid.IntRange(0, len(sizes)-1).Draw(t, "announcesize")]
			if offered(c) > c.Msize+1 && rapid.Bool().Draw(t, "between") {
				c.Announce = rapid.Uint32Range(c.Msize+1, offered(c)).Draw(t, "announcebetween")
			}
		}
		// what the peer does with requests it receives from the failure on
		c.Peer = rapid.SampledFrom([]string{"", "", "answer", "slow"}).Draw(t, "peer")
		switch via := rapid.IntRange(0, 9).Draw(t, "via"); {
		case c.Fail != "unmount" && c.Fail != "werr" && via < 2:
			c.Via, c.Late, c.WBlock, c.Peer = []string{"mount", "early"}[via], false, false, ""
		case via < 5:
			// the session runs on a client made by a completed MountConn
			c.Via, c.First = "mounted", false
		}
		if c.Fail == "werr" {
			c.Late, c.WBlock = true, false
		}
		if *hung != nil {
			return
		}
		if err := execute("sessions", c); err != nil {
			if _, ok := err.(*hungErr); ok {
				*hung = err
				hx.Violation("sessions", c, err.Error())
				return
			}
			hx.Failf(t, "sessions", c, "%v", err)
		}
	})
}

// TestManyAfter: 70 000 failing calls after the failure (tag / request-slot leak on the error path).
func TestManyAfter(t *testing.T) {
	if hx.Shard != 0 {
		return
	}
	c := &Case{Dotu: true, Msize: 512, Calls: []string{"read"}, Order: []int{0}, Cut: 3, Fail: "eof", After: 70000}
	if err := execute("manyafter", c); err != nil {
		hx.Violation("manyafter", c, err.Error())
		t.Fatalf("%v", err)
	}
}

// TestTagFailure: pipelined Tag-interface requests outstanding when the
// connection fails must all be completed with an error.
func TestTagFailure(t *testing.T) {
	if hx.Shard != 0 {
		return
	}
	for _, fk := range []string{"eof", "err", "unmount"} {
		for n := 1; n <= 4; n++ {
			for cutFrames := 0; cutFrames <= n; cutFrames++ {
				c := &Case{Dotu: n%2 == 0, Msize: 1024, Fail: fk, Prelude: n, Cut: cutFrames, Calls: []string{"tag"}}
				rotateErr(c, 5*n+cutFrames)
				hx.Journal("tagfail", c)
				hx.Eval()
				hx.Label("tag-interface fail=" + fk)
				b, _ := json.Marshal(c)
				hx.NonTrivial(b)
				if hungBefore.Load() {
					return
				}
				err := settle(runTagFailure(c, n, cutFrames))
				if err != nil {
					hx.Violation("tagfail", c, err.Error())
					t.Fatalf("%v", err)
				}
			}
		}
	}
}

func runTagFailure(c *Case, n, answered int) error {
	p := peer.New("c10tag", c.Msize, true)
	p.Start(false)
	clnt, err := go9p.Connect(p.Lib, c.Msize, c.Dotu)
	if err != nil {
		return fmt.Errorf("Connect: %v", err)
	}
	defer clnt.Unmount()
	reqchan := make(chan *go9p.Req, 32)
	tag := clnt.TagAlloc(reqchan)
	// (the tag's worker goroutine inside go9p ends with TagFree; left alone it
	// would look like a goroutine stuck inside go9p at a later deadline)
	defer func() { go clnt.TagFree(tag) }()
	fid := clnt.FidAlloc()
	for i := 0; i < n; i++ {
		var e error
		switch i % 3 {
		case 0:
			e = tag.Read(fid, uint64(i), 32)
		case 1:
			e = tag.Stat(fid)
		default:
			e = tag.Walk(fid, clnt.FidAlloc(), []string{"a"})
		}
		if e != nil {
			return fmt.Errorf("tag request %d refused on a healthy connection: %v", i, e)
		}
	}
	var reqs []*ref9p.Msg
	for len(reqs) < n {
		r := nextReq(p)
		if r == nil {
			return hang("peer: pipelined requests did not arrive")
		}
		reqs = append(reqs, r.Msg)
	}
	for i := 0; i < answered; i++ {
		_ = p.Write(p.Encode(peer.Answer(reqs[i])), nil)
	}
	switch c.Fail {
	case "eof":
		p.End.CloseWrite()
	case "err":
		p.End.FailPeer(transportErr(c.ErrKind))
	default:
		for i := 0; i < 4000 && p.End.Unread() > 0; i++ {
			time.Sleep(250 * time.Microsecond)
		}
		time.Sleep(2 * time.Millisecond)
		clnt.Unmount()
	}
	for i := 0; i < n; i++ {
		r, ok := await(reqchan)
		if !ok {
			return hang("tag completion %d of %d never arrived after the failure", i, n)
		}
		if i < answered && r.Err != nil {
			return fmt.Errorf("tag completion %d: its reply was received before the failure but it completed with error %v", i, r.Err)
		}
		if i >= answered && r.Err == nil {
			return fmt.Errorf("tag completion %d completed without error although no reply was sent", i)
		}
	}
	return nil
}

// TestStaleReplyInFlight: a reply carrying the tag of a request that is queued
// for sending but not yet written (a duplicate of an earlier reply: tags are
// recycled with their request slots) must not crash or hang the client.
func TestStaleReplyInFlight(t *testing.T) {
	if hx.Shard != 0 {
		return
	}
	for rep := 0; rep < hx.N(6, 40); rep++ {
		for _, dotu := range []bool{false, true} {
			c := &Case{Dotu: dotu, Msize: 512, Fail: "stale-inflight", Prelude: 1}
			hx.Journal("staleinflight", c)
			hx.Eval()
			hx.Label("stale reply for a request in the send queue")
			b, _ := json.Marshal(c)
			hx.NonTrivial(b, rep)
			if hungBefore.Load() {
				return
			}
			err := settle(runStaleInFlight(c))
			if err != nil {
				hx.Violation("staleinflight", c, err.Error())
				t.Fatalf("%v", err)
			}
		}
	}
}

func runStaleInFlight(c *Case) error {
	p := peer.New("c10stale", c.Msize, true)
	p.Start(false)
	clnt, err := go9p.Connect(p.Lib, c.Msize, c.Dotu)
	if err != nil {
		return fmt.Errorf("Connect: %v", err)
	}
	defer clnt.Unmount()
	fid := clnt.FidAlloc()
	// one completed call; its request slot (and tag) is cached for the next call
	ch := make(chan *result, 1)
	go func() { ch <- doCall(clnt, "stat", fid, 0) }()
	r := nextReq(p)
	if r == nil {
		return hang("peer: request did not arrive")
	}
	first := p.Encode(peer.Answer(r.Msg))
	_ = p.Write(first, nil)
	if res := <-ch; res.err != nil {
		return fmt.Errorf("first call failed on a healthy connection: %v", res.err)
	}
	// the next call is held in the writer, after it left the queue and before it is written
	key := fmt.Sprintf("Tstat/%d", fid.Fid)
	ctl := sched.New([]sched.Hold{{Who: key, At: "clnt.send.dequeued", UntilWho: "harness", UntilPoint: "go"}})
	ctl.Timeout = 3 * time.Second
	defer sched.Install(ctl)()
	go func() { ch <- doCall(clnt, "stat", fid, 0) }()
	if !ctl.WaitSeen(key, "clnt.send.dequeued", 2*time.Second) {
		ctl.Signal("harness", "go")
		<-ch
		return nil // the request slot was not reused as expected: nothing to observe
	}
	// the peer repeats its earlier reply (same tag) although it has not seen the new request
	_ = p.Write(first, nil)
	select {
	case <-ch:
	case <-time.After(500 * time.Millisecond):
	}
	ctl.Signal("harness", "go")
	// the client must still be alive: one more call returns (with whatever result)
	time.Sleep(2 * time.Millisecond)
	ch3 := make(chan *result, 1)
	go func() { ch3 <- doCall(clnt, "stat", clnt.FidAlloc(), 0) }()
	// the peer answers whatever arrives until that call has returned (however
	// long the request takes to arrive on a loaded machine)
	stop := make(chan struct{})
	defer close(stop)
	go func() {
		for {
			select {
			case <-stop:
				return
			default:
			}
			r, ok := p.Next(20 * time.Millisecond)
			if !ok {
				return
			}
			if r != nil && r.Err == nil {
				_ = p.Write(p.Encode(peer.Answer(r.Msg)), nil)
			}
		}
	}()
	if _, ok := await(ch3); !ok {
		return hang("a call made after a stale reply did not return")
	}
	return nil
}

// TestFailureStorm: many callers keep issuing calls while the connection
// fails; a caller may enter Rpc at any instant of the receiver's shutdown.
// Every call must return (promptly, with an error once the failure has
// happened); none may hang.
func TestFailureStorm(t *testing.T) {
	rounds := hx.N(120, 900)
	for r := 0; r < rounds; r++ {
		if hx.NShards > 1 && r%hx.NShards != hx.Shard {
			continue
		}
		c := &Case{Dotu: r%2 == 0, Msize: 512, Fail: []string{"eof", "err", "unmount", "badtype", "unknowntag"}[r%5], Calls: []string{"storm"}, After: 8, Cut: r}
		rotateErr(c, r/5)
		if err := execute("storm", c); err != nil {
			hx.Violation("storm", c, err.Error())
			t.Fatalf("%v", err)
		}
	}
}

func runStorm(c *Case) error {
	p := peer.New("c10storm", c.Msize, true)
	p.Start(false)
	clnt, err := go9p.Connect(p.Lib, c.Msize, c.Dotu)
	if err != nil {
		return fmt.Errorf("Connect: %v", err)
	}
	defer clnt.Unmount()
	stopPeer := make(chan struct{})
	var served int64
	go func() { // the peer answers everything until told to stop
		for {
			select {
			case <-stopPeer:
				return
			default:
			}
			r, ok := p.Next(time.Millisecond)
			if !ok {
				return
			}
			if r == nil || r.Err != nil {
				continue
			}
			_ = p.Write(p.Encode(peer.Answer(r.Msg)), nil)
			served++
		}
	}()
	ncallers := c.After
	var wg sync.WaitGroup
	errsSeen := make([]int, ncallers)
	for i := 0; i < ncallers; i++ {
		wg.Add(1)
		go func(i int) {
			defer wg.Done()
			f := clnt.FidAlloc()
			f.Iounit = c.Msize - 24
			for k := 0; k < 4000 && errsSeen[i] < 3; k++ {
				r := doCall(clnt, []string{"stat", "read", "write"}[(i+k)%3], f, uint64(i*100000+k))
				if r.err != nil {
					errsSeen[i]++ // re-issue a few times after the failure
				} else if err := checkSuccess(r); err != nil {
					errsSeen[i] = 99
					return
				}
			}
		}(i)
	}
	// let the storm run for a moment (a drawn number of served calls), then fail the connection
	for w := 0; w < 2000 && served < int64(5+c.Cut%40); w++ {
		time.Sleep(20 * time.Microsecond)
	}
	switch c.Fail {
	case "eof":
		p.End.CloseWrite()
	case "err":
		p.End.FailPeer(transportErr(c.ErrKind))
	case "unmount":
		clnt.Unmount()
	case "badtype":
		_ = p.Write([]byte{7, 0, 0, 0, 99, 1, 0}, nil)
	case "unknowntag":
		_ = p.Write(p.Encode(&ref9p.Msg{Type: ref9p.Rclunk, Tag: 0x7777}), nil)
	}
	close(stopPeer)
	done := make(chan struct{})
	go func() { wg.Wait(); close(done) }()
	if _, ok := await(done); !ok {
		return hang("callers that kept issuing calls while the connection failed (%s) did not all return within %v", c.Fail, deadline)
	}
	for i, n := range errsSeen {
		if n == 99 {
			return fmt.Errorf("caller %d got a successful call with a wrong result during the storm", i)
		}
	}
	return nil
}

func seq(n int) []int {
	s := make([]int, n)
	for i := range s {
		s[i] = i
	}
	return s
}

func TestReplay(t *testing.T) {
	e, err := hx.LoadReplay()
	if e == nil {
		t.Skip("no replay file", err)
	}
	if e.Test == "entrystorm" || e.Test == "storm" {
		replayEnv(t, e, 100) // schedule dependent: one pass of a few dozen rounds proves little
		return
	}
	replayEnv(t, e, 10)
}

func replayEnv(t *testing.T, e *hx.Envelope, times int) {
	var c Case
	if err := json.Unmarshal(e.Case, &c); err != nil {
		t.Fatalf("bad case: %v", err)
	}
	for i := 0; i < times; i++ {
		if err := execute(e.Test, &c); err != nil {
			hx.Violation(e.Test, &c, err.Error())
			t.Fatalf("%v", err)
		}
	}
}

func TestRegress(t *testing.T) {
	for _, e := range hx.Regressions() {
		replayEnv(t, e, 2)
		hx.Label("regress")
	}
}
