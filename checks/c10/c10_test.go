// C10 — client calls fail promptly, never hang, when the connection fails.
package c10

import (
	"bytes"
	"encoding/binary"
	"encoding/json"
	"errors"
	"fmt"
	"sync"
	"sync/atomic"
	"testing"
	"time"

	"github.com/rminnich/go9p"
	"pgregory.net/rapid"
	"verif/internal/hx"
	"verif/internal/peer"
	"verif/internal/ref9p"
	"verif/internal/sched"
)

func TestMain(m *testing.M) { hx.Main(m, "C10") }

type Case struct {
	Dotu    bool         `json:"dotu"`
	Msize   uint32       `json:"msize"`
	Prelude int          `json:"prelude"` // calls completed before the scripted part
	Calls   []string     `json:"calls"`   // kinds of the concurrently outstanding calls (0..4)
	Order   []int        `json:"order"`   // order of their replies in the reply stream
	Cut     int          `json:"cut"`     // bytes of the reply stream delivered before the failure (-1: all)
	Chunk   int          `json:"chunk"`   // the delivered part is written in pieces of this many bytes (0: one write)
	Fail    string       `json:"fail"`    // eof, err, unmount, or a fault frame: size0..size6, oversize-hdr, oversize-data, big31, big32, badtype, unknowntag, duptag
	After   int          `json:"after"`   // calls made after the failure
	Holds   []sched.Hold `json:"holds,omitempty"`
	Late    bool         `json:"late,omitempty"` // one more call is started while the failure is in progress (interleaving table)
	Joined  bool         `json:"joined,omitempty"` // a fault frame is written together with the delivered replies: they reach the client in one Read (per piece of Chunk bytes)
	WBlock  bool         `json:"wblock,omitempty"` // (with Late) the writer goroutine is inside a Write of the late call that the peer does not drain when the failure happens
	// entry storm (TestPropEntryStorm)
	Callers int    `json:"callers,omitempty"` // goroutines entering Rpc when the connection fails
	Rounds  int    `json:"rounds,omitempty"`  // fresh connections failed one after the other
	Mode    string `json:"mode,omitempty"`    // "answer": the peer answers every request until the failure; "silent": it answers nothing
	Perturb uint64 `json:"perturb,omitempty"` // seed of the schedule perturbation at the client hook points and of the per-round delays
	Procs   int    `json:"procs,omitempty"`   // GOMAXPROCS
	Spread  int    `json:"spread,omitempty"`  // bound of the per-caller start stagger (spin iterations)
	Hook    bool   `json:"hook,omitempty"`    // schedule perturbation at the client hook points
}

const deadline = 25 * time.Second

// A deadline can also expire because the whole machine stood still: after a
// stall every timer of every shard fires at once, and what was awaited
// completes moments later. So an expired deadline is followed by a grace period
// that starts only then; a hang is still a hang a few seconds later.
const grace = 5 * time.Second

// await receives from ch within the deadline (plus grace).
func await[T any](ch <-chan T) (v T, ok bool) {
	t := time.NewTimer(deadline)
	defer t.Stop()
	select {
	case v = <-ch:
		return v, true
	case <-t.C:
	}
	g := time.NewTimer(grace)
	defer g.Stop()
	select {
	case v = <-ch:
		return v, true
	case <-g.C:
		return v, false
	}
}

// nextReq waits for the next request of the client within the deadline (plus grace).
func nextReq(p *peer.Peer) *peer.Req {
	r, ok := p.Next(deadline)
	if r == nil && ok {
		r, _ = p.Next(grace)
	}
	return r
}

// hangErr: something did not happen within the deadline. Whether a goroutine
// is stuck inside go9p is looked up where the hang is noticed, while it still
// exists (the clean-up on the way out — Unmount, releasing a held Write — may
// dissolve it).
type hangErr struct{ msg, blocked string }

func (h *hangErr) Error() string { return h.msg }

func hang(format string, a ...interface{}) error {
	return &hangErr{fmt.Sprintf(format, a...), hx.BlockedInGo9p()}
}

// hungErr is a violation by a hang (it costs the deadline every time it is
// reproduced, and what was stuck stays stuck in the process: not shrunk).
type hungErr struct{ msg string }

func (h *hungErr) Error() string { return h.msg }

// settle turns a hang into a violation (a goroutine is stuck inside go9p) or
// into an inconclusive run (nil).
func settle(err error) error {
	h, ok := err.(*hangErr)
	if !ok {
		return err
	}
	if h.blocked != "" {
		return &hungErr{fmt.Sprintf("%s; goroutines blocked inside go9p:\n%s", h.msg, h.blocked)}
	}
	hx.Inconclusive(h.msg)
	return nil
}

type result struct {
	kind string
	fid  uint32
	off  uint64
	err  error
	data []byte
	n    int
	name string
	done bool
}

func doCall(clnt *go9p.Clnt, kind string, fid *go9p.Fid, off uint64) *result {
	r := &result{kind: kind, fid: fid.Fid, off: off}
	switch kind {
	case "read":
		r.data, r.err = clnt.Read(fid, off, 64)
	case "write":
		r.n, r.err = clnt.Write(fid, peer.PRF(fmt.Sprintf("w/%d/%d", fid.Fid, off), 48), off)
	case "stat":
		var d *go9p.Dir
		d, r.err = clnt.Stat(fid)
		if d != nil {
			r.name = d.Name
		}
	case "open":
		r.err = clnt.Open(fid, 0)
	default:
		r.err = fmt.Errorf("harness: kind %q", kind)
	}
	r.done = true
	return r
}

func checkSuccess(r *result) error {
	switch r.kind {
	case "read":
		if !bytes.Equal(r.data, peer.ReadData(r.fid, r.off, 64)) {
			return fmt.Errorf("Read returned success with data that is not its reply")
		}
	case "write":
		if r.n != 48 {
			return fmt.Errorf("Write returned success with count %d", r.n)
		}
	case "stat":
		if r.name != peer.StatName(r.fid) {
			return fmt.Errorf("Stat returned success with name %q", r.name)
		}
	}
	return nil
}

func run(c *Case) error {
	p := peer.New("c10", c.Msize, true)
	p.Start(false)
	ctl := sched.New(c.Holds)
	ctl.Timeout = 400 * time.Millisecond
	defer sched.Install(ctl)()
	clnt, err := go9p.Connect(p.Lib, c.Msize, c.Dotu)
	if err != nil {
		return fmt.Errorf("Connect: %v", err)
	}
	defer clnt.Unmount()
	// answer helper for the sequential part
	serveOne := func() error {
		r := nextReq(p)
		if r == nil {
			return hang("peer: expected request did not arrive")
		}
		if r.Err != nil {
			return fmt.Errorf("client sent a frame that does not decode: %v", r.Err)
		}
		return p.Write(p.Encode(peer.Answer(r.Msg)), nil)
	}
	user := go9p.OsUsers.Uid2User(0)
	var root *go9p.Fid
	{
		ch := make(chan error, 1)
		go func() { var e error; root, e = clnt.Attach(nil, user, "c10"); ch <- e }()
		if err := serveOne(); err != nil {
			return err
		}
		if e := <-ch; e != nil || root == nil {
			return fmt.Errorf("Attach: %v", e)
		}
	}
	mkfid := func() *go9p.Fid { f := clnt.FidAlloc(); f.Iounit = c.Msize - 24; return f }
	for i := 0; i < c.Prelude; i++ {
		ch := make(chan *result, 1)
		f := mkfid()
		go func() { ch <- doCall(clnt, []string{"stat", "read", "write"}[i%3], f, uint64(i)) }()
		if err := serveOne(); err != nil {
			return err
		}
		r := <-ch
		if r.err != nil {
			return fmt.Errorf("prelude call %d failed on a healthy connection: %v", i, r.err)
		}
		if err := checkSuccess(r); err != nil {
			return fmt.Errorf("prelude call %d: %v", i, err)
		}
	}
	// ---- the outstanding calls
	n := len(c.Calls)
	results := make([]*result, n)
	fids := make([]*go9p.Fid, n)
	var wg sync.WaitGroup
	doneCh := make(chan int, n+c.After+2)
	for i := range c.Calls {
		fids[i] = mkfid()
		wg.Add(1)
		go func(i int) {
			defer wg.Done()
			results[i] = doCall(clnt, c.Calls[i], fids[i], uint64(100+i))
			doneCh <- i
		}(i)
	}
	// the peer gathers all of them
	reqs := map[uint32]*ref9p.Msg{} // by fid
	for len(reqs) < n {
		r := nextReq(p)
		if r == nil {
			return hang("peer: only %d of %d outstanding requests arrived", len(reqs), n)
		}
		if r.Err != nil {
			return fmt.Errorf("client sent a frame that does not decode: %v", r.Err)
		}
		reqs[r.Msg.Fid] = r.Msg
	}
	// the full reply stream S
	var S []byte
	ends := make([]int, n) // ends[i] = offset in S at which call i's reply is complete
	order := c.Order
	if len(order) != n {
		order = make([]int, n)
		for i := range order {
			order[i] = i
		}
	}
	for _, i := range order {
		S = append(S, p.Encode(peer.Answer(reqs[fids[i].Fid]))...)
		ends[i] = len(S)
	}
	cut := c.Cut
	if cut < 0 || cut > len(S) {
		cut = len(S)
	}
	isFault := false
	switch c.Fail {
	case "eof", "err", "unmount":
	default:
		isFault = true
		// faults are injected on a frame boundary
		b := 0
		for _, i := range order {
			if ends[i] <= cut {
				b = ends[i]
			}
		}
		cut = b
	}
	var cuts []int
	if c.Chunk > 0 {
		for x := c.Chunk; x < cut; x += c.Chunk {
			cuts = append(cuts, x)
		}
	}
	joined := isFault && c.Joined
	if cut > 0 && !joined {
		if err := p.Write(S[:cut], cuts); err != nil {
			return fmt.Errorf("peer write: %v", err)
		}
	}
	// inject writes a fault frame: by itself, or (joined) in the same Write as
	// the delivered replies
	inject := func(fb []byte, fcuts []int) {
		if !joined {
			_ = p.Write(fb, fcuts)
			return
		}
		all := append(append([]byte(nil), S[:cut]...), fb...)
		jc := append([]int(nil), cuts...)
		for _, x := range fcuts {
			jc = append(jc, cut+x)
		}
		_ = p.Write(all, jc)
	}
	// a late caller that enters Rpc while the failure is in progress
	var late *result
	lateDone := make(chan struct{})
	var wrelease atomic.Bool
	if c.Late {
		lf := mkfid()
		lf.Fid = 999999
		wentered := make(chan struct{}, 1)
		if c.WBlock {
			// the late call's request is being written, and the peer does not
			// take it: the Write stays in progress until the transport breaks
			// (EOF, error: released below) or the client closes its end
			p.Lib.SetWriteHook(func([]byte) {
				select {
				case wentered <- struct{}{}:
				default:
				}
				for !wrelease.Load() && !p.Lib.Closed() {
					time.Sleep(50 * time.Microsecond)
				}
			})
			defer func() { wrelease.Store(true); p.Lib.SetWriteHook(nil) }()
		}
		go func() {
			late = doCall(clnt, "stat", lf, 0)
			close(lateDone)
		}()
		if c.WBlock {
			select {
			case <-wentered:
			case <-time.After(2 * time.Second):
			}
		} else {
			ctl.WaitSeen("Tstat/999999", "rpcnb.enqueued", 2*time.Second)
		}
	} else {
		close(lateDone)
	}
	// ---- the failure
	hdr := func(sz uint32, typ uint8, tag uint16) []byte {
		b := make([]byte, 7)
		binary.LittleEndian.PutUint32(b, sz)
		b[4] = typ
		binary.LittleEndian.PutUint16(b[5:], tag)
		return b
	}
	switch c.Fail {
	case "eof":
		p.End.CloseWrite()
		wrelease.Store(true) // the transport is gone: a Write in progress ends
	case "err":
		if c.Late {
			// the late call's Write fails with the transport and the client then
			// closes its end at once, dropping what it has not read yet: only
			// what the client has actually read counts as received
			for i := 0; i < 4000 && p.End.Unread() > 0; i++ {
				time.Sleep(250 * time.Microsecond)
			}
		}
		p.End.FailPeer(errors.New("injected transport error"))
		wrelease.Store(true)
	case "unmount":
		// only what the client has actually read counts as received
		for i := 0; i < 4000 && p.End.Unread() > 0; i++ {
			time.Sleep(250 * time.Microsecond)
		}
		time.Sleep(2 * time.Millisecond)
		clnt.Unmount()
	case "size0", "size1", "size2", "size3", "size4", "size5", "size6":
		sz := uint32(c.Fail[4] - '0')
		inject(append(hdr(sz, ref9p.Rclunk, 1), 0, 0, 0, 0), nil)
	case "oversize-hdr":
		inject(hdr(8*c.Msize+1, ref9p.Rread, 1), nil)
	case "oversize-data":
		inject(append(hdr(8*c.Msize+1, ref9p.Rread, 1), make([]byte, 8*c.Msize+64)...), []int{7, 100, int(c.Msize), int(4 * c.Msize)})
	case "big31":
		inject(append(hdr(1<<31, ref9p.Rread, 1), make([]byte, 64)...), nil)
	case "big32":
		inject(append(hdr(0xFFFFFFFF, ref9p.Rread, 1), make([]byte, 64)...), nil)
	case "badtype":
		inject(hdr(7, 99, 1), nil)
	case "unknowntag":
		inject(p.Encode(&ref9p.Msg{Type: ref9p.Rclunk, Tag: 0x7777}), nil)
	case "duptag":
		// a second reply for a call that was already answered (or, with none answered, an unknown tag)
		var m *ref9p.Msg
		for _, i := range order {
			// (with a late caller the answered call's tag may already be in use
			// again, and the duplicate would be a reply to the late call)
			if ends[i] <= cut && !c.Late {
				m = peer.Answer(reqs[fids[i].Fid])
			}
		}
		if m == nil {
			m = &ref9p.Msg{Type: ref9p.Rclunk, Tag: 0x7776}
		}
		inject(p.Encode(m), nil)
	default:
		return fmt.Errorf("harness: fail kind %q", c.Fail)
	}
	// ---- every outstanding call returns
	waitAll := make(chan struct{})
	go func() { wg.Wait(); close(waitAll) }()
	if _, ok := await(waitAll); !ok {
		pend := 0
		for _, r := range results {
			if r == nil {
				pend++
			}
		}
		return hang("%d of %d outstanding calls did not return within %v after the failure (%s at byte %d of %d)", pend, n, deadline, c.Fail, cut, len(S))
	}
	if _, ok := await(lateDone); !ok {
		return hang("a call that entered Rpc while the connection was failing did not return within %v", deadline)
	}
	if late != nil && late.err == nil {
		return fmt.Errorf("a call made while the connection was failing returned success although no reply was sent for it")
	}
	for i, r := range results {
		complete := ends[i] <= cut
		switch {
		case r.err == nil && !complete:
			return fmt.Errorf("call %d (%s) returned success although only %d of the %d bytes of its reply were delivered before the failure", i, r.kind, max(0, cut-(ends[i]-replyLen(p, reqs[fids[i].Fid]))), replyLen(p, reqs[fids[i].Fid]))
		case r.err == nil:
			if err := checkSuccess(r); err != nil {
				return fmt.Errorf("call %d: %v", i, err)
			}
		case complete && !(isFault && c.Fail == "duptag"):
			return fmt.Errorf("call %d (%s): its complete reply was received before the failure (%s at byte %d, reply ends at %d) but the call returned error %v", i, r.kind, c.Fail, cut, ends[i], r.err)
		}
	}
	// ---- later calls fail promptly
	if c.Fail == "duptag" && c.After > 0 {
		// "later" means after the client met the duplicate: a call that takes
		// the recycled tag before that is, for the client, what the frame answers
		if !ctl.WaitSeen("clnt", "clnt.recv.closing", deadline) && !ctl.WaitSeen("clnt", "clnt.recv.closing", grace) {
			return hang("the client did not react to a second reply for an answered tag within the deadline")
		}
	}
	for k := 0; k < c.After; k++ {
		ch := make(chan *result, 1)
		f := mkfid()
		go func() { ch <- doCall(clnt, []string{"stat", "read", "write", "open"}[k%4], f, uint64(500+k)) }()
		r, ok := await(ch)
		if !ok {
			return hang("call %d made after the failure (%s) did not return within %v", k, c.Fail, deadline)
		}
		if r.err == nil {
			return fmt.Errorf("call %d made after the failure (%s) returned success", k, c.Fail)
		}
	}
	ap, fo := ctl.Stats()
	hx.ExtraAdd("holds_applied", int64(ap))
	hx.ExtraAdd("holds_forced", int64(fo))
	return nil
}

func replyLen(p *peer.Peer, m *ref9p.Msg) int { return len(p.Encode(peer.Answer(m))) }

func execute(test string, c *Case) error {
	hx.Journal(test, c)
	hx.Eval()
	switch test {
	case "entrystorm": // (non-trivial or not is decided by what the rounds reached)
		hx.Label("entry storm fail=" + c.Fail)
		hx.Label("entry storm mode=" + c.Mode)
	case "storm":
		hx.Label("storm fail=" + c.Fail)
		b, _ := json.Marshal(c)
		hx.NonTrivial(b)
	default:
		hx.Label(fmt.Sprintf("fail=%s", c.Fail))
		hx.Label(fmt.Sprintf("outstanding=%d", len(c.Calls)))
		if len(c.Calls) >= 1 || c.Late {
			b, _ := json.Marshal(c)
			hx.NonTrivial(b)
		}
	}
	hx.Sample(test, c)
	var err error
	switch test {
	case "entrystorm":
		err = runEntry(c)
	case "storm":
		err = runStorm(c)
	default:
		err = run(c)
	}
	return settle(err)
}

var faults = []string{"size0", "size1", "size2", "size3", "size4", "size5", "size6", "oversize-hdr", "oversize-data", "big31", "big32", "badtype", "unknowntag", "duptag"}

// streamLen computes the length of the reply stream of a session without running it.
func streamLen(calls []string, dotu bool) int {
	n := 0
	for i, k := range calls {
		var m *ref9p.Msg
		switch k {
		case "read":
			m = &ref9p.Msg{Type: ref9p.Tread, Fid: 1, Offset: uint64(100 + i), Count: 64}
		case "write":
			m = &ref9p.Msg{Type: ref9p.Twrite, Fid: 1, Data: make([]byte, 48)}
		case "stat":
			m = &ref9p.Msg{Type: ref9p.Tstat, Fid: 10000}
		default:
			m = &ref9p.Msg{Type: ref9p.Topen, Fid: 1}
		}
		n += len(ref9p.Encode(peer.Answer(m), dotu))
	}
	return n + 8
}

// TestEnumCuts: cut of the server-to-client stream after every byte offset,
// for a few sessions x 3 failure kinds.
func TestEnumCuts(t *testing.T) {
	sessions := []struct {
		calls []string
		order []int
	}{
		{[]string{"stat"}, []int{0}},
		{[]string{"read", "write"}, []int{1, 0}},
		{[]string{"stat", "read", "write", "open"}, []int{2, 0, 3, 1}},
		{nil, nil},
	}
	if hx.Thorough() {
		sessions = append(sessions, struct {
			calls []string
			order []int
		}{[]string{"read", "read", "stat"}, []int{0, 1, 2}}, struct {
			calls []string
			order []int
		}{[]string{"write", "open", "stat", "read"}, []int{3, 2, 1, 0}})
	}
	idx := 0
	for si, s := range sessions {
		for _, dotu := range []bool{false, true} {
			L := streamLen(s.calls, dotu)
			for _, fk := range []string{"eof", "err", "unmount"} {
				for cut := 0; cut <= L; cut++ {
					idx++
					if hx.NShards > 1 && idx%hx.NShards != hx.Shard {
						continue
					}
					if !hx.Thorough() && fk == "unmount" && cut%3 != 0 {
						continue // unmount waits for the client to drain: slower
					}
					c := &Case{Dotu: dotu, Msize: 1024, Prelude: si % 3, Calls: s.calls, Order: s.order, Cut: cut, Chunk: []int{0, 1, 5}[cut%3], Fail: fk, After: 1 + cut%2}
					if err := execute("cuts", c); err != nil {
						hx.Violation("cuts", c, err.Error())
						t.Fatalf("%v", err)
					}
				}
			}
		}
	}
	hx.Exhaustive(fmt.Sprintf("every cut offset 0..N of the reply stream of %d scripted sessions (0..4 outstanding calls) x 2 dialects x {EOF, transport error, Unmount}", len(sessions)))
}

func TestEnumFaultFrames(t *testing.T) {
	idx := 0
	for _, fk := range faults {
		for _, dotu := range []bool{false, true} {
			for ncalls := 0; ncalls <= 3; ncalls++ {
				for _, before := range []int{0, 1} {
					idx++
					if hx.NShards > 1 && idx%hx.NShards != hx.Shard {
						continue
					}
					calls := []string{"stat", "read", "write"}[:ncalls]
					order := []int{0, 1, 2}[:ncalls]
					cut := 0
					if before == 1 && ncalls > 0 {
						cut = 100 // rounded down to a frame boundary: at least the first reply
					}
					for _, joined := range []bool{false, true} {
						if joined && cut == 0 {
							continue
						}
						c := &Case{Dotu: dotu, Msize: 512, Prelude: idx % 2, Calls: calls, Order: order, Cut: cut, Fail: fk, After: 2, Joined: joined}
						if err := execute("faults", c); err != nil {
							hx.Violation("faults", c, err.Error())
							t.Fatalf("%v", err)
						}
					}
				}
			}
		}
	}
	hx.Exhaustive("fault frames {size 0..6, oversize header only / with data, 2^31, 2^32-1, undefined type, unknown tag, reply for a completed tag} x 0..3 outstanding calls x before / after a delivered reply (in a Read of its own, or in the same Read as the fault frame) x 2 dialects")
}

var callerPts = []string{"rpcnb.enqueued", "rpcnb.sent"}
var sendPts = []string{"clnt.send.dequeued", "clnt.send.written"}
var recvPts = []string{"clnt.recv.closing", "clnt.recv.fanout"}

// TestEnumInterleavings: a caller entering Rpc concurrently with the failure,
// held at each client schedule point until the receiver passed each of its
// points, and vice versa.
func TestEnumInterleavings(t *testing.T) {
	idx := 0
	late := "Tstat/999999"
	for _, fk := range []string{"eof", "err", "unmount"} {
		for _, cp := range append(append([]string{}, callerPts...), sendPts...) {
			for _, rp := range recvPts {
				for dir := 0; dir < 2; dir++ {
					for _, n := range []int{0, 2} {
						idx++
						if hx.NShards > 1 && idx%hx.NShards != hx.Shard {
							continue
						}
						h := sched.Hold{Who: late, At: cp, UntilWho: "clnt", UntilPoint: rp}
						if dir == 1 {
							h = sched.Hold{Who: "clnt", At: rp, UntilWho: late, UntilPoint: cp}
						}
						c := &Case{Dotu: idx%2 == 0, Msize: 512, Calls: []string{"read", "stat"}[:n], Order: []int{0, 1}[:n], Cut: 0, Fail: fk, After: 1, Late: true, Holds: []sched.Hold{h}}
						if err := execute("interleave", c); err != nil {
							hx.Violation("interleave", c, err.Error())
							t.Fatalf("%+v: %v", h, err)
						}
					}
				}
			}
		}
	}
	hx.Exhaustive("late caller at {rpcnb.enqueued, rpcnb.sent, clnt.send.dequeued, clnt.send.written} x receiver at {clnt.recv.closing, clnt.recv.fanout} x 2 directions x {EOF, error, Unmount} x {0,2} other outstanding calls")
}

// TestEnumBlockedWriter: the failure happens while the writer goroutine is
// inside a Write (of one more call) that the peer does not drain; for a
// protocol failure the peer also keeps the connection open.
func TestEnumBlockedWriter(t *testing.T) {
	idx := 0
	for _, fk := range append([]string{"eof", "err", "unmount"}, faults...) {
		for _, dotu := range []bool{false, true} {
			for n := 0; n <= 2; n++ {
				for _, before := range []int{0, 1} {
					if before == 1 && n == 0 {
						continue
					}
					idx++
					if hx.NShards > 1 && idx%hx.NShards != hx.Shard {
						continue
					}
					c := &Case{Dotu: dotu, Msize: 512, Prelude: idx % 2, Calls: []string{"stat", "read"}[:n], Order: []int{0, 1}[:n], Cut: 100 * before, Fail: fk, After: 1, Late: true, WBlock: true}
					if fk == "eof" || fk == "err" || fk == "unmount" {
						c.Cut = []int{0, 60}[before] // also in the middle of a reply
					}
					if err := execute("blockedwriter", c); err != nil {
						hx.Violation("blockedwriter", c, err.Error())
						t.Fatalf("%v", err)
					}
				}
			}
		}
	}
	hx.Exhaustive("writer inside an undrained Write at the failure x {EOF, error, Unmount, 14 fault frames} x 0..2 other outstanding calls x before/after a delivered reply x 2 dialects")
}

func TestPropSessions(t *testing.T) {
	var hung error
	// (in a sub-test: the parent is failed below, after a hang has been recorded with its case)
	t.Run("draw", func(t *testing.T) { sessionsDraw(t, &hung) })
	if hung != nil {
		t.Fatalf("%v", hung)
	}
}

func sessionsDraw(t *testing.T, hung *error) {
	kinds := []string{"stat", "read", "write", "open"}
	hx.Check(t, "sessions", hx.N(300, 3000), func(t *rapid.T) {
		c := &Case{Dotu: rapid.Bool().Draw(t, "dotu"), Msize: rapid.SampledFrom([]uint32{256, 1024, 8192}).Draw(t, "msize"), Prelude: rapid.IntRange(0, 4).Draw(t, "prelude")}
		n := rapid.IntRange(0, 4).Draw(t, "n")
		for i := 0; i < n; i++ {
			c.Calls = append(c.Calls, rapid.SampledFrom(kinds).Draw(t, "kind"))
		}
		c.Order = rapid.Permutation(seq(n)).Draw(t, "order")
		c.Cut = rapid.IntRange(-1, 40*n+8).Draw(t, "cut")
		c.Chunk = rapid.SampledFrom([]int{0, 1, 3, 16}).Draw(t, "chunk")
		c.Fail = rapid.SampledFrom(append([]string{"eof", "eof", "err", "err", "unmount", "unmount"}, faults...)).Draw(t, "fail")
		c.After = rapid.SampledFrom([]int{1, 1, 2, 20}).Draw(t, "after")
		c.Joined = rapid.Bool().Draw(t, "joined")
		if rapid.IntRange(0, 5).Draw(t, "blockedwriter") == 0 {
			c.Late, c.WBlock = true, true
		}
		if *hung != nil {
			return
		}
		if err := execute("sessions", c); err != nil {
			if _, ok := err.(*hungErr); ok {
				*hung = err
				hx.Violation("sessions", c, err.Error())
				return
			}
			hx.Failf(t, "sessions", c, "%v", err)
		}
	})
}

// TestManyAfter: 70 000 failing calls after the failure (tag / request-slot leak on the error path).
func TestManyAfter(t *testing.T) {
	if hx.Shard != 0 {
		return
	}
	c := &Case{Dotu: true, Msize: 512, Calls: []string{"read"}, Order: []int{0}, Cut: 3, Fail: "eof", After: 70000}
	if err := execute("manyafter", c); err != nil {
		hx.Violation("manyafter", c, err.Error())
		t.Fatalf("%v", err)
	}
}

// TestTagFailure: pipelined Tag-interface requests outstanding when the
// connection fails must all be completed with an error.
func TestTagFailure(t *testing.T) {
	if hx.Shard != 0 {
		return
	}
	for _, fk := range []string{"eof", "err", "unmount"} {
		for n := 1; n <= 4; n++ {
			for cutFrames := 0; cutFrames <= n; cutFrames++ {
				c := &Case{Dotu: n%2 == 0, Msize: 1024, Fail: fk, Prelude: n, Cut: cutFrames, Calls: []string{"tag"}}
				hx.Journal("tagfail", c)
				hx.Eval()
				hx.Label("tag-interface fail=" + fk)
				b, _ := json.Marshal(c)
				hx.NonTrivial(b)
				err := settle(runTagFailure(c, n, cutFrames))
				if err != nil {
					hx.Violation("tagfail", c, err.Error())
					t.Fatalf("%v", err)
				}
			}
		}
	}
}

func runTagFailure(c *Case, n, answered int) error {
	p := peer.New("c10tag", c.Msize, true)
	p.Start(false)
	clnt, err := go9p.Connect(p.Lib, c.Msize, c.Dotu)
	if err != nil {
		return fmt.Errorf("Connect: %v", err)
	}
	defer clnt.Unmount()
	reqchan := make(chan *go9p.Req, 32)
	tag := clnt.TagAlloc(reqchan)
	// (the tag's worker goroutine inside go9p ends with TagFree; left alone it
	// would look like a goroutine stuck inside go9p at a later deadline)
	defer func() { go clnt.TagFree(tag) }()
	fid := clnt.FidAlloc()
	for i := 0; i < n; i++ {
		var e error
		switch i % 3 {
		case 0:
			e = tag.Read(fid, uint64(i), 32)
		case 1:
			e = tag.Stat(fid)
		default:
			e = tag.Walk(fid, clnt.FidAlloc(), []string{"a"})
		}
		if e != nil {
			return fmt.Errorf("tag request %d refused on a healthy connection: %v", i, e)
		}
	}
	var reqs []*ref9p.Msg
	for len(reqs) < n {
		r := nextReq(p)
		if r == nil {
			return hang("peer: pipelined requests did not arrive")
		}
		reqs = append(reqs, r.Msg)
	}
	for i := 0; i < answered; i++ {
		_ = p.Write(p.Encode(peer.Answer(reqs[i])), nil)
	}
	switch c.Fail {
	case "eof":
		p.End.CloseWrite()
	case "err":
		p.End.FailPeer(errors.New("injected transport error"))
	default:
		for i := 0; i < 4000 && p.End.Unread() > 0; i++ {
			time.Sleep(250 * time.Microsecond)
		}
		time.Sleep(2 * time.Millisecond)
		clnt.Unmount()
	}
	for i := 0; i < n; i++ {
		r, ok := await(reqchan)
		if !ok {
			return hang("tag completion %d of %d never arrived after the failure", i, n)
		}
		if i < answered && r.Err != nil {
			return fmt.Errorf("tag completion %d: its reply was received before the failure but it completed with error %v", i, r.Err)
		}
		if i >= answered && r.Err == nil {
			return fmt.Errorf("tag completion %d completed without error although no reply was sent", i)
		}
	}
	return nil
}

// TestStaleReplyInFlight: a reply carrying the tag of a request that is queued
// for sending but not yet written (a duplicate of an earlier reply: tags are
// recycled with their request slots) must not crash or hang the client.
func TestStaleReplyInFlight(t *testing.T) {
	if hx.Shard != 0 {
		return
	}
	for rep := 0; rep < hx.N(6, 40); rep++ {
		for _, dotu := range []bool{false, true} {
			c := &Case{Dotu: dotu, Msize: 512, Fail: "stale-inflight", Prelude: 1}
			hx.Journal("staleinflight", c)
			hx.Eval()
			hx.Label("stale reply for a request in the send queue")
			b, _ := json.Marshal(c)
			hx.NonTrivial(b, rep)
			err := settle(runStaleInFlight(c))
			if err != nil {
				hx.Violation("staleinflight", c, err.Error())
				t.Fatalf("%v", err)
			}
		}
	}
}

func runStaleInFlight(c *Case) error {
	p := peer.New("c10stale", c.Msize, true)
	p.Start(false)
	clnt, err := go9p.Connect(p.Lib, c.Msize, c.Dotu)
	if err != nil {
		return fmt.Errorf("Connect: %v", err)
	}
	defer clnt.Unmount()
	fid := clnt.FidAlloc()
	// one completed call; its request slot (and tag) is cached for the next call
	ch := make(chan *result, 1)
	go func() { ch <- doCall(clnt, "stat", fid, 0) }()
	r := nextReq(p)
	if r == nil {
		return hang("peer: request did not arrive")
	}
	first := p.Encode(peer.Answer(r.Msg))
	_ = p.Write(first, nil)
	if res := <-ch; res.err != nil {
		return fmt.Errorf("first call failed on a healthy connection: %v", res.err)
	}
	// the next call is held in the writer, after it left the queue and before it is written
	key := fmt.Sprintf("Tstat/%d", fid.Fid)
	ctl := sched.New([]sched.Hold{{Who: key, At: "clnt.send.dequeued", UntilWho: "harness", UntilPoint: "go"}})
	ctl.Timeout = 3 * time.Second
	defer sched.Install(ctl)()
	go func() { ch <- doCall(clnt, "stat", fid, 0) }()
	if !ctl.WaitSeen(key, "clnt.send.dequeued", 2*time.Second) {
		ctl.Signal("harness", "go")
		<-ch
		return nil // the request slot was not reused as expected: nothing to observe
	}
	// the peer repeats its earlier reply (same tag) although it has not seen the new request
	_ = p.Write(first, nil)
	select {
	case <-ch:
	case <-time.After(500 * time.Millisecond):
	}
	ctl.Signal("harness", "go")
	// the client must still be alive: one more call returns (with whatever result)
	time.Sleep(2 * time.Millisecond)
	go func() { ch <- doCall(clnt, "stat", clnt.FidAlloc(), 0) }()
	for {
		r, _ := p.Next(100 * time.Millisecond)
		if r == nil {
			break
		}
		_ = p.Write(p.Encode(peer.Answer(r.Msg)), nil)
	}
	if _, ok := await(ch); !ok {
		return hang("a call made after a stale reply did not return")
	}
	return nil
}

// TestFailureStorm: many callers keep issuing calls while the connection
// fails; a caller may enter Rpc at any instant of the receiver's shutdown.
// Every call must return (promptly, with an error once the failure has
// happened); none may hang.
func TestFailureStorm(t *testing.T) {
	rounds := hx.N(120, 900)
	for r := 0; r < rounds; r++ {
		if hx.NShards > 1 && r%hx.NShards != hx.Shard {
			continue
		}
		c := &Case{Dotu: r%2 == 0, Msize: 512, Fail: []string{"eof", "err", "unmount", "badtype", "unknowntag"}[r%5], Calls: []string{"storm"}, After: 8, Cut: r}
		if err := execute("storm", c); err != nil {
			hx.Violation("storm", c, err.Error())
			t.Fatalf("%v", err)
		}
	}
}

func runStorm(c *Case) error {
	p := peer.New("c10storm", c.Msize, true)
	p.Start(false)
	clnt, err := go9p.Connect(p.Lib, c.Msize, c.Dotu)
	if err != nil {
		return fmt.Errorf("Connect: %v", err)
	}
	defer clnt.Unmount()
	stopPeer := make(chan struct{})
	var served int64
	go func() { // the peer answers everything until told to stop
		for {
			select {
			case <-stopPeer:
				return
			default:
			}
			r, ok := p.Next(time.Millisecond)
			if !ok {
				return
			}
			if r == nil || r.Err != nil {
				continue
			}
			_ = p.Write(p.Encode(peer.Answer(r.Msg)), nil)
			served++
		}
	}()
	ncallers := c.After
	var wg sync.WaitGroup
	errsSeen := make([]int, ncallers)
	for i := 0; i < ncallers; i++ {
		wg.Add(1)
		go func(i int) {
			defer wg.Done()
			f := clnt.FidAlloc()
			f.Iounit = c.Msize - 24
			for k := 0; k < 4000 && errsSeen[i] < 3; k++ {
				r := doCall(clnt, []string{"stat", "read", "write"}[(i+k)%3], f, uint64(i*100000+k))
				if r.err != nil {
					errsSeen[i]++ // re-issue a few times after the failure
				} else if err := checkSuccess(r); err != nil {
					errsSeen[i] = 99
					return
				}
			}
		}(i)
	}
	// let the storm run for a moment (a drawn number of served calls), then fail the connection
	for w := 0; w < 2000 && served < int64(5+c.Cut%40); w++ {
		time.Sleep(20 * time.Microsecond)
	}
	switch c.Fail {
	case "eof":
		p.End.CloseWrite()
	case "err":
		p.End.FailPeer(errors.New("injected transport error"))
	case "unmount":
		clnt.Unmount()
	case "badtype":
		_ = p.Write([]byte{7, 0, 0, 0, 99, 1, 0}, nil)
	case "unknowntag":
		_ = p.Write(p.Encode(&ref9p.Msg{Type: ref9p.Rclunk, Tag: 0x7777}), nil)
	}
	close(stopPeer)
	done := make(chan struct{})
	go func() { wg.Wait(); close(done) }()
	if _, ok := await(done); !ok {
		return hang("callers that kept issuing calls while the connection failed (%s) did not all return within %v", c.Fail, deadline)
	}
	for i, n := range errsSeen {
		if n == 99 {
			return fmt.Errorf("caller %d got a successful call with a wrong result during the storm", i)
		}
	}
	return nil
}

func seq(n int) []int {
	s := make([]int, n)
	for i := range s {
		s[i] = i
	}
	return s
}

func TestReplay(t *testing.T) {
	e, err := hx.LoadReplay()
	if e == nil {
		t.Skip("no replay file", err)
	}
	if e.Test == "entrystorm" || e.Test == "storm" {
		replayEnv(t, e, 100) // schedule dependent: one pass of a few dozen rounds proves little
		return
	}
	replayEnv(t, e, 10)
}

func replayEnv(t *testing.T, e *hx.Envelope, times int) {
	var c Case
	if err := json.Unmarshal(e.Case, &c); err != nil {
		t.Fatalf("bad case: %v", err)
	}
	for i := 0; i < times; i++ {
		if err := execute(e.Test, &c); err != nil {
			hx.Violation(e.Test, &c, err.Error())
			t.Fatalf("%v", err)
		}
	}
}

func TestRegress(t *testing.T) {
	for _, e := range hx.Regressions() {
		replayEnv(t, e, 2)
		hx.Label("regress")
	}
}
