package c10

// Early failures: the connection fails while Connect itself is the outstanding
// call (its Tversion), or directly behind the Rversion — the peer does not wait
// for Connect to return, let alone for a request, before it sends the fault
// frame: in the same Write as the Rversion, or in a Write of its own right
// after it. The msize that Rversion grants is in force for every byte behind
// it, however quickly those bytes follow.

import (
	"fmt"
	"testing"

	"github.com/rminnich/go9p"
	"verif/internal/hx"
	"verif/internal/ref9p"
	"verif/internal/sched"
	"verif/internal/xport"
)

// runEarly: c.Cut bytes of the Rversion are delivered (in pieces of c.Chunk),
// then the failure: EOF, error, or (after the complete Rversion only) a fault
// frame, joined with the Rversion's last piece or not. Connect must return —
// with a client exactly if the complete Rversion was delivered — and the
// c.After later calls on that client must fail.
func runEarly(c *Case) error {
	if c.Fail == "unmount" {
		return fmt.Errorf("harness: early case with fail %q", c.Fail)
	}
	end, lib := xport.Pair("c10early")
	ctl := sched.New(nil)
	defer sched.Install(ctl)()
	type cres struct {
		clnt *go9p.Clnt
		err  error
	}
	cch := make(chan cres, 1)
	go func() {
		cl, e := go9p.Connect(lib, offered(c), c.Dotu)
		cch <- cres{cl, e}
	}()
	frames := end.Frames()
	f, ok := await(frames)
	if !ok {
		_ = end.Close()
		return hang("peer: the Tversion of Connect did not arrive")
	}
	tv, _, err := ref9p.Decode(f, false)
	if err != nil || tv.Type != ref9p.Tversion {
		_ = end.Close()
		return fmt.Errorf("client sent a frame that is not a valid Tversion: %v", err)
	}
	go func() { // the peer takes whatever the client sends later, and answers nothing
		for range frames {
		}
	}()
	ms, ver, dotu := min(tv.Msize, c.Msize), "9P2000", false
	if tv.Version == "9P2000.u" && c.Dotu {
		ver, dotu = "9P2000.u", true
	}
	if ms < tv.Msize {
		hx.Label("Rversion lowered the msize, failure right behind it")
	} else {
		hx.Label("Rversion kept the msize, failure right behind it")
	}
	S := ref9p.Encode(&ref9p.Msg{Type: ref9p.Rversion, Tag: tv.Tag, Msize: ms, Version: ver}, false)
	cut := c.Cut
	isFault := !isConnFail(c.Fail)
	if cut < 0 || cut > len(S) || isFault {
		cut = len(S)
	}
	var cuts []int
	if c.Chunk > 0 {
		for x := c.Chunk; x < cut; x += c.Chunk {
			cuts = append(cuts, x)
		}
	}
	out := append([]byte(nil), S[:cut]...)
	if isFault {
		fb, fcuts, err := faultFrame(c, func(m *ref9p.Msg) []byte { return ref9p.Encode(m, dotu) }, 1, nil)
		if err != nil {
			return err
		}
		if !c.Joined {
			cuts = append(cuts, cut)
		}
		for _, x := range fcuts {
			cuts = append(cuts, cut+x)
		}
		out = append(out, fb...)
	}
	_ = end.WriteChunks(out, cuts)
	switch c.Fail {
	case "eof":
		end.CloseWrite()
	case "err":
		end.FailPeer(transportErr(c.ErrKind))
	}
	m, ok := await(cch)
	if !ok {
		defer end.Close()
		return hang("Connect did not return within %v after the failure (%s at byte %d of the %d of the Rversion)", deadline, c.Fail, cut, len(S))
	}
	if m.clnt != nil {
		defer m.clnt.Unmount()
	} else {
		defer end.Close()
	}
	complete := cut == len(S)
	switch {
	case m.err == nil && !complete:
		return fmt.Errorf("Connect returned success although only %d of the %d bytes of the Rversion were delivered before the failure (%s)", cut, len(S), c.Fail)
	case m.err == nil && m.clnt == nil:
		return fmt.Errorf("Connect returned neither a client nor an error")
	case m.err != nil && complete:
		return fmt.Errorf("Connect: the complete Rversion was received before the failure (%s) but it returned error %v", c.Fail, m.err)
	}
	if m.clnt == nil {
		return nil
	}
	for k := 0; k < c.After; k++ {
		ch := make(chan *result, 1)
		fid := m.clnt.FidAlloc()
		fid.Iounit = c.Msize - 24
		go func() { ch <- doCall(m.clnt, []string{"stat", "read", "write", "open"}[k%4], fid, uint64(500+k)) }()
		r, ok := await(ch)
		if !ok {
			return hang("call %d made after the failure (%s right behind the Rversion granting msize %d of the offered %d) did not return within %v", k, c.Fail, ms, tv.Msize, deadline)
		}
		if r.err == nil {
			return fmt.Errorf("call %d made after the failure (%s) returned success", k, c.Fail)
		}
	}
	return nil
}

// TestEnumEarly: every cut offset of the Rversion x {EOF, error}; every fault
// frame right behind the Rversion (same Write / next Write).
func TestEnumEarly(t *testing.T) {
	idx := 0
	L := len(ref9p.Encode(&ref9p.Msg{Type: ref9p.Rversion, Version: "9P2000.u"}, false))
	for _, mp := range msizePairs {
		for _, dotu := range []bool{false, true} {
			for _, fk := range []string{"eof", "err"} {
				for cut := 0; cut <= L; cut++ {
					idx++
					if hx.NShards > 1 && idx%hx.NShards != hx.Shard {
						continue
					}
					c := &Case{Via: "early", Dotu: dotu, Msize: mp[0], Offer: mp[1], Cut: cut, Chunk: []int{0, 1, 5}[cut%3], Fail: fk, After: 1 + cut%2}
					rotateErr(c, idx)
					if err := execute("early", c); err != nil {
						hx.Violation("early", c, err.Error())
						t.Fatalf("%v", err)
					}
				}
			}
			for _, a := range append([]uint32{0}, announceSizes(mp[0], mp[1])...) {
				fl := announceFaults
				if a == 0 {
					fl = faults
				}
				for _, fk := range fl {
					for _, joined := range []bool{true, false} {
						idx++
						if hx.NShards > 1 && idx%hx.NShards != hx.Shard {
							continue
						}
						c := &Case{Via: "early", Dotu: dotu, Msize: mp[0], Offer: mp[1], Cut: -1, Chunk: []int{0, 0, 7}[idx%3], Joined: joined, Fail: fk, Announce: a, After: 2}
						if err := execute("early", c); err != nil {
							hx.Violation("early", c, err.Error())
							t.Fatalf("%v", err)
						}
					}
				}
			}
		}
	}
	hx.Exhaustive("Connect x negotiated/offered msize (4 pairs) x 2 dialects x {every cut offset of the Rversion x {EOF, error}; fault frames (older table, announced sizes) right behind the Rversion in the same Write / the next Write}")
}
