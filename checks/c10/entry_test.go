package c10

import (
	"errors"
	"fmt"
	"os"
	"runtime"
	"strconv"
	"sync"
	"sync/atomic"
	"testing"
	"time"

	"github.com/rminnich/go9p"
	"verif/internal/hx"
	"verif/internal/peer"
	"verif/internal/ref9p"
	"verif/internal/sched"
)

func envInt(k string, d int) int {
	if v, err := strconv.Atoi(os.Getenv(k)); err == nil {
		return v
	}
	return d
}

var xDeadline = time.Duration(envInt("X_DEADLINE_MS", 25000)) * time.Millisecond

// entryPerturber: schedule perturbation at the client hook points.
func entryPerturber(seed uint64) func(who, point string) {
	var n uint64
	return func(who, point string) {
		k := atomic.AddUint64(&n, 1)
		x := hx.Mix(seed, k)
		switch x % 8 {
		case 0, 1, 2:
			runtime.Gosched()
		case 3:
			time.Sleep(time.Duration(1+(x>>8)%20) * time.Microsecond)
		}
	}
}

// runEntry: c.Callers goroutines enter Rpc at the moment the connection fails; c.Rounds rounds.
func runEntry(c *Case) error {
	if c.Procs > 0 {
		old := runtime.GOMAXPROCS(c.Procs)
		defer runtime.GOMAXPROCS(old)
	}
	if c.Perturb != 0 && os.Getenv("X_NOHOOK") == "" {
		ctl := sched.New(nil)
		ctl.Record = false
		ctl.Perturb = entryPerturber(c.Perturb)
		defer sched.Install(ctl)()
	}
	for r := 0; r < c.Rounds; r++ {
		if err := entryRound(c, r); err != nil {
			if h, ok := err.(hangErr); ok {
				return hangErr(fmt.Sprintf("round %d: %s", r, string(h)))
			}
			return fmt.Errorf("round %d: %v", r, err)
		}
	}
	return nil
}

func spin(n uint64) uint64 {
	var x uint64 = 1
	for i := uint64(0); i < n; i++ {
		x = x*6364136223846793005 + 1442695040888963407
	}
	return x
}

var sink uint64

func entryRound(c *Case, round int) error {
	p := peer.New("c10entry", c.Msize, true)
	p.Start(false)
	clnt, err := go9p.Connect(p.Lib, c.Msize, c.Dotu)
	if err != nil {
		return fmt.Errorf("Connect: %v", err)
	}
	defer clnt.Unmount()
	x := hx.Mix(c.Perturb, uint64(round), 77)
	stopPeer := make(chan struct{})
	peerDone := make(chan struct{})
	if c.Mode != "silent" {
		go func() { // the peer answers everything until told to stop
			defer close(peerDone)
			for {
				select {
				case <-stopPeer:
					return
				default:
				}
				r, ok := p.Next(time.Millisecond)
				if !ok {
					return
				}
				if r == nil || r.Err != nil {
					continue
				}
				_ = p.Write(p.Encode(peer.Answer(r.Msg)), nil)
			}
		}()
	} else {
		close(peerDone)
	}
	gate := make(chan struct{})
	var wg sync.WaitGroup
	var bad atomic.Value
	var entered int64
	for i := 0; i < c.Callers; i++ {
		wg.Add(1)
		go func(i int) {
			defer wg.Done()
			f := clnt.FidAlloc()
			f.Iounit = c.Msize - 24
			d := hx.Mix(x, uint64(i)) % uint64(1+c.Spread)
			<-gate
			sink += spin(d)
			errs := 0
			for k := 0; k < 4000 && errs < 2; k++ {
				atomic.AddInt64(&entered, 1)
				r := doCall(clnt, []string{"stat", "read", "write"}[(i+k)%3], f, uint64(i*100000+k))
				if r.err != nil {
					errs++
				} else if err := checkSuccess(r); err != nil {
					bad.Store(fmt.Errorf("caller %d: %v", i, err))
					return
				}
			}
		}(i)
	}
	delay := hx.Mix(x, 999) % uint64(1+c.Cut)
	failed := make(chan struct{})
	go func() {
		<-gate
		sink += spin(delay)
		switch c.Fail {
		case "eof":
			p.End.CloseWrite()
		case "err":
			p.End.FailPeer(errors.New("injected transport error"))
		case "unmount":
			clnt.Unmount()
		case "badtype":
			_ = p.Write([]byte{7, 0, 0, 0, 99, 1, 0}, nil)
		case "size3":
			_ = p.Write([]byte{3, 0, 0, 0, ref9p.Rclunk, 1, 0}, nil)
		case "unknowntag":
			_ = p.Write(p.Encode(&ref9p.Msg{Type: ref9p.Rclunk, Tag: 0x7777}), nil)
		}
		close(failed)
	}()
	close(gate)
	<-failed
	close(stopPeer)
	done := make(chan struct{})
	go func() { wg.Wait(); close(done) }()
	select {
	case <-done:
	case <-time.After(xDeadline):
		out, _ := clnt.VerifCounts()
		return hangErr(fmt.Sprintf("%d callers entering Rpc while the connection failed (%s) did not all return within %v (entered %d; %d requests on the client's pending list)", c.Callers, c.Fail, xDeadline, atomic.LoadInt64(&entered), out))
	}
	hx.ExtraAdd("entry_calls", atomic.LoadInt64(&entered))
	if e, _ := bad.Load().(error); e != nil {
		return e
	}
	return nil
}

func TestXEntry(t *testing.T) {
	c := &Case{Dotu: true, Msize: 512, Fail: os.Getenv("X_FAIL"), Calls: []string{"entry"}, Callers: envInt("X_CALLERS", 48), Rounds: envInt("X_ROUNDS", 20000),
		Mode: os.Getenv("X_MODE"), Perturb: uint64(envInt("X_PERTURB", 0)), Procs: envInt("X_PROCS", 0), Cut: envInt("X_CUT", 20000), Spread: envInt("X_SPREAD", 0)}
	if c.Fail == "" {
		c.Fail = "eof"
	}
	t0 := time.Now()
	err := runEntry(c)
	t.Logf("elapsed %v err=%v", time.Since(t0), err)
	if err != nil {
		t.Fatalf("FOUND")
	}
}
