package c10

// Entry storm: MANY callers are entering Rpc at the very moment the
// connection fails, round after round on fresh connections. What a caller
// does between "is the client still alive?" and "my request is on the pending
// list" contains no schedule point, so the interleaving table cannot place a
// caller there; contention on the client's lock can (a caller parked on the
// lock while the receiver runs its whole shutdown sequence). Every call must
// return.

import (
	"fmt"
	"runtime"
	"sync"
	"sync/atomic"
	"testing"
	"time"

	"github.com/rminnich/go9p"
	"pgregory.net/rapid"
	"verif/internal/hx"
	"verif/internal/peer"
	"verif/internal/ref9p"
	"verif/internal/sched"
	"verif/internal/xport"
)

var entryFails = []string{"eof", "err", "unmount", "badtype", "size3", "oversize-hdr", "unknowntag"}

// entryPerturber yields / sleeps at the client hook points, as a pure
// function of the drawn seed and the number of the hook call.
func entryPerturber(seed uint64) func(who, point string) {
	var n uint64
	return func(who, point string) {
		k := atomic.AddUint64(&n, 1)
		x := hx.Mix(seed, k)
		switch x % 8 {
		case 0, 1, 2:
			runtime.Gosched()
		case 3:
			time.Sleep(time.Duration(1+(x>>8)%20) * time.Microsecond)
		}
	}
}

// spin burns n iterations: delays far below the timer resolution.
func spin(n uint64) uint64 {
	var x uint64 = 1
	for i := uint64(0); i < n; i++ {
		x = x*6364136223846793005 + 1442695040888963407
	}
	return x
}

var spinSink atomic.Uint64

// entryMaxIn: the largest number of calls inside Rpc at the injection of a failure, over the shard.
var entryMaxIn int64

// runEntry runs c.Rounds rounds; in each, c.Callers goroutines start calling
// on a fresh connection at a starting gun and the connection is failed a
// moment (0..c.Cut spin iterations, a function of c.Perturb and the round)
// after the same gun.
func runEntry(c *Case) error {
	if c.Callers < 1 || c.Callers > 256 || c.Rounds < 1 {
		return fmt.Errorf("harness: entry storm with %d callers, %d rounds", c.Callers, c.Rounds)
	}
	if c.Procs > 0 {
		old := runtime.GOMAXPROCS(c.Procs)
		defer runtime.GOMAXPROCS(old)
	}
	if c.Hook {
		ctl := sched.New(nil)
		ctl.Record = false
		ctl.Perturb = entryPerturber(c.Perturb)
		defer sched.Install(ctl)()
	}
	maxIn := int64(0)
	defer func() {
		entryMaxIn = max(entryMaxIn, maxIn)
		hx.Extra("max_entry_inflight", entryMaxIn)
		hx.ExtraAdd("entry_rounds", int64(c.Rounds))
		switch {
		case maxIn == 0:
			hx.Label("entry in Rpc at the failure: 0")
		case maxIn < 16:
			hx.Label("entry in Rpc at the failure: 1-15")
		default:
			hx.Label("entry in Rpc at the failure: 16+")
		}
		if maxIn >= 1 {
			hx.NonTrivial("entry", c.Dotu, c.Msize, c.Fail, c.Callers, c.Rounds, c.Mode, c.Perturb, c.Hook, c.Procs, c.Cut, c.Spread, c.After, c.Via, c.ErrKind)
		}
	}()
	for r := 0; r < c.Rounds; r++ {
		in, err := entryRound(c, r)
		if in > maxIn {
			maxIn = in
		}
		if err != nil {
			if h, ok := err.(*hangErr); ok {
				return &hangErr{fmt.Sprintf("round %d: %s", r, h.msg), h.blocked}
			}
			return fmt.Errorf("round %d: %v", r, err)
		}
	}
	return nil
}

func entryRound(c *Case, round int) (inAtFailure int64, err error) {
	// a lean peer (the scripted one allocates a 2^17-slot queue per connection):
	// strict decoding of every request, Rversion by itself, then the matching
	// answer to everything until the failure is injected (mode "answer") or
	// to nothing at all (mode "silent")
	end, lib := xport.Pair("c10entry")
	var quiet atomic.Bool
	var undecodable atomic.Value
	go func() {
		dotu := false
		for f := range end.Frames() {
			m, _, err := ref9p.Decode(f, dotu)
			if err != nil {
				undecodable.Store(fmt.Errorf("client sent a frame that does not decode: %v", err))
				continue
			}
			if m.Type == ref9p.Tversion {
				ms, ver := min(m.Msize, c.Msize), "9P2000"
				if m.Version == "9P2000.u" {
					ver, dotu = "9P2000.u", true
				}
				_, _ = end.Write(ref9p.Encode(&ref9p.Msg{Type: ref9p.Rversion, Tag: m.Tag, Msize: ms, Version: ver}, false))
				continue
			}
			// (a Tattach is sent only by MountConn, while the client is being made)
			if m.Type != ref9p.Tattach && (c.Mode != "answer" || quiet.Load()) {
				continue
			}
			_, _ = end.Write(ref9p.Encode(peer.Answer(m), dotu))
		}
	}()
	var clnt *go9p.Clnt
	if c.Via == "mounted" {
		// (MountConn always asks for 9P2000.u, and this peer grants what is asked)
		if c.Msize < 64 || !c.Dotu {
			return 0, fmt.Errorf("harness: entry storm on a mounted client with msize %d, dotu %v", c.Msize, c.Dotu)
		}
		type mres struct {
			clnt *go9p.Clnt
			err  error
		}
		mch := make(chan mres, 1)
		go func() {
			cl, e := go9p.MountConn(lib, "c10", c.Msize-go9p.IOHDRSZ, go9p.OsUsers.Uid2User(0))
			mch <- mres{cl, e}
		}()
		m, ok := await(mch)
		if !ok {
			return 0, hang("MountConn did not return within %v against a peer that answers Tversion and Tattach", deadline)
		}
		if m.err != nil || m.clnt == nil || m.clnt.Root == nil {
			_ = lib.Close()
			return 0, fmt.Errorf("MountConn: %v", m.err)
		}
		clnt = m.clnt
	} else {
		var err error
		if clnt, err = go9p.Connect(lib, c.Msize, c.Dotu); err != nil {
			_ = lib.Close()
			return 0, fmt.Errorf("Connect: %v", err)
		}
	}
	defer tidyUnmount(clnt)
	x := hx.Mix(c.Perturb, uint64(round), 77)
	gate := make(chan struct{})
	var wg sync.WaitGroup
	var bad atomic.Value
	var calls, inflight int64
	for i := 0; i < c.Callers; i++ {
		wg.Add(1)
		go func(i int) {
			defer wg.Done()
			f := clnt.FidAlloc()
			f.Iounit = c.Msize - 24
			stagger := hx.Mix(x, uint64(i)) % uint64(1+c.Spread)
			<-gate
			spinSink.Add(spin(stagger))
			errs := 0
			for k := 0; k < 4000 && errs <= c.After; k++ {
				atomic.AddInt64(&inflight, 1)
				r := doCall(clnt, []string{"stat", "read", "write"}[(i+k)%3], f, uint64(i*100000+k))
				atomic.AddInt64(&inflight, -1)
				atomic.AddInt64(&calls, 1)
				switch {
				case r.err != nil:
					errs++
				case c.Mode != "answer":
					bad.Store(fmt.Errorf("caller %d: a %s call returned success although the peer sent no reply at all", i, r.kind))
					return
				case errs > 0:
					bad.Store(fmt.Errorf("caller %d: a %s call made after an earlier call had failed with the connection (%s) returned success", i, r.kind, c.Fail))
					return
				default:
					if err := checkSuccess(r); err != nil {
						bad.Store(fmt.Errorf("caller %d: %v", i, err))
						return
					}
				}
			}
		}(i)
	}
	delay := hx.Mix(x, 999) % uint64(1+c.Cut)
	failed := make(chan struct{})
	unmounted := make(chan struct{})
	go func() {
		<-gate
		spinSink.Add(spin(delay))
		inAtFailure = atomic.LoadInt64(&inflight)
		quiet.Store(true)
		switch c.Fail {
		case "eof":
			end.CloseWrite()
		case "err":
			end.FailPeer(transportErr(c.ErrKind))
		case "unmount":
			go func() { clnt.Unmount(); close(unmounted) }()
		case "badtype":
			_, _ = end.Write([]byte{7, 0, 0, 0, 99, 1, 0})
		case "size3":
			_, _ = end.Write([]byte{3, 0, 0, 0, ref9p.Rclunk, 1, 0, 0, 0, 0, 0})
		case "oversize-hdr":
			b := []byte{0, 0, 0, 0, ref9p.Rread, 1, 0}
			b[0], b[1], b[2] = byte(8*c.Msize+1), byte((8*c.Msize+1)>>8), byte((8*c.Msize+1)>>16)
			_, _ = end.Write(b)
		case "unknowntag":
			_, _ = end.Write(ref9p.Encode(&ref9p.Msg{Type: ref9p.Rclunk, Tag: 0x7777}, c.Dotu))
		}
		close(failed)
	}()
	close(gate)
	<-failed
	if c.Fail == "unmount" {
		if _, ok := await(unmounted); !ok {
			return inAtFailure, hang("Unmount did not return within %v (client made by %s, %d callers entering Rpc, %d calls in Rpc when it was called; from then on the peer answers nothing)", deadline, madeBy(c), c.Callers, inAtFailure)
		}
	}
	done := make(chan struct{})
	go func() { wg.Wait(); close(done) }()
	if _, ok := await(done); !ok {
		return inAtFailure, hang("%d callers were entering Rpc when the connection failed (%s; %d calls in Rpc at that moment, %d calls returned so far): not all of them returned within %v", c.Callers, c.Fail, inAtFailure, atomic.LoadInt64(&calls), deadline)
	}
	hx.ExtraAdd("entry_calls", atomic.LoadInt64(&calls))
	if e, _ := bad.Load().(error); e != nil {
		return inAtFailure, e
	}
	if e, _ := undecodable.Load().(error); e != nil {
		return inAtFailure, e
	}
	// one more call, after everything has settled
	ch := make(chan *result, 1)
	go func() { ch <- doCall(clnt, "stat", clnt.FidAlloc(), 0) }()
	r, ok := await(ch)
	if !ok {
		return inAtFailure, hang("a call made after the failure (%s) and after all concurrent callers had returned did not return within %v", c.Fail, deadline)
	}
	if r.err == nil {
		return inAtFailure, fmt.Errorf("a call made after the failure (%s) returned success", c.Fail)
	}
	return inAtFailure, nil
}

// TestPropEntryStorm: drawn entry storms. A schedule-dependent failure is not
// shrunk (a smaller case that passes once proves nothing): the first failing
// case is the replay file.
func TestPropEntryStorm(t *testing.T) {
	var failed error
	// (in a sub-test: the parent is failed below, after the violation has been recorded with its case)
	t.Run("draw", func(t *testing.T) { entryDraw(t, &failed) })
	if failed != nil {
		t.Fatalf("%v", failed)
	}
}

func entryDraw(t *testing.T, failedp *error) {
	hx.Check(t, "entrystorm", hx.N(30, 250), func(t *rapid.T) {
		c := &Case{Calls: []string{"entry"},
			Dotu:  rapid.Bool().Draw(t, "dotu"),
			Msize: rapid.SampledFrom([]uint32{256, 512, 8192}).Draw(t, "msize"),
			Fail:  rapid.SampledFrom(entryFails).Draw(t, "fail"),
			// 16..64, the larger crowds more often
			Callers: max(rapid.IntRange(16, 64).Draw(t, "callers"), rapid.IntRange(16, 64).Draw(t, "callers2")),
			Rounds:  hx.N(50, 40),
			Mode:    rapid.SampledFrom([]string{"answer", "answer", "answer", "silent"}).Draw(t, "mode"),
			Perturb: rapid.Uint64().Draw(t, "perturb"),
			Hook:    rapid.SampledFrom([]bool{false, false, true}).Draw(t, "hook"),
			Procs:   rapid.SampledFrom([]int{0, 0, 0, 0, 4, 8}).Draw(t, "procs"),
			Cut:     rapid.SampledFrom([]int{0, 20000, 200000, 1000000}).Draw(t, "cut"),
			Spread:  rapid.SampledFrom([]int{0, 0, 0, 2000}).Draw(t, "spread"),
			After:   rapid.IntRange(1, 3).Draw(t, "after"),
		}
		// one storm in three runs on a client made by MountConn (it has a Root fid)
		if rapid.IntRange(0, 2).Draw(t, "mounted") == 0 {
			c.Via, c.Dotu = "mounted", true
		}
		if c.Fail == "err" {
			c.ErrKind = rapid.SampledFrom(errKinds).Draw(t, "errkind")
		}
		if *failedp != nil {
			return
		}
		if err := execute("entrystorm", c); err != nil {
			*failedp = err
			hx.Violation("entrystorm", c, err.Error())
		}
	})
}
