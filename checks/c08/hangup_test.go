// C08, third executor ("hangup"): the thing that is blocked or slow inside the
// implementation is not a request handler but the teardown of a connection whose
// client hung up while it still owned fids - the ConnClosed callback and the FidDestroy
// of every fid it left behind. Requests on the OTHER connections (and a connection
// dialled meanwhile) must be answered while that teardown dwells in the implementation.
package c08

import (
	"bytes"
	"encoding/json"
	"fmt"
	"strings"
	"sync"
	"testing"
	"time"

	"github.com/rminnich/go9p"
	"pgregory.net/rapid"
	"verif/internal/hx"
	"verif/internal/rawc"
	"verif/internal/ref9p"
	"verif/internal/script"
)

// HFid: a fid the hanging-up connection owns besides its root. Kind is the last
// request made on it (it is answered before the hang-up); HoldDestroy: the
// implementation's FidDestroy of this fid blocks until released.
type HFid struct {
	Kind        string `json:"kind"`
	HoldDestroy bool   `json:"holddestroy,omitempty"`
}

type HClose struct {
	// How the connection ends: "eof" (the client closes), "badsize" (a frame size
	// below 7), "badtype" (a frame with an unknown type): the last two make the
	// server itself drop the connection
	How            string `json:"how"`
	HoldConnClosed bool   `json:"holdconnclosed,omitempty"` // the ConnClosed callback blocks until released
	HoldRoot       bool   `json:"holdroot,omitempty"`       // FidDestroy of the root fid (made by Tattach) blocks
	Fids           []HFid `json:"fids,omitempty"`
	// Parked: kind of a request of this connection that is still parked inside the
	// implementation (on a fid of its own) when the client hangs up; "" = none
	Parked string `json:"parked,omitempty"`
}

type HCase struct {
	Dotu    bool     `json:"dotu"`
	Maxpend int      `json:"maxpend"`
	NSurv   int      `json:"nsurv"`   // connections that stay
	Closing []HClose `json:"closing"` // connections whose client hangs up
	// Held / Free: as in Case, on the staying connections only. Held requests are
	// parked before the hang-up, Free ones are issued while the teardown is parked.
	Held []ReqSpec `json:"held,omitempty"`
	Free []ReqSpec `json:"free"`
	// Fresh: a connection dialled while the teardown is parked: Tversion, Tattach and
	// then this many requests (stat, walk, open, read, ... of its root / a walked fid)
	Fresh    int  `json:"fresh"`
	NoFresh  bool `json:"nofresh,omitempty"`
	OneChunk bool `json:"onechunk"`
	// HoldConnOpened: one more connection is being set up meanwhile: the
	// implementation's ConnOpened callback for it blocks until released (last slot)
	HoldConnOpened bool `json:"holdconnopened,omitempty"`
	// Release: order in which the parked things are let go; slots are numbered
	// closing connection by closing connection (ConnClosed, root, fids, parked
	// request: those that are held), then Held, then the parked ConnOpened
	Release []int `json:"release"`
}

// hangOps: the scripted implementation with a ConnClosed that can be parked.
type ccHooks struct {
	mu      sync.Mutex
	gate    map[string]chan struct{}
	entered map[string]chan struct{}
}

type hangOps struct {
	script.OpsPlain
	h *ccHooks
}

func (o hangOps) ConnClosed(c *go9p.Conn) {
	o.h.mu.Lock()
	g, e := o.h.gate[c.Id], o.h.entered[c.Id]
	o.h.mu.Unlock()
	if e != nil {
		close(e)
	}
	if g != nil {
		<-g
	}
	o.OpsPlain.ConnClosed(c)
}

func (o hangOps) ConnOpened(c *go9p.Conn) {
	o.OpsPlain.ConnOpened(c)
	o.h.mu.Lock()
	g, e := o.h.gate["open:"+c.Id], o.h.entered["open:"+c.Id]
	o.h.mu.Unlock()
	if e != nil {
		close(e)
	}
	if g != nil {
		<-g
	}
}

func (h *ccHooks) hold(id string) {
	h.mu.Lock()
	h.gate[id], h.entered[id] = make(chan struct{}), make(chan struct{})
	h.mu.Unlock()
}

func (h *ccHooks) release(id string) {
	h.mu.Lock()
	g := h.gate[id]
	delete(h.gate, id)
	h.mu.Unlock()
	if g != nil {
		close(g)
	}
}

func (h *ccHooks) releaseAll() {
	h.mu.Lock()
	gs := h.gate
	h.gate = map[string]chan struct{}{}
	h.mu.Unlock()
	for _, g := range gs {
		close(g)
	}
}

var hangLogOnce sync.Once
var hangLog *go9p.Logger

func newHangServer(c *HCase) (*script.Server, *ccHooks) {
	s := script.New()
	hangLogOnce.Do(func() { hangLog = go9p.NewLogger(256) })
	h := &ccHooks{gate: map[string]chan struct{}{}, entered: map[string]chan struct{}{}}
	srv := &go9p.Srv{Msize: 8192, Dotu: c.Dotu, Maxpend: c.Maxpend, Upool: script.Users{}, Id: "script-hangup", Log: hangLog}
	if !srv.Start(hangOps{script.OpsPlain{S: s}, h}) {
		panic("c08: Srv.Start refused the ops value")
	}
	return &script.Server{Srv: srv, S: s}, h
}

var touchKinds = []string{"stat", "read", "write", "open", "walk", "wstat", "create"}

func okKind(k string, set []string) bool {
	for _, s := range set {
		if s == k {
			return true
		}
	}
	return false
}

// hslot: one parked thing of a hangup case
type hslot struct {
	connClosed string // connection id, or
	key        string // behaviour key
}

func runHangup(c *HCase) error {
	if c.NSurv < 1 || len(c.Closing) < 1 {
		return fmt.Errorf("harness: hangup case without staying or closing connection")
	}
	sv, hooks := newHangServer(c)
	S := sv.S
	defer S.ReleaseAll()
	defer hooks.releaseAll()
	ver := "9P2000"
	if c.Dotu {
		ver = "9P2000.u"
	}
	fidOf := func(conn, idx int) uint32 { return uint32(100 + 10000*conn + 2*idx) }
	var all []*rawc.C
	defer func() {
		for _, cl := range all {
			cl.Close()
		}
	}()
	// session: Tversion + Tattach of fid 0 (aname unique per connection)
	session := func(cl *rawc.C, aname string, rootBehav *script.Behav) (string, error) {
		if r, err := cl.Version(8192, ver); err != nil || r.Type != ref9p.Rversion {
			return "", fmt.Errorf("Tversion: %v %+v", err, r)
		}
		m := &ref9p.Msg{Type: ref9p.Tattach, Fid: 0, Afid: ref9p.NOFID, Uname: "alice", Aname: aname, Nuname: 1001}
		key := script.Key(ref9p.Canon(m, c.Dotu))
		if rootBehav != nil {
			S.Set(key, *rootBehav)
		}
		if r, err := cl.RPC(m); err != nil || r.Type != ref9p.Rattach {
			return "", fmt.Errorf("Tattach: %v %+v", err, r)
		}
		return key, nil
	}
	// prepare makes the fid a request of this kind needs and returns the request
	prepare := func(cl *rawc.C, kind string, fid uint32) (*ref9p.Msg, error) {
		m, pn, po := build(kind, fid)
		if m == nil {
			return nil, fmt.Errorf("harness: kind %q", kind)
		}
		if pn != "" {
			r, err := cl.Walk(0, fid, pn)
			if err != nil || r.Type != ref9p.Rwalk || len(r.Wqid) != 1 {
				return nil, fmt.Errorf("prologue: walk: %v %+v", err, r)
			}
			if po >= 0 {
				if r, err = cl.Open(fid, uint8(po)); err != nil || r.Type != ref9p.Ropen {
					return nil, fmt.Errorf("prologue: open: %v %+v", err, r)
				}
			}
		}
		return m, nil
	}
	// the staying connections
	var cls []*rawc.C
	for i := 0; i < c.NSurv; i++ {
		cl := rawc.New(sv.Dial(fmt.Sprintf("c08h-%d", i)))
		all = append(all, cl)
		if _, err := session(cl, fmt.Sprintf("root%d", i), nil); err != nil {
			return fmt.Errorf("prologue: %v", err)
		}
		cls = append(cls, cl)
	}
	// the connections that will hang up, and what they leave behind
	var slots []hslot
	type closing struct {
		cl        *rawc.C
		id        string
		heldKeys  []string // requests whose fid's FidDestroy is held
		anyHeld   bool
		parkedKey string
	}
	var gone []*closing
	for j, hc := range c.Closing {
		conn := c.NSurv + j
		name := fmt.Sprintf("c08h-gone%d", j)
		g := &closing{cl: rawc.New(sv.Dial(name)), id: script.ConnID(name)}
		all = append(all, g.cl)
		gone = append(gone, g)
		if hc.HoldConnClosed {
			hooks.hold(g.id)
			slots = append(slots, hslot{connClosed: g.id})
			g.anyHeld = true
		}
		var rb *script.Behav
		if hc.HoldRoot {
			rb = &script.Behav{HoldDestroy: true}
		}
		rootKey, err := session(g.cl, fmt.Sprintf("gone%d", j), rb)
		if err != nil {
			return fmt.Errorf("prologue: %v", err)
		}
		if hc.HoldRoot {
			slots = append(slots, hslot{key: rootKey})
			g.heldKeys = append(g.heldKeys, rootKey)
			g.anyHeld = true
		}
		for k, f := range hc.Fids {
			if !okKind(f.Kind, touchKinds) {
				return fmt.Errorf("harness: fid kind %q", f.Kind)
			}
			m, err := prepare(g.cl, f.Kind, fidOf(conn, k))
			if err != nil {
				return err
			}
			key := script.Key(ref9p.Canon(m, c.Dotu))
			S.Set(key, script.Behav{HoldDestroy: f.HoldDestroy})
			if r, err := g.cl.RPC(m); err != nil || r.Type != m.Type+1 {
				return fmt.Errorf("prologue: %s on the connection that will hang up: %v %+v", key, err, r)
			}
			if f.HoldDestroy {
				slots = append(slots, hslot{key: key})
				g.heldKeys = append(g.heldKeys, key)
				g.anyHeld = true
			}
		}
		if hc.Parked != "" {
			m, err := prepare(g.cl, hc.Parked, fidOf(conn, 50))
			if err != nil {
				return err
			}
			m.Tag = 77
			g.parkedKey = script.Key(ref9p.Canon(m, c.Dotu))
			S.Set(g.parkedKey, script.Behav{Hold: true})
			_ = g.cl.Send(m)
			if !S.WaitEntered(g.parkedKey, deadline) {
				return hangH("request %s of a connection that will hang up never reached the implementation", g.parkedKey)
			}
			slots = append(slots, hslot{key: g.parkedKey})
		}
	}
	// requests of the staying connections
	mk := func(rs ReqSpec, idx int, held bool) (*item, error) {
		conn := rs.Conn % c.NSurv
		if isAuthKind(rs.Kind) {
			return nil, fmt.Errorf("harness: kind %q in a hangup case", rs.Kind)
		}
		m, err := prepare(cls[conn], rs.Kind, fidOf(conn, idx))
		if err != nil {
			return nil, err
		}
		m.Tag = rs.Tag
		it := &item{spec: rs, msg: m, held: held}
		cm := ref9p.Canon(m, c.Dotu)
		it.key = script.Key(cm)
		b := script.Behav{Hold: held, Async: rs.Async}
		if rs.Err {
			b.Err, b.Ecode = "scripted failure", 5
		}
		var a *ref9p.Msg
		if m.Type == ref9p.Tflush {
			a = &ref9p.Msg{Type: ref9p.Rflush}
		} else {
			S.Set(it.key, b)
			a = script.ExpectedAnswer(cm, b, ftype(rs.Kind))
		}
		am := *a
		am.Tag = rs.Tag
		it.want = ref9p.Encode(&am, c.Dotu)
		return it, nil
	}
	var B, F []*item
	for i, rs := range c.Held {
		it, err := mk(rs, i, true)
		if err != nil {
			return err
		}
		if it.msg.Type == ref9p.Tflush {
			return fmt.Errorf("harness: a Tflush cannot be held")
		}
		B = append(B, it)
		slots = append(slots, hslot{key: it.key})
	}
	for i, rs := range c.Free {
		it, err := mk(rs, 100+i, false)
		if err != nil {
			return err
		}
		F = append(F, it)
	}
	logStart := len(S.Log())
	// 1. the held set of the staying connections
	for _, it := range B {
		_ = cls[it.spec.Conn%c.NSurv].Send(it.msg)
	}
	for _, it := range B {
		if !S.WaitEntered(it.key, deadline) {
			return hangH("held request %s never reached the implementation", it.key)
		}
	}
	// 1b. a connection whose set-up dwells in the implementation's ConnOpened
	openingDone := make(chan error, 1)
	if c.HoldConnOpened {
		oid := "open:" + script.ConnID("c08h-opening")
		hooks.hold(oid)
		slots = append(slots, hslot{connClosed: oid})
		go func() {
			cl := rawc.New(sv.Dial("c08h-opening")) // returns once ConnOpened has been released
			defer cl.Close()
			cl.Timeout = deadline
			r, err := cl.Version(8192, ver)
			if err == nil && r.Type != ref9p.Rversion {
				err = fmt.Errorf("answered %s", ref9p.TypeName(r.Type))
			}
			openingDone <- err
		}()
		hooks.mu.Lock()
		e := hooks.entered[oid]
		hooks.mu.Unlock()
		select {
		case <-e:
		case <-time.After(deadline):
			return hangH("ConnOpened was never called for a new connection")
		}
	} else {
		openingDone <- nil
	}
	// 2. the clients hang up; wait until each teardown is inside the callback that is
	// held (ConnClosed comes first; otherwise the first held FidDestroy the library
	// gets to). Polling the log only arranges the history.
	for j, g := range gone {
		switch c.Closing[j].How {
		case "eof":
			g.cl.Close()
		case "badsize":
			_ = g.cl.SendRaw([]byte{3, 0, 0, 0})
		case "badtype":
			_ = g.cl.SendRaw([]byte{7, 0, 0, 0, 0xF0, 5, 0})
		default:
			return fmt.Errorf("harness: how %q", c.Closing[j].How)
		}
	}
	destroyEntered := func(id string) bool {
		for _, e := range S.Log() {
			if e.Kind == "fiddestroy-enter" && e.Conn == id {
				return true
			}
		}
		return false
	}
	// (a second connection that hung up is given a second to get there too: whether one
	// teardown may wait for another is not what the statement is about, and no verdict
	// depends on it - the requests below are issued in either case)
	inTeardown := func(j int) bool {
		g := gone[j]
		if c.Closing[j].HoldConnClosed {
			hooks.mu.Lock()
			e := hooks.entered[g.id]
			hooks.mu.Unlock()
			select {
			case <-e:
				return true
			default:
				return false
			}
		}
		return destroyEntered(g.id)
	}
	var waitFor []int
	for j, g := range gone {
		if g.anyHeld {
			waitFor = append(waitFor, j)
		}
	}
	if len(waitFor) > 0 {
		t0 := time.Now()
		first := -1
		for first < 0 {
			for _, j := range waitFor {
				if inTeardown(j) {
					first = j
					break
				}
			}
			if first < 0 {
				if c.HoldConnOpened && time.Since(t0) > 3*time.Second {
					// (whether a teardown may wait for another connection's set-up is
					// not the statement's business: go on, the replies decide)
					hx.ExtraAdd("hangup_teardown_not_parked_in_time", 1)
					break
				}
				if time.Since(t0) > deadline {
					return hangH("%d connection(s) hung up owning fids and neither ConnClosed nor FidDestroy was called for any of them", len(waitFor))
				}
				time.Sleep(200 * time.Microsecond)
			}
		}
		t0 = time.Now()
		for _, j := range waitFor {
			for first >= 0 && !inTeardown(j) && time.Since(t0) < time.Second {
				time.Sleep(200 * time.Microsecond)
			}
			if !inTeardown(j) {
				hx.ExtraAdd("hangup_second_teardown_not_yet_parked", 1)
			}
		}
	}
	// 3. while the teardown dwells in the implementation: the others, and a new connection
	type freshRes struct {
		n   int
		err error
	}
	isTimeout := func(err error) bool { return err != nil && strings.Contains(err.Error(), rawc.ErrTimeout.Error()) }
	freshDone := make(chan freshRes, 1)
	freshKinds := []string{"stat", "walk", "open", "read", "create", "wstat", "clunk"}
	if !c.NoFresh {
		// (the fids are prepared by the new connection itself, inside the window)
		go func() {
			conn := c.NSurv + len(c.Closing)
			cl := rawc.New(sv.Dial("c08h-fresh")) // NewConn: must not wait for the teardown either
			cl.Timeout = deadline
			defer cl.Close()
			if _, err := session(cl, "fresh", nil); err != nil {
				freshDone <- freshRes{0, fmt.Errorf("a connection dialled meanwhile: %v", err)}
				return
			}
			for i := 0; i < c.Fresh; i++ {
				kind := freshKinds[i%len(freshKinds)]
				m, err := prepare(cl, kind, fidOf(conn, i))
				if err != nil {
					freshDone <- freshRes{i, fmt.Errorf("a connection dialled meanwhile: %v", err)}
					return
				}
				cm := ref9p.Canon(m, c.Dotu)
				want := script.ExpectedAnswer(cm, script.Behav{}, ftype(kind))
				r, err := cl.RPC(m)
				if err != nil {
					freshDone <- freshRes{i, fmt.Errorf("a connection dialled meanwhile: %s: %v", script.Key(cm), err)}
					return
				}
				want.Tag = r.Tag
				if !bytes.Equal(ref9p.Encode(r, c.Dotu), ref9p.Encode(want, c.Dotu)) {
					freshDone <- freshRes{i, fmt.Errorf("a connection dialled meanwhile: reply to %s is not what the implementation produces: %+v", script.Key(cm), r)}
					return
				}
			}
			freshDone <- freshRes{c.Fresh, nil}
		}()
	} else {
		freshDone <- freshRes{}
	}
	blockedTag := map[[2]int]bool{}
	for _, it := range B {
		blockedTag[[2]int{it.spec.Conn % c.NSurv, int(it.spec.Tag)}] = true
	}
	perConn := make([][]byte, c.NSurv)
	for _, it := range F {
		conn := it.spec.Conn % c.NSurv
		b := ref9p.Encode(it.msg, c.Dotu)
		if c.OneChunk {
			perConn[conn] = append(perConn[conn], b...)
		} else {
			_ = cls[conn].SendRaw(b)
		}
	}
	if c.OneChunk {
		for i, b := range perConn {
			if len(b) > 0 {
				_ = cls[i].SendRaw(b)
			}
		}
	}
	queues := map[[2]int][]*item{}
	needNow, needAll, gotConn := make([]int, c.NSurv), make([]int, c.NSurv), make([]int, c.NSurv)
	expectNow := 0
	for _, it := range B {
		k := [2]int{it.spec.Conn % c.NSurv, int(it.spec.Tag)}
		queues[k] = append(queues[k], it)
		needAll[k[0]]++
	}
	for _, it := range F {
		k := [2]int{it.spec.Conn % c.NSurv, int(it.spec.Tag)}
		queues[k] = append(queues[k], it)
		needAll[k[0]]++
		if !blockedTag[k] {
			expectNow++
			needNow[k[0]]++
		}
	}
	got := 0
	take := func(conn int, f []byte) error {
		m, _, err := ref9p.Decode(f, c.Dotu)
		if err != nil {
			return fmt.Errorf("conn %d: frame does not decode: %v", conn, err)
		}
		k := [2]int{conn, int(m.Tag)}
		q := queues[k]
		if len(q) == 0 {
			return fmt.Errorf("conn %d: reply %s for tag %d with no outstanding request", conn, ref9p.TypeName(m.Type), m.Tag)
		}
		e := q[0]
		queues[k] = q[1:]
		gotConn[conn]++
		if !bytes.Equal(f, e.want) {
			for _, o := range q[1:] {
				if bytes.Equal(f, o.want) {
					return fmt.Errorf("conn %d tag %d: requests sharing a tag were answered out of arrival order: got the reply to %s while %s is still unanswered", conn, m.Tag, o.key, e.key)
				}
			}
			return fmt.Errorf("conn %d tag %d: reply to %s is not what the implementation produces:\n got  %x\n want %x", conn, m.Tag, e.key, f, e.want)
		}
		got++
		return nil
	}
	collect := func(need []int, total int, what func() error) error {
		t0 := time.Now()
		for got < total {
			progress := false
			for i, cl := range cls {
				for gotConn[i] < need[i] {
					f, err := cl.RecvRaw(50 * time.Millisecond)
					if err == rawc.ErrTimeout {
						break
					}
					if err != nil {
						return fmt.Errorf("conn %d ended: %v", i, err)
					}
					progress = true
					if err := take(i, f); err != nil {
						return err
					}
				}
			}
			if !progress && time.Since(t0) > deadline {
				return what()
			}
			if progress {
				t0 = time.Now()
			}
		}
		return nil
	}
	parkedWhat := fmt.Sprintf("the teardown of %d connection(s) that hung up is parked inside ConnClosed / FidDestroy", len(gone))
	if c.HoldConnOpened {
		parkedWhat += " and the set-up of a new connection is parked inside ConnOpened"
	}
	if err := collect(needNow, expectNow, func() error {
		return hangH("only %d of %d requests on the other connections were answered while %s", got, expectNow, parkedWhat)
	}); err != nil {
		return err
	}
	select {
	case fr := <-freshDone:
		if isTimeout(fr.err) {
			return hangH("%v (after %d of its requests) while %s", fr.err, fr.n, parkedWhat)
		}
		if fr.err != nil {
			return fr.err
		}
	case <-time.After(deadline + 5*time.Second):
		// (its own RPCs give up after the deadline; this is the dial itself)
		return hangH("a connection dialled while %s was not set up / answered", parkedWhat)
	}
	for _, it := range B {
		k := [2]int{it.spec.Conn % c.NSurv, int(it.spec.Tag)}
		if len(queues[k]) == 0 || queues[k][0] != it {
			return fmt.Errorf("held request %s was answered while held", it.key)
		}
	}
	hx.ExtraAdd("answered_while_teardown_held", int64(got))
	// 4. release in the drawn order; everything must finish
	for _, i := range c.Release {
		if i >= 0 && i < len(slots) {
			if slots[i].connClosed != "" {
				hooks.release(slots[i].connClosed)
			} else {
				S.Release(slots[i].key)
			}
		}
	}
	hooks.releaseAll()
	S.ReleaseAll()
	if err := collect(needAll, len(B)+len(F), func() error {
		return hangH("only %d of %d requests were answered after everything was released", got, len(B)+len(F))
	}); err != nil {
		return err
	}
	select {
	case err := <-openingDone:
		if isTimeout(err) {
			return hangH("the connection whose ConnOpened was parked and released: Tversion: %v", err)
		}
		if err != nil {
			return fmt.Errorf("the connection whose ConnOpened was parked and released: Tversion: %v", err)
		}
	case <-time.After(deadline + 5*time.Second):
		return hangH("the connection whose ConnOpened was parked and released was never set up")
	}
	// the held destroys are made (liveness only: what else the teardown owes is C06's business)
	incOf := map[string]int{}
	for _, e := range S.Log() {
		if e.Kind == "enter" {
			incOf[e.Key] = e.Inc
		}
	}
	_ = logStart
	for _, g := range gone {
		for _, key := range g.heldKeys {
			inc, ok := incOf[key]
			if !ok {
				return fmt.Errorf("harness: %s never entered", key)
			}
			t0 := time.Now()
			for {
				done := false
				for _, e := range S.Log() {
					if e.Kind == "fiddestroy" && e.Inc == inc {
						done = true
					}
				}
				if done {
					break
				}
				if time.Since(t0) > deadline {
					return hangH("the FidDestroy of the fid of %s (connection %s, hung up) was released and never finished", key, g.id)
				}
				time.Sleep(200 * time.Microsecond)
			}
		}
	}
	return nil
}

// hangH: a deadline passed in a hangup case. Only a goroutine whose innermost frame
// is inside go9p is a culprit here: the reader goroutine of the connection that
// hung up is, by construction, parked in the scripted ConnClosed / FidDestroy (that
// is the premise, not a finding), so readersNotReading is not consulted.
func hangH(format string, args ...interface{}) error {
	return &hangErr{msg: fmt.Sprintf(format, args...), blocked: hx.BlockedInGo9p()}
}

func classifyHangup(c *HCase) bool {
	held, cc := 0, 0
	for _, hc := range c.Closing {
		if hc.HoldConnClosed {
			cc++
		}
		if hc.HoldRoot {
			held++
		}
		for _, f := range hc.Fids {
			if f.HoldDestroy {
				held++
			}
		}
	}
	if held > 2 {
		held = 2
	}
	hx.Label(fmt.Sprintf("hangup: closing=%d held-connclosed=%d held-destroys=%d(2=more) held-connopened=%v fresh=%v", len(c.Closing), cc, held, c.HoldConnOpened, !c.NoFresh))
	return (held > 0 || cc > 0 || c.HoldConnOpened) && (len(c.Free) > 0 || !c.NoFresh)
}

func executeHangup(test string, c *HCase) error {
	if hangs >= 3 || culpritHangs >= 3 {
		return nil
	}
	hx.Journal(test, c)
	hx.Eval()
	if classifyHangup(c) {
		b, _ := json.Marshal(c)
		hx.NonTrivial(b)
	}
	hx.Sample(test, c)
	err := runHangup(c)
	if h, ok := err.(*hangErr); ok {
		if h.blocked != "" {
			culpritHangs++
			return fmt.Errorf("%s; goroutines blocked inside go9p:\n%s", h.msg, h.blocked)
		}
		hangs++
		hx.Inconclusive(h.msg)
		return nil
	}
	return err
}

func genHangup(t *rapid.T) *HCase {
	c := &HCase{Dotu: rapid.Bool().Draw(t, "dotu"), Maxpend: rapid.SampledFrom([]int{0, 2, 16}).Draw(t, "maxpend"),
		NSurv: rapid.IntRange(1, 3).Draw(t, "nsurv"), OneChunk: rapid.Bool().Draw(t, "onechunk")}
	nslots := 0
	nc := rapid.IntRange(1, 2).Draw(t, "nclosing")
	for j := 0; j < nc; j++ {
		hc := HClose{How: rapid.SampledFrom([]string{"eof", "eof", "badsize", "badtype"}).Draw(t, "how")}
		hc.HoldConnClosed = rapid.IntRange(0, 3).Draw(t, "holdconnclosed") == 0
		hc.HoldRoot = rapid.IntRange(0, 3).Draw(t, "holdroot") == 0
		nf := rapid.IntRange(0, 3).Draw(t, "nfids")
		for k := 0; k < nf; k++ {
			hc.Fids = append(hc.Fids, HFid{Kind: rapid.SampledFrom(touchKinds).Draw(t, "fkind"), HoldDestroy: rapid.Bool().Draw(t, "holddestroy")})
		}
		if rapid.IntRange(0, 3).Draw(t, "parked") == 0 {
			hc.Parked = rapid.SampledFrom(touchKinds).Draw(t, "pkind")
		}
		c.Closing = append(c.Closing, hc)
	}
	// the first closing connection always leaves something that dwells
	h0 := &c.Closing[0]
	any := h0.HoldConnClosed || h0.HoldRoot
	for _, f := range h0.Fids {
		any = any || f.HoldDestroy
	}
	if !any {
		if len(h0.Fids) > 0 && rapid.Bool().Draw(t, "forcefid") {
			h0.Fids[rapid.IntRange(0, len(h0.Fids)-1).Draw(t, "which")].HoldDestroy = true
		} else {
			h0.HoldRoot = true
		}
	}
	for _, hc := range c.Closing {
		if hc.HoldConnClosed {
			nslots++
		}
		if hc.HoldRoot {
			nslots++
		}
		for _, f := range hc.Fids {
			if f.HoldDestroy {
				nslots++
			}
		}
		if hc.Parked != "" {
			nslots++
		}
	}
	used := map[[2]int]bool{}
	tag := func(conn int) uint16 {
		for {
			tg := genTag(t)
			if !used[[2]int{conn, int(tg)}] {
				used[[2]int{conn, int(tg)}] = true
				return tg
			}
		}
	}
	fk := []string{"walk", "open", "create", "read", "write", "stat", "wstat", "clunk", "remove", "attach"}
	nb := rapid.IntRange(0, 2).Draw(t, "nheld")
	for i := 0; i < nb; i++ {
		conn := rapid.IntRange(0, c.NSurv-1).Draw(t, "conn")
		c.Held = append(c.Held, ReqSpec{Conn: conn, Kind: rapid.SampledFrom(fk).Draw(t, "kind"), Tag: tag(conn)})
	}
	nslots += nb
	nf := rapid.IntRange(0, 8).Draw(t, "nfree")
	for i := 0; i < nf; i++ {
		conn := rapid.IntRange(0, c.NSurv-1).Draw(t, "conn")
		c.Free = append(c.Free, ReqSpec{Conn: conn, Kind: rapid.SampledFrom(kinds).Draw(t, "kind"), Tag: tag(conn), Async: rapid.Bool().Draw(t, "async"), Err: rapid.IntRange(0, 4).Draw(t, "err") == 0})
	}
	if rapid.Bool().Draw(t, "group") {
		conn := rapid.IntRange(0, c.NSurv-1).Draw(t, "gconn")
		tg := tag(conn)
		n := rapid.IntRange(2, 4).Draw(t, "gsize")
		var members []ReqSpec
		for i := 0; i < n; i++ {
			members = append(members, ReqSpec{Conn: conn, Kind: rapid.SampledFrom(fk).Draw(t, "gkind"), Tag: tg, Async: rapid.Bool().Draw(t, "gasync")})
		}
		pos := rapid.IntRange(0, len(c.Free)).Draw(t, "gpos")
		c.Free = append(c.Free[:pos:pos], append(members, c.Free[pos:]...)...)
	}
	c.NoFresh = rapid.IntRange(0, 2).Draw(t, "nofresh") == 0 && len(c.Free) > 0
	if !c.NoFresh {
		c.Fresh = rapid.IntRange(0, 5).Draw(t, "fresh")
	}
	if rapid.IntRange(0, 3).Draw(t, "holdconnopened") == 0 {
		c.HoldConnOpened = true
		nslots++
	}
	c.Release = rapid.Permutation(seq(nslots)).Draw(t, "release")
	return c
}

func TestPropHangup(t *testing.T) {
	hx.Check(t, "hangup", hx.N(150, 3000), func(t *rapid.T) {
		c := genHangup(t)
		if err := executeHangup("hangup", c); err != nil {
			hx.Failf(t, "hangup", c, "%v", err)
		}
	})
}

// TestEnumHangup: which callback of the teardown dwells x how the connection ended x
// 1..2 staying connections, each with a request on every kind of fid use, plus a
// connection dialled meanwhile.
func TestEnumHangup(t *testing.T) {
	idx := 0
	what := []string{"connclosed", "root", "fid", "fid-of-three", "root+parked", "root+connopened"}
	for _, w := range what {
		for _, how := range []string{"eof", "badsize", "badtype"} {
			for nsurv := 1; nsurv <= 2; nsurv++ {
				idx++
				if hx.NShards > 1 && idx%hx.NShards != hx.Shard {
					continue
				}
				hc := HClose{How: how}
				switch w {
				case "connclosed":
					hc.HoldConnClosed = true
					hc.Fids = []HFid{{Kind: "stat"}}
				case "root":
					hc.HoldRoot = true
				case "fid":
					hc.Fids = []HFid{{Kind: touchKinds[idx%len(touchKinds)], HoldDestroy: true}}
				case "fid-of-three":
					hc.Fids = []HFid{{Kind: "read"}, {Kind: touchKinds[idx%len(touchKinds)], HoldDestroy: true}, {Kind: "walk"}}
				case "root+parked":
					hc.HoldRoot = true
					hc.Parked = "read"
				case "root+connopened":
					hc.HoldRoot = true
				}
				c := &HCase{HoldConnOpened: w == "root+connopened", Dotu: idx%2 == 0, Maxpend: []int{0, 2, 16}[idx%3], NSurv: nsurv, Closing: []HClose{hc}, Fresh: 4, OneChunk: idx%4 < 2}
				fk := []string{"stat", "walk", "read", "open", "write", "create", "wstat", "clunk", "remove", "attach", "flushunknown"}
				for conn := 0; conn < nsurv; conn++ {
					for i, k := range fk {
						c.Free = append(c.Free, ReqSpec{Conn: conn, Kind: k, Tag: uint16(10 + i), Async: (i+idx)%3 == 0})
					}
				}
				c.Release = seq(3)
				if err := executeHangup("hangupenum", c); err != nil {
					hx.Violation("hangupenum", c, err.Error())
					t.Fatalf("%v", err)
				}
			}
		}
	}
	hx.Exhaustive("hang-up table: held callback in {ConnClosed, FidDestroy of the root, of the only fid, of one fid of three, of the root with a request still parked, of the root with another connection's ConnOpened parked too} x connection ended by {client EOF, frame size < 7, unknown message type} x 1..2 staying connections each issuing one request of every kind, plus a connection dialled meanwhile")
}
