// C08, second executor: histories as a sequence of steps (send a request / release a
// held one), with Tflush requests waiting for a held target among the shared-tag groups
// and, optionally, a Tversion in mid-session after which groups re-use the tags of the
// requests the Tversion found outstanding.
package c08

import (
	"bytes"
	"encoding/json"
	"fmt"
	"runtime"
	"sort"
	"strings"
	"testing"
	"time"

	"pgregory.net/rapid"
	"verif/internal/hx"
	"verif/internal/rawc"
	"verif/internal/ref9p"
	"verif/internal/sched"
	"verif/internal/script"
)

// Item is one request of the (current) session.
type Item struct {
	Conn  int    `json:"conn"`
	Kind  string `json:"kind"` // a kind of build(), or "flush"
	Tag   uint16 `json:"tag"`
	Async bool   `json:"async,omitempty"`
	Err   bool   `json:"err,omitempty"`
	Hold  bool   `json:"hold,omitempty"` // parks inside the implementation until its "rel" step
	// Target (kind flush): 1 + index of the item its oldtag names: an earlier item of the
	// same connection that is held under a tag nothing else uses; 0 = a tag nobody uses
	Target int `json:"target,omitempty"`
}

// Step: "send" item Idx / "rel" (release held item Idx) / "relold" (release Old[Idx]).
type Step struct {
	Op  string `json:"op"`
	Idx int    `json:"idx"`
}

type SCase struct {
	Dotu    bool `json:"dotu"`
	Maxpend int  `json:"maxpend"`
	NConn   int  `json:"nconn"`
	Flush   int  `json:"flush"` // script.FlushAbsent (0) or script.FlushIgnore (2)
	// Reversion: the requests of Old are issued first; the first one of a (conn, tag) is
	// parked inside the implementation, later ones queue behind it; then every
	// connection sends a Tversion (the old ones are never answered) and the session of
	// Items begins, on fids of its own.
	Reversion bool      `json:"reversion,omitempty"`
	Old       []ReqSpec `json:"old,omitempty"`
	Items     []Item    `json:"items"`
	Steps     []Step    `json:"steps"`
}

const prologueTag = 0x6000 // (genTag never draws 0x6000..0x7FFF)

// nestedProcess: goroutines that are parked, at the same place in two dumps two seconds
// apart, with a (*SrvReq).process frame INSIDE a (*SrvReq).Respond frame: the library
// executes a request in the completion path of another one, and whatever that Respond
// still has to do (answer the Tflushes that waited for the request) waits for the
// implementation.
func nestedProcess() string {
	first := nestedStacks()
	if len(first) == 0 {
		return ""
	}
	time.Sleep(2 * time.Second)
	second := nestedStacks()
	var ids []string
	for id, a := range first {
		if b, ok := second[id]; ok && frames(a) == frames(b) {
			ids = append(ids, id)
		}
	}
	sort.Strings(ids)
	var out []string
	for _, id := range ids {
		out = append(out, "(a request is executed inside another request's Respond) "+second[id])
	}
	return strings.Join(out, "\n\n")
}

func nestedStacks() map[string]string {
	buf := make([]byte, 1<<24)
	n := runtime.Stack(buf, true)
	out := map[string]string{}
	for _, blk := range strings.Split(string(buf[:n]), "\n\n") {
		head, _, _ := strings.Cut(blk, "\n")
		if !strings.HasPrefix(head, "goroutine ") || strings.Contains(head, "[running") || strings.Contains(head, "[runnable") {
			continue
		}
		proc, nested := false, false
		for _, l := range strings.Split(blk, "\n")[1:] {
			if strings.HasPrefix(l, "github.com/rminnich/go9p.(*SrvReq).process(") {
				proc = true
			}
			if proc && strings.HasPrefix(l, "github.com/rminnich/go9p.(*SrvReq).Respond(") {
				nested = true
			}
		}
		if nested {
			gid, _, _ := strings.Cut(strings.TrimPrefix(head, "goroutine "), " ")
			out[gid] = blk
		}
	}
	return out
}

func hang2(format string, args ...interface{}) error {
	h := hang(format, args...).(*hangErr)
	if h.blocked == "" {
		h.blocked = nestedProcess()
	}
	return h
}

type sitem struct {
	spec     Item
	msg      *ref9p.Msg
	key      string
	want     []byte
	sent     bool
	released bool
	answered bool
}

func runSteps(c *SCase) error {
	if c.NConn < 1 || (c.Flush != script.FlushAbsent && c.Flush != script.FlushIgnore) {
		return fmt.Errorf("harness: bad case")
	}
	sv := script.NewServer(script.Config{Msize: 8192, Dotu: c.Dotu, Maxpend: c.Maxpend, Flush: c.Flush})
	S := sv.S
	ctl := sched.New(nil)
	defer sched.Install(ctl)()
	defer S.ReleaseAll()
	ver := "9P2000"
	if c.Dotu {
		ver = "9P2000.u"
	}
	var cls []*rawc.C
	for i := 0; i < c.NConn; i++ {
		cl := rawc.New(sv.Dial(fmt.Sprintf("c08s-%d", i)))
		defer cl.Close()
		cl.Timeout = deadline
		if r, err := cl.Version(8192, ver); err != nil || r.Type != ref9p.Rversion {
			return fmt.Errorf("prologue: Tversion: %v", err)
		}
		if r, err := cl.Attach(0, ref9p.NOFID, "alice", fmt.Sprintf("root%d", i), 1001); err != nil || r.Type != ref9p.Rattach {
			return fmt.Errorf("prologue: Tattach: %v %+v", err, r)
		}
		cls = append(cls, cl)
	}
	fidOf := func(conn, idx int) uint32 { return uint32(100 + 10000*conn + 2*idx) }
	rpc := func(cl *rawc.C, m *ref9p.Msg, want uint8) error {
		m.Tag = prologueTag
		r, err := cl.RPCTag(m)
		if err != nil || r.Type != want {
			return fmt.Errorf("prologue: %s: %v %+v", ref9p.TypeName(m.Type), err, r)
		}
		return nil
	}
	prep := func(cl *rawc.C, root, fid uint32, pn string, po int) error {
		if pn == "" {
			return nil
		}
		if err := rpc(cl, &ref9p.Msg{Type: ref9p.Twalk, Fid: root, Newfid: fid, Wname: []string{pn}}, ref9p.Rwalk); err != nil {
			return err
		}
		if po >= 0 {
			return rpc(cl, &ref9p.Msg{Type: ref9p.Topen, Fid: fid, Mode: uint8(po)}, ref9p.Ropen)
		}
		return nil
	}
	// (waiting for a schedule point only arranges the history; no verdict depends on it)
	dispatched := func(key string) { ctl.WaitSeen(key, "recv.dispatch", time.Second) }

	// the old session and the Tversion that ends it
	root := uint32(0)
	oldBlocked := map[[2]int]int{} // (conn, tag) -> index in Old of the parked head
	var oldKeys []string
	if c.Reversion {
		var msgs []*ref9p.Msg
		for i, rs := range c.Old {
			conn := rs.Conn % c.NConn
			fid := fidOf(conn, i)
			m, pn, po := build(rs.Kind, fid)
			if m == nil || m.Type == ref9p.Tflush || rs.Tag == ref9p.NOTAG || rs.Tag == prologueTag {
				return fmt.Errorf("harness: old request %d", i)
			}
			if err := prep(cls[conn], 0, fid, pn, po); err != nil {
				return err
			}
			m.Tag = rs.Tag
			key := script.Key(ref9p.Canon(m, c.Dotu))
			k := [2]int{conn, int(rs.Tag)}
			_, queued := oldBlocked[k]
			if !queued {
				oldBlocked[k] = i
			}
			S.Set(key, script.Behav{Hold: !queued})
			msgs = append(msgs, m)
			oldKeys = append(oldKeys, key)
		}
		for i, m := range msgs { // the heads first: all of them parked
			if oldBlocked[[2]int{c.Old[i].Conn % c.NConn, int(m.Tag)}] == i {
				_ = cls[c.Old[i].Conn%c.NConn].Send(m)
			}
		}
		for i, m := range msgs {
			if oldBlocked[[2]int{c.Old[i].Conn % c.NConn, int(m.Tag)}] == i && !S.WaitEntered(oldKeys[i], deadline) {
				return hang2("held request %s never reached the implementation", oldKeys[i])
			}
		}
		for i, m := range msgs {
			if oldBlocked[[2]int{c.Old[i].Conn % c.NConn, int(m.Tag)}] != i {
				_ = cls[c.Old[i].Conn%c.NConn].Send(m)
				dispatched(oldKeys[i])
			}
		}
		for i, cl := range cls {
			r, err := cl.Version(8192, ver)
			if err == rawc.ErrTimeout {
				// (the statement excepts Tversion: without its reply the history cannot be
				// built, which is no verdict on the property)
				return &hangErr{msg: fmt.Sprintf("conn %d: a Tversion in mid-session was not answered while %d requests are held in the implementation", i, len(oldBlocked))}
			}
			if err != nil || r.Type != ref9p.Rversion {
				return fmt.Errorf("conn %d: Tversion in mid-session: %v %+v", i, err, r)
			}
		}
		// the new session works on fids of its own (whether the old ones survive a
		// Tversion is not this property's business)
		root = 50
		for i, cl := range cls {
			if err := rpc(cl, &ref9p.Msg{Type: ref9p.Tattach, Fid: root, Afid: ref9p.NOFID, Uname: "alice", Aname: fmt.Sprintf("again%d", i), Nuname: 1001}, ref9p.Rattach); err != nil {
				return err
			}
		}
	}

	// the items
	var its []*sitem
	tagUsers := map[[2]int]int{}
	for _, s := range c.Items {
		tagUsers[[2]int{s.Conn % c.NConn, int(s.Tag)}]++
	}
	for i, s := range c.Items {
		conn := s.Conn % c.NConn
		it := &sitem{spec: s}
		if s.Tag == prologueTag {
			return fmt.Errorf("harness: item %d: reserved tag", i)
		}
		if s.Kind == "flush" {
			old := uint16(0x7000 + i)
			if s.Target > 0 {
				k := s.Target - 1
				if k >= i || !c.Items[k].Hold || c.Items[k].Kind == "flush" || c.Items[k].Conn%c.NConn != conn {
					return fmt.Errorf("harness: item %d: bad flush target", i)
				}
				tk := [2]int{conn, int(c.Items[k].Tag)}
				if _, reused := oldBlocked[tk]; reused || tagUsers[tk] != 1 {
					return fmt.Errorf("harness: item %d: the flush target shares its tag", i)
				}
				old = c.Items[k].Tag
			}
			it.msg = &ref9p.Msg{Type: ref9p.Tflush, Tag: s.Tag, Oldtag: old}
			it.key = script.Key(it.msg)
			it.want = ref9p.Encode(&ref9p.Msg{Type: ref9p.Rflush, Tag: s.Tag}, c.Dotu)
			its = append(its, it)
			continue
		}
		fid := fidOf(conn, 200+i)
		m, pn, po := build(s.Kind, fid)
		if m == nil || m.Type == ref9p.Tflush {
			return fmt.Errorf("harness: item %d: kind %q", i, s.Kind)
		}
		if err := prep(cls[conn], root, fid, pn, po); err != nil {
			return err
		}
		m.Tag = s.Tag
		cm := ref9p.Canon(m, c.Dotu)
		it.msg, it.key = m, script.Key(cm)
		b := script.Behav{Hold: s.Hold, Async: s.Async}
		if s.Err {
			b.Err, b.Ecode = "scripted failure", 5
		}
		S.Set(it.key, b)
		am := *script.ExpectedAnswer(cm, b, ftype(s.Kind))
		am.Tag = s.Tag
		it.want = ref9p.Encode(&am, c.Dotu)
		its = append(its, it)
	}
	logStart := len(S.Log())

	// the model. An item is answered when everything sent before it under its tag on
	// its connection has been answered and (a held one) it has been released / (a
	// Tflush) the request it names has been answered. While the parked old request
	// whose tag a group re-uses has not been released, the group MAY already run (the
	// Tversion cancelled the old one) or wait for it (the old one is still executing
	// under that tag): both are accepted, the order inside the group is not affected.
	oldReleased := map[int]bool{}
	var must, may, runMust []bool
	model := func() {
		must, may, runMust = make([]bool, len(its)), make([]bool, len(its)), make([]bool, len(its))
		prevMust, prevMay := map[[2]int]bool{}, map[[2]int]bool{}
		for i, it := range its {
			if !it.sent {
				continue
			}
			k := [2]int{it.spec.Conn % c.NConn, int(it.spec.Tag)}
			pm, ok := prevMust[k]
			if !ok {
				pm = true
				if h, reused := oldBlocked[k]; reused && !oldReleased[h] {
					pm = false
				}
			}
			py, ok := prevMay[k]
			if !ok {
				py = true
			}
			cond := true
			if it.spec.Kind == "flush" {
				if it.spec.Target > 0 {
					tg := its[it.spec.Target-1]
					cond = tg.sent && tg.released
				}
			} else if it.spec.Hold {
				cond = it.released
			}
			runMust[i] = pm
			must[i], may[i] = pm && cond, py && cond
			prevMust[k], prevMay[k] = must[i], may[i]
		}
	}
	take := func(conn int, f []byte) error {
		m, _, err := ref9p.Decode(f, c.Dotu)
		if err != nil {
			return fmt.Errorf("conn %d: frame does not decode: %v", conn, err)
		}
		first := -1
		for i, it := range its {
			if it.sent && !it.answered && it.spec.Conn%c.NConn == conn && it.spec.Tag == m.Tag {
				if first < 0 {
					first = i
				} else if bytes.Equal(f, it.want) && !bytes.Equal(f, its[first].want) {
					return fmt.Errorf("conn %d tag %d: requests sharing a tag were answered out of arrival order: got the reply to %s (item %d) while %s (item %d) is still unanswered", conn, m.Tag, it.key, i, its[first].key, first)
				}
			}
		}
		if first < 0 {
			return fmt.Errorf("conn %d: reply %s for tag %d with no outstanding request of this session", conn, ref9p.TypeName(m.Type), m.Tag)
		}
		it := its[first]
		if !bytes.Equal(f, it.want) {
			return fmt.Errorf("conn %d tag %d: reply to %s is not what the implementation produces:\n got  %x\n want %x", conn, m.Tag, it.key, f, it.want)
		}
		model()
		if !may[first] {
			if it.spec.Hold && !it.released {
				return fmt.Errorf("conn %d tag %d: %s (item %d) was answered while held (or a later request under its tag, whose reply reads the same, was answered before it)", conn, m.Tag, it.key, first)
			}
			return fmt.Errorf("conn %d tag %d: %s (item %d) was answered although the request it has to wait for is not finished", conn, m.Tag, it.key, first)
		}
		it.answered = true
		return nil
	}
	// recvAll looks at what has arrived, without waiting: a zero timeout is ready at
	// once, and a select between it and a frame that is there takes either; four
	// empty-handed tries in a row mean "nothing there". (Replies that are missed here are
	// seen later; they are then judged by their order only.)
	recvAll := func() error {
		for i, cl := range cls {
			for misses := 0; misses < 4; {
				f, err := cl.RecvRaw(0)
				if err == rawc.ErrTimeout {
					misses++
					continue
				}
				if err != nil {
					return fmt.Errorf("conn %d ended: %v", i, err)
				}
				misses = 0
				if err := take(i, f); err != nil {
					return err
				}
			}
		}
		return nil
	}
	parked := func() (n int) {
		for _, it := range its {
			if it.sent && it.spec.Hold && !it.released {
				n++
			}
		}
		return n + len(oldBlocked) - len(oldReleased)
	}
	// settle: everything the model says must be answered by now is answered, every held
	// request that must be running has reached the implementation
	settle := func() error {
		t0 := time.Now()
		for {
			model()
			missing := -1
			for i, it := range its {
				if must[i] && !it.answered {
					missing = i
					break
				}
			}
			if missing < 0 {
				break
			}
			// (the reply is due on this connection; what has arrived on the others
			// meanwhile is looked at before the next release and at the end)
			conn := its[missing].spec.Conn % c.NConn
			f, err := cls[conn].RecvRaw(50 * time.Millisecond)
			if err == nil {
				if err := take(conn, f); err != nil {
					return err
				}
				t0 = time.Now()
				continue
			}
			if err != rawc.ErrTimeout {
				return fmt.Errorf("conn %d ended: %v", conn, err)
			}
			if time.Since(t0) > deadline {
				it := its[missing]
				return hang2("conn %d tag %d: %s (item %d) is not answered although nothing it has to wait for is outstanding; %d requests (other tags) are parked in the implementation", it.spec.Conn%c.NConn, it.spec.Tag, it.key, missing, parked())
			}
		}
		for i, it := range its {
			if it.sent && it.spec.Hold && !it.released && it.spec.Kind != "flush" && runMust[i] {
				if !S.WaitEntered(it.key, deadline) {
					return hang2("conn %d tag %d: %s (item %d) never reached the implementation although its predecessors are answered", it.spec.Conn%c.NConn, it.spec.Tag, it.key, i)
				}
			}
			if it.sent && !it.answered && it.spec.Kind == "flush" && runMust[i] {
				ctl.WaitSeen(it.key, "flush.linked", time.Second) // (only so that the next step finds it waiting)
			}
		}
		return nil
	}

	for _, st := range c.Steps {
		if st.Op != "send" {
			// whatever was answered so far was answered before this release
			if err := recvAll(); err != nil {
				return err
			}
		}
		switch st.Op {
		case "send":
			if st.Idx < 0 || st.Idx >= len(its) || its[st.Idx].sent {
				return fmt.Errorf("harness: bad step %+v", st)
			}
			it := its[st.Idx]
			for j := 0; j < st.Idx; j++ {
				if !its[j].sent {
					return fmt.Errorf("harness: items are sent in order")
				}
			}
			_ = cls[it.spec.Conn%c.NConn].SendRaw(ref9p.Encode(it.msg, c.Dotu))
			it.sent = true
			dispatched(it.key)
		case "rel":
			if st.Idx < 0 || st.Idx >= len(its) {
				return fmt.Errorf("harness: bad step %+v", st)
			}
			it := its[st.Idx]
			if !it.spec.Hold || it.released {
				continue
			}
			// evidence: Tflushes waiting for this request, one of them with a parked successor
			if it.sent {
				waiters, blockedSucc := 0, false
				for j, f := range its {
					if f.sent && !f.answered && f.spec.Kind == "flush" && f.spec.Target == st.Idx+1 {
						waiters++
						for _, x := range its[j+1:] {
							if x.sent && x.spec.Conn%c.NConn == f.spec.Conn%c.NConn && x.spec.Tag == f.spec.Tag && x.spec.Hold && !x.released {
								blockedSucc = true
							}
						}
					}
				}
				if waiters > 0 {
					if waiters > 3 {
						waiters = 3
					}
					hx.Label(fmt.Sprintf("steps: target released with %d Tflush waiting, blocked successor behind one=%v", waiters, blockedSucc))
				}
			}
			model()
			running := it.sent && runMust[st.Idx]
			it.released = true
			S.Release(it.key)
			if running {
				ctl.WaitSeen(it.key, "respond.unlinked", time.Second)
			}
		case "relold":
			if !c.Reversion || st.Idx < 0 || st.Idx >= len(c.Old) || oldReleased[st.Idx] {
				continue
			}
			k := [2]int{c.Old[st.Idx].Conn % c.NConn, int(c.Old[st.Idx].Tag)}
			if oldBlocked[k] != st.Idx {
				continue
			}
			for _, x := range its {
				if x.sent && !x.answered && x.spec.Conn%c.NConn == k[0] && int(x.spec.Tag) == k[1] {
					hx.Label("steps: old request released while the new session has a request outstanding under its tag")
					break
				}
			}
			oldReleased[st.Idx] = true
			S.Release(oldKeys[st.Idx])
			ctl.WaitSeen(oldKeys[st.Idx], "respond.unlinked", time.Second)
		default:
			return fmt.Errorf("harness: bad step %+v", st)
		}
		if err := settle(); err != nil {
			return err
		}
	}
	// the end: everything is released, everything sent is answered
	for _, it := range its {
		it.released = true
	}
	for _, h := range oldBlocked {
		oldReleased[h] = true
	}
	S.ReleaseAll()
	if err := settle(); err != nil {
		return err
	}
	// (a reply nobody asked for)
	if err := recvAll(); err != nil {
		return err
	}
	nAnswered := 0
	for _, it := range its {
		if it.answered {
			nAnswered++
		}
	}
	hx.ExtraAdd("steps_answered", int64(nAnswered))

	// the log: the members of a tag group are executed one at a time in arrival order;
	// nothing of the old session that the Tversion found waiting behind another request
	// is executed
	type ev struct{ enter, answer int64 }
	evs := map[string]*ev{}
	for _, e := range S.Log()[logStart:] {
		switch e.Kind {
		case "enter":
			if evs[e.Key] != nil {
				return fmt.Errorf("%s reached the implementation twice", e.Key)
			}
			evs[e.Key] = &ev{enter: e.Seq}
		case "answer":
			if evs[e.Key] != nil {
				evs[e.Key].answer = e.Seq
			}
		}
	}
	last := map[[2]int]*sitem{}
	for _, it := range its {
		if it.spec.Kind == "flush" || !it.sent {
			continue
		}
		k := [2]int{it.spec.Conn % c.NConn, int(it.spec.Tag)}
		b := evs[it.key]
		if b == nil {
			return fmt.Errorf("conn %d tag %d: %s was answered but never reached the implementation", k[0], k[1], it.key)
		}
		if p := last[k]; p != nil {
			a := evs[p.key]
			if b.enter < a.answer {
				return fmt.Errorf("conn %d tag %d: %s entered the implementation (seq %d) before %s was answered (seq %d): same-tag requests ran concurrently", k[0], k[1], it.key, b.enter, p.key, a.answer)
			}
		}
		last[k] = it
	}
	return nil
}

func classifySteps(c *SCase) bool {
	nflush, nhold, groups := 0, 0, 0
	cnt := map[[2]int]int{}
	for _, s := range c.Items {
		if s.Kind == "flush" && s.Target > 0 {
			nflush++
		}
		if s.Hold {
			nhold++
		}
		k := [2]int{s.Conn % c.NConn, int(s.Tag)}
		cnt[k]++
		if cnt[k] == 2 {
			groups++
		}
	}
	reuse := 0
	if c.Reversion {
		seen := map[[2]int]bool{}
		for _, o := range c.Old {
			k := [2]int{o.Conn % c.NConn, int(o.Tag)}
			if cnt[k] >= 2 && !seen[k] {
				reuse++
			}
			seen[k] = true
		}
	}
	if nflush > 3 {
		nflush = 3
	}
	hx.Label(fmt.Sprintf("steps: reversion=%v groups-on-cancelled-tags=%d flush-at-held=%d", c.Reversion, reuse, nflush))
	return nhold+len(c.Old) >= 1 && (groups >= 1 || nflush >= 1)
}

func executeSteps(test string, c *SCase) error {
	// (every deadline costs 20 s and more; once the process has established three times
	// that something is stuck inside go9p, further cases add nothing to the verdict)
	if hangs >= 3 || culpritHangs >= 3 {
		return nil
	}
	hx.Journal(test, c)
	hx.Eval()
	if classifySteps(c) {
		b, _ := json.Marshal(c)
		hx.NonTrivial(b)
	}
	hx.Sample(test, c)
	err := runSteps(c)
	if h, ok := err.(*hangErr); ok {
		if h.blocked != "" {
			culpritHangs++
			return fmt.Errorf("%s; goroutines blocked inside go9p:\n%s", h.msg, h.blocked)
		}
		hangs++
		hx.Inconclusive(h.msg)
		return nil
	}
	return err
}

var opKinds = []string{"walk", "open", "create", "read", "write", "stat", "wstat", "clunk", "remove", "attach"}

func genSteps(t *rapid.T) *SCase {
	c := &SCase{Dotu: rapid.Bool().Draw(t, "dotu"), Maxpend: rapid.SampledFrom([]int{0, 2, 16}).Draw(t, "maxpend"),
		NConn: rapid.IntRange(1, 2).Draw(t, "nconn"), Flush: rapid.SampledFrom([]int{script.FlushAbsent, script.FlushIgnore}).Draw(t, "flush"),
		Reversion: rapid.Bool().Draw(t, "reversion")}
	used := map[[2]int]bool{}
	tag := func(conn int, notag bool) uint16 {
		for {
			tg := genTag(t)
			if !used[[2]int{conn, int(tg)}] && (notag || tg != ref9p.NOTAG) {
				used[[2]int{conn, int(tg)}] = true
				return tg
			}
		}
	}
	kind := func() string { return rapid.SampledFrom(opKinds).Draw(t, "kind") }
	type ct struct {
		conn int
		tag  uint16
	}
	var oldTags []ct
	if c.Reversion {
		n := rapid.IntRange(1, 4).Draw(t, "nold")
		for i := 0; i < n; i++ {
			conn := rapid.IntRange(0, c.NConn-1).Draw(t, "oconn")
			o := ReqSpec{Conn: conn, Kind: kind(), Tag: tag(conn, false)}
			c.Old = append(c.Old, o)
			oldTags = append(oldTags, ct{conn, o.Tag})
			for q := rapid.IntRange(0, 3).Draw(t, "oqueued"); q >= 2; q-- { // 0..2 queued behind it, mostly none
				c.Old = append(c.Old, ReqSpec{Conn: conn, Kind: kind(), Tag: o.Tag})
			}
		}
	}
	// streams: the order inside a stream is kept, the streams are merged by draws
	var streams [][]Item
	var targets []Item // held under a tag of their own; sent first, so that a Tflush can name them
	nt := rapid.IntRange(0, 2).Draw(t, "ntargets")
	for i := 0; i < nt; i++ {
		conn := rapid.IntRange(0, c.NConn-1).Draw(t, "tconn")
		targets = append(targets, Item{Conn: conn, Kind: kind(), Tag: tag(conn, true), Hold: true, Async: rapid.Bool().Draw(t, "tasync"), Err: rapid.IntRange(0, 5).Draw(t, "terr") == 0})
	}
	member := func(conn int, tg uint16, holdOdds int) Item {
		// a Tflush waiting for one of the targets, or an ordinary request (held or not)
		var same []int
		for k, x := range targets {
			if x.Conn == conn {
				same = append(same, k)
			}
		}
		if len(same) > 0 && rapid.IntRange(0, 3).Draw(t, "mflush") == 0 {
			return Item{Conn: conn, Kind: "flush", Tag: tg, Target: 1 + rapid.SampledFrom(same).Draw(t, "mtarget")}
		}
		return Item{Conn: conn, Kind: kind(), Tag: tg, Hold: rapid.IntRange(0, holdOdds).Draw(t, "mhold") == 0, Async: rapid.Bool().Draw(t, "masync"), Err: rapid.IntRange(0, 5).Draw(t, "merr") == 0}
	}
	// shared-tag groups, on re-used tags of the old session or on fresh ones
	ng := rapid.IntRange(0, 3).Draw(t, "ngroups")
	for g := 0; g < ng; g++ {
		var conn int
		var tg uint16
		if len(oldTags) > 0 && rapid.IntRange(0, 2).Draw(t, "reuse") > 0 {
			k := rapid.IntRange(0, len(oldTags)-1).Draw(t, "oldtag")
			conn, tg = oldTags[k].conn, oldTags[k].tag
			oldTags = append(oldTags[:k:k], oldTags[k+1:]...)
		} else {
			conn = rapid.IntRange(0, c.NConn-1).Draw(t, "gconn")
			tg = tag(conn, true)
		}
		var s []Item
		for n := rapid.IntRange(2, 5).Draw(t, "gsize"); n > 0; n-- {
			s = append(s, member(conn, tg, 2))
		}
		streams = append(streams, s)
	}
	// Tflushes waiting for a target under tags of their own, with successors queued behind them
	if len(targets) > 0 {
		nf := rapid.IntRange(0, 4).Draw(t, "nflush")
		for i := 0; i < nf; i++ {
			k := rapid.IntRange(0, len(targets)-1).Draw(t, "ftarget")
			conn := targets[k].Conn
			s := []Item{{Conn: conn, Kind: "flush", Tag: tag(conn, true), Target: 1 + k}}
			if rapid.IntRange(0, 5).Draw(t, "funknown") == 0 {
				s[0].Target = 0
			}
			for n := rapid.IntRange(0, 2).Draw(t, "fsucc"); n > 0; n-- {
				s = append(s, member(conn, s[0].Tag, 1))
			}
			streams = append(streams, s)
		}
	}
	// single requests
	for n := rapid.IntRange(0, 4).Draw(t, "nfree"); n > 0; n-- {
		conn := rapid.IntRange(0, c.NConn-1).Draw(t, "fconn")
		streams = append(streams, []Item{{Conn: conn, Kind: kind(), Tag: tag(conn, true), Async: rapid.Bool().Draw(t, "fasync"), Err: rapid.IntRange(0, 4).Draw(t, "ferr") == 0}})
	}
	c.Items = append(c.Items, targets...)
	for len(streams) > 0 {
		k := rapid.IntRange(0, len(streams)-1).Draw(t, "next")
		c.Items = append(c.Items, streams[k][0])
		if streams[k] = streams[k][1:]; len(streams[k]) == 0 {
			streams = append(streams[:k], streams[k+1:]...)
		}
	}
	// the steps: the items in order, every release at a drawn place
	for i := range c.Items {
		c.Steps = append(c.Steps, Step{"send", i})
	}
	ins := func(st Step, lo int) {
		p := rapid.IntRange(lo, len(c.Steps)).Draw(t, "at")
		c.Steps = append(c.Steps[:p:p], append([]Step{st}, c.Steps[p:]...)...)
	}
	seenOld := map[[2]int]bool{}
	for i, o := range c.Old {
		if k := [2]int{o.Conn, int(o.Tag)}; !seenOld[k] {
			seenOld[k] = true
			ins(Step{"relold", i}, 0)
		}
	}
	for i, s := range c.Items {
		if s.Hold {
			ins(Step{"rel", i}, 0)
		}
	}
	return c
}

// TestEnumFlushWaiters: one request R parked in the implementation; 1..3 Tflushes (tags
// of their own, or two of them under one tag) wait for it; behind every subset of them a
// successor under the Tflush's tag, parked when executed or not; R and the successors
// released in both orders. Once R is released every Rflush is due, whatever the
// successors do.
func TestEnumFlushWaiters(t *testing.T) {
	idx := 0
	for nfl := 1; nfl <= 3; nfl++ {
		for mask := 0; mask < 1<<nfl; mask++ {
			for hold := 0; hold < 2; hold++ {
				for order := 0; order < 2; order++ {
					for pair := 0; pair < 2; pair++ {
						if (mask == 0 && hold == 1) || (pair == 1 && nfl < 2) {
							continue
						}
						idx++
						if hx.NShards > 1 && idx%hx.NShards != hx.Shard {
							continue
						}
						c := &SCase{Dotu: idx%2 == 0, Maxpend: []int{0, 2, 16}[idx%3], NConn: 1, Flush: []int{script.FlushAbsent, script.FlushIgnore}[(idx/3)%2]}
						c.Items = append(c.Items, Item{Kind: opKinds[idx%len(opKinds)], Tag: 1, Hold: true})
						for f := 0; f < nfl; f++ {
							tg := uint16(10 + f)
							if pair == 1 && f == 1 {
								tg = 10
							}
							c.Items = append(c.Items, Item{Kind: "flush", Tag: tg, Target: 1})
						}
						for f := 0; f < nfl; f++ {
							if mask&(1<<f) != 0 {
								c.Items = append(c.Items, Item{Kind: opKinds[(idx+f+1)%len(opKinds)], Tag: c.Items[1+f].Tag, Hold: hold == 1, Async: f == 1})
							}
						}
						c.Items = append(c.Items, Item{Kind: "stat", Tag: 30})
						var rels []Step
						for i, s := range c.Items {
							c.Steps = append(c.Steps, Step{"send", i})
							if s.Hold && i > 0 {
								rels = append(rels, Step{"rel", i})
							}
						}
						if order == 0 {
							c.Steps = append(append(c.Steps, Step{"rel", 0}), rels...)
						} else {
							c.Steps = append(append(c.Steps, rels...), Step{"rel", 0})
						}
						if err := executeSteps("flushwaiters", c); err != nil {
							hx.Violation("flushwaiters", c, err.Error())
							t.Fatalf("%v", err)
						}
					}
				}
			}
		}
	}
	hx.Exhaustive("Tflush waiters: 1..3 Tflushes waiting for one held request (own tags, or two under one tag) x every subset with a same-tag successor x successor parked or not x target released before / after the successors")
}

// TestEnumReversion: 1..2 requests parked; a Tversion; a group of 2..4 under the tag of
// the first of them, one member parked when executed, the members behind it sent either
// before or after the old request is released; a second group under a fresh tag.
func TestEnumReversion(t *testing.T) {
	idx := 0
	for nold := 1; nold <= 2; nold++ {
		for n := 2; n <= 4; n++ {
			for h := 0; h < n-1; h++ {
				for split := h + 1; split <= n; split++ {
					for late := 0; late < 2; late++ {
						idx++
						if hx.NShards > 1 && idx%hx.NShards != hx.Shard {
							continue
						}
						c := &SCase{Dotu: idx%2 == 0, Maxpend: []int{0, 2, 16}[idx%3], NConn: 1, Flush: []int{script.FlushAbsent, script.FlushIgnore}[(idx/3)%2], Reversion: true}
						for o := 0; o < nold; o++ {
							c.Old = append(c.Old, ReqSpec{Kind: opKinds[(idx+o)%len(opKinds)], Tag: uint16(5 + o)})
						}
						if idx%4 == 0 {
							c.Old = append(c.Old, ReqSpec{Kind: "stat", Tag: 5}) // queued behind the first one
						}
						for m := 0; m < n; m++ {
							c.Items = append(c.Items, Item{Kind: opKinds[(idx+m+2)%len(opKinds)], Tag: 5, Hold: m == h, Async: m%2 == 1})
						}
						c.Items = append(c.Items, Item{Kind: "read", Tag: 40}, Item{Kind: "stat", Tag: 40})
						for m := 0; m < split; m++ {
							c.Steps = append(c.Steps, Step{"send", m})
						}
						// late: the parked member is released only after the rest was sent
						c.Steps = append(c.Steps, Step{"relold", 0})
						if late == 0 {
							c.Steps = append(c.Steps, Step{"rel", h})
						}
						for m := split; m < len(c.Items); m++ {
							c.Steps = append(c.Steps, Step{"send", m})
						}
						if nold > 1 {
							c.Steps = append(c.Steps, Step{"relold", 1})
						}
						if late == 1 {
							c.Steps = append(c.Steps, Step{"rel", h})
						}
						if err := executeSteps("reversion", c); err != nil {
							hx.Violation("reversion", c, err.Error())
							t.Fatalf("%v", err)
						}
					}
				}
			}
		}
	}
	hx.Exhaustive("Tversion in mid-session: 1..2 requests parked x group of 2..4 under the first one's tag x which member parks x how many members are sent before the old request is released x the parked member released before / after the rest is sent")
}

func TestPropSteps(t *testing.T) {
	hx.Check(t, "steps", hx.N(400, 4000), func(t *rapid.T) {
		c := genSteps(t)
		if err := executeSteps("steps", c); err != nil {
			hx.Failf(t, "steps", c, "%v", err)
		}
	})
}
