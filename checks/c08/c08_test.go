// C08 — independent requests progress independently; shared tags run FIFO.
package c08

import (
	"bytes"
	"encoding/json"
	"fmt"
	"hash/fnv"
	"runtime"
	"sort"
	"strings"
	"testing"
	"time"

	"pgregory.net/rapid"
	"verif/internal/hx"
	"verif/internal/rawc"
	"verif/internal/ref9p"
	"verif/internal/sched"
	"verif/internal/script"
)

func TestMain(m *testing.M) { hx.Main(m, "C08") }

type ReqSpec struct {
	Conn  int    `json:"conn"`
	Kind  string `json:"kind"`
	Tag   uint16 `json:"tag"`
	Async bool   `json:"async,omitempty"`
	Err   bool   `json:"err,omitempty"`
	// HoldDestroy (held set only, kinds clunk/remove): the request is answered by the
	// implementation at once but its fid's FidDestroy blocks until released
	HoldDestroy bool `json:"holddestroy,omitempty"`
	// Target (authentication kinds only): 0 = the request names an afid of its own
	// (established in the prologue); k > 0 = it names the afid of Held[k-1], a request
	// that is at that moment parked inside AuthInit / AuthRead / AuthWrite (and it
	// travels on that request's connection)
	Target int `json:"target,omitempty"`
}

type Case struct {
	Dotu     bool         `json:"dotu"`
	Maxpend  int          `json:"maxpend"`
	NConn    int          `json:"nconn"`
	Held     []ReqSpec    `json:"held"`              // B: held inside the implementation
	Free     []ReqSpec    `json:"free"`              // issued while B is held; requests sharing a tag form a FIFO group
	Release  []int        `json:"release"`           // order in which B is released
	OneChunk bool         `json:"onechunk"`          // free requests of a connection are written in one chunk
	Stagger  string       `json:"stagger,omitempty"` // send each free request only when the previous one has reached this schedule point
	Holds    []sched.Hold `json:"holds,omitempty"`
	// Auth: the implementation also provides go9p's AuthOps; the authentication kinds
	// (authKinds) exist only then
	Auth bool `json:"auth,omitempty"`
}

const deadline = 20 * time.Second

// hangErr: a deadline passed. blocked is what was stuck inside go9p at that moment,
// i.e. while the held requests were still parked: a stall that lasts only as long as
// some request is parked in the implementation is gone once run() has released it.
type hangErr struct{ msg, blocked string }

func (h *hangErr) Error() string { return h.msg }

func hang(format string, args ...interface{}) error {
	h := &hangErr{msg: fmt.Sprintf(format, args...), blocked: hx.BlockedInGo9p()}
	if h.blocked == "" {
		h.blocked = readersNotReading()
	}
	return h
}

// readersNotReading: the stacks of connection reader goroutines (go9p's
// (*Conn).recv) that are parked anywhere but in their transport read, at the same
// place in two dumps taken two seconds apart. hx.BlockedInGo9p looks at the innermost
// frame only, so it does not see a reader that has gone into the implementation itself
// (the library ran a request on the reader goroutine) and is parked there with the
// held set: nothing that arrives on that connection behind it is read, let alone
// answered. Only a Tversion is handled on the reader, and run() sends none after the
// prologue; an idle reader waits in xport's read.
func readersNotReading() string {
	first := readerStacks()
	if len(first) == 0 {
		return ""
	}
	time.Sleep(2 * time.Second)
	second := readerStacks()
	var ids []string
	for id, a := range first {
		if b, ok := second[id]; ok && frames(a) == frames(b) {
			ids = append(ids, id)
		}
	}
	sort.Strings(ids)
	var out []string
	for _, id := range ids {
		out = append(out, "(connection reader not reading) "+second[id])
	}
	return strings.Join(out, "\n\n")
}

// frames: the function names of a stack block, without arguments and addresses.
func frames(blk string) string {
	var out []string
	for _, l := range strings.Split(blk, "\n")[1:] {
		if strings.HasPrefix(l, "\t") {
			continue
		}
		if i := strings.LastIndex(l, "("); i > 0 {
			l = l[:i]
		}
		out = append(out, l)
	}
	return strings.Join(out, "|")
}

func readerStacks() map[string]string {
	buf := make([]byte, 1<<24)
	n := runtime.Stack(buf, true)
	out := map[string]string{}
	for _, blk := range strings.Split(string(buf[:n]), "\n\n") {
		head, _, _ := strings.Cut(blk, "\n")
		if !strings.HasPrefix(head, "goroutine ") {
			continue
		}
		reader, reading := false, false
		for _, l := range strings.Split(blk, "\n")[1:] {
			// (a "created by ...(*Conn).recv" line belongs to a request's own goroutine)
			if strings.HasPrefix(l, "github.com/rminnich/go9p.(*Conn).recv(") {
				reader = true
			}
			if strings.HasPrefix(l, "verif/internal/xport.") {
				reading = true
			}
		}
		if !reader || reading || strings.Contains(head, "[running") || strings.Contains(head, "[runnable") {
			continue
		}
		gid, _, _ := strings.Cut(strings.TrimPrefix(head, "goroutine "), " ")
		out[gid] = blk
	}
	return out
}

// hangs counts deadlines without a culprit; after a few of them the remaining cases
// of the process are not run (each costs the full deadline, the verdict is
// "inconclusive" already)
var hangs int

// culpritHangs counts deadlines at which something was stuck inside go9p (violations)
var culpritHangs int

var kinds = []string{"walk", "open", "create", "read", "write", "stat", "wstat", "clunk", "remove", "attach", "flushunknown"}

func build(kind string, fid uint32) (m *ref9p.Msg, prepName string, prepOpen int) {
	name := fmt.Sprintf("%d", fid)
	switch kind {
	case "walk":
		return &ref9p.Msg{Type: ref9p.Twalk, Fid: fid, Newfid: fid + 1, Wname: []string{"d" + name, "f" + name}}, "d" + name, -1
	case "open":
		return &ref9p.Msg{Type: ref9p.Topen, Fid: fid, Mode: 2}, "f" + name, -1
	case "create":
		return &ref9p.Msg{Type: ref9p.Tcreate, Fid: fid, Name: "fnew" + name, Perm: 0o644, Mode: 1}, "d" + name, -1
	case "read":
		return &ref9p.Msg{Type: ref9p.Tread, Fid: fid, Offset: uint64(fid) << 20, Count: 64}, "f" + name, 0
	case "write":
		return &ref9p.Msg{Type: ref9p.Twrite, Fid: fid, Offset: uint64(fid) << 20, Data: script.PRF("w"+name, 40)}, "f" + name, 1
	case "stat":
		return &ref9p.Msg{Type: ref9p.Tstat, Fid: fid}, "f" + name, -1
	case "wstat":
		st := rawc.NoChangeStat()
		st.Name = "fren" + name
		return &ref9p.Msg{Type: ref9p.Twstat, Fid: fid, Stat: st}, "f" + name, -1
	case "clunk":
		return &ref9p.Msg{Type: ref9p.Tclunk, Fid: fid}, "f" + name, -1
	case "remove":
		return &ref9p.Msg{Type: ref9p.Tremove, Fid: fid}, "f" + name, -1
	case "attach":
		return &ref9p.Msg{Type: ref9p.Tattach, Fid: fid, Afid: ref9p.NOFID, Uname: "bob", Aname: "t" + name, Nuname: 1002}, "", -1
	case "flushunknown":
		return &ref9p.Msg{Type: ref9p.Tflush, Oldtag: uint16(0x7000 + fid%4096)}, "", -1
	}
	return nil, "", -1
}

// Authentication kinds. "auth" is a Tauth (AuthInit), "aread" / "awrite" a Tread /
// Twrite of an afid (AuthRead / AuthWrite), "aclunk" a Tclunk of an afid (AuthDestroy),
// "attachafid" a Tattach presenting an afid (AuthCheck, then the ordinary Attach). The
// first three can be held: they park inside the authentication callback itself.
var authHeldKinds = []string{"auth", "aread", "awrite"}
var authFreeKinds = []string{"auth", "aread", "awrite", "aclunk", "attachafid"}

func isAuthKind(k string) bool {
	for _, a := range authFreeKinds {
		if a == k {
			return true
		}
	}
	return false
}

func fnv64a(s string) uint64 {
	h := fnv.New64a()
	h.Write([]byte(s))
	return h.Sum64()
}

// buildAuth: the request of an authentication kind. fid is the item's own number
// (unique in the case), afid the authentication fid it names.
func buildAuth(kind string, fid, afid uint32) (m *ref9p.Msg, key string) {
	name := fmt.Sprintf("%d", fid)
	switch kind {
	case "auth":
		return &ref9p.Msg{Type: ref9p.Tauth, Afid: afid, Uname: "alice", Aname: "an" + name, Nuname: 1001}, "authinit/an" + name
	case "aread":
		off := uint64(fid) << 20
		return &ref9p.Msg{Type: ref9p.Tread, Fid: afid, Offset: off, Count: 64}, fmt.Sprintf("authread/%d/%d", off, 64)
	case "awrite":
		off := uint64(fid) << 20
		return &ref9p.Msg{Type: ref9p.Twrite, Fid: afid, Offset: off, Data: script.PRF("aw"+name, 40)}, fmt.Sprintf("authwrite/%d/%d", off, 40)
	case "aclunk":
		return &ref9p.Msg{Type: ref9p.Tclunk, Fid: afid}, ""
	case "attachafid":
		return &ref9p.Msg{Type: ref9p.Tattach, Fid: fid, Afid: afid, Uname: "bob", Aname: "t" + name, Nuname: 1002}, ""
	}
	return nil, ""
}

type item struct {
	spec ReqSpec
	msg  *ref9p.Msg
	key  string
	want []byte
	held bool
	// anyErr: the request names an afid whose Tauth is still inside AuthInit; the fid
	// does not exist yet, so the answer is an Rerror (its text is C04's business)
	anyErr bool
	// nolog: handled by an authentication callback, which writes no enter/answer lines
	nolog bool
}

func ftype(kind string) uint8 {
	if kind == "walk" || kind == "create" {
		return 0x80
	}
	return 0
}

func run(c *Case) error {
	sv := script.NewServer(script.Config{Msize: 8192, Dotu: c.Dotu, Maxpend: c.Maxpend, Auth: c.Auth})
	S := sv.S
	ctl := sched.New(c.Holds)
	defer sched.Install(ctl)()
	var cls []*rawc.C
	defer S.ReleaseAll()
	for i := 0; i < c.NConn; i++ {
		cl := rawc.New(sv.Dial(fmt.Sprintf("c08-%d", i)))
		defer cl.Close()
		ver := "9P2000"
		if c.Dotu {
			ver = "9P2000.u"
		}
		if r, err := cl.Version(8192, ver); err != nil || r.Type != ref9p.Rversion {
			return fmt.Errorf("prologue: Tversion: %v", err)
		}
		if r, err := cl.Attach(0, ref9p.NOFID, "alice", fmt.Sprintf("root%d", i), 1001); err != nil || r.Type != ref9p.Rattach {
			return fmt.Errorf("prologue: Tattach: %v %+v", err, r)
		}
		cls = append(cls, cl)
	}
	fidOf := func(conn, idx int) uint32 { return uint32(100 + 10000*conn + 2*idx) }
	// an authentication kind: names its own afid (fid+1, made by a Tauth in the prologue;
	// the afid of a Tauth is fid itself) or the afid of the held request Held[Target-1]
	mkAuth := func(rs ReqSpec, idx int, held bool) (*item, error) {
		if !c.Auth {
			return nil, fmt.Errorf("harness: kind %q without auth", rs.Kind)
		}
		conn := rs.Conn % c.NConn
		fid := fidOf(conn, idx)
		afid := fid + 1
		it := &item{spec: rs, held: held, nolog: rs.Kind != "attachafid"}
		switch {
		case rs.Target > 0:
			k := rs.Target - 1
			if k >= len(c.Held) || (held && k >= idx) || c.Held[k].Conn%c.NConn != conn || c.Held[k].Target != 0 || rs.Kind == "auth" {
				return nil, fmt.Errorf("harness: bad target %d", rs.Target)
			}
			switch c.Held[k].Kind {
			case "auth":
				if held {
					return nil, fmt.Errorf("harness: a request naming a pending afid cannot be held")
				}
				afid = fidOf(conn, k)
				it.anyErr = true
			case "aread", "awrite":
				afid = fidOf(conn, k) + 1
			default:
				return nil, fmt.Errorf("harness: target %d is not held in an authentication callback", rs.Target)
			}
		case rs.Kind == "auth":
			afid = fid
		default:
			r, err := cls[conn].Auth(afid, "alice", fmt.Sprintf("ap%d", fid), 1001)
			if err != nil || r.Type != ref9p.Rauth {
				return nil, fmt.Errorf("prologue: Tauth: %v %+v", err, r)
			}
		}
		m, key := buildAuth(rs.Kind, fid, afid)
		if m == nil || (held && rs.Kind == "aclunk") {
			return nil, fmt.Errorf("harness: kind %q", rs.Kind)
		}
		m.Tag = rs.Tag
		it.msg = m
		cm := ref9p.Canon(m, c.Dotu)
		b := script.Behav{Hold: held && !it.anyErr}
		if rs.Err && rs.Kind != "awrite" && rs.Kind != "aclunk" {
			b.Err, b.Ecode = "scripted failure", 5
		}
		var a *ref9p.Msg
		switch rs.Kind {
		case "auth":
			a = &ref9p.Msg{Type: ref9p.Rauth, Qid: ref9p.Qid{Type: 0x08, Vers: 0, Path: fnv64a(key)}}
		case "aread":
			a = &ref9p.Msg{Type: ref9p.Rread, Data: script.PRF(key, 64)}
		case "awrite":
			a = &ref9p.Msg{Type: ref9p.Rwrite, Count: 40}
		case "aclunk":
			a = &ref9p.Msg{Type: ref9p.Rclunk}
		case "attachafid":
			key = script.Key(cm)
			b.Async = rs.Async
			a = script.ExpectedAnswer(cm, b, 0)
		}
		if b.Err != "" {
			a = &ref9p.Msg{Type: ref9p.Rerror, Ename: b.Err, Ecode: b.Ecode}
		}
		it.key = key
		if key != "" {
			S.Set(key, b)
		}
		am := *a
		am.Tag = rs.Tag
		it.want = ref9p.Encode(&am, c.Dotu)
		return it, nil
	}
	mk := func(rs ReqSpec, idx int, held bool) (*item, error) {
		if isAuthKind(rs.Kind) {
			return mkAuth(rs, idx, held)
		}
		conn := rs.Conn % c.NConn
		fid := fidOf(conn, idx)
		m, pn, po := build(rs.Kind, fid)
		if m == nil {
			return nil, fmt.Errorf("harness: kind %q", rs.Kind)
		}
		cl := cls[conn]
		if pn != "" {
			r, err := cl.Walk(0, fid, pn)
			if err != nil || r.Type != ref9p.Rwalk || len(r.Wqid) != 1 {
				return nil, fmt.Errorf("prologue: walk: %v %+v", err, r)
			}
			if po >= 0 {
				if r, err = cl.Open(fid, uint8(po)); err != nil || r.Type != ref9p.Ropen {
					return nil, fmt.Errorf("prologue: open: %v %+v", err, r)
				}
			}
		}
		m.Tag = rs.Tag
		it := &item{spec: rs, msg: m, held: held}
		cm := ref9p.Canon(m, c.Dotu)
		it.key = script.Key(cm)
		b := script.Behav{Hold: held && !rs.HoldDestroy, HoldDestroy: held && rs.HoldDestroy, Async: rs.Async}
		if rs.Err {
			b.Err, b.Ecode = "scripted failure", 5
		}
		var a *ref9p.Msg
		if m.Type == ref9p.Tflush {
			a = &ref9p.Msg{Type: ref9p.Rflush}
		} else {
			S.Set(it.key, b)
			a = script.ExpectedAnswer(cm, b, ftype(rs.Kind))
		}
		am := *a
		am.Tag = rs.Tag
		it.want = ref9p.Encode(&am, c.Dotu)
		return it, nil
	}
	var B, F []*item
	for i, rs := range c.Held {
		it, err := mk(rs, i, true)
		if err != nil {
			return err
		}
		B = append(B, it)
	}
	for i, rs := range c.Free {
		it, err := mk(rs, 100+i, false)
		if err != nil {
			return err
		}
		F = append(F, it)
	}
	logStart := len(S.Log())
	// 1. the held set
	for _, it := range B {
		_ = cls[it.spec.Conn%c.NConn].Send(it.msg)
	}
	for _, it := range B {
		if !S.WaitEntered(it.key, deadline) {
			return hang("held request %s never reached the implementation", it.key)
		}
	}
	// 2. the others, while B is held
	blockedTag := map[[2]int]bool{} // (conn, tag) of held requests: group members behind them must wait
	for _, it := range B {
		blockedTag[[2]int{it.spec.Conn % c.NConn, int(it.spec.Tag)}] = true
	}
	perConn := make([][]byte, c.NConn)
	for i, it := range F {
		conn := it.spec.Conn % c.NConn
		b := ref9p.Encode(it.msg, c.Dotu)
		if c.Stagger != "" && i > 0 {
			ctl.WaitSeen(F[i-1].key, c.Stagger, 500*time.Millisecond)
		}
		if c.OneChunk && c.Stagger == "" {
			perConn[conn] = append(perConn[conn], b...)
		} else {
			_ = cls[conn].SendRaw(b)
		}
	}
	if c.OneChunk && c.Stagger == "" {
		for i, b := range perConn {
			if len(b) > 0 {
				_ = cls[i].SendRaw(b)
			}
		}
	}
	// expected replies per connection, in order for every tag
	type exp struct {
		it   *item
		seen bool
	}
	queues := map[[2]int][]*exp{} // (conn,tag) -> FIFO of expected replies
	var expectNow int
	// per connection: replies due while B is held / due in all / received
	needNow, needAll, gotConn := make([]int, c.NConn), make([]int, c.NConn), make([]int, c.NConn)
	for _, it := range B {
		k := [2]int{it.spec.Conn % c.NConn, int(it.spec.Tag)}
		queues[k] = append(queues[k], &exp{it: it})
		needAll[k[0]]++
	}
	for _, it := range F {
		k := [2]int{it.spec.Conn % c.NConn, int(it.spec.Tag)}
		queues[k] = append(queues[k], &exp{it: it})
		needAll[k[0]]++
		if !blockedTag[k] {
			expectNow++
			needNow[k[0]]++
		}
	}
	got := 0
	take := func(conn int, f []byte) error {
		m, _, err := ref9p.Decode(f, c.Dotu)
		if err != nil {
			return fmt.Errorf("conn %d: frame does not decode: %v", conn, err)
		}
		k := [2]int{conn, int(m.Tag)}
		q := queues[k]
		if len(q) == 0 {
			return fmt.Errorf("conn %d: reply %s for tag %d with no outstanding request", conn, ref9p.TypeName(m.Type), m.Tag)
		}
		e := q[0]
		queues[k] = q[1:]
		gotConn[conn]++
		if e.it.anyErr {
			if m.Type != ref9p.Rerror {
				return fmt.Errorf("conn %d tag %d: %s names an afid whose Tauth is still held inside AuthInit, and was answered %s", conn, m.Tag, ref9p.TypeName(e.it.msg.Type), ref9p.TypeName(m.Type))
			}
			got++
			return nil
		}
		if !bytes.Equal(f, e.it.want) {
			// out of order within a tag group, or wrong content
			for _, o := range q[1:] {
				if bytes.Equal(f, o.it.want) {
					return fmt.Errorf("conn %d tag %d: requests sharing a tag were answered out of arrival order: got the reply to %s while %s is still unanswered", conn, m.Tag, o.it.key, e.it.key)
				}
			}
			return fmt.Errorf("conn %d tag %d: reply to %s is not what the implementation produces:\n got  %x\n want %x", conn, m.Tag, e.it.key, f, e.it.want)
		}
		got++
		return nil
	}
	// wait, connection by connection, until the replies that are due have arrived (a
	// read returns as soon as a frame is there; the 50 ms only bound the wait on a
	// connection on which nothing comes, so that the others are looked at too)
	collect := func(need []int, total int, what func() error) error {
		t0 := time.Now()
		for got < total {
			progress := false
			for i, cl := range cls {
				for gotConn[i] < need[i] {
					f, err := cl.RecvRaw(50 * time.Millisecond)
					if err == rawc.ErrTimeout {
						break
					}
					if err != nil {
						return fmt.Errorf("conn %d ended: %v", i, err)
					}
					progress = true
					if err := take(i, f); err != nil {
						return err
					}
				}
			}
			if !progress && time.Since(t0) > deadline {
				return what()
			}
			if progress {
				t0 = time.Now()
			}
		}
		return nil
	}
	if err := collect(needNow, expectNow, func() error {
		return hang("only %d of %d independent requests were answered while %d requests are held in the implementation", got, expectNow, len(B))
	}); err != nil {
		return err
	}
	// nothing of B (or queued behind B) may have been answered
	for _, it := range B {
		k := [2]int{it.spec.Conn % c.NConn, int(it.spec.Tag)}
		if len(queues[k]) == 0 || queues[k][0].it != it {
			return fmt.Errorf("held request %s was answered while held", it.key)
		}
	}
	hx.ExtraAdd("answered_while_others_held", int64(got))
	// 3. release B in the drawn order
	total := len(B) + len(F)
	for _, i := range c.Release {
		if i >= 0 && i < len(B) {
			S.Release(B[i].key)
		}
	}
	S.ReleaseAll()
	if err := collect(needAll, total, func() error {
		return hang("only %d of %d requests were answered after everything was released", got, total)
	}); err != nil {
		return err
	}
	// 4. the log: members of a tag group are executed one at a time in arrival order
	type ev struct{ enter, answer int64 }
	evs := map[string]*ev{}
	for _, e := range S.Log()[logStart:] {
		switch e.Kind {
		case "enter":
			if evs[e.Key] != nil {
				return fmt.Errorf("%s reached the implementation twice", e.Key)
			}
			evs[e.Key] = &ev{enter: e.Seq}
		case "answer":
			if evs[e.Key] != nil {
				evs[e.Key].answer = e.Seq
			}
		}
	}
	groups := map[[2]int][]*item{}
	for _, it := range append(append([]*item{}, B...), F...) {
		if it.msg.Type == ref9p.Tflush {
			continue
		}
		k := [2]int{it.spec.Conn % c.NConn, int(it.spec.Tag)}
		groups[k] = append(groups[k], it)
	}
	for k, g := range groups {
		for i := 1; i < len(g); i++ {
			if g[i-1].nolog || g[i].nolog {
				continue // (the wire order of their replies was checked above)
			}
			a, b := evs[g[i-1].key], evs[g[i].key]
			if a == nil || b == nil {
				return fmt.Errorf("conn %d tag %d: a group member never reached the implementation", k[0], k[1])
			}
			if b.enter < a.answer {
				return fmt.Errorf("conn %d tag %d: %s entered the implementation (seq %d) before %s was answered (seq %d): same-tag requests ran concurrently", k[0], k[1], g[i].key, b.enter, g[i-1].key, a.answer)
			}
		}
	}
	ap, fo := ctl.Stats()
	hx.ExtraAdd("holds_applied", int64(ap))
	hx.ExtraAdd("holds_forced", int64(fo))
	return nil
}

func classify(c *Case) bool {
	nt := len(c.Held) >= 1 && len(c.Free) >= 1
	cnt := map[[2]int]int{}
	for _, r := range append(append([]ReqSpec{}, c.Held...), c.Free...) {
		if r.Kind == "flushunknown" {
			continue
		}
		k := [2]int{r.Conn % c.NConn, int(r.Tag)}
		cnt[k]++
		if cnt[k] == 3 {
			nt = true
			hx.Label("group>=3")
		}
	}
	hx.Label(fmt.Sprintf("held=%d nconn=%d maxpend=%d", len(c.Held), c.NConn, c.Maxpend))
	isB := func(tg uint16) bool { return tg <= 1 || tg >= 0xFFFE }
	hb, hn, fb := false, false, false
	for _, r := range c.Held {
		hb = hb || isB(r.Tag)
		hn = hn || r.Tag == 0xFFFF
	}
	for _, r := range c.Free {
		fb = fb || isB(r.Tag)
	}
	if len(c.Held) > 0 && len(c.Free) > 0 {
		hx.Label(fmt.Sprintf("tags: held-boundary=%v held-NOTAG=%v free-boundary=%v", hb, hn, fb))
	}
	if c.Auth {
		ha, fo := 0, 0
		for _, r := range c.Held {
			if isAuthKind(r.Kind) {
				ha++
			}
		}
		for _, r := range append(append([]ReqSpec{}, c.Held...), c.Free...) {
			if r.Target > 0 {
				fo++
			}
		}
		if fo > 3 {
			fo = 3
		}
		hx.Label(fmt.Sprintf("auth: held-in-authcallback=%d naming-a-parked-afid=%d", ha, fo))
	}
	return nt
}

func execute(test string, c *Case) error {
	if hangs >= 3 {
		return nil
	}
	hx.Journal(test, c)
	hx.Eval()
	if classify(c) {
		b, _ := json.Marshal(c)
		hx.NonTrivial(b)
	}
	hx.Sample(test, c)
	err := run(c)
	if h, ok := err.(*hangErr); ok {
		if h.blocked != "" {
			culpritHangs++
			return fmt.Errorf("%s; goroutines blocked inside go9p:\n%s", h.msg, h.blocked)
		}
		hangs++
		hx.Inconclusive(h.msg)
		return nil
	}
	return err
}

// boundaryTags: the ends of the tag space. 0xFFFF is NOTAG, the value a Tversion
// carries by convention; on any other message type it is a tag like every other one
// (the statement's only exception is the Tversion message itself).
var boundaryTags = []uint16{0, 1, 0xFFFE, 0xFFFF}

// genTag: 1 in 3 a boundary value, 1 in 6 somewhere in the top of the tag space,
// otherwise a small tag. (0x7000..0x7FFF is left to the oldtags of "flushunknown".)
func genTag(t *rapid.T) uint16 {
	switch rapid.IntRange(0, 5).Draw(t, "tagclass") {
	case 0, 1:
		return rapid.SampledFrom(boundaryTags).Draw(t, "tag")
	case 2:
		return rapid.Uint16Range(0xFF00, 0xFFFF).Draw(t, "tag")
	}
	return rapid.Uint16Range(0, 200).Draw(t, "tag")
}

func genCase(t *rapid.T) *Case {
	c := &Case{Dotu: rapid.Bool().Draw(t, "dotu"), Maxpend: rapid.SampledFrom([]int{0, 2, 16}).Draw(t, "maxpend"), NConn: rapid.IntRange(1, 3).Draw(t, "nconn"), OneChunk: rapid.Bool().Draw(t, "onechunk")}
	fk := []string{"walk", "open", "create", "read", "write", "stat", "wstat", "clunk", "remove", "attach"}
	nb := rapid.IntRange(0, 6).Draw(t, "nheld")
	used := map[[2]int]bool{}
	tag := func(conn int) uint16 {
		for {
			tg := genTag(t)
			if !used[[2]int{conn, int(tg)}] {
				used[[2]int{conn, int(tg)}] = true
				return tg
			}
		}
	}
	for i := 0; i < nb; i++ {
		conn := rapid.IntRange(0, c.NConn-1).Draw(t, "conn")
		h := ReqSpec{Conn: conn, Kind: rapid.SampledFrom(fk).Draw(t, "kind"), Tag: tag(conn)}
		if (h.Kind == "clunk" || h.Kind == "remove") && rapid.Bool().Draw(t, "holddestroy") {
			h.HoldDestroy = true
		}
		c.Held = append(c.Held, h)
	}
	// independent requests
	nf := rapid.IntRange(0, 12).Draw(t, "nfree")
	for i := 0; i < nf; i++ {
		conn := rapid.IntRange(0, c.NConn-1).Draw(t, "conn")
		c.Free = append(c.Free, ReqSpec{Conn: conn, Kind: rapid.SampledFrom(kinds).Draw(t, "kind"), Tag: tag(conn), Async: rapid.Bool().Draw(t, "async"), Err: rapid.IntRange(0, 4).Draw(t, "err") == 0})
	}
	// shared-tag groups
	ng := rapid.IntRange(0, 3).Draw(t, "ngroups")
	for g := 0; g < ng; g++ {
		conn := rapid.IntRange(0, c.NConn-1).Draw(t, "gconn")
		var tg uint16
		behindHeld := len(c.Held) > 0 && rapid.IntRange(0, 3).Draw(t, "behind") == 0
		if behindHeld {
			h := c.Held[rapid.IntRange(0, len(c.Held)-1).Draw(t, "head")]
			conn, tg = h.Conn, h.Tag
		} else {
			tg = tag(conn)
		}
		n := rapid.IntRange(2, 8).Draw(t, "gsize")
		var members []ReqSpec
		for i := 0; i < n; i++ {
			members = append(members, ReqSpec{Conn: conn, Kind: rapid.SampledFrom(fk).Draw(t, "gkind"), Tag: tg, Async: rapid.Bool().Draw(t, "gasync"), Err: rapid.IntRange(0, 5).Draw(t, "gerr") == 0})
		}
		// interleave with the other free requests at a drawn position, keeping member order
		pos := rapid.IntRange(0, len(c.Free)).Draw(t, "gpos")
		c.Free = append(c.Free[:pos:pos], append(members, c.Free[pos:]...)...)
	}
	// the implementation provides AuthOps: requests parked inside AuthInit / AuthRead /
	// AuthWrite, and requests that name their afids (or afids of their own) meanwhile
	if rapid.Bool().Draw(t, "auth") {
		c.Auth = true
		genAuth(t, c, tag)
	}
	c.Release = rapid.Permutation(seq(len(c.Held))).Draw(t, "release")
	return c
}

func genAuth(t *rapid.T, c *Case, tag func(int) uint16) {
	// held inside an authentication callback (the held set stays within 6)
	na := rapid.IntRange(0, 3).Draw(t, "nauthheld")
	var heads []int // indices (in Held) of held requests that own their afid
	for i := 0; i < na && len(c.Held) < 6; i++ {
		conn := rapid.IntRange(0, c.NConn-1).Draw(t, "aconn")
		h := ReqSpec{Conn: conn, Kind: rapid.SampledFrom(authHeldKinds).Draw(t, "akind"), Err: rapid.IntRange(0, 5).Draw(t, "aerr") == 0}
		// a second request parked on the afid of an earlier one (not of a pending afid:
		// that one is refused at once)
		var same []int
		for _, k := range heads {
			if c.Held[k].Kind != "auth" && c.Held[k].Conn == conn {
				same = append(same, k)
			}
		}
		if h.Kind != "auth" && len(same) > 0 && rapid.Bool().Draw(t, "asame") {
			h.Target = 1 + rapid.SampledFrom(same).Draw(t, "atarget")
		} else {
			heads = append(heads, len(c.Held))
		}
		h.Tag = tag(conn)
		c.Held = append(c.Held, h)
	}
	// issued while those are parked. A Tclunk of a parked afid is the only request
	// naming it (what the others would be answered depends on who comes first).
	nf := rapid.IntRange(0, 6).Draw(t, "nauthfree")
	followers := map[int]string{} // head -> "clunk" / "other"
	for i := 0; i < nf; i++ {
		r := ReqSpec{Kind: rapid.SampledFrom(authFreeKinds).Draw(t, "fakind"), Async: rapid.Bool().Draw(t, "faasync"), Err: rapid.IntRange(0, 4).Draw(t, "faerr") == 0}
		if r.Kind != "auth" && len(heads) > 0 && rapid.IntRange(0, 2).Draw(t, "fafollow") > 0 {
			k := rapid.SampledFrom(heads).Draw(t, "fahead")
			want := "other"
			if r.Kind == "aclunk" {
				want = "clunk"
			}
			pending := c.Held[k].Kind == "auth" // nothing exists to be clunked yet
			if pending || followers[k] == "" || (followers[k] == "other" && want == "other") {
				r.Target, r.Conn = k+1, c.Held[k].Conn
				if !pending {
					followers[k] = want
				}
			}
		}
		if r.Target == 0 {
			r.Conn = rapid.IntRange(0, c.NConn-1).Draw(t, "faconn")
		}
		r.Tag = tag(r.Conn)
		pos := rapid.IntRange(0, len(c.Free)).Draw(t, "fapos")
		c.Free = append(c.Free[:pos:pos], append([]ReqSpec{r}, c.Free[pos:]...)...)
	}
}

func seq(n int) []int {
	s := make([]int, n)
	for i := range s {
		s[i] = i
	}
	return s
}

var older = []string{"respond.enter", "respond.posted", "respond.queued", "respond.unlinked"}
var newer = []string{"recv.dispatch", "process.enter", "respond.queued", "send.written"}

func TestPropProgress(t *testing.T) {
	hx.Check(t, "progress", hx.N(500, 5000), func(t *rapid.T) {
		c := genCase(t)
		if err := execute("progress", c); err != nil {
			hx.Failf(t, "progress", c, "%v", err)
		}
	})
}

// groupCase: one connection, a same-tag group of n requests written in one
// chunk, none held, with one ordering constraint between consecutive members.
func groupCase(n int, dotu bool, maxpend int, h func(keys []string) []sched.Hold) *Case {
	c := &Case{Dotu: dotu, Maxpend: maxpend, NConn: 1, OneChunk: true}
	ks := []string{"read", "stat", "write", "read", "open", "read", "clunk", "read"}
	var keys []string
	for i := 0; i < n; i++ {
		c.Free = append(c.Free, ReqSpec{Conn: 0, Kind: ks[i%len(ks)], Tag: 9, Async: i%3 == 1})
		m, _, _ := build(ks[i%len(ks)], uint32(100+2*(100+i)))
		m.Tag = 9
		keys = append(keys, script.Key(ref9p.Canon(m, dotu)))
	}
	if h != nil {
		c.Holds = h(keys)
	}
	return c
}

// TestEnumHandover: the hand-over from one member of a tag group to the next
// happens inside Respond; enumerate older-member point x newer-member point x direction.
func TestEnumHandover(t *testing.T) {
	idx := 0
	reps := 3
	if hx.Thorough() {
		reps = 12
	}
	for rep := 0; rep < reps; rep++ {
		for _, op := range older {
			for _, np := range newer {
				for dir := 0; dir < 2; dir++ {
					for _, n := range []int{2, 4} {
						idx++
						if hx.NShards > 1 && idx%hx.NShards != hx.Shard {
							continue
						}
						c := groupCase(n, idx%2 == 0, []int{0, 2, 16}[idx%3], func(keys []string) []sched.Hold {
							var hs []sched.Hold
							for i := 0; i+1 < len(keys); i++ {
								if dir == 0 {
									hs = append(hs, sched.Hold{Who: keys[i], At: op, UntilWho: keys[i+1], UntilPoint: np})
								} else {
									hs = append(hs, sched.Hold{Who: keys[i+1], At: np, UntilWho: keys[i], UntilPoint: op})
								}
							}
							return hs
						})
						if err := execute("handover", c); err != nil {
							hx.Violation("handover", c, err.Error())
							t.Fatalf("%v", err)
						}
						// the same constraint with the newer member sent only once the
						// older one has reached its point (arrival inside the window)
						if dir == 0 {
							c2 := *c
							c2.Stagger = op
							if err := execute("handover", &c2); err != nil {
								hx.Violation("handover", &c2, err.Error())
								t.Fatalf("%v", err)
							}
						}
					}
				}
			}
		}
	}
	hx.Exhaustive("hand-over ordering table: older member at {respond.enter, respond.posted, respond.queued, respond.unlinked} x newer member at {recv.dispatch, process.enter, respond.queued, send.written} x 2 directions x group sizes {2,4}")
}

// TestBackToBack: a long single-tag session written in few chunks, no holds
// (the segmentation experiment that first showed out-of-order replies).
func TestBackToBack(t *testing.T) {
	n := hx.N(60, 400)
	for i := 0; i < n; i++ {
		if hx.NShards > 1 && i%hx.NShards != hx.Shard {
			continue
		}
		c := groupCase(8, i%2 == 0, []int{0, 2, 16}[i%3], nil)
		if err := execute("backtoback", c); err != nil {
			hx.Violation("backtoback", c, err.Error())
			t.Fatalf("%v", err)
		}
	}
}

// boundaryCase: held requests carrying boundary tags (the first one tag hb and kind
// hk on connection 0, on every further connection one with the next boundary value),
// and, issued while they are held, on every connection an ordinary request under each
// boundary tag that no held request of that connection carries, a shared-tag group of
// three under one of those, and a group of two queued behind the held head.
func boundaryCase(hb int, hk string, holdDestroy bool, nconn, maxpend int, dotu, oneChunk bool, rot int) *Case {
	c := &Case{Dotu: dotu, Maxpend: maxpend, NConn: nconn, OneChunk: oneChunk}
	fk := []string{"stat", "read", "walk", "write", "open", "clunk", "create", "attach", "wstat", "remove"}
	k := rot
	next := func() string { k++; return fk[k%len(fk)] }
	for conn := 0; conn < nconn; conn++ {
		h := ReqSpec{Conn: conn, Kind: hk, Tag: boundaryTags[(hb+conn)%len(boundaryTags)], HoldDestroy: holdDestroy}
		if conn > 0 {
			h.Kind, h.HoldDestroy = next(), false
		}
		c.Held = append(c.Held, h)
	}
	for conn := 0; conn < nconn; conn++ {
		held := c.Held[conn].Tag
		first := true
		for _, tg := range boundaryTags {
			if tg == held {
				continue
			}
			c.Free = append(c.Free, ReqSpec{Conn: conn, Kind: next(), Tag: tg, Async: k%3 == 0, Err: k%5 == 0})
			if first {
				// two more under the same tag: a group of three
				c.Free = append(c.Free, ReqSpec{Conn: conn, Kind: next(), Tag: tg, Async: k%3 == 0}, ReqSpec{Conn: conn, Kind: next(), Tag: tg})
				first = false
			}
		}
		c.Free = append(c.Free, ReqSpec{Conn: conn, Kind: next(), Tag: held}, ReqSpec{Conn: conn, Kind: next(), Tag: held, Async: true})
		c.Free = append(c.Free, ReqSpec{Conn: conn, Kind: "flushunknown", Tag: uint16(300 + conn)})
	}
	c.Release = seq(len(c.Held))
	if rot%2 == 1 {
		for i, j := 0, len(c.Release)-1; i < j; i, j = i+1, j-1 {
			c.Release[i], c.Release[j] = c.Release[j], c.Release[i]
		}
	}
	return c
}

// TestEnumBoundaryTags: the tag of a request is an opaque 16-bit name. Every boundary
// value of the tag space {0, 1, 0xFFFE, 0xFFFF (NOTAG)} x every kind of request that
// can be held x 1..3 connections: the request is held in the implementation under that
// tag while requests under the other boundary tags (single and as shared-tag groups)
// are issued on the same and on the other connections and must be answered.
func TestEnumBoundaryTags(t *testing.T) {
	type hk struct {
		kind string
		hd   bool
	}
	hks := []hk{{"walk", false}, {"open", false}, {"create", false}, {"read", false}, {"write", false}, {"stat", false}, {"wstat", false}, {"clunk", false}, {"remove", false}, {"attach", false}, {"clunk", true}, {"remove", true}}
	idx := 0
	for hb := range boundaryTags {
		for _, h := range hks {
			for nconn := 1; nconn <= 3; nconn++ {
				idx++
				if hx.NShards > 1 && idx%hx.NShards != hx.Shard {
					continue
				}
				mps := []int{[]int{0, 2, 16}[idx%3]}
				if hx.Thorough() {
					mps = []int{0, 2, 16}
				}
				for _, mp := range mps {
					c := boundaryCase(hb, h.kind, h.hd, nconn, mp, idx%2 == 0, idx%4 < 2, idx)
					hx.Label(fmt.Sprintf("boundary: held tag %#x", boundaryTags[hb]))
					if err := execute("boundarytags", c); err != nil {
						hx.Violation("boundarytags", c, err.Error())
						t.Fatalf("%v", err)
					}
				}
			}
		}
	}
	hx.Exhaustive("boundary tags: held tag in {0, 1, 0xFFFE, 0xFFFF} x 12 held kinds (10 message kinds, 2 with the FidDestroy held) x 1..3 connections, the other boundary tags free / grouped on every connection")
}

func TestReplay(t *testing.T) {
	e, err := hx.LoadReplay()
	if e == nil {
		t.Skip("no replay file", err)
	}
	replayEnv(t, e, 20)
}

func replayEnv(t *testing.T, e *hx.Envelope, times int) {
	if e.Test == "steps" || e.Test == "flushwaiters" || e.Test == "reversion" {
		var c SCase
		if err := json.Unmarshal(e.Case, &c); err != nil {
			t.Fatalf("bad case: %v", err)
		}
		for i := 0; i < times; i++ {
			if err := executeSteps(e.Test, &c); err != nil {
				hx.Violation(e.Test, &c, err.Error())
				t.Fatalf("%v", err)
			}
		}
		return
	}
	if e.Test == "hangup" || e.Test == "hangupenum" {
		var c HCase
		if err := json.Unmarshal(e.Case, &c); err != nil {
			t.Fatalf("bad case: %v", err)
		}
		for i := 0; i < times; i++ {
			if err := executeHangup(e.Test, &c); err != nil {
				hx.Violation(e.Test, &c, err.Error())
				t.Fatalf("%v", err)
			}
		}
		return
	}
	var c Case
	if err := json.Unmarshal(e.Case, &c); err != nil {
		t.Fatalf("bad case: %v", err)
	}
	for i := 0; i < times; i++ {
		if err := execute(e.Test, &c); err != nil {
			hx.Violation(e.Test, &c, err.Error())
			t.Fatalf("%v", err)
		}
	}
}

func TestRegress(t *testing.T) {
	for _, e := range hx.Regressions() {
		replayEnv(t, e, 3)
		hx.Label("regress")
	}
}
