// C09 — client calls get their own reply; tags distinct and recycled.
package c09

import (
	"bytes"
	"encoding/json"
	"fmt"
	"sync"
	"sync/atomic"
	"testing"
	"time"

	"github.com/rminnich/go9p"
	"pgregory.net/rapid"
	"verif/internal/hx"
	"verif/internal/peer"
	"verif/internal/ref9p"
)

func TestMain(m *testing.M) { hx.Main(m, "C09") }

type Op struct {
	Kind  string `json:"kind"` // walk, open, create, read, write, stat, wstat, clunk, remove
	Count uint32 `json:"count,omitempty"`
}

type Case struct {
	Mode     string `json:"mode"` // "calls", "volume", "tag", "mix", "burst" (mix_test.go), "lag" (lag_test.go)
	Dotu     bool   `json:"dotu"`
	Msize    uint32 `json:"msize"`
	Callers  [][]Op `json:"callers"`
	K        int    `json:"k"`      // the peer gathers up to K requests before answering
	Seed     uint64 `json:"seed"`   // derives reply kinds and answer permutations
	Chunks   string `json:"chunks"` // "frame", "one", "bytes", "cuts"
	CutEvery int    `json:"cutevery,omitempty"`
	NoKinds  bool   `json:"nokinds,omitempty"`  // all replies are matching R messages
	Volume   int    `json:"volume,omitempty"`   // mode volume: total number of calls
	Perm     []int  `json:"perm,omitempty"`     // explicit answer order for the first batch (enumeration)
	BigReads bool   `json:"bigreads,omitempty"` // every Read asks for msize-24 bytes (fills the receive buffer quickly)
	Lag      bool   `json:"lag,omitempty"`      // tag / mix mode: the consumer reads Tag completions only after all replies were written
	Sources  []Src  `json:"sources,omitempty"`  // mode mix: Tags (pipelines) and ordinary callers
	Script   []Step `json:"script,omitempty"`   // mode mix: order of issuing and answering
	NTags    int    `json:"ntags,omitempty"`    // mode burst: Tags allocated and used at the same moment as the callers' calls
	Rounds   int    `json:"rounds,omitempty"`   // mode burst: simultaneous calls per caller
	Reps     int    `json:"reps,omitempty"`     // mode burst: number of fresh clients
	ReTag    bool   `json:"retag,omitempty"`    // mode burst: every Tag is freed (TagFree) after a round and allocated again at the next gate
	Free     int    `json:"free,omitempty"`     // mode mix / burst / lag: quarters (0..4) of the Tag completions the consumer hands back with Tag.ReqFree (which ones: function of Seed)
	Caps     []int  `json:"caps,omitempty"`     // mode mix / lag: capacity of the channel handed to TagAlloc, per source (missing: the customary 16)
	Groups   []int  `json:"groups,omitempty"`   // mode lag: sizes of the successive groups of requests issued on the Tag (Sources[0]); the peer answers a group completely before the next is issued
	RpcAt    []int  `json:"rpcat,omitempty"`    // mode lag: ordinary caller Sources[1+i] makes its k-th call together with group RpcAt[i]+k (if its previous call has returned)
	Collect  int    `json:"collect,omitempty"`  // mode lag: the consumer of the Tag collects nothing until group Collect has been answered
}

const deadline = 20 * time.Second

type hangErr string

func (h hangErr) Error() string { return string(h) }

func mix(a, b uint64) uint64 { return hx.Mix(a, b) }

// replyKind: 0 matching R, 1 Rerror, 2 R of the wrong type — a function of the request content.
func replyKind(c *Case, typ uint8, fid uint32, off uint64) int {
	if c.NoKinds || typ == ref9p.Tattach {
		return 0
	}
	switch hx.Mix(c.Seed, uint64(typ), uint64(fid), off) % 10 {
	case 7, 8:
		return 1
	case 9:
		return 2
	}
	return 0
}

func errText(fid uint32, off uint64) (string, uint32) {
	return fmt.Sprintf("peer says no to %d/%d", fid, off), uint32(1 + (uint64(fid)+off)%120)
}

func writeData(fid uint32, off uint64, n int) []byte {
	return peer.PRF(fmt.Sprintf("w/%d/%d", fid, off), n)
}

// makeReply builds the peer's reply for a request.
func makeReply(c *Case, p *peer.Peer, m *ref9p.Msg) *ref9p.Msg {
	switch replyKind(c, m.Type, m.Fid, m.Offset) {
	case 1:
		t, n := errText(m.Fid, m.Offset)
		return &ref9p.Msg{Type: ref9p.Rerror, Tag: m.Tag, Ename: t, Ecode: n}
	case 2:
		wt := uint8(ref9p.Rclunk)
		if m.Type == ref9p.Tclunk {
			wt = ref9p.Rremove
		}
		return &ref9p.Msg{Type: wt, Tag: m.Tag}
	}
	return peer.Answer(m)
}

type fail struct {
	mu  sync.Mutex
	err error
	ch  chan struct{} // closed by the first set (when non-nil)
}

func (f *fail) set(format string, a ...interface{}) {
	f.mu.Lock()
	if f.err == nil {
		f.err = fmt.Errorf(format, a...)
		if f.ch != nil {
			close(f.ch)
		}
	}
	f.mu.Unlock()
}
func (f *fail) get() error { f.mu.Lock(); defer f.mu.Unlock(); return f.err }

// checkErr verifies the error a call returned against the reply kind.
func checkErr(c *Case, dotu bool, what string, err error, typ uint8, fid uint32, off uint64, f *fail) bool {
	switch replyKind(c, typ, fid, off) {
	case 0:
		if err != nil {
			f.set("%s: matching reply but the call returned error %v", what, err)
		}
		return err == nil
	case 1:
		t, n := errText(fid, off)
		e, ok := err.(*go9p.Error)
		if !ok || e == nil {
			f.set("%s: Rerror reply but the call returned %T %v", what, err, err)
			return false
		}
		if e.Err != t {
			f.set("%s: Rerror text %q, the server sent %q", what, e.Err, t)
		}
		if dotu && e.Errornum != n {
			f.set("%s: Rerror number %d, the server sent %d", what, e.Errornum, n)
		}
		return false
	default:
		if err == nil {
			f.set("%s: reply of the wrong type was returned as success", what)
		}
		return false
	}
}

func run(c *Case) error {
	if c.Mode == "burst" {
		return runBurst(c)
	}
	p := peer.New("c09", c.Msize, true)
	p.Start(false)
	clnt, err := go9p.Connect(p.Lib, c.Msize, c.Dotu)
	if err != nil {
		return fmt.Errorf("Connect: %v", err)
	}
	defer unmount(clnt)
	if clnt.Dotu != c.Dotu {
		return fmt.Errorf("Connect: dialect %v, want %v", clnt.Dotu, c.Dotu)
	}
	f := &fail{ch: make(chan struct{})}
	var pending int64 // calls issued and not yet returned (for gathering)
	var done int64
	// free tags right after Connect: the reference for "tags are recycled"
	_, free0 := clnt.VerifCounts()
	if c.Mode == "tag" {
		return runTag(c, p, clnt)
	}
	if c.Mode == "mix" {
		return runMix(c, p, clnt, free0)
	}
	if c.Mode == "lag" {
		return runLag(c, p, clnt, free0)
	}
	// ---- peer goroutine
	peerDone := make(chan struct{})
	stop := make(chan struct{})
	defer func() {
		select {
		case <-stop:
		default:
			close(stop)
		}
	}()
	var maxOutstanding int64
	nontrivOOO := int64(0)
	go func() {
		defer close(peerDone)
		batchNo := uint64(0)
		for f.get() == nil {
			// gather up to K requests: wait for the first, then until K or a quiet moment
			var batch []*peer.Req
			var r *peer.Req
			for r == nil {
				select {
				case <-stop:
					return
				default:
				}
				var ok bool
				r, ok = p.Next(2 * time.Millisecond)
				if !ok {
					return
				}
			}
			batch = append(batch, r)
			for len(batch) < c.K {
				want := int(atomic.LoadInt64(&pending))
				if len(batch) >= want && c.Mode != "volume" {
					// every caller that is in a call has been seen; wait briefly for late arrivals
					r, _ := p.Next(300 * time.Microsecond)
					if r == nil {
						break
					}
					batch = append(batch, r)
					continue
				}
				r, _ := p.Next(2 * time.Millisecond)
				if r == nil {
					break
				}
				batch = append(batch, r)
			}
			if int64(len(batch)) > maxOutstanding {
				maxOutstanding = int64(len(batch))
			}
			// checks on what the client sent
			tags := map[uint16]bool{}
			for _, r := range batch {
				if r.Err != nil {
					f.set("client sent a frame that does not decode strictly: %v: %x", r.Err, r.Raw)
					return
				}
				m := r.Msg
				if m.Tag == ref9p.NOTAG {
					f.set("client used NOTAG for %s", ref9p.TypeName(m.Type))
					return
				}
				if tags[m.Tag] {
					f.set("two outstanding requests carry tag %d", m.Tag)
					return
				}
				tags[m.Tag] = true
				if m.Type == ref9p.Twrite && !bytes.Equal(m.Data, writeData(m.Fid, m.Offset, len(m.Data))) {
					f.set("Twrite for fid %d offset %d carries another request's payload (torn packet)", m.Fid, m.Offset)
					return
				}
			}
			// answer in a permutation derived from the seed
			order := make([]int, len(batch))
			for i := range order {
				order[i] = i
			}
			if batchNo == 0 && len(c.Perm) == len(batch) {
				copy(order, c.Perm)
			} else {
				x := hx.Mix(c.Seed, batchNo, 77)
				for i := len(order) - 1; i > 0; i-- {
					x = hx.Mix(x, uint64(i))
					j := int(x % uint64(i+1))
					order[i], order[j] = order[j], order[i]
				}
			}
			batchNo++
			ooo := false
			for i, o := range order {
				if o != i {
					ooo = true
				}
			}
			if ooo && len(batch) >= 2 {
				atomic.AddInt64(&nontrivOOO, 1)
			}
			var stream []byte
			var bounds []int
			for _, o := range order {
				stream = append(stream, p.Encode(makeReply(c, p, batch[o].Msg))...)
				bounds = append(bounds, len(stream))
			}
			var cuts []int
			switch c.Chunks {
			case "frame":
				cuts = bounds
			case "one":
			case "bytes":
				for i := 1; i < len(stream); i++ {
					cuts = append(cuts, i)
				}
			default:
				n := c.CutEvery
				if n < 1 {
					n = 5
				}
				for i := n; i < len(stream); i += n {
					cuts = append(cuts, i)
				}
			}
			if err := p.Write(stream, cuts); err != nil {
				f.set("peer: write: %v", err)
				return
			}
		}
	}()
	// ---- callers
	user := go9p.OsUsers.Uid2User(0)
	atomic.AddInt64(&pending, 1)
	root, err := clnt.Attach(nil, user, "c09")
	atomic.AddInt64(&pending, -1)
	if err != nil {
		return fmt.Errorf("Attach: %v", err)
	}
	var wg sync.WaitGroup
	call := func(fn func()) {
		atomic.AddInt64(&pending, 1)
		fn()
		atomic.AddInt64(&pending, -1)
		atomic.AddInt64(&done, 1)
	}
	runCaller := func(ci int, ops []Op, n int) {
		defer wg.Done()
		fid := clnt.FidAlloc()
		fid.Iounit = c.Msize - 24
		walked := false
		type kept struct {
			b   []byte
			fid uint32
			off uint64
			cnt uint32
			k   int
		}
		var retained []kept
		for k := 0; (n == 0 && k < len(ops)) || (n > 0 && k < n); k++ {
			if f.get() != nil {
				return
			}
			op := ops[k%len(ops)]
			off := uint64(ci)<<20 + uint64(k)
			what := fmt.Sprintf("caller %d op %d %s", ci, k, op.Kind)
			switch op.Kind {
			case "walk":
				nf := clnt.FidAlloc()
				names := []string{fmt.Sprintf("c%d", ci), fmt.Sprintf("k%d", k)}
				var qs []go9p.Qid
				var err error
				src := fid
				if !walked {
					src = rootOr(root, fid)
				}
				call(func() { qs, err = clnt.Walk(src, nf, names) })
				if checkErr(c, c.Dotu, what, err, ref9p.Twalk, src.Fid, 0, f) {
					if len(qs) != 2 || qs[0].Path != peer.WalkQid(src.Fid, 0, names[0]).Path || qs[1].Path != peer.WalkQid(src.Fid, 1, names[1]).Path {
						f.set("%s: walk returned qids of another request: %+v", what, qs)
					}
				}
			case "open":
				var err error
				call(func() { err = clnt.Open(fid, uint8(k%3)) })
				checkErr(c, c.Dotu, what, err, ref9p.Topen, fid.Fid, 0, f)
				fid.Iounit = c.Msize - 24
			case "create":
				var err error
				call(func() { err = clnt.Create(fid, fmt.Sprintf("n%d", k), 0o644, 1, "") })
				checkErr(c, c.Dotu, what, err, ref9p.Tcreate, fid.Fid, 0, f)
				fid.Iounit = c.Msize - 24
			case "read":
				cnt := op.Count % (c.Msize - 24 + 1)
				if c.BigReads {
					cnt = c.Msize - 24
				}
				var b []byte
				var err error
				call(func() { b, err = clnt.Read(fid, off, cnt) })
				if checkErr(c, c.Dotu, what, err, ref9p.Tread, fid.Fid, off, f) {
					if !bytes.Equal(b, peer.ReadData(fid.Fid, off, cnt)) {
						f.set("%s: Read(fid %d, off %d, count %d) returned data that is not the reply to this request (%d bytes)", what, fid.Fid, off, cnt, len(b))
					}
					// the returned slice belongs to the caller: it must still hold the
					// same bytes after any number of later calls
					retained = append(retained, kept{b, fid.Fid, off, cnt, k})
				}
				for _, r := range retained {
					if !bytes.Equal(r.b, peer.ReadData(r.fid, r.off, r.cnt)) {
						f.set("%s: the data returned by the Read of op %d (fid %d, off %d) was overwritten by a later reply", what, r.k, r.fid, r.off)
					}
				}
				if len(retained) > 24 {
					retained = retained[1:]
				}
			case "write":
				n := int(op.Count % (c.Msize - 24 + 1))
				var w int
				var err error
				call(func() { w, err = clnt.Write(fid, writeData(fid.Fid, off, n), off) })
				if checkErr(c, c.Dotu, what, err, ref9p.Twrite, fid.Fid, off, f) && w != n {
					f.set("%s: Write returned %d, the reply to this request says %d", what, w, n)
				}
			case "stat":
				var d *go9p.Dir
				var err error
				call(func() { d, err = clnt.Stat(fid) })
				if checkErr(c, c.Dotu, what, err, ref9p.Tstat, fid.Fid, 0, f) {
					if d.Name != peer.StatName(fid.Fid) || d.Length != uint64(fid.Fid)*3 {
						f.set("%s: Stat(fid %d) returned the stat of another request: name %q length %d", what, fid.Fid, d.Name, d.Length)
					}
				}
			case "wstat":
				var err error
				d := &go9p.Dir{Name: fmt.Sprintf("r%d", k), Mode: 0xFFFFFFFF, Length: 0xFFFFFFFFFFFFFFFF}
				call(func() { err = clnt.Wstat(fid, d) })
				checkErr(c, c.Dotu, what, err, ref9p.Twstat, fid.Fid, 0, f)
			case "clunk":
				// Clunk only sends a Tclunk for a walked fid; use a fresh walked fid
				nf := clnt.FidAlloc()
				var err error
				call(func() { _, err = clnt.Walk(rootOr(root, fid), nf, nil) })
				if checkErr(c, c.Dotu, what+" (clone)", err, ref9p.Twalk, rootOr(root, fid).Fid, 0, f) {
					no := nf.Fid
					call(func() { err = clnt.Clunk(nf) })
					checkErr(c, c.Dotu, what, err, ref9p.Tclunk, no, 0, f)
				}
			case "remove":
				nf := clnt.FidAlloc()
				no := nf.Fid
				var err error
				call(func() { err = clnt.Remove(nf) })
				checkErr(c, c.Dotu, what, err, ref9p.Tremove, no, 0, f)
			}
		}
	}
	if c.Mode == "volume" {
		per := c.Volume / len(c.Callers)
		for ci, ops := range c.Callers {
			wg.Add(1)
			go runCaller(ci, ops, per)
		}
	} else {
		for ci, ops := range c.Callers {
			wg.Add(1)
			go runCaller(ci, ops, 0)
		}
	}
	callersDone := make(chan struct{})
	go func() { wg.Wait(); close(callersDone) }()
	select {
	case <-callersDone:
	case <-f.ch:
		// a violation was recorded; the peer stops answering, so the remaining
		// callers are released by the Unmount on return
		return f.get()
	case <-time.After(4 * deadline):
		if e := f.get(); e != nil {
			return e
		}
		return hangErr("callers did not finish")
	}
	if e := f.get(); e != nil {
		return e
	}
	// quiescence: no outstanding requests, tags recycled
	out, free := clnt.VerifCounts()
	if out != 0 {
		return fmt.Errorf("%d requests still outstanding in the client after every call returned", out)
	}
	if free < free0-16 {
		return fmt.Errorf("only %d tags are free after every call returned, %d were free after Connect (at most 16 may be cached with request slots)", free, free0)
	}
	extraMax("max_gathered", maxOutstanding)
	hx.ExtraAdd("batches_out_of_order", atomic.LoadInt64(&nontrivOOO))
	hx.ExtraAdd("calls", atomic.LoadInt64(&done))
	if atomic.LoadInt64(&nontrivOOO) > 0 {
		b, _ := json.Marshal(c)
		hx.NonTrivial(b)
	}
	return nil
}

// unmount closes the client; when something inside the client is stuck with
// the client's lock held, Unmount cannot return: the case's verdict (a hang
// with its culprits) must still be reported.
func unmount(clnt *go9p.Clnt) {
	done := make(chan struct{})
	go func() { clnt.Unmount(); close(done) }()
	select {
	case <-done:
	case <-time.After(2 * time.Second):
	}
}

func root0(f *go9p.Fid) uint32 {
	if f == nil {
		return 0
	}
	return f.Fid
}

func rootOr(root, alt *go9p.Fid) *go9p.Fid {
	if root != nil {
		return root
	}
	return alt
}

// runTag: the pipelined Tag interface — requests sharing a tag complete in the order issued.
func runTag(c *Case, p *peer.Peer, clnt *go9p.Clnt) error {
	reqchan := make(chan *go9p.Req, 16)
	tag := clnt.TagAlloc(reqchan)
	freed := false
	defer func() {
		if !freed {
			go clnt.TagFree(tag) // (failure paths) do not leave the Tag's processor behind
		}
	}()
	fid := clnt.FidAlloc()
	n := 0
	type want struct {
		kind string
		off  uint64
		cnt  uint32
	}
	var ws []want
	ops := c.Callers[0]
	for k, op := range ops {
		off := uint64(k) + 1000
		var err error
		switch op.Kind {
		case "read":
			err = tag.Read(fid, off, op.Count%2000)
			ws = append(ws, want{"read", off, op.Count % 2000})
		case "write":
			err = tag.Write(fid, writeData(fid.Fid, off, int(op.Count%2000)), off)
			ws = append(ws, want{"write", off, op.Count % 2000})
		default:
			err = tag.Stat(fid)
			ws = append(ws, want{"stat", 0, 0})
		}
		if err != nil {
			return fmt.Errorf("tag op %d: %v", k, err)
		}
		n++
	}
	// the peer answers same-tag requests in order, in chunks
	var stream []byte
	for i := 0; i < n; i++ {
		r, _ := p.Next(deadline)
		if r == nil {
			return hangErr("peer: pipelined requests did not arrive")
		}
		if r.Err != nil {
			return fmt.Errorf("client sent a frame that does not decode strictly: %v", r.Err)
		}
		if i > 0 && r.Msg.Tag == ref9p.NOTAG {
			return fmt.Errorf("NOTAG used")
		}
		stream = append(stream, p.Encode(makeReply(c, p, r.Msg))...)
	}
	var cuts []int
	step := c.CutEvery
	if step < 1 {
		step = 7
	}
	for i := step; i < len(stream); i += step {
		cuts = append(cuts, i)
	}
	_ = p.Write(stream, cuts)
	if c.Lag {
		// let the completions pile up behind the consumer
		for i := 0; i < 200 && p.End.Unread() > 0; i++ {
			time.Sleep(100 * time.Microsecond)
		}
		time.Sleep(3 * time.Millisecond)
	}
	for i := 0; i < n; i++ {
		select {
		case r := <-reqchan:
			w := ws[i]
			kind := replyKind(c, r.Tc.Type, fid.Fid, w.off)
			switch {
			case kind == 1:
				if r.Err == nil {
					return fmt.Errorf("tag completion %d: Rerror reply delivered without error", i)
				}
			case kind == 2:
				if r.Err == nil {
					return fmt.Errorf("tag completion %d: wrong-type reply delivered without error", i)
				}
			default:
				if r.Err != nil || r.Rc == nil {
					return fmt.Errorf("tag completion %d: unexpected error %v", i, r.Err)
				}
				switch w.kind {
				case "read":
					if r.Tc.Offset != w.off || !bytes.Equal(r.Rc.Data[:r.Rc.Count], peer.ReadData(fid.Fid, w.off, w.cnt)) {
						return fmt.Errorf("tag completion %d is not the %d-th request issued (read off %d): got request off %d", i, i, w.off, r.Tc.Offset)
					}
				case "write":
					if r.Tc.Offset != w.off || r.Rc.Count != w.cnt {
						return fmt.Errorf("tag completion %d is not the %d-th request issued (write off %d)", i, i, w.off)
					}
				case "stat":
					if r.Tc.Type != ref9p.Tstat || r.Rc.Dir.Name != peer.StatName(fid.Fid) {
						return fmt.Errorf("tag completion %d is not the %d-th request issued (stat)", i, i)
					}
				}
			}
		case <-time.After(deadline):
			return hangErr(fmt.Sprintf("tag completion %d of %d never arrived", i, n))
		}
	}
	b, _ := json.Marshal(c)
	hx.NonTrivial(b)
	clnt.TagFree(tag)
	freed = true
	return nil
}

func execute(test string, c *Case) error {
	hx.Journal(test, c)
	hx.Eval()
	hx.Label(fmt.Sprintf("mode=%s dotu=%v chunks=%s", c.Mode, c.Dotu, c.Chunks))
	switch c.Mode {
	case "mix":
		nt := 0
		for _, s := range c.Sources {
			if s.Tag {
				nt++
			}
		}
		hx.Label(fmt.Sprintf("mix tags=%d callers=%d lag=%v", nt, len(c.Sources)-nt, c.Lag))
		mincap := 16
		for i, s := range c.Sources {
			if s.Tag && capOf(c, i) < mincap {
				mincap = capOf(c, i)
			}
		}
		hx.Label(fmt.Sprintf("mix smallest channel handed to TagAlloc=%d lag=%v", mincap, c.Lag))
	case "lag":
		hx.Label(fmt.Sprintf("lag chancap=%d", capOf(c, 0)))
	case "burst":
		hx.Label(fmt.Sprintf("burst callers=%s tags=%d rounds=%d", bucket(len(c.Callers)), c.NTags, c.Rounds))
	default:
		hx.Label(fmt.Sprintf("callers=%s k=%d", bucket(len(c.Callers)), c.K))
	}
	hx.Sample(test, c)
	err := run(c)
	msg, waiting, lagging, isHang := "", 0, false, false
	switch h := err.(type) {
	case hangErr:
		msg, isHang = string(h), true
	case hang:
		msg, waiting, lagging, isHang = h.msg, h.waiting, h.lagging, true
	}
	if isHang {
		// (idle Tag processors and callers the case leaves unanswered on purpose are not culprits)
		if blocked := culprits(hx.BlockedInGo9p(), waiting, lagging); blocked != "" {
			return fmt.Errorf("%s; goroutines blocked inside go9p:\n%s", msg, blocked)
		}
		hx.Inconclusive(msg)
		return nil
	}
	return err
}

func bucket(n int) string {
	switch {
	case n == 1:
		return "1"
	case n <= 5:
		return "2-5"
	case n <= 16:
		return "6-16"
	}
	return "17-64"
}

var opKinds = []string{"walk", "open", "create", "read", "read", "write", "write", "stat", "wstat", "clunk", "remove"}

func genOps(t *rapid.T, max int) []Op {
	n := rapid.IntRange(1, max).Draw(t, "nops")
	var ops []Op
	for i := 0; i < n; i++ {
		ops = append(ops, Op{Kind: rapid.SampledFrom(opKinds).Draw(t, "kind"), Count: rapid.Uint32Range(0, 3000).Draw(t, "count")})
	}
	return ops
}

func TestPropCalls(t *testing.T) {
	hx.Check(t, "calls", hx.N(250, 2500), func(t *rapid.T) {
		c := &Case{Mode: "calls", Dotu: rapid.Bool().Draw(t, "dotu"), Msize: rapid.SampledFrom([]uint32{512, 4096, 8192}).Draw(t, "msize")}
		g := rapid.OneOf(rapid.IntRange(1, 8), rapid.IntRange(1, 64)).Draw(t, "callers")
		for i := 0; i < g; i++ {
			c.Callers = append(c.Callers, genOps(t, 20))
		}
		c.K = rapid.IntRange(1, 8).Draw(t, "k")
		c.Seed = rapid.Uint64().Draw(t, "seed")
		c.Chunks = rapid.SampledFrom([]string{"frame", "one", "bytes", "cuts"}).Draw(t, "chunks")
		c.CutEvery = rapid.IntRange(1, 40).Draw(t, "cutevery")
		c.BigReads = rapid.IntRange(0, 3).Draw(t, "bigreads") == 0
		if err := execute("calls", c); err != nil {
			hx.Failf(t, "calls", c, "%v", err)
		}
	})
}

func TestPropTag(t *testing.T) {
	hx.Check(t, "tag", hx.N(150, 1500), func(t *rapid.T) {
		c := &Case{Mode: "tag", Dotu: rapid.Bool().Draw(t, "dotu"), Msize: 8192, Seed: rapid.Uint64().Draw(t, "seed"), CutEvery: rapid.IntRange(1, 60).Draw(t, "cutevery")}
		n := rapid.OneOf(rapid.IntRange(2, 16), rapid.IntRange(17, 120)).Draw(t, "n")
		c.Lag = rapid.Bool().Draw(t, "lag")
		var ops []Op
		for i := 0; i < n; i++ {
			ops = append(ops, Op{Kind: rapid.SampledFrom([]string{"read", "write", "stat"}).Draw(t, "kind"), Count: rapid.Uint32Range(0, 1999).Draw(t, "count")})
		}
		c.Callers = [][]Op{ops}
		if err := execute("tag", c); err != nil {
			hx.Failf(t, "tag", c, "%v", err)
		}
	})
}

// TestEnumPermutations: every reply order for k <= 4 (thorough: 5) outstanding calls x 3 reply-kind mixes.
func TestEnumPermutations(t *testing.T) {
	maxk := 4
	if hx.Thorough() {
		maxk = 5
	}
	idx := 0
	for k := 2; k <= maxk; k++ {
		for _, perm := range permutations(k) {
			for mixi := 0; mixi < 3; mixi++ {
				idx++
				if hx.NShards > 1 && idx%hx.NShards != hx.Shard {
					continue
				}
				c := &Case{Mode: "calls", Dotu: idx%2 == 0, Msize: 4096, K: k, Seed: uint64(1000*mixi + idx), Chunks: []string{"frame", "one", "cuts"}[idx%3], CutEvery: 3 + idx%9, NoKinds: mixi == 0, Perm: perm}
				for i := 0; i < k; i++ {
					c.Callers = append(c.Callers, []Op{{Kind: []string{"read", "write", "stat", "walk", "read"}[i%5], Count: uint32(100 + i)}})
				}
				if err := execute("perm", c); err != nil {
					hx.Violation("perm", c, err.Error())
					t.Fatalf("%v", err)
				}
			}
		}
	}
	hx.Exhaustive(fmt.Sprintf("every reply order for 2..%d simultaneously outstanding calls x 3 reply-kind mixes", maxk))
}

func permutations(n int) [][]int {
	var out [][]int
	var rec func(cur []int, used []bool)
	rec = func(cur []int, used []bool) {
		if len(cur) == n {
			out = append(out, append([]int(nil), cur...))
			return
		}
		for i := 0; i < n; i++ {
			if !used[i] {
				used[i] = true
				rec(append(cur, i), used)
				used[i] = false
			}
		}
	}
	rec(nil, make([]bool, n))
	return out
}

// TestVolume: more than 65 535 consecutive calls over one connection.
func TestVolume(t *testing.T) {
	if hx.Shard != 0 {
		return
	}
	c := &Case{Mode: "volume", Dotu: true, Msize: 1024, K: 40, Seed: hx.Seed + 5, Chunks: "one", NoKinds: false, Volume: 70016}
	for i := 0; i < 32; i++ {
		c.Callers = append(c.Callers, []Op{{Kind: "read", Count: 40}, {Kind: "write", Count: 33}, {Kind: "stat"}})
	}
	if err := execute("volume", c); err != nil {
		hx.Violation("volume", c, err.Error())
		t.Fatalf("%v", err)
	}
	hx.Label("volume 70016 calls")
}

func TestReplay(t *testing.T) {
	e, err := hx.LoadReplay()
	if e == nil {
		t.Skip("no replay file", err)
	}
	replayEnv(t, e, 10)
}

func replayEnv(t *testing.T, e *hx.Envelope, times int) {
	var c Case
	if err := json.Unmarshal(e.Case, &c); err != nil {
		t.Fatalf("bad case: %v", err)
	}
	for i := 0; i < times; i++ {
		if err := execute(e.Test, &c); err != nil {
			hx.Violation(e.Test, &c, err.Error())
			t.Fatalf("%v", err)
		}
	}
}

func TestRegress(t *testing.T) {
	for _, e := range hx.Regressions() {
		replayEnv(t, e, 2)
		hx.Label("regress")
	}
}
