// C09 — mode "lag": a Tag whose consumer lags far behind, on a client that
// goes on being used.
//
// The requests of one Tag (Sources[0]) are issued in groups; the peer answers a
// group completely before the next one is issued, and the consumer of the Tag
// does not look at its channel until group Collect has been answered, so that
// up to a few dozen completions more than the Tag can buffer wait for it. While
// it lags, further requests are issued on the Tag and ordinary blocking calls
// (Sources[1..]) are made on the same client. The channel handed to TagAlloc
// is unbuffered, small or the customary 16.
//
// Demanded: every request reaches the peer as issued, whatever the consumer
// does (issuing never waits for the consumer); an ordinary call whose reply the
// peer has written returns at once as long as no more than 16 completions of
// the Tag are uncollected (a Tag takes 16 completions on its own, whatever
// channel the application supplied), and in any case once the consumer has
// collected; the i-th completion is the i-th request issued.
package c09

import (
	"encoding/json"
	"fmt"
	"testing"
	"time"

	"github.com/rminnich/go9p"
	"pgregory.net/rapid"
	"verif/internal/hx"
	"verif/internal/peer"
	"verif/internal/ref9p"
)

// tagRoom: completions of one Tag that may be left uncollected without any
// effect on the other calls of the client (TagAlloc's own queue).
const tagRoom = 16

type lagCaller struct {
	ops      []*mop
	next     int // next call to make
	inCall   bool
	answered bool
	cmd      chan int
	res      chan rpcRes
	wireTag  uint16
}

func runLag(c *Case, p *peer.Peer, clnt *go9p.Clnt, free0 int) error {
	if len(c.Sources) == 0 || !c.Sources[0].Tag || len(c.Groups) == 0 {
		return nil
	}
	ch := make(chan *go9p.Req, capOf(c, 0))
	tag := clnt.TagAlloc(ch)
	freed := false
	defer func() {
		if !freed {
			go clnt.TagFree(tag) // (failure paths) do not leave the Tag's processor behind
		}
	}()
	total := 0
	for _, g := range c.Groups {
		if g > 0 {
			total += g
		}
	}
	type ident struct{ src, k int }
	byFid := map[uint32]ident{}
	var tops []*mop
	for k := 0; k < total; k++ {
		op := Op{Kind: "read", Count: uint32(30 + k)}
		if n := len(c.Sources[0].Ops); n > 0 {
			op = c.Sources[0].Ops[k%n]
		}
		o := newMop(c, clnt, op, 0, k)
		tops = append(tops, o)
		byFid[o.fid.Fid] = ident{0, k}
	}
	var callers []*lagCaller
	for i, s := range c.Sources[1:] {
		lc := &lagCaller{cmd: make(chan int), res: make(chan rpcRes, 1)}
		for k, op := range s.Ops {
			switch op.Kind {
			case "walk", "clunk", "remove":
				op.Kind = "stat"
			}
			o := newMop(c, clnt, op, i+1, k)
			lc.ops = append(lc.ops, o)
			byFid[o.fid.Fid] = ident{i + 1, k}
		}
		go func(lc *lagCaller) {
			for k := range lc.cmd {
				lc.res <- doRpc(clnt, lc.ops[k])
			}
		}(lc)
		defer close(lc.cmd)
		callers = append(callers, lc)
	}
	rpcAt := func(i int) int {
		if i < len(c.RpcAt) {
			return c.RpcAt[i]
		}
		return 0
	}
	// the issuer of the Tag's requests: a goroutine, so that an issue that never
	// returns is seen as requests not reaching the peer
	type span struct{ from, to int }
	issueCmd := make(chan span)
	issueErr := make(chan error, len(c.Groups)+1)
	defer close(issueCmd)
	go func() {
		for sp := range issueCmd {
			var err error
			for k := sp.from; k < sp.to && err == nil; k++ {
				if e := issueTag(tag, tops[k]); e != nil {
					err = fmt.Errorf("Tag: issuing request %d %v: %v", k, tops[k], e)
				}
			}
			issueErr <- err
		}
	}()

	issued, answered, collected := 0, 0, 0 // requests of the Tag
	tagWire, tagWireKnown := uint16(0), false
	var issuedBeyondRoom, rpcBeyondRoom, rpcBesideGroup, handedBack int64
	maxUncollected := 0

	inCalls := func() int {
		n := 0
		for _, lc := range callers {
			if lc.inCall {
				n++
			}
		}
		return n
	}
	collectTag := func(upto int) error {
		for collected < upto {
			what := fmt.Sprintf("Tag (wire tag %d, channel capacity %d) completion %d of %d", tagWire, cap(ch), collected, total)
			select {
			case r := <-ch:
				if err := checkDone(c, what, tops[collected], r); err != nil {
					return err
				}
				if handBack(c, 0, collected) {
					tag.ReqFree(r)
					handedBack++
				}
			case <-time.After(deadline):
				return hang{msg: what + " was not delivered although the peer has answered the request and the consumer is collecting", waiting: inCalls()}
			}
			collected++
		}
		return nil
	}
	// collectCalls: every ordinary call the peer has answered must have returned.
	collectCalls := func(when string) error {
		for i, lc := range callers {
			if !lc.inCall || !lc.answered {
				continue
			}
			k := lc.next - 1
			what := fmt.Sprintf("ordinary caller %d call %d %s (wire tag %d)", i, k, lc.ops[k].kind, lc.wireTag)
			select {
			case r := <-lc.res:
				if err := checkRpc(c, what, lc.ops[k], r); err != nil {
					return err
				}
			case <-time.After(deadline):
				return hang{msg: fmt.Sprintf("%s did not return although the peer has answered it (%s; Tag wire tag %d, channel capacity %d, %d of its completions written and not collected)", what, when, tagWire, cap(ch), answered-collected)}
			}
			lc.inCall, lc.answered = false, false
		}
		return nil
	}
	// settle: give the client time to take in what the peer wrote (only decides
	// which states are explored, never a verdict)
	settle := func() {
		// (a receiver that waits for the consumer stops reading: then the count stands still)
		for i, last, still := 0, -1, 0; i < 400 && still < 6; i++ {
			u := p.End.Unread()
			if u == 0 {
				break
			}
			if u == last {
				still++
			} else {
				last, still = u, 0
			}
			time.Sleep(250 * time.Microsecond)
		}
		want := answered - collected
		if want > cap(ch) {
			want = cap(ch)
		}
		for i := 0; i < 400 && len(ch) < want; i++ {
			time.Sleep(250 * time.Microsecond)
		}
		time.Sleep(2 * time.Millisecond)
	}

	collectAt := c.Collect
	if collectAt > len(c.Groups)-1 {
		collectAt = len(c.Groups) - 1
	}
	for g, size := range c.Groups {
		if size < 0 {
			size = 0
		}
		uncollected := answered - collected
		// ---- issue: the group on the Tag, and the ordinary calls that are due
		var due []int
		for i, lc := range callers {
			if !lc.inCall && lc.next < len(lc.ops) && g >= rpcAt(i) {
				due = append(due, i)
			}
		}
		if size+len(due) == 0 {
			continue
		}
		if uncollected > tagRoom {
			issuedBeyondRoom += int64(size)
			rpcBeyondRoom += int64(len(due))
		}
		if size > 0 {
			issueCmd <- span{issued, issued + size}
		}
		for _, i := range due {
			lc := callers[i]
			lc.cmd <- lc.next
			lc.next++
			lc.inCall = true
		}
		// ---- the peer receives them
		batch := make([]*peer.Req, 0, size+len(due))
		isTag := make([]bool, 0, size+len(due))
		arrivedTag := 0
		for len(batch) < size+len(due) {
			r, _ := p.Next(deadline)
			if r == nil {
				select {
				case e := <-issueErr:
					if e != nil {
						return e
					}
				default:
				}
				return hang{msg: fmt.Sprintf("group %d: only %d of the %d requests issued on the Tag and %d of the %d ordinary calls made reached the peer; %d completions of the Tag (wire tag %d, channel capacity %d) were written and not yet collected when they were issued (issuing a request must not wait for the consumer of the Tag)",
					g, arrivedTag, size, len(batch)-arrivedTag, len(due), uncollected, tagWire, cap(ch)), waiting: inCalls(), lagging: uncollected > tagRoom}
			}
			if r.Err != nil {
				return fmt.Errorf("client sent a frame that does not decode strictly: %v: %x", r.Err, r.Raw)
			}
			id, ok := byFid[r.Msg.Fid]
			if !ok {
				return fmt.Errorf("group %d: the peer received %s for fid %d, which nobody has issued", g, ref9p.TypeName(r.Msg.Type), r.Msg.Fid)
			}
			if id.src == 0 {
				if id.k != issued+arrivedTag || arrivedTag >= size {
					return fmt.Errorf("group %d: the peer expected request %d of the Tag next and received request %d (%v)", g, issued+arrivedTag, id.k, tops[id.k])
				}
				if err := checkWire(tops[id.k], r); err != nil {
					return err
				}
				tops[id.k].req = r.Msg
				if !tagWireKnown {
					tagWire, tagWireKnown = r.Msg.Tag, true
				} else if r.Msg.Tag != tagWire {
					hx.Label("lag: a Tag changed its wire tag")
					tagWire = r.Msg.Tag
				}
				arrivedTag++
			} else {
				lc := callers[id.src-1]
				if !lc.inCall || id.k != lc.next-1 || lc.answered {
					return fmt.Errorf("group %d: the peer received call %d of ordinary caller %d, which is not being made", g, id.k, id.src-1)
				}
				if err := checkWire(lc.ops[id.k], r); err != nil {
					return err
				}
				lc.ops[id.k].req = r.Msg
				lc.wireTag = r.Msg.Tag
			}
			batch = append(batch, r)
			isTag = append(isTag, id.src == 0)
		}
		if size > 0 {
			select {
			case e := <-issueErr:
				if e != nil {
					return e
				}
			case <-time.After(deadline):
				return hang{msg: fmt.Sprintf("group %d: the last request reached the peer but issuing it on the Tag does not return", g), waiting: inCalls(), lagging: uncollected > tagRoom}
			}
		}
		// tags outstanding at the same instant: the Tag's and one per ordinary call
		seen := map[uint16]int{}
		if issued+size > answered && tagWireKnown {
			seen[tagWire] = -1
		}
		// (an earlier call that the peer has answered may have returned and given up its tag)
		for _, i := range due {
			lc := callers[i]
			if prev, dup := seen[lc.wireTag]; dup {
				who := "the Tag"
				if prev >= 0 {
					who = fmt.Sprintf("ordinary caller %d", prev)
				}
				return fmt.Errorf("group %d: two outstanding requests of different callers carry tag %d (ordinary caller %d and %s)", g, lc.wireTag, i, who)
			}
			seen[lc.wireTag] = i
		}
		issued += size
		// ---- the peer answers: a permutation derived from the seed; requests sharing a tag keep their order
		order := make([]int, len(batch))
		for i := range order {
			order[i] = i
		}
		x := hx.Mix(c.Seed, uint64(g), 79)
		for i := len(order) - 1; i > 0; i-- {
			x = hx.Mix(x, uint64(i))
			j := int(x % uint64(i+1))
			order[i], order[j] = order[j], order[i]
		}
		for a := 0; a < len(order); a++ {
			for b := a + 1; b < len(order); b++ {
				if isTag[order[a]] && isTag[order[b]] && order[a] > order[b] {
					order[a], order[b] = order[b], order[a]
				}
			}
		}
		var stream []byte
		var bounds []int
		for _, o := range order {
			stream = append(stream, p.Encode(makeReply(c, p, batch[o].Msg))...)
			bounds = append(bounds, len(stream))
		}
		if err := p.Write(stream, cutsFor(c, stream, bounds)); err != nil {
			return fmt.Errorf("peer: write: %v", err)
		}
		answered += size
		for _, lc := range callers {
			if lc.inCall {
				lc.answered = true
			}
		}
		uncollected = answered - collected
		if uncollected > maxUncollected {
			maxUncollected = uncollected
		}
		// ---- the consumer
		if g <= collectAt {
			// it lags: the completions pile up
			settle()
			if uncollected <= tagRoom {
				// a Tag takes this many on its own: the other calls of the client are not held up
				n := inCalls()
				if err := collectCalls("the consumer of the Tag has not collected yet"); err != nil {
					return err
				}
				if uncollected >= 2 {
					rpcBesideGroup += int64(n)
				}
			}
		}
		if g >= collectAt {
			if err := collectTag(answered); err != nil {
				return err
			}
			if err := collectCalls("the consumer of the Tag has collected every completion"); err != nil {
				return err
			}
		}
	}
	if err := collectTag(answered); err != nil {
		return err
	}
	if err := collectCalls("the consumer of the Tag has collected every completion"); err != nil {
		return err
	}
	select {
	case r := <-ch:
		return fmt.Errorf("the Tag delivered a completion more than it had requests (%s fid %d)", ref9p.TypeName(r.Tc.Type), r.Tc.Fid)
	default:
	}
	clnt.TagFree(tag)
	freed = true
	if o, free := clnt.VerifCounts(); o != 0 {
		return fmt.Errorf("%d requests still outstanding in the client after every call returned and every Tag completion was delivered", o)
	} else if free < free0-16 {
		return fmt.Errorf("only %d tags are free after every call returned and the Tag was freed, %d were free after Connect (at most 16 may be cached with request slots)", free, free0)
	}
	extraMax("max_uncollected_tag_completions", int64(maxUncollected))
	hx.ExtraAdd("lag_tag_requests_issued_with_more_than_16_uncollected", issuedBeyondRoom)
	hx.ExtraAdd("lag_calls_made_with_more_than_16_uncollected", rpcBeyondRoom)
	hx.ExtraAdd("lag_calls_returned_beside_2_to_16_uncollected", rpcBesideGroup)
	hx.ExtraAdd("lag_completions_handed_back_with_ReqFree", handedBack)
	if issuedBeyondRoom+rpcBeyondRoom > 0 {
		hx.Label(fmt.Sprintf("lag: requests issued while more than 16 completions were uncollected (channel capacity %d)", cap(ch)))
	}
	if rpcBesideGroup > 0 {
		hx.Label(fmt.Sprintf("lag: ordinary call returned while 2..16 completions were uncollected (channel capacity %d)", cap(ch)))
	}
	if issuedBeyondRoom+rpcBeyondRoom+rpcBesideGroup > 0 {
		b, _ := json.Marshal(c)
		hx.NonTrivial(b)
	}
	return nil
}

func genLagCase(t *rapid.T) *Case {
	c := &Case{Mode: "lag", Dotu: rapid.Bool().Draw(t, "dotu"), Msize: rapid.SampledFrom([]uint32{512, 4096, 8192}).Draw(t, "msize"),
		Seed: rapid.Uint64().Draw(t, "seed"), Chunks: rapid.SampledFrom([]string{"frame", "one", "cuts"}).Draw(t, "chunks"),
		CutEvery: rapid.IntRange(1, 40).Draw(t, "cutevery"), NoKinds: rapid.IntRange(0, 2).Draw(t, "nokinds") == 0, Lag: true}
	chancap := rapid.SampledFrom(chanCaps).Draw(t, "chancap")
	c.Caps = []int{chancap}
	ng := rapid.IntRange(2, 4).Draw(t, "groups")
	for g := 0; g < ng; g++ {
		// small pipelined groups, or groups that by themselves exceed what a Tag buffers
		c.Groups = append(c.Groups, rapid.OneOf(rapid.IntRange(1, 8), rapid.IntRange(1, 30), rapid.IntRange(tagRoom, tagRoom+chancap+30)).Draw(t, "size"))
	}
	c.Collect = rapid.SampledFrom([]int{ng - 1, ng - 1, ng - 2, rapid.IntRange(0, ng-1).Draw(t, "collectany")}).Draw(t, "collect")
	tg := Src{Tag: true}
	for k, n := 0, rapid.IntRange(1, 12).Draw(t, "tagkinds"); k < n; k++ {
		tg.Ops = append(tg.Ops, Op{Kind: rapid.SampledFrom(tagKinds).Draw(t, "kind"), Count: rapid.Uint32Range(0, 3000).Draw(t, "count")})
	}
	c.Sources = []Src{tg}
	for i, n := 0, rapid.IntRange(0, 4).Draw(t, "callers"); i < n; i++ {
		s := Src{}
		for k, m := 0, rapid.IntRange(1, ng).Draw(t, "ncalls"); k < m; k++ {
			s.Ops = append(s.Ops, Op{Kind: rapid.SampledFrom(rpcKinds).Draw(t, "kind"), Count: rapid.Uint32Range(0, 3000).Draw(t, "count")})
		}
		c.Sources = append(c.Sources, s)
		c.RpcAt = append(c.RpcAt, rapid.IntRange(0, ng-1).Draw(t, "rpcat"))
	}
	c.Free = rapid.SampledFrom([]int{0, 2, 4, 4}).Draw(t, "free")
	return c
}

func TestPropLag(t *testing.T) {
	hx.Check(t, "lag", hx.N(70, 1000), func(t *rapid.T) {
		c := genLagCase(t)
		if err := execute("lag", c); err != nil {
			hx.Failf(t, "lag", c, "%v", err)
		}
	})
}

// TestEnumLag: for every channel capacity 0, 1, 2, 3, 16 and EVERY number n of
// completions left uncollected (1..48; thorough 1..64): n requests on the Tag,
// all answered, none collected; then 2 more requests on the Tag and one ordinary
// call; then the consumer collects.
func TestEnumLag(t *testing.T) {
	maxn := 48
	if hx.Thorough() {
		maxn = 64
	}
	idx := 0
	for _, chancap := range []int{0, 1, 2, 3, 16} {
		for n := 1; n <= maxn; n++ {
			idx++
			if hx.NShards > 1 && idx%hx.NShards != hx.Shard {
				continue
			}
			c := &Case{Mode: "lag", Dotu: idx%2 == 0, Msize: 4096, Seed: uint64(idx), Chunks: []string{"frame", "one", "cuts"}[idx%3], CutEvery: 3 + idx%9,
				NoKinds: idx%5 != 0, Lag: true, Caps: []int{chancap}, Groups: []int{n, 2}, Collect: 1, RpcAt: []int{1}, Free: idx % 5,
				Sources: []Src{{Tag: true, Ops: opsOf("read", "write", "stat", "read")}, {Ops: opsOf("read")}}}
			if err := execute("lagenum", c); err != nil {
				hx.Violation("lagenum", c, err.Error())
				t.Fatalf("%v", err)
			}
		}
	}
	hx.Exhaustive(fmt.Sprintf("every number 1..%d of uncollected Tag completions x channel capacity 0, 1, 2, 3, 16, followed by 2 more requests on the Tag and one ordinary call before the consumer collects", maxn))
}
