// C09 — modes "mix" and "burst".
//
// mix: pipelines on go9p.Tag (requests sharing one tag) run while other calls
// of the same client (ordinary blocking calls, pipelines of other Tags) are
// outstanding; a script fixes the order in which the requests are issued and
// the order in which the peer answers them. The consumer of a Tag hands a
// drawn fraction of the completions back with Tag.ReqFree once it has looked at
// them (that is what the method is for), and a script may free a Tag whose
// requests have all completed and allocate it again (step Re), so that the
// histories mix the two interfaces over time: ordinary calls are issued after
// pipelined requests were completed and handed back, while the same or a new
// Tag has requests outstanding.
//
// burst: N callers (and T Tags) issue their calls on a fresh client at the same
// moment; the peer holds ALL of them before it answers.
package c09

import (
	"bytes"
	"encoding/json"
	"fmt"
	"strings"
	"sync"
	"testing"
	"time"

	"github.com/rminnich/go9p"
	"pgregory.net/rapid"
	"verif/internal/hx"
	"verif/internal/peer"
	"verif/internal/ref9p"
)

// Src is one source of requests of a mix case: a Tag (pipeline: any number of
// its requests may be outstanding) or a goroutine making ordinary blocking
// calls (at most one outstanding).
type Src struct {
	Tag bool `json:"tag"`
	Ops []Op `json:"ops"`
}

// Step of a mix script: source Src issues its next request (Ans false) or the
// peer produces the reply to the oldest unanswered request of Src (Ans true).
// Replies are buffered and written out (cut according to Chunks) when a step
// with Flush is reached, before the next request is issued and at the end.
// Re: source Src (a Tag none of whose requests is unanswered) has its
// completions collected, is freed with Clnt.TagFree and allocated again with
// Clnt.TagAlloc; its remaining requests are issued on the new Tag.
// A step that is impossible in the current state is skipped.
type Step struct {
	Src   int  `json:"src"`
	Ans   bool `json:"ans,omitempty"`
	Flush bool `json:"flush,omitempty"`
	Re    bool `json:"re,omitempty"`
}

// handBack: does the consumer of Tag src hand its k-th completion back with
// Tag.ReqFree? c.Free quarters of the completions, chosen by the case's seed.
func handBack(c *Case, src, k int) bool {
	return c.Free > 0 && int(hx.Mix(c.Seed, uint64(src), uint64(k), 91)%4) < c.Free
}

// capOf: capacity of the channel the consumer of source i hands to TagAlloc.
func capOf(c *Case, i int) int {
	if i < len(c.Caps) && c.Caps[i] >= 0 {
		return c.Caps[i]
	}
	return 16
}

// chanCaps: what an application may pass to TagAlloc (unbuffered, small, the customary 16).
var chanCaps = []int{0, 1, 2, 3, 16, 16}

// mop is one request of a mix / burst case with everything the oracle needs.
type mop struct {
	kind  string
	typ   uint8
	fid   *go9p.Fid
	nfid  *go9p.Fid // walk
	off   uint64    // read, write (0 otherwise: the reply kind is a function of type, fid, offset)
	cnt   uint32
	name  string
	names []string
	mode  uint8
	req   *ref9p.Msg // the request as the peer decoded it
}

var kindType = map[string]uint8{
	"read": ref9p.Tread, "write": ref9p.Twrite, "stat": ref9p.Tstat, "wstat": ref9p.Twstat,
	"open": ref9p.Topen, "create": ref9p.Tcreate, "walk": ref9p.Twalk, "clunk": ref9p.Tclunk, "remove": ref9p.Tremove,
}

func newMop(c *Case, clnt *go9p.Clnt, op Op, src, k int) *mop {
	o := &mop{kind: op.Kind, typ: kindType[op.Kind], fid: clnt.FidAlloc()}
	if o.typ == 0 {
		o.kind, o.typ = "stat", ref9p.Tstat
	}
	o.fid.Iounit = c.Msize - 24
	max := c.Msize - 24
	if max > 2000 {
		max = 2000
	}
	switch o.kind {
	case "read", "write":
		o.off = uint64(src+1)<<20 + uint64(k)
		o.cnt = op.Count % (max + 1)
	case "walk":
		o.nfid = clnt.FidAlloc()
		o.names = []string{fmt.Sprintf("s%d", src), fmt.Sprintf("k%d", k)}
	case "open":
		o.mode = uint8(k % 3)
	case "create":
		o.name = fmt.Sprintf("n%d.%d", src, k)
		o.mode = 1
	}
	return o
}

func (o *mop) String() string {
	return fmt.Sprintf("%s(fid %d, off %d, count %d)", o.kind, o.fid.Fid, o.off, o.cnt)
}

func wstatDir(o *mop) *go9p.Dir {
	return &go9p.Dir{Name: fmt.Sprintf("r%d", o.fid.Fid), Mode: 0xFFFFFFFF, Length: 0xFFFFFFFFFFFFFFFF}
}

// issueTag sends o through the pipelined interface (does not wait for a reply).
func issueTag(tag *go9p.Tag, o *mop) error {
	switch o.kind {
	case "read":
		return tag.Read(o.fid, o.off, o.cnt)
	case "write":
		return tag.Write(o.fid, writeData(o.fid.Fid, o.off, int(o.cnt)), o.off)
	case "wstat":
		return tag.Wstat(o.fid, wstatDir(o))
	case "open":
		return tag.Open(o.fid, o.mode)
	case "create":
		return tag.Create(o.fid, o.name, 0o644, o.mode, "")
	case "walk":
		return tag.Walk(o.fid, o.nfid, o.names)
	case "clunk":
		return tag.Clunk(o.fid)
	case "remove":
		return tag.Remove(o.fid)
	}
	return tag.Stat(o.fid)
}

type rpcRes struct {
	err  error
	data []byte
	n    int
	dir  *go9p.Dir
}

// doRpc makes the ordinary blocking call for o.
func doRpc(clnt *go9p.Clnt, o *mop) (r rpcRes) {
	switch o.kind {
	case "read":
		r.data, r.err = clnt.Read(o.fid, o.off, o.cnt)
	case "write":
		r.n, r.err = clnt.Write(o.fid, writeData(o.fid.Fid, o.off, int(o.cnt)), o.off)
	case "wstat":
		r.err = clnt.Wstat(o.fid, wstatDir(o))
	case "open":
		r.err = clnt.Open(o.fid, o.mode)
	case "create":
		r.err = clnt.Create(o.fid, o.name, 0o644, o.mode, "")
	default:
		r.dir, r.err = clnt.Stat(o.fid)
	}
	return
}

// checkWire compares the request the peer decoded with the request issued.
func checkWire(o *mop, r *peer.Req) error {
	if r.Err != nil {
		return fmt.Errorf("client sent a frame that does not decode strictly: %v: %x", r.Err, r.Raw)
	}
	m := r.Msg
	if m.Tag == ref9p.NOTAG {
		return fmt.Errorf("client used NOTAG for %s", ref9p.TypeName(m.Type))
	}
	if m.Type != o.typ || m.Fid != o.fid.Fid {
		return fmt.Errorf("the peer expected the request %v next and received %s fid %d offset %d", o, ref9p.TypeName(m.Type), m.Fid, m.Offset)
	}
	switch o.kind {
	case "read":
		if m.Offset != o.off || m.Count != o.cnt {
			return fmt.Errorf("Tread for %v arrived with offset %d count %d", o, m.Offset, m.Count)
		}
	case "write":
		if m.Offset != o.off || !bytes.Equal(m.Data, writeData(o.fid.Fid, o.off, int(o.cnt))) {
			return fmt.Errorf("Twrite for %v arrived with offset %d and another payload (%d bytes)", o, m.Offset, len(m.Data))
		}
	}
	return nil
}

// checkRpc: an ordinary call returned the function of its own request.
func checkRpc(c *Case, what string, o *mop, r rpcRes) error {
	f := &fail{}
	if checkErr(c, c.Dotu, what, r.err, o.typ, o.fid.Fid, o.off, f) {
		switch o.kind {
		case "read":
			if !bytes.Equal(r.data, peer.ReadData(o.fid.Fid, o.off, o.cnt)) {
				f.set("%s: Read(fid %d, off %d, count %d) returned data that is not the reply to this request (%d bytes)", what, o.fid.Fid, o.off, o.cnt, len(r.data))
			}
		case "write":
			if r.n != int(o.cnt) {
				f.set("%s: Write returned %d, the reply to this request says %d", what, r.n, o.cnt)
			}
		case "stat":
			if r.dir == nil || r.dir.Name != peer.StatName(o.fid.Fid) || r.dir.Length != uint64(o.fid.Fid)*3 {
				f.set("%s: Stat(fid %d) returned the stat of another request: %+v", what, o.fid.Fid, r.dir)
			}
		}
	}
	return f.get()
}

// checkDone: the i-th completion delivered for a Tag is the i-th request
// issued on it, and carries the reply the peer produced for that request.
func checkDone(c *Case, what string, o *mop, r *go9p.Req) error {
	if r == nil || r.Tc == nil {
		return fmt.Errorf("%s: completion without a request", what)
	}
	if r.Tc.Type != o.typ || r.Tc.Fid != o.fid.Fid || ((o.kind == "read" || o.kind == "write") && r.Tc.Offset != o.off) {
		return fmt.Errorf("%s: the completion delivered at this position belongs to another request of the tag (%s fid %d offset %d), want %v: requests sharing a tag were not completed in the order issued",
			what, ref9p.TypeName(r.Tc.Type), r.Tc.Fid, r.Tc.Offset, o)
	}
	switch replyKind(c, o.typ, o.fid.Fid, o.off) {
	case 1:
		t, n := errText(o.fid.Fid, o.off)
		e, ok := r.Err.(*go9p.Error)
		if !ok || e == nil {
			return fmt.Errorf("%s: Rerror reply but the completion carries error %T %v", what, r.Err, r.Err)
		}
		if e.Err != t {
			return fmt.Errorf("%s: Rerror text %q, the peer sent %q for this request", what, e.Err, t)
		}
		if c.Dotu && e.Errornum != n {
			return fmt.Errorf("%s: Rerror number %d, the peer sent %d for this request", what, e.Errornum, n)
		}
		return nil
	case 2:
		if r.Err == nil {
			return fmt.Errorf("%s: reply of the wrong type was delivered as success", what)
		}
		return nil
	}
	if r.Err != nil || r.Rc == nil {
		return fmt.Errorf("%s: matching reply but the completion carries error %v", what, r.Err)
	}
	rc := r.Rc
	if rc.Type != o.typ+1 {
		return fmt.Errorf("%s: completion carries a reply of type %d", what, rc.Type)
	}
	bad := func(detail string) error {
		return fmt.Errorf("%s: the completion for %v carries the reply to another request (%s)", what, o, detail)
	}
	switch o.kind {
	case "read":
		if int(rc.Count) > len(rc.Data) || !bytes.Equal(rc.Data[:rc.Count], peer.ReadData(o.fid.Fid, o.off, o.cnt)) {
			return bad(fmt.Sprintf("%d bytes of data", rc.Count))
		}
	case "write":
		if rc.Count != o.cnt {
			return bad(fmt.Sprintf("Rwrite count %d", rc.Count))
		}
	case "stat":
		if rc.Dir.Name != peer.StatName(o.fid.Fid) || rc.Dir.Length != uint64(o.fid.Fid)*3 {
			return bad(fmt.Sprintf("stat name %q length %d", rc.Dir.Name, rc.Dir.Length))
		}
	case "walk":
		if len(rc.Wqid) != 2 || rc.Wqid[0].Path != peer.WalkQid(o.fid.Fid, 0, o.names[0]).Path || rc.Wqid[1].Path != peer.WalkQid(o.fid.Fid, 1, o.names[1]).Path {
			return bad(fmt.Sprintf("walk qids %+v", rc.Wqid))
		}
	case "open", "create":
		if o.req != nil && rc.Qid.Path != peer.Answer(o.req).Qid.Path {
			return bad(fmt.Sprintf("qid path %x", rc.Qid.Path))
		}
	}
	return nil
}

func cutsFor(c *Case, stream []byte, bounds []int) []int {
	var cuts []int
	switch c.Chunks {
	case "frame":
		return bounds
	case "one":
	case "bytes":
		for i := 1; i < len(stream); i++ {
			cuts = append(cuts, i)
		}
	default:
		n := c.CutEvery
		if n < 1 {
			n = 5
		}
		for i := n; i < len(stream); i += n {
			cuts = append(cuts, i)
		}
	}
	return cuts
}

// hang: a deadline passed. waiting = number of ordinary calls that are, by
// construction of the case, still waiting inside Clnt.Rpc for a reply the peer
// has not written: they are not evidence of anything stuck.
// lagging: the case's Tag consumer has, on purpose, left more completions
// uncollected than a Tag takes without making the receiver wait: the receiver
// (and the Tag's processor) parked on the hand-over are expected, not stuck.
type hang struct {
	msg     string
	waiting int
	lagging bool
}

func (h hang) Error() string { return h.msg }

// culprits filters the goroutine blocks reported by hx.BlockedInGo9p: the
// processor goroutine of a Tag waiting for work (select in Tag.reqproc) is
// idle, not stuck, and up to `waiting` callers parked in Clnt.Rpc are expected.
func culprits(blocked string, waiting int, lagging bool) string {
	var keep []string
	for _, blk := range strings.Split(blocked, "\n\n") {
		if strings.TrimSpace(blk) == "" {
			continue
		}
		lines := strings.Split(blk, "\n")
		head, inner := lines[0], ""
		for _, l := range lines[1:] {
			if strings.HasPrefix(l, "\t") || strings.HasPrefix(l, "runtime.") || strings.HasPrefix(l, "sync.") || strings.HasPrefix(l, "internal/") || strings.HasPrefix(l, "time.") {
				continue
			}
			inner = l
			break
		}
		if strings.Contains(inner, "(*Tag).reqproc") && strings.Contains(head, "[select") {
			continue
		}
		if lagging && strings.Contains(head, "[chan send") && (strings.Contains(inner, "(*Tag).reqproc") || strings.Contains(inner, "(*Clnt).recv")) {
			continue
		}
		if waiting > 0 && strings.Contains(inner, "(*Clnt).Rpc(") && strings.Contains(head, "[chan receive") {
			waiting--
			continue
		}
		keep = append(keep, blk)
	}
	return strings.Join(keep, "\n\n")
}

var (
	maxMu   sync.Mutex
	maxSeen = map[string]int64{}
)

// extraMax reports the largest value seen in this process for a max_ coverage key.
func extraMax(key string, v int64) {
	maxMu.Lock()
	if v > maxSeen[key] {
		maxSeen[key] = v
	}
	v = maxSeen[key]
	maxMu.Unlock()
	hx.Extra(key, v)
}

type mixSrc struct {
	tagged    bool
	tag       *go9p.Tag
	ch        chan *go9p.Req
	cmd       chan int
	res       chan rpcRes
	ops       []*mop
	issued    int
	answered  int // replies produced by the peer
	flushed   int // replies written to the client
	collected int // completions / results checked
	wireTag   uint16
	fresh     bool // the (new) Tag has not issued anything yet: its wire tag is not known
	reAt      int  // number of requests issued when the Tag was last allocated
	reallocs  int
}

type pend struct{ src, k int }

func runMix(c *Case, p *peer.Peer, clnt *go9p.Clnt, free0 int) error {
	srcs := make([]*mixSrc, len(c.Sources))
	for i, s := range c.Sources {
		ms := &mixSrc{tagged: s.Tag}
		ops := s.Ops
		if s.Tag && len(ops) > 8 {
			ops = ops[:8]
		}
		for k, op := range ops {
			if !s.Tag {
				switch op.Kind {
				case "walk", "clunk", "remove": // (these calls release fids on their own; not needed here)
					op.Kind = "stat"
				}
			}
			ms.ops = append(ms.ops, newMop(c, clnt, op, i, k))
		}
		if s.Tag {
			ms.ch = make(chan *go9p.Req, capOf(c, i))
			ms.tag = clnt.TagAlloc(ms.ch)
			ms.fresh = true
		} else {
			ms.cmd = make(chan int)
			ms.res = make(chan rpcRes, 1)
			go func(ms *mixSrc) {
				for k := range ms.cmd {
					ms.res <- doRpc(clnt, ms.ops[k])
				}
			}(ms)
			defer close(ms.cmd)
		}
		srcs[i] = ms
	}
	defer func() {
		// (failure paths) do not leave Tag processors behind
		for _, ms := range srcs {
			if ms != nil && ms.tag != nil {
				go clnt.TagFree(ms.tag)
			}
		}
	}()
	// ordinary calls whose reply the peer has not written yet
	waiting := func() int {
		w := 0
		for _, ms := range srcs {
			if !ms.tagged && ms.issued > ms.flushed {
				w++
			}
		}
		return w
	}
	var out []pend // requests the client is waiting for, oldest first
	var stream []byte
	var bounds []int
	var behindForeign, besideForeign, deepest int64
	var handedBack, rpcAfterHandBack, rpcBesideTagAfterHandBack, reallocs int64

	collectOne := func(si int) error {
		ms := srcs[si]
		k := ms.collected
		what := fmt.Sprintf("source %d request %d", si, k)
		if ms.tagged {
			what = fmt.Sprintf("Tag %d (wire tag %d) completion %d", si, ms.wireTag, k)
			select {
			case r := <-ms.ch:
				if err := checkDone(c, what, ms.ops[k], r); err != nil {
					return err
				}
				if handBack(c, si, k) {
					// (after the last look at r: the request's Fcall may be reused from here on)
					ms.tag.ReqFree(r)
					handedBack++
				}
			case <-time.After(deadline):
				return hang{msg: what + " was not delivered although the peer has answered the request", waiting: waiting()}
			}
		} else {
			select {
			case r := <-ms.res:
				if err := checkRpc(c, what+" "+ms.ops[k].kind, ms.ops[k], r); err != nil {
					return err
				}
			case <-time.After(deadline):
				return hang{msg: what + ": the call did not return although the peer has answered it", waiting: waiting()}
			}
		}
		ms.collected++
		return nil
	}
	flush := func() error {
		if len(stream) > 0 {
			if err := p.Write(stream, cutsFor(c, stream, bounds)); err != nil {
				return fmt.Errorf("peer: write: %v", err)
			}
			stream, bounds = nil, nil
		}
		for si, ms := range srcs {
			ms.flushed = ms.answered
			if c.Lag && ms.tagged {
				continue // the consumer of this Tag looks at its channel only at the end
			}
			for ms.collected < ms.flushed {
				if err := collectOne(si); err != nil {
					return err
				}
			}
		}
		return nil
	}
	canIssue := func(si int) bool {
		ms := srcs[si]
		return ms.issued < len(ms.ops) && (ms.tagged || ms.issued == ms.answered)
	}
	issue := func(si int) error {
		if err := flush(); err != nil {
			return err
		}
		ms := srcs[si]
		k := ms.issued
		o := ms.ops[k]
		if ms.tagged {
			if err := issueTag(ms.tag, o); err != nil {
				return fmt.Errorf("Tag %d: issuing %v: %v", si, o, err)
			}
		} else {
			ms.cmd <- k
		}
		r, _ := p.Next(deadline)
		if r == nil {
			return hang{msg: fmt.Sprintf("source %d: request %d (%v) did not reach the peer", si, k, o), waiting: waiting()}
		}
		if err := checkWire(o, r); err != nil {
			return err
		}
		o.req = r.Msg
		// tags of requests outstanding at the same time: one per source
		for sj, other := range srcs {
			if sj != si && other.issued > other.answered && other.wireTag == r.Msg.Tag {
				return fmt.Errorf("two outstanding requests of different callers carry tag %d: %v of source %d and a request of source %d", r.Msg.Tag, o, si, sj)
			}
		}
		if !ms.tagged {
			ms.wireTag = r.Msg.Tag
			if handedBack > 0 {
				rpcAfterHandBack++
				for _, other := range srcs {
					if other.tagged && other.issued > other.answered {
						rpcBesideTagAfterHandBack++
						break
					}
				}
			}
		} else if ms.fresh {
			ms.wireTag, ms.fresh = r.Msg.Tag, false
		} else if ms.wireTag != r.Msg.Tag {
			// not a violation by itself, but then there is no pipeline to speak of
			hx.Label("mix: a Tag changed its wire tag")
			ms.wireTag = r.Msg.Tag
		}
		ms.issued++
		out = append(out, pend{si, k})
		if d := int64(ms.issued - ms.answered); ms.tagged && d > deepest {
			deepest = d
		}
		return nil
	}
	answer := func(si int, fl bool) error {
		ms := srcs[si]
		k := ms.answered
		if ms.tagged && ms.issued-ms.answered >= 2 {
			foreign := false
			for _, q := range out {
				if q.src != si {
					foreign = true
				}
			}
			if foreign {
				besideForeign++
				if out[0].src != si {
					behindForeign++
				}
			}
		}
		for i, q := range out {
			if q.src == si && q.k == k {
				out = append(out[:i:i], out[i+1:]...)
				break
			}
		}
		stream = append(stream, p.Encode(makeReply(c, p, ms.ops[k].req))...)
		bounds = append(bounds, len(stream))
		ms.answered++
		if fl {
			return flush()
		}
		return nil
	}
	// realloc: every completion of the Tag is collected, the Tag is freed and
	// allocated again (the new Tag may or may not get the same wire tag).
	realloc := func(si int) error {
		if err := flush(); err != nil {
			return err
		}
		ms := srcs[si]
		for ms.collected < ms.flushed {
			if err := collectOne(si); err != nil {
				return err
			}
		}
		select {
		case r := <-ms.ch:
			return fmt.Errorf("Tag %d delivered a completion more than it had requests (%s fid %d)", si, ref9p.TypeName(r.Tc.Type), r.Tc.Fid)
		default:
		}
		clnt.TagFree(ms.tag)
		ms.tag = clnt.TagAlloc(ms.ch)
		ms.fresh, ms.reAt = true, ms.issued
		ms.reallocs++
		reallocs++
		return nil
	}
	for _, st := range c.Script {
		if st.Src < 0 || st.Src >= len(srcs) {
			continue
		}
		var err error
		switch {
		case st.Re:
			if ms := srcs[st.Src]; ms.tagged && ms.issued == ms.answered && ms.issued > ms.reAt && ms.reallocs < maxRealloc {
				err = realloc(st.Src)
			}
		case st.Ans && srcs[st.Src].answered < srcs[st.Src].issued:
			err = answer(st.Src, st.Flush)
		case !st.Ans && canIssue(st.Src):
			err = issue(st.Src)
		}
		if err != nil {
			return err
		}
	}
	// whatever the script left undone (shrunk scripts): issue, then answer, source by source
	for progress := true; progress; {
		progress = false
		for si, ms := range srcs {
			var err error
			switch {
			case canIssue(si):
				err = issue(si)
			case ms.answered < ms.issued:
				err = answer(si, false)
			default:
				continue
			}
			if err != nil {
				return err
			}
			progress = true
		}
	}
	if err := flush(); err != nil {
		return err
	}
	for si, ms := range srcs {
		for ms.collected < ms.flushed {
			if err := collectOne(si); err != nil {
				return err
			}
		}
	}
	for si, ms := range srcs {
		if !ms.tagged {
			continue
		}
		select {
		case r := <-ms.ch:
			return fmt.Errorf("Tag %d delivered a completion more than it had requests (%s fid %d)", si, ref9p.TypeName(r.Tc.Type), r.Tc.Fid)
		default:
		}
		clnt.TagFree(ms.tag)
		ms.tag = nil
	}
	if o, free := clnt.VerifCounts(); o != 0 {
		return fmt.Errorf("%d requests still outstanding in the client after every call returned and every Tag completion was delivered", o)
	} else if free < free0-16 {
		return fmt.Errorf("only %d tags are free after every call returned and every Tag was freed, %d were free after Connect (at most 16 may be cached with request slots)", free, free0)
	}
	hx.ExtraAdd("mix_tag_replies_with_other_calls_outstanding", besideForeign)
	hx.ExtraAdd("mix_tag_replies_behind_older_call_of_other_tag", behindForeign)
	extraMax("max_pipeline_depth", deepest)
	hx.ExtraAdd("mix_completions_handed_back_with_ReqFree", handedBack)
	hx.ExtraAdd("mix_tags_freed_and_allocated_again", reallocs)
	hx.ExtraAdd("mix_calls_after_a_hand_back", rpcAfterHandBack)
	hx.ExtraAdd("mix_calls_after_a_hand_back_with_a_tag_request_outstanding", rpcBesideTagAfterHandBack)
	if rpcBesideTagAfterHandBack > 0 {
		if reallocs > 0 {
			hx.Label("mix: ordinary call issued after completions were handed back and a Tag was freed and allocated again, a Tag request outstanding")
		} else {
			hx.Label("mix: ordinary call issued after completions were handed back with ReqFree, a Tag request outstanding")
		}
	}
	if besideForeign > 0 {
		b, _ := json.Marshal(c)
		hx.NonTrivial(b)
		if behindForeign > 0 {
			hx.Label("mix: Tag with >=2 outstanding answered while the client's oldest outstanding request has another tag")
		} else {
			hx.Label("mix: Tag with >=2 outstanding answered while newer requests of other tags are outstanding")
		}
	}
	return nil
}

var tagKinds = []string{"read", "read", "write", "stat", "wstat", "open", "create", "walk", "clunk", "remove"}
var rpcKinds = []string{"read", "read", "write", "stat", "wstat", "open", "create"}

// genScript draws a complete script for the sources: at every point one of the
// possible actions (a source issues its next request / the peer answers the
// oldest unanswered request of a source).
func genScript(t *rapid.T, srcs []Src, re bool) []Step {
	issued := make([]int, len(srcs))
	answered := make([]int, len(srcs))
	reAt := make([]int, len(srcs))
	res := make([]int, len(srcs))
	var script []Step
	for {
		var valid, revalid []Step
		for i, s := range srcs {
			if issued[i] < len(s.Ops) && (s.Tag || issued[i] == answered[i]) {
				valid = append(valid, Step{Src: i})
			}
			if answered[i] < issued[i] {
				valid = append(valid, Step{Src: i, Ans: true})
			}
			if re && s.Tag && issued[i] == answered[i] && issued[i] > reAt[i] && issued[i] < len(s.Ops) && res[i] < maxRealloc {
				revalid = append(revalid, Step{Src: i, Re: true})
			}
		}
		if len(valid) == 0 {
			return script
		}
		// (a Tag can be freed and allocated again only while all of its requests are answered:
		// take that chance half of the time)
		if len(revalid) > 0 && rapid.Bool().Draw(t, "re") {
			st := revalid[rapid.IntRange(0, len(revalid)-1).Draw(t, "which")]
			reAt[st.Src] = issued[st.Src]
			res[st.Src]++
			script = append(script, st)
			continue
		}
		st := valid[rapid.IntRange(0, len(valid)-1).Draw(t, "step")]
		if st.Ans {
			answered[st.Src]++
			st.Flush = rapid.IntRange(0, 2).Draw(t, "flush") == 0
		} else {
			issued[st.Src]++
		}
		script = append(script, st)
	}
}

// maxRealloc bounds the number of times one source is freed and allocated again.
const maxRealloc = 3

func TestPropMix(t *testing.T) {
	hx.Check(t, "mix", hx.N(400, 3000), func(t *rapid.T) {
		c := &Case{Mode: "mix", Dotu: rapid.Bool().Draw(t, "dotu"), Msize: rapid.SampledFrom([]uint32{512, 4096, 8192}).Draw(t, "msize"),
			Seed: rapid.Uint64().Draw(t, "seed"), Chunks: rapid.SampledFrom([]string{"frame", "one", "bytes", "cuts"}).Draw(t, "chunks"),
			CutEvery: rapid.IntRange(1, 40).Draw(t, "cutevery"), Lag: rapid.Bool().Draw(t, "lag"), NoKinds: rapid.IntRange(0, 2).Draw(t, "nokinds") == 0}
		ntag := rapid.IntRange(1, 3).Draw(t, "ntag")
		lo := 0
		if ntag == 1 {
			lo = 1
		}
		nrpc := rapid.IntRange(lo, 4).Draw(t, "nrpc")
		kinds := make([]bool, 0, ntag+nrpc)
		for i := 0; i < ntag+nrpc; i++ {
			kinds = append(kinds, i < ntag)
		}
		kinds = rapid.Permutation(kinds).Draw(t, "order")
		for _, isTag := range kinds {
			s := Src{Tag: isTag}
			n, pool := rapid.IntRange(1, 5).Draw(t, "nops"), rpcKinds
			if isTag {
				n, pool = rapid.IntRange(2, 8).Draw(t, "depth"), tagKinds
			}
			for k := 0; k < n; k++ {
				s.Ops = append(s.Ops, Op{Kind: rapid.SampledFrom(pool).Draw(t, "kind"), Count: rapid.Uint32Range(0, 3000).Draw(t, "count")})
			}
			c.Sources = append(c.Sources, s)
			// the channel the consumer hands to TagAlloc: unbuffered, small or the customary 16
			c.Caps = append(c.Caps, rapid.SampledFrom(chanCaps).Draw(t, "chancap"))
		}
		// consumers: none / a part / all of the completions are handed back with Tag.ReqFree
		c.Free = rapid.SampledFrom([]int{0, 1, 2, 3, 4, 4}).Draw(t, "free")
		c.Script = genScript(t, c.Sources, rapid.Bool().Draw(t, "realloc"))
		if err := execute("mix", c); err != nil {
			hx.Failf(t, "mix", c, "%v", err)
		}
	})
}

// enumScripts calls fn with every complete script of the sources; with re > 0
// the scripts include the steps 'free the Tag and allocate it again' (at most
// re times per Tag, wherever all of its requests are answered, something was
// issued on it and something remains to be issued).
func enumScripts(srcs []Src, re int, fn func([]Step)) {
	issued := make([]int, len(srcs))
	answered := make([]int, len(srcs))
	reAt := make([]int, len(srcs))
	res := make([]int, len(srcs))
	var cur []Step
	var rec func()
	rec = func() {
		any := false
		for i, s := range srcs {
			if issued[i] < len(s.Ops) && (s.Tag || issued[i] == answered[i]) {
				any = true
				issued[i]++
				cur = append(cur, Step{Src: i})
				rec()
				cur = cur[:len(cur)-1]
				issued[i]--
			}
			if answered[i] < issued[i] {
				any = true
				answered[i]++
				cur = append(cur, Step{Src: i, Ans: true})
				rec()
				cur = cur[:len(cur)-1]
				answered[i]--
			}
			if s.Tag && issued[i] == answered[i] && issued[i] > reAt[i] && issued[i] < len(s.Ops) && res[i] < re {
				old := reAt[i]
				reAt[i] = issued[i]
				res[i]++
				cur = append(cur, Step{Src: i, Re: true})
				rec()
				cur = cur[:len(cur)-1]
				res[i]--
				reAt[i] = old
			}
		}
		if !any {
			fn(append([]Step(nil), cur...))
		}
	}
	rec()
}

func opsOf(kinds ...string) []Op {
	var ops []Op
	for i, k := range kinds {
		ops = append(ops, Op{Kind: k, Count: uint32(40 + 7*i)})
	}
	return ops
}

// TestEnumMix: every order of issuing and answering for a pipeline of 2..3
// (thorough: 4) requests on one Tag next to one ordinary call, and for two Tags
// with two requests each (thorough: plus two ordinary calls, and 3+2); the
// consumers hand back a part of the completions chosen by the case number.
// Configurations marked re: the consumer hands back EVERY completion and the
// scripts also contain every placement of 'free the Tag and allocate it again'.
func TestEnumMix(t *testing.T) {
	type cfg struct {
		name string
		srcs []Src
		re   int
	}
	cfgs := []cfg{
		{"tag2+call", []Src{{Tag: true, Ops: opsOf("read", "read")}, {Ops: opsOf("read")}}, 0},
		{"tag3+call", []Src{{Tag: true, Ops: opsOf("read", "write", "stat")}, {Ops: opsOf("stat")}}, 0},
		{"tag2+tag2", []Src{{Tag: true, Ops: opsOf("read", "stat")}, {Tag: true, Ops: opsOf("write", "read")}}, 0},
		{"tag2+call2 re", []Src{{Tag: true, Ops: opsOf("read", "read")}, {Ops: opsOf("read", "stat")}}, 1},
	}
	if hx.Thorough() {
		cfgs = append(cfgs,
			cfg{"tag4+call", []Src{{Tag: true, Ops: opsOf("read", "read", "write", "clunk")}, {Ops: opsOf("write")}}, 0},
			cfg{"tag2+call+call", []Src{{Ops: opsOf("read")}, {Tag: true, Ops: opsOf("stat", "read")}, {Ops: opsOf("wstat")}}, 0},
			cfg{"tag3+tag2", []Src{{Tag: true, Ops: opsOf("read", "walk", "read")}, {Tag: true, Ops: opsOf("open", "read")}}, 0},
			cfg{"tag2+call2", []Src{{Tag: true, Ops: opsOf("read", "read")}, {Ops: opsOf("read", "stat")}}, 0},
			cfg{"tag3+call2 re", []Src{{Tag: true, Ops: opsOf("read", "stat", "read")}, {Ops: opsOf("read", "read")}}, 2},
			cfg{"tag2+call3 re", []Src{{Tag: true, Ops: opsOf("write", "read")}, {Ops: opsOf("read", "stat", "read")}}, 1},
		)
	}
	idx := 0
	var failed error
	for _, g := range cfgs {
		n := 0
		enumScripts(g.srcs, g.re, func(script []Step) {
			n++
			// every reply written on its own / replies gathered until the next request is issued
			for _, fl := range []bool{true, false} {
				idx++
				if failed != nil || (hx.NShards > 1 && idx%hx.NShards != hx.Shard) {
					continue
				}
				sc := append([]Step(nil), script...)
				for i := range sc {
					sc[i].Flush = fl
				}
				c := &Case{Mode: "mix", Dotu: idx%4 < 2, Msize: 4096, Seed: uint64(idx), Chunks: []string{"frame", "one", "cuts"}[idx%3], CutEvery: 3 + idx%9,
					NoKinds: idx%5 != 0, Lag: idx%7 == 0, Sources: g.srcs, Script: sc, Free: int(hx.Mix(uint64(idx), 17) % 5)}
				if g.re > 0 {
					c.Free = 4
				}
				// (5 capacities x the lagging consumer of every 7th case: every combination occurs)
				for si := range g.srcs {
					c.Caps = append(c.Caps, chanCaps[(idx+si)%5])
				}
				if err := execute("mixenum", c); err != nil {
					hx.Violation("mixenum", c, err.Error())
					failed = err
				}
			}
		})
		hx.Label(fmt.Sprintf("mixenum %s: %d scripts", g.name, n))
		if failed != nil {
			t.Fatalf("%v", failed)
		}
	}
	hx.Exhaustive(fmt.Sprintf("every order of issuing and answering for %d source configurations (Tag pipelines of 2..%d next to ordinary calls / a second Tag; for a Tag next to a caller with 2%s calls also every placement of TagFree+TagAlloc, every completion handed back with ReqFree)", len(cfgs), map[bool]int{false: 3, true: 4}[hx.Thorough()], map[bool]string{false: "", true: "..3"}[hx.Thorough()]))
}

// ---------------------------------------------------------------- burst

// runBurst: Reps fresh clients; on each, every caller (and every Tag) issues its
// k-th call at the same moment, the peer holds all of them, checks the tags and
// answers in a permutation. The Tag consumers hand back c.Free quarters of the
// completions with Tag.ReqFree before the next round; with c.ReTag every Tag
// is freed at the end of a round and allocated again at the next gate.
func runBurst(c *Case) error {
	reps := c.Reps
	if reps < 1 {
		reps = 1
	}
	for rep := 0; rep < reps; rep++ {
		if err := burstOnce(c, rep); err != nil {
			return err
		}
	}
	if len(c.Callers)+c.NTags >= 2 {
		b, _ := json.Marshal(c)
		hx.NonTrivial(b)
	}
	return nil
}

func burstOnce(c *Case, rep int) error {
	p := peer.New("c09b", c.Msize, true)
	p.Start(false)
	clnt, err := go9p.Connect(p.Lib, c.Msize, c.Dotu)
	if err != nil {
		return fmt.Errorf("Connect: %v", err)
	}
	defer unmount(clnt)
	_, free0 := clnt.VerifCounts()
	n, nt, rounds := len(c.Callers), c.NTags, c.Rounds
	if rounds < 1 {
		rounds = 1
	}
	const perTag = 2
	// requests by fid number
	type ident struct{ src, k, j int }
	byFid := map[uint32]ident{}
	ops := make([][]*mop, n+nt) // [source][round*perTag+j]
	for s := 0; s < n+nt; s++ {
		for k := 0; k < rounds; k++ {
			if s < n {
				op := c.Callers[s][k%len(c.Callers[s])]
				switch op.Kind {
				case "read", "write", "stat", "wstat":
				default:
					op.Kind = "stat"
				}
				o := newMop(c, clnt, op, s, k)
				ops[s] = append(ops[s], o)
				byFid[o.fid.Fid] = ident{s, k, 0}
			} else {
				for j := 0; j < perTag; j++ {
					o := newMop(c, clnt, Op{Kind: []string{"read", "stat", "write"}[(s+k+j)%3], Count: uint32(100 + 3*s + j)}, s, k*perTag+j)
					ops[s] = append(ops[s], o)
					byFid[o.fid.Fid] = ident{s, k, j}
				}
			}
		}
	}
	// one gate per round: closing it releases every caller and every Tag at once
	gates := make([]chan struct{}, rounds)
	for k := range gates {
		gates[k] = make(chan struct{})
	}
	abort := make(chan struct{})
	defer close(abort)
	wait := func(k int) bool {
		select {
		case <-gates[k]:
			return true
		case <-abort:
			return false
		}
	}
	done := make(chan error, (n+nt)*rounds+1)
	for s := 0; s < n; s++ {
		go func(s int) {
			for k := 0; k < rounds; k++ {
				if !wait(k) {
					return
				}
				o := ops[s][k]
				done <- checkRpc(c, fmt.Sprintf("client %d caller %d call %d %s", rep, s, k, o.kind), o, doRpc(clnt, o))
			}
		}(s)
	}
	for s := n; s < n+nt; s++ {
		go func(s int) {
			ch := make(chan *go9p.Req, 16)
			var tag *go9p.Tag
			for k := 0; k < rounds; k++ {
				if !wait(k) {
					if tag != nil {
						go clnt.TagFree(tag)
					}
					return
				}
				if tag == nil {
					tag = clnt.TagAlloc(ch) // takes its tag while the callers take theirs
				}
				var err error
				for j := 0; j < perTag && err == nil; j++ {
					if e := issueTag(tag, ops[s][k*perTag+j]); e != nil {
						err = fmt.Errorf("client %d Tag %d: issuing: %v", rep, s-n, e)
					}
				}
				for j := 0; j < perTag && err == nil; j++ {
					// (the peer's side has the deadline: it answers once it holds every request of the round)
					select {
					case r := <-ch:
						err = checkDone(c, fmt.Sprintf("client %d Tag %d completion %d", rep, s-n, k*perTag+j), ops[s][k*perTag+j], r)
						if err == nil && handBack(c, s, k*perTag+j) {
							tag.ReqFree(r)
						}
					case <-abort:
						go clnt.TagFree(tag)
						return
					}
				}
				if k == rounds-1 || err != nil {
					if err == nil {
						clnt.TagFree(tag)
					} else {
						go clnt.TagFree(tag)
					}
					done <- err
					return
				}
				if c.ReTag {
					clnt.TagFree(tag)
					tag = nil
				}
				done <- err
			}
		}(s)
	}
	expect := n + nt*perTag
	for k := 0; k < rounds; k++ {
		close(gates[k])
		batch := make([]*peer.Req, 0, expect)
		owner := map[uint16]int{}
		for len(batch) < expect {
			r, _ := p.Next(deadline)
			if r == nil {
				// a caller may have failed before issuing (reported through done)
				select {
				case e := <-done:
					if e != nil {
						return e
					}
				default:
				}
				// nothing has been answered yet: every caller that did issue is waiting for the peer, by design
				return hang{msg: fmt.Sprintf("burst: client %d round %d: only %d of %d requests reached the peer", rep, k, len(batch), expect), waiting: n}
			}
			if r.Err != nil {
				return fmt.Errorf("client sent a frame that does not decode strictly: %v: %x", r.Err, r.Raw)
			}
			id, ok := byFid[r.Msg.Fid]
			if !ok || id.k != k {
				return fmt.Errorf("client %d round %d: the peer received %s for fid %d, which no caller has issued in this round", rep, k, ref9p.TypeName(r.Msg.Type), r.Msg.Fid)
			}
			o := ops[id.src][id.k]
			if id.src >= n {
				o = ops[id.src][id.k*perTag+id.j]
			}
			if err := checkWire(o, r); err != nil {
				return err
			}
			if prev, dup := owner[r.Msg.Tag]; dup && prev != id.src {
				name := func(s int) string {
					if s >= n {
						return fmt.Sprintf("Tag %d", s-n)
					}
					return fmt.Sprintf("caller %d", s)
				}
				return fmt.Errorf("client %d round %d: two outstanding requests carry tag %d (%s and %s; %d callers + %d Tags issuing at the same moment)", rep, k, r.Msg.Tag, name(prev), name(id.src), n, nt)
			}
			owner[r.Msg.Tag] = id.src
			batch = append(batch, r)
		}
		// answer in a permutation derived from the seed; requests sharing a tag keep their order
		order := make([]int, len(batch))
		for i := range order {
			order[i] = i
		}
		x := hx.Mix(c.Seed, uint64(rep), uint64(k), 78)
		for i := len(order) - 1; i > 0; i-- {
			x = hx.Mix(x, uint64(i))
			j := int(x % uint64(i+1))
			order[i], order[j] = order[j], order[i]
		}
		for a := 0; a < len(order); a++ {
			for b := a + 1; b < len(order); b++ {
				if batch[order[a]].Msg.Tag == batch[order[b]].Msg.Tag && order[a] > order[b] {
					order[a], order[b] = order[b], order[a]
				}
			}
		}
		var stream []byte
		var bounds []int
		for _, o := range order {
			stream = append(stream, p.Encode(makeReply(c, p, batch[o].Msg))...)
			bounds = append(bounds, len(stream))
		}
		if err := p.Write(stream, cutsFor(c, stream, bounds)); err != nil {
			return fmt.Errorf("peer: write: %v", err)
		}
		for i := 0; i < n+nt; i++ {
			select {
			case e := <-done:
				if e != nil {
					return e
				}
			case <-time.After(deadline):
				return hangErr(fmt.Sprintf("burst: client %d round %d: %d of %d callers did not return although every request was answered", rep, k, n+nt-i, n+nt))
			}
		}
	}
	if o, free := clnt.VerifCounts(); o != 0 {
		return fmt.Errorf("%d requests still outstanding in the client after every call returned", o)
	} else if free < free0-16 {
		return fmt.Errorf("only %d tags are free after every call returned, %d were free after Connect (at most 16 may be cached with request slots)", free, free0)
	}
	hx.ExtraAdd("burst_clients", 1)
	extraMax("max_held_at_once", int64(expect))
	return nil
}

func TestPropBurst(t *testing.T) {
	hx.Check(t, "burst", hx.N(80, 600), func(t *rapid.T) {
		c := &Case{Mode: "burst", Dotu: rapid.Bool().Draw(t, "dotu"), Msize: rapid.SampledFrom([]uint32{512, 4096}).Draw(t, "msize"),
			Seed: rapid.Uint64().Draw(t, "seed"), Chunks: rapid.SampledFrom([]string{"frame", "one", "cuts"}).Draw(t, "chunks"),
			CutEvery: rapid.IntRange(1, 40).Draw(t, "cutevery"), NoKinds: rapid.Bool().Draw(t, "nokinds")}
		n := rapid.OneOf(rapid.IntRange(1, 16), rapid.IntRange(17, 64)).Draw(t, "callers")
		c.NTags = rapid.IntRange(0, 4).Draw(t, "ntags")
		c.Rounds = rapid.IntRange(1, 3).Draw(t, "rounds")
		c.Reps = rapid.IntRange(4, 12).Draw(t, "reps")
		c.Free = rapid.SampledFrom([]int{0, 2, 4, 4}).Draw(t, "free")
		c.ReTag = rapid.Bool().Draw(t, "retag")
		for i := 0; i < n; i++ {
			var ops []Op
			for k := 0; k < c.Rounds; k++ {
				ops = append(ops, Op{Kind: rapid.SampledFrom([]string{"read", "write", "stat", "wstat"}).Draw(t, "kind"), Count: rapid.Uint32Range(0, 600).Draw(t, "count")})
			}
			c.Callers = append(c.Callers, ops)
		}
		if err := execute("burst", c); err != nil {
			hx.Failf(t, "burst", c, "%v", err)
		}
	})
}
