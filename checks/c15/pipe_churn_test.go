// C15, two further classes of histories (both run through runConc):
//
// (c) "pipe": ONE open directory fid has several users on one connection.
// Every user lists the (unchanged) directory by the offset rule — 0, or the
// offset of its previous read plus the bytes that read returned — keeps one
// Tread outstanding and sends its next Tread as soon as the reply to the
// previous one is in. Some users walk through the whole listing with small
// counts, others rewind again and again (listing abandoned after 1..3 reads,
// next listing from offset 0), so that Treads at offset 0 are outstanding
// together with Treads at offsets > 0 of the same fid. The server may answer
// a read at an offset > 0 from the listing it had or from the one a rewind of
// another user has just built: the directory does not change, so both hold
// the same records at the same offsets and each user must still see every
// entry exactly once before a zero-length reply, and no Rerror for a count
// that holds the next entry. (A reply shorter than it could be is accepted.)
//
// (d) "churn": directories of more than 512 / 1024 / 2048 entries are listed
// (raw fids, go9p client Readdir(0)) while other parties — goroutines calling
// the os package, or raw 9P clients on connections of their own sending
// Tcreate / Tremove — keep creating and removing OTHER, short-lived entries in
// the same directory. Every entry that exists from before the first listing
// until after the last one must be returned exactly once by every listing;
// records of the short-lived entries (recognised by their name prefix) are
// decoded but not judged.
package c15

import (
	"fmt"
	"os"
	"path/filepath"
	"sort"
	"strconv"
	"strings"
	"sync"
	"sync/atomic"
	"testing"

	"github.com/rminnich/go9p"
	"pgregory.net/rapid"
	"verif/internal/hx"
	"verif/internal/ref9p"
	"verif/internal/ufsrv"
)

// ---------------------------------------------------------------------------
// lanes: listers that know about the churn of their directory

func (ln *concLane) newLister(s *rawSess, p *Pass, where string) *lister {
	l := s.newLister(ln.fid, p, ln.expected, ln.largest, where)
	l.ignore = ln.ignore
	l.rem0 = ln.ch.removes()
	return l
}

// finish records the statistics of a listing that is over (complete or
// abandoned).
func (ln *concLane) finish(l *lister) {
	l.ps.churned = ln.ch.removes() != l.rem0
	ln.stats = append(ln.stats, l.ps)
	if l.ps.complete {
		ln.ch.listed()
	}
}

// ---------------------------------------------------------------------------
// (c) several users of one fid

// runShared runs all passes of all users of the connection's one fid. A
// user's next Tread is sent as soon as the reply to its previous one is in.
func (cc *concConn) runShared(ci int) error {
	type user struct {
		ln      *concLane
		li      int
		pass    int
		l       *lister
		off     uint64 // offset of the outstanding Tread
		rewinds int    // Treads at offset 0 of other users that were outstanding together with it
	}
	rc := cc.s.rc
	pending := map[uint16]*user{}
	advance := func(u *user) error {
		for {
			if u.l == nil {
				if u.pass >= len(u.ln.spec.Passes) {
					return nil
				}
				where := fmt.Sprintf("connection %d, user %d of %d of the one fid %d (directory %d), listing %d", ci, u.li, len(cc.lanes), u.ln.fid, u.ln.spec.Dir, u.pass)
				u.l = u.ln.newLister(cc.s, &u.ln.spec.Passes[u.pass], where)
			}
			off, cnt, done, err := u.l.next()
			if err != nil {
				return err
			}
			if done {
				u.ln.finish(u.l)
				u.l = nil
				u.pass++
				continue
			}
			u.off, u.rewinds = off, 0
			for _, o := range pending { // counting only: the order does not matter
				if off > 0 && o.off == 0 {
					u.rewinds++
					u.l.ps.overlap++
				}
				if off == 0 && o.off > 0 {
					o.rewinds++
					o.l.ps.overlap++
				}
			}
			tag := rc.NextTag()
			if err := rc.Send(&ref9p.Msg{Type: ref9p.Tread, Tag: tag, Fid: u.ln.fid, Offset: off, Count: cnt}); err != nil {
				return err
			}
			pending[tag] = u
			return nil
		}
	}
	for li, ln := range cc.lanes {
		if err := advance(&user{ln: ln, li: li}); err != nil {
			return err
		}
	}
	for len(pending) > 0 {
		m, _, err := rc.Recv()
		if err != nil {
			return err
		}
		u := pending[m.Tag]
		if u == nil {
			return hErr("connection %d: reply with tag %d that is not outstanding", ci, m.Tag)
		}
		delete(pending, m.Tag)
		done, err := u.l.feed(m)
		if err != nil {
			if v, ok := err.(*violation); ok && u.off > 0 {
				return viol("%s [the directory is unchanged; while this Tread was outstanding, %d Tread(s) at offset 0 of other users of the fid were outstanding too]", v.msg, u.rewinds)
			}
			return err
		}
		if done {
			u.ln.finish(u.l)
			u.l = nil
			u.pass++
		}
		if err := advance(u); err != nil {
			return err
		}
	}
	return nil
}

// pipePool: directories of the quick tier's pipe cases (built once per process).
var pipePool = []Bulk{
	{N: 1000, Seed: 11, MinLen: 1, MaxLen: 11, Prefix: "A"}, // = concPool[0]
	{N: 900, Seed: 15, MinLen: 40, MaxLen: 50, Prefix: "E"}, // = concPool[4]
	{N: 1500, Seed: 17, MinLen: 1, MaxLen: 14, Prefix: "G"},
	{N: 500, Seed: 18, MinLen: 1, MaxLen: 120, Prefix: "H"},
}

func drawBulk(t *rapid.T, lo, hi int, prefix, label string) Bulk {
	b := Bulk{
		N:      rapid.IntRange(lo, hi).Draw(t, label+".n"),
		Seed:   rapid.Uint64().Draw(t, label+".seed"),
		MinLen: rapid.SampledFrom([]int{1, 8, 40, 100}).Draw(t, label+".minlen"),
		Prefix: prefix,
	}
	b.MaxLen = b.MinLen + rapid.SampledFrom([]int{0, 10, 50, 155}).Draw(t, label+".spread")
	if b.MaxLen > 255 {
		b.MaxLen = 255
	}
	return b
}

// genPipe draws a "pipe" case.
func genPipe(t *rapid.T, pool bool) *Case {
	c := &Case{Kind: "pipe"}
	c.SrvDotu = rapid.IntRange(0, 3).Draw(t, "srvplain") != 0
	c.SrvMsize = rapid.SampledFrom([]uint32{4096, 8192, 65536}).Draw(t, "srvmsize")
	nconns := 1
	if rapid.IntRange(0, 3).Draw(t, "twoconns") == 0 {
		nconns = 2
	}
	for ci := 0; ci < nconns; ci++ {
		var bk Bulk
		if pool {
			bk = pipePool[rapid.IntRange(0, len(pipePool)-1).Draw(t, "pool")]
		} else {
			bk = drawBulk(t, 300, 3000, string(rune('A'+ci)), fmt.Sprintf("d%d", ci))
		}
		if !c.SrvDotu && bk.N > 600 {
			bk.N = 600 // plain 9P2000: user name lookups per entry
		}
		c.Dirs = append(c.Dirs, DirSpec{Bulk: &bk})
		cs := ConnSpec{Shared: true, CliDotu: rapid.IntRange(0, 4).Draw(t, "cliplain") != 0}
		cs.CliMsize = rapid.SampledFrom([]uint32{4096, 8192, 65536}).Draw(t, "climsize")
		neg := cs.CliMsize
		if c.SrvMsize < neg {
			neg = c.SrvMsize
		}
		max := neg - ioHdr
		dotu := c.SrvDotu && cs.CliDotu
		sizes := sizesOf(mustK(t, dotu), bk.ents(), dotu)
		l := sizes[len(sizes)-1]
		nusers := rapid.IntRange(2, 4).Draw(t, "nusers")
		for ui := 0; ui < nusers; ui++ {
			ln := Lane{Dir: ci}
			label := fmt.Sprintf("c%du%d", ci, ui)
			walker := ui == 0 || (ui > 1 && rapid.Bool().Draw(t, label+".walker"))
			if walker {
				// walks through the whole listing, a few records per read
				np := rapid.IntRange(1, 2).Draw(t, label+".npass")
				for pi := 0; pi < np; pi++ {
					p := Pass{}
					pl := fmt.Sprintf("%sp%d", label, pi)
					switch rapid.IntRange(0, 3).Draw(t, pl+".how") {
					case 0:
						genCounts(t, &p, sizes, max, pl)
					case 1:
						p.Counts = []uint32{uint32(rapid.IntRange(l, 6*l).Draw(t, pl+".c"))}
					default:
						p.Counts = []uint32{uint32(rapid.IntRange(l, 2*l).Draw(t, pl+".c"))}
					}
					if pi < np-1 {
						p.MaxReads = rapid.IntRange(1, 60).Draw(t, pl+".maxreads")
					}
					ln.Passes = append(ln.Passes, p)
				}
			} else {
				// rewinds again and again
				np := rapid.IntRange(3, 10).Draw(t, label+".npass")
				for pi := 0; pi < np; pi++ {
					p := Pass{}
					pl := fmt.Sprintf("%sp%d", label, pi)
					if rapid.Bool().Draw(t, pl+".big") {
						p.Counts = []uint32{max}
					} else {
						genCounts(t, &p, sizes, max, pl)
					}
					if pi < np-1 || rapid.Bool().Draw(t, pl+".abandonlast") {
						p.MaxReads = rapid.IntRange(1, 3).Draw(t, pl+".maxreads")
					}
					ln.Passes = append(ln.Passes, p)
				}
			}
			cs.Lanes = append(cs.Lanes, ln)
		}
		c.Conns = append(c.Conns, cs)
	}
	return c
}

// TestPropPipe: several users of one directory fid, Treads at offset 0
// outstanding together with Treads further in.
func TestPropPipe(t *testing.T) {
	defer dropBase()
	hx.Check(t, "pipe", hx.N(6, 30), func(t *rapid.T) {
		exec(t, "pipe", genPipe(t, !hx.Thorough()))
	})
}

// ---------------------------------------------------------------------------
// (d) listings while other parties create and remove short-lived entries

// ChurnSpec describes the other parties of a "churn" case. Every directory of
// the case gets Workers workers; a worker creates Live entries with new names,
// removes them again, and so on until the last listing of the case is over.
type ChurnSpec struct {
	Kind    string `json:"kind"` // "os": calls of the os package; "9p": a raw 9P client on a connection of its own (Twalk, Tcreate, Tremove)
	Workers int    `json:"workers"`
	Live    int    `json:"live"`
	MinLen  int    `json:"minlen"` // name lengths (the stem "~t<worker>.<n>-" is never cut)
	MaxLen  int    `json:"maxlen"`
	Mixed   bool   `json:"mixed,omitempty"` // every fourth entry is a directory, every fifth (os only) a symbolic link
}

const transientPrefix = "~t"

func isTransient(name string) bool { return strings.HasPrefix(name, transientPrefix) }

const transientStemMax = 2 + 2 + 1 + 13 + 1

func (cs *ChurnSpec) name(w int, seq uint64) string {
	name := transientPrefix + strconv.Itoa(w) + "." + strconv.FormatUint(seq, 36) + "-"
	h := splitmix(seq*0x100000001B3 ^ uint64(w))
	want := cs.MinLen
	if cs.MaxLen > cs.MinLen {
		want += int(h % uint64(cs.MaxLen-cs.MinLen+1))
	}
	if want > 255 {
		want = 255
	}
	if len(name) < want {
		name += filler(h, want-len(name))
	}
	return name
}

// largest record a short-lived entry can have.
func (cs *ChurnSpec) largest(k int, dotu bool) int {
	n := cs.MaxLen
	if n < transientStemMax {
		n = transientStemMax
	}
	if n > 255 {
		n = 255
	}
	return recSize(k, Ent{Name: strings.Repeat("x", n), Kind: "l", Target: "x"}, dotu)
}

type churn struct {
	spec     *ChurnSpec
	dir      string
	expected []string
	stopc    chan struct{}
	tick     chan struct{}
	wg       sync.WaitGroup
	nrem     atomic.Int64
	scans    atomic.Int64
	mu       sync.Mutex
	err      error
}

func (ch *churn) removes() int64 {
	if ch == nil {
		return 0
	}
	return ch.nrem.Load()
}

// listed tells the control that a listing was completed (it then lists the
// directory once itself).
func (ch *churn) listed() {
	if ch == nil {
		return
	}
	select {
	case ch.tick <- struct{}{}:
	default:
	}
}

func (ch *churn) fail(err error) {
	ch.mu.Lock()
	if ch.err == nil {
		ch.err = err
	}
	ch.mu.Unlock()
}

func (ch *churn) stopped() bool {
	select {
	case <-ch.stopc:
		return true
	default:
		return false
	}
}

// stop ends the churn; every worker removes what it created. The error says
// that the premise of the case does not hold (a worker could not do its work,
// or the OS itself does not list a permanent entry exactly once).
func (ch *churn) stop() error {
	close(ch.stopc)
	ch.wg.Wait()
	ch.mu.Lock()
	defer ch.mu.Unlock()
	return ch.err
}

// control: the premise of the verdicts is that the OS lists an entry that is
// neither created nor removed during a scan exactly once (POSIX readdir). It
// is checked on the spot: the directory is listed with getdents under the
// same churn, once at the start and once per completed 9P listing.
func (ch *churn) control() {
	defer ch.wg.Done()
	for {
		names, err := rawNames(ch.dir)
		if err != nil {
			ch.fail(hErr("control listing: %v", err))
			return
		}
		seen := make(map[string]int, len(names))
		for _, n := range names {
			seen[n]++
		}
		for _, n := range ch.expected {
			if seen[n] != 1 {
				ch.fail(hErr("control: the OS itself lists the permanent entry %q %d times while other entries are created and removed", n, seen[n]))
				return
			}
		}
		ch.scans.Add(1)
		select {
		case <-ch.stopc:
			return
		case <-ch.tick:
		}
	}
}

func (ch *churn) kindOf(seq uint64) string {
	if ch.spec.Mixed {
		switch {
		case seq%4 == 3:
			return "d"
		case seq%5 == 4 && ch.spec.Kind == "os":
			return "l"
		}
	}
	return "f"
}

func (ch *churn) workerOS(w int, ready func()) {
	defer ch.wg.Done()
	defer ready()
	seq := uint64(0)
	live := make([]string, 0, ch.spec.Live)
	for {
		var werr error
		for k := 0; k < ch.spec.Live && werr == nil; k++ {
			name := ch.spec.name(w, seq)
			werr = mkEnt(ch.dir, Ent{Name: name, Kind: ch.kindOf(seq), Target: "x"})
			seq++
			if werr == nil {
				live = append(live, name)
			}
		}
		for _, n := range live {
			if err := os.Remove(filepath.Join(ch.dir, n)); err != nil && werr == nil {
				werr = err
			}
			ch.nrem.Add(1)
		}
		live = live[:0]
		if werr != nil {
			ch.fail(hErr("churn worker %d: %v", w, werr))
			return
		}
		ready()
		if ch.stopped() {
			return
		}
	}
}

func (ch *churn) worker9P(u *go9p.Ufs, aname string, w int, ready func()) {
	defer ch.wg.Done()
	defer ready()
	rc := ufsrv.Raw(u, "c15churn")
	defer rc.Close()
	want := func(r *ref9p.Msg, err error, typ uint8, what string) error {
		if err != nil {
			return hErr("churn worker %d: %s: %v", w, what, err)
		}
		if r.Type != typ {
			return hErr("churn worker %d: %s answered with %s %q", w, what, ref9p.TypeName(r.Type), r.Ename)
		}
		return nil
	}
	r, err := rc.Version(8192, "9P2000.u")
	if err := want(r, err, ref9p.Rversion, "Tversion"); err != nil {
		ch.fail(err)
		return
	}
	r, err = rc.Attach(1, ref9p.NOFID, "root", aname, 0)
	if err := want(r, err, ref9p.Rattach, "Tattach"); err != nil {
		ch.fail(err)
		return
	}
	seq := uint64(0)
	fid := uint32(10)
	live := make([]uint32, 0, ch.spec.Live)
	for {
		var werr error
		for k := 0; k < ch.spec.Live && werr == nil; k++ {
			name := ch.spec.name(w, seq)
			kind := ch.kindOf(seq)
			seq++
			fid++
			r, err = rc.Walk(1, fid)
			if werr = want(r, err, ref9p.Rwalk, "Twalk"); werr != nil {
				break
			}
			if kind == "d" {
				r, err = rc.Create(fid, name, 0x80000000|0o755, 0, "")
			} else {
				r, err = rc.Create(fid, name, 0o644, 1, "")
			}
			if werr = want(r, err, ref9p.Rcreate, "Tcreate "+name); werr != nil {
				_, _ = rc.Clunk(fid)
				break
			}
			live = append(live, fid)
		}
		for _, f := range live {
			r, err = rc.Remove(f)
			if e := want(r, err, ref9p.Rremove, "Tremove"); e != nil && werr == nil {
				werr = e
			}
			ch.nrem.Add(1)
		}
		live = live[:0]
		if werr != nil {
			ch.fail(werr)
			return
		}
		ready()
		if ch.stopped() {
			return
		}
	}
}

// startChurn starts the workers and the control of one directory and returns
// when every worker has created and removed its first entries.
func startChurn(u *go9p.Ufs, spec *ChurnSpec, di int, dir, aname string, expected []string) (*churn, error) {
	if spec.Workers < 1 || spec.Workers > 16 || spec.Live < 1 || spec.Live > 4096 {
		return nil, hErr("churn: %d workers with %d entries each", spec.Workers, spec.Live)
	}
	for _, n := range expected {
		if isTransient(n) {
			return nil, hErr("churn: permanent entry %q of directory %d carries the prefix of the short-lived ones", n, di)
		}
	}
	ch := &churn{spec: spec, dir: dir, expected: expected, stopc: make(chan struct{}), tick: make(chan struct{}, 1)}
	var first sync.WaitGroup
	first.Add(spec.Workers)
	for w := 0; w < spec.Workers; w++ {
		var once sync.Once
		ready := func() { once.Do(first.Done) }
		ch.wg.Add(1)
		if spec.Kind == "9p" {
			go ch.worker9P(u, aname, di*100+w, ready)
		} else {
			go ch.workerOS(di*100+w, ready)
		}
	}
	first.Wait()
	ch.wg.Add(1)
	go ch.control()
	ch.mu.Lock()
	err := ch.err
	ch.mu.Unlock()
	return ch, err
}

// churnPool: directories of the quick tier's churn cases (built once per
// process): more than one and more than two and four times 512 entries.
var churnPool = []Bulk{
	{N: 1100, Seed: 31, MinLen: 1, MaxLen: 12, Prefix: "P"},
	{N: 1700, Seed: 32, MinLen: 1, MaxLen: 9, Prefix: "Q"},
	{N: 2600, Seed: 33, MinLen: 1, MaxLen: 8, Prefix: "R"},
	{N: 700, Seed: 34, MinLen: 20, MaxLen: 90, Prefix: "S"},
}

// genChurn draws a "churn" case.
func genChurn(t *rapid.T, pool bool) *Case {
	c := &Case{Kind: "churn"}
	c.SrvDotu = rapid.IntRange(0, 4).Draw(t, "srvplain") != 0
	c.SrvMsize = rapid.SampledFrom([]uint32{8192, 65536}).Draw(t, "srvmsize")
	ndirs := 1
	if rapid.IntRange(0, 3).Draw(t, "twodirs") == 0 {
		ndirs = 2
	}
	for i := 0; i < ndirs; i++ {
		var bk Bulk
		if pool {
			bk = churnPool[rapid.IntRange(0, len(churnPool)-1).Draw(t, "pool")]
		} else {
			bk = drawBulk(t, 520, 5000, string(rune('P'+i)), fmt.Sprintf("d%d", i))
		}
		if !c.SrvDotu && bk.N > 600 {
			bk.N = 600 // plain 9P2000: user name lookups per entry
		}
		c.Dirs = append(c.Dirs, DirSpec{Bulk: &bk})
	}
	ch := &ChurnSpec{Kind: "os"}
	if rapid.IntRange(0, 2).Draw(t, "churn9p") == 0 {
		ch.Kind = "9p"
	}
	ch.Workers = rapid.IntRange(1, 4).Draw(t, "workers")
	ch.Live = rapid.SampledFrom([]int{1, 2, 8, 32, 32, 100}).Draw(t, "live")
	ch.MinLen = 1
	ch.MaxLen = rapid.SampledFrom([]int{1, 1, 30, 255}).Draw(t, "tmaxlen")
	if ch.MaxLen > 1 {
		ch.MinLen = rapid.IntRange(1, ch.MaxLen).Draw(t, "tminlen")
	}
	ch.Mixed = rapid.IntRange(0, 3).Draw(t, "mixed") == 0
	c.Churn = ch
	nconns := rapid.IntRange(1, 3).Draw(t, "nconns")
	rounds := rapid.IntRange(2, 6).Draw(t, "rounds")
	next := 0
	for ci := 0; ci < nconns; ci++ {
		cs := ConnSpec{CliDotu: rapid.IntRange(0, 4).Draw(t, "cliplain") != 0}
		cs.CliMsize = rapid.SampledFrom([]uint32{8192, 65536}).Draw(t, "climsize")
		neg := cs.CliMsize
		if c.SrvMsize < neg {
			neg = c.SrvMsize
		}
		dotu := c.SrvDotu && cs.CliDotu
		if rapid.IntRange(0, 2).Draw(t, "clnt") == 0 {
			cs.Clnt = true
			cs.CliDotu = true
			dotu = c.SrvDotu
			if neg = cs.CliMsize + ioHdr; c.SrvMsize < neg {
				neg = c.SrvMsize
			}
		}
		k := mustK(t, dotu)
		nl := rapid.IntRange(1, 2).Draw(t, "lanes")
		for li := 0; li < nl; li++ {
			ln := Lane{Dir: next % ndirs}
			next++
			sizes := append(sizesOf(k, c.Dirs[ln.Dir].ents(), dotu), ch.largest(k, dotu)) // counts hold any short-lived entry too
			sort.Ints(sizes)
			l := sizes[len(sizes)-1]
			for r := 0; r < rounds; r++ {
				p := Pass{}
				label := fmt.Sprintf("c%dl%dp%d", ci, li, r)
				if !cs.Clnt {
					switch rapid.IntRange(0, 3).Draw(t, label+".how") {
					case 0:
						genCounts(t, &p, sizes, neg-ioHdr, label)
						p.Retry = 0
						for i, cnt := range p.Counts {
							if int(cnt) < l {
								p.Counts[i] = uint32(l) // no counts below a record size here
							}
						}
					default:
						p.Counts = []uint32{neg - ioHdr}
					}
				}
				ln.Passes = append(ln.Passes, p)
			}
			cs.Lanes = append(cs.Lanes, ln)
		}
		c.Conns = append(c.Conns, cs)
	}
	return c
}

// TestPropChurn: big directories listed while other parties create and remove
// other entries.
func TestPropChurn(t *testing.T) {
	defer dropBase()
	hx.Check(t, "churn", hx.N(5, 20), func(t *rapid.T) {
		exec(t, "churn", genChurn(t, !hx.Thorough()))
	})
}
