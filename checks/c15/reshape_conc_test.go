// C15, two further classes of histories:
//
// (a) "reshape": the directory is changed substantially between two listings
// through the SAME open fid (entries added, removed, all replaced by fewer and
// longer or by more and shorter names, emptied, refilled) and the next
// listing restarts at offset 0 with counts that force the reply to be cut.
// "Rereading from offset 0 lists it again" must hold for the directory as it
// is at that moment.
//
// (b) "conc": several (large) directories of ONE server are listed at the same
// moment over several connections and several fids per connection; every
// listing is judged against os.ReadDir of its own directory.
package c15

import (
	"encoding/json"
	"fmt"
	"os"
	"path/filepath"
	"sort"
	"sync"
	"testing"
	"time"

	"github.com/rminnich/go9p"
	"pgregory.net/rapid"
	"verif/internal/hx"
	"verif/internal/rawc"
	"verif/internal/ref9p"
	"verif/internal/ufsrv"
)

// ---------------------------------------------------------------------------
// (a) reshape

// simMut mirrors applyMut on a list of entries (sorted by name on return).
func simMut(cur []Ent, m *Mut) []Ent {
	by := map[string]Ent{}
	for _, e := range cur {
		by[e.Name] = e
	}
	sorted := func() []string {
		ns := make([]string, 0, len(by))
		for n := range by {
			ns = append(ns, n)
		}
		sort.Strings(ns)
		return ns
	}
	if m != nil {
		if m.Remove > 0 {
			if ns := sorted(); len(ns) > 0 {
				delete(by, ns[(m.Remove-1)%len(ns)])
			}
		}
		if m.Drop != nil {
			for _, n := range dropped(sorted(), m.Drop) {
				delete(by, n)
			}
		}
		for _, e := range m.adds() {
			if _, ok := by[e.Name]; !ok && validName(e.Name) {
				by[e.Name] = e
			}
		}
	}
	out := make([]Ent, 0, len(by))
	for _, n := range sorted() {
		out = append(out, by[n])
	}
	return out
}

var profiles = []string{"short", "mid", "long", "long", "mixed"}

// genEntP draws an entry whose name length follows a profile.
func genEntP(t *rapid.T, prof string, b budget, label string) Ent {
	lo, hi := 1, b.maxName
	switch prof {
	case "short":
		hi = 4
	case "mid":
		lo, hi = 17, 60
	case "long":
		lo = b.maxName - 40
	default:
		return genEnt(t, b.maxName, b.maxTgt, label)
	}
	if hi > b.maxName {
		hi = b.maxName
	}
	if lo > hi {
		lo = hi
	}
	if lo < 1 {
		lo = 1
	}
	e := Ent{Name: nameOfLen(t, rapid.IntRange(lo, hi).Draw(t, label+".len"), label), Kind: "f"}
	switch rapid.IntRange(0, 7).Draw(t, label+".kind") {
	case 0:
		e.Kind = "d"
	case 1:
		e.Kind = "l"
		tl := rapid.IntRange(1, b.maxTgt).Draw(t, label+".tlen")
		e.Target = "T" + filler(hx.Hash(e.Name, tl), tl-1)
	}
	return e
}

func genEntsP(t *rapid.T, n int, prof string, b budget, label string) []Ent {
	es := make([]Ent, 0, n)
	for i := 0; i < n; i++ {
		es = append(es, genEntP(t, prof, b, label))
	}
	return dedupe(es)
}

// genReshape draws a mutation that changes the entry count by a drawn class
// and the name lengths by a drawn profile.
func genReshape(t *rapid.T, cur []Ent, b budget, label string) *Mut {
	n := len(cur)
	m := &Mut{}
	class := rapid.SampledFrom([]string{"fewer", "fewer", "fewer", "more", "more", "same", "zero", "any"}).Draw(t, label+".class")
	prof := rapid.SampledFrom(profiles).Draw(t, label+".prof")
	k, j := 0, 0
	whole := rapid.Bool().Draw(t, label+".whole") // everything is replaced
	drawK := func(lo int) int {
		if whole || lo >= n {
			return n
		}
		return rapid.IntRange(lo, n).Draw(t, label+".k")
	}
	switch class {
	case "fewer":
		k = drawK(1)
		if k > 0 {
			j = rapid.IntRange(0, k-1).Draw(t, label+".j")
		}
	case "more":
		k = drawK(0)
		j = rapid.IntRange(k+1, k+30).Draw(t, label+".j")
	case "same":
		k = drawK(0)
		j = k
	case "zero":
		k = n
	default:
		k = drawK(0)
		j = rapid.IntRange(0, 40).Draw(t, label+".j")
	}
	if j > 100 {
		j = 100
	}
	switch {
	case k >= n && n > 0:
		m.Drop = &Drop{All: true}
	case k > 0:
		m.Drop = &Drop{From: rapid.IntRange(0, n-1).Draw(t, label+".from"), N: k}
	}
	m.Adds = genEntsP(t, j, prof, b, label+".e")
	return m
}

// reshapeClass names what a mutation did to the directory (for the evidence).
func reshapeClass(before, after []Ent) string {
	mean := func(es []Ent) int {
		if len(es) == 0 {
			return 0
		}
		s := 0
		for _, e := range es {
			s += len(e.Name)
		}
		return s / len(es)
	}
	cnt := "same-count"
	switch {
	case len(after) == 0:
		return "emptied"
	case len(before) == 0:
		return "filled"
	case len(after) < len(before):
		cnt = "fewer"
	case len(after) > len(before):
		cnt = "more"
	}
	sz := "same-length"
	switch a, b := mean(after), mean(before); {
	case a > b+b/4:
		sz = "longer"
	case a+a/4 < b:
		sz = "shorter"
	}
	return cnt + "/" + sz
}

// TestPropReshape: listings through one fid of a directory that is reshaped
// between them.
func TestPropReshape(t *testing.T) {
	defer dropBase()
	hx.Check(t, "reshape", hx.N(100, 1200), func(t *rapid.T) {
		c := &Case{Kind: "raw"}
		b := rapid.SampledFrom(budgets).Draw(t, "budget")
		var n0 int
		switch rapid.IntRange(0, 5).Draw(t, "nclass") {
		case 0:
			n0 = rapid.IntRange(0, 2).Draw(t, "n")
		case 1, 2:
			n0 = rapid.IntRange(3, 12).Draw(t, "n")
		default:
			n0 = rapid.IntRange(13, 60).Draw(t, "n")
		}
		c.Ents = genEntsP(t, n0, rapid.SampledFrom(profiles).Draw(t, "prof0"), b, "e")
		npass := rapid.IntRange(2, 4).Draw(t, "npass")
		states := [][]Ent{simMut(c.Ents, nil)}
		muts := []*Mut{nil}
		all := append([]Ent(nil), c.Ents...)
		for i := 1; i < npass; i++ {
			var m *Mut
			if rapid.IntRange(0, 5).Draw(t, "unchanged") == 0 {
				// now and then the directory stays as it is
			} else {
				m = genReshape(t, states[i-1], b, fmt.Sprintf("m%d", i))
				all = append(all, m.adds()...)
			}
			muts = append(muts, m)
			states = append(states, simMut(states[i-1], m))
		}
		dotu, max := genConfig(t, c, func(d bool) int {
			s := sizesOf(mustK(t, d), all, d)
			if len(s) == 0 {
				return 0
			}
			return s[len(s)-1]
		})
		k := mustK(t, dotu)
		for i := 0; i < npass; i++ {
			p := Pass{Mut: muts[i]}
			sizes := sizesOf(k, states[i], dotu)
			if len(sizes) == 0 {
				sizes = sizesOf(k, all, dotu)
			}
			genCounts(t, &p, sizes, max, fmt.Sprintf("p%d", i))
			if i < npass-1 && rapid.IntRange(0, 3).Draw(t, "abandon") == 0 {
				p.MaxReads = rapid.IntRange(1, 6).Draw(t, "maxreads")
			}
			c.Passes = append(c.Passes, p)
		}
		exec(t, "reshape", c)
	})
}

// fixedShape returns a fixed set of entries for the reshape enumeration;
// tag keeps the names of two shapes apart.
func fixedShape(which, tag string) []Ent {
	mk := func(i, n int, kind string) Ent {
		name := tag + fmt.Sprintf("%02d", i)
		if n > len(name) {
			name += filler(uint64(7000+i), n-len(name))
		}
		e := Ent{Name: name, Kind: kind}
		if kind == "l" {
			e.Target = "T" + filler(uint64(i), (i*5)%30)
		}
		return e
	}
	var es []Ent
	switch which {
	case "6short":
		for i := 0; i < 6; i++ {
			es = append(es, mk(i, 3+i%3, []string{"f", "d", "f", "l", "f"}[i%5]))
		}
	case "4long":
		for i := 0; i < 4; i++ {
			es = append(es, mk(i, 120+i*13, []string{"f", "d", "f", "l", "f"}[i%5]))
		}
	case "3mixed":
		es = []Ent{mk(0, 17, "d"), mk(1, 255, "f"), mk(2, 100, "l")}
	case "14short":
		for i := 0; i < 14; i++ {
			es = append(es, mk(i, 3+(i*7)%30, []string{"f", "f", "d", "f", "l"}[i%5]))
		}
	}
	return es
}

// TestEnumReshape: fixed pairs of directory shapes A -> B. A is listed through
// the fid, every entry is replaced so that the directory has shape B, and the
// same fid lists again from offset 0 — once for EVERY constant count from 0
// to the sum of B's three largest records +1. Every third count the listing
// of A is abandoned after one read. Quick tier: 6 short names <-> 4 long
// names; the thorough tier adds 14 short <-> 3 of mixed length.
func TestEnumReshape(t *testing.T) {
	defer dropBase()
	pairs := [][2]string{{"6short", "4long"}, {"4long", "6short"}}
	if hx.Thorough() {
		pairs = append(pairs, [2]string{"14short", "3mixed"}, [2]string{"3mixed", "14short"})
	}
	const msize = 4096
	n := 0
	for _, dotu := range []bool{true, false} {
		for _, pr := range pairs {
			a, b := fixedShape(pr[0], "a"), fixedShape(pr[1], "b")
			k := mustK(t, dotu)
			sizes := sizesOf(k, b, dotu)
			l := sizes[len(sizes)-1]
			s3 := 0
			for i := len(sizes) - 1; i >= 0 && i >= len(sizes)-3; i-- {
				s3 += sizes[i]
			}
			hi := s3 + 1
			if hi > msize-ioHdr {
				hi = msize - ioHdr
			}
			sa := sizesOf(k, a, dotu)
			ca := uint32(sa[len(sa)-1] + sa[0]) // the listing of A needs several reads
			mk := func(cnts []int) *Case {
				c := &Case{Kind: "raw", SrvDotu: dotu, CliDotu: true, SrvMsize: msize, CliMsize: msize,
					Desc: fmt.Sprintf("shape %q listed, replaced by shape %q, same fid lists again with constant count %v (largest record %d)", pr[0], pr[1], cnts, l)}
				for _, cnt := range cnts {
					pa := Pass{Mut: &Mut{Drop: &Drop{All: true}, Adds: a}, Counts: []uint32{ca}}
					if cnt%3 == 0 {
						pa.MaxReads = 1
					}
					c.Passes = append(c.Passes, pa,
						Pass{Mut: &Mut{Drop: &Drop{All: true}, Adds: b}, Counts: []uint32{uint32(cnt)}, Retry: uint32(l)})
				}
				return c
			}
			var chunk []int
			flush := func() bool {
				if len(chunk) == 0 {
					return true
				}
				cnts := chunk
				chunk = nil
				c := mk(cnts)
				hx.Journal("enum-reshape", c)
				res, err := RunCase(c)
				if err == nil && len(res.passes) == 2*len(cnts) {
					for i := range cnts {
						r1 := res
						r1.passes = res.passes[2*i : 2*i+2]
						r1.nontrivial = r1.passes[1].complete && r1.passes[1].nonEmpty >= 2
						account("enum-reshape", mk(cnts[i:i+1]), r1)
					}
					hx.Sample("enum-reshape", sampleOf(mk(cnts[:1])))
					return true
				}
				for _, cnt := range cnts {
					if !execEnum(t, "enum-reshape", mk([]int{cnt})) {
						return false
					}
				}
				return execEnum(t, "enum-reshape", c)
			}
			for cnt := 0; cnt <= hi; cnt++ {
				n++
				if (n/reshapeChunk)%hx.NShards != hx.Shard {
					continue
				}
				chunk = append(chunk, cnt)
				if len(chunk) >= reshapeChunk {
					if !flush() {
						return
					}
				}
			}
			if !flush() {
				return
			}
			hx.Exhaustive(fmt.Sprintf("reshape %q -> %q through one fid, dotu=%v msize=%d: second listing with every constant count 0..%d (largest record %d)", pr[0], pr[1], dotu, msize, hi, l))
		}
	}
}

const reshapeChunk = 32

// ---------------------------------------------------------------------------
// (b) concurrent listings

// DirSpec is one directory of a "conc" case.
type DirSpec struct {
	Ents []Ent `json:"ents,omitempty"`
	Bulk *Bulk `json:"bulk,omitempty"`
}

func (d *DirSpec) ents() []Ent {
	out := append([]Ent(nil), d.Ents...)
	if d.Bulk != nil {
		out = append(out, d.Bulk.ents()...)
	}
	return out
}

// Lane is one fid that lists one directory, pass after pass.
type Lane struct {
	Dir    int    `json:"dir"`
	Passes []Pass `json:"passes"` // Mut is not used: the directories do not change
}

// ConnSpec is one connection. The Treads of its lanes are pipelined: one
// Tread per lane is sent, then the replies are collected.
//
// Clnt: the connection is a go9p client (MountConn with msize CliMsize, +24
// on the wire) mounted on the server's root; every lane is a goroutine that
// opens its directory and calls File.Readdir(0) once per pass (the counts of
// the passes are not used), all lanes of the client at the same moment.
//
// Shared (raw connections only): all lanes are users of ONE fid, opened on the
// directory of the first lane. Every user follows the offset rule for its own
// listing and keeps one Tread outstanding; a user's next Tread is sent as soon
// as the reply to its previous one is in, whatever the other users have
// outstanding (see pipe_churn_test.go). All passes of all users run in round 0.
type ConnSpec struct {
	Clnt     bool   `json:"clnt,omitempty"`
	Shared   bool   `json:"shared,omitempty"`
	CliDotu  bool   `json:"clidotu"`
	CliMsize uint32 `json:"climsize"`
	Lanes    []Lane `json:"lanes"`
}

type concLane struct {
	spec     *Lane
	fid      uint32
	path     string // Clnt lanes: path of the directory below the mount point
	expected []string
	largest  int
	stats    []passStats
	ignore   func(string) bool // churn cases: names of short-lived entries
	ch       *churn            // churn cases: the churn of the lane's directory
}

type concConn struct {
	s      *rawSess   // raw connection
	clnt   *go9p.Clnt // or go9p client
	shared bool       // raw connection whose lanes are users of one fid
	lanes  []*concLane
}

// firstErr prefers a violation over infrastructure trouble.
func firstErr(errs []error) error {
	var first error
	for _, e := range errs {
		if e == nil {
			continue
		}
		if _, ok := e.(*violation); ok {
			return e
		}
		if first == nil {
			first = e
		}
	}
	return first
}

// roundClnt: every lane of the client calls Readdir(0) on a newly opened
// File of its directory, all lanes at the same moment.
func (cc *concConn) roundClnt(ci, r int) error {
	errs := make([]error, len(cc.lanes))
	stats := make([]*passStats, len(cc.lanes))
	var wg sync.WaitGroup
	for li, ln := range cc.lanes {
		if r >= len(ln.spec.Passes) {
			continue
		}
		wg.Add(1)
		go func(li int, ln *concLane) {
			defer wg.Done()
			where := fmt.Sprintf("client connection %d lane %d (directory %d) pass %d", ci, li, ln.spec.Dir, r)
			stats[li], errs[li] = readdirOnce(cc.clnt, ln, where)
		}(li, ln)
	}
	wg.Wait()
	for li, ps := range stats {
		if ps != nil {
			cc.lanes[li].stats = append(cc.lanes[li].stats, *ps)
		}
	}
	return firstErr(errs)
}

func readdirOnce(clnt *go9p.Clnt, ln *concLane, where string) (*passStats, error) {
	before := ln.ch.removes()
	transient := 0
	f, err := clnt.FOpen(ln.path, go9p.OREAD)
	if err != nil {
		return nil, hErr("%s: FOpen: %v", where, err)
	}
	defer f.Close()
	dirs, err := f.Readdir(0)
	if err != nil {
		return nil, viol("%s: Readdir(0) of a directory with %d entries (msize %d, dotu=%v): %v", where, len(ln.expected), clnt.Msize, clnt.Dotu, err)
	}
	exp := make(map[string]bool, len(ln.expected))
	for _, n := range ln.expected {
		exp[n] = true
	}
	seen := make(map[string]bool, len(ln.expected))
	total := 0
	for _, d := range dirs {
		if d == nil {
			return nil, viol("%s: Readdir(0) returned a nil entry", where)
		}
		if ln.ignore != nil && ln.ignore(d.Name) {
			transient++
			continue
		}
		if !exp[d.Name] {
			return nil, viol("%s: Readdir(0) returned %q which os.ReadDir does not list", where, d.Name)
		}
		if seen[d.Name] {
			return nil, viol("%s: Readdir(0) returned %q twice", where, d.Name)
		}
		seen[d.Name] = true
		total += int(d.Size) + 2
	}
	var missing []string
	for _, n := range ln.expected {
		if !seen[n] {
			missing = append(missing, n)
		}
	}
	if len(missing) > 0 {
		return nil, viol("%s: Readdir(0) (msize %d, dotu=%v) returned %d of %d entries; missing: %s", where, clnt.Msize, clnt.Dotu, len(dirs)-transient, len(ln.expected), someNames(missing))
	}
	more, err := f.Readdir(0)
	if err != nil {
		return nil, viol("%s: Readdir(0) listed all %d entries, a further Readdir(0) on the same File failed: %v", where, len(ln.expected), err)
	}
	if len(more) > 0 {
		return nil, viol("%s: Readdir(0) listed all %d entries, a further Readdir(0) on the same File returned %d more, first %q", where, len(ln.expected), len(more), more[0].Name)
	}
	ps := &passStats{records: len(dirs), complete: true, nonEmpty: 1, transient: transient, churned: ln.ch.removes() != before}
	if total > int(clnt.Msize)-ioHdr {
		ps.nonEmpty = 2
	}
	ln.ch.listed()
	return ps, nil
}

// openConc negotiates and opens one fid per lane (each attached to its
// directory).
func openConc(u *go9p.Ufs, cs *ConnSpec, anames []string) (*rawSess, []uint32, error) {
	rc := ufsrv.Raw(u, "c15conc")
	rc.Timeout = 120 * time.Second
	ver := "9P2000"
	if cs.CliDotu {
		ver = "9P2000.u"
	}
	ok := false
	defer func() {
		if !ok {
			rc.Close()
		}
	}()
	r, err := rc.Version(cs.CliMsize, ver)
	if err != nil {
		return nil, nil, err
	}
	if r.Type != ref9p.Rversion || r.Msize <= ioHdr {
		return nil, nil, hErr("Tversion(%d,%s) answered with %s msize %d", cs.CliMsize, ver, ref9p.TypeName(r.Type), r.Msize)
	}
	var fids []uint32
	for i, ln := range cs.Lanes {
		if cs.Shared && i > 0 {
			fids = append(fids, fids[0])
			continue
		}
		root, fid := uint32(2*i+1), uint32(2*i+2)
		if r, err = rc.Attach(root, ref9p.NOFID, "root", anames[ln.Dir], 0); err != nil {
			return nil, nil, err
		} else if r.Type != ref9p.Rattach {
			return nil, nil, hErr("Tattach(%q): %s %q", anames[ln.Dir], ref9p.TypeName(r.Type), r.Ename)
		}
		if r, err = rc.Walk(root, fid); err != nil {
			return nil, nil, err
		} else if r.Type != ref9p.Rwalk {
			return nil, nil, hErr("Twalk clone: %s %q", ref9p.TypeName(r.Type), r.Ename)
		}
		if r, err = rc.Open(fid, 0); err != nil {
			return nil, nil, err
		} else if r.Type != ref9p.Ropen {
			return nil, nil, hErr("Topen: %s %q", ref9p.TypeName(r.Type), r.Ename)
		}
		fids = append(fids, fid)
	}
	ok = true
	return &rawSess{rc: rc, fid: 2, dotu: rc.Dotu, msize: rc.Msize, max: rc.Msize - ioHdr}, fids, nil
}

// round runs pass r of every lane of the connection, the lanes' Treads
// pipelined.
func (cc *concConn) round(ci, r int) error {
	if cc.clnt != nil {
		return cc.roundClnt(ci, r)
	}
	if cc.shared {
		if r == 0 {
			return cc.runShared(ci)
		}
		return nil
	}
	type run struct {
		ln *concLane
		l  *lister
	}
	var active []*run
	for li, ln := range cc.lanes {
		if r < len(ln.spec.Passes) {
			where := fmt.Sprintf("connection %d lane %d (fid %d, directory %d) pass %d", ci, li, ln.fid, ln.spec.Dir, r)
			active = append(active, &run{ln, ln.newLister(cc.s, &ln.spec.Passes[r], where)})
		}
	}
	rc := cc.s.rc
	for len(active) > 0 {
		pending := map[uint16]*run{}
		var still []*run
		for _, a := range active {
			off, cnt, done, err := a.l.next()
			if err != nil {
				return err
			}
			if done {
				a.ln.finish(a.l)
				continue
			}
			tag := rc.NextTag()
			if err := rc.Send(&ref9p.Msg{Type: ref9p.Tread, Tag: tag, Fid: a.ln.fid, Offset: off, Count: cnt}); err != nil {
				return err
			}
			pending[tag] = a
			still = append(still, a)
		}
		finished := map[*run]bool{}
		for len(pending) > 0 {
			m, _, err := rc.Recv()
			if err != nil {
				return err
			}
			a := pending[m.Tag]
			if a == nil {
				return hErr("connection %d: reply with tag %d that is not outstanding", ci, m.Tag)
			}
			delete(pending, m.Tag)
			done, err := a.l.feed(m)
			if err != nil {
				return err
			}
			if done {
				a.ln.finish(a.l)
				finished[a] = true
			}
		}
		active = active[:0]
		for _, a := range still {
			if !finished[a] {
				active = append(active, a)
			}
		}
	}
	return nil
}

func runConcCase(c *Case, b string) (res result, err error) {
	u, err := server(c.SrvDotu, c.SrvMsize)
	if err != nil {
		return res, hErr("%v", err)
	}
	type out struct {
		res result
		err error
	}
	ch := make(chan out, 1)
	go func() {
		var o out
		o.err = runConc(c, u, b, &o.res)
		ch <- o
	}()
	select {
	case o := <-ch:
		return o.res, classify(o.err)
	case <-time.After(300 * time.Second):
		return res, classify(rawc.ErrTimeout)
	}
}

// The directories of "conc" cases never change; one is built once per process
// and specification and is removed with the base directory.
var (
	concMu   sync.Mutex
	concDirs = map[string]string{}
)

func concDir(b string, d *DirSpec) (string, error) {
	js, err := json.Marshal(d)
	if err != nil {
		return "", hErr("%v", err)
	}
	key := b + "|" + string(js)
	concMu.Lock()
	defer concMu.Unlock()
	if p := concDirs[key]; p != "" {
		if _, err := os.Stat(p); err == nil {
			return p, nil
		}
	}
	dir, err := os.MkdirTemp(b, "c")
	if err != nil {
		return "", hErr("%v", err)
	}
	for _, e := range d.ents() {
		if err := mkEnt(dir, e); err != nil {
			return "", hErr("creating %q: %v", e.Name, err)
		}
	}
	concDirs[key] = dir
	return dir, nil
}

func runConc(c *Case, u *go9p.Ufs, b string, res *result) error {
	if len(c.Dirs) == 0 || len(c.Conns) == 0 {
		return hErr("conc case without directories or connections")
	}
	anames := make([]string, len(c.Dirs))
	paths := make([]string, len(c.Dirs))
	expected := make([][]string, len(c.Dirs))
	order := make([][]string, len(c.Dirs))
	ents := make([][]Ent, len(c.Dirs))
	for i := range c.Dirs {
		dir, err := concDir(b, &c.Dirs[i])
		if err != nil {
			return err
		}
		paths[i] = dir
		ents[i] = c.Dirs[i].ents()
		res.entries += len(ents[i])
		anames[i] = filepath.Base(dir)
		if expected[i], err = listNames(dir); err != nil {
			return hErr("%v", err)
		}
		if order[i], err = rawNames(dir); err != nil {
			return hErr("%v", err)
		}
	}
	// churn cases: the records of short-lived entries count for "large enough"
	var ignore func(string) bool
	if c.Churn != nil {
		ignore = isTransient
	}
	largestOfDir := func(k, di int, dotu bool) int {
		l := 0
		for _, e := range ents[di] {
			if n := recSize(k, e, dotu); n > l {
				l = n
			}
		}
		if c.Churn != nil {
			if n := c.Churn.largest(k, dotu); n > l {
				l = n
			}
		}
		return l
	}
	conns := make([]*concConn, len(c.Conns))
	rounds := 0
	for ci := range c.Conns {
		cs := &c.Conns[ci]
		for li, ln := range cs.Lanes {
			if ln.Dir < 0 || ln.Dir >= len(c.Dirs) {
				return hErr("lane names directory %d of %d", ln.Dir, len(c.Dirs))
			}
			if cs.Shared && ln.Dir != cs.Lanes[0].Dir {
				return hErr("connection %d: user %d of the shared fid names another directory", ci, li)
			}
			if len(ln.Passes) > rounds {
				rounds = len(ln.Passes)
			}
		}
		if cs.Clnt {
			clnt, _, err := ufsrv.Mount(u, "c15cc", "", cs.CliMsize)
			if err != nil {
				return hErr("mount: %v", err)
			}
			defer clnt.Unmount()
			k, err := calibrate(clnt.Dotu)
			if err != nil {
				return err
			}
			cc := &concConn{clnt: clnt}
			for li := range cs.Lanes {
				ln := &cs.Lanes[li]
				cl := &concLane{spec: ln, path: "/" + anames[ln.Dir], expected: expected[ln.Dir], ignore: ignore}
				cl.largest = largestOfDir(k, ln.Dir, clnt.Dotu)
				if int(clnt.Msize)-ioHdr < cl.largest {
					return hErr("client msize-24=%d is smaller than the largest entry (%d)", clnt.Msize-ioHdr, cl.largest)
				}
				cc.lanes = append(cc.lanes, cl)
			}
			conns[ci] = cc
			if ci == 0 {
				res.dotu, res.msize = clnt.Dotu, clnt.Msize
			}
			continue
		}
		s, fids, err := openConc(u, cs, anames)
		if err != nil {
			return err
		}
		defer s.rc.Close()
		k, err := calibrate(s.dotu)
		if err != nil {
			return err
		}
		cc := &concConn{s: s, shared: cs.Shared}
		for li := range cs.Lanes {
			ln := &cs.Lanes[li]
			cl := &concLane{spec: ln, fid: fids[li], expected: expected[ln.Dir], ignore: ignore}
			cl.largest = largestOfDir(k, ln.Dir, s.dotu)
			cc.lanes = append(cc.lanes, cl)
		}
		conns[ci] = cc
		if ci == 0 {
			res.dotu, res.msize = s.dotu, s.msize
		}
	}
	// churn cases: other parties create and remove short-lived entries in every
	// directory from now until the last listing is over
	var churns []*churn
	if c.Churn != nil {
		for i := range c.Dirs {
			ch, err := startChurn(u, c.Churn, i, paths[i], anames[i], expected[i])
			if ch != nil {
				churns = append(churns, ch)
			}
			if err != nil {
				for _, ch := range churns {
					_ = ch.stop()
				}
				return err
			}
		}
		for _, cc := range conns {
			for _, ln := range cc.lanes {
				ln.ch = churns[ln.spec.Dir]
			}
		}
	}
	// every round starts on all connections at the same moment (the barrier
	// only aligns the offset-0 reads; no verdict depends on it)
	barriers := make([]sync.WaitGroup, rounds)
	for r := range barriers {
		barriers[r].Add(len(conns))
	}
	errs := make([]error, len(conns))
	var wg sync.WaitGroup
	for ci := range conns {
		wg.Add(1)
		go func(ci int) {
			defer wg.Done()
			for r := 0; r < rounds; r++ {
				barriers[r].Done()
				barriers[r].Wait()
				if errs[ci] == nil {
					errs[ci] = conns[ci].round(ci, r)
				}
			}
		}(ci)
	}
	wg.Wait()
	var infra error
	for _, ch := range churns {
		if err := ch.stop(); err != nil && infra == nil {
			infra = err
		}
		res.churnOps += ch.removes()
	}
	for i := range churns {
		if now, err := listNames(paths[i]); err != nil || !sameNames(now, expected[i]) {
			// the cached directory is not what it was: do not use it again
			concMu.Lock()
			for k, p := range concDirs {
				if p == paths[i] {
					delete(concDirs, k)
				}
			}
			concMu.Unlock()
			if infra == nil {
				infra = hErr("directory %d does not hold its permanent entries after the churn: %v", i, err)
			}
		}
	}
	multi := make([]int, rounds) // per round: lanes that completed a listing of several reads
	for _, cc := range conns {
		for _, ln := range cc.lanes {
			for r, ps := range ln.stats {
				res.passes = append(res.passes, ps)
				if !ps.complete || ps.nonEmpty < 2 {
					continue
				}
				switch c.Kind {
				case "pipe":
					if ps.overlap > 0 {
						res.nontrivial = true
					}
				case "churn":
					if ps.churned {
						res.nontrivial = true
					}
				default:
					if r < rounds {
						multi[r]++
					}
				}
			}
		}
	}
	for _, m := range multi {
		if m >= 2 {
			res.nontrivial = true
		}
	}
	if infra != nil {
		// the premise of the verdicts (what the other party did, what the OS
		// lists) is not established
		return infra
	}
	err := firstErr(errs)
	if _, ok := err.(*violation); ok && c.Churn == nil {
		// premise of "each entry exactly once" for users of one fid and of the
		// offsets a user holds: the OS lists an unchanged directory in the same
		// order every time
		for i := range c.Dirs {
			if now, e := rawNames(paths[i]); e != nil || !sameNames(now, order[i]) {
				return hErr("the OS lists the unchanged directory %d in another order than before (%v); not judged: %v", i, e, err)
			}
		}
	}
	return err
}

// rawNames: the names of a directory in the order the OS lists them.
func rawNames(dir string) ([]string, error) {
	f, err := os.Open(dir)
	if err != nil {
		return nil, err
	}
	defer f.Close()
	return f.Readdirnames(-1)
}

func sameNames(a, b []string) bool {
	if len(a) != len(b) {
		return false
	}
	for i := range a {
		if a[i] != b[i] {
			return false
		}
	}
	return true
}

// accountConc is account for "conc" cases.
func accountConc(test string, c *Case, res result) {
	hx.Eval()
	lanes, two := 0, 0
	for _, cs := range c.Conns {
		lanes += len(cs.Lanes)
		if len(cs.Lanes) > 1 && !cs.Shared {
			two++
		}
	}
	hx.Label(fmt.Sprintf("%s srvdotu=%v entries/dir=%s", test, c.SrvDotu, sizeClass(res.entries/len(c.Dirs))))
	hx.Label(fmt.Sprintf("%s dirs=%d", test, len(c.Dirs)))
	hx.Label(fmt.Sprintf("%s conns=%d", test, len(c.Conns)))
	if two > 0 {
		hx.Label(test + " several fids at once on one connection")
	}
	for _, cs := range c.Conns {
		if cs.Clnt {
			hx.Label(test + " go9p client with concurrent Readdir(0)")
			break
		}
	}
	overlap, transient, churned := 0, 0, 0
	for _, ps := range res.passes {
		overlap += ps.overlap
		transient += ps.transient
		if ps.churned && ps.complete {
			churned++
		}
	}
	for _, cs := range c.Conns {
		if cs.Shared {
			hx.Label(fmt.Sprintf("%s users of one fid=%d", test, len(cs.Lanes)))
		}
	}
	if c.Kind == "pipe" {
		if overlap > 0 {
			hx.Label(test + " Tread at offset>0 outstanding together with a Tread at offset 0 of the same fid")
		}
		hx.ExtraAdd("pipe_overlapping_treads", int64(overlap))
	}
	if ch := c.Churn; ch != nil {
		hx.Label(fmt.Sprintf("%s churn by %s", test, ch.Kind))
		hx.Label(fmt.Sprintf("%s churn live=%d", test, ch.Live))
		for _, d := range c.Dirs {
			if d.Bulk != nil {
				switch n := d.Bulk.N; {
				case n > 2048:
					hx.Label(test + " permanent entries >2048")
				case n > 1024:
					hx.Label(test + " permanent entries >1024")
				case n > 512:
					hx.Label(test + " permanent entries >512")
				}
			}
		}
		if transient > 0 {
			hx.Label(test + " short-lived entries seen in listings")
		}
		if churned > 0 {
			hx.Label(test + " listing completed while entries were removed")
		}
		hx.ExtraAdd("churn_removes", res.churnOps)
		hx.ExtraAdd("churn_listings_under_churn", int64(churned))
		hx.ExtraAdd("churn_transient_records", int64(transient))
	}
	if res.nontrivial {
		var seq []interface{}
		seq = append(seq, c.Kind, c.SrvDotu, c.SrvMsize)
		for _, d := range c.Dirs {
			seq = append(seq, fmt.Sprint(len(d.Ents), d.Bulk))
		}
		if c.Churn != nil {
			seq = append(seq, fmt.Sprint(*c.Churn))
		}
		for _, cs := range c.Conns {
			seq = append(seq, cs.Clnt, cs.Shared, cs.CliDotu, cs.CliMsize)
			for _, ln := range cs.Lanes {
				seq = append(seq, ln.Dir)
				for _, p := range ln.Passes {
					seq = append(seq, fmt.Sprint(p.Counts, p.Retry, p.MaxReads))
				}
			}
		}
		hx.NonTrivial(seq...)
	}
	reads := 0
	for _, ps := range res.passes {
		reads += ps.reads
	}
	hx.ExtraAdd("treads", int64(reads))
	hx.ExtraAdd("concurrent_listings", int64(len(res.passes)))
	hx.Extra("max_entries", int64(res.entries))
	hx.Extra("max_concurrent_lanes", int64(lanes))
}

// concPool: the quick tier takes its directories from this fixed pool, so that
// the cases of one process share the directories on disk.
var concPool = []Bulk{
	{N: 1000, Seed: 11, MinLen: 1, MaxLen: 11, Prefix: "A"},
	{N: 700, Seed: 12, MinLen: 8, MaxLen: 163, Prefix: "B"},
	{N: 400, Seed: 13, MinLen: 100, MaxLen: 255, Prefix: "C"},
	{N: 250, Seed: 14, MinLen: 200, MaxLen: 255, Prefix: "D"},
	{N: 900, Seed: 15, MinLen: 40, MaxLen: 50, Prefix: "E"},
	{N: 600, Seed: 16, MinLen: 1, MaxLen: 156, Prefix: "F"},
}

// genConc draws a "conc" case: ndirs directories, from the pool (pool=true)
// or of lo..hi entries with drawn name lengths.
func genConc(t *rapid.T, pool bool, maxDirs, lo, hi, maxConns int) *Case {
	c := &Case{Kind: "conc"}
	c.SrvDotu = rapid.IntRange(0, 3).Draw(t, "srvplain") != 0
	c.SrvMsize = rapid.SampledFrom([]uint32{4096, 8192, 65536}).Draw(t, "srvmsize")
	ndirs := rapid.IntRange(2, maxDirs).Draw(t, "ndirs")
	for i := 0; i < ndirs; i++ {
		if pool {
			bk := concPool[rapid.IntRange(0, len(concPool)-1).Draw(t, "pool")]
			if !c.SrvDotu && bk.N > 600 {
				bk.N = 600 // plain 9P2000: user name lookups per entry
			}
			c.Dirs = append(c.Dirs, DirSpec{Bulk: &bk})
			continue
		}
		d := DirSpec{Bulk: &Bulk{
			N:      rapid.IntRange(lo, hi).Draw(t, "n"),
			Seed:   rapid.Uint64().Draw(t, "seed"),
			MinLen: rapid.SampledFrom([]int{1, 8, 40, 100, 200}).Draw(t, "minlen"),
			Prefix: string(rune('A' + i)),
		}}
		d.Bulk.MaxLen = d.Bulk.MinLen + rapid.SampledFrom([]int{0, 10, 50, 155}).Draw(t, "spread")
		if d.Bulk.MaxLen > 255 {
			d.Bulk.MaxLen = 255
		}
		if !c.SrvDotu && d.Bulk.N > 600 {
			d.Bulk.N = 600 // plain 9P2000: user name lookups per entry
		}
		if rapid.IntRange(0, 3).Draw(t, "extremes") == 0 {
			d.Ents = []Ent{{Name: "z", Kind: "f"}, {Name: "Z" + filler(1, 254), Kind: "d"}, {Name: "L" + filler(2, 253), Kind: "l", Target: "T" + filler(3, 200)}}
		}
		c.Dirs = append(c.Dirs, d)
	}
	nconns := rapid.IntRange(2, maxConns).Draw(t, "nconns")
	rounds := rapid.IntRange(2, 4).Draw(t, "rounds")
	next := 0
	for ci := 0; ci < nconns; ci++ {
		cs := ConnSpec{CliDotu: rapid.IntRange(0, 4).Draw(t, "cliplain") != 0}
		cs.CliMsize = rapid.SampledFrom([]uint32{4096, 8192, 65536}).Draw(t, "climsize")
		neg := cs.CliMsize
		if c.SrvMsize < neg {
			neg = c.SrvMsize
		}
		dotu := c.SrvDotu && cs.CliDotu
		k := mustK(t, dotu)
		nl := 1
		if rapid.IntRange(0, 2).Draw(t, "twolanes") == 0 {
			nl = 2
		}
		if rapid.IntRange(0, 3).Draw(t, "clnt") == 0 {
			cs.Clnt = true
			cs.CliDotu = true
			dotu = c.SrvDotu
			k = mustK(t, dotu)
			nl = rapid.IntRange(2, 4).Draw(t, "clntlanes")
			if neg = cs.CliMsize + ioHdr; c.SrvMsize < neg {
				neg = c.SrvMsize
			}
		}
		for li := 0; li < nl; li++ {
			ln := Lane{Dir: next % ndirs}
			next++
			if rapid.IntRange(0, 3).Draw(t, "anydir") == 0 {
				ln.Dir = rapid.IntRange(0, ndirs-1).Draw(t, "dir") // also: two fids on the same directory
			}
			sizes := sizesOf(k, c.Dirs[ln.Dir].ents(), dotu)
			for r := 0; r < rounds; r++ {
				p := Pass{}
				label := fmt.Sprintf("c%dl%dp%d", ci, li, r)
				if cs.Clnt {
					ln.Passes = append(ln.Passes, p) // Readdir(0) chooses its own counts
					continue
				}
				if rapid.IntRange(0, 2).Draw(t, label+".big") == 0 {
					p.Counts = []uint32{neg - ioHdr}
				} else {
					genCounts(t, &p, sizes, neg-ioHdr, label)
				}
				if r < rounds-1 && rapid.IntRange(0, 3).Draw(t, label+".abandon") == 0 {
					p.MaxReads = rapid.IntRange(1, 6).Draw(t, label+".maxreads")
				}
				ln.Passes = append(ln.Passes, p)
			}
			cs.Lanes = append(cs.Lanes, ln)
		}
		c.Conns = append(c.Conns, cs)
	}
	return c
}

// TestPropConc: directories of one server listed at the same moment.
func TestPropConc(t *testing.T) {
	defer dropBase()
	hx.Check(t, "conc", hx.N(12, 16), func(t *rapid.T) {
		var c *Case
		if hx.Thorough() {
			c = genConc(t, false, 5, 200, 2000, 8)
		} else {
			c = genConc(t, true, 4, 0, 0, 6)
		}
		exec(t, "conc", c)
	})
}
