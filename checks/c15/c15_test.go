// C15 — directory reads return whole entries, each exactly once.
//
// Ufs runs in-process on scratch directories. A raw reference client issues
// Tread with exactly chosen offset/count (only protocol-legal offsets: 0, or
// the previous offset plus the bytes returned), every Rread payload is split
// with the strict reference stat decoder in the negotiated dialect, and the
// set of names of a listing is compared with os.ReadDir of the same
// directory. The go9p client's File.Readdir(0) is checked against the same
// oracle.
package c15

import (
	"encoding/json"
	"errors"
	"fmt"
	"os"
	"path/filepath"
	"sort"
	"strconv"
	"strings"
	"sync"
	"testing"
	"time"

	"github.com/rminnich/go9p"
	"pgregory.net/rapid"
	"verif/internal/hx"
	"verif/internal/rawc"
	"verif/internal/ref9p"
	"verif/internal/ufsrv"
)

func TestMain(m *testing.M) { hx.Main(m, "C15") }

// ---------------------------------------------------------------------------
// case description

// Ent is one directory entry to create.
type Ent struct {
	Name   string `json:"name"`
	Kind   string `json:"kind"`             // "f" file, "d" directory, "l" symlink
	Target string `json:"target,omitempty"` // symlink target (its length is part of the .u record)
}

// Bulk describes many entries compactly; names are a pure function of
// (Seed, index): base-36 index, '-', filler up to a length in [MinLen,MaxLen].
type Bulk struct {
	N      int    `json:"n"`
	Seed   uint64 `json:"seed"`
	MinLen int    `json:"minlen"`
	MaxLen int    `json:"maxlen"`
	Prefix string `json:"prefix,omitempty"` // put before every name (keeps the names of two Bulks apart)
}

// Drop removes N names of the sorted listing starting at index From mod n
// (wrapping around); All removes every entry.
type Drop struct {
	From int  `json:"from,omitempty"`
	N    int  `json:"n,omitempty"`
	All  bool `json:"all,omitempty"`
}

// Mut changes the directory before a pass starts. Order: Remove, Drop, Add,
// Adds, AddBulk; a name that exists already is not created again.
type Mut struct {
	Add     *Ent  `json:"add,omitempty"`
	Remove  int   `json:"remove,omitempty"` // >0: remove the (Remove-1 mod n)-th name in sorted order
	Drop    *Drop `json:"drop,omitempty"`
	Adds    []Ent `json:"adds,omitempty"`
	AddBulk *Bulk `json:"addbulk,omitempty"`
}

// adds returns everything the mutation may create.
func (m *Mut) adds() []Ent {
	if m == nil {
		return nil
	}
	var out []Ent
	if m.Add != nil {
		out = append(out, *m.Add)
	}
	out = append(out, m.Adds...)
	if m.AddBulk != nil {
		out = append(out, m.AddBulk.ents()...)
	}
	return out
}

// Pass is one listing that starts at offset 0.
type Pass struct {
	Mut      *Mut     `json:"mut,omitempty"`
	Counts   []uint32 `json:"counts"`             // count of the i-th read is Counts[i mod len] (capped at msize-24)
	Retry    uint32   `json:"retry,omitempty"`    // count used at the same offset after an Rerror (0: msize-24)
	MaxReads int      `json:"maxreads,omitempty"` // >0: abandon the listing after that many Treads (restart mid-listing)
}

type Case struct {
	Kind     string `json:"kind"` // "raw": raw client reads; "clnt": File.Readdir(0) through the go9p client
	SrvDotu  bool   `json:"srvdotu"`
	CliDotu  bool   `json:"clidotu"` // raw only: version string proposed
	SrvMsize uint32 `json:"srvmsize"`
	CliMsize uint32 `json:"climsize"` // raw: msize proposed in Tversion; clnt: msize argument of MountConn (+24 on the wire)
	Ents     []Ent  `json:"ents,omitempty"`
	Bulk     *Bulk  `json:"bulk,omitempty"`
	Passes   []Pass `json:"passes"`
	Desc     string `json:"desc,omitempty"`

	// kinds "conc", "pipe", "churn": several directories of one server listed
	// at the same time (pipe: several users of ONE fid; churn: while other
	// parties create and remove short-lived entries), see reshape_conc_test.go
	// and pipe_churn_test.go
	Dirs  []DirSpec  `json:"dirs,omitempty"`
	Conns []ConnSpec `json:"conns,omitempty"`
	Churn *ChurnSpec `json:"churn,omitempty"`
}

// isConc: the case runs through runConc.
func isConc(c *Case) bool { return c.Kind == "conc" || c.Kind == "pipe" || c.Kind == "churn" }

// ---------------------------------------------------------------------------
// environment: one scratch base directory per process, servers cached per
// configuration (Ufs.Start creates a logger goroutine that cannot be stopped).

type srvKey struct {
	dotu  bool
	msize uint32
}

var (
	envMu   sync.Mutex
	baseDir string
	servers = map[srvKey]*go9p.Ufs{}
	calK    = map[bool]int{} // dialect -> record size minus len(name) minus len(ext), for files owned by the test's uid
)

type harnessErr struct{ msg string }

func (e *harnessErr) Error() string { return "harness: " + e.msg }

func hErr(format string, a ...interface{}) error { return &harnessErr{fmt.Sprintf(format, a...)} }

func base() (string, error) {
	envMu.Lock()
	defer envMu.Unlock()
	if baseDir != "" {
		if _, err := os.Stat(baseDir); err == nil {
			return baseDir, nil
		}
	}
	d, err := os.MkdirTemp("", "verif-c15-")
	if err != nil {
		return "", err
	}
	baseDir = d
	servers = map[srvKey]*go9p.Ufs{}
	return d, nil
}

func dropBase() {
	envMu.Lock()
	defer envMu.Unlock()
	if baseDir != "" {
		_ = os.RemoveAll(baseDir)
		baseDir = ""
		servers = map[srvKey]*go9p.Ufs{}
	}
}

func server(dotu bool, msize uint32) (*go9p.Ufs, error) {
	b, err := base()
	if err != nil {
		return nil, err
	}
	envMu.Lock()
	defer envMu.Unlock()
	k := srvKey{dotu, msize}
	if u := servers[k]; u != nil {
		return u, nil
	}
	u := ufsrv.Start(b, dotu, msize)
	servers[k] = u
	return u, nil
}

// ---------------------------------------------------------------------------
// directory construction

func splitmix(x uint64) uint64 {
	x += 0x9E3779B97F4A7C15
	x = (x ^ (x >> 30)) * 0xBF58476D1CE4E5B9
	x = (x ^ (x >> 27)) * 0x94D049BB133111EB
	return x ^ (x >> 31)
}

const fillChars = "abcdefghijklmnopqrstuvwxyzABCDEFGHIJKLMNOPQRSTUVWXYZ0123456789_-+,=~ "

// filler returns n bytes that are a pure function of seed.
func filler(seed uint64, n int) string {
	var sb strings.Builder
	x := seed
	for sb.Len() < n {
		x = splitmix(x)
		v := x
		for j := 0; j < 8 && sb.Len() < n; j++ {
			sb.WriteByte(fillChars[int(v%uint64(len(fillChars)-1))]) // no blank: keeps names free of a trailing blank
			v /= 251
		}
	}
	return sb.String()
}

func (b *Bulk) ents() []Ent {
	out := make([]Ent, 0, b.N)
	for i := 0; i < b.N; i++ {
		h := splitmix(b.Seed ^ uint64(i)*0x100000001B3)
		name := b.Prefix + strconv.FormatInt(int64(i), 36) + "-"
		want := b.MinLen
		if b.MaxLen > b.MinLen {
			want += int(h % uint64(b.MaxLen-b.MinLen+1))
		}
		if want > 255 {
			want = 255
		}
		if len(name) < want {
			name += filler(h, want-len(name))
		}
		e := Ent{Name: name, Kind: "f"}
		switch (h >> 32) % 8 {
		case 0:
			e.Kind = "d"
		case 1:
			e.Kind = "l"
			e.Target = "t" + filler(h>>7, int((h>>40)%60))
		}
		out = append(out, e)
	}
	return out
}

func (c *Case) allEnts() []Ent {
	out := append([]Ent(nil), c.Ents...)
	if c.Bulk != nil {
		out = append(out, c.Bulk.ents()...)
	}
	return out
}

func validName(n string) bool {
	return n != "" && n != "." && n != ".." && len(n) <= 255 && !strings.ContainsAny(n, "/\x00")
}

func mkEnt(dir string, e Ent) error {
	if !validName(e.Name) {
		return hErr("invalid entry name %q", e.Name)
	}
	p := filepath.Join(dir, e.Name)
	switch e.Kind {
	case "d":
		return os.Mkdir(p, 0o755)
	case "l":
		t := e.Target
		if t == "" {
			t = "x"
		}
		return os.Symlink(t, p)
	default:
		return os.WriteFile(p, nil, 0o644)
	}
}

func listNames(dir string) ([]string, error) {
	des, err := os.ReadDir(dir)
	if err != nil {
		return nil, err
	}
	out := make([]string, len(des))
	for i, d := range des {
		out[i] = d.Name()
	}
	sort.Strings(out)
	return out, nil
}

func applyMut(dir string, m *Mut) error {
	if m == nil {
		return nil
	}
	if m.Remove > 0 {
		names, err := listNames(dir)
		if err != nil {
			return err
		}
		if len(names) > 0 {
			if err := os.RemoveAll(filepath.Join(dir, names[(m.Remove-1)%len(names)])); err != nil {
				return err
			}
		}
	}
	if d := m.Drop; d != nil {
		names, err := listNames(dir)
		if err != nil {
			return err
		}
		for _, n := range dropped(names, d) {
			if err := os.RemoveAll(filepath.Join(dir, n)); err != nil {
				return err
			}
		}
	}
	for _, e := range m.adds() {
		if _, err := os.Lstat(filepath.Join(dir, e.Name)); err == nil {
			continue // already there: no-op
		}
		if err := mkEnt(dir, e); err != nil {
			return err
		}
	}
	return nil
}

// dropped returns the names (of a sorted listing) a Drop removes.
func dropped(names []string, d *Drop) []string {
	n := len(names)
	if d == nil || n == 0 {
		return nil
	}
	if d.All || d.N >= n {
		return names
	}
	var out []string
	from := d.From % n
	if from < 0 {
		from += n
	}
	for i := 0; i < d.N; i++ {
		out = append(out, names[(from+i)%n])
	}
	return out
}

// ---------------------------------------------------------------------------
// record-size arithmetic used for generation and for the "count was large
// enough" precondition. K is measured once per dialect from a probe
// directory (the uid/gid/muid strings are the same for every entry this
// process creates); len(name) and, in 9P2000.u for symlinks, len(target)
// are the only varying parts of a record.

// calibrate never fails because of the server: when the probe listing does
// not work (which the checks proper will report as a violation) a generous
// fixed K is used so that generation can go on.
func calibrate(dotu bool) (int, error) {
	envMu.Lock()
	k, ok := calK[dotu]
	envMu.Unlock()
	if ok {
		return k, nil
	}
	k, err := measureK(dotu)
	if err != nil {
		var he *harnessErr
		if !errors.As(err, &he) {
			return 0, err
		}
		hx.Label("calibration probe failed, fixed K used")
		k = 49 + 3*(2+14)
		if dotu {
			k += 14
		}
	}
	envMu.Lock()
	calK[dotu] = k
	envMu.Unlock()
	return k, nil
}

func measureK(dotu bool) (int, error) {
	b, err := base()
	if err != nil {
		return 0, err
	}
	dir, err := os.MkdirTemp(b, "probe")
	if err != nil {
		return 0, err
	}
	defer os.RemoveAll(dir)
	if err := mkEnt(dir, Ent{Name: "p", Kind: "f"}); err != nil {
		return 0, err
	}
	u, err := server(dotu, 8192)
	if err != nil {
		return 0, err
	}
	s, err := openRaw(u, filepath.Base(dir), dotu, 8192)
	if err != nil {
		return 0, err
	}
	defer s.rc.Close()
	r, err := s.rc.Read(s.fid, 0, s.max)
	if err != nil || r.Type != ref9p.Rread {
		return 0, hErr("calibration read failed: %v %v", err, r)
	}
	if len(r.Data) == 0 {
		return 0, hErr("calibration read returned nothing")
	}
	st, n, err := ref9p.DecodeStat(r.Data, s.dotu)
	if err != nil || n != len(r.Data) || st.Name != "p" {
		return 0, hErr("calibration record does not decode: %v", err)
	}
	return n - 1, nil
}

func recSize(k int, e Ent, dotu bool) int {
	n := k + len(e.Name)
	if dotu && e.Kind == "l" {
		t := e.Target
		if t == "" {
			t = "x"
		}
		n += len(t)
	}
	return n
}

// ---------------------------------------------------------------------------
// raw session

type rawSess struct {
	rc    *rawc.C
	fid   uint32
	dotu  bool
	msize uint32
	max   uint32 // msize - IOHDRSZ
}

const ioHdr = 24

func openRaw(u *go9p.Ufs, aname string, cliDotu bool, cliMsize uint32) (*rawSess, error) {
	rc := ufsrv.Raw(u, "c15")
	rc.Timeout = 120 * time.Second
	ver := "9P2000"
	if cliDotu {
		ver = "9P2000.u"
	}
	ok := false
	defer func() {
		if !ok {
			rc.Close()
		}
	}()
	r, err := rc.Version(cliMsize, ver)
	if err != nil {
		return nil, err
	}
	if r.Type != ref9p.Rversion {
		return nil, hErr("Tversion(%d,%s) answered with %s %q", cliMsize, ver, ref9p.TypeName(r.Type), r.Ename)
	}
	if r.Msize <= ioHdr {
		return nil, hErr("negotiated msize %d leaves no room for data", r.Msize)
	}
	if r, err = rc.Attach(1, ref9p.NOFID, "root", aname, 0); err != nil {
		return nil, err
	} else if r.Type != ref9p.Rattach {
		return nil, hErr("Tattach(%q): %s %q", aname, ref9p.TypeName(r.Type), r.Ename)
	}
	if r, err = rc.Walk(1, 2); err != nil {
		return nil, err
	} else if r.Type != ref9p.Rwalk {
		return nil, hErr("Twalk clone: %s %q", ref9p.TypeName(r.Type), r.Ename)
	}
	if r, err = rc.Open(2, 0); err != nil {
		return nil, err
	} else if r.Type != ref9p.Ropen {
		return nil, hErr("Topen: %s %q", ref9p.TypeName(r.Type), r.Ename)
	}
	ok = true
	return &rawSess{rc: rc, fid: 2, dotu: rc.Dotu, msize: rc.Msize, max: rc.Msize - ioHdr}, nil
}

// passStats is what a pass reports for the evidence.
type passStats struct {
	reads, nonEmpty, errors, records int
	complete                         bool
	overlap                          int  // pipe: Treads of this listing at an offset > 0 that were outstanding together with a Tread at offset 0 of another user of the fid
	transient                        int  // churn: records of short-lived entries (not judged)
	churned                          bool // churn: entries were removed by the other party between the first Tread and the last reply
}

type violation struct{ msg string }

func (v *violation) Error() string { return v.msg }

func viol(format string, a ...interface{}) error { return &violation{fmt.Sprintf(format, a...)} }

// splitRecords strictly decodes a payload into whole stat records.
func splitRecords(d []byte, dotu bool) ([]*ref9p.Stat, []int, error) {
	var recs []*ref9p.Stat
	var sizes []int
	rest := d
	for len(rest) > 0 {
		s, n, err := ref9p.DecodeStat(rest, dotu)
		if err != nil {
			return recs, sizes, fmt.Errorf("record %d at payload offset %d of %d: %v", len(recs), len(d)-len(rest), len(d), err)
		}
		recs = append(recs, s)
		sizes = append(sizes, n)
		rest = rest[n:]
	}
	return recs, sizes, nil
}

// lister is the state of one listing that starts at offset 0: next says
// which Tread comes next, feed judges the reply to it.
type lister struct {
	s        *rawSess
	fid      uint32
	p        *Pass
	expected []string
	exp      map[string]bool
	seen     map[string]bool
	largest  int
	where    string
	counts   []uint32
	limit    int
	off      uint64
	failed   []uint32 // counts answered with Rerror at the current offset
	idx      int
	cnt      uint32 // count of the Tread announced by next
	ps       passStats
	ignore   func(name string) bool // churn: names of short-lived entries; their records are not judged
	lastErr  string                 // Ename of the last Rerror
	rem0     int64                  // churn: entries removed by the other party before the listing began
}

// largest is the size of the largest record the directory can hold by the
// calibrated arithmetic (precondition of "count large enough").
func (s *rawSess) newLister(fid uint32, p *Pass, expected []string, largest int, where string) *lister {
	l := &lister{s: s, fid: fid, p: p, expected: expected, largest: largest, where: where}
	l.exp = make(map[string]bool, len(expected))
	for _, n := range expected {
		l.exp[n] = true
	}
	l.seen = make(map[string]bool, len(expected))
	l.counts = p.Counts
	if len(l.counts) == 0 {
		l.counts = []uint32{s.max}
	}
	l.limit = 4*len(expected) + 64
	return l
}

// next returns offset and count of the next Tread; done means the pass is
// over without one (abandoned mid-listing; the next pass restarts at 0).
func (l *lister) next() (off uint64, cnt uint32, done bool, err error) {
	s, p := l.s, l.p
	if p.MaxReads > 0 && l.ps.reads >= p.MaxReads {
		return 0, 0, true, nil
	}
	if l.ps.reads >= l.limit {
		return 0, 0, true, viol("%s: listing of %d entries not finished after %d reads", l.where, len(l.expected), l.ps.reads)
	}
	if len(l.failed) == 0 {
		cnt = l.counts[l.idx%len(l.counts)]
		l.idx++
		if cnt > s.max {
			cnt = s.max
		}
	} else {
		last := l.failed[len(l.failed)-1]
		retry := p.Retry
		if retry == 0 || retry > s.max {
			retry = s.max
		}
		switch {
		case retry > last:
			cnt = retry
		case s.max > last:
			cnt = s.max
		default:
			// even the largest legal count was refused
			if int(s.max) >= l.largest {
				return 0, 0, true, viol("%s: Tread offset=%d count=%d (msize-24) answered with Rerror although no entry exceeds %d bytes", l.where, l.off, last, l.largest)
			}
			return 0, 0, true, hErr("%s: msize-24=%d is smaller than the largest entry (%d): precondition not met by the generator", l.where, s.max, l.largest)
		}
	}
	l.cnt = cnt
	l.ps.reads++
	return l.off, cnt, false, nil
}

// feed judges the reply to the Tread announced by next; done means the
// zero-length reply that ends a complete listing was seen.
func (l *lister) feed(r *ref9p.Msg) (done bool, err error) {
	s, where, off, cnt := l.s, l.where, l.off, l.cnt
	if r.Type == ref9p.Rerror {
		l.ps.errors++
		l.failed = append(l.failed, cnt)
		l.lastErr = r.Ename
		return false, nil
	}
	if r.Type != ref9p.Rread {
		return true, hErr("%s: Tread answered with %s", where, ref9p.TypeName(r.Type))
	}
	d := r.Data
	if len(d) > int(cnt) {
		return true, viol("%s: Tread offset=%d count=%d returned %d bytes", where, off, cnt, len(d))
	}
	if len(d) == 0 {
		if len(l.failed) > 0 {
			return true, viol("%s: Tread offset=%d count=%v answered with Rerror, then count=%d with a zero-length Rread: no entry was too large", where, off, l.failed, cnt)
		}
		var missing []string
		for _, n := range l.expected {
			if !l.seen[n] {
				missing = append(missing, n)
			}
		}
		if len(missing) > 0 {
			return true, viol("%s: zero-length Rread at offset=%d count=%d after %d of %d entries; never returned: %s", where, off, cnt, len(l.seen), len(l.expected), someNames(missing))
		}
		l.ps.complete = true
		return true, nil
	}
	recs, sizes, derr := splitRecords(d, s.dotu)
	if derr != nil {
		return true, viol("%s: Tread offset=%d count=%d: payload of %d bytes is not a sequence of whole stat records (dotu=%v): %v", where, off, cnt, len(d), s.dotu, derr)
	}
	for _, fc := range l.failed {
		if int(fc) >= sizes[0] {
			return true, viol("%s: Tread offset=%d count=%d answered with Rerror (%q) although the next entry %q is only %d bytes", where, off, fc, l.lastErr, recs[0].Name, sizes[0])
		}
	}
	l.failed = l.failed[:0]
	for _, st := range recs {
		if l.ignore != nil && l.ignore(st.Name) {
			l.ps.transient++
			continue
		}
		if !l.exp[st.Name] {
			return true, viol("%s: Tread offset=%d count=%d returned an entry %q that os.ReadDir does not list", where, off, cnt, st.Name)
		}
		if l.seen[st.Name] {
			return true, viol("%s: Tread offset=%d count=%d returned entry %q a second time in one listing", where, off, cnt, st.Name)
		}
		l.seen[st.Name] = true
	}
	l.ps.nonEmpty++
	l.ps.records += len(recs)
	l.off += uint64(len(d))
	return false, nil
}

// runPass performs one listing from offset 0 and judges every reply.
func (s *rawSess) runPass(p *Pass, expected []string, largest int, where string) (passStats, error) {
	l := s.newLister(s.fid, p, expected, largest, where)
	for {
		off, cnt, done, err := l.next()
		if done || err != nil {
			return l.ps, err
		}
		r, err := s.rc.Read(s.fid, off, cnt)
		if err != nil {
			return l.ps, err
		}
		if done, err = l.feed(r); done || err != nil {
			return l.ps, err
		}
	}
}

func someNames(n []string) string {
	const max = 5
	var parts []string
	for i, s := range n {
		if i == max {
			parts = append(parts, fmt.Sprintf("… (%d in all)", len(n)))
			break
		}
		if len(s) > 40 {
			s = s[:40] + fmt.Sprintf("…(%d bytes)", len(s))
		}
		parts = append(parts, strconv.Quote(s))
	}
	return strings.Join(parts, ", ")
}

// result of one case, for the evidence counters
type result struct {
	passes      []passStats
	nontrivial  bool
	dotu        bool
	msize       uint32
	entries     int
	clientReads int
	churnOps    int64 // churn: entries removed by the other parties while the case ran
}

// RunCase executes a case; a *violation error is a property violation, a
// *harnessErr (or any other error) is infrastructure trouble.
func RunCase(c *Case) (res result, err error) {
	b, err := base()
	if err != nil {
		return res, hErr("%v", err)
	}
	if isConc(c) {
		return runConcCase(c, b)
	}
	dir, err := os.MkdirTemp(b, "d")
	if err != nil {
		return res, hErr("%v", err)
	}
	defer os.RemoveAll(dir)
	ents := c.allEnts()
	for _, e := range ents {
		if err := mkEnt(dir, e); err != nil {
			return res, hErr("creating %q: %v", e.Name, err)
		}
	}
	res.entries = len(ents)
	u, err := server(c.SrvDotu, c.SrvMsize)
	if err != nil {
		return res, hErr("%v", err)
	}
	type out struct {
		res result
		err error
	}
	ch := make(chan out, 1)
	go func() {
		var o out
		o.res = res
		if c.Kind == "clnt" {
			o.err = runClnt(c, u, dir, ents, &o.res)
		} else {
			o.err = runRaw(c, u, dir, ents, &o.res)
		}
		ch <- o
	}()
	select {
	case o := <-ch:
		return o.res, classify(o.err)
	case <-time.After(300 * time.Second):
		return res, classify(rawc.ErrTimeout)
	}
}

// classify turns a reply timeout into a violation only when something is
// stuck inside the library.
func classify(err error) error {
	if err == nil {
		return nil
	}
	if errors.Is(err, rawc.ErrTimeout) {
		if st := hx.BlockedInGo9p(); st != "" {
			return viol("no reply within the deadline; goroutines blocked inside go9p:\n%s", st)
		}
		return hErr("deadline without a goroutine blocked inside go9p")
	}
	return err
}

func largestOf(k int, ents []Ent, c *Case, dotu bool) int {
	l := 0
	for _, e := range ents {
		if n := recSize(k, e, dotu); n > l {
			l = n
		}
	}
	for _, p := range c.Passes {
		for _, e := range p.Mut.adds() {
			if n := recSize(k, e, dotu); n > l {
				l = n
			}
		}
	}
	return l
}

func runRaw(c *Case, u *go9p.Ufs, dir string, ents []Ent, res *result) error {
	s, err := openRaw(u, filepath.Base(dir), c.CliDotu, c.CliMsize)
	if err != nil {
		return err
	}
	defer s.rc.Close()
	res.dotu, res.msize = s.dotu, s.msize
	k, err := calibrate(s.dotu)
	if err != nil {
		return err
	}
	largest := largestOf(k, ents, c, s.dotu)
	for i := range c.Passes {
		p := &c.Passes[i]
		if err := applyMut(dir, p.Mut); err != nil {
			return hErr("mutation before pass %d: %v", i, err)
		}
		expected, err := listNames(dir)
		if err != nil {
			return hErr("%v", err)
		}
		ps, err := s.runPass(p, expected, largest, fmt.Sprintf("pass %d", i))
		res.passes = append(res.passes, ps)
		if err != nil {
			return err
		}
		if ps.complete && ps.nonEmpty >= 2 {
			res.nontrivial = true
		}
	}
	return nil
}

func runClnt(c *Case, u *go9p.Ufs, dir string, ents []Ent, res *result) error {
	clnt, _, err := ufsrv.Mount(u, "c15c", filepath.Base(dir), c.CliMsize)
	if err != nil {
		return hErr("mount: %v", err)
	}
	defer clnt.Unmount()
	res.dotu, res.msize = clnt.Dotu, clnt.Msize
	k, err := calibrate(clnt.Dotu)
	if err != nil {
		return err
	}
	largest := largestOf(k, ents, c, clnt.Dotu)
	if int(clnt.Msize)-ioHdr < largest {
		return hErr("client msize-24=%d is smaller than the largest entry (%d)", clnt.Msize-ioHdr, largest)
	}
	f, err := clnt.FOpen("/", go9p.OREAD)
	if err != nil {
		return hErr("FOpen: %v", err)
	}
	defer f.Close()
	passes := c.Passes
	if len(passes) == 0 {
		passes = []Pass{{}}
	}
	for i := range passes {
		if err := applyMut(dir, passes[i].Mut); err != nil {
			return hErr("mutation before pass %d: %v", i, err)
		}
		expected, err := listNames(dir)
		if err != nil {
			return hErr("%v", err)
		}
		file := f
		if i > 0 {
			file = go9p.FidFile(f.Fid, 0) // a fresh File on the same fid reads from offset 0 again
		}
		dirs, err := file.Readdir(0)
		if err != nil {
			return viol("Readdir(0) #%d of a directory with %d entries (msize %d, dotu=%v): %v", i, len(expected), clnt.Msize, clnt.Dotu, err)
		}
		exp := make(map[string]bool, len(expected))
		for _, n := range expected {
			exp[n] = true
		}
		seen := map[string]bool{}
		total := 0
		for _, d := range dirs {
			if d == nil {
				return viol("Readdir(0) #%d returned a nil entry", i)
			}
			if !exp[d.Name] {
				return viol("Readdir(0) #%d returned %q which os.ReadDir does not list", i, d.Name)
			}
			if seen[d.Name] {
				return viol("Readdir(0) #%d returned %q twice", i, d.Name)
			}
			seen[d.Name] = true
			total += int(d.Size) + 2
		}
		var missing []string
		for _, n := range expected {
			if !seen[n] {
				missing = append(missing, n)
			}
		}
		if len(missing) > 0 {
			return viol("Readdir(0) #%d (msize %d, dotu=%v) returned %d of %d entries; missing: %s", i, clnt.Msize, clnt.Dotu, len(dirs), len(expected), someNames(missing))
		}
		// the File now stands at the end of the listing: reading on must not
		// return any entry a second time
		more, err := file.Readdir(0)
		if err != nil {
			return viol("Readdir(0) #%d listed all %d entries, a further Readdir(0) on the same File failed: %v", i, len(expected), err)
		}
		if len(more) > 0 {
			return viol("Readdir(0) #%d listed all %d entries, a further Readdir(0) on the same File returned %d more, first %q", i, len(expected), len(more), more[0].Name)
		}
		ps := passStats{records: len(dirs), complete: true}
		if total > int(clnt.Msize)-ioHdr {
			ps.nonEmpty = 2 // needed more than one read
			res.nontrivial = true
		}
		res.passes = append(res.passes, ps)
	}
	return nil
}

// ---------------------------------------------------------------------------
// evidence helpers

func sizeClass(n int) string {
	switch {
	case n <= 2:
		return strconv.Itoa(n)
	case n <= 12:
		return "3-12"
	case n <= 80:
		return "13-80"
	case n <= 500:
		return "81-500"
	default:
		return ">500"
	}
}

func msizeClass(m uint32) string {
	switch {
	case m <= 256:
		return "<=256"
	case m <= 512:
		return "<=512"
	case m <= 1024:
		return "<=1024"
	case m <= 8192:
		return "<=8192"
	default:
		return ">8192"
	}
}

func shapeOf(ents []Ent) string {
	var sb strings.Builder
	es := append([]Ent(nil), ents...)
	sort.Slice(es, func(i, j int) bool { return es[i].Name < es[j].Name })
	for _, e := range es {
		fmt.Fprintf(&sb, "%d%s%d,", len(e.Name), e.Kind, len(e.Target))
	}
	return sb.String()
}

func shape(c *Case) string {
	var sb strings.Builder
	sb.WriteString(shapeOf(c.Ents))
	if c.Bulk != nil {
		fmt.Fprintf(&sb, "bulk%v", *c.Bulk)
	}
	return sb.String()
}

func account(test string, c *Case, res result) {
	if isConc(c) {
		accountConc(test, c, res)
		return
	}
	hx.Eval()
	muts, restarts, small := 0, 0, 0
	var state []Ent
	simulate := false
	for _, p := range c.Passes {
		if p.Mut != nil && (p.Mut.Drop != nil || len(p.Mut.Adds) > 0 || p.Mut.AddBulk != nil) {
			simulate = true
		}
	}
	if simulate {
		state = simMut(c.allEnts(), nil)
	}
	for i, p := range c.Passes {
		if simulate {
			after := simMut(state, p.Mut)
			if p.Mut != nil && i > 0 && i <= len(res.passes) {
				hx.Label(test + " same fid relists after reshape: " + reshapeClass(state, after))
			}
			state = after
		}
		if p.Mut != nil {
			muts++
		}
		if p.MaxReads > 0 {
			restarts++
		}
	}
	for _, ps := range res.passes {
		small += ps.errors
	}
	if simulate || strings.Contains(test, "reshape") {
		// the reshape classes are labelled below; keep the label count small
		hx.Label(fmt.Sprintf("%s kind=%s dotu=%v initial entries=%s", test, c.Kind, res.dotu, sizeClass(res.entries)))
	} else {
		hx.Label(fmt.Sprintf("%s kind=%s dotu=%v msize%s entries=%s", test, c.Kind, res.dotu, msizeClass(res.msize), sizeClass(res.entries)))
	}
	if muts > 0 {
		hx.Label(test + " restart-after-add/remove")
	}
	if restarts > 0 {
		hx.Label(test + " restart-mid-listing")
	}
	if small > 0 {
		hx.Label(test + " count-too-small-errors-seen")
	}
	if res.nontrivial {
		var seq []interface{}
		seq = append(seq, c.Kind, res.dotu, res.msize, shape(c))
		for _, p := range c.Passes {
			seq = append(seq, fmt.Sprint(p.Counts, p.Retry, p.MaxReads, p.Mut != nil))
			if m := p.Mut; m != nil && (m.Drop != nil || len(m.Adds) > 0) {
				seq = append(seq, fmt.Sprint(m.Drop), shapeOf(m.Adds))
			}
		}
		hx.NonTrivial(seq...)
	}
	reads := 0
	for _, ps := range res.passes {
		reads += ps.reads
	}
	hx.ExtraAdd("treads", int64(reads))
	hx.Extra("max_entries", int64(res.entries))
}

func sampleOf(c *Case) interface{} {
	s := *c
	if len(s.Ents) > 4 {
		s.Desc += fmt.Sprintf(" (%d entries, 4 shown)", len(s.Ents))
		s.Ents = s.Ents[:4]
	}
	es := make([]Ent, len(s.Ents))
	for i, e := range s.Ents {
		if len(e.Name) > 24 {
			e.Name = e.Name[:24] + fmt.Sprintf("…(%d)", len(e.Name))
		}
		if len(e.Target) > 24 {
			e.Target = e.Target[:24] + fmt.Sprintf("…(%d)", len(e.Target))
		}
		es[i] = e
	}
	s.Ents = es
	ps := make([]Pass, len(s.Passes))
	for i, p := range s.Passes {
		if len(p.Counts) > 8 {
			p.Counts = p.Counts[:8]
		}
		if p.Mut != nil && p.Mut.Add != nil && len(p.Mut.Add.Name) > 24 {
			m := *p.Mut
			a := *m.Add
			a.Name = a.Name[:24] + fmt.Sprintf("…(%d)", len(a.Name))
			m.Add = &a
			p.Mut = &m
		}
		ps[i] = p
	}
	s.Passes = ps
	return s
}

// exec runs a case for a rapid property.
func exec(t *rapid.T, test string, c *Case) {
	hx.Journal(test, c)
	res, err := RunCase(c)
	account(test, c, res)
	hx.Sample(test, sampleOf(c))
	if err == nil {
		return
	}
	var v *violation
	if errors.As(err, &v) {
		hx.Failf(t, test, c, "%s", v.msg)
	}
	hx.Inconclusive(test + ": " + err.Error())
	t.Skip("infrastructure: " + err.Error())
}

// execEnum runs a case for an enumeration; returns false on a violation.
func execEnum(t *testing.T, test string, c *Case) bool {
	hx.Journal(test, c)
	res, err := RunCase(c)
	account(test, c, res)
	hx.Sample(test, sampleOf(c))
	if err == nil {
		return true
	}
	var v *violation
	if errors.As(err, &v) {
		hx.Violation(test, c, v.msg)
		t.Errorf("%s", v.msg)
		return false
	}
	hx.Inconclusive(test + ": " + err.Error())
	t.Errorf("infrastructure: %v", err)
	return false
}

// ---------------------------------------------------------------------------
// replay / regress

func TestReplay(t *testing.T) {
	e, err := hx.LoadReplay()
	if e == nil {
		t.Skip("no replay file", err)
	}
	defer dropBase()
	replayEnv(t, e, 25)
}

func replayEnv(t *testing.T, e *hx.Envelope, repeat int) {
	var c Case
	if err := json.Unmarshal(e.Case, &c); err != nil {
		t.Fatalf("bad case: %v", err)
	}
	if isConc(&c) {
		// schedule dependent: a replay runs the case until it fails, 25 times at most
		for i := 0; i < repeat; i++ {
			if !execEnum(t, e.Test, &c) {
				return
			}
		}
		return
	}
	execEnum(t, e.Test, &c)
}

func TestRegress(t *testing.T) {
	defer dropBase()
	for _, e := range hx.Regressions() {
		replayEnv(t, e, 1)
		hx.Label("regress")
	}
}

// ---------------------------------------------------------------------------
// generators

var nameAlphabet = []rune("abcdefghijklmnopqrstuvwxyzABCDEFGHIJKLMNOPQRSTUVWXYZ0123456789_-+,=~ .")

// genName draws a name of a length from the classes of the design: a short
// drawn stem plus deterministic filler up to the length.
func genName(t *rapid.T, maxLen int, label string) string {
	lens := []int{1, 2, 17, 100, 254, 255}
	var ok []int
	for _, l := range lens {
		if l <= maxLen {
			ok = append(ok, l)
		}
	}
	var n int
	if rapid.IntRange(0, 2).Draw(t, label+".lenmode") == 0 {
		n = rapid.IntRange(1, maxLen).Draw(t, label+".len")
	} else {
		n = rapid.SampledFrom(ok).Draw(t, label+".lenclass")
	}
	return nameOfLen(t, n, label)
}

// nameOfLen: a drawn stem of up to 6 characters plus deterministic filler.
func nameOfLen(t *rapid.T, n int, label string) string {
	stemLen := n
	if stemLen > 6 {
		stemLen = 6
	}
	stem := rapid.StringOfN(rapid.SampledFrom(nameAlphabet), stemLen, stemLen, -1).Draw(t, label+".stem")
	name := stem
	if len(name) < n {
		name += filler(hx.Hash(stem, n), n-len(name))
	}
	return name
}

func genEnt(t *rapid.T, maxName, maxTarget int, label string) Ent {
	e := Ent{Name: genName(t, maxName, label), Kind: "f"}
	switch rapid.IntRange(0, 5).Draw(t, label+".kind") {
	case 0:
		e.Kind = "d"
	case 1:
		e.Kind = "l"
		tl := rapid.IntRange(1, maxTarget).Draw(t, label+".tlen")
		e.Target = "T" + filler(hx.Hash(e.Name, tl), tl-1)
	}
	return e
}

type budget struct {
	name    string
	maxName int
	maxTgt  int
}

var budgets = []budget{
	{"tiny", 60, 20},   // fits msize 256
	{"small", 150, 60}, // fits msize 512
	{"any", 255, 255},
}

func dedupe(es []Ent) []Ent {
	seen := map[string]bool{}
	out := es[:0:0]
	for _, e := range es {
		if !validName(e.Name) || seen[e.Name] {
			continue
		}
		seen[e.Name] = true
		out = append(out, e)
	}
	return out
}

var msizes = []uint32{256, 512, 1024, 4096, 8192, 65536}

// genConfig draws the dialect and msize pair so that msize-24 holds the
// largest record.
func genConfig(t *rapid.T, c *Case, largest func(dotu bool) int) (dotu bool, max uint32) {
	c.SrvDotu = rapid.Bool().Draw(t, "srvdotu")
	c.CliDotu = true
	if c.Kind == "raw" && rapid.IntRange(0, 3).Draw(t, "cliplain") == 0 {
		c.CliDotu = false
	}
	dotu = c.SrvDotu && c.CliDotu
	need := uint32(largest(dotu) + ioHdr)
	if need < 256 {
		need = 256 // the property's msize range starts at 256
	}
	var ok []uint32
	for _, m := range msizes {
		if m >= need {
			ok = append(ok, m)
		}
	}
	c.SrvMsize = rapid.SampledFrom(ok).Draw(t, "srvmsize")
	if c.Kind == "clnt" {
		// MountConn adds IOHDRSZ itself
		var okc []uint32
		for _, m := range msizes {
			if m+ioHdr >= need {
				okc = append(okc, m)
			}
		}
		if rapid.Bool().Draw(t, "cliclass") {
			c.CliMsize = rapid.SampledFrom(okc).Draw(t, "climsize")
		} else {
			lo := int(need) - ioHdr
			if lo < 1 {
				lo = 1
			}
			c.CliMsize = uint32(rapid.IntRange(lo, 70000).Draw(t, "climsize"))
		}
		neg := c.CliMsize + ioHdr
		if c.SrvMsize < neg {
			neg = c.SrvMsize
		}
		return dotu, neg - ioHdr
	}
	if rapid.Bool().Draw(t, "cliclass") {
		c.CliMsize = rapid.SampledFrom(ok).Draw(t, "climsize")
	} else {
		c.CliMsize = uint32(rapid.IntRange(int(need), 70000).Draw(t, "climsize"))
	}
	neg := c.CliMsize
	if c.SrvMsize < neg {
		neg = c.SrvMsize
	}
	return dotu, neg - ioHdr
}

func mustK(t interface{ Fatalf(string, ...interface{}) }, dotu bool) int {
	k, err := calibrate(dotu)
	if err != nil {
		hx.Inconclusive("calibration: " + err.Error())
		t.Fatalf("calibration: %v", err)
	}
	return k
}

// genCounts draws the count sequence of one pass. sizes are the calibrated
// record sizes of the entries (sorted ascending), max is msize-24.
func genCounts(t *rapid.T, p *Pass, sizes []int, max uint32, label string) string {
	l, s3, smallest := 64, 192, 64
	if n := len(sizes); n > 0 {
		l = sizes[n-1]
		smallest = sizes[0]
		s3 = 0
		for i := n - 1; i >= 0 && i >= n-3; i-- {
			s3 += sizes[i]
		}
	}
	clamp := func(v int) uint32 {
		if v < 0 {
			v = 0
		}
		if uint32(v) > max {
			return max
		}
		return uint32(v)
	}
	mode := rapid.SampledFrom([]string{"max", "const", "const", "rand", "rand", "sums", "small", "tiny"}).Draw(t, label+".mode")
	switch mode {
	case "max":
		p.Counts = []uint32{max}
	case "const":
		hi := s3
		if rapid.IntRange(0, 4).Draw(t, label+".wide") == 0 {
			hi = 6 * l
		}
		p.Counts = []uint32{clamp(rapid.IntRange(l, hi+1).Draw(t, label+".c"))}
	case "rand":
		n := rapid.IntRange(2, 12).Draw(t, label+".n")
		for i := 0; i < n; i++ {
			p.Counts = append(p.Counts, clamp(rapid.IntRange(l, 3*l+2).Draw(t, label+".c")))
		}
	case "sums":
		// counts that are exact sums of a few record sizes, +-1: windows that
		// end exactly on, just before and just after a record boundary
		n := rapid.IntRange(1, 6).Draw(t, label+".n")
		for i := 0; i < n; i++ {
			sum := 0
			if len(sizes) > 0 {
				k := rapid.IntRange(1, 4).Draw(t, label+".k")
				for j := 0; j < k; j++ {
					sum += sizes[rapid.IntRange(0, len(sizes)-1).Draw(t, label+".i")]
				}
			}
			sum += rapid.IntRange(-1, 1).Draw(t, label+".d")
			if sum < l {
				sum = l
			}
			p.Counts = append(p.Counts, clamp(sum))
		}
	case "small":
		// some counts are below some record sizes: errors are expected for those
		n := rapid.IntRange(1, 8).Draw(t, label+".n")
		for i := 0; i < n; i++ {
			p.Counts = append(p.Counts, clamp(rapid.IntRange(smallest-2, l+2).Draw(t, label+".c")))
		}
		p.Retry = clamp(rapid.SampledFrom([]int{0, l, l + 1, s3}).Draw(t, label+".retry"))
	case "tiny":
		n := rapid.IntRange(1, 4).Draw(t, label+".n")
		for i := 0; i < n; i++ {
			p.Counts = append(p.Counts, clamp(rapid.SampledFrom([]int{0, 1, 2, 48, smallest - 1, smallest, l - 1, l}).Draw(t, label+".c")))
		}
		p.Retry = clamp(rapid.SampledFrom([]int{0, l, smallest}).Draw(t, label+".retry"))
	}
	return mode
}

func genDir(t *rapid.T, maxEntries int) ([]Ent, budget) {
	b := rapid.SampledFrom(budgets).Draw(t, "budget")
	var n int
	switch rapid.IntRange(0, 9).Draw(t, "nclass") {
	case 0:
		n = rapid.IntRange(0, 2).Draw(t, "n")
	case 1, 2, 3:
		n = rapid.IntRange(3, 12).Draw(t, "n")
	case 4, 5, 6, 7:
		n = rapid.IntRange(13, 60).Draw(t, "n")
	default:
		n = rapid.IntRange(40, maxEntries).Draw(t, "n")
	}
	es := make([]Ent, 0, n)
	for i := 0; i < n; i++ {
		es = append(es, genEnt(t, b.maxName, b.maxTgt, "e"))
	}
	return dedupe(es), b
}

func sizesOf(k int, es []Ent, dotu bool) []int {
	out := make([]int, len(es))
	for i, e := range es {
		out[i] = recSize(k, e, dotu)
	}
	sort.Ints(out)
	return out
}

func genMut(t *rapid.T, b budget, label string) *Mut {
	m := &Mut{}
	switch rapid.IntRange(0, 2).Draw(t, label+".what") {
	case 0:
		e := genEnt(t, b.maxName, b.maxTgt, label+".add")
		m.Add = &e
	case 1:
		m.Remove = rapid.IntRange(1, 64).Draw(t, label+".rm")
	default:
		e := genEnt(t, b.maxName, b.maxTgt, label+".add")
		m.Add = &e
		m.Remove = rapid.IntRange(1, 64).Draw(t, label+".rm")
	}
	if m.Add != nil && !validName(m.Add.Name) {
		m.Add.Name = "added-" + filler(7, 3)
	}
	return m
}

// TestPropRaw: random directories, count sequences, restarts at offset 0
// mid-listing and after adding/removing an entry, raw reads.
func TestPropRaw(t *testing.T) {
	defer dropBase()
	hx.Check(t, "raw", hx.N(220, 1500), func(t *rapid.T) {
		c := &Case{Kind: "raw"}
		var b budget
		c.Ents, b = genDir(t, 90)
		npass := rapid.IntRange(1, 4).Draw(t, "npass")
		muts := make([]*Mut, npass)
		for i := 1; i < npass; i++ {
			if rapid.IntRange(0, 2).Draw(t, "mutate") == 0 {
				muts[i] = genMut(t, b, fmt.Sprintf("m%d", i))
			}
		}
		all := append([]Ent(nil), c.Ents...)
		for _, m := range muts {
			if m != nil && m.Add != nil {
				all = append(all, *m.Add)
			}
		}
		dotu, max := genConfig(t, c, func(d bool) int {
			s := sizesOf(mustK(t, d), all, d)
			if len(s) == 0 {
				return 0
			}
			return s[len(s)-1]
		})
		sizes := sizesOf(mustK(t, dotu), all, dotu)
		for i := 0; i < npass; i++ {
			p := Pass{Mut: muts[i]}
			genCounts(t, &p, sizes, max, fmt.Sprintf("p%d", i))
			if i < npass-1 && rapid.IntRange(0, 2).Draw(t, "abandon") == 0 {
				p.MaxReads = rapid.IntRange(1, 6).Draw(t, "maxreads")
			}
			c.Passes = append(c.Passes, p)
		}
		exec(t, "raw", c)
	})
}

// TestPropClnt: File.Readdir(0) through the go9p client.
func TestPropClnt(t *testing.T) {
	defer dropBase()
	hx.Check(t, "clnt", hx.N(100, 700), func(t *rapid.T) {
		c := &Case{Kind: "clnt"}
		var b budget
		c.Ents, b = genDir(t, 120)
		npass := rapid.IntRange(1, 3).Draw(t, "npass")
		all := append([]Ent(nil), c.Ents...)
		cur := simMut(c.Ents, nil)
		for i := 0; i < npass; i++ {
			p := Pass{}
			if i > 0 && rapid.Bool().Draw(t, "mutate") {
				if rapid.Bool().Draw(t, "reshape") {
					p.Mut = genReshape(t, cur, b, fmt.Sprintf("r%d", i))
				} else {
					p.Mut = genMut(t, b, fmt.Sprintf("m%d", i))
				}
				all = append(all, p.Mut.adds()...)
				cur = simMut(cur, p.Mut)
			}
			c.Passes = append(c.Passes, p)
		}
		genConfig(t, c, func(d bool) int {
			s := sizesOf(mustK(t, d), all, d)
			if len(s) == 0 {
				return 0
			}
			return s[len(s)-1]
		})
		exec(t, "clnt", c)
	})
}

// ---------------------------------------------------------------------------
// exhaustive counts on small fixed directories

func fixedDir(which string) []Ent {
	mk := func(i, n int, kind string) Ent {
		name := strconv.FormatInt(int64(i), 36)
		if n > len(name) {
			name += filler(uint64(1000+i), n-len(name))
		}
		e := Ent{Name: name[:n], Kind: kind}
		if kind == "l" {
			e.Target = "T" + filler(uint64(i), (i*7)%40)
		}
		return e
	}
	switch which {
	case "0":
		return nil
	case "1":
		return []Ent{mk(1, 1, "f")}
	case "1long":
		return []Ent{mk(1, 255, "f")}
	case "2":
		return []Ent{mk(1, 17, "d"), mk(2, 100, "f")}
	case "2eq":
		return []Ent{mk(1, 2, "f"), mk(2, 2, "f")}
	case "50short":
		// name lengths 2..40: fits msize 256
		var es []Ent
		for i := 0; i < 50; i++ {
			kind := []string{"f", "f", "d", "f", "l"}[i%5]
			es = append(es, mk(i, 2+(i*11)%39, kind))
		}
		return es
	case "50":
		lens := []int{1, 2, 17, 100, 254, 255}
		var es []Ent
		for i := 0; i < 50; i++ {
			n := lens[i%len(lens)]
			if i >= 24 {
				n = 3 + (i*37)%250
			}
			kind := []string{"f", "d", "f", "l", "f"}[i%5]
			e := mk(i, n, kind)
			es = append(es, e)
		}
		return dedupe(es)
	}
	return nil
}

type enumCfg struct {
	dir   string
	msize uint32
	dotu  bool
}

// TestEnumCounts: for each fixed directory, dialect and msize: every constant
// count from 0 to the sum of the three largest records (+1), capped at
// msize-24, is used for one complete listing. Counts below a record's size
// are answered with Rerror and retried with the largest record's size.
func TestEnumCounts(t *testing.T) {
	defer dropBase()
	var cfgs []enumCfg
	for _, dotu := range []bool{true, false} {
		for _, d := range []string{"0", "1", "1long", "2", "2eq"} {
			cfgs = append(cfgs, enumCfg{d, 4096, dotu})
		}
		cfgs = append(cfgs, enumCfg{"2eq", 256, dotu}, enumCfg{"50short", 256, dotu}, enumCfg{"50short", 512, dotu},
			enumCfg{"50", 4096, dotu}, enumCfg{"50", 65536, dotu}, enumCfg{"50short", 4096, dotu}, enumCfg{"1long", 512, dotu}, enumCfg{"2", 1024, dotu})
	}
	n := 0
	for _, cf := range cfgs {
		es := fixedDir(cf.dir)
		k := mustK(t, cf.dotu)
		sizes := sizesOf(k, es, cf.dotu)
		l, s3 := 64, 192
		if len(sizes) > 0 {
			l = sizes[len(sizes)-1]
			s3 = 0
			for i := len(sizes) - 1; i >= 0 && i >= len(sizes)-3; i-- {
				s3 += sizes[i]
			}
		}
		max := int(cf.msize) - ioHdr
		if max < l {
			hx.Inconclusive(fmt.Sprintf("enum config %v: msize too small for the largest record %d", cf, l))
			continue
		}
		hi := s3 + 1
		if hi > max {
			hi = max
		}
		mk := func(cnts []int) *Case {
			c := &Case{Kind: "raw", SrvDotu: cf.dotu, CliDotu: true, SrvMsize: cf.msize, CliMsize: cf.msize, Ents: es,
				Desc: fmt.Sprintf("fixed directory %q, one listing per constant count %v (largest record %d)", cf.dir, cnts, l)}
			for _, cnt := range cnts {
				c.Passes = append(c.Passes, Pass{Counts: []uint32{uint32(cnt)}, Retry: uint32(l)})
			}
			return c
		}
		// one case lists the directory once per count of a chunk (the
		// directory is built once per case); a failing chunk is re-run count
		// by count so that the replay holds a single listing
		var chunk []int
		flush := func() bool {
			if len(chunk) == 0 {
				return true
			}
			cnts := chunk
			chunk = nil
			c := mk(cnts)
			hx.Journal("enum-counts", c)
			res, err := RunCase(c)
			if err == nil {
				for i := range cnts {
					one := mk(cnts[i : i+1])
					r1 := res
					r1.passes = res.passes[i : i+1]
					r1.nontrivial = res.passes[i].complete && res.passes[i].nonEmpty >= 2
					account("enum-counts", one, r1)
				}
				hx.Sample("enum-counts", sampleOf(c))
				return true
			}
			for _, cnt := range cnts {
				if !execEnum(t, "enum-counts", mk([]int{cnt})) {
					return false
				}
			}
			// the chunk failed, no single listing did
			return execEnum(t, "enum-counts", c)
		}
		for cnt := 0; cnt <= hi; cnt++ {
			n++
			if (n/enumChunk)%hx.NShards != hx.Shard {
				continue
			}
			chunk = append(chunk, cnt)
			if len(chunk) >= enumChunk {
				if !flush() {
					return
				}
			}
		}
		if !flush() {
			return
		}
		hx.Exhaustive(fmt.Sprintf("directory %q (%d entries) dotu=%v msize=%d: every constant count 0..%d (largest record %d, three largest %d)", cf.dir, len(es), cf.dotu, cf.msize, hi, l, s3))
	}
}

const enumChunk = 48

// TestBigDirs (thorough tier): directories of thousands of entries.
func TestBigDirs(t *testing.T) {
	if !hx.Thorough() {
		t.Skip("thorough tier only")
	}
	defer dropBase()
	hx.Check(t, "big", hx.N(0, 5), func(t *rapid.T) {
		c := &Case{Kind: rapid.SampledFrom([]string{"raw", "raw", "clnt"}).Draw(t, "kind")}
		c.Bulk = &Bulk{
			N:      rapid.SampledFrom([]int{1000, 2000, 3000, 4000}).Draw(t, "n"),
			Seed:   rapid.Uint64().Draw(t, "seed"),
			MinLen: rapid.SampledFrom([]int{1, 8, 100}).Draw(t, "minlen"),
		}
		c.Bulk.MaxLen = c.Bulk.MinLen + rapid.SampledFrom([]int{0, 10, 155}).Draw(t, "spread")
		if rapid.Bool().Draw(t, "extremes") {
			c.Ents = []Ent{{Name: "z", Kind: "f"}, {Name: "Z" + filler(1, 254), Kind: "d"}, {Name: "L" + filler(2, 253), Kind: "l", Target: "T" + filler(3, 200)}}
		}
		all := c.allEnts()
		dotu, max := genConfig(t, c, func(d bool) int {
			s := sizesOf(mustK(t, d), all, d)
			return s[len(s)-1]
		})
		if !dotu && c.Bulk.N > 2000 {
			c.Bulk.N = 2000 // plain 9P2000: two passwd lookups per entry and snapshot
			all = c.allEnts()
		}
		sizes := sizesOf(mustK(t, dotu), all, dotu)
		npass := 1
		if c.Kind == "raw" {
			npass = rapid.IntRange(1, 2).Draw(t, "npass")
		}
		for i := 0; i < npass; i++ {
			p := Pass{}
			if c.Kind == "raw" {
				genCounts(t, &p, sizes, max, fmt.Sprintf("p%d", i))
				if i < npass-1 {
					p.MaxReads = rapid.IntRange(1, 50).Draw(t, "maxreads")
				}
			}
			if i > 0 && rapid.Bool().Draw(t, "mutate") {
				p.Mut = &Mut{Add: &Ent{Name: "added-later", Kind: "f"}, Remove: rapid.IntRange(1, 5000).Draw(t, "rm")}
			}
			c.Passes = append(c.Passes, p)
		}
		exec(t, "big", c)
	})
}
