// Command srvchild hosts a go9p server in a process of its own, so that a
// check can go on after the server crashed and so that hostile path names can
// never touch the real file system.
//
//	srvchild -sock PATH -ufs -root DIR [-dotu] [-msize N] [-chroot JAIL]
//	srvchild -sock PATH -script [-dotu] [-msize N] [-auth] [-flush N] [-chroot JAIL]
//	srvchild -janitor DIR
//
// Serving modes: exactly one of -ufs (go9p.Ufs exporting -root) and -script
// (verif/internal/script, every request answered successfully). The server
// listens on the unix socket -sock (created before any chroot, so the path is
// a path of the caller). With -chroot the process chroots into JAIL (and
// chdirs to its "/") before serving; -root is then interpreted inside the
// jail. Log output is discarded and stdout goes to /dev/null (Ufs.Wstat
// prints). Once the listener is up a single line "READY" is written to
// stderr; after that stderr carries only what the Go runtime writes when the
// process dies (panic / fatal error with stacks).
//
// The process exits when its stdin reaches EOF, so a dead parent never leaves
// children behind: start it with a pipe as stdin and keep the write end.
//
// -janitor DIR serves nothing: it waits for EOF on stdin, removes DIR
// recursively and exits. A test process that cannot run code at exit starts
// one on its scratch directory.
//
// -aslimit BYTES sets RLIMIT_AS (address space) before serving.
package main

import (
	"bufio"
	"flag"
	"fmt"
	"io"
	"log"
	"net"
	"os"
	"syscall"

	"github.com/rminnich/go9p"
	"verif/internal/script"
)

func die(format string, a ...interface{}) {
	fmt.Fprintf(os.Stderr, "srvchild: "+format+"\n", a...)
	os.Exit(3)
}

func main() {
	var (
		sock    = flag.String("sock", "", "unix socket path to listen on")
		ufs     = flag.Bool("ufs", false, "serve go9p.Ufs")
		scr     = flag.Bool("script", false, "serve the scripted implementation (answers always succeed)")
		root    = flag.String("root", "/", "Ufs.Root (inside the jail when -chroot is given)")
		dotu    = flag.Bool("dotu", false, "server speaks 9P2000.u")
		msize   = flag.Uint("msize", 8192, "server msize")
		jail    = flag.String("chroot", "", "chroot into this directory before serving")
		cwd     = flag.String("cwd", "", "working directory (inside the jail) the server runs in; Ufs.Root may be relative to it")
		auth    = flag.Bool("auth", false, "script: implement AuthOps")
		flush   = flag.Int("flush", script.FlushAbsent, "script: 0 no FlushOp, 1 cancel, 2 ignore")
		maxpend = flag.Int("maxpend", 0, "Srv.Maxpend")
		debug   = flag.Int("debug", 0, "Srv.Debuglevel (log output is discarded anyway)")
		aslimit = flag.Uint64("aslimit", 0, "RLIMIT_AS in bytes (0 = unchanged)")
		janitor = flag.String("janitor", "", "remove this directory when stdin is closed, then exit")
	)
	flag.Parse()
	log.SetOutput(io.Discard)

	if *janitor != "" {
		_, _ = io.Copy(io.Discard, os.Stdin)
		_ = os.RemoveAll(*janitor)
		return
	}

	if *ufs == *scr {
		die("exactly one of -ufs and -script is required")
	}
	if *sock == "" {
		die("-sock is required")
	}

	// stdout -> /dev/null (opened before the chroot; the jail has no /dev)
	if null, err := os.OpenFile(os.DevNull, os.O_WRONLY, 0); err == nil {
		_ = syscall.Dup3(int(null.Fd()), 1, 0)
		os.Stdout = null
	} else {
		die("open %s: %v", os.DevNull, err)
	}

	if *aslimit != 0 {
		lim := syscall.Rlimit{Cur: *aslimit, Max: *aslimit}
		if err := syscall.Setrlimit(syscall.RLIMIT_AS, &lim); err != nil {
			die("setrlimit: %v", err)
		}
	}

	_ = os.Remove(*sock)
	l, err := net.Listen("unix", *sock)
	if err != nil {
		die("listen %s: %v", *sock, err)
	}
	if ul, ok := l.(*net.UnixListener); ok {
		// after a chroot the path means something else; the parent removes it
		ul.SetUnlinkOnClose(false)
	}

	if *jail != "" {
		if err := syscall.Chroot(*jail); err != nil {
			die("chroot %s: %v", *jail, err)
		}
		if err := os.Chdir("/"); err != nil {
			die("chdir /: %v", err)
		}
	}
	if *cwd != "" {
		if err := os.Chdir(*cwd); err != nil {
			die("chdir %s: %v", *cwd, err)
		}
	}

	var srv *go9p.Srv
	var onConn func()
	switch {
	case *ufs:
		u := new(go9p.Ufs)
		u.Dotu = *dotu
		u.Id = "ufs"
		u.Root = *root
		u.Msize = uint32(*msize)
		u.Maxpend = *maxpend
		u.Debuglevel = *debug
		if !u.Start(u) {
			die("Ufs.Start failed")
		}
		srv = &u.Srv
	default:
		sv := script.NewServer(script.Config{Msize: uint32(*msize), Dotu: *dotu, Maxpend: *maxpend, Auth: *auth, Flush: *flush, Debug: *debug})
		srv = sv.Srv
		// the implementation's log is of no use here and must not grow forever
		onConn = sv.S.Reset
	}

	// exit when the parent goes away
	go func() {
		_, _ = io.Copy(io.Discard, bufio.NewReader(os.Stdin))
		os.Exit(0)
	}()

	fmt.Fprintln(os.Stderr, "READY")
	for {
		c, err := l.Accept()
		if err != nil {
			die("accept: %v", err)
		}
		if onConn != nil {
			onConn()
		}
		srv.NewConn(c)
	}
}
