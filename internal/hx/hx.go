// Package hx is the in-process half of the check driver: per-shard evidence
// counters, case journal, replay files, known-finding bookkeeping and the glue
// that runs a rapid property with a seed derived from VERIF_SEED.
package hx

import (
	"encoding/binary"
	"encoding/json"
	"flag"
	"fmt"
	"hash/fnv"
	"io"
	"log"
	"os"
	"path/filepath"
	"runtime"
	"sort"
	"strconv"
	"strings"
	"sync"
	"testing"
	"time"

	"pgregory.net/rapid"
)

var (
	ID      = "C00"
	Tier    = "quick"
	Seed    uint64
	Shard   int
	NShards = 1
	OutDir  string // where shard files go
	Root    = "/verif"
)

type sample struct {
	Test string      `json:"test"`
	Case interface{} `json:"case"`
}

type violation struct {
	Test    string `json:"test"`
	Message string `json:"message"`
	Replay  string `json:"replay"`
	Finding string `json:"finding,omitempty"`
}

type state struct {
	mu          sync.Mutex
	evals       int64
	labels      map[string]int64
	nontriv     map[uint64]struct{}
	samples     []sample
	lastSample  map[string]sample
	sampleCount map[string]int
	known       map[string]int64 // finding id -> observations
	knownDetail map[string]string
	excluded    map[string]int64
	violations  []violation
	inconcl     []string
	exhaustive  []string
	extra       map[string]interface{}
	journal     *os.File
	lastFail    map[string]*failRec
}

type failRec struct {
	Case interface{}
	Msg  string
}

var st = &state{
	labels: map[string]int64{}, nontriv: map[uint64]struct{}{},
	lastSample: map[string]sample{}, sampleCount: map[string]int{},
	known: map[string]int64{}, knownDetail: map[string]string{}, excluded: map[string]int64{},
	extra: map[string]interface{}{}, lastFail: map[string]*failRec{},
}

// Finding is one entry of /verif/known_findings.json.
type Finding struct {
	Property string `json:"property"`
	ID       string `json:"id"`
	Status   string `json:"status"` // "known" or "fixed"
	What     string `json:"what"`
	Commit   string `json:"commit,omitempty"`
}

var findings map[string]Finding

func loadFindings() {
	findings = map[string]Finding{}
	b, err := os.ReadFile(filepath.Join(Root, "known_findings.json"))
	if err != nil {
		return
	}
	var doc struct {
		Findings []Finding `json:"findings"`
	}
	if json.Unmarshal(b, &doc) != nil {
		return
	}
	for _, f := range doc.Findings {
		if f.Property == ID && f.Status == "known" {
			findings[f.ID] = f
		}
	}
}

// IsKnown reports whether a finding with this id is listed (status "known")
// for the current property.
func IsKnown(id string) bool { _, ok := findings[id]; return ok }

// Known records that a listed finding was observed.
func Known(id, detail string) {
	st.mu.Lock()
	st.known[id]++
	if _, ok := st.knownDetail[id]; !ok {
		st.knownDetail[id] = detail
	}
	st.mu.Unlock()
}

// Excluded counts a case (or part of one) that the generator steered away
// from because of a listed finding.
func Excluded(id string) {
	st.mu.Lock()
	st.excluded[id]++
	st.mu.Unlock()
}

func Thorough() bool { return Tier == "thorough" }

// N picks a case count by tier. The thorough figure is per shard.
func N(quick, thorough int) int {
	if Thorough() {
		return thorough
	}
	return quick
}

func Eval() {
	st.mu.Lock()
	st.evals++
	st.mu.Unlock()
}

func Evals(n int) {
	st.mu.Lock()
	st.evals += int64(n)
	st.mu.Unlock()
}

func Label(s string) {
	st.mu.Lock()
	st.labels[s]++
	st.mu.Unlock()
}

func Hash(parts ...interface{}) uint64 {
	h := fnv.New64a()
	for _, p := range parts {
		switch v := p.(type) {
		case []byte:
			_ = binary.Write(h, binary.LittleEndian, uint32(len(v)))
			h.Write(v)
		case string:
			_ = binary.Write(h, binary.LittleEndian, uint32(len(v)))
			io.WriteString(h, v)
		default:
			fmt.Fprintf(h, "|%v|", v)
		}
	}
	return h.Sum64()
}

// NonTrivial records one non-trivial case by the hash of its identity.
func NonTrivial(parts ...interface{}) {
	k := Hash(parts...)
	st.mu.Lock()
	st.nontriv[k] = struct{}{}
	st.mu.Unlock()
}

// Sample keeps a few cases per test name: the first three, then every 2^k-th,
// and always the most recent one.
func Sample(test string, c interface{}) {
	st.mu.Lock()
	defer st.mu.Unlock()
	st.sampleCount[test]++
	n := st.sampleCount[test]
	s := sample{test, c}
	if n <= 2 || (n&(n-1)) == 0 && n <= 1<<20 && n >= 64 {
		if len(st.samples) < 40 {
			st.samples = append(st.samples, s)
		}
	}
	st.lastSample[test] = s
}

// Extra stores an additional key in the coverage object.
func Extra(key string, v interface{}) {
	st.mu.Lock()
	st.extra[key] = v
	st.mu.Unlock()
}

// ExtraAdd adds n to an integer coverage key.
func ExtraAdd(key string, n int64) {
	st.mu.Lock()
	cur, _ := st.extra[key].(int64)
	st.extra[key] = cur + n
	st.mu.Unlock()
}

func Exhaustive(sub string) {
	st.mu.Lock()
	st.exhaustive = append(st.exhaustive, sub)
	st.mu.Unlock()
}

// Inconclusive records infrastructure trouble (deadline without a culprit …).
func Inconclusive(msg string) {
	st.mu.Lock()
	st.inconcl = append(st.inconcl, msg)
	st.mu.Unlock()
}

// Journal writes the case about to be executed so that a process-killing
// panic can be attributed to it by the driver.
func Journal(test string, c interface{}) {
	if st.journal == nil {
		return
	}
	b, err := json.Marshal(map[string]interface{}{"property": ID, "test": test, "case": c})
	if err != nil {
		return
	}
	b = append(b, '\n')
	st.mu.Lock()
	_, _ = st.journal.WriteAt(b, 0)
	st.mu.Unlock()
}

func replayPath(test string, c interface{}, msg string) string {
	b, _ := json.Marshal(c)
	h := Hash(test, b)
	return filepath.Join(Root, "replays", ID, fmt.Sprintf("%s-%016x.json", sanitize(test), h))
}

func sanitize(s string) string {
	return strings.Map(func(r rune) rune {
		if r >= 'a' && r <= 'z' || r >= 'A' && r <= 'Z' || r >= '0' && r <= '9' || r == '-' || r == '_' {
			return r
		}
		return '_'
	}, s)
}

// Violation writes a replay file for the case and records the violation.
func Violation(test string, c interface{}, msg string) string {
	p := replayPath(test, c, msg)
	_ = os.MkdirAll(filepath.Dir(p), 0o755)
	b, _ := json.MarshalIndent(map[string]interface{}{"property": ID, "test": test, "case": c, "message": msg}, "", " ")
	_ = os.WriteFile(p, b, 0o644)
	st.mu.Lock()
	if len(st.violations) < 50 {
		st.violations = append(st.violations, violation{Test: test, Message: trunc(msg, 2000), Replay: p})
	}
	st.mu.Unlock()
	return p
}

func trunc(s string, n int) string {
	if len(s) > n {
		return s[:n] + "…"
	}
	return s
}

// TB is the subset of testing.TB / *rapid.T used by Failf.
type TB interface {
	Fatalf(format string, args ...interface{})
	Helper()
}

// Failf is called from inside a rapid property: it remembers the failing case
// (the last one remembered is rapid's minimal one) and fails the property.
func Failf(t TB, test string, c interface{}, format string, args ...interface{}) {
	t.Helper()
	msg := fmt.Sprintf(format, args...)
	st.mu.Lock()
	st.lastFail[test] = &failRec{c, msg}
	st.mu.Unlock()
	// rapid only shrinks while the failure message stays identical; detailed
	// messages carry run-dependent values (sequence numbers, inodes), so rapid
	// gets a constant one and the detail goes into the replay file.
	if os.Getenv("VERIF_VERBOSE_FAIL") != "" {
		t.Fatalf("%s", msg)
	}
	t.Fatalf("property %q falsified (details in the replay file)", test)
}

// Check runs a rapid property n times with a seed derived from VERIF_SEED,
// the shard number and the test name. A failure is shrunk by rapid; the
// minimal case is saved as a replay file.
func Check(t *testing.T, test string, n int, prop func(*rapid.T)) {
	t.Helper()
	seed := Mix(Seed, uint64(Shard), Hash(test))
	if seed == 0 {
		seed = 0x9E3779B97F4A7C15
	}
	_ = flag.Set("rapid.checks", strconv.Itoa(n))
	_ = flag.Set("rapid.seed", strconv.FormatUint(seed, 10))
	_ = flag.Set("rapid.nofailfile", "true")
	if os.Getenv("VERIF_SHRINKTIME") != "" {
		_ = flag.Set("rapid.shrinktime", os.Getenv("VERIF_SHRINKTIME"))
	} else {
		_ = flag.Set("rapid.shrinktime", "20s")
	}
	_ = os.RemoveAll("testdata/rapid")
	t.Cleanup(func() {
		if !t.Failed() {
			return
		}
		st.mu.Lock()
		fr := st.lastFail[test]
		st.mu.Unlock()
		if fr != nil {
			Violation(test, fr.Case, fr.Msg)
		} else if os.Getenv("VERIF_RACE") == "" {
			// (in a -race build the testing package fails the test when the
			// detector reported a race; the driver reads those reports itself)
			Violation(test, nil, "rapid property failed without a recorded case (panic inside the property?) — see log")
		}
	})
	rapid.Check(t, prop)
}

func Mix(a ...uint64) uint64 {
	var x uint64 = 0x2545F4914F6CDD1D
	for _, v := range a {
		x ^= v + 0x9E3779B97F4A7C15 + (x << 6) + (x >> 2)
		x ^= x >> 30
		x *= 0xBF58476D1CE4E5B9
		x ^= x >> 27
		x *= 0x94D049BB133111EB
		x ^= x >> 31
	}
	return x
}

// ReplayFile returns the replay file named by VERIF_REPLAY ("" if none) and
// its decoded envelope.
type Envelope struct {
	Property string          `json:"property"`
	Test     string          `json:"test"`
	Case     json.RawMessage `json:"case"`
	Message  string          `json:"message"`
}

func LoadReplay() (*Envelope, error) {
	p := os.Getenv("VERIF_REPLAY")
	if p == "" {
		return nil, nil
	}
	b, err := os.ReadFile(p)
	if err != nil {
		return nil, err
	}
	var e Envelope
	if err := json.Unmarshal(b, &e); err != nil {
		return nil, err
	}
	return &e, nil
}

// Regressions returns the envelopes stored under /verif/regress/<ID>/ — shrunk
// failures of earlier runs that are replayed first on every run.
func Regressions() []*Envelope {
	files, _ := filepath.Glob(filepath.Join(Root, "regress", ID, "*.json"))
	sort.Strings(files)
	var out []*Envelope
	for _, f := range files {
		b, err := os.ReadFile(f)
		if err != nil {
			continue
		}
		var e Envelope
		if json.Unmarshal(b, &e) == nil {
			out = append(out, &e)
		}
	}
	return out
}

// Main is called from TestMain.
func Main(m *testing.M, id string) {
	ID = id
	if v := os.Getenv("VERIF_ROOT"); v != "" {
		Root = v
	}
	if v := os.Getenv("VERIF_TIER"); v != "" {
		Tier = v
	}
	if v := os.Getenv("VERIF_SEED"); v != "" {
		if n, err := strconv.ParseInt(v, 10, 64); err == nil {
			Seed = uint64(n)
		} else if u, err := strconv.ParseUint(v, 10, 64); err == nil {
			Seed = u
		}
	}
	if v := os.Getenv("VERIF_SHARD"); v != "" {
		Shard, _ = strconv.Atoi(v)
	}
	if v := os.Getenv("VERIF_NSHARDS"); v != "" {
		NShards, _ = strconv.Atoi(v)
	}
	OutDir = os.Getenv("VERIF_OUT")
	log.SetOutput(io.Discard)
	loadFindings()
	if OutDir != "" {
		_ = os.MkdirAll(OutDir, 0o755)
		f, err := os.OpenFile(filepath.Join(OutDir, fmt.Sprintf("journal-%d.json", Shard)), os.O_CREATE|os.O_RDWR|os.O_TRUNC, 0o644)
		if err == nil {
			st.journal = f
		}
	}
	start := time.Now()
	code := m.Run()
	Flush(time.Since(start).Seconds(), code)
	os.Exit(code)
}

// Flush writes the shard's evidence.
func Flush(wall float64, code int) {
	if OutDir == "" {
		return
	}
	st.mu.Lock()
	defer st.mu.Unlock()
	samples := append([]sample(nil), st.samples...)
	names := make([]string, 0, len(st.lastSample))
	for k := range st.lastSample {
		names = append(names, k)
	}
	sort.Strings(names)
	for _, k := range names {
		samples = append(samples, st.lastSample[k])
	}
	hashes := make([]uint64, 0, len(st.nontriv))
	for k := range st.nontriv {
		hashes = append(hashes, k)
	}
	sort.Slice(hashes, func(i, j int) bool { return hashes[i] < hashes[j] })
	hb := make([]byte, 8*len(hashes))
	for i, h := range hashes {
		binary.LittleEndian.PutUint64(hb[8*i:], h)
	}
	_ = os.WriteFile(filepath.Join(OutDir, fmt.Sprintf("hashes-%d.bin", Shard)), hb, 0o644)
	doc := map[string]interface{}{
		"shard": Shard, "evaluations": st.evals, "labels": st.labels,
		"distinct_nontrivial": len(st.nontriv), "samples": samples,
		"known": st.known, "known_detail": st.knownDetail, "excluded_known": st.excluded,
		"violations": st.violations, "inconclusive": st.inconcl,
		"exhaustive_subspaces": st.exhaustive, "extra": st.extra,
		"wall_s": wall, "exit": code, "gomaxprocs": runtime.GOMAXPROCS(0),
	}
	b, err := json.Marshal(doc)
	if err != nil {
		b, _ = json.Marshal(map[string]interface{}{"shard": Shard, "marshal_error": err.Error(), "evaluations": st.evals, "violations": st.violations, "exit": code})
	}
	_ = os.WriteFile(filepath.Join(OutDir, fmt.Sprintf("shard-%d.json", Shard)), b, 0o644)
}

// BlockedInGo9p returns the stacks of goroutines that are blocked (channel
// operation, mutex, cond) with a frame inside github.com/rminnich/go9p, the
// logger goroutine and goroutines parked in a transport Read excepted. An
// empty result means nothing is stuck inside the library.
//
// A goroutine counts only if it is found waiting at the same place in two
// dumps taken two seconds apart: on a machine that is merely slow, requests
// pass through the library's hand-over points (Respond waiting for the sender,
// a caller waiting for its reply) all the time, and one dump cannot tell a
// request that is on its way from one that is stuck.
func BlockedInGo9p() string {
	first := blockedInGo9pOnce()
	if len(first) == 0 {
		return ""
	}
	time.Sleep(2 * time.Second)
	second := blockedInGo9pOnce()
	var ids []string
	for id := range first {
		if blk, ok := second[id]; ok && sameStack(first[id], blk) {
			ids = append(ids, id)
		}
	}
	sort.Strings(ids)
	var out []string
	for _, id := range ids {
		out = append(out, second[id])
	}
	return strings.Join(out, "\n\n")
}

// sameStack compares the function lines of two stack blocks (not the
// argument values or the "N minutes" of the header).
func sameStack(a, b string) bool {
	fn := func(s string) string {
		var out []string
		for _, l := range strings.Split(s, "\n")[1:] {
			if strings.HasPrefix(l, "\t") {
				continue
			}
			if i := strings.LastIndex(l, "("); i > 0 {
				l = l[:i]
			}
			out = append(out, l)
		}
		return strings.Join(out, "|")
	}
	return fn(a) == fn(b)
}

// blockedInGo9pOnce maps goroutine id -> stack block for one dump.
func blockedInGo9pOnce() map[string]string {
	buf := make([]byte, 1<<24)
	n := runtime.Stack(buf, true)
	out := map[string]string{}
	for _, blk := range strings.Split(string(buf[:n]), "\n\n") {
		head, _, _ := strings.Cut(blk, "\n")
		if !strings.HasPrefix(head, "goroutine ") {
			continue
		}
		gid, _, _ := strings.Cut(strings.TrimPrefix(head, "goroutine "), " ")
		waiting := false
		for _, w := range []string{"[chan send", "[chan receive", "[select", "[semacquire", "[sync.Mutex.Lock", "[sync.Cond.Wait", "[sync.RWMutex"} {
			if strings.Contains(head, w) {
				waiting = true
			}
		}
		if !waiting || !strings.Contains(blk, "github.com/rminnich/go9p.") {
			continue
		}
		if strings.Contains(blk, "(*Logger).doLog") {
			continue
		}
		// the innermost non-runtime frame decides: parked in the harness's
		// transport or gate is not "inside go9p"
		lines := strings.Split(blk, "\n")
		inner := ""
		for _, l := range lines[1:] {
			if strings.HasPrefix(l, "\t") || strings.HasPrefix(l, "runtime.") || strings.HasPrefix(l, "sync.") || strings.HasPrefix(l, "internal/") || strings.HasPrefix(l, "time.") {
				continue
			}
			inner = l
			break
		}
		if strings.HasPrefix(inner, "github.com/rminnich/go9p.") {
			// the idle send loop (select on done/reqout) is normal
			if strings.Contains(inner, "(*Conn).send") || strings.Contains(inner, "(*Clnt).send") {
				continue
			}
			// so is an idle Tag processor (select on its request channels)
			if strings.Contains(inner, "(*Tag).reqproc") && strings.Contains(head, "[select") {
				continue
			}
			out[gid] = blk
		}
	}
	return out
}
