// Package ref9p is an independent description of the 9P2000 / 9P2000.u wire
// format, written from the protocol manual (intro(5) and the per-message pages)
// and the 9P2000.u draft. It never calls go9p. It is the reference oracle for
// every check that looks at bytes on the wire.
package ref9p

import (
	"encoding/binary"
	"errors"
	"fmt"
)

const (
	Tversion = 100
	Rversion = 101
	Tauth    = 102
	Rauth    = 103
	Tattach  = 104
	Rattach  = 105
	Rerror   = 107
	Tflush   = 108
	Rflush   = 109
	Twalk    = 110
	Rwalk    = 111
	Topen    = 112
	Ropen    = 113
	Tcreate  = 114
	Rcreate  = 115
	Tread    = 116
	Rread    = 117
	Twrite   = 118
	Rwrite   = 119
	Tclunk   = 120
	Rclunk   = 121
	Tremove  = 122
	Rremove  = 123
	Tstat    = 124
	Rstat    = 125
	Twstat   = 126
	Rwstat   = 127

	NOTAG = 0xFFFF
	NOFID = 0xFFFFFFFF
)

// AllTypes lists the 27 defined message types.
var AllTypes = []uint8{
	Tversion, Rversion, Tauth, Rauth, Tattach, Rattach, Rerror, Tflush, Rflush,
	Twalk, Rwalk, Topen, Ropen, Tcreate, Rcreate, Tread, Rread, Twrite, Rwrite,
	Tclunk, Rclunk, Tremove, Rremove, Tstat, Rstat, Twstat, Rwstat,
}

var typeNames = map[uint8]string{
	Tversion: "Tversion", Rversion: "Rversion", Tauth: "Tauth", Rauth: "Rauth",
	Tattach: "Tattach", Rattach: "Rattach", Rerror: "Rerror", Tflush: "Tflush",
	Rflush: "Rflush", Twalk: "Twalk", Rwalk: "Rwalk", Topen: "Topen", Ropen: "Ropen",
	Tcreate: "Tcreate", Rcreate: "Rcreate", Tread: "Tread", Rread: "Rread",
	Twrite: "Twrite", Rwrite: "Rwrite", Tclunk: "Tclunk", Rclunk: "Rclunk",
	Tremove: "Tremove", Rremove: "Rremove", Tstat: "Tstat", Rstat: "Rstat",
	Twstat: "Twstat", Rwstat: "Rwstat",
}

func TypeName(t uint8) string {
	if s, ok := typeNames[t]; ok {
		return s
	}
	return fmt.Sprintf("type%d", t)
}

func Defined(t uint8) bool { _, ok := typeNames[t]; return ok }

type Qid struct {
	Type uint8
	Vers uint32
	Path uint64
}

type Stat struct {
	Type   uint16
	Dev    uint32
	Qid    Qid
	Mode   uint32
	Atime  uint32
	Mtime  uint32
	Length uint64
	Name   string
	Uid    string
	Gid    string
	Muid   string
	// 9P2000.u
	Ext   string
	Nuid  uint32
	Ngid  uint32
	Nmuid uint32
}

// Msg holds the fields of any message. Only the fields the type carries are
// meaningful.
type Msg struct {
	Type uint8
	Tag  uint16

	Msize   uint32
	Version string

	Fid    uint32
	Afid   uint32
	Newfid uint32
	Uname  string
	Aname  string
	Nuname uint32 // .u only

	Ename string
	Ecode uint32 // .u only

	Oldtag uint16

	Wname []string
	Wqid  []Qid

	Mode   uint8
	Qid    Qid
	Iounit uint32

	Name string
	Perm uint32
	Ext  string // .u only

	Offset uint64
	Count  uint32 // Tread, Rwrite; for Rread/Twrite the encoder uses len(Data) unless RawCount is set
	Data   []byte

	// RawCount, when non-nil, is written as the count field of Twrite/Rread
	// instead of len(Data) (to hand-build malformed frames).
	RawCount *uint32

	Stat Stat
}

type enc struct{ b []byte }

func (e *enc) u8(v uint8)   { e.b = append(e.b, v) }
func (e *enc) u16(v uint16) { e.b = binary.LittleEndian.AppendUint16(e.b, v) }
func (e *enc) u32(v uint32) { e.b = binary.LittleEndian.AppendUint32(e.b, v) }
func (e *enc) u64(v uint64) { e.b = binary.LittleEndian.AppendUint64(e.b, v) }
func (e *enc) str(s string) {
	if len(s) > 0xFFFF {
		panic("ref9p: string too long for the wire")
	}
	e.u16(uint16(len(s)))
	e.b = append(e.b, s...)
}
func (e *enc) qid(q Qid) { e.u8(q.Type); e.u32(q.Vers); e.u64(q.Path) }

// StatLen returns the length of the encoded stat record including its own
// leading size[2].
func StatLen(s *Stat, dotu bool) int {
	n := 2 + 2 + 4 + 13 + 4 + 4 + 4 + 8 + 2 + len(s.Name) + 2 + len(s.Uid) + 2 + len(s.Gid) + 2 + len(s.Muid)
	if dotu {
		n += 2 + len(s.Ext) + 4 + 4 + 4
	}
	return n
}

func (e *enc) stat(s *Stat, dotu bool) {
	n := StatLen(s, dotu)
	if n-2 > 0xFFFF {
		panic("ref9p: stat too long for the wire")
	}
	e.u16(uint16(n - 2))
	e.u16(s.Type)
	e.u32(s.Dev)
	e.qid(s.Qid)
	e.u32(s.Mode)
	e.u32(s.Atime)
	e.u32(s.Mtime)
	e.u64(s.Length)
	e.str(s.Name)
	e.str(s.Uid)
	e.str(s.Gid)
	e.str(s.Muid)
	if dotu {
		e.str(s.Ext)
		e.u32(s.Nuid)
		e.u32(s.Ngid)
		e.u32(s.Nmuid)
	}
}

// EncodeStat encodes one stat record (size[2] first).
func EncodeStat(s *Stat, dotu bool) []byte {
	var e enc
	e.stat(s, dotu)
	return e.b
}

// Encode produces the wire bytes of m in the given dialect.
func Encode(m *Msg, dotu bool) []byte {
	var e enc
	e.u32(0)
	e.u8(m.Type)
	e.u16(m.Tag)
	switch m.Type {
	case Tversion, Rversion:
		e.u32(m.Msize)
		e.str(m.Version)
	case Tauth:
		e.u32(m.Afid)
		e.str(m.Uname)
		e.str(m.Aname)
		if dotu {
			e.u32(m.Nuname)
		}
	case Rauth, Rattach:
		e.qid(m.Qid)
	case Tattach:
		e.u32(m.Fid)
		e.u32(m.Afid)
		e.str(m.Uname)
		e.str(m.Aname)
		if dotu {
			e.u32(m.Nuname)
		}
	case Rerror:
		e.str(m.Ename)
		if dotu {
			e.u32(m.Ecode)
		}
	case Tflush:
		e.u16(m.Oldtag)
	case Rflush, Rclunk, Rremove, Rwstat:
	case Twalk:
		e.u32(m.Fid)
		e.u32(m.Newfid)
		e.u16(uint16(len(m.Wname)))
		for _, w := range m.Wname {
			e.str(w)
		}
	case Rwalk:
		e.u16(uint16(len(m.Wqid)))
		for _, q := range m.Wqid {
			e.qid(q)
		}
	case Topen:
		e.u32(m.Fid)
		e.u8(m.Mode)
	case Ropen, Rcreate:
		e.qid(m.Qid)
		e.u32(m.Iounit)
	case Tcreate:
		e.u32(m.Fid)
		e.str(m.Name)
		e.u32(m.Perm)
		e.u8(m.Mode)
		if dotu {
			e.str(m.Ext)
		}
	case Tread:
		e.u32(m.Fid)
		e.u64(m.Offset)
		e.u32(m.Count)
	case Rread:
		if m.RawCount != nil {
			e.u32(*m.RawCount)
		} else {
			e.u32(uint32(len(m.Data)))
		}
		e.b = append(e.b, m.Data...)
	case Twrite:
		e.u32(m.Fid)
		e.u64(m.Offset)
		if m.RawCount != nil {
			e.u32(*m.RawCount)
		} else {
			e.u32(uint32(len(m.Data)))
		}
		e.b = append(e.b, m.Data...)
	case Rwrite:
		e.u32(m.Count)
	case Tclunk, Tremove, Tstat:
		e.u32(m.Fid)
	case Rstat:
		e.u16(uint16(StatLen(&m.Stat, dotu)))
		e.stat(&m.Stat, dotu)
	case Twstat:
		e.u32(m.Fid)
		e.u16(uint16(StatLen(&m.Stat, dotu)))
		e.stat(&m.Stat, dotu)
	default:
		panic(fmt.Sprintf("ref9p: cannot encode type %d", m.Type))
	}
	binary.LittleEndian.PutUint32(e.b, uint32(len(e.b)))
	return e.b
}

// ---------------------------------------------------------------------------
// strict decoder

var ErrShort = errors.New("ref9p: short")

type dec struct {
	b   []byte
	off int
	err error
	// field map recording
	fm *[]Field
}

// Field describes one wire field of a decoded packet.
type Field struct {
	Name string
	Off  int
	Len  int
	Kind string // "size","type","tag","u8","u16","u32","u64","strlen","str","count","nw","statlen","statsize","data","qid"
}

func (d *dec) rec(name, kind string, n int) {
	if d.fm != nil {
		*d.fm = append(*d.fm, Field{name, d.off, n, kind})
	}
}

func (d *dec) need(n int) bool {
	if d.err != nil {
		return false
	}
	if n < 0 || len(d.b)-d.off < n {
		d.err = ErrShort
		return false
	}
	return true
}
func (d *dec) u8(name string) uint8 {
	if !d.need(1) {
		return 0
	}
	d.rec(name, "u8", 1)
	v := d.b[d.off]
	d.off++
	return v
}
func (d *dec) u16k(name, kind string) uint16 {
	if !d.need(2) {
		return 0
	}
	d.rec(name, kind, 2)
	v := binary.LittleEndian.Uint16(d.b[d.off:])
	d.off += 2
	return v
}
func (d *dec) u16(name string) uint16 { return d.u16k(name, "u16") }
func (d *dec) u32k(name, kind string) uint32 {
	if !d.need(4) {
		return 0
	}
	d.rec(name, kind, 4)
	v := binary.LittleEndian.Uint32(d.b[d.off:])
	d.off += 4
	return v
}
func (d *dec) u32(name string) uint32 { return d.u32k(name, "u32") }
func (d *dec) u64(name string) uint64 {
	if !d.need(8) {
		return 0
	}
	d.rec(name, "u64", 8)
	v := binary.LittleEndian.Uint64(d.b[d.off:])
	d.off += 8
	return v
}
func (d *dec) str(name string) string {
	n := int(d.u16k(name+".len", "strlen"))
	if !d.need(n) {
		return ""
	}
	d.rec(name, "str", n)
	s := string(d.b[d.off : d.off+n])
	d.off += n
	return s
}
func (d *dec) qid(name string) Qid {
	var q Qid
	q.Type = d.u8(name + ".type")
	q.Vers = d.u32(name + ".vers")
	q.Path = d.u64(name + ".path")
	return q
}

func (d *dec) stat(dotu bool) Stat {
	var s Stat
	start := d.off
	sz := int(d.u16k("stat.size", "statsize"))
	s.Type = d.u16("stat.type")
	s.Dev = d.u32("stat.dev")
	s.Qid = d.qid("stat.qid")
	s.Mode = d.u32("stat.mode")
	s.Atime = d.u32("stat.atime")
	s.Mtime = d.u32("stat.mtime")
	s.Length = d.u64("stat.length")
	s.Name = d.str("stat.name")
	s.Uid = d.str("stat.uid")
	s.Gid = d.str("stat.gid")
	s.Muid = d.str("stat.muid")
	if dotu {
		s.Ext = d.str("stat.ext")
		s.Nuid = d.u32("stat.nuid")
		s.Ngid = d.u32("stat.ngid")
		s.Nmuid = d.u32("stat.nmuid")
	}
	if d.err == nil && d.off-start != sz+2 {
		d.err = fmt.Errorf("ref9p: stat size field %d but record is %d", sz, d.off-start-2)
	}
	return s
}

// DecodeStat strictly decodes one stat record from the front of b and returns
// the number of bytes it occupies.
func DecodeStat(b []byte, dotu bool) (*Stat, int, error) {
	d := &dec{b: b}
	s := d.stat(dotu)
	if d.err != nil {
		return nil, 0, d.err
	}
	return &s, d.off, nil
}

// Decode strictly decodes exactly one message from the front of b.
func Decode(b []byte, dotu bool) (*Msg, int, error) {
	m, n, _, err := decode(b, dotu, false)
	return m, n, err
}

// FieldMap decodes b (which must be strictly valid) and returns the byte
// positions of all its fields.
func FieldMap(b []byte, dotu bool) ([]Field, error) {
	_, _, fm, err := decode(b, dotu, true)
	return fm, err
}

// Stage1 reports whether b gets past the header checks: at least 7 bytes, a
// declared size within [7, len(b)] and a defined type.
func Stage1(b []byte) bool {
	if len(b) < 7 {
		return false
	}
	sz := binary.LittleEndian.Uint32(b)
	if sz < 7 || uint64(sz) > uint64(len(b)) {
		return false
	}
	return Defined(b[4])
}

func decode(b []byte, dotu bool, wantMap bool) (*Msg, int, []Field, error) {
	if len(b) < 7 {
		return nil, 0, nil, ErrShort
	}
	size := binary.LittleEndian.Uint32(b)
	if size < 7 {
		return nil, 0, nil, fmt.Errorf("ref9p: size %d < 7", size)
	}
	if uint64(size) > uint64(len(b)) {
		return nil, 0, nil, ErrShort
	}
	var fm []Field
	d := &dec{b: b[:size]}
	if wantMap {
		d.fm = &fm
	}
	d.u32k("size", "size")
	m := &Msg{Fid: NOFID, Afid: NOFID, Newfid: NOFID}
	d.rec("type", "type", 1)
	m.Type = d.b[d.off]
	d.off++
	m.Tag = d.u16k("tag", "tag")
	switch m.Type {
	case Tversion, Rversion:
		m.Msize = d.u32("msize")
		m.Version = d.str("version")
	case Tauth:
		m.Afid = d.u32("afid")
		m.Uname = d.str("uname")
		m.Aname = d.str("aname")
		if dotu {
			m.Nuname = d.u32("nuname")
		}
	case Rauth, Rattach:
		m.Qid = d.qid("qid")
	case Tattach:
		m.Fid = d.u32("fid")
		m.Afid = d.u32("afid")
		m.Uname = d.str("uname")
		m.Aname = d.str("aname")
		if dotu {
			m.Nuname = d.u32("nuname")
		}
	case Rerror:
		m.Ename = d.str("ename")
		if dotu {
			m.Ecode = d.u32("ecode")
		}
	case Tflush:
		m.Oldtag = d.u16("oldtag")
	case Rflush, Rclunk, Rremove, Rwstat:
	case Twalk:
		m.Fid = d.u32("fid")
		m.Newfid = d.u32("newfid")
		n := int(d.u16k("nwname", "nw"))
		if d.err == nil && n*2 > len(d.b)-d.off {
			d.err = ErrShort
		}
		if d.err == nil {
			m.Wname = make([]string, 0, n)
			for i := 0; i < n && d.err == nil; i++ {
				m.Wname = append(m.Wname, d.str(fmt.Sprintf("wname%d", i)))
			}
		}
	case Rwalk:
		n := int(d.u16k("nwqid", "nw"))
		if d.err == nil && n*13 > len(d.b)-d.off {
			d.err = ErrShort
		}
		if d.err == nil {
			m.Wqid = make([]Qid, 0, n)
			for i := 0; i < n && d.err == nil; i++ {
				m.Wqid = append(m.Wqid, d.qid(fmt.Sprintf("wqid%d", i)))
			}
		}
	case Topen:
		m.Fid = d.u32("fid")
		m.Mode = d.u8("mode")
	case Ropen, Rcreate:
		m.Qid = d.qid("qid")
		m.Iounit = d.u32("iounit")
	case Tcreate:
		m.Fid = d.u32("fid")
		m.Name = d.str("name")
		m.Perm = d.u32("perm")
		m.Mode = d.u8("mode")
		if dotu {
			m.Ext = d.str("ext")
		}
	case Tread:
		m.Fid = d.u32("fid")
		m.Offset = d.u64("offset")
		m.Count = d.u32k("count", "count")
	case Rread:
		m.Count = d.u32k("count", "count")
		if d.err == nil {
			if uint64(m.Count) != uint64(len(d.b)-d.off) {
				d.err = fmt.Errorf("ref9p: Rread count %d but %d data bytes", m.Count, len(d.b)-d.off)
			} else {
				d.rec("data", "data", int(m.Count))
				m.Data = append([]byte(nil), d.b[d.off:]...)
				d.off = len(d.b)
			}
		}
	case Twrite:
		m.Fid = d.u32("fid")
		m.Offset = d.u64("offset")
		m.Count = d.u32k("count", "count")
		if d.err == nil {
			if uint64(m.Count) != uint64(len(d.b)-d.off) {
				d.err = fmt.Errorf("ref9p: Twrite count %d but %d data bytes", m.Count, len(d.b)-d.off)
			} else {
				d.rec("data", "data", int(m.Count))
				m.Data = append([]byte(nil), d.b[d.off:]...)
				d.off = len(d.b)
			}
		}
	case Rwrite:
		m.Count = d.u32k("count", "count")
	case Tclunk, Tremove, Tstat:
		m.Fid = d.u32("fid")
	case Rstat:
		n := int(d.u16k("nstat", "statlen"))
		start := d.off
		m.Stat = d.stat(dotu)
		if d.err == nil && d.off-start != n {
			d.err = fmt.Errorf("ref9p: stat[n] n=%d but %d bytes", n, d.off-start)
		}
	case Twstat:
		m.Fid = d.u32("fid")
		n := int(d.u16k("nstat", "statlen"))
		start := d.off
		m.Stat = d.stat(dotu)
		if d.err == nil && d.off-start != n {
			d.err = fmt.Errorf("ref9p: stat[n] n=%d but %d bytes", n, d.off-start)
		}
	default:
		return nil, 0, nil, fmt.Errorf("ref9p: undefined type %d", m.Type)
	}
	if d.err != nil {
		return nil, 0, nil, d.err
	}
	if d.off != len(d.b) {
		return nil, 0, nil, fmt.Errorf("ref9p: %d trailing bytes inside the packet", len(d.b)-d.off)
	}
	return m, int(size), fm, nil
}

// SplitFrames cuts a byte stream into frames using only the size prefix.
// It returns the frames and the unconsumed rest.
func SplitFrames(b []byte) (frames [][]byte, rest []byte, err error) {
	for len(b) >= 4 {
		sz := binary.LittleEndian.Uint32(b)
		if sz < 7 {
			return frames, b, fmt.Errorf("ref9p: frame size %d < 7", sz)
		}
		if uint64(sz) > uint64(len(b)) {
			break
		}
		frames = append(frames, b[:sz])
		b = b[sz:]
	}
	return frames, b, nil
}

// SetTag returns a copy of pkt with tag at its wire position.
func SetTag(pkt []byte, tag uint16) []byte {
	c := append([]byte(nil), pkt...)
	binary.LittleEndian.PutUint16(c[5:], tag)
	return c
}

// Canon returns a copy of m in which every field the (type, dialect) does not
// carry is zeroed and empty slices are nil, so that two messages can be
// compared with reflect.DeepEqual / Diff.
func Canon(m *Msg, dotu bool) *Msg {
	c := &Msg{Type: m.Type, Tag: m.Tag}
	switch m.Type {
	case Tversion, Rversion:
		c.Msize, c.Version = m.Msize, m.Version
	case Tauth:
		c.Afid, c.Uname, c.Aname = m.Afid, m.Uname, m.Aname
		if dotu {
			c.Nuname = m.Nuname
		}
	case Rauth, Rattach:
		c.Qid = m.Qid
	case Tattach:
		c.Fid, c.Afid, c.Uname, c.Aname = m.Fid, m.Afid, m.Uname, m.Aname
		if dotu {
			c.Nuname = m.Nuname
		}
	case Rerror:
		c.Ename = m.Ename
		if dotu {
			c.Ecode = m.Ecode
		}
	case Tflush:
		c.Oldtag = m.Oldtag
	case Twalk:
		c.Fid, c.Newfid = m.Fid, m.Newfid
		if len(m.Wname) > 0 {
			c.Wname = append([]string(nil), m.Wname...)
		}
	case Rwalk:
		if len(m.Wqid) > 0 {
			c.Wqid = append([]Qid(nil), m.Wqid...)
		}
	case Topen:
		c.Fid, c.Mode = m.Fid, m.Mode
	case Ropen, Rcreate:
		c.Qid, c.Iounit = m.Qid, m.Iounit
	case Tcreate:
		c.Fid, c.Name, c.Perm, c.Mode = m.Fid, m.Name, m.Perm, m.Mode
		if dotu {
			c.Ext = m.Ext
		}
	case Tread:
		c.Fid, c.Offset, c.Count = m.Fid, m.Offset, m.Count
	case Rread:
		c.Count = uint32(len(m.Data))
		if len(m.Data) > 0 {
			c.Data = append([]byte(nil), m.Data...)
		}
	case Twrite:
		c.Fid, c.Offset = m.Fid, m.Offset
		c.Count = uint32(len(m.Data))
		if len(m.Data) > 0 {
			c.Data = append([]byte(nil), m.Data...)
		}
	case Rwrite:
		c.Count = m.Count
	case Tclunk, Tremove, Tstat:
		c.Fid = m.Fid
	case Rstat:
		c.Stat = CanonStat(&m.Stat, dotu)
	case Twstat:
		c.Fid = m.Fid
		c.Stat = CanonStat(&m.Stat, dotu)
	}
	return c
}

func CanonStat(s *Stat, dotu bool) Stat {
	c := *s
	if !dotu {
		c.Ext, c.Nuid, c.Ngid, c.Nmuid = "", 0, 0, 0
	}
	return c
}

// Diff returns "" if the two canonical messages are equal, else a short
// description of the first differing field.
func Diff(a, b *Msg) string {
	if a.Type != b.Type {
		return fmt.Sprintf("type %d != %d", a.Type, b.Type)
	}
	if a.Tag != b.Tag {
		return fmt.Sprintf("tag %d != %d", a.Tag, b.Tag)
	}
	eqs := func(x, y []string) bool {
		if len(x) != len(y) {
			return false
		}
		for i := range x {
			if x[i] != y[i] {
				return false
			}
		}
		return true
	}
	eqq := func(x, y []Qid) bool {
		if len(x) != len(y) {
			return false
		}
		for i := range x {
			if x[i] != y[i] {
				return false
			}
		}
		return true
	}
	if a.Msize == b.Msize && a.Version == b.Version && a.Fid == b.Fid && a.Afid == b.Afid && a.Newfid == b.Newfid &&
		a.Uname == b.Uname && a.Aname == b.Aname && a.Nuname == b.Nuname && a.Ename == b.Ename && a.Ecode == b.Ecode &&
		a.Oldtag == b.Oldtag && eqs(a.Wname, b.Wname) && eqq(a.Wqid, b.Wqid) && a.Mode == b.Mode && a.Qid == b.Qid &&
		a.Iounit == b.Iounit && a.Name == b.Name && a.Perm == b.Perm && a.Ext == b.Ext && a.Offset == b.Offset &&
		a.Count == b.Count && string(a.Data) == string(b.Data) && a.Stat == b.Stat {
		return ""
	}
	chk := func(name string, x, y interface{}) string {
		if fmt.Sprintf("%#v", x) != fmt.Sprintf("%#v", y) {
			sx, sy := fmt.Sprintf("%#v", x), fmt.Sprintf("%#v", y)
			if len(sx) > 120 {
				sx = sx[:120] + "…"
			}
			if len(sy) > 120 {
				sy = sy[:120] + "…"
			}
			return fmt.Sprintf("%s: %s != %s", name, sx, sy)
		}
		return ""
	}
	for _, d := range []string{
		chk("msize", a.Msize, b.Msize), chk("version", a.Version, b.Version),
		chk("fid", a.Fid, b.Fid), chk("afid", a.Afid, b.Afid), chk("newfid", a.Newfid, b.Newfid),
		chk("uname", a.Uname, b.Uname), chk("aname", a.Aname, b.Aname), chk("nuname", a.Nuname, b.Nuname),
		chk("ename", a.Ename, b.Ename), chk("ecode", a.Ecode, b.Ecode), chk("oldtag", a.Oldtag, b.Oldtag),
		chk("nwname", len(a.Wname), len(b.Wname)), chk("wname", a.Wname, b.Wname),
		chk("nwqid", len(a.Wqid), len(b.Wqid)), chk("wqid", a.Wqid, b.Wqid),
		chk("mode", a.Mode, b.Mode), chk("qid", a.Qid, b.Qid), chk("iounit", a.Iounit, b.Iounit),
		chk("name", a.Name, b.Name), chk("perm", a.Perm, b.Perm), chk("ext", a.Ext, b.Ext),
		chk("offset", a.Offset, b.Offset), chk("count", a.Count, b.Count),
		chk("datalen", len(a.Data), len(b.Data)), chk("data", string(a.Data), string(b.Data)),
		chk("stat", a.Stat, b.Stat),
	} {
		if d != "" {
			return d
		}
	}
	return ""
}
