// Package peer is a scripted 9P server peer for client-side checks: it reads
// the T-messages a go9p client writes (decoding them strictly with the
// reference codec), hands them to the test, and writes whatever reply bytes the
// test chooses, in whatever chunks.
package peer

import (
	"fmt"
	"hash/fnv"
	"sync"
	"time"

	"verif/internal/ref9p"
	"verif/internal/xport"
)

type Req struct {
	Msg *ref9p.Msg
	Raw []byte
	Err error // strict decoding error, if any
}

type Peer struct {
	End   *xport.End // harness side
	Lib   *xport.End // the end handed to the client
	Dotu  bool
	Msize uint32
	// MaxMsize / AllowDotu bound what the peer grants in Rversion.
	MaxMsize  uint32
	AllowDotu bool

	mu      sync.Mutex
	reqs    chan *Req
	started bool
}

func New(name string, maxMsize uint32, allowDotu bool) *Peer {
	h, l := xport.Pair(name)
	return &Peer{End: h, Lib: l, MaxMsize: maxMsize, AllowDotu: allowDotu, reqs: make(chan *Req, 1<<17)}
}

// Start begins reading requests. Tversion is answered automatically (and sets
// the dialect used to decode later requests) unless manualVersion is set.
func (p *Peer) Start(manualVersion bool) {
	p.mu.Lock()
	if p.started {
		p.mu.Unlock()
		return
	}
	p.started = true
	p.mu.Unlock()
	go func() {
		defer close(p.reqs)
		for f := range p.End.Frames() {
			dotu := p.dotu()
			m, _, err := ref9p.Decode(f, dotu)
			r := &Req{Msg: m, Raw: f, Err: err}
			if err == nil && m.Type == ref9p.Tversion && !manualVersion {
				ms := m.Msize
				if ms > p.MaxMsize {
					ms = p.MaxMsize
				}
				ver := "9P2000"
				if m.Version == "9P2000.u" && p.AllowDotu {
					ver = "9P2000.u"
				}
				p.mu.Lock()
				p.Dotu, p.Msize = ver == "9P2000.u", ms
				p.mu.Unlock()
				_, _ = p.End.Write(ref9p.Encode(&ref9p.Msg{Type: ref9p.Rversion, Tag: m.Tag, Msize: ms, Version: ver}, false))
				continue
			}
			p.reqs <- r
		}
	}()
}

func (p *Peer) dotu() bool {
	p.mu.Lock()
	defer p.mu.Unlock()
	return p.Dotu
}

// Next waits for the next request.
func (p *Peer) Next(d time.Duration) (*Req, bool) {
	select {
	case r, ok := <-p.reqs:
		return r, ok
	case <-time.After(d):
		return nil, true
	}
}

// TryNext returns a request if one is already queued.
func (p *Peer) TryNext() *Req {
	select {
	case r := <-p.reqs:
		return r
	default:
		return nil
	}
}

func h64(s string) uint64 {
	h := fnv.New64a()
	h.Write([]byte(s))
	return h.Sum64()
}

// PRF returns n deterministic bytes derived from key.
func PRF(key string, n int) []byte {
	b := make([]byte, n)
	x := h64(key) | 1
	for i := range b {
		x ^= x << 13
		x ^= x >> 7
		x ^= x << 17
		b[i] = byte(x >> 24)
	}
	return b
}

// ReadData is the content the peer returns for a Tread.
func ReadData(fid uint32, off uint64, count uint32) []byte {
	return PRF(fmt.Sprintf("read/%d/%d", fid, off), int(count))
}

// StatName is the name the peer reports for a fid.
func StatName(fid uint32) string { return fmt.Sprintf("s%d", fid) }

// WalkQid is the qid the peer reports for a name walked from fid.
func WalkQid(fid uint32, i int, name string) ref9p.Qid {
	return ref9p.Qid{Type: 0x80, Vers: uint32(i), Path: h64(fmt.Sprintf("%d/%d/%s", fid, i, name))}
}

// Answer is the matching R-message for m, a pure function of the request.
func Answer(m *ref9p.Msg) *ref9p.Msg {
	r := &ref9p.Msg{Type: m.Type + 1, Tag: m.Tag}
	switch m.Type {
	case ref9p.Tattach, ref9p.Tauth:
		r.Qid = ref9p.Qid{Type: 0x80, Vers: 1, Path: h64(fmt.Sprintf("attach/%d/%s", m.Fid, m.Aname))}
	case ref9p.Twalk:
		for i, n := range m.Wname {
			r.Wqid = append(r.Wqid, WalkQid(m.Fid, i, n))
		}
	case ref9p.Topen, ref9p.Tcreate:
		r.Qid = ref9p.Qid{Type: 0, Vers: 2, Path: h64(fmt.Sprintf("open/%d/%s", m.Fid, m.Name))}
		r.Iounit = 0
	case ref9p.Tread:
		r.Data = ReadData(m.Fid, m.Offset, m.Count)
	case ref9p.Twrite:
		r.Count = uint32(len(m.Data))
	case ref9p.Tstat:
		r.Stat = ref9p.Stat{Type: 1, Dev: 2, Qid: ref9p.Qid{Type: 0, Vers: 3, Path: uint64(m.Fid)}, Mode: 0o644, Atime: 4, Mtime: 5, Length: uint64(m.Fid) * 3,
			Name: StatName(m.Fid), Uid: "u", Gid: "g", Muid: "m", Ext: "", Nuid: 7, Ngid: 8, Nmuid: 9}
	}
	return r
}

// Encode encodes a reply in the negotiated dialect.
func (p *Peer) Encode(m *ref9p.Msg) []byte { return ref9p.Encode(m, p.dotu()) }

// Write writes reply bytes cut at the given cumulative offsets.
func (p *Peer) Write(b []byte, cuts []int) error { return p.End.WriteChunks(b, cuts) }
