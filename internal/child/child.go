// Package child builds cmd/srvchild once per test process and runs server
// children (crash containment: the search goes on after the server died).
package child

import (
	"bytes"
	"errors"
	"fmt"
	"io"
	"net"
	"os"
	"os/exec"
	"path/filepath"
	"strings"
	"sync"
	"syscall"
	"time"

	"verif/internal/hx"
)

var (
	once    sync.Once
	base    string
	bin     string
	errB    error
	janitor io.WriteCloser
)

func goEnv() []string {
	var out []string
	for _, kv := range os.Environ() {
		k, _, _ := strings.Cut(kv, "=")
		switch k {
		case "GOFLAGS", "GOPROXY", "GOTOOLCHAIN", "GOSUMDB", "CGO_ENABLED":
			continue
		}
		out = append(out, kv)
	}
	return append(out, "GOFLAGS=-mod=mod", "GOPROXY=off", "CGO_ENABLED=0")
}

// Base returns the per-process scratch directory (on /dev/shm when possible),
// removed by a janitor process when this process is gone, and the srvchild binary.
func Base() (dir, binary string, err error) {
	once.Do(func() {
		for _, parent := range []string{"/dev/shm", os.TempDir()} {
			b, e := os.MkdirTemp(parent, "verif-child-")
			if e != nil {
				errB = e
				continue
			}
			bn := filepath.Join(b, "srvchild")
			args := []string{"build", "-tags", "verif", "-o", bn}
			if mf := os.Getenv("VERIF_MODFILE"); mf != "" {
				args = append(args, "-modfile="+mf)
			}
			args = append(args, "verif/cmd/srvchild")
			cmd := exec.Command("go", args...)
			cmd.Dir = hx.Root
			cmd.Env = goEnv()
			if out, e := cmd.CombinedOutput(); e != nil {
				_ = os.RemoveAll(b)
				errB = fmt.Errorf("building srvchild failed: %v\n%s", e, out)
				return
			}
			jan := exec.Command(bn, "-janitor", b)
			jin, e := jan.StdinPipe()
			if e == nil {
				e = jan.Start()
			}
			if e != nil {
				_ = os.RemoveAll(b)
				errB = fmt.Errorf("janitor in %s: %v", b, e)
				continue
			}
			janitor = jin
			go func() { _ = jan.Wait() }()
			base, bin, errB = b, bn, nil
			return
		}
	})
	return base, bin, errB
}

type Child struct {
	Args   []string
	Sock   string
	cmd    *exec.Cmd
	stdin  io.WriteCloser
	mu     sync.Mutex
	stderr bytes.Buffer
	ready  chan struct{}
	dead   chan struct{}
	Deaths int
}

// Start runs srvchild with the given arguments plus -sock.
func Start(sock string, args ...string) (*Child, error) {
	c := &Child{Args: args, Sock: sock}
	if err := c.start(); err != nil {
		return nil, err
	}
	return c, nil
}

func (c *Child) start() error {
	_, bn, err := Base()
	if err != nil {
		return err
	}
	_ = os.Remove(c.Sock)
	cmd := exec.Command(bn, append(append([]string{}, c.Args...), "-sock", c.Sock)...)
	stdin, err := cmd.StdinPipe()
	if err != nil {
		return err
	}
	perr, err := cmd.StderrPipe()
	if err != nil {
		return err
	}
	c.mu.Lock()
	c.stderr.Reset()
	c.mu.Unlock()
	c.cmd, c.stdin, c.ready, c.dead = cmd, stdin, make(chan struct{}), make(chan struct{})
	if err := cmd.Start(); err != nil {
		return err
	}
	ready, dead := c.ready, c.dead
	go func() {
		buf := make([]byte, 4096)
		signalled := false
		for {
			n, err := perr.Read(buf)
			if n > 0 {
				c.mu.Lock()
				if c.stderr.Len() < 1<<20 {
					c.stderr.Write(buf[:n])
				}
				isReady := !signalled && bytes.Contains(c.stderr.Bytes(), []byte("READY\n"))
				c.mu.Unlock()
				if isReady {
					signalled = true
					close(ready)
				}
			}
			if err != nil {
				break
			}
		}
		_ = cmd.Wait()
		close(dead)
	}()
	select {
	case <-ready:
		return nil
	case <-dead:
		return fmt.Errorf("srvchild exited before READY: %s", c.ErrText())
	case <-time.After(20 * time.Second):
		_ = cmd.Process.Kill()
		return fmt.Errorf("srvchild not READY after 20 s: %s", c.ErrText())
	}
}

func (c *Child) Alive() bool {
	select {
	case <-c.dead:
		return false
	default:
		return true
	}
}

func (c *Child) ErrText() string {
	c.mu.Lock()
	defer c.mu.Unlock()
	s := strings.Replace(c.stderr.String(), "READY\n", "", 1)
	if len(s) > 8000 {
		s = s[:8000]
	}
	return s
}

// Dump asks a live child for its goroutine dump (SIGQUIT kills it) and returns its stderr.
func (c *Child) Dump() string {
	if c.Alive() {
		_ = c.cmd.Process.Signal(syscall.SIGQUIT)
		select {
		case <-c.dead:
		case <-time.After(5 * time.Second):
			_ = c.cmd.Process.Kill()
			<-c.dead
		}
	}
	return c.ErrText()
}

// Restart kills the child (if alive) and starts a fresh one.
func (c *Child) Restart() error {
	if c.Alive() {
		_ = c.cmd.Process.Kill()
		<-c.dead
	}
	c.Deaths++
	return c.start()
}

func (c *Child) Stop() {
	if c.Alive() {
		_ = c.stdin.Close()
		select {
		case <-c.dead:
		case <-time.After(2 * time.Second):
			_ = c.cmd.Process.Kill()
		}
	}
}

// Dial connects to the child's socket. A timeout is retried while the process
// is alive (for up to a minute): a local connect only times out when this
// process or the machine stalled, and callers read a failed dial as "the
// server accepts no more connections".
func (c *Child) Dial() (net.Conn, error) {
	start := time.Now()
	for {
		cn, err := net.DialTimeout("unix", c.Sock, 10*time.Second)
		if err == nil {
			return cn, nil
		}
		var ne net.Error
		if errors.As(err, &ne) && ne.Timeout() && c.Alive() && time.Since(start) < time.Minute {
			continue
		}
		return nil, err
	}
}
