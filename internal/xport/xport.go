// Package xport is an in-memory net.Conn pair that the harness owns
// completely: every Write on one end becomes one chunk that a Read on the other
// end returns (never merged with the next chunk), writes never block, either
// direction can be ended with EOF or an error after any byte, and everything
// written is recorded together with its write boundaries.
package xport

import (
	"encoding/binary"
	"errors"
	"io"
	"net"
	"sync"
	"sync/atomic"
	"time"
)

type half struct {
	mu      sync.Mutex
	cond    *sync.Cond
	chunks  [][]byte
	eof     bool  // writer closed: reader sees EOF after draining
	rderr   error // reader sees this error after draining (instead of EOF)
	rclosed bool  // reader closed: reads fail at once, writes fail
	wrerr   error // writes fail with this error
	total   int   // bytes written so far
	bounds  []int // cumulative offsets of write boundaries
	all     []byte
	record  bool
}

func newHalf() *half { h := &half{record: true}; h.cond = sync.NewCond(&h.mu); return h }

func (h *half) write(p []byte) (int, error) {
	h.mu.Lock()
	defer h.mu.Unlock()
	if h.wrerr != nil {
		return 0, h.wrerr
	}
	if h.rclosed || h.eof {
		return 0, io.ErrClosedPipe
	}
	if len(p) == 0 {
		return 0, nil
	}
	c := append([]byte(nil), p...)
	h.chunks = append(h.chunks, c)
	h.total += len(p)
	if h.record {
		h.bounds = append(h.bounds, h.total)
		h.all = append(h.all, p...)
	}
	h.cond.Broadcast()
	return len(p), nil
}

func (h *half) read(p []byte) (int, error) {
	h.mu.Lock()
	defer h.mu.Unlock()
	for {
		if h.rclosed {
			return 0, net.ErrClosed
		}
		if len(h.chunks) > 0 {
			if len(p) == 0 {
				return 0, nil
			}
			c := h.chunks[0]
			n := copy(p, c)
			if n == len(c) {
				h.chunks = h.chunks[1:]
			} else {
				h.chunks[0] = c[n:]
			}
			return n, nil
		}
		if h.rderr != nil {
			return 0, h.rderr
		}
		if h.eof {
			return 0, io.EOF
		}
		h.cond.Wait()
	}
}

func (h *half) closeWrite() {
	h.mu.Lock()
	h.eof = true
	h.cond.Broadcast()
	h.mu.Unlock()
}

func (h *half) closeRead() {
	h.mu.Lock()
	h.rclosed = true
	h.chunks = nil
	h.cond.Broadcast()
	h.mu.Unlock()
}

// End is one end of the pair; it implements net.Conn.
type End struct {
	rd, wr *half
	name   string
	peer   string
	once   sync.Once
	closed chan struct{}

	writeHook atomic.Pointer[func(p []byte)]

	fmu     sync.Mutex
	frames  chan []byte
	started bool
}

type addr string

func (a addr) Network() string { return "xport" }
func (a addr) String() string  { return string(a) }

// Pair returns the two ends. By convention a is the harness side, b the
// library side.
func Pair(name string) (a, b *End) {
	h1, h2 := newHalf(), newHalf()
	a = &End{rd: h1, wr: h2, name: name + "/harness", peer: name + "/lib", closed: make(chan struct{})}
	b = &End{rd: h2, wr: h1, name: name + "/lib", peer: name + "/harness", closed: make(chan struct{})}
	return
}

func (e *End) Read(p []byte) (int, error) { return e.rd.read(p) }
func (e *End) Write(p []byte) (int, error) {
	if h := e.writeHook.Load(); h != nil {
		(*h)(p) // may block: models a write that is still in progress (slow reader)
	}
	return e.wr.write(p)
}

// SetWriteHook installs a function that is called at the start of every Write
// on this end, before the bytes are taken; nil removes it.
func (e *End) SetWriteHook(f func(p []byte)) {
	if f == nil {
		e.writeHook.Store(nil)
		return
	}
	e.writeHook.Store(&f)
}

// Close ends both directions: the peer reads EOF after draining what was
// written, the peer's writes fail, local reads fail.
func (e *End) Close() error {
	e.once.Do(func() {
		close(e.closed)
		e.wr.closeWrite()
		e.rd.closeRead()
	})
	return nil
}

// CloseWrite makes the peer read EOF after draining; the other direction stays open.
func (e *End) CloseWrite() { e.wr.closeWrite() }

// FailPeer makes the peer's reads return err after draining what was written,
// and the peer's writes fail with err as well.
func (e *End) FailPeer(err error) {
	e.wr.mu.Lock()
	e.wr.rderr = err
	e.wr.cond.Broadcast()
	e.wr.mu.Unlock()
	e.rd.mu.Lock()
	e.rd.wrerr = err
	e.rd.mu.Unlock()
}

func (e *End) LocalAddr() net.Addr                { return addr(e.name) }
func (e *End) RemoteAddr() net.Addr               { return addr(e.peer) }
func (e *End) SetDeadline(t time.Time) error      { return nil }
func (e *End) SetReadDeadline(t time.Time) error  { return nil }
func (e *End) SetWriteDeadline(t time.Time) error { return nil }

// Unread returns the number of bytes this end has written that the peer has
// not read yet.
func (e *End) Unread() int {
	e.wr.mu.Lock()
	defer e.wr.mu.Unlock()
	n := 0
	for _, c := range e.wr.chunks {
		n += len(c)
	}
	return n
}

// Closed reports whether this end was closed (by its owner).
func (e *End) Closed() bool {
	select {
	case <-e.closed:
		return true
	default:
		return false
	}
}

// PeerClosed reports whether the other end has closed (we would read EOF).
func (e *End) PeerClosed() bool {
	e.rd.mu.Lock()
	defer e.rd.mu.Unlock()
	return e.rd.eof || e.rd.rderr != nil
}

// Received returns a copy of everything the peer has written so far and the
// cumulative offsets of its write boundaries.
func (e *End) Received() (all []byte, bounds []int) {
	e.rd.mu.Lock()
	defer e.rd.mu.Unlock()
	return append([]byte(nil), e.rd.all...), append([]int(nil), e.rd.bounds...)
}

// WriteChunks writes b cut at the given cumulative offsets (each piece is one
// chunk for the reader). Offsets outside (0,len(b)) are ignored.
func (e *End) WriteChunks(b []byte, cuts []int) error {
	prev := 0
	for _, c := range cuts {
		if c <= prev || c >= len(b) {
			continue
		}
		if _, err := e.Write(b[prev:c]); err != nil {
			return err
		}
		prev = c
	}
	if prev < len(b) {
		_, err := e.Write(b[prev:])
		return err
	}
	return nil
}

// Frames returns a channel of complete 9P frames (split on the size prefix
// only) read from this end. The channel is closed at EOF / error / a size
// prefix below 7. It starts a reader goroutine on first use.
func (e *End) Frames() <-chan []byte {
	e.fmu.Lock()
	defer e.fmu.Unlock()
	if e.started {
		return e.frames
	}
	e.started = true
	e.frames = make(chan []byte, 4096)
	go func() {
		defer close(e.frames)
		var buf []byte
		tmp := make([]byte, 1<<16)
		for {
			for len(buf) >= 4 {
				sz := int(binary.LittleEndian.Uint32(buf))
				if sz < 7 {
					e.frames <- append([]byte(nil), buf...) // deliver the garbage so the oracle sees it
					return
				}
				if len(buf) < sz {
					break
				}
				e.frames <- append([]byte(nil), buf[:sz]...)
				buf = buf[sz:]
			}
			n, err := e.Read(tmp)
			if n > 0 {
				buf = append(buf, tmp[:n]...)
			}
			if err != nil {
				if len(buf) > 0 && !errors.Is(err, net.ErrClosed) {
					// trailing partial frame
					e.frames <- append([]byte(nil), buf...)
				}
				return
			}
		}
	}()
	return e.frames
}

// ErrTimeout is returned by NextFrame when no frame arrived in time.
var ErrTimeout = errors.New("xport: timeout waiting for a frame")

// NextFrame waits for the next frame.
func (e *End) NextFrame(d time.Duration) ([]byte, error) {
	ch := e.Frames()
	select {
	case f, ok := <-ch:
		if !ok {
			return nil, io.EOF
		}
		return f, nil
	case <-time.After(d):
		return nil, ErrTimeout
	}
}

// TryFrame returns a frame if one is already available.
func (e *End) TryFrame() ([]byte, bool) {
	select {
	case f, ok := <-e.Frames():
		if !ok {
			return nil, false
		}
		return f, true
	default:
		return nil, false
	}
}
