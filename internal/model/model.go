// Package model is the reference model of a 9P connection's fid table and of
// the protocol rules the server framework must enforce before calling the
// implementation. It is written from the property statements (C04, C05) and
// the 9P manual, not from go9p's srv_fcall.go.
package model

import (
	"verif/internal/ref9p"
)

const (
	KDir = iota
	KFile
	KAuth
)

const (
	OREAD  = 0
	OWRITE = 1
	ORDWR  = 2
	OEXEC  = 3

	DMDIR       = 0x80000000
	DMSYMLINK   = 0x02000000
	DMLINK      = 0x01000000
	DMDEVICE    = 0x00800000
	DMNAMEDPIPE = 0x00200000
	DMSOCKET    = 0x00100000
	special     = DMSYMLINK | DMLINK | DMDEVICE | DMNAMEDPIPE | DMSOCKET

	QTDIR  = 0x80
	QTAUTH = 0x08

	IOHDRSZ = 24
)

type Fid struct {
	Kind   int
	Opened bool
	Omode  uint8
	User   string // user name the fid was bound with
	Uid    int
	Qtype  uint8 // exact qid type the fid was last reported with
	Inc    int   // incarnation number the implementation assigned when it was first shown (0 = never shown)
}

type Verdict int

const (
	Must    Verdict = iota // forwarded to the implementation exactly once
	MustNot                // refused with Rerror, never forwarded
	Either                 // the statement is silent
)

func (v Verdict) String() string { return [...]string{"MUST", "MUST_NOT", "EITHER"}[v] }

// Expect is what the rules say about one request in the current state.
type Expect struct {
	Forward Verdict
	// ErrText, if non-empty, is the required Rerror text when refused.
	ErrText string
	// Via names who is invoked when forwarded: "ops" (SrvReqOps), "authinit",
	// "authread", "authwrite", "authdestroy".
	Via string
	// Why explains the verdict (for messages).
	Why string
}

type Conn struct {
	Fids  map[uint32]*Fid
	Dotu  bool
	Msize uint32
	Auth  bool // the implementation provides AuthOps
	// UserRule: 0 = strict (the named user), 1 = a plain-9P2000 Tattach is resolved
	// as uid 0 whatever uname says (listed finding), 2 = lax: the user part of a
	// plain-9P2000 Tattach is not modelled (verdict EITHER, user adopted from the
	// implementation's log).
	UserRule int
}

func NewConn(dotu bool, msize uint32, auth bool) *Conn {
	return &Conn{Fids: map[uint32]*Fid{}, Dotu: dotu, Msize: msize, Auth: auth}
}

func kindOf(qtype uint8) int {
	switch {
	case qtype&QTAUTH != 0:
		return KAuth
	case qtype&QTDIR != 0:
		return KDir
	}
	return KFile
}

// Users known to the scripted Users pool.
var uids = map[int]string{0: "root", 1001: "alice", 1002: "bob"}
var unames = map[string]int{"root": 0, "alice": 1001, "bob": 1002}

// ResolveUser is the user a Tattach/Tauth names: in 9P2000.u the numeric id
// decides when present (n_uname != NOUID), otherwise the name.
func (c *Conn) ResolveUser(m *ref9p.Msg) (name string, uid int, ok bool) {
	if !c.Dotu && m.Type == ref9p.Tattach && c.UserRule == 1 {
		return "root", 0, true
	}
	if c.Dotu && m.Nuname != 0xFFFFFFFF {
		n, ok := uids[int(int32(m.Nuname))]
		if !ok {
			return "", 0, false
		}
		return n, int(int32(m.Nuname)), true
	}
	if c.Dotu {
		// .u with NOUID: the code looks up uid -1; nobody has it
		return "", 0, false
	}
	id, ok := unames[m.Uname]
	return m.Uname, id, ok
}

// Rules returns the expectation for request m in the current state.
func (c *Conn) Rules(m *ref9p.Msg) Expect {
	unknown := Expect{Forward: MustNot, ErrText: "unknown fid", Why: "fid is not valid"}
	inuse := Expect{Forward: MustNot, ErrText: "fid already in use", Why: "fid is already valid"}
	switch m.Type {
	case ref9p.Tauth:
		var bad []Expect
		if m.Afid == ref9p.NOFID {
			return Expect{Forward: Either, Via: "authinit", Why: "afid NOFID: the statement is silent on binding NOFID"}
		} else if c.Fids[m.Afid] != nil {
			bad = append(bad, inuse)
		}
		if _, _, ok := c.ResolveUser(m); !ok {
			bad = append(bad, Expect{Forward: MustNot, Why: "unknown user"})
		}
		if !c.Auth {
			bad = append(bad, Expect{Forward: MustNot, Why: "no authentication support"})
		}
		if len(bad) == 1 {
			return bad[0]
		}
		if len(bad) > 1 {
			return Expect{Forward: MustNot, Why: "several rules broken"}
		}
		return Expect{Forward: Must, Via: "authinit"}
	case ref9p.Tattach:
		var bad []Expect
		if m.Fid == ref9p.NOFID {
			return Expect{Forward: Either, Via: "ops", Why: "fid NOFID: the statement is silent on binding NOFID"}
		} else if c.Fids[m.Fid] != nil {
			bad = append(bad, inuse)
		}
		if m.Afid != ref9p.NOFID && c.Fids[m.Afid] == nil {
			bad = append(bad, Expect{Forward: MustNot, ErrText: "unknown fid", Why: "afid is not valid"})
		}
		if _, _, ok := c.ResolveUser(m); !ok {
			bad = append(bad, Expect{Forward: MustNot, Why: "unknown user"})
		}
		if !c.Dotu && c.UserRule == 2 {
			// user part not modelled: drop the user verdict
			var nb []Expect
			for _, b := range bad {
				if b.Why != "unknown user" {
					nb = append(nb, b)
				}
			}
			if len(nb) == 0 {
				return Expect{Forward: Either, Via: "ops", Why: "plain 9P2000 attach: user resolution not modelled"}
			}
			bad = nb
		}
		if len(bad) == 1 {
			return bad[0]
		}
		if len(bad) > 1 {
			return Expect{Forward: MustNot, Why: "several rules broken"}
		}
		return Expect{Forward: Must, Via: "ops"}
	}
	// everything else names a fid
	f := c.Fids[m.Fid]
	if f == nil {
		return unknown
	}
	switch m.Type {
	case ref9p.Twalk:
		if f.Opened {
			return Expect{Forward: MustNot, Why: "walk from an open fid"}
		}
		if len(m.Wname) > 0 && f.Kind != KDir {
			return Expect{Forward: MustNot, Why: "walk by name from a non-directory"}
		}
		if m.Newfid != m.Fid {
			if m.Newfid == ref9p.NOFID {
				return Expect{Forward: Either, Why: "newfid NOFID"}
			}
			if c.Fids[m.Newfid] != nil {
				return inuse
			}
		}
		return Expect{Forward: Must, Via: "ops"}
	case ref9p.Topen:
		if f.Opened {
			return Expect{Forward: MustNot, Why: "open of an open fid"}
		}
		if f.Kind == KAuth {
			return Expect{Forward: Either, Why: "open of an auth fid"}
		}
		if f.Kind == KDir {
			switch m.Mode & 3 {
			case OWRITE, ORDWR:
				return Expect{Forward: MustNot, Why: "directory opened for writing"}
			case OEXEC:
				return Expect{Forward: Either, Why: "directory opened OEXEC"}
			}
			if m.Mode != OREAD {
				return Expect{Forward: Either, Why: "directory opened OREAD with extra flags"}
			}
		}
		return Expect{Forward: Must, Via: "ops"}
	case ref9p.Tcreate:
		if f.Opened {
			return Expect{Forward: MustNot, Why: "create through an open fid"}
		}
		if f.Kind != KDir {
			return Expect{Forward: MustNot, Why: "create through a non-directory"}
		}
		if m.Perm&special != 0 && !c.Dotu {
			return Expect{Forward: MustNot, Why: "special file on a non-.u connection"}
		}
		if m.Perm&DMDIR != 0 && m.Mode != OREAD {
			return Expect{Forward: Either, Why: "directory created with a mode other than OREAD"}
		}
		return Expect{Forward: Must, Via: "ops"}
	case ref9p.Tread:
		if uint64(m.Count) > uint64(c.Msize)-IOHDRSZ {
			return Expect{Forward: MustNot, Why: "read count exceeds msize-IOHDRSZ"}
		}
		if f.Kind == KAuth {
			if !c.Auth {
				return Expect{Forward: MustNot, Why: "auth fid without AuthOps"}
			}
			return Expect{Forward: Must, Via: "authread"}
		}
		if !f.Opened {
			return Expect{Forward: Either, Why: "read on an unopened fid"}
		}
		return Expect{Forward: Must, Via: "ops"}
	case ref9p.Twrite:
		if f.Kind == KAuth {
			if !c.Auth {
				return Expect{Forward: MustNot, Why: "auth fid without AuthOps"}
			}
			if uint64(len(m.Data)) > uint64(c.Msize)-IOHDRSZ {
				return Expect{Forward: MustNot, Why: "write count exceeds msize-IOHDRSZ"}
			}
			return Expect{Forward: Must, Via: "authwrite"}
		}
		if !f.Opened {
			return Expect{Forward: MustNot, Why: "write through an unopened fid"}
		}
		if f.Kind == KDir {
			return Expect{Forward: MustNot, Why: "write to a directory"}
		}
		switch f.Omode & 3 {
		case OREAD, OEXEC:
			return Expect{Forward: MustNot, Why: "fid not open for writing"}
		}
		if uint64(len(m.Data)) > uint64(c.Msize)-IOHDRSZ {
			return Expect{Forward: MustNot, Why: "write count exceeds msize-IOHDRSZ"}
		}
		return Expect{Forward: Must, Via: "ops"}
	case ref9p.Tclunk:
		if f.Kind == KAuth {
			if !c.Auth {
				return Expect{Forward: Either, Why: "clunk of an auth fid without AuthOps"}
			}
			return Expect{Forward: Must, Via: "authdestroy"}
		}
		return Expect{Forward: Must, Via: "ops"}
	case ref9p.Tremove, ref9p.Tstat, ref9p.Twstat:
		return Expect{Forward: Must, Via: "ops"}
	}
	return Expect{Forward: Either, Why: "type outside the model"}
}

// Version is the effect of a Tversion that is answered Rversion in mid-session
// (nothing outstanding) on the model: the dialect and msize follow the reply,
// the fid table is untouched. The C04 statement lists what invalidates a fid
// (a successful Tclunk, any Tremove); a Tversion is an "unrelated operation",
// so every fid stays valid and bound to the same user. (The 9P manual's
// convention that a Tversion frees all fids is NOT what the statement says;
// the model follows the statement.)
func (c *Conn) Version(dotu bool, msize uint32) {
	c.Dotu = dotu
	c.Msize = msize
}

// Apply updates the fid table for request m answered by reply r. inc/newinc
// are the incarnation numbers the implementation logged for the fid / newfid
// (0 if it was not invoked).
func (c *Conn) Apply(m, r *ref9p.Msg, inc, newinc int) {
	ok := r.Type == m.Type+1
	switch m.Type {
	case ref9p.Tauth:
		if ok {
			n, u, _ := c.ResolveUser(m)
			c.Fids[m.Afid] = &Fid{Kind: KAuth, Qtype: r.Qid.Type | QTAUTH, User: n, Uid: u, Inc: inc}
		}
	case ref9p.Tattach:
		if ok {
			n, u, _ := c.ResolveUser(m)
			c.Fids[m.Fid] = &Fid{Kind: kindOf(r.Qid.Type), Qtype: r.Qid.Type, User: n, Uid: u, Inc: inc}
		}
	case ref9p.Twalk:
		f := c.Fids[m.Fid]
		if !ok || f == nil || len(r.Wqid) != len(m.Wname) {
			return // error or partial walk: nothing changes
		}
		k, qt := f.Kind, f.Qtype
		if n := len(r.Wqid); n > 0 {
			k, qt = kindOf(r.Wqid[n-1].Type), r.Wqid[n-1].Type
		}
		if m.Newfid == m.Fid {
			f.Kind, f.Qtype = k, qt
		} else {
			c.Fids[m.Newfid] = &Fid{Kind: k, Qtype: qt, User: f.User, Uid: f.Uid, Inc: newinc}
		}
	case ref9p.Topen:
		if f := c.Fids[m.Fid]; ok && f != nil {
			f.Opened, f.Omode = true, m.Mode
		}
	case ref9p.Tcreate:
		if f := c.Fids[m.Fid]; ok && f != nil {
			f.Opened, f.Omode, f.Kind, f.Qtype = true, m.Mode, kindOf(r.Qid.Type), r.Qid.Type
		}
	case ref9p.Tclunk:
		if ok {
			delete(c.Fids, m.Fid)
		}
	case ref9p.Tremove:
		delete(c.Fids, m.Fid)
	}
}
