//go:build verif

// Package sched turns go9p's verif hook into an ordering-constraint
// controller: "the goroutine handling request A stops at point P until the
// goroutine handling request B has passed point Q".
package sched

import (
	"fmt"
	"sync"
	"time"

	"github.com/rminnich/go9p"
	"verif/internal/conv"
	"verif/internal/ref9p"
	"verif/internal/script"
)

// Hold is one ordering constraint.
type Hold struct {
	Who        string `json:"who"`
	At         string `json:"at"`
	UntilWho   string `json:"until_who"`
	UntilPoint string `json:"until_point"`
}

type Event struct {
	Seq   int
	Who   string
	Point string
}

type Ctl struct {
	mu      sync.Mutex
	cond    *sync.Cond
	seen    map[string]int
	holds   []Hold
	events  []Event
	Forced  int
	Applied int
	Timeout time.Duration
	Record  bool
	// Perturb, if non-nil, is called at every point (C19 mode).
	Perturb func(who, point string)
}

func New(holds []Hold) *Ctl {
	c := &Ctl{seen: map[string]int{}, holds: holds, Timeout: 150 * time.Millisecond, Record: true}
	c.cond = sync.NewCond(&c.mu)
	return c
}

// Who names the object a hook point refers to.
func Who(obj interface{}) string {
	switch o := obj.(type) {
	case *go9p.SrvReq:
		if o == nil || o.Tc == nil {
			return "req?"
		}
		return keyOf(o.Tc)
	case *go9p.Req:
		if o == nil || o.Tc == nil {
			return "creq?"
		}
		return keyOf(o.Tc)
	case *go9p.Conn:
		return "conn:" + o.Id
	case *go9p.Clnt:
		return "clnt"
	}
	return fmt.Sprintf("%T", obj)
}

func keyOf(tc *go9p.Fcall) string {
	m := conv.FromFcall(tc)
	if m.Type == ref9p.Tflush {
		return fmt.Sprintf("Tflush/%d/%d", m.Oldtag, m.Tag)
	}
	if m.Type == ref9p.Tversion {
		return "Tversion"
	}
	return script.Key(m)
}

func (c *Ctl) hook(point string, obj interface{}) {
	if c.Perturb != nil && len(c.holds) == 0 && !c.Record {
		// perturbation-only mode (C19): do not touch the object at all, the
		// harness must not add memory accesses of its own
		c.Perturb("", point)
		return
	}
	who := Who(obj)
	if c.Perturb != nil {
		c.Perturb(who, point)
	}
	ev := who + "@" + point
	c.mu.Lock()
	c.seen[ev]++
	if c.Record && len(c.events) < 20000 {
		c.events = append(c.events, Event{len(c.events), who, point})
	}
	c.cond.Broadcast()
	var waitFor []string
	for _, h := range c.holds {
		if h.Who == who && h.At == point {
			waitFor = append(waitFor, h.UntilWho+"@"+h.UntilPoint)
		}
	}
	if len(waitFor) == 0 {
		c.mu.Unlock()
		return
	}
	c.Applied++
	deadline := time.Now().Add(c.Timeout)
	timer := time.AfterFunc(c.Timeout, func() { c.mu.Lock(); c.cond.Broadcast(); c.mu.Unlock() })
	for _, w := range waitFor {
		for c.seen[w] == 0 {
			if time.Now().After(deadline) {
				c.Forced++
				break
			}
			c.cond.Wait()
		}
	}
	timer.Stop()
	c.mu.Unlock()
}

// Install makes c the active controller; the returned function removes it.
func Install(c *Ctl) func() {
	f := c.hook
	go9p.VerifHook.Store(&f)
	return func() { go9p.VerifHook.Store(nil) }
}

// Signal injects an event from the harness (so that a hold can wait for the
// harness: UntilWho "harness").
func (c *Ctl) Signal(who, point string) {
	c.mu.Lock()
	c.seen[who+"@"+point]++
	c.cond.Broadcast()
	c.mu.Unlock()
}

// Seen reports how often who passed point.
func (c *Ctl) Seen(who, point string) int {
	c.mu.Lock()
	defer c.mu.Unlock()
	return c.seen[who+"@"+point]
}

// WaitSeen waits until who has passed point.
func (c *Ctl) WaitSeen(who, point string, d time.Duration) bool {
	deadline := time.Now().Add(d)
	timer := time.AfterFunc(d, func() { c.mu.Lock(); c.cond.Broadcast(); c.mu.Unlock() })
	defer timer.Stop()
	c.mu.Lock()
	defer c.mu.Unlock()
	for c.seen[who+"@"+point] == 0 {
		if time.Now().After(deadline) {
			return false
		}
		c.cond.Wait()
	}
	return true
}

func (c *Ctl) Events() []Event {
	c.mu.Lock()
	defer c.mu.Unlock()
	return append([]Event(nil), c.events...)
}

// Stats returns (holds applied, holds force-released).
func (c *Ctl) Stats() (applied, forced int) {
	c.mu.Lock()
	defer c.mu.Unlock()
	return c.Applied, c.Forced
}
