package script

// Ops variants whose value ALSO implements go9p.SrvReqProcessOps (selected by
// Config.ProcOps, default off): the framework then hands every request to
// SrvReqProcess instead of calling req.Process() itself, and every first
// Respond() to SrvReqRespond instead of calling req.PostProcess() itself.
// The wrappers here do what the interface documents (call req.Process() /
// req.PostProcess()), but like a real implementation that logs or accounts in
// them they may dwell, or be parked by the harness, BEFORE doing so:
//
//	Set("process/"+key, Behav{Hold: true})    parks SrvReqProcess of the request
//	                                          with that key before req.Process()
//	Set("respond/"+key, Behav{DelayUS: 200})  SrvReqRespond dwells 200 us before
//	                                          req.PostProcess()
//
// (Hold until Release / ReleaseAll of that key; WaitEntered(key) reports that
// the wrapper was entered.) Only Hold and DelayUS of the behaviour are looked
// at. Keys that were never Set cost nothing and are not logged; a Set key is
// logged as "wrap-enter" / "wrap-exit" with Op "process" / "respond".

import (
	"time"

	"github.com/rminnich/go9p"
	"verif/internal/conv"
	"verif/internal/ref9p"
)

type OpsProc struct{ OpsPlain }
type OpsProcFlush struct{ OpsFlush }
type OpsProcAuth struct{ OpsAuth }
type OpsProcAuthFlush struct{ OpsAuthFlush }

func (o OpsProc) SrvReqProcess(r *go9p.SrvReq)          { o.S.wrap("process", r, r.Process) }
func (o OpsProc) SrvReqRespond(r *go9p.SrvReq)          { o.S.wrap("respond", r, r.PostProcess) }
func (o OpsProcFlush) SrvReqProcess(r *go9p.SrvReq)     { o.S.wrap("process", r, r.Process) }
func (o OpsProcFlush) SrvReqRespond(r *go9p.SrvReq)     { o.S.wrap("respond", r, r.PostProcess) }
func (o OpsProcAuth) SrvReqProcess(r *go9p.SrvReq)      { o.S.wrap("process", r, r.Process) }
func (o OpsProcAuth) SrvReqRespond(r *go9p.SrvReq)      { o.S.wrap("respond", r, r.PostProcess) }
func (o OpsProcAuthFlush) SrvReqProcess(r *go9p.SrvReq) { o.S.wrap("process", r, r.Process) }
func (o OpsProcAuthFlush) SrvReqRespond(r *go9p.SrvReq) { o.S.wrap("respond", r, r.PostProcess) }

// WrapKey is the behaviour / gate key of the SrvReqProcess ("process") or
// SrvReqRespond ("respond") wrapper of the request with this key.
func WrapKey(stage, key string) string { return stage + "/" + key }

// withProcOps returns the variant of ops (one of the four plain variants) that
// also implements go9p.SrvReqProcessOps.
func withProcOps(ops interface{}) interface{} {
	switch o := ops.(type) {
	case OpsPlain:
		return OpsProc{o}
	case OpsFlush:
		return OpsProcFlush{o}
	case OpsAuth:
		return OpsProcAuth{o}
	case OpsAuthFlush:
		return OpsProcAuthFlush{o}
	}
	panic("script: no SrvReqProcessOps variant of this ops value")
}

func (s *S) wrap(stage string, r *go9p.SrvReq, fn func()) {
	key := WrapKey(stage, Key(ref9p.Canon(conv.FromFcall(r.Tc), r.Conn.Dotu)))
	s.mu.Lock()
	b, set := s.behav[key]
	gate := s.gates[key]
	if ent, ok := s.entered[key]; ok {
		select {
		case <-ent:
		default:
			close(ent)
		}
	}
	s.mu.Unlock()
	if !set {
		fn()
		return
	}
	tag, conn := r.Tc.Tag, r.Conn.Id // r may be recycled by the time fn returns
	s.add(Entry{Kind: "wrap-enter", Op: stage, Conn: conn, Key: key, Tag: tag})
	if b.Hold && gate != nil {
		<-gate
	}
	if b.DelayUS > 0 {
		time.Sleep(time.Duration(b.DelayUS) * time.Microsecond)
	}
	fn()
	s.add(Entry{Kind: "wrap-exit", Op: stage, Conn: conn, Key: key, Tag: tag})
}
