// Package script is the file-server implementation the harness puts under
// go9p's server framework: it logs every invocation with a global sequence
// number, can park a request inside the implementation until the harness
// releases it, and answers with content that is a pure function of the request
// and of the behaviour the case assigned to it.
package script

import (
	"fmt"
	"hash/fnv"
	"runtime"
	"strings"
	"sync"
	"sync/atomic"
	"time"

	"github.com/rminnich/go9p"
	"verif/internal/conv"
	"verif/internal/ref9p"
	"verif/internal/xport"
)

// Behav is what the case wants the implementation to do with one request.
type Behav struct {
	Hold        bool   `json:"hold,omitempty"`        // park inside the implementation until Release(key)
	Err         string `json:"err,omitempty"`         // answer Rerror with this text
	Ecode       uint32 `json:"ecode,omitempty"`       // ... and this number
	Async       bool   `json:"async,omitempty"`       // answer from another goroutine after the op has returned
	Dup         bool   `json:"dup,omitempty"`         // a second bare Respond() after the answer
	DupRace     bool   `json:"duprace,omitempty"`     // the answer is packed, then two goroutines call Respond() at the same instant
	HoldDestroy bool   `json:"holddestroy,omitempty"` // the FidDestroy of this request\'s fid blocks until Release(key)
	DelayUS     int    `json:"delayus,omitempty"`     // the implementation dwells this many microseconds before it answers
	Size        int    `json:"size,omitempty"`        // answer size knob (stat name length, error text length, read bytes)
	NoQid       int    `json:"noqid,omitempty"`       // Walk: answer only this many qids (+1), i.e. NoQid-1 qids; 0 = by name convention
	ZeroQid     bool   `json:"zeroqid,omitempty"`     // Walk: answer Rwalk with no qid at all, also for a walk with names (the extreme partial walk)
	// DupPack: after the answer, an EXTRA answer to the same request made through
	// the packing helpers (RespondR* / RespondError, not a bare Respond()):
	// 1 = the same answer once more, 2 = the other outcome (an Rerror after a
	// success, the success after an Rerror), e.g. a timeout path that fires
	// although the result was delivered. Logged as "extra" / "extradone", never
	// as "answer". 0 = none.
	DupPack int `json:"duppack,omitempty"`
	// DupGate: the extra answer of DupPack is made by another goroutine, as soon
	// as the harness calls Release(DupKey(key)); without it the extra answer
	// follows the first one directly, in the same goroutine.
	DupGate bool `json:"dupgate,omitempty"`
}

// DupKey is the gate key of the extra answer of request key (Behav.DupGate).
func DupKey(key string) string { return key + "#extra" }

// ExtraAnswer is the extra answer Behav.DupPack makes for request m (nil if none).
func ExtraAnswer(m *ref9p.Msg, b Behav, fidType uint8) *ref9p.Msg {
	switch b.DupPack {
	case 1:
		return ExpectedAnswer(m, b, fidType)
	case 2:
		if b.Err != "" {
			nb := b
			nb.Err, nb.Ecode = "", 0
			return ExpectedAnswer(m, nb, fidType)
		}
		return &ref9p.Msg{Type: ref9p.Rerror, Ename: "late answer: the operation timed out", Ecode: 110}
	}
	return nil
}

// Entry is one line of the implementation's log.
type Entry struct {
	Seq    int64      `json:"seq"`
	Kind   string     `json:"kind"` // enter, exit, answer, fiddestroy, connopened, connclosed, flush, authinit, authcheck, authdestroy, authread, authwrite
	Op     string     `json:"op,omitempty"`
	Conn   string     `json:"conn,omitempty"`
	Key    string     `json:"key,omitempty"`
	Tag    uint16     `json:"tag,omitempty"`
	Fid    uint32     `json:"fid,omitempty"`
	Inc    int        `json:"inc,omitempty"` // incarnation of req.Fid
	NewInc int        `json:"newinc,omitempty"`
	AInc   int        `json:"ainc,omitempty"`
	User   string     `json:"user,omitempty"`
	Uid    int        `json:"uid,omitempty"`
	Msg    *ref9p.Msg `json:"-"` // the request as the implementation saw it (canonical)
	Answer *ref9p.Msg `json:"-"` // what the implementation answered (Kind == answer)
	Dotu   bool       `json:"dotu,omitempty"`
}

// FidAux is stored in SrvFid.Aux the first time the implementation sees a fid.
type FidAux struct {
	Inc  int
	Conn string
	// DestroyGate, if set, makes FidDestroy of this fid wait (an implementation
	// that is slow releasing its per-fid resources)
	DestroyGate chan struct{}
}

const (
	FlushAbsent = iota // the ops value does not implement FlushOp
	FlushCancel        // Flush(r) calls r.Flush()
	FlushIgnore        // Flush(r) does nothing; the op finishes normally
)

type S struct {
	mu      sync.Mutex
	seq     int64
	log     []Entry
	behav   map[string]Behav
	gates   map[string]chan struct{}
	entered map[string]chan struct{}
	nextInc int
	// AuthCheck refuses every attach whose aname starts with "deny".
	FlushMode int
	conns     map[string]*go9p.Conn
	inside    map[string]int // requests handed to the implementation and not yet answered
	// OnFlush, if set, is called from Flush (after logging).
	Default Behav
}

func New() *S {
	return &S{behav: map[string]Behav{}, gates: map[string]chan struct{}{}, entered: map[string]chan struct{}{}, conns: map[string]*go9p.Conn{}, inside: map[string]int{}}
}

// Key identifies a request by its content; the harness makes keys unique.
func Key(m *ref9p.Msg) string {
	switch m.Type {
	case ref9p.Tattach:
		return fmt.Sprintf("Tattach/%d/%d/%s/%s", m.Fid, m.Afid, m.Uname, m.Aname)
	case ref9p.Tauth:
		return fmt.Sprintf("Tauth/%d/%s/%s", m.Afid, m.Uname, m.Aname)
	case ref9p.Twalk:
		return fmt.Sprintf("Twalk/%d/%d/%s", m.Fid, m.Newfid, strings.Join(m.Wname, "/"))
	case ref9p.Topen:
		return fmt.Sprintf("Topen/%d/%d", m.Fid, m.Mode)
	case ref9p.Tcreate:
		return fmt.Sprintf("Tcreate/%d/%s/%d/%d", m.Fid, m.Name, m.Perm, m.Mode)
	case ref9p.Tread:
		return fmt.Sprintf("Tread/%d/%d/%d", m.Fid, m.Offset, m.Count)
	case ref9p.Twrite:
		return fmt.Sprintf("Twrite/%d/%d/%d", m.Fid, m.Offset, len(m.Data))
	case ref9p.Twstat:
		return fmt.Sprintf("Twstat/%d/%s", m.Fid, m.Stat.Name)
	case ref9p.Tflush:
		return fmt.Sprintf("Tflush/%d/%d", m.Oldtag, m.Tag)
	default:
		return fmt.Sprintf("%s/%d", ref9p.TypeName(m.Type), m.Fid)
	}
}

// Set assigns a behaviour to the request with this key.
func (s *S) Set(key string, b Behav) {
	s.mu.Lock()
	s.behav[key] = b
	if b.Hold || b.HoldDestroy {
		if _, ok := s.gates[key]; !ok {
			s.gates[key] = make(chan struct{})
		}
	}
	if b.DupPack != 0 && b.DupGate {
		if _, ok := s.gates[DupKey(key)]; !ok {
			s.gates[DupKey(key)] = make(chan struct{})
		}
	}
	if _, ok := s.entered[key]; !ok {
		s.entered[key] = make(chan struct{})
	}
	s.mu.Unlock()
}

// Release opens the gate of a held request (idempotent).
func (s *S) Release(key string) {
	s.mu.Lock()
	g, ok := s.gates[key]
	if ok {
		delete(s.gates, key)
	}
	s.mu.Unlock()
	if ok {
		close(g)
	}
}

// ReleaseAll opens every gate.
func (s *S) ReleaseAll() {
	s.mu.Lock()
	gs := s.gates
	s.gates = map[string]chan struct{}{}
	s.mu.Unlock()
	for _, g := range gs {
		close(g)
	}
}

// WaitEntered waits until the implementation has been entered for key.
func (s *S) WaitEntered(key string, d time.Duration) bool {
	s.mu.Lock()
	ch, ok := s.entered[key]
	if !ok {
		ch = make(chan struct{})
		s.entered[key] = ch
	}
	s.mu.Unlock()
	select {
	case <-ch:
		return true
	case <-time.After(d):
		return false
	}
}

// Seq returns the current sequence number (the harness stamps its own
// observations with it to order them against the log).
func (s *S) Seq() int64 {
	s.mu.Lock()
	defer s.mu.Unlock()
	s.seq++
	return s.seq
}

// Log returns a copy of the log.
func (s *S) Log() []Entry {
	s.mu.Lock()
	defer s.mu.Unlock()
	return append([]Entry(nil), s.log...)
}

// Reset clears log and behaviours (not incarnation numbers).
func (s *S) Reset() {
	s.mu.Lock()
	s.log = nil
	s.behav = map[string]Behav{}
	s.entered = map[string]chan struct{}{}
	gs := s.gates
	s.gates = map[string]chan struct{}{}
	s.mu.Unlock()
	for _, g := range gs {
		close(g)
	}
}

func (s *S) add(e Entry) int64 {
	s.mu.Lock()
	s.seq++
	e.Seq = s.seq
	s.log = append(s.log, e)
	s.mu.Unlock()
	return e.Seq
}

func (s *S) aux(f *go9p.SrvFid) int {
	if f == nil {
		return 0
	}
	f.Lock()
	defer f.Unlock()
	if a, ok := f.Aux.(*FidAux); ok {
		return a.Inc
	}
	s.mu.Lock()
	s.nextInc++
	n := s.nextInc
	s.mu.Unlock()
	f.Aux = &FidAux{Inc: n, Conn: f.Fconn.Id}
	return n
}

func userOf(f *go9p.SrvFid) (string, int) {
	if f == nil || f.User == nil {
		return "", -1
	}
	return f.User.Name(), f.User.Id()
}

func h64(s string) uint64 {
	h := fnv.New64a()
	h.Write([]byte(s))
	return h.Sum64()
}

// PRF returns n deterministic bytes derived from key.
func PRF(key string, n int) []byte {
	b := make([]byte, n)
	x := h64(key) | 1
	for i := range b {
		x ^= x << 13
		x ^= x >> 7
		x ^= x << 17
		b[i] = byte(x >> 24)
	}
	return b
}

// QidFor is the qid the implementation reports for a name: names starting
// with 'f' are files, with 'l' symlinks, everything else directories.
func QidFor(name string, key string) ref9p.Qid {
	t := uint8(0x80)
	if strings.HasPrefix(name, "f") {
		t = 0
	} else if strings.HasPrefix(name, "l") {
		t = 0x02
	}
	return ref9p.Qid{Type: t, Vers: uint32(len(name)), Path: h64(key + "\x00" + name)}
}

// ExpectedAnswer computes the implementation's answer from the request and
// its behaviour alone (fidType is the framework's SrvFid.Type for the fid, used
// by Ropen). Exposed so that oracles can predict replies independently.
func ExpectedAnswer(m *ref9p.Msg, b Behav, fidType uint8) *ref9p.Msg {
	key := Key(m)
	if b.Err != "" {
		return &ref9p.Msg{Type: ref9p.Rerror, Ename: b.Err, Ecode: b.Ecode}
	}
	switch m.Type {
	case ref9p.Tattach:
		return &ref9p.Msg{Type: ref9p.Rattach, Qid: ref9p.Qid{Type: 0x80, Vers: 1, Path: h64(key)}}
	case ref9p.Twalk:
		var qs []ref9p.Qid
		for i, n := range m.Wname {
			if strings.HasPrefix(n, "x") {
				break
			}
			if b.NoQid > 0 && i >= b.NoQid-1 {
				break
			}
			qs = append(qs, QidFor(n, key))
		}
		if b.ZeroQid {
			return &ref9p.Msg{Type: ref9p.Rwalk}
		}
		if len(m.Wname) > 0 && len(qs) == 0 {
			return &ref9p.Msg{Type: ref9p.Rerror, Ename: "file not found", Ecode: 2}
		}
		return &ref9p.Msg{Type: ref9p.Rwalk, Wqid: qs}
	case ref9p.Topen:
		return &ref9p.Msg{Type: ref9p.Ropen, Qid: ref9p.Qid{Type: fidType, Vers: 2, Path: h64(key)}, Iounit: 0}
	case ref9p.Tcreate:
		t := uint8(0)
		if m.Perm&0x80000000 != 0 {
			t = 0x80
		}
		return &ref9p.Msg{Type: ref9p.Rcreate, Qid: ref9p.Qid{Type: t, Vers: 3, Path: h64(key)}, Iounit: 0}
	case ref9p.Tread:
		n := int(m.Count)
		if b.Size > 0 && b.Size < n {
			n = b.Size
		}
		if n > 1<<20 {
			n = 1 << 20
		}
		return &ref9p.Msg{Type: ref9p.Rread, Data: PRF(key, n)}
	case ref9p.Twrite:
		return &ref9p.Msg{Type: ref9p.Rwrite, Count: uint32(len(m.Data))}
	case ref9p.Tclunk:
		return &ref9p.Msg{Type: ref9p.Rclunk}
	case ref9p.Tremove:
		return &ref9p.Msg{Type: ref9p.Rremove}
	case ref9p.Tstat:
		nl := 8
		if b.Size > 0 {
			nl = b.Size
		}
		name := string(PRF(key, nl))
		return &ref9p.Msg{Type: ref9p.Rstat, Stat: ref9p.Stat{Type: 1, Dev: 2, Qid: ref9p.Qid{Type: fidType, Vers: 4, Path: h64(key)},
			Mode: 0o644, Atime: 5, Mtime: 6, Length: 7, Name: name, Uid: "u", Gid: "g", Muid: "m", Ext: "e", Nuid: 8, Ngid: 9, Nmuid: 10}}
	case ref9p.Twstat:
		return &ref9p.Msg{Type: ref9p.Rwstat}
	}
	return &ref9p.Msg{Type: ref9p.Rerror, Ename: "script: unexpected type", Ecode: 22}
}

func (s *S) respond(req *go9p.SrvReq, a *ref9p.Msg) {
	switch a.Type {
	case ref9p.Rerror:
		req.RespondError(&go9p.Error{Err: a.Ename, Errornum: a.Ecode})
	case ref9p.Rattach:
		q := conv.GQid(a.Qid)
		req.RespondRattach(&q)
	case ref9p.Rwalk:
		qs := make([]go9p.Qid, len(a.Wqid))
		for i, q := range a.Wqid {
			qs[i] = conv.GQid(q)
		}
		req.RespondRwalk(qs)
	case ref9p.Ropen:
		q := conv.GQid(a.Qid)
		req.RespondRopen(&q, a.Iounit)
	case ref9p.Rcreate:
		q := conv.GQid(a.Qid)
		req.RespondRcreate(&q, a.Iounit)
	case ref9p.Rread:
		req.RespondRread(a.Data)
	case ref9p.Rwrite:
		req.RespondRwrite(a.Count)
	case ref9p.Rclunk:
		req.RespondRclunk()
	case ref9p.Rremove:
		req.RespondRremove()
	case ref9p.Rstat:
		req.RespondRstat(conv.GDir(&a.Stat))
	case ref9p.Rwstat:
		req.RespondRwstat()
	}
}

func (s *S) op(name string, req *go9p.SrvReq) {
	dotu := req.Conn.Dotu
	m := ref9p.Canon(conv.FromFcall(req.Tc), dotu)
	// Tc.Data aliases the receive buffer: copy now (Canon copied it)
	key := Key(m)
	inc, ninc, ainc := s.aux(req.Fid), 0, s.aux(req.Afid)
	if req.Newfid != nil {
		ninc = s.aux(req.Newfid)
	}
	un, uid := userOf(req.Fid)
	var ftype uint8
	if req.Fid != nil {
		ftype = req.Fid.Type
	}
	s.add(Entry{Kind: "enter", Op: name, Conn: req.Conn.Id, Key: key, Tag: req.Tc.Tag, Fid: m.Fid, Inc: inc, NewInc: ninc, AInc: ainc, User: un, Uid: uid, Msg: m, Dotu: dotu})
	s.mu.Lock()
	s.inside[key]++
	b, ok := s.behav[key]
	if !ok {
		b = s.Default
	}
	gate := s.gates[key]
	var dupgate chan struct{}
	if b.DupPack != 0 && b.DupGate {
		dupgate = s.gates[DupKey(key)] // nil: released already
	}
	ent, ok2 := s.entered[key]
	if !ok2 {
		ent = make(chan struct{})
		s.entered[key] = ent
	}
	select {
	case <-ent:
	default:
		close(ent) // under s.mu: two requests with the same key may enter at once
	}
	s.mu.Unlock()
	if b.HoldDestroy && gate != nil && req.Fid != nil {
		req.Fid.Lock()
		if a, ok := req.Fid.Aux.(*FidAux); ok {
			a.DestroyGate = gate
		}
		req.Fid.Unlock()
	}
	returned := make(chan struct{})
	defer func() {
		s.add(Entry{Kind: "exit", Op: name, Conn: req.Conn.Id, Key: key, Tag: req.Tc.Tag})
		close(returned)
	}()
	if b.Hold && gate != nil {
		<-gate
	}
	if b.DelayUS > 0 {
		time.Sleep(time.Duration(b.DelayUS) * time.Microsecond)
	}
	if name == "Write" && b.Hold {
		// the payload must not have been disturbed by later frames while held
		m = ref9p.Canon(conv.FromFcall(req.Tc), dotu)
	}
	a := ExpectedAnswer(m, b, ftype)
	extra := func() {
		x := ExtraAnswer(m, b, ftype)
		s.add(Entry{Kind: "extra", Op: name, Conn: req.Conn.Id, Key: key, Tag: req.Tc.Tag, Answer: x, Msg: m, Dotu: dotu})
		s.respond(req, x)
		s.add(Entry{Kind: "extradone", Op: name, Conn: req.Conn.Id, Key: key, Tag: req.Tc.Tag})
	}
	do := func() {
		s.mu.Lock()
		s.inside[key]--
		s.mu.Unlock()
		var extraOver chan struct{}
		if b.DupPack != 0 && b.DupGate {
			// the other completion path: waits for the harness, which lets it go
			// at a chosen stage of the first reply's life
			extraOver = make(chan struct{})
			go func() {
				defer close(extraOver)
				if dupgate != nil {
					<-dupgate
				}
				extra()
			}()
		}
		s.add(Entry{Kind: "answer", Op: name, Conn: req.Conn.Id, Key: key, Tag: req.Tc.Tag, Answer: a, Msg: m, Dotu: dotu})
		if b.DupRace && conv.Pack(req.Rc, a, dotu) == nil {
			// two completion paths answering at the same instant (e.g. a result
			// racing a timeout): released together by a spin barrier
			var ready, go_ int32
			var wg sync.WaitGroup
			for i := 0; i < 2; i++ {
				wg.Add(1)
				go func() {
					defer wg.Done()
					atomic.AddInt32(&ready, 1)
					for n := 0; atomic.LoadInt32(&go_) == 0; n++ {
						if n > 2000 {
							runtime.Gosched()
						}
					}
					req.Respond()
				}()
			}
			for atomic.LoadInt32(&ready) < 2 {
				runtime.Gosched()
			}
			atomic.StoreInt32(&go_, 1)
			wg.Wait()
		} else {
			s.respond(req, a)
		}
		if b.Dup {
			req.Respond()
		}
		if b.DupPack != 0 {
			if extraOver != nil {
				<-extraOver
			} else {
				extra()
			}
		}
		s.add(Entry{Kind: "done", Op: name, Conn: req.Conn.Id, Key: key, Tag: req.Tc.Tag})
	}
	if b.Async {
		go func() {
			<-returned
			do()
		}()
		return
	}
	do()
}

// SrvReqOps
func (s *S) Attach(r *go9p.SrvReq) { s.op("Attach", r) }
func (s *S) Walk(r *go9p.SrvReq)   { s.op("Walk", r) }
func (s *S) Open(r *go9p.SrvReq)   { s.op("Open", r) }
func (s *S) Create(r *go9p.SrvReq) { s.op("Create", r) }
func (s *S) Read(r *go9p.SrvReq)   { s.op("Read", r) }
func (s *S) Write(r *go9p.SrvReq)  { s.op("Write", r) }
func (s *S) Clunk(r *go9p.SrvReq)  { s.op("Clunk", r) }
func (s *S) Remove(r *go9p.SrvReq) { s.op("Remove", r) }
func (s *S) Stat(r *go9p.SrvReq)   { s.op("Stat", r) }
func (s *S) Wstat(r *go9p.SrvReq)  { s.op("Wstat", r) }

// SrvFidOps
func (s *S) FidDestroy(f *go9p.SrvFid) {
	inc := 0
	conn := ""
	var gate chan struct{}
	f.Lock()
	if a, ok := f.Aux.(*FidAux); ok {
		inc, conn, gate = a.Inc, a.Conn, a.DestroyGate
	}
	f.Unlock()
	if gate != nil {
		s.add(Entry{Kind: "fiddestroy-enter", Inc: inc, Conn: conn})
		<-gate
	}
	s.add(Entry{Kind: "fiddestroy", Inc: inc, Conn: conn})
}

// ConnOps
func (s *S) ConnOpened(c *go9p.Conn) {
	s.mu.Lock()
	s.conns[c.Id] = c
	s.mu.Unlock()
	s.add(Entry{Kind: "connopened", Conn: c.Id})
}

// Conn returns the framework's Conn for a connection id.
func (s *S) Conn(id string) *go9p.Conn {
	s.mu.Lock()
	defer s.mu.Unlock()
	return s.conns[id]
}
func (s *S) ConnClosed(c *go9p.Conn) { s.add(Entry{Kind: "connclosed", Conn: c.Id}) }

// Ops variants: which optional interfaces the ops value implements.
type OpsPlain struct{ *S }
type OpsFlush struct{ *S }
type OpsAuth struct{ *S }
type OpsAuthFlush struct{ *S }

func (o OpsFlush) Flush(r *go9p.SrvReq)     { o.S.flush(r) }
func (o OpsAuthFlush) Flush(r *go9p.SrvReq) { o.S.flush(r) }

func (s *S) flush(r *go9p.SrvReq) {
	m := ref9p.Canon(conv.FromFcall(r.Tc), r.Conn.Dotu)
	key := Key(m)
	s.add(Entry{Kind: "flush", Conn: r.Conn.Id, Key: key, Tag: r.Tc.Tag})
	// A real implementation can only cancel a request it has been handed and
	// has not answered yet; for anything else it leaves the flush to the
	// framework (the Tflush is then answered when the request completes).
	s.mu.Lock()
	inside := s.inside[key] > 0
	s.mu.Unlock()
	if s.FlushMode == FlushCancel && r.Tc.Type != ref9p.Tflush && inside {
		r.Flush()
	}
}

func (o OpsAuth) AuthInit(afid *go9p.SrvFid, aname string) (*go9p.Qid, error) {
	return o.S.authInit(afid, aname)
}
func (o OpsAuth) AuthDestroy(afid *go9p.SrvFid) { o.S.authDestroy(afid) }
func (o OpsAuth) AuthCheck(fid, afid *go9p.SrvFid, aname string) error {
	return o.S.authCheck(fid, afid, aname)
}
func (o OpsAuth) AuthRead(afid *go9p.SrvFid, off uint64, data []byte) (int, error) {
	return o.S.authRead(afid, off, data)
}
func (o OpsAuth) AuthWrite(afid *go9p.SrvFid, off uint64, data []byte) (int, error) {
	return o.S.authWrite(afid, off, data)
}
func (o OpsAuthFlush) AuthInit(afid *go9p.SrvFid, aname string) (*go9p.Qid, error) {
	return o.S.authInit(afid, aname)
}
func (o OpsAuthFlush) AuthDestroy(afid *go9p.SrvFid) { o.S.authDestroy(afid) }
func (o OpsAuthFlush) AuthCheck(fid, afid *go9p.SrvFid, aname string) error {
	return o.S.authCheck(fid, afid, aname)
}
func (o OpsAuthFlush) AuthRead(afid *go9p.SrvFid, off uint64, data []byte) (int, error) {
	return o.S.authRead(afid, off, data)
}
func (o OpsAuthFlush) AuthWrite(afid *go9p.SrvFid, off uint64, data []byte) (int, error) {
	return o.S.authWrite(afid, off, data)
}

func (s *S) authInit(afid *go9p.SrvFid, aname string) (*go9p.Qid, error) {
	inc := s.aux(afid)
	un, uid := userOf(afid)
	key := fmt.Sprintf("authinit/%s", aname)
	s.add(Entry{Kind: "authinit", Conn: afid.Fconn.Id, Key: key, Inc: inc, User: un, Uid: uid})
	s.mu.Lock()
	b := s.behav[key]
	gate := s.gates[key]
	if ent, ok := s.entered[key]; ok {
		select {
		case <-ent:
		default:
			close(ent)
		}
	}
	s.mu.Unlock()
	if b.Hold && gate != nil {
		<-gate // an authentication set-up that takes its time
	}
	if b.Err != "" {
		return nil, &go9p.Error{Err: b.Err, Errornum: b.Ecode}
	}
	return &go9p.Qid{Type: 0x08, Version: 0, Path: h64(key)}, nil
}

func (s *S) authDestroy(afid *go9p.SrvFid) {
	s.add(Entry{Kind: "authdestroy", Conn: afid.Fconn.Id, Inc: s.aux(afid)})
}

func (s *S) authCheck(fid, afid *go9p.SrvFid, aname string) error {
	ainc := 0
	if afid != nil {
		ainc = s.aux(afid)
	}
	un, uid := userOf(fid)
	refuse := strings.HasPrefix(aname, "deny")
	s.add(Entry{Kind: "authcheck", Conn: fid.Fconn.Id, Key: aname, AInc: ainc, User: un, Uid: uid})
	if refuse {
		// the error value of a refusal need not be a *go9p.Error (AuthCheck is
		// declared to return error): the aname picks the dynamic type
		switch {
		case strings.HasPrefix(aname, "denyplain"):
			return fmt.Errorf("authentication failed (plain error)") // *errors.errorString
		case strings.HasPrefix(aname, "denywrapped"):
			return fmt.Errorf("key verification: %w", &go9p.Error{Err: "authentication failed", Errornum: 1}) // *fmt.wrapError
		case strings.HasPrefix(aname, "denyvalue"):
			return authRefusal("authentication failed (value error type)")
		}
		return &go9p.Error{Err: "authentication failed", Errornum: 1}
	}
	return nil
}

// authRefusal is a refusal of AuthCheck whose dynamic type is neither a pointer
// nor a *go9p.Error (anames beginning with "denyvalue").
type authRefusal string

func (a authRefusal) Error() string { return string(a) }

// holdAuth is the Hold support of AuthRead / AuthWrite (keys "authread/<off>/<len>",
// "authwrite/<off>/<len>"): it signals WaitEntered(key) if the harness Set the
// key, and parks until Release(key) if the behaviour says Hold. It touches
// neither the fid nor the log, and does nothing for keys that were never Set.
func (s *S) holdAuth(key string) {
	s.mu.Lock()
	b := s.behav[key]
	gate := s.gates[key]
	if ent, ok := s.entered[key]; ok {
		select {
		case <-ent:
		default:
			close(ent)
		}
	}
	s.mu.Unlock()
	if b.Hold && gate != nil {
		<-gate
	}
}

func (s *S) authRead(afid *go9p.SrvFid, off uint64, data []byte) (int, error) {
	key := fmt.Sprintf("authread/%d/%d", off, len(data))
	s.holdAuth(key) // Behav.Hold: an authentication read that waits for the peer (parks before anything else)
	s.add(Entry{Kind: "authread", Conn: afid.Fconn.Id, Key: key, Inc: s.aux(afid)})
	s.mu.Lock()
	b := s.behav[key]
	s.mu.Unlock()
	if b.Err != "" {
		return 0, &go9p.Error{Err: b.Err, Errornum: b.Ecode}
	}
	n := len(data)
	if b.Size > 0 && b.Size < n {
		n = b.Size
	}
	copy(data, PRF(key, n))
	return n, nil
}

func (s *S) authWrite(afid *go9p.SrvFid, off uint64, data []byte) (int, error) {
	key := fmt.Sprintf("authwrite/%d/%d", off, len(data))
	s.holdAuth(key)
	s.add(Entry{Kind: "authwrite", Conn: afid.Fconn.Id, Key: key, Inc: s.aux(afid)})
	return len(data), nil
}

// ---------------------------------------------------------------------------
// users

type User struct {
	N string
	I int
}

func (u *User) Name() string               { return u.N }
func (u *User) Id() int                    { return u.I }
func (u *User) Groups() []go9p.Group       { return nil }
func (u *User) IsMember(g go9p.Group) bool { return false }

type Group struct {
	N string
	I int
}

func (g *Group) Name() string         { return g.N }
func (g *Group) Id() int              { return g.I }
func (g *Group) Members() []go9p.User { return nil }

// Users knows alice(1001), bob(1002), root(0) and nobody else.
type Users struct{}

var known = []*User{{"root", 0}, {"alice", 1001}, {"bob", 1002}}

func (Users) Uid2User(uid int) go9p.User {
	for _, u := range known {
		if u.I == uid {
			return u
		}
	}
	return nil
}
func (Users) Uname2User(n string) go9p.User {
	for _, u := range known {
		if u.N == n {
			return u
		}
	}
	return nil
}
func (Users) Gid2Group(gid int) go9p.Group    { return &Group{"g", gid} }
func (Users) Gname2Group(n string) go9p.Group { return &Group{n, 1} }

// ---------------------------------------------------------------------------
// server construction

type Config struct {
	Msize   uint32
	Dotu    bool
	Maxpend int
	Auth    bool
	Flush   int // FlushAbsent / FlushCancel / FlushIgnore
	Debug   int
	ProcOps bool // the ops value also implements go9p.SrvReqProcessOps (procops.go); default off
}

var logOnce sync.Once
var theLog *go9p.Logger

type Server struct {
	Srv *go9p.Srv
	S   *S
	n   int
	mu  sync.Mutex
}

func NewServer(c Config) *Server {
	s := New()
	s.FlushMode = c.Flush
	// one logger for all servers of the process (Srv.Start would start a goroutine per server)
	logOnce.Do(func() { theLog = go9p.NewLogger(256) })
	srv := &go9p.Srv{Msize: c.Msize, Dotu: c.Dotu, Maxpend: c.Maxpend, Upool: Users{}, Id: "script", Debuglevel: c.Debug, Log: theLog}
	var ops interface{}
	switch {
	case c.Auth && c.Flush != FlushAbsent:
		ops = OpsAuthFlush{s}
	case c.Auth:
		ops = OpsAuth{s}
	case c.Flush != FlushAbsent:
		ops = OpsFlush{s}
	default:
		ops = OpsPlain{s}
	}
	if c.ProcOps {
		ops = withProcOps(ops)
	}
	if !srv.Start(ops) {
		panic("script: Srv.Start refused the ops value")
	}
	return &Server{Srv: srv, S: s}
}

// Dial opens a new in-memory connection and returns the harness end; the
// connection's Id (as logged) is name+"/harness".
func (sv *Server) Dial(name string) *xport.End {
	h, _ := sv.Dial2(name)
	return h
}

// Dial2 also returns the library's end (for write hooks).
func (sv *Server) Dial2(name string) (harness, lib *xport.End) {
	h, l := xport.Pair(name)
	sv.Srv.NewConn(l)
	return h, l
}

// ConnID is the Conn.Id the framework derives for a connection dialled with name.
func ConnID(name string) string { return name + "/harness" }
