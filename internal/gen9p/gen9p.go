// Package gen9p holds the rapid generators of reference message records.
package gen9p

import (
	"pgregory.net/rapid"
	"verif/internal/ref9p"
)

func U8() *rapid.Generator[uint8] {
	return rapid.OneOf(rapid.SampledFrom([]uint8{0, 1, 0x7F, 0x80, 0xFE, 0xFF}), rapid.Uint8())
}
func U16() *rapid.Generator[uint16] {
	return rapid.OneOf(rapid.SampledFrom([]uint16{0, 1, 0x7FFF, 0x8000, 0xFFFE, 0xFFFF}), rapid.Uint16())
}
func U32() *rapid.Generator[uint32] {
	return rapid.OneOf(rapid.SampledFrom([]uint32{0, 1, 0x7FFFFFFF, 0x80000000, 0xFFFFFFFE, 0xFFFFFFFF, 0xFFFF, 0x10000}), rapid.Uint32())
}
func U64() *rapid.Generator[uint64] {
	return rapid.OneOf(rapid.SampledFrom([]uint64{0, 1, 0x7FFFFFFFFFFFFFFF, 0x8000000000000000, 0xFFFFFFFFFFFFFFFE, 0xFFFFFFFFFFFFFFFF, 0xFFFFFFFF, 0x100000000}), rapid.Uint64())
}

// StrClasses are the length classes of generated strings.
var StrClasses = []int{0, 1, 2, 255, 256, 4095, 65534, 65535}

// Cfg bounds the generator.
type Cfg struct {
	// Heavy allows the 4095..65535-byte string classes and 300-element walks.
	Heavy bool
	// MaxData bounds payload sizes.
	MaxData int
}

// Bytes draws n arbitrary bytes cheaply (one draw per 8 bytes for long ones).
func Bytes(t *rapid.T, n int, label string) []byte {
	if n <= 24 {
		return rapid.SliceOfN(rapid.Byte(), n, n).Draw(t, label)
	}
	// long strings: a drawn 16-byte pattern, repeated with a rolling change,
	// plus drawn head and tail bytes; content matters little beyond NUL/0xFF/'/'
	pat := rapid.SliceOfN(rapid.Byte(), 16, 16).Draw(t, label+".pat")
	b := make([]byte, n)
	for i := range b {
		b[i] = pat[i%16] + byte(i/16)
	}
	b[0] = rapid.Byte().Draw(t, label+".first")
	b[n-1] = rapid.Byte().Draw(t, label+".last")
	return b
}

func (c Cfg) strLen(t *rapid.T, label string, budget int) int {
	var n int
	k := rapid.IntRange(0, 19).Draw(t, label+".class")
	switch {
	case k < 8:
		n = rapid.IntRange(0, 12).Draw(t, label+".len")
	case k < 12:
		n = rapid.IntRange(0, 300).Draw(t, label+".len")
	case k < 17:
		n = StrClasses[rapid.IntRange(0, 4).Draw(t, label+".cls")]
	default:
		if c.Heavy {
			n = StrClasses[rapid.IntRange(5, 7).Draw(t, label+".cls")]
		} else {
			n = rapid.IntRange(0, 40).Draw(t, label+".len")
		}
	}
	if n > budget {
		n = budget
	}
	return n
}

// Str draws a string of at most budget bytes.
func (c Cfg) Str(t *rapid.T, label string, budget int) string {
	n := c.strLen(t, label, budget)
	return string(Bytes(t, n, label))
}

func QidG(t *rapid.T, label string) ref9p.Qid {
	return ref9p.Qid{Type: U8().Draw(t, label+".type"), Vers: U32().Draw(t, label+".vers"), Path: U64().Draw(t, label+".path")}
}

// Stat draws a stat record whose encoding fits the 16-bit size fields.
func (c Cfg) Stat(t *rapid.T, dotu bool, label string) ref9p.Stat {
	var s ref9p.Stat
	s.Type = U16().Draw(t, label+".type")
	s.Dev = U32().Draw(t, label+".dev")
	s.Qid = QidG(t, label+".qid")
	s.Mode = U32().Draw(t, label+".mode")
	s.Atime = U32().Draw(t, label+".atime")
	s.Mtime = U32().Draw(t, label+".mtime")
	s.Length = U64().Draw(t, label+".length")
	fixed := 2 + 2 + 4 + 13 + 4 + 4 + 4 + 8 + 2 + 2 + 2 + 2
	if dotu {
		fixed += 2 + 12
	}
	// the nested stat[n] count must be <= 65535 (it includes the size[2])
	budget := 65535 - fixed
	s.Name = c.Str(t, label+".name", budget)
	budget -= len(s.Name)
	s.Uid = c.Str(t, label+".uid", budget)
	budget -= len(s.Uid)
	s.Gid = c.Str(t, label+".gid", budget)
	budget -= len(s.Gid)
	s.Muid = c.Str(t, label+".muid", budget)
	budget -= len(s.Muid)
	if dotu {
		s.Ext = c.Str(t, label+".ext", budget)
		s.Nuid = U32().Draw(t, label+".nuid")
		s.Ngid = U32().Draw(t, label+".ngid")
		s.Nmuid = U32().Draw(t, label+".nmuid")
	}
	return s
}

// Msg draws a message record of the given type.
func (c Cfg) Msg(t *rapid.T, typ uint8, dotu bool) *ref9p.Msg {
	m := &ref9p.Msg{Type: typ, Tag: U16().Draw(t, "tag")}
	const big = 65535
	switch typ {
	case ref9p.Tversion, ref9p.Rversion:
		m.Msize = U32().Draw(t, "msize")
		if rapid.Bool().Draw(t, "stdver") {
			m.Version = rapid.SampledFrom([]string{"9P2000", "9P2000.u", "9P2000.L", "unknown"}).Draw(t, "version")
		} else {
			m.Version = c.Str(t, "version", big)
		}
	case ref9p.Tauth:
		m.Afid = U32().Draw(t, "afid")
		m.Uname = c.Str(t, "uname", big)
		m.Aname = c.Str(t, "aname", big)
		if dotu {
			m.Nuname = U32().Draw(t, "nuname")
		}
	case ref9p.Rauth, ref9p.Rattach:
		m.Qid = QidG(t, "qid")
	case ref9p.Tattach:
		m.Fid = U32().Draw(t, "fid")
		m.Afid = U32().Draw(t, "afid")
		m.Uname = c.Str(t, "uname", big)
		m.Aname = c.Str(t, "aname", big)
		if dotu {
			m.Nuname = U32().Draw(t, "nuname")
		}
	case ref9p.Rerror:
		m.Ename = c.Str(t, "ename", big)
		if dotu {
			m.Ecode = U32().Draw(t, "ecode")
		}
	case ref9p.Tflush:
		m.Oldtag = U16().Draw(t, "oldtag")
	case ref9p.Twalk:
		m.Fid = U32().Draw(t, "fid")
		m.Newfid = U32().Draw(t, "newfid")
		n := c.count(t, "nwname")
		for i := 0; i < n; i++ {
			if n > 20 {
				m.Wname = append(m.Wname, string(Bytes(t, i%5, "wn")))
			} else {
				m.Wname = append(m.Wname, c.Str(t, "wname", big))
			}
		}
	case ref9p.Rwalk:
		n := c.count(t, "nwqid")
		for i := 0; i < n; i++ {
			if n > 20 {
				m.Wqid = append(m.Wqid, ref9p.Qid{Type: uint8(i), Vers: uint32(i) * 77, Path: uint64(i) << 33})
			} else {
				m.Wqid = append(m.Wqid, QidG(t, "wqid"))
			}
		}
	case ref9p.Topen:
		m.Fid = U32().Draw(t, "fid")
		m.Mode = U8().Draw(t, "mode")
	case ref9p.Ropen, ref9p.Rcreate:
		m.Qid = QidG(t, "qid")
		m.Iounit = U32().Draw(t, "iounit")
	case ref9p.Tcreate:
		m.Fid = U32().Draw(t, "fid")
		m.Name = c.Str(t, "name", big)
		m.Perm = U32().Draw(t, "perm")
		m.Mode = U8().Draw(t, "mode")
		if dotu {
			m.Ext = c.Str(t, "ext", big)
		}
	case ref9p.Tread:
		m.Fid = U32().Draw(t, "fid")
		m.Offset = U64().Draw(t, "offset")
		m.Count = U32().Draw(t, "count")
	case ref9p.Rread:
		m.Data = c.data(t)
	case ref9p.Twrite:
		m.Fid = U32().Draw(t, "fid")
		m.Offset = U64().Draw(t, "offset")
		m.Data = c.data(t)
	case ref9p.Rwrite:
		m.Count = U32().Draw(t, "count")
	case ref9p.Tclunk, ref9p.Tremove, ref9p.Tstat:
		m.Fid = U32().Draw(t, "fid")
	case ref9p.Rstat:
		m.Stat = c.Stat(t, dotu, "stat")
	case ref9p.Twstat:
		m.Fid = U32().Draw(t, "fid")
		m.Stat = c.Stat(t, dotu, "stat")
	}
	return m
}

func (c Cfg) count(t *rapid.T, label string) int {
	k := rapid.IntRange(0, 9).Draw(t, label+".class")
	switch {
	case k < 6:
		return rapid.IntRange(0, 4).Draw(t, label)
	case k < 8:
		return rapid.SampledFrom([]int{15, 16, 17}).Draw(t, label)
	case k < 9:
		return rapid.IntRange(0, 40).Draw(t, label)
	default:
		if c.Heavy {
			return 300
		}
		return rapid.IntRange(0, 16).Draw(t, label)
	}
}

func (c Cfg) data(t *rapid.T) []byte {
	max := c.MaxData
	if max == 0 {
		max = 8192
	}
	k := rapid.IntRange(0, 9).Draw(t, "data.class")
	var n int
	switch {
	case k < 2:
		n = 0
	case k < 4:
		n = 1
	case k < 8:
		n = rapid.IntRange(0, 200).Draw(t, "data.len")
	default:
		n = rapid.IntRange(0, max).Draw(t, "data.len")
	}
	return Bytes(t, n, "data")
}

// AnyType draws one of the 27 message types.
func AnyType(t *rapid.T) uint8 {
	return rapid.SampledFrom(ref9p.AllTypes).Draw(t, "type")
}

// StrClass names the class of the longest string in m (for coverage labels).
func StrClass(m *ref9p.Msg) string {
	max := 0
	for _, s := range []string{m.Version, m.Uname, m.Aname, m.Ename, m.Name, m.Ext, m.Stat.Name, m.Stat.Uid, m.Stat.Gid, m.Stat.Muid, m.Stat.Ext} {
		if len(s) > max {
			max = len(s)
		}
	}
	for _, s := range m.Wname {
		if len(s) > max {
			max = len(s)
		}
	}
	switch {
	case max == 0:
		return "0"
	case max <= 2:
		return "1-2"
	case max < 255:
		return "3-254"
	case max <= 256:
		return "255-256"
	case max < 4095:
		return "257-4094"
	case max < 65534:
		return "4095-65533"
	default:
		return "65534-65535"
	}
}
