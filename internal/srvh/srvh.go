//go:build verif

// Package srvh drives one connection to the scripted server one request at a
// time and checks every step against the reference model (fid table, protocol
// rules, FidDestroy accounting).
package srvh

import (
	"fmt"
	"strings"
	"time"

	"verif/internal/model"
	"verif/internal/rawc"
	"verif/internal/ref9p"
	"verif/internal/script"
	"verif/internal/xport"
)

// Shared is the state common to all sessions of one server.
type Shared struct {
	Sv        *script.Server
	Shown     map[int]string // incarnation -> conn name, for every incarnation the implementation was shown
	Destroyed map[int]int    // incarnation -> number of FidDestroy calls
	Auth      bool
}

func NewShared(sv *script.Server, auth bool) *Shared {
	return &Shared{Sv: sv, Shown: map[int]string{}, Destroyed: map[int]int{}, Auth: auth}
}

type Session struct {
	Sh    *Shared
	Name  string
	End   *xport.End
	C     *rawc.C
	M     *model.Conn
	Steps int
	// KnownAttachAsRoot is called when a plain-9P2000 attach naming another user
	// reached the implementation as uid 0 (listed finding, model.UserRule == 1).
	KnownAttachAsRoot func(detail string)
	// Counters
	MustNot, Must, Either int
}

// Open dials a connection and negotiates.
func Open(sh *Shared, name string, dotu bool, msize uint32) (*Session, error) {
	s := &Session{Sh: sh, Name: name}
	s.End = sh.Sv.Dial(name)
	s.C = rawc.New(s.End)
	ver := "9P2000"
	if dotu {
		ver = "9P2000.u"
	}
	r, err := s.C.Version(msize, ver)
	if err != nil || r.Type != ref9p.Rversion {
		return nil, fmt.Errorf("Tversion: %v %+v", err, r)
	}
	s.M = model.NewConn(s.C.Dotu, s.C.Msize, sh.Auth)
	return s, nil
}

func qtypeOf(f *model.Fid) uint8 {
	if f == nil {
		return 0
	}
	return f.Qtype
}

// Violation is an oracle failure (as opposed to a harness problem).
type Violation struct{ Msg string }

func (v *Violation) Error() string { return v.Msg }
func vio(format string, a ...interface{}) error {
	return &Violation{fmt.Sprintf(format, a...)}
}

// Hang is a deadline.
type Hang struct{ Msg string }

func (h *Hang) Error() string { return h.Msg }

// Step sends m (a fresh tag is assigned), waits for the reply and checks the
// step against the model. It returns the reply.
func (s *Session) Step(m *ref9p.Msg, b script.Behav) (*ref9p.Msg, error) {
	s.Steps++
	exp := s.M.Rules(m)
	if s.Sh.Auth && m.Type == ref9p.Tattach && exp.Forward == model.Must && strings.HasPrefix(m.Aname, "deny") {
		exp = model.Expect{Forward: model.MustNot, Why: "the authentication check refuses this attach"}
	}
	key := script.Key(ref9p.Canon(m, s.C.Dotu))
	S := s.Sh.Sv.S
	S.Set(key, b)
	before := len(S.Log())
	r, err := s.C.RPC(m)
	if err != nil {
		if err == rawc.ErrTimeout {
			return nil, &Hang{fmt.Sprintf("no reply to %s (%s)", key, exp.Why)}
		}
		return nil, vio("%s: %v", key, err)
	}
	cm := ref9p.Canon(m, s.C.Dotu) // after RPC: carries the assigned tag
	entries := S.Log()[before:]
	var inv []script.Entry
	var authcheck []script.Entry
	for _, e := range entries {
		switch e.Kind {
		case "enter", "authinit", "authread", "authwrite", "authdestroy":
			inv = append(inv, e)
		case "authcheck":
			authcheck = append(authcheck, e)
		}
	}
	state := s.describe(m)
	f := s.M.Fids[m.Fid]
	forwarded := len(inv) > 0
	switch exp.Forward {
	case model.MustNot:
		s.MustNot++
		if forwarded {
			return r, vio("%s in state [%s] must not reach the implementation (%s) but %s was invoked", key, state, exp.Why, inv[0].Kind+":"+inv[0].Op)
		}
		if r.Type != ref9p.Rerror {
			return r, vio("%s in state [%s] must be refused (%s) but was answered %s", key, state, exp.Why, ref9p.TypeName(r.Type))
		}
		if exp.ErrText != "" && r.Ename != exp.ErrText {
			return r, vio("%s in state [%s]: refused with %q, want %q", key, state, r.Ename, exp.ErrText)
		}
	case model.Must, model.Either:
		if exp.Forward == model.Must {
			s.Must++
			if !forwarded {
				return r, vio("%s in state [%s] satisfies the rules but was not forwarded; reply %s %q", key, state, ref9p.TypeName(r.Type), r.Ename)
			}
		} else {
			s.Either++
			if !forwarded {
				if r.Type != ref9p.Rerror {
					return r, vio("%s in state [%s] was not forwarded yet answered %s", key, state, ref9p.TypeName(r.Type))
				}
				break
			}
		}
		if len(inv) != 1 {
			return r, vio("%s in state [%s] reached the implementation %d times", key, state, len(inv))
		}
		e := inv[0]
		if exp.Via != "" && exp.Forward == model.Must {
			want := exp.Via
			got := e.Kind
			if got == "enter" {
				got = "ops"
			}
			if got != want {
				return r, vio("%s in state [%s] reached %s, want %s", key, state, got, want)
			}
		}
		if e.Kind == "enter" {
			if d := ref9p.Diff(e.Msg, cm); d != "" {
				return r, vio("%s: the implementation saw different arguments than the client sent: %s", key, d)
			}
			if m.Type == ref9p.Tattach {
				n, uid, _ := s.M.ResolveUser(m)
				if s.M.UserRule == 2 && !s.M.Dotu {
					n, uid = e.User, e.Uid
				}
				if e.User != n || e.Uid != uid {
					return r, vio("%s: attach reached the implementation as user %q/%d, the client named %q/%d", key, e.User, e.Uid, n, uid)
				}
				if s.M.UserRule == 1 && !s.M.Dotu && m.Uname != "root" && s.KnownAttachAsRoot != nil {
					s.KnownAttachAsRoot(fmt.Sprintf("Tattach uname=%q reached the implementation as uid 0", m.Uname))
				}
				if s.Sh.Auth && len(authcheck) == 0 {
					return r, vio("%s: attach reached the implementation without an authentication check", key)
				}
			} else if f != nil {
				if f.Inc != 0 && e.Inc != f.Inc {
					return r, vio("%s: fid %d reached the implementation as incarnation %d, it was bound as incarnation %d", key, m.Fid, e.Inc, f.Inc)
				}
				if e.User != f.User {
					return r, vio("%s: fid %d reached the implementation with user %q, it was bound to %q", key, m.Fid, e.User, f.User)
				}
			}
			want := script.ExpectedAnswer(cm, b, qtypeOf(f))
			wm := *want
			wm.Tag = r.Tag
			if d := ref9p.Diff(ref9p.Canon(r, s.C.Dotu), ref9p.Canon(&wm, s.C.Dotu)); d != "" {
				return r, vio("%s in state [%s]: reply differs from the implementation's answer: %s", key, state, d)
			}
		}
	}
	// model update
	inc, newinc := 0, 0
	for _, e := range inv {
		switch e.Kind {
		case "enter":
			inc, newinc = e.Inc, e.NewInc
			for _, x := range []int{e.Inc, e.NewInc, e.AInc} {
				if x != 0 {
					s.Sh.Shown[x] = s.Name
				}
			}
		default:
			inc = e.Inc
			if e.Inc != 0 {
				s.Sh.Shown[e.Inc] = s.Name
			}
		}
	}
	for _, e := range authcheck {
		if e.AInc != 0 {
			s.Sh.Shown[e.AInc] = s.Name
		}
	}
	// which incarnations does this step invalidate?
	var dead []int
	ok := r.Type == m.Type+1
	switch m.Type {
	case ref9p.Tclunk:
		if ok && f != nil {
			dead = append(dead, f.Inc)
		}
	case ref9p.Tremove:
		if f != nil {
			dead = append(dead, f.Inc)
		}
	case ref9p.Twalk:
		if forwarded && m.Newfid != m.Fid && (!ok || len(r.Wqid) != len(m.Wname)) {
			dead = append(dead, newinc)
		}
	case ref9p.Tattach, ref9p.Tauth:
		if forwarded && !ok {
			dead = append(dead, inc)
		}
	}
	s.M.Apply(m, r, inc, newinc)
	if m.Type == ref9p.Tattach && s.M.UserRule == 2 && !s.M.Dotu && len(inv) == 1 {
		if nf := s.M.Fids[m.Fid]; nf != nil && r.Type == ref9p.Rattach {
			nf.User, nf.Uid = inv[0].User, inv[0].Uid
		}
	}
	if err := s.account(entries, dead, key); err != nil {
		return r, err
	}
	return r, nil
}

// Version sends a Tversion in mid-session (the caller keeps the connection
// quiescent: nothing outstanding) and checks the step against the model: the
// valid set is unchanged by it, so no FidDestroy may be reported for a fid
// that is still valid (the probes that follow see whether each fid still
// answers, as the same object and user). The client's and the model's dialect
// and msize follow the Rversion. An Rerror leaves everything as it was.
func (s *Session) Version(msize uint32, version string) (*ref9p.Msg, error) {
	s.Steps++
	key := fmt.Sprintf("Tversion/%d/%s", msize, version)
	S := s.Sh.Sv.S
	before := len(S.Log())
	r, err := s.C.Version(msize, version)
	if err != nil {
		if err == rawc.ErrTimeout {
			return nil, &Hang{fmt.Sprintf("no reply to %s", key)}
		}
		return nil, vio("%s: %v", key, err)
	}
	entries := S.Log()[before:]
	if r.Type == ref9p.Rversion {
		s.M.Version(s.C.Dotu, s.C.Msize)
	}
	if err := s.account(entries, nil, key); err != nil {
		return r, err
	}
	return r, nil
}

// account processes the FidDestroy entries of a step.
func (s *Session) account(entries []script.Entry, dead []int, key string) error {
	sh := s.Sh
	now := map[int]bool{}
	for _, e := range entries {
		if e.Kind != "fiddestroy" || e.Inc == 0 {
			continue
		}
		sh.Destroyed[e.Inc]++
		now[e.Inc] = true
		if sh.Destroyed[e.Inc] > 1 {
			return vio("%s: FidDestroy called %d times for incarnation %d", key, sh.Destroyed[e.Inc], e.Inc)
		}
	}
	for _, d := range dead {
		if d == 0 {
			continue
		}
		if sh.Destroyed[d] == 0 {
			return vio("%s invalidated incarnation %d but FidDestroy had not been called for it when the reply arrived", key, d)
		}
	}
	// nothing that is still valid may have been destroyed
	for fid, f := range s.M.Fids {
		if f.Inc != 0 && sh.Destroyed[f.Inc] > 0 {
			return vio("%s: FidDestroy was called for incarnation %d although fid %d is still valid", key, f.Inc, fid)
		}
	}
	return nil
}

func (s *Session) describe(m *ref9p.Msg) string {
	f := s.M.Fids[m.Fid]
	if m.Type == ref9p.Tattach || m.Type == ref9p.Tauth {
		return fmt.Sprintf("dotu=%v auth=%v", s.M.Dotu, s.M.Auth)
	}
	if f == nil {
		return fmt.Sprintf("fid %d absent", m.Fid)
	}
	k := [...]string{"dir", "file", "auth"}[f.Kind]
	if f.Opened {
		return fmt.Sprintf("fid %d %s open mode %#x user %s", m.Fid, k, f.Omode, f.User)
	}
	return fmt.Sprintf("fid %d %s unopened user %s", m.Fid, k, f.User)
}

// Probe sends a Tstat on every fid number of the universe.
func (s *Session) Probe(universe []uint32) error {
	for _, fid := range universe {
		if _, err := s.Step(&ref9p.Msg{Type: ref9p.Tstat, Fid: fid}, script.Behav{}); err != nil {
			return fmt.Errorf("probe: %w", err)
		}
	}
	return nil
}

// Close drops the connection and checks that the implementation is told of
// the destruction of every incarnation it was shown and that is still valid,
// exactly once, and that ConnClosed is reported once.
func (s *Session) Close() error {
	S := s.Sh.Sv.S
	before := len(S.Log())
	s.C.Close()
	deadline := time.Now().Add(30 * time.Second)
	id := script.ConnID(s.Name)
	for {
		closed := 0
		for _, e := range S.Log()[before:] {
			if e.Kind == "connclosed" && e.Conn == id {
				closed++
			}
		}
		if closed > 0 {
			break
		}
		if time.Now().After(deadline) {
			return &Hang{"ConnClosed not reported after the client closed the connection"}
		}
		time.Sleep(200 * time.Microsecond)
	}
	// give close() time to finish its FidDestroy loop
	want := 0
	for _, f := range s.M.Fids {
		if f.Inc != 0 {
			want++
		}
	}
	for {
		n := 0
		for _, e := range S.Log()[before:] {
			if e.Kind == "fiddestroy" && e.Inc != 0 {
				n++
			}
		}
		if n >= want || time.Now().After(deadline) {
			break
		}
		time.Sleep(200 * time.Microsecond)
	}
	time.Sleep(300 * time.Microsecond)
	closed := 0
	for _, e := range S.Log()[before:] {
		switch e.Kind {
		case "connclosed":
			if e.Conn == id {
				closed++
			}
		case "fiddestroy":
			if e.Inc != 0 {
				s.Sh.Destroyed[e.Inc]++
				if s.Sh.Destroyed[e.Inc] > 1 {
					return vio("disconnect: FidDestroy called %d times for incarnation %d", s.Sh.Destroyed[e.Inc], e.Inc)
				}
			}
		}
	}
	if closed != 1 {
		return vio("disconnect: ConnClosed reported %d times", closed)
	}
	for fid, f := range s.M.Fids {
		if f.Inc != 0 && s.Sh.Destroyed[f.Inc] != 1 {
			return vio("disconnect: fid %d (incarnation %d) was still valid but FidDestroy was called %d times", fid, f.Inc, s.Sh.Destroyed[f.Inc])
		}
	}
	return nil
}
