// Package rawc is a raw 9P client built on the reference codec: it sends
// exactly the bytes the caller chose and decodes replies strictly. It never
// uses go9p's codec.
package rawc

import (
	"encoding/binary"
	"errors"
	"fmt"
	"io"
	"net"
	"sync"
	"time"

	"verif/internal/ref9p"
)

type C struct {
	Conn    net.Conn
	Dotu    bool
	Msize   uint32
	Timeout time.Duration

	frames  chan []byte
	readErr error
	mu      sync.Mutex
	tag     uint16
	// Sent and Got record raw frames in order.
	Sent [][]byte
	Got  [][]byte
	Keep bool
}

var ErrTimeout = errors.New("rawc: timeout waiting for a reply")

func New(conn net.Conn) *C {
	c := &C{Conn: conn, Timeout: 30 * time.Second, frames: make(chan []byte, 1024), Msize: 8192}
	go c.reader()
	return c
}

func (c *C) reader() {
	defer close(c.frames)
	var buf []byte
	tmp := make([]byte, 1<<16)
	for {
		for len(buf) >= 4 {
			sz := int(binary.LittleEndian.Uint32(buf))
			if sz < 7 {
				c.frames <- append([]byte(nil), buf...)
				return
			}
			if len(buf) < sz {
				break
			}
			c.frames <- append([]byte(nil), buf[:sz]...)
			buf = buf[sz:]
		}
		n, err := c.Conn.Read(tmp)
		if n > 0 {
			buf = append(buf, tmp[:n]...)
		}
		if err != nil {
			c.mu.Lock()
			c.readErr = err
			c.mu.Unlock()
			return
		}
	}
}

func (c *C) Close() { _ = c.Conn.Close() }

// SendRaw writes bytes as they are.
func (c *C) SendRaw(b []byte) error {
	if c.Keep {
		c.Sent = append(c.Sent, append([]byte(nil), b...))
	}
	_, err := c.Conn.Write(b)
	return err
}

// Send encodes m in the connection's dialect and writes it.
func (c *C) Send(m *ref9p.Msg) error { return c.SendRaw(ref9p.Encode(m, c.Dotu)) }

// RecvRaw waits for one frame.
func (c *C) RecvRaw(d time.Duration) ([]byte, error) {
	select {
	case f, ok := <-c.frames:
		if !ok {
			c.mu.Lock()
			err := c.readErr
			c.mu.Unlock()
			if err == nil {
				err = io.EOF
			}
			return nil, err
		}
		if c.Keep {
			c.Got = append(c.Got, f)
		}
		return f, nil
	case <-time.After(d):
		return nil, ErrTimeout
	}
}

// Recv waits for one frame and decodes it strictly in the connection's dialect.
func (c *C) Recv() (*ref9p.Msg, []byte, error) {
	f, err := c.RecvRaw(c.Timeout)
	if err != nil {
		return nil, nil, err
	}
	m, _, derr := ref9p.Decode(f, c.Dotu)
	if derr != nil {
		return nil, f, fmt.Errorf("rawc: reply does not decode strictly (dotu=%v): %v: %x", c.Dotu, derr, trunc(f))
	}
	return m, f, nil
}

func trunc(b []byte) []byte {
	if len(b) > 64 {
		return b[:64]
	}
	return b
}

// NextTag returns a fresh tag (never NOTAG).
func (c *C) NextTag() uint16 {
	c.tag++
	if c.tag == ref9p.NOTAG {
		c.tag = 1
	}
	return c.tag
}

// RPC sends m with a fresh tag (NOTAG for Tversion) and waits for the reply
// carrying that tag. Only one request may be outstanding.
func (c *C) RPC(m *ref9p.Msg) (*ref9p.Msg, error) {
	if m.Type == ref9p.Tversion {
		m.Tag = ref9p.NOTAG
	} else {
		m.Tag = c.NextTag()
	}
	if err := c.Send(m); err != nil {
		return nil, err
	}
	r, raw, err := c.Recv()
	if err != nil {
		return nil, err
	}
	if r.Tag != m.Tag {
		return r, fmt.Errorf("rawc: reply tag %d for request tag %d: %x", r.Tag, m.Tag, trunc(raw))
	}
	if r.Type != m.Type+1 && r.Type != ref9p.Rerror {
		return r, fmt.Errorf("rawc: reply type %s for %s", ref9p.TypeName(r.Type), ref9p.TypeName(m.Type))
	}
	return r, nil
}

// RPCTag is RPC with the tag the caller put into m.
func (c *C) RPCTag(m *ref9p.Msg) (*ref9p.Msg, error) {
	if err := c.Send(m); err != nil {
		return nil, err
	}
	r, raw, err := c.Recv()
	if err != nil {
		return nil, err
	}
	if r.Tag != m.Tag {
		return r, fmt.Errorf("rawc: reply tag %d for request tag %d: %x", r.Tag, m.Tag, trunc(raw))
	}
	return r, nil
}

// Version negotiates; on success the client adopts the dialect and msize of the reply.
func (c *C) Version(msize uint32, version string) (*ref9p.Msg, error) {
	// the reply to Tversion has no dialect-specific fields unless it is an Rerror
	m := &ref9p.Msg{Type: ref9p.Tversion, Tag: ref9p.NOTAG, Msize: msize, Version: version}
	if err := c.Send(m); err != nil {
		return nil, err
	}
	f, err := c.RecvRaw(c.Timeout)
	if err != nil {
		return nil, err
	}
	r, _, derr := ref9p.Decode(f, false)
	if derr != nil {
		r, _, derr = ref9p.Decode(f, true)
	}
	if derr != nil {
		return nil, fmt.Errorf("rawc: Rversion does not decode: %v: %x", derr, trunc(f))
	}
	if r.Type == ref9p.Rversion {
		c.Dotu = r.Version == "9P2000.u"
		c.Msize = r.Msize
	}
	return r, nil
}

func (c *C) Attach(fid, afid uint32, uname, aname string, nuname uint32) (*ref9p.Msg, error) {
	return c.RPC(&ref9p.Msg{Type: ref9p.Tattach, Fid: fid, Afid: afid, Uname: uname, Aname: aname, Nuname: nuname})
}
func (c *C) Auth(afid uint32, uname, aname string, nuname uint32) (*ref9p.Msg, error) {
	return c.RPC(&ref9p.Msg{Type: ref9p.Tauth, Afid: afid, Uname: uname, Aname: aname, Nuname: nuname})
}
func (c *C) Walk(fid, newfid uint32, names ...string) (*ref9p.Msg, error) {
	return c.RPC(&ref9p.Msg{Type: ref9p.Twalk, Fid: fid, Newfid: newfid, Wname: names})
}
func (c *C) Open(fid uint32, mode uint8) (*ref9p.Msg, error) {
	return c.RPC(&ref9p.Msg{Type: ref9p.Topen, Fid: fid, Mode: mode})
}
func (c *C) Create(fid uint32, name string, perm uint32, mode uint8, ext string) (*ref9p.Msg, error) {
	return c.RPC(&ref9p.Msg{Type: ref9p.Tcreate, Fid: fid, Name: name, Perm: perm, Mode: mode, Ext: ext})
}
func (c *C) Read(fid uint32, off uint64, count uint32) (*ref9p.Msg, error) {
	return c.RPC(&ref9p.Msg{Type: ref9p.Tread, Fid: fid, Offset: off, Count: count})
}
func (c *C) Write(fid uint32, off uint64, data []byte) (*ref9p.Msg, error) {
	return c.RPC(&ref9p.Msg{Type: ref9p.Twrite, Fid: fid, Offset: off, Data: data})
}
func (c *C) Clunk(fid uint32) (*ref9p.Msg, error) {
	return c.RPC(&ref9p.Msg{Type: ref9p.Tclunk, Fid: fid})
}
func (c *C) Remove(fid uint32) (*ref9p.Msg, error) {
	return c.RPC(&ref9p.Msg{Type: ref9p.Tremove, Fid: fid})
}
func (c *C) Stat(fid uint32) (*ref9p.Msg, error) {
	return c.RPC(&ref9p.Msg{Type: ref9p.Tstat, Fid: fid})
}
func (c *C) Wstat(fid uint32, st *ref9p.Stat) (*ref9p.Msg, error) {
	return c.RPC(&ref9p.Msg{Type: ref9p.Twstat, Fid: fid, Stat: *st})
}

// NoChangeStat is the Twstat record that changes nothing.
func NoChangeStat() ref9p.Stat {
	return ref9p.Stat{Type: 0xFFFF, Dev: 0xFFFFFFFF, Qid: ref9p.Qid{Type: 0xFF, Vers: 0xFFFFFFFF, Path: 0xFFFFFFFFFFFFFFFF},
		Mode: 0xFFFFFFFF, Atime: 0xFFFFFFFF, Mtime: 0xFFFFFFFF, Length: 0xFFFFFFFFFFFFFFFF,
		Nuid: 0xFFFFFFFF, Ngid: 0xFFFFFFFF, Nmuid: 0xFFFFFFFF}
}
