// Package conv maps between go9p's Fcall and the reference message record, and
// drives go9p's message constructors from a reference record.
package conv

import (
	"fmt"

	"github.com/rminnich/go9p"
	"verif/internal/ref9p"
)

func Qid(q go9p.Qid) ref9p.Qid  { return ref9p.Qid{Type: q.Type, Vers: q.Version, Path: q.Path} }
func GQid(q ref9p.Qid) go9p.Qid { return go9p.Qid{Type: q.Type, Version: q.Vers, Path: q.Path} }

func Stat(d *go9p.Dir) ref9p.Stat {
	return ref9p.Stat{Type: d.Type, Dev: d.Dev, Qid: Qid(d.Qid), Mode: d.Mode, Atime: d.Atime, Mtime: d.Mtime,
		Length: d.Length, Name: d.Name, Uid: d.Uid, Gid: d.Gid, Muid: d.Muid, Ext: d.Ext,
		Nuid: d.Uidnum, Ngid: d.Gidnum, Nmuid: d.Muidnum}
}

// DirSize is put into the (derived) Size field of every Dir built by GDir.
var DirSize uint16

func GDir(s *ref9p.Stat) *go9p.Dir {
	return &go9p.Dir{Size: DirSize, Type: s.Type, Dev: s.Dev, Qid: GQid(s.Qid), Mode: s.Mode, Atime: s.Atime, Mtime: s.Mtime,
		Length: s.Length, Name: s.Name, Uid: s.Uid, Gid: s.Gid, Muid: s.Muid, Ext: s.Ext,
		Uidnum: s.Nuid, Gidnum: s.Ngid, Muidnum: s.Nmuid}
}

// FromFcall reads the fields that go9p's decoder sets for fc.Type.
func FromFcall(fc *go9p.Fcall) *ref9p.Msg {
	m := &ref9p.Msg{Type: fc.Type, Tag: fc.Tag}
	m.Msize, m.Version = fc.Msize, fc.Version
	m.Fid, m.Afid, m.Newfid = fc.Fid, fc.Afid, fc.Newfid
	m.Uname, m.Aname, m.Nuname = fc.Uname, fc.Aname, fc.Unamenum
	m.Ename, m.Ecode = fc.Error, fc.Errornum
	m.Oldtag = fc.Oldtag
	m.Wname = fc.Wname
	for _, q := range fc.Wqid {
		m.Wqid = append(m.Wqid, Qid(q))
	}
	m.Mode, m.Qid, m.Iounit = fc.Mode, Qid(fc.Qid), fc.Iounit
	m.Name, m.Perm, m.Ext = fc.Name, fc.Perm, fc.Ext
	m.Offset, m.Count = fc.Offset, fc.Count
	m.Data = fc.Data
	m.Stat = Stat(&fc.Dir)
	if fc.Type == ref9p.Tcreate {
		m.Ext = fc.Ext
	}
	return m
}

// Pack calls the go9p constructor for m.Type on fc.
func Pack(fc *go9p.Fcall, m *ref9p.Msg, dotu bool) error {
	switch m.Type {
	case ref9p.Tversion:
		return go9p.PackTversion(fc, m.Msize, m.Version)
	case ref9p.Rversion:
		return go9p.PackRversion(fc, m.Msize, m.Version)
	case ref9p.Tauth:
		return go9p.PackTauth(fc, m.Afid, m.Uname, m.Aname, m.Nuname, dotu)
	case ref9p.Rauth:
		q := GQid(m.Qid)
		return go9p.PackRauth(fc, &q)
	case ref9p.Tattach:
		return go9p.PackTattach(fc, m.Fid, m.Afid, m.Uname, m.Aname, m.Nuname, dotu)
	case ref9p.Rattach:
		q := GQid(m.Qid)
		return go9p.PackRattach(fc, &q)
	case ref9p.Rerror:
		return go9p.PackRerror(fc, m.Ename, m.Ecode, dotu)
	case ref9p.Tflush:
		return go9p.PackTflush(fc, m.Oldtag)
	case ref9p.Rflush:
		return go9p.PackRflush(fc)
	case ref9p.Twalk:
		return go9p.PackTwalk(fc, m.Fid, m.Newfid, m.Wname)
	case ref9p.Rwalk:
		qs := make([]go9p.Qid, len(m.Wqid))
		for i, q := range m.Wqid {
			qs[i] = GQid(q)
		}
		return go9p.PackRwalk(fc, qs)
	case ref9p.Topen:
		return go9p.PackTopen(fc, m.Fid, m.Mode)
	case ref9p.Ropen:
		q := GQid(m.Qid)
		return go9p.PackRopen(fc, &q, m.Iounit)
	case ref9p.Tcreate:
		return go9p.PackTcreate(fc, m.Fid, m.Name, m.Perm, m.Mode, m.Ext, dotu)
	case ref9p.Rcreate:
		q := GQid(m.Qid)
		return go9p.PackRcreate(fc, &q, m.Iounit)
	case ref9p.Tread:
		return go9p.PackTread(fc, m.Fid, m.Offset, m.Count)
	case ref9p.Rread:
		return go9p.PackRread(fc, m.Data)
	case ref9p.Twrite:
		return go9p.PackTwrite(fc, m.Fid, m.Offset, uint32(len(m.Data)), m.Data)
	case ref9p.Rwrite:
		return go9p.PackRwrite(fc, m.Count)
	case ref9p.Tclunk:
		return go9p.PackTclunk(fc, m.Fid)
	case ref9p.Rclunk:
		return go9p.PackRclunk(fc)
	case ref9p.Tremove:
		return go9p.PackTremove(fc, m.Fid)
	case ref9p.Rremove:
		return go9p.PackRremove(fc)
	case ref9p.Tstat:
		return go9p.PackTstat(fc, m.Fid)
	case ref9p.Rstat:
		return go9p.PackRstat(fc, GDir(&m.Stat), dotu)
	case ref9p.Twstat:
		return go9p.PackTwstat(fc, m.Fid, GDir(&m.Stat), dotu)
	case ref9p.Rwstat:
		return go9p.PackRwstat(fc)
	}
	return fmt.Errorf("conv: no constructor for type %d", m.Type)
}
