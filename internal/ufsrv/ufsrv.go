// Package ufsrv starts go9p's Unix file server in-process on a scratch
// directory and connects clients to it over xport pairs.
package ufsrv

import (
	"os"
	"sync"

	"github.com/rminnich/go9p"
	"verif/internal/rawc"
	"verif/internal/xport"
)

var silenceOnce sync.Once

// Silence redirects os.Stdout to /dev/null: Ufs.Wstat prints debug lines with
// fmt.Printf. Test results are still reported through the evidence files.
func Silence() {
	silenceOnce.Do(func() {
		if f, err := os.OpenFile(os.DevNull, os.O_WRONLY, 0); err == nil {
			os.Stdout = f
		}
	})
}

var logOnce sync.Once
var theLog *go9p.Logger

func sharedLog() *go9p.Logger {
	logOnce.Do(func() { theLog = go9p.NewLogger(64) })
	return theLog
}

// Start returns a started Ufs exporting root.
func Start(root string, dotu bool, msize uint32) *go9p.Ufs {
	Silence()
	u := new(go9p.Ufs)
	u.Dotu = dotu
	u.Id = "ufs"
	u.Root = root
	u.Msize = msize
	u.Log = sharedLog() // Srv.Start would otherwise start one logger goroutine per server
	if !u.Start(u) {
		panic("ufsrv: Start failed")
	}
	return u
}

// Conn attaches a new in-memory connection to the server and returns the
// harness end.
func Conn(u *go9p.Ufs, name string) *xport.End {
	h, l := xport.Pair(name)
	u.NewConn(l)
	return h
}

// Raw returns a raw reference client on a new connection.
func Raw(u *go9p.Ufs, name string) *rawc.C { return rawc.New(Conn(u, name)) }

// Mount returns a go9p client mounted on a new connection as uid 0.
// msize is the payload size passed to MountConn (the client adds IOHDRSZ).
func Mount(u *go9p.Ufs, name string, aname string, msize uint32) (*go9p.Clnt, *xport.End, error) {
	h := Conn(u, name)
	user := go9p.OsUsers.Uid2User(0)
	c, err := go9p.MountConn(h, aname, msize, user)
	return c, h, err
}
